(* C16 -- Collection operations: filter, sort, groupby, get/select, set operators, attaching features.
   Only statements here; proofs are in proof/C16_Lemmas.v and lib/C16_StableSort.v. *)
From Coq Require Import List ZArith NArith Bool Permutation Sorted.
From Coq.Strings Require Import Byte.
Import ListNotations.
From SV Require Import Text C16_StableSort C16_Model C16_Lemmas C16_More C16_Place.

(* filter: exactly the elements satisfying all conditions, in input order; the receiver is replaced only with inplace *)
Theorem C16_filter_spec : forall inplace conds objs, forallb (cond_ok objs) conds = true ->
  m_filter_method inplace conds objs =
  Ok (filter (holds_all conds) objs, if inplace then filter (holds_all conds) objs else objs).
Proof. exact filter_method_spec. Qed.
Print Assumptions C16_filter_spec.

(* operator aliases: max = le, min = ge, in, lowerin = in on the lower-cased value, lowereq = eq on the lower-cased value *)
Theorem C16_filter_aliases :
  assoc (bs "max"%bs) op_table = assoc (bs "le"%bs) op_table /\
  assoc (bs "min"%bs) op_table = assoc (bs "ge"%bs) op_table /\
  assoc (bs "in"%bs) op_table = Some OIn /\ assoc (bs "lowerin"%bs) op_table = Some OLowerin /\
  assoc (bs "lowereq"%bs) op_table = Some OLowereq /\
  (forall a v, apply_op OLowerin (PStr a) v = apply_op OIn (PStr (lower a)) v) /\
  (forall a v, apply_op OLowereq (PStr a) v = apply_op OEq (PStr (lower a)) v).
Proof. exact filter_aliases. Qed.
Print Assumptions C16_filter_aliases.

(* sort: the loop of stable sorts over the keys (last key first) equals ONE stable insertion sort by the lexicographic
   order of the key tuple; hence a permutation, sorted, and every class of elements with equal key tuples keeps its
   input order (stability) -- for every key spec, with and without reverse, for every list *)
Theorem C16_sort_stable_lex : forall ks reverse objs,
  m_sort ks reverse objs = isort (lexle (keyfuncs ks) reverse) objs /\
  Permutation (m_sort ks reverse objs) objs /\
  StronglySorted (fun x y => lexle (keyfuncs ks) reverse x y = true) (m_sort ks reverse objs) /\
  (forall a, filter (eqv (lexle (keyfuncs ks) reverse) a) (m_sort ks reverse objs) =
             filter (eqv (lexle (keyfuncs ks) reverse) a) objs).
Proof. exact sort_spec. Qed.
Print Assumptions C16_sort_stable_lex.

(* what the order is: the first key decides, ties go to the remaining keys; reverse flips every key; a key orders by
   Python's < on its values; the default key is Feature.__lt__ / BioSeq.__lt__ *)
Theorem C16_sort_order : forall k kfs r x y,
  lexle (k :: kfs) r x y =
    (if dir r (key_le k) x y then (if dir r (key_le k) y x then lexle kfs r x y else true) else false) /\
  lexle [] r x y = true /\
  dir true (key_le k) x y = key_le k y x /\ dir false (key_le k) x y = key_le k x y /\
  (k <> KDefault -> key_le k x y = negb (pv_ltb (keyval k y) (keyval k x))) /\
  key_le KDefault x y = negb (elem_ltb y x).
Proof. exact (fun k kfs r x y => conj (lexle_unfold k kfs r x y) (conj eq_refl (conj eq_refl (conj eq_refl (conj (key_le_meaning k x y) eq_refl))))). Qed.
Print Assumptions C16_sort_order.

(* the general radix law behind it, for any two total preorders *)
Theorem C16_isort_radix : forall (le1 le2 : elem -> elem -> bool) l, preorder le1 -> preorder le2 ->
  isort le1 (isort le2 l) = isort (lex le1 le2) l.
Proof. exact (fun le1 le2 l => isort_radix le1 le2 l). Qed.
Print Assumptions C16_isort_radix.

(* groupby: the group under a key path holds exactly the elements with that key path, in input order; so the groups
   are pairwise disjoint and every element is in the group of its own key path *)
Theorem C16_groupby_partition : forall ks objs t p, m_groupby ks objs = Ok t -> length p = length (keyfuncs ks) ->
  glookup p t = filter (fun x => path_eqb (keypath (keyfuncs ks) x) p) objs /\
  (forall x, In x (glookup p t) <-> In x objs /\ keypath (keyfuncs ks) x = p).
Proof.
  exact (fun ks objs t p H Hp => conj (groupby_spec ks objs t p H Hp)
          (fun x => iff_trans (groupby_member ks objs t x p H Hp)
                      (and_iff_compat_l _ (path_eqb_eq _ _)))).
Qed.
Print Assumptions C16_groupby_partition.

(* groupby, completely (non-empty input): at every level the keys appear in order of first occurrence, below each key
   sits the grouping by the remaining keys of exactly the elements carrying it, at the bottom the elements in input order *)
Theorem C16_groupby_complete : forall ks objs t, m_groupby ks objs = Ok t -> objs <> [] ->
  t = spec_tree (keyfuncs ks) objs.
Proof. exact groupby_complete. Qed.
Print Assumptions C16_groupby_complete.

Theorem C16_first_occ : forall l v u,
  NoDup (first_occ l) /\ (In u (first_occ l) <-> In u l) /\
  first_occ (l ++ [v]) = (if existsb (pv_eqb v) (first_occ l) then first_occ l else first_occ l ++ [v]).
Proof. exact (fun l v u => conj (first_occ_NoDup l) (conj (first_occ_In l u) (first_occ_snoc l v))). Qed.
Print Assumptions C16_first_occ.

(* get / select: all / the first feature whose type matches case-insensitively; total on features without a type *)
Theorem C16_get_select_total : forall t fts, forallb type_ok fts = true ->
  m_select t fts = Ok (filter (matches t) fts) /\ m_get t fts = Ok (hd_error (filter (matches t) fts)).
Proof. exact select_spec. Qed.
Print Assumptions C16_get_select_total.

Theorem C16_typeless_never_matches : forall t x, mget k_type x = PNone -> type_matches t x = Ok false.
Proof. exact typeless_skipped. Qed.
Print Assumptions C16_typeless_never_matches.

(* set operators: membership under element equality *)
Theorem C16_setops_spec : forall a b x,
  (In x (op_and a b) <-> In x a /\ mem x b = true) /\
  (In x (op_or a b) <-> In x a \/ (In x b /\ mem x a = false)) /\
  (In x (op_sub a b) <-> In x a /\ mem x b = false) /\
  (In x (op_xor a b) <-> In x (op_or a b) /\ mem x (op_and a b) = false).
Proof. exact setops_spec. Qed.
Print Assumptions C16_setops_spec.

Theorem C16_mem_spec : forall x l, mem x l = true <-> exists y, In y l /\ elem_eqb x y = true.
Proof. exact mem_spec. Qed.
Print Assumptions C16_mem_spec.

(* ... order preserving: every result is a sub-list of a followed by a sub-list of b *)
Theorem C16_setops_order : forall a b,
  (exists p, op_and a b = filter p a) /\ (exists q, op_or a b = a ++ filter q b) /\ (exists p, op_sub a b = filter p a) /\
  (exists p q, op_xor a b = filter p a ++ filter q b).
Proof. exact setops_order. Qed.
Print Assumptions C16_setops_order.

(* ... the in-place forms compute the same lists, the reflected forms are the receiver's operator as coded, a ^ b = (a|b) - (a&b) *)
Theorem C16_setops_forms : forall a b,
  m_setop 8 a b = m_setop 0 a b /\ m_setop 9 a b = m_setop 1 a b /\ m_setop 10 a b = m_setop 2 a b /\
  m_setop 11 a b = m_setop 3 a b /\
  m_setop 4 a b = op_and b a /\ m_setop 5 a b = op_or b a /\ m_setop 6 a b = op_sub a b /\ m_setop 7 a b = op_xor b a /\
  m_setop 3 a b = op_sub (op_or a b) (op_and a b).
Proof. exact setops_forms. Qed.
Print Assumptions C16_setops_forms.

(* basket.fts = fs / add_fts, for all baskets and feature lists (also features without a seqid or with a seqid no sequence
   has: they stay unattached): each sequence holds what attach_spec says *)
Theorem C16_attach_by_seqid : forall add seqs fs, m_attach add seqs fs = attach_spec add [] seqs fs.
Proof. exact attach_set_spec. Qed.
Print Assumptions C16_attach_by_seqid.

(* todict: keys in order of first occurrence, each bound to the LAST element carrying that id *)
Theorem C16_todict_spec : forall objs,
  map fst (m_todict objs) = first_occ (map (mget k_id) objs) /\
  (forall k, pv_assoc k (m_todict objs) = last_with k objs) /\
  (forall k x, last_with k (objs ++ [x]) = if pv_eqb (mget k_id x) k then Some x else last_with k objs).
Proof. exact (fun objs => conj (proj1 (todict_spec objs)) (conj (proj2 (todict_spec objs)) (fun k x => last_with_snoc k objs x))). Qed.
Print Assumptions C16_todict_spec.

(* element equality (Feature.__eq__ / BioSeq.__eq__) is an equivalence relation on elements whose metadata is a dict,
   and membership respects it -- so "set semantics under element equality" is meaningful *)
Theorem C16_elem_eq_equivalence :
  (forall x, meta_ok x = true -> elem_eqb x x = true) /\
  (forall x y, meta_ok x = true -> meta_ok y = true -> elem_eqb x y = true -> elem_eqb y x = true) /\
  (forall x y z, elem_eqb x y = true -> elem_eqb y z = true -> elem_eqb x z = true).
Proof. exact elem_eqb_equiv. Qed.
Print Assumptions C16_elem_eq_equivalence.

Theorem C16_mem_respects_eq : forall x y l, elem_eqb x y = true -> mem y l = true -> mem x l = true.
Proof. exact mem_respects. Qed.
Print Assumptions C16_mem_respects_eq.

Theorem C16_wf_elements_have_dict_meta : forall f x, elem_ok f x = true -> meta_ok x = true.
Proof. exact elem_ok_meta_ok. Qed.
Print Assumptions C16_wf_elements_have_dict_meta.

(* sort with a single key (the documented defaults are of this form): sorted by that key, ties in input order *)
Theorem C16_sort_one_key : forall k r objs,
  m_sort (KsTuple [k]) r objs = isort (dir r (key_le k)) objs /\
  StronglySorted (fun x y => dir r (key_le k) x y = true) (m_sort (KsTuple [k]) r objs) /\
  (forall a, filter (eqv (dir r (key_le k)) a) (m_sort (KsTuple [k]) r objs) = filter (eqv (dir r (key_le k)) a) objs).
Proof. exact sort_one_key. Qed.
Print Assumptions C16_sort_one_key.

(* the default orders: sequences by id; features by seqid, then by (range start, range stop) *)
Theorem C16_sort_default_orders : forall x y,
  key_le (KMeta k_id) x y = negb (pv_ltb (mget k_id y) (mget k_id x)) /\
  (efeat x = true -> efeat y = true ->
   key_le KDefault x y =
   negb (if pv_eqb (mget k_seqid y) (mget k_seqid x) then rng_ltb y x else pv_ltb (mget k_seqid y) (mget k_seqid x))) /\
  rng_ltb x y = (Z.ltb (fst (rng x)) (fst (rng y)) || (Z.eqb (fst (rng x)) (fst (rng y)) && Z.ltb (snd (rng x)) (snd (rng y)))) /\
  m_sort (KsOne KDefault) false = m_sort (KsTuple [KDefault]) false.
Proof. exact (fun x y => conj (default_seq_order x y) (conj (default_feature_order x y) (conj (rng_ltb_meaning x y) eq_refl))). Qed.
Print Assumptions C16_sort_default_orders.

(* reflected operators (plain list on the left): membership as coded *)
Theorem C16_setops_reflected : forall a b x,
  (In x (m_setop 4 a b) <-> In x b /\ mem x a = true) /\
  (In x (m_setop 5 a b) <-> In x b \/ (In x a /\ mem x b = false)) /\
  (In x (m_setop 6 a b) <-> In x a /\ mem x b = false) /\
  (In x (m_setop 7 a b) <-> In x (op_or b a) /\ mem x (op_and b a) = false).
Proof. exact setops_reflected. Qed.
Print Assumptions C16_setops_reflected.

(* every group of a groupby result is non-empty *)
Theorem C16_groupby_nonempty_groups : forall (f : elem -> pv) objs v, In v (first_occ (map f objs)) ->
  filter (fun x => pv_eqb (f x) v) objs <> [].
Proof. exact group_nonempty. Qed.
Print Assumptions C16_groupby_nonempty_groups.

(* what "matches" means: equality of the lower-cased type with the lower-cased request(s) *)
Theorem C16_matches_meaning : forall x s, mget k_type x = PStr s ->
  (forall u, matches (TOne u) x = str_eqb (lower s) (lower u)) /\
  (forall l, matches (TMany l) x = existsb (fun u => str_eqb (lower s) (lower u)) l).
Proof. exact matches_meaning. Qed.
Print Assumptions C16_matches_meaning.

(* in a history only the in-place forms change the collection *)
Theorem C16_noninplace_steps_pure : forall cur conds ks t code b, N.ltb code 8 = true ->
  step_next (HFilter false conds) cur = cur /\ step_next (HGroup ks) cur = cur /\ step_next (HSelect t) cur = cur /\
  step_next (HGet t) cur = cur /\ step_next HTodict cur = cur /\ step_next (HSetop code b) cur = cur.
Proof. exact noninplace_pure. Qed.
Print Assumptions C16_noninplace_steps_pure.


(* ---------------------------------------------------------------- round 6 *)
(* THE stable sort: any list that is sorted and in which every class of tied elements keeps the order it had in l is
   isort le l -- so the theorems above characterise the result of sort completely *)
Theorem C16_stable_sort_unique : forall (le : elem -> elem -> bool) l l', preorder le -> sorted le l' ->
  (forall a, filter (eqv le a) l' = filter (eqv le a) l) -> l' = isort le l.
Proof. exact (fun le l l' Hp => stable_sort_unique le Hp l l'). Qed.
Print Assumptions C16_stable_sort_unique.

(* reverse=True: the stable sort by the flipped order = reverse . stable sort . reverse ... *)
Theorem C16_sort_reverse_law : forall ks objs,
  m_sort ks true objs = rev (m_sort ks false (rev objs)) /\
  (forall (le : elem -> elem -> bool) l, preorder le -> isort (flip_le le) l = rev (isort le (rev l))).
Proof. exact (fun ks objs => conj (sort_reverse_law ks objs) (fun le l Hp => isort_flip_rev le l Hp)). Qed.
Print Assumptions C16_sort_reverse_law.

(* ... which is not the reversed ascending sort: tied elements keep their input order *)
Theorem C16_sort_reverse_is_not_reversed_sort : exists ks objs, wf_C16 (RSort objs ks true) = true /\
  m_sort ks true objs = objs /\ m_sort ks true objs <> rev (m_sort ks false objs).
Proof. exact reverse_not_reversed_sort. Qed.
Print Assumptions C16_sort_reverse_is_not_reversed_sort.

(* get / select with several types: membership of the lower-cased type in the lower-cased tuple; a str request is the
   one-element tuple; equality, so only the SET of requested types matters (order, repetitions, list or tuple do not) *)
Theorem C16_matches_tuple_membership : forall x s, mget k_type x = PStr s ->
  (forall l, matches (TMany l) x = true <-> In (lower s) (map lower l)) /\
  (forall u, matches (TOne u) x = matches (TMany [u]) x) /\
  (forall u, matches (TOne u) x = true <-> lower s = lower u) /\
  (forall l1 l2, (forall u, In u (map lower l1) <-> In u (map lower l2)) -> matches (TMany l1) x = matches (TMany l2) x).
Proof. exact matches_tuple. Qed.
Print Assumptions C16_matches_tuple_membership.

Theorem C16_matching_is_not_containment : exists x y u, wf_C16 (RGet [x; y] (TOne u)) = true /\
  (exists s, mget k_type x = PStr s /\ is_infix (lower s) (lower u) = true) /\
  (exists s, mget k_type y = PStr s /\ is_infix (lower s) (lower u) = true) /\
  matches (TOne u) x = false /\ matches (TOne u) y = false /\ m_get (TOne u) [x; y] = Ok None /\
  m_select (TMany [u; u]) [x; y] = Ok [].
Proof. exact matching_not_containment. Qed.
Print Assumptions C16_matching_is_not_containment.

(* str containment as used by in / lowerin / contains *)
Theorem C16_containment_spec : forall a b,
  (is_prefix a b = true <-> exists q, b = a ++ q) /\ (is_infix a b = true <-> exists p q, b = p ++ a ++ q).
Proof. exact (fun a b => conj (is_prefix_spec a b) (is_infix_spec a b)). Qed.
Print Assumptions C16_containment_spec.

Theorem C16_in_operators_meaning :
  (forall a l, apply_op OIn a (FL l) = Ok (existsb (pv_eqb a) l)) /\
  (forall a l, apply_op OIn a (FL l) = Ok true <-> In a l) /\
  (forall t s, apply_op OIn (PStr t) (FV (PStr s)) = Ok (is_infix t s)) /\
  (forall t s, apply_op OLowerin (PStr t) (FV (PStr s)) = Ok (is_infix (lower t) s)) /\
  (forall t l, apply_op OLowerin (PStr t) (FL l) = Ok (existsb (pv_eqb (PStr (lower t))) l)) /\
  (forall t s, apply_op OContains (PStr s) (FV (PStr t)) = Ok (is_infix t s)) /\
  (forall t v, apply_op OLowereq (PStr t) (FV v) = Ok (pv_eqb (PStr (lower t)) v)).
Proof. exact in_ops_meaning. Qed.
Print Assumptions C16_in_operators_meaning.

(* a missing key and a key bound to None cannot be told apart by any condition *)
Theorem C16_missing_key_reads_none : forall k x y c,
  ((assoc k (emeta x) = None \/ assoc k (emeta x) = Some PNone) -> mget k x = PNone) /\
  ((forall key, getv key x = getv key y) -> cond_eval c x = cond_eval c y).
Proof. exact (fun k x y c => conj (missing_reads_none k x) (cond_sees_getv c x y)). Qed.
Print Assumptions C16_missing_key_reads_none.

(* conditions are combined with AND: their order does not matter, and filtering in two goes equals filtering once *)
Theorem C16_filter_conditions_commute : forall conds conds' c1 c2 objs,
  (Permutation conds conds' -> filter (holds_all conds) objs = filter (holds_all conds') objs) /\
  filter (holds_all (c1 ++ c2)) objs = filter (holds_all c2) (filter (holds_all c1) objs).
Proof. exact (fun conds conds' c1 c2 objs => conj (filter_conds_perm conds conds' objs) (filter_app_conds c1 c2 objs)). Qed.
Print Assumptions C16_filter_conditions_commute.

(* the in-place forms leave in the receiver exactly what the not-in-place forms return (which leave the receiver alone) *)
Theorem C16_inplace_refines : forall conds objs l b code, m_filter conds objs = Ok l -> N.ltb code 4 = true ->
  m_filter_method false conds objs = Ok (l, objs) /\ m_filter_method true conds objs = Ok (l, l) /\
  step_next (HFilter true conds) objs = l /\ step_next (HFilter false conds) objs = objs /\
  step_next (HSetop (code + 8) b) objs = m_setop code objs b /\ m_setop (code + 8) objs b = m_setop code objs b.
Proof. exact inplace_refines. Qed.
Print Assumptions C16_inplace_refines.

(* basket.fts = fs on a basket whose sequences hold no features: attached features + features whose seqid no sequence has
   = fs up to order (nothing lost, nothing attached twice) *)
Theorem C16_attach_partition : forall seqs fs, (forall s, In s seqs -> snd s = []) ->
  Permutation (concat (m_attach false seqs fs) ++
               filter (fun f => negb (existsb (pv_eqb (mget k_seqid f)) (map fst seqs))) fs) fs.
Proof. exact attach_partition. Qed.
Print Assumptions C16_attach_partition.

(* ... and, with or without add, a sequence only ever receives given features whose seqid equals its id *)
Theorem C16_attach_member : forall add seqs fs,
  length (m_attach add seqs fs) = length seqs /\
  forall i sid old g, nth_error seqs i = Some (sid, old) -> nth_error (m_attach add seqs fs) i = Some g ->
  forall f, In f g -> In f old \/ (In f fs /\ mget k_seqid f = sid).
Proof. exact attach_member_m. Qed.
Print Assumptions C16_attach_member.

(* add_fts: a receiving sequence ends up with the stable default-order sort of its old features followed by the new ones *)
Theorem C16_add_fts_sorted : forall old g,
  attach_new true old g = isort (key_le KDefault) (old ++ g) /\
  Permutation (attach_new true old g) (old ++ g) /\
  StronglySorted (fun x y => key_le KDefault x y = true) (attach_new true old g) /\
  (forall a, filter (eqv (key_le KDefault) a) (attach_new true old g) = filter (eqv (key_le KDefault) a) (old ++ g)).
Proof. exact add_fts_sorted. Qed.
Print Assumptions C16_add_fts_sorted.

(* a key string is split like str.split(): these three equations determine split_ws on every string *)
Theorem C16_key_string_split :
  split_ws [] = [] /\
  (forall w, nows w = true -> nonempty w = true -> split_ws w = [w]) /\
  (forall a sep b, is_ws sep = true -> split_ws (a ++ sep :: b) = split_ws a ++ split_ws b) /\
  (forall s, keyfuncs (KsStr s) = map KMeta (split_ws s)).
Proof. exact split_ws_spec. Qed.
Print Assumptions C16_key_string_split.

(* callables as keys (the family the harness hands in); a constant key leaves the order alone in both directions *)
Theorem C16_callable_keys : forall x y r objs,
  keyval KNegLen x = PInt (- elen x) /\ keyval KConst x = PInt 0 /\
  (forall s t, mget s x = PStr t -> keyval (KLowerMeta s) x = PStr (lower t)) /\
  (forall s v, keyval (KMetaOr s v) x = match assoc s (emeta x) with Some w => w | None => v end) /\
  key_le KNegLen x y = negb (Z.ltb (elen x) (elen y)) /\
  m_sort (KsOne KConst) r objs = objs.
Proof. exact callable_keys. Qed.
Print Assumptions C16_callable_keys.

(* group keys / dict keys are compared with Python ==: 1 and '1', None and 'None' are different keys *)
Theorem C16_key_identity :
  (forall a b, pv_eqb a b = true <-> a = b) /\
  (forall z s, pv_eqb (PInt z) (PStr s) = false /\ pv_eqb (PStr s) (PInt z) = false) /\
  (forall s, pv_eqb PNone (PStr s) = false /\ pv_eqb (PStr s) PNone = false) /\
  (forall l v, ~ In v l -> first_occ (l ++ [v]) = first_occ l ++ [v]).
Proof. exact key_identity. Qed.
Print Assumptions C16_key_identity.

Theorem C16_setops_algebra : forall a, forallb meta_ok a = true ->
  op_and a a = a /\ op_or a a = a /\ op_sub a a = [] /\ op_xor a a = [] /\
  op_and a [] = [] /\ op_or a [] = a /\ op_sub a [] = a /\ op_xor a [] = a /\
  op_and [] a = [] /\ op_sub [] a = [].
Proof. exact setops_algebra. Qed.
Print Assumptions C16_setops_algebra.

(* the operator table regenerated from cane._filter (by probing every documented name) is the documented one *)
Theorem C16_op_table_documented :
  op_table = op_table_documented /\
  (forall a b o, fop_of_code a = Some o -> fop_of_code b = Some o -> a = b).
Proof. exact (conj op_table_is_documented fop_codes_injective). Qed.
Print Assumptions C16_op_table_documented.

(* requests sent to basket.fts (the joined feature lists of the sequences) answer sequence by sequence; BioSeq.add_fts is
   add_fts for one sequence without the seqid test *)
Theorem C16_basket_fts_getter : forall t ls old fs, forallb type_ok (m_basket_fts ls) = true ->
  m_select t (m_basket_fts ls) = Ok (concat (map (filter (matches t)) ls)) /\
  m_get t (m_basket_fts ls) = Ok (hd_error (concat (map (filter (matches t)) ls))) /\
  m_seq_add_fts old fs = attach_new true old fs /\ m_seq_add_fts old fs = m_sort (KsOne KDefault) false (old ++ fs) /\
  Permutation (m_seq_add_fts old fs) (old ++ fs).
Proof.
  exact (fun t ls old fs H => conj (proj1 (basket_fts_select t ls H)) (conj (proj2 (basket_fts_select t ls H)) (seq_add_fts_spec old fs))).
Qed.
Print Assumptions C16_basket_fts_getter.

(* groupby PARTITIONS: the groups, read off in the order of the nested dicts, are a permutation of the input (every element
   in exactly one group, with its multiplicity) *)
Theorem C16_groupby_leaves_permutation : forall ks objs t, m_groupby ks objs = Ok t ->
  Permutation (leaves t) objs /\ (objs <> [] -> leaves t = leaves (spec_tree (keyfuncs ks) objs)).
Proof. exact groupby_leaves. Qed.
Print Assumptions C16_groupby_leaves_permutation.


(* ---- round 7: the place a key is looked up, per collection kind ---- *)
(* the decision table: what the helpers see of an object through key k is the value at place_of_key K k - the metadata entry
   for FeatureList / BioBasket (attr='meta'), for BioMatchList the instance attribute, else the attribute of the wrapped
   re.Match, else None; a callable gets the object; the key of a filter condition is len(obj) for 'len', else the metadata entry *)
Theorem C16_place_table :
  (forall K k o, keyval k (xview K o) = place_val K (place_of_key K k) o) /\
  (forall K s o, attr_is_meta K = true -> getv s (xview K o) = place_val K (place_of_cond s) o) /\
  (forall s, place_of_key CFl (KMeta s) = PlMeta s /\ place_of_key CBb (KMeta s) = PlMeta s /\ place_of_key CMl (KMeta s) = PlAttr s) /\
  (forall K k, (forall s, k <> KMeta s) -> place_of_key K k = PlCall k) /\
  (forall s o, place_val CMl (PlAttr s) o =
     match assoc s (xinst o) with Some v => v | None => match assoc s (xwrap o) with Some v => v | None => PNone end end) /\
  (forall K s o, place_val K (PlMeta s) o = match assoc s (emeta (xe o)) with Some v => v | None => PNone end) /\
  place_of_cond k_len = PlLen /\ (forall s, str_eqb s k_len = false -> place_of_cond s = PlMeta s).
Proof. exact place_table_full. Qed.
Print Assumptions C16_place_table.

(* whatever sits at the OTHER places (instance attributes of a Feature / BioSeq; a .meta attribute of a BioMatch) changes no
   answer of groupby, sort or filter *)
Theorem C16_other_place_irrelevant : forall K objs objs', Forall2 (same_place K) objs objs' ->
  (forall ks, x_groupby K ks objs = x_groupby K ks objs') /\
  (forall ks r, x_sort K ks r objs = x_sort K ks r objs') /\
  (forall conds, x_filter K conds objs = x_filter K conds objs').
Proof. exact other_place_irrelevant. Qed.
Print Assumptions C16_other_place_irrelevant.

(* groupby uses EXACTLY the values at the places of its keys: two collections of one kind whose objects agree, position by
   position, on identity and on those values get the same nested grouping (same keys, same order, same members) *)
Theorem C16_groupby_reads_only_place : forall K ks objs objs', Forall2 (same_at K (keyfuncs ks)) objs objs' ->
  vres vtree (x_groupby K ks objs) = vres vtree (x_groupby K ks objs').
Proof. exact groupby_reads_only_place. Qed.
Print Assumptions C16_groupby_reads_only_place.

(* ... and so does sort (keys other than the default order, which compares the elements themselves) *)
Theorem C16_sort_reads_only_place : forall K ks r objs objs', no_default (keyfuncs ks) ->
  Forall2 (same_at K (keyfuncs ks)) objs objs' ->
  map eidx (x_sort K ks r objs) = map eidx (x_sort K ks r objs').
Proof. exact sort_reads_only_place. Qed.
Print Assumptions C16_sort_reads_only_place.

(* ... and filter: only the values at the places of its conditions' keys (len(obj) for len, else the metadata entry) matter *)
Theorem C16_filter_reads_only_place : forall K conds objs objs', attr_is_meta K = true ->
  Forall2 (same_at_c K conds) objs objs' ->
  vres vidx (x_filter K conds objs) = vres vidx (x_filter K conds objs').
Proof. exact filter_reads_only_place. Qed.
Print Assumptions C16_filter_reads_only_place.

(* BioMatchList.groupby(name): the group under v holds exactly the matches whose attribute `name` (instance, else wrapped
   match, else None) is v, in list order *)
Theorem C16_matchlist_groupby_attr : forall s objs t v, x_groupby CMl (KsTuple [KMeta s]) objs = Ok t ->
  glookup [v] t = map (xview CMl) (filter (fun o => pv_eqb (getattr_none s o) v) objs).
Proof. exact matchlist_groupby_attr. Qed.
Print Assumptions C16_matchlist_groupby_attr.

(* a history across collection kinds has NO state: the answer of a step is the answer of that step alone, whatever was grouped,
   sorted or filtered before it, and running the steps in another order permutes the answers *)
Theorem C16_xhist_stateless :
  (forall steps, run_C16_xhist steps = VL [VB (forallb xstep_wf steps); VL (xhist_vals steps)]) /\
  (forall pre s post, nth_error (xhist_vals (pre ++ s :: post)) (length pre) = Some (result (xstep_req s))) /\
  (forall steps steps', Permutation steps steps' -> Permutation (xhist_vals steps) (xhist_vals steps')).
Proof. exact xhist_stateless. Qed.
Print Assumptions C16_xhist_stateless.

(* non-vacuity *)
Example C16_witness_filter :
  let xs := [Ft 0 [(0, 3)%Z] [(k_type, PStr (bs "CDS"%bs)); (bs "n"%bs, PInt 2)]; Ft 1 [(1, 9)%Z] [(bs "n"%bs, PInt 0)];
             Ft 2 [(2, 4)%Z] [(k_type, PStr (bs "cds"%bs)); (bs "n"%bs, PInt 1)]] in
  let conds := [(bs "n_min"%bs, FV (PInt 1)); (bs "len_lt"%bs, FV (PInt 3))] in
  wf_C16 (RFilter false xs conds) = true /\ forallb (cond_ok xs) conds = true /\
  map eidx (filter (holds_all conds) xs) = [2%nat].
Proof. exact (conj eq_refl (conj eq_refl eq_refl)). Qed.

Example C16_witness_sort :
  let xs := [Ft 0 [(0, 1)%Z] [(bs "name"%bs, PStr (bs "b"%bs)); (bs "n"%bs, PInt 1)];
             Ft 1 [(0, 1)%Z] [(bs "name"%bs, PStr (bs "a"%bs)); (bs "n"%bs, PInt 1)];
             Ft 2 [(0, 1)%Z] [(bs "name"%bs, PStr (bs "b"%bs)); (bs "n"%bs, PInt 0)];
             Ft 3 [(0, 1)%Z] [(bs "name"%bs, PStr (bs "a"%bs)); (bs "n"%bs, PInt 1)]] in
  wf_C16 (RSort xs (KsStr (bs "name n"%bs)) false) = true /\
  map eidx (m_sort (KsStr (bs "name n"%bs)) false xs) = [1; 3; 2; 0]%nat /\
  map eidx (m_sort (KsStr (bs "name n"%bs)) true xs) = [0; 2; 1; 3]%nat.
Proof. exact (conj eq_refl (conj eq_refl eq_refl)). Qed.

Example C16_witness_groupby_select_attach :
  let xs := [Ft 0 [(0, 3)%Z] [(k_type, PStr (bs "CDS"%bs)); (k_seqid, PStr (bs "s1"%bs))]; Ft 1 [(1, 9)%Z] [];
             Ft 2 [(2, 4)%Z] [(k_type, PStr (bs "cds"%bs)); (k_seqid, PStr (bs "s2"%bs))];
             Ft 3 [(0, 2)%Z] [(k_type, PStr (bs "gene"%bs)); (k_seqid, PStr (bs "s1"%bs))]] in
  wf_C16 (RGroup xs (KsTuple [KMeta k_seqid])) = true /\
  option_map (fun t => map eidx (glookup [PStr (bs "s1"%bs)] t))
    (match m_groupby (KsTuple [KMeta k_seqid]) xs with Ok t => Some t | Err _ => None end) = Some [0; 3]%nat /\
  match m_groupby (KsStr (bs "type seqid"%bs)) xs with
  | Ok t => vtree t = vtree (spec_tree [KMeta k_type; KMeta k_seqid] xs) /\
            map (fun kt => vpv (fst kt)) (match t with GNode kids => kids | GLeaf _ => [] end)
            = [VS (bs "CDS"%bs); VNone; VS (bs "cds"%bs); VS (bs "gene"%bs)]
  | Err _ => False
  end /\
  map (fun kx => (vpv (fst kx), eidx (snd kx))) (m_todict (map (fun x => with_meta x ((k_id, PInt (Z.of_nat (eidx x mod 2))) :: emeta x)) xs))
    = [(VI 0, 2%nat); (VI 1, 3%nat)] /\
  wf_C16 (RSelect xs (TOne (bs "Cds"%bs))) = true /\ forallb type_ok xs = true /\
  map eidx (filter (matches (TOne (bs "Cds"%bs))) xs) = [0; 2]%nat /\
  wf_C16 (RAttach false [(PStr (bs "s1"%bs), []); (PStr (bs "s2"%bs), []); (PStr (bs "s1"%bs), [])]
            xs) = true /\
  map (map eidx) (attach_spec false [] [(PStr (bs "s1"%bs), []); (PStr (bs "s2"%bs), []); (PStr (bs "s1"%bs), [])]
                    xs) = [[0; 3]; [2]; []]%nat.
Proof. exact (conj eq_refl (conj eq_refl (conj (conj eq_refl eq_refl) (conj eq_refl (conj eq_refl (conj eq_refl (conj eq_refl (conj eq_refl eq_refl)))))))). Qed.

Example C16_witness_round6 :
  let f0 := Ft 0 [(0, 3)%Z] [(k_type, PStr (bs "gene"%bs)); (k_seqid, PStr (bs "s1"%bs))] in
  let f1 := Ft 1 [(2, 9)%Z] [(k_type, PStr (bs "pseudogene"%bs)); (k_seqid, PStr (bs "s2"%bs))] in
  let f2 := Fm 2 [(5, 8)%Z; (1, 2)%Z] [(k_type, PStr (bs "Gene"%bs)); (k_seqid, PStr (bs "s1"%bs))] in
  let f3 := Ft 3 [(0, 1)%Z] [(k_seqid, PInt 1)] in
  let seqs := [(PStr (bs "s1"%bs), []); (PStr (bs "s2"%bs), []); (PStr (bs "1"%bs), [])] in
  wf_C16 (RAttach false seqs [f0; f1; f2; f3]) = true /\ forallb (fun s => match snd s with [] => true | _ :: _ => false end) seqs = true /\
  map (map eidx) (m_attach false seqs [f0; f1; f2; f3]) = [[0; 2]; [1]; []]%nat /\
  forallb meta_ok [f0; f1; f2; f3] = true /\
  wf_C16 (RSelect [f0; f1; f2; f3] (TMany [bs "GENE"%bs; bs "x"%bs])) = true /\
  map eidx (filter (matches (TMany [bs "GENE"%bs; bs "x"%bs])) [f0; f1; f2; f3]) = [0; 2]%nat /\
  map eidx (filter (matches (TOne (bs "PseudoGene"%bs))) [f0; f1; f2; f3]) = [1%nat] /\
  wf_C16 (RSort [f0; f1; f2; f3] (KsTuple [KNegLen; KMetaOr (bs "q"%bs) (PInt 0)]) true) = true /\
  map eidx (m_sort (KsTuple [KNegLen; KMetaOr (bs "q"%bs) (PInt 0)]) true [f0; f1; f2; f3]) = [3; 0; 1; 2]%nat /\
  m_filter [(bs "type_lowerin"%bs, FV (PStr (bs "a pseudogene"%bs)))] [f0; f1; f2] = Ok [f0; f1; f2] /\
  m_filter [(bs "type_in"%bs, FL [PStr (bs "pseudogene"%bs)])] [f0; f1; f2] = Ok [f1] /\
  preorder (key_le KNegLen) /\ nows (bs "name"%bs) = true.
Proof.
  exact (conj eq_refl (conj eq_refl
          (conj eq_refl (conj eq_refl (conj eq_refl (conj eq_refl (conj eq_refl (conj eq_refl (conj eq_refl (conj eq_refl
          (conj eq_refl (conj (key_le_preorder KNegLen) eq_refl)))))))))))).
Qed.

(* a Feature whose metadata says rf=2 while an instance attribute says rf=5; a BioMatch with attribute rf=1 (and a .meta saying
   -1), pos only on the wrapped re.Match, and one whose instance attribute pos hides the wrapped one *)
Example C16_witness_round7 :
  let k_rf := bs "rf"%bs in let k_pos := bs "pos"%bs in
  let f0 := mkX (Ft 0 [(0, 3)%Z] [(k_rf, PInt 2)]) [(k_rf, PInt 5)] [] in
  let f1 := mkX (Ft 1 [(1, 4)%Z] [(k_rf, PInt 0)]) [(k_rf, PInt 5)] [] in
  let f0' := mkX (Ft 0 [(0, 3)%Z] [(k_rf, PInt 2)]) [] [] in
  let f1' := mkX (Ft 1 [(1, 4)%Z] [(k_rf, PInt 0)]) [(k_rf, PInt 7)] [] in
  let m0 := mkX (Sq 0 [] [(k_rf, PInt (-1))]) [(k_rf, PInt 1); (k_seqid, PStr (bs "q"%bs))] [(k_pos, PInt 3)] in
  let m1 := mkX (Sq 1 [] []) [(k_rf, PInt 0); (k_seqid, PNone); (k_pos, PInt 9)] [(k_pos, PInt 3)] in
  xstep_wf (XsGroup CFl [f0; f1] (KsStr k_rf)) = true /\ xstep_wf (XsSort CFl [f0; f1] (KsStr k_rf) false) = true /\
  xstep_wf (XsGroup CMl [m0; m1] (KsStr (bs "rf pos"%bs))) = true /\
  xstep_wf (XsFilter CFl [f0; f1] [(bs "rf_eq"%bs, FV (PInt 2))]) = true /\
  vres vtree (x_groupby CFl (KsStr k_rf) [f0; f1]) = VL [VL [VI 2; VL [VI 0]]; VL [VI 0; VL [VI 1]]] /\
  map eidx (x_sort CFl (KsStr k_rf) false [f0; f1]) = [1; 0]%nat /\
  vres vtree (x_groupby CMl (KsStr (bs "rf pos"%bs)) [m0; m1]) = VL [VL [VI 1; VL [VL [VI 3; VL [VI 0]]]]; VL [VI 0; VL [VL [VI 9; VL [VI 1]]]]] /\
  Forall2 (same_place CFl) [f0; f1] [f0'; f1'] /\ Forall2 (same_at CMl [KMeta k_rf]) [m0; m1] [m0; mkX (Sq 1 [] [(k_rf, PInt 4)]) [(k_rf, PInt 0)] []] /\
  no_default (keyfuncs (KsStr k_rf)) /\
  Forall2 (same_at_c CFl [(bs "rf_eq"%bs, FV (PInt 2))]) [f0; f1] [f0'; f1'].
Proof. exact witness_round7. Qed.
