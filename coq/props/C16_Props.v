(* C16 -- Collection operations: filter, sort, groupby, get/select, set operators, attaching features.
   Only statements here; proofs are in proof/C16_Lemmas.v and lib/C16_StableSort.v. *)
From Coq Require Import List ZArith NArith Bool Permutation Sorted.
From Coq.Strings Require Import Byte.
Import ListNotations.
From SV Require Import Text C16_StableSort C16_Model C16_Lemmas.

(* filter: exactly the elements satisfying all conditions, in input order; the receiver is replaced only with inplace *)
Theorem C16_filter_spec : forall inplace conds objs, forallb (cond_ok objs) conds = true ->
  m_filter_method inplace conds objs =
  Ok (filter (holds_all conds) objs, if inplace then filter (holds_all conds) objs else objs).
Proof. exact filter_method_spec. Qed.
Print Assumptions C16_filter_spec.

(* operator aliases: max = le, min = ge, in, lowerin = in on the lower-cased value, lowereq = eq on the lower-cased value *)
Theorem C16_filter_aliases :
  assoc (bs "max"%bs) op_table = assoc (bs "le"%bs) op_table /\
  assoc (bs "min"%bs) op_table = assoc (bs "ge"%bs) op_table /\
  assoc (bs "in"%bs) op_table = Some OIn /\ assoc (bs "lowerin"%bs) op_table = Some OLowerin /\
  assoc (bs "lowereq"%bs) op_table = Some OLowereq /\
  (forall a v, apply_op OLowerin (PStr a) v = apply_op OIn (PStr (lower a)) v) /\
  (forall a v, apply_op OLowereq (PStr a) v = apply_op OEq (PStr (lower a)) v).
Proof. exact filter_aliases. Qed.
Print Assumptions C16_filter_aliases.

(* sort: the loop of stable sorts over the keys (last key first) equals ONE stable insertion sort by the lexicographic
   order of the key tuple; hence a permutation, sorted, and every class of elements with equal key tuples keeps its
   input order (stability) -- for every key spec, with and without reverse, for every list *)
Theorem C16_sort_stable_lex : forall ks reverse objs,
  m_sort ks reverse objs = isort (lexle (keyfuncs ks) reverse) objs /\
  Permutation (m_sort ks reverse objs) objs /\
  StronglySorted (fun x y => lexle (keyfuncs ks) reverse x y = true) (m_sort ks reverse objs) /\
  (forall a, filter (eqv (lexle (keyfuncs ks) reverse) a) (m_sort ks reverse objs) =
             filter (eqv (lexle (keyfuncs ks) reverse) a) objs).
Proof. exact sort_spec. Qed.
Print Assumptions C16_sort_stable_lex.

(* what the order is: the first key decides, ties go to the remaining keys; reverse flips every key; a key orders by
   Python's < on its values; the default key is Feature.__lt__ / BioSeq.__lt__ *)
Theorem C16_sort_order : forall k kfs r x y,
  lexle (k :: kfs) r x y =
    (if dir r (key_le k) x y then (if dir r (key_le k) y x then lexle kfs r x y else true) else false) /\
  lexle [] r x y = true /\
  dir true (key_le k) x y = key_le k y x /\ dir false (key_le k) x y = key_le k x y /\
  (k <> KDefault -> key_le k x y = negb (pv_ltb (keyval k y) (keyval k x))) /\
  key_le KDefault x y = negb (elem_ltb y x).
Proof. exact (fun k kfs r x y => conj (lexle_unfold k kfs r x y) (conj eq_refl (conj eq_refl (conj eq_refl (conj (key_le_meaning k x y) eq_refl))))). Qed.
Print Assumptions C16_sort_order.

(* the general radix law behind it, for any two total preorders *)
Theorem C16_isort_radix : forall (le1 le2 : elem -> elem -> bool) l, preorder le1 -> preorder le2 ->
  isort le1 (isort le2 l) = isort (lex le1 le2) l.
Proof. exact (fun le1 le2 l => isort_radix le1 le2 l). Qed.
Print Assumptions C16_isort_radix.

(* groupby: the group under a key path holds exactly the elements with that key path, in input order; so the groups
   are pairwise disjoint and every element is in the group of its own key path *)
Theorem C16_groupby_partition : forall ks objs t p, m_groupby ks objs = Ok t -> length p = length (keyfuncs ks) ->
  glookup p t = filter (fun x => path_eqb (keypath (keyfuncs ks) x) p) objs /\
  (forall x, In x (glookup p t) <-> In x objs /\ keypath (keyfuncs ks) x = p).
Proof.
  exact (fun ks objs t p H Hp => conj (groupby_spec ks objs t p H Hp)
          (fun x => iff_trans (groupby_member ks objs t x p H Hp)
                      (and_iff_compat_l _ (path_eqb_eq _ _)))).
Qed.
Print Assumptions C16_groupby_partition.

(* groupby, completely (non-empty input): at every level the keys appear in order of first occurrence, below each key
   sits the grouping by the remaining keys of exactly the elements carrying it, at the bottom the elements in input order *)
Theorem C16_groupby_complete : forall ks objs t, m_groupby ks objs = Ok t -> objs <> [] ->
  t = spec_tree (keyfuncs ks) objs.
Proof. exact groupby_complete. Qed.
Print Assumptions C16_groupby_complete.

Theorem C16_first_occ : forall l v u,
  NoDup (first_occ l) /\ (In u (first_occ l) <-> In u l) /\
  first_occ (l ++ [v]) = (if existsb (pv_eqb v) (first_occ l) then first_occ l else first_occ l ++ [v]).
Proof. exact (fun l v u => conj (first_occ_NoDup l) (conj (first_occ_In l u) (first_occ_snoc l v))). Qed.
Print Assumptions C16_first_occ.

(* get / select: all / the first feature whose type matches case-insensitively; total on features without a type *)
Theorem C16_get_select_total : forall t fts, forallb type_ok fts = true ->
  m_select t fts = Ok (filter (matches t) fts) /\ m_get t fts = Ok (hd_error (filter (matches t) fts)).
Proof. exact select_spec. Qed.
Print Assumptions C16_get_select_total.

Theorem C16_typeless_never_matches : forall t x, mget k_type x = PNone -> type_matches t x = Ok false.
Proof. exact typeless_skipped. Qed.
Print Assumptions C16_typeless_never_matches.

(* set operators: membership under element equality *)
Theorem C16_setops_spec : forall a b x,
  (In x (op_and a b) <-> In x a /\ mem x b = true) /\
  (In x (op_or a b) <-> In x a \/ (In x b /\ mem x a = false)) /\
  (In x (op_sub a b) <-> In x a /\ mem x b = false) /\
  (In x (op_xor a b) <-> In x (op_or a b) /\ mem x (op_and a b) = false).
Proof. exact setops_spec. Qed.
Print Assumptions C16_setops_spec.

Theorem C16_mem_spec : forall x l, mem x l = true <-> exists y, In y l /\ elem_eqb x y = true.
Proof. exact mem_spec. Qed.
Print Assumptions C16_mem_spec.

(* ... order preserving: every result is a sub-list of a followed by a sub-list of b *)
Theorem C16_setops_order : forall a b,
  (exists p, op_and a b = filter p a) /\ (exists q, op_or a b = a ++ filter q b) /\ (exists p, op_sub a b = filter p a) /\
  (exists p q, op_xor a b = filter p a ++ filter q b).
Proof. exact setops_order. Qed.
Print Assumptions C16_setops_order.

(* ... the in-place forms compute the same lists, the reflected forms are the receiver's operator as coded, a ^ b = (a|b) - (a&b) *)
Theorem C16_setops_forms : forall a b,
  m_setop 8 a b = m_setop 0 a b /\ m_setop 9 a b = m_setop 1 a b /\ m_setop 10 a b = m_setop 2 a b /\
  m_setop 11 a b = m_setop 3 a b /\
  m_setop 4 a b = op_and b a /\ m_setop 5 a b = op_or b a /\ m_setop 6 a b = op_sub a b /\ m_setop 7 a b = op_xor b a /\
  m_setop 3 a b = op_sub (op_or a b) (op_and a b).
Proof. exact setops_forms. Qed.
Print Assumptions C16_setops_forms.

(* basket.fts = fs / add_fts, for all baskets and feature lists (also features without a seqid or with a seqid no sequence
   has: they stay unattached): each sequence holds what attach_spec says *)
Theorem C16_attach_by_seqid : forall add seqs fs, m_attach add seqs fs = attach_spec add [] seqs fs.
Proof. exact attach_set_spec. Qed.
Print Assumptions C16_attach_by_seqid.

(* todict: keys in order of first occurrence, each bound to the LAST element carrying that id *)
Theorem C16_todict_spec : forall objs,
  map fst (m_todict objs) = first_occ (map (mget k_id) objs) /\
  (forall k, pv_assoc k (m_todict objs) = last_with k objs) /\
  (forall k x, last_with k (objs ++ [x]) = if pv_eqb (mget k_id x) k then Some x else last_with k objs).
Proof. exact (fun objs => conj (proj1 (todict_spec objs)) (conj (proj2 (todict_spec objs)) (fun k x => last_with_snoc k objs x))). Qed.
Print Assumptions C16_todict_spec.

(* element equality (Feature.__eq__ / BioSeq.__eq__) is an equivalence relation on elements whose metadata is a dict,
   and membership respects it -- so "set semantics under element equality" is meaningful *)
Theorem C16_elem_eq_equivalence :
  (forall x, meta_ok x = true -> elem_eqb x x = true) /\
  (forall x y, meta_ok x = true -> meta_ok y = true -> elem_eqb x y = true -> elem_eqb y x = true) /\
  (forall x y z, elem_eqb x y = true -> elem_eqb y z = true -> elem_eqb x z = true).
Proof. exact elem_eqb_equiv. Qed.
Print Assumptions C16_elem_eq_equivalence.

Theorem C16_mem_respects_eq : forall x y l, elem_eqb x y = true -> mem y l = true -> mem x l = true.
Proof. exact mem_respects. Qed.
Print Assumptions C16_mem_respects_eq.

Theorem C16_wf_elements_have_dict_meta : forall f x, elem_ok f x = true -> meta_ok x = true.
Proof. exact elem_ok_meta_ok. Qed.
Print Assumptions C16_wf_elements_have_dict_meta.

(* sort with a single key (the documented defaults are of this form): sorted by that key, ties in input order *)
Theorem C16_sort_one_key : forall k r objs,
  m_sort (KsTuple [k]) r objs = isort (dir r (key_le k)) objs /\
  StronglySorted (fun x y => dir r (key_le k) x y = true) (m_sort (KsTuple [k]) r objs) /\
  (forall a, filter (eqv (dir r (key_le k)) a) (m_sort (KsTuple [k]) r objs) = filter (eqv (dir r (key_le k)) a) objs).
Proof. exact sort_one_key. Qed.
Print Assumptions C16_sort_one_key.

(* the default orders: sequences by id; features by seqid, then by (range start, range stop) *)
Theorem C16_sort_default_orders : forall x y,
  key_le (KMeta k_id) x y = negb (pv_ltb (mget k_id y) (mget k_id x)) /\
  (efeat x = true -> efeat y = true ->
   key_le KDefault x y =
   negb (if pv_eqb (mget k_seqid y) (mget k_seqid x) then rng_ltb y x else pv_ltb (mget k_seqid y) (mget k_seqid x))) /\
  rng_ltb x y = (Z.ltb (fst (rng x)) (fst (rng y)) || (Z.eqb (fst (rng x)) (fst (rng y)) && Z.ltb (snd (rng x)) (snd (rng y)))) /\
  m_sort (KsOne KDefault) false = m_sort (KsTuple [KDefault]) false.
Proof. exact (fun x y => conj (default_seq_order x y) (conj (default_feature_order x y) (conj (rng_ltb_meaning x y) eq_refl))). Qed.
Print Assumptions C16_sort_default_orders.

(* reflected operators (plain list on the left): membership as coded *)
Theorem C16_setops_reflected : forall a b x,
  (In x (m_setop 4 a b) <-> In x b /\ mem x a = true) /\
  (In x (m_setop 5 a b) <-> In x b \/ (In x a /\ mem x b = false)) /\
  (In x (m_setop 6 a b) <-> In x a /\ mem x b = false) /\
  (In x (m_setop 7 a b) <-> In x (op_or b a) /\ mem x (op_and b a) = false).
Proof. exact setops_reflected. Qed.
Print Assumptions C16_setops_reflected.

(* every group of a groupby result is non-empty *)
Theorem C16_groupby_nonempty_groups : forall (f : elem -> pv) objs v, In v (first_occ (map f objs)) ->
  filter (fun x => pv_eqb (f x) v) objs <> [].
Proof. exact group_nonempty. Qed.
Print Assumptions C16_groupby_nonempty_groups.

(* what "matches" means: equality of the lower-cased type with the lower-cased request(s) *)
Theorem C16_matches_meaning : forall x s, mget k_type x = PStr s ->
  (forall u, matches (TOne u) x = str_eqb (lower s) (lower u)) /\
  (forall l, matches (TMany l) x = existsb (fun u => str_eqb (lower s) (lower u)) l).
Proof. exact matches_meaning. Qed.
Print Assumptions C16_matches_meaning.

(* in a history only the in-place forms change the collection *)
Theorem C16_noninplace_steps_pure : forall cur conds ks t code b, N.ltb code 8 = true ->
  step_next (HFilter false conds) cur = cur /\ step_next (HGroup ks) cur = cur /\ step_next (HSelect t) cur = cur /\
  step_next (HGet t) cur = cur /\ step_next HTodict cur = cur /\ step_next (HSetop code b) cur = cur.
Proof. exact noninplace_pure. Qed.
Print Assumptions C16_noninplace_steps_pure.

(* non-vacuity *)
Example C16_witness_filter :
  let xs := [Ft 0 [(0, 3)%Z] [(k_type, PStr (bs "CDS"%bs)); (bs "n"%bs, PInt 2)]; Ft 1 [(1, 9)%Z] [(bs "n"%bs, PInt 0)];
             Ft 2 [(2, 4)%Z] [(k_type, PStr (bs "cds"%bs)); (bs "n"%bs, PInt 1)]] in
  let conds := [(bs "n_min"%bs, FV (PInt 1)); (bs "len_lt"%bs, FV (PInt 3))] in
  wf_C16 (RFilter false xs conds) = true /\ forallb (cond_ok xs) conds = true /\
  map eidx (filter (holds_all conds) xs) = [2%nat].
Proof. exact (conj eq_refl (conj eq_refl eq_refl)). Qed.

Example C16_witness_sort :
  let xs := [Ft 0 [(0, 1)%Z] [(bs "name"%bs, PStr (bs "b"%bs)); (bs "n"%bs, PInt 1)];
             Ft 1 [(0, 1)%Z] [(bs "name"%bs, PStr (bs "a"%bs)); (bs "n"%bs, PInt 1)];
             Ft 2 [(0, 1)%Z] [(bs "name"%bs, PStr (bs "b"%bs)); (bs "n"%bs, PInt 0)];
             Ft 3 [(0, 1)%Z] [(bs "name"%bs, PStr (bs "a"%bs)); (bs "n"%bs, PInt 1)]] in
  wf_C16 (RSort xs (KsStr (bs "name n"%bs)) false) = true /\
  map eidx (m_sort (KsStr (bs "name n"%bs)) false xs) = [1; 3; 2; 0]%nat /\
  map eidx (m_sort (KsStr (bs "name n"%bs)) true xs) = [0; 2; 1; 3]%nat.
Proof. exact (conj eq_refl (conj eq_refl eq_refl)). Qed.

Example C16_witness_groupby_select_attach :
  let xs := [Ft 0 [(0, 3)%Z] [(k_type, PStr (bs "CDS"%bs)); (k_seqid, PStr (bs "s1"%bs))]; Ft 1 [(1, 9)%Z] [];
             Ft 2 [(2, 4)%Z] [(k_type, PStr (bs "cds"%bs)); (k_seqid, PStr (bs "s2"%bs))];
             Ft 3 [(0, 2)%Z] [(k_type, PStr (bs "gene"%bs)); (k_seqid, PStr (bs "s1"%bs))]] in
  wf_C16 (RGroup xs (KsTuple [KMeta k_seqid])) = true /\
  option_map (fun t => map eidx (glookup [PStr (bs "s1"%bs)] t))
    (match m_groupby (KsTuple [KMeta k_seqid]) xs with Ok t => Some t | Err _ => None end) = Some [0; 3]%nat /\
  match m_groupby (KsStr (bs "type seqid"%bs)) xs with
  | Ok t => vtree t = vtree (spec_tree [KMeta k_type; KMeta k_seqid] xs) /\
            map (fun kt => vpv (fst kt)) (match t with GNode kids => kids | GLeaf _ => [] end)
            = [VS (bs "CDS"%bs); VNone; VS (bs "cds"%bs); VS (bs "gene"%bs)]
  | Err _ => False
  end /\
  map (fun kx => (vpv (fst kx), eidx (snd kx))) (m_todict (map (fun x => with_meta x ((k_id, PInt (Z.of_nat (eidx x mod 2))) :: emeta x)) xs))
    = [(VI 0, 2%nat); (VI 1, 3%nat)] /\
  wf_C16 (RSelect xs (TOne (bs "Cds"%bs))) = true /\ forallb type_ok xs = true /\
  map eidx (filter (matches (TOne (bs "Cds"%bs))) xs) = [0; 2]%nat /\
  wf_C16 (RAttach false [(PStr (bs "s1"%bs), []); (PStr (bs "s2"%bs), []); (PStr (bs "s1"%bs), [])]
            xs) = true /\
  map (map eidx) (attach_spec false [] [(PStr (bs "s1"%bs), []); (PStr (bs "s2"%bs), []); (PStr (bs "s1"%bs), [])]
                    xs) = [[0; 3]; [2]; []]%nat.
Proof. exact (conj eq_refl (conj eq_refl (conj (conj eq_refl eq_refl) (conj eq_refl (conj eq_refl (conj eq_refl (conj eq_refl (conj eq_refl eq_refl)))))))). Qed.
