(* lib/C04_PySlice.v -- CPython slice normalisation and list/str subscripting, with their algebra.
   Sources modelled (CPython 3.12):
     Objects/sliceobject.c  PySlice_Unpack, PySlice_AdjustIndices
     Objects/listobject.c   list_subscript, list_ass_subscript, list_ass_slice, list_item
     Objects/unicodeobject.c unicode_subscript (same index arithmetic as list_subscript)
   Python ints are unbounded here (Z); PY_SSIZE_T_MAX/MIN defaults of PySlice_Unpack are replaced by the
   values PySlice_AdjustIndices clamps them to (valid while len < 2^63). *)
From Coq Require Import List ZArith Bool Lia.
Import ListNotations.
Local Open Scope Z_scope.

Inductive exc := IndexError | ValueError | TypeError.
Inductive res (A : Type) := Ok (x : A) | Err (e : exc).
Arguments Ok {A} x.
Arguments Err {A} e.

Record pyslice := mkslice { sl_start : option Z; sl_stop : option Z; sl_step : option Z }.
Inductive index := IInt (i : Z) | ISlice (s : pyslice).

(* PySlice_AdjustIndices, one bound *)
Definition adj_bound (len step i : Z) : Z :=
  if i <? 0 then
    (let i' := i + len in if i' <? 0 then (if step <? 0 then -1 else 0) else i')
  else if i >=? len then (if step <? 0 then len - 1 else len) else i.

Definition slicelength (start stop step : Z) : Z :=
  if step <? 0 then (if stop <? start then (start - stop - 1) / (- step) + 1 else 0)
  else (if start <? stop then (stop - start - 1) / step + 1 else 0).

(* PySlice_Unpack followed by PySlice_AdjustIndices: (start, stop, step, slicelength); None = ValueError (step 0) *)
Definition slice_indices (len : Z) (s : pyslice) : option (Z * Z * Z * Z) :=
  let step := match sl_step s with None => 1 | Some k => k end in
  if step =? 0 then None else
  let start := match sl_start s with
               | None => if step <? 0 then len - 1 else 0
               | Some i => adj_bound len step i end in
  let stop := match sl_stop s with
              | None => if step <? 0 then -1 else len
              | Some i => adj_bound len step i end in
  Some (start, stop, step, slicelength start stop step).

(* for (cur = start, i = 0; i < slicelength; cur += step, i++) dest[i] = src[cur] *)
Fixpoint take_step {A} (n : nat) (cur step : Z) (l : list A) : list A :=
  match n with
  | O => []
  | S n' => match nth_error l (Z.to_nat cur) with
            | Some x => x :: take_step n' (cur + step) step l
            | None => []
            end
  end.

(* list_subscript / unicode_subscript, slice branch *)
Definition getslice {A} (l : list A) (s : pyslice) : res (list A) :=
  match slice_indices (Z.of_nat (length l)) s with
  | None => Err ValueError
  | Some (start, stop, step, n) =>
      if n <=? 0 then Ok []
      else if step =? 1 then Ok (firstn (Z.to_nat n) (skipn (Z.to_nat start) l))
      else Ok (take_step (Z.to_nat n) start step l)
  end.

(* list_subscript / unicode_subscript, index branch *)
Definition getitem {A} (l : list A) (i : Z) : res A :=
  let n := Z.of_nat (length l) in
  let i' := if i <? 0 then i + n else i in
  if (i' <? 0) || (i' >=? n) then Err IndexError
  else match nth_error l (Z.to_nat i') with Some x => Ok x | None => Err IndexError end.

(* list_ass_subscript, index branch *)
Definition setitem_int {A} (l : list A) (i : Z) (v : A) : res (list A) :=
  let n := Z.of_nat (length l) in
  let i' := if i <? 0 then i + n else i in
  if (i' <? 0) || (i' >=? n) then Err IndexError
  else Ok (firstn (Z.to_nat i') l ++ v :: skipn (Z.to_nat (i' + 1)) l).

(* list_ass_slice: if (ihigh < ilow) ihigh = ilow *)
Definition ass_slice {A} (l : list A) (start stop : Z) (v : list A) : list A :=
  let stop := Z.max stop start in
  firstn (Z.to_nat start) l ++ v ++ skipn (Z.to_nat stop) l.

Definition set_nth {A} (l : list A) (k : nat) (x : A) : list A :=
  match skipn k l with
  | [] => l
  | _ :: r => firstn k l ++ x :: r
  end.

(* extended slice assignment loop *)
Fixpoint ass_step {A} (n : nat) (cur step : Z) (l v : list A) : list A :=
  match n, v with
  | S n', x :: v' => ass_step n' (cur + step) step (set_nth l (Z.to_nat cur) x) v'
  | _, _ => l
  end.

(* list_ass_subscript, slice branch, value already a sequence *)
Definition setslice {A} (l : list A) (s : pyslice) (v : list A) : res (list A) :=
  match slice_indices (Z.of_nat (length l)) s with
  | None => Err ValueError
  | Some (start, stop, step, n) =>
      if step =? 1 then Ok (ass_slice l start stop v)
      else if Z.of_nat (length v) =? n then Ok (ass_step (Z.to_nat n) start step l v)
      else Err ValueError
  end.

Definition pyget {A} (l : list A) (ix : index) : res (list A) :=
  match ix with
  | IInt i => match getitem l i with Ok x => Ok [x] | Err e => Err e end
  | ISlice s => getslice l s
  end.

(* ---- specification-side vocabulary ---- *)
(* the clamped, normalised bound of a contiguous slice *)
Definition norm (len i : Z) : Z := Z.min (Z.max (if i <? 0 then i + len else i) 0) len.
Definition lo_of (len : Z) (o : option Z) : Z := match o with None => 0 | Some i => norm len i end.
Definition hi_of (len : Z) (o : option Z) : Z := match o with None => len | Some i => norm len i end.
Definition contiguous (s : pyslice) : bool :=
  match sl_step s with None => true | Some k => k =? 1 end.

(* ======================================================================= lemmas *)

Lemma adj_bound_pos len i : 0 <= len -> adj_bound len 1 i = norm len i.
Proof.
  intros Hl. unfold adj_bound, norm.
  destruct (i <? 0) eqn:E1.
  - destruct (i + len <? 0) eqn:E2; cbn; lia.
  - destruct (i >=? len) eqn:E2; cbn; lia.
Qed.

Lemma norm_range len i : 0 <= len -> 0 <= norm len i <= len.
Proof. intros; unfold norm; lia. Qed.

Lemma adj_bound_range_pos len step i : 0 <= len -> 0 < step -> 0 <= adj_bound len step i <= len.
Proof.
  intros Hl Hs. unfold adj_bound.
  destruct (i <? 0) eqn:E1; [destruct (i + len <? 0) eqn:E2|destruct (i >=? len) eqn:E2];
    destruct (step <? 0) eqn:E3; lia.
Qed.
Lemma adj_bound_range_neg len step i : 0 <= len -> step < 0 -> -1 <= adj_bound len step i <= len - 1.
Proof.
  intros Hl Hs. unfold adj_bound.
  destruct (i <? 0) eqn:E1; [destruct (i + len <? 0) eqn:E2|destruct (i >=? len) eqn:E2];
    destruct (step <? 0) eqn:E3; lia.
Qed.

Lemma slicelength_nonneg a b st : st <> 0 -> 0 <= slicelength a b st.
Proof.
  intros H. unfold slicelength.
  destruct (st <? 0) eqn:E.
  - destruct (b <? a) eqn:E2; [|lia].
    assert (0 <= (a - b - 1) / (- st)) by (apply Z.div_pos; lia). lia.
  - destruct (a <? b) eqn:E2; [|lia].
    assert (0 <= (b - a - 1) / st) by (apply Z.div_pos; lia). lia.
Qed.

Lemma slicelength_step1 a b : slicelength a b 1 = Z.max (b - a) 0.
Proof.
  unfold slicelength. cbn [Z.ltb Z.compare].
  destruct (a <? b) eqn:E; [rewrite Z.div_1_r|]; lia.
Qed.

(* last index touched stays on the near side of stop *)
Lemma slicelength_last_pos a b st : 0 < st -> a < b ->
  a + (slicelength a b st - 1) * st < b /\ 1 <= slicelength a b st.
Proof.
  intros Hs Hab. unfold slicelength.
  destruct (st <? 0) eqn:E; [lia|]. destruct (a <? b) eqn:E2; [|lia].
  pose proof (Z.mul_div_le (b - a - 1) st Hs) as H.
  assert (0 <= (b - a - 1) / st) by (apply Z.div_pos; lia).
  split; [|lia].
  replace ((b - a - 1) / st + 1 - 1) with ((b - a - 1) / st) by lia.
  rewrite Z.mul_comm. lia.
Qed.
Lemma slicelength_last_neg a b st : st < 0 -> b < a ->
  b < a + (slicelength a b st - 1) * st /\ 1 <= slicelength a b st.
Proof.
  intros Hs Hab. unfold slicelength.
  destruct (st <? 0) eqn:E; [|lia]. destruct (b <? a) eqn:E2; [|lia].
  assert (Hs' : 0 < - st) by lia.
  pose proof (Z.mul_div_le (a - b - 1) (- st) Hs') as H.
  assert (0 <= (a - b - 1) / (- st)) by (apply Z.div_pos; lia).
  split; [|lia].
  replace ((a - b - 1) / (- st) + 1 - 1) with ((a - b - 1) / (- st)) by lia.
  set (q := (a - b - 1) / (- st)) in *.
  replace (q * st) with (- ((- st) * q)) by ring. lia.
Qed.

(* ---- small list facts ---- *)
Lemma nth_error_Some_lt {A} (l : list A) k : (k < length l)%nat -> exists x, nth_error l k = Some x.
Proof.
  intros H. destruct (nth_error l k) eqn:E; [eauto|]. apply nth_error_None in E. lia.
Qed.

Lemma take_step_spec {A} (l : list A) : forall n cur step,
  (forall k, 0 <= k < Z.of_nat n -> 0 <= cur + k * step < Z.of_nat (length l)) ->
  length (take_step n cur step l) = n /\
  forall k, (k < n)%nat -> nth_error (take_step n cur step l) k = nth_error l (Z.to_nat (cur + Z.of_nat k * step)).
Proof.
  induction n as [|n IH]; intros cur step H.
  - split; [reflexivity|]. intros k Hk. lia.
  - cbn [take_step].
    assert (H0 : 0 <= cur < Z.of_nat (length l)) by (specialize (H 0); lia).
    destruct (nth_error_Some_lt l (Z.to_nat cur)) as [x Hx]; [lia|]. rewrite Hx.
    assert (H' : forall k, 0 <= k < Z.of_nat n -> 0 <= (cur + step) + k * step < Z.of_nat (length l)).
    { intros k Hk. specialize (H (k + 1)). replace (cur + step + k * step) with (cur + (k + 1) * step) by ring. lia. }
    destruct (IH (cur + step) step H') as [IL IN].
    split; [cbn [length]; lia|].
    intros [|k] Hk.
    + cbn [nth_error]. rewrite <- Hx. f_equal. lia.
    + cbn [nth_error]. rewrite IN by lia. f_equal. f_equal. lia.
Qed.

Lemma firstn_skipn_nth {A} (l : list A) a n k : (k < n)%nat -> (a + n <= length l)%nat ->
  nth_error (firstn n (skipn a l)) k = nth_error l (a + k).
Proof.
  revert l. induction a as [|a IH]; intros l Hk Hl.
  - cbn [skipn Nat.add]. revert l k Hk Hl. induction n as [|n IHn]; intros l k Hk Hl; [lia|].
    destruct l as [|x l]; [cbn in Hl; lia|]. destruct k as [|k]; [reflexivity|].
    cbn [firstn nth_error]. apply IHn; cbn in Hl; lia.
  - destruct l as [|x l]; [cbn in Hl; lia|]. cbn [skipn Nat.add nth_error]. apply IH; cbn in Hl; lia.
Qed.

(* ---- getslice ---- *)
Section GetSlice.
Context {A : Type}.
Implicit Types l : list A.

(* P0: a contiguous slice is firstn/skipn with the clamped normalised bounds *)
Lemma getslice_contig l s : contiguous s = true ->
  let len := Z.of_nat (length l) in
  let lo := lo_of len (sl_start s) in let hi := hi_of len (sl_stop s) in
  getslice l s = Ok (firstn (Z.to_nat (hi - lo)) (skipn (Z.to_nat lo) l)).
Proof.
  intros Hc len lo hi. unfold getslice, slice_indices. fold len.
  assert (Hlen : 0 <= len) by (unfold len; lia).
  assert (Hstep : match sl_step s with None => 1 | Some k => k end = 1).
  { unfold contiguous in Hc. destruct (sl_step s); [lia|reflexivity]. }
  rewrite Hstep. cbn [Z.eqb Z.ltb Z.compare].
  assert (Hlo : match sl_start s with None => 0 | Some i => adj_bound len 1 i end = lo).
  { unfold lo, lo_of. destruct (sl_start s); [apply adj_bound_pos; exact Hlen|reflexivity]. }
  assert (Hhi : match sl_stop s with None => len | Some i => adj_bound len 1 i end = hi).
  { unfold hi, hi_of. destruct (sl_stop s); [apply adj_bound_pos; exact Hlen|reflexivity]. }
  rewrite Hlo, Hhi, slicelength_step1.
  destruct (Z.max (hi - lo) 0 <=? 0) eqn:E.
  - replace (Z.to_nat (hi - lo)) with 0%nat by lia. reflexivity.
  - replace (Z.max (hi - lo) 0) with (hi - lo) by lia. reflexivity.
Qed.

(* P0: length formula and element law, every step *)
Lemma getslice_spec l s start stop step n :
  slice_indices (Z.of_nat (length l)) s = Some (start, stop, step, n) ->
  exists r, getslice l s = Ok r /\ Z.of_nat (length r) = n /\
    forall k, (Z.of_nat k < n) -> nth_error r k = nth_error l (Z.to_nat (start + Z.of_nat k * step)).
Proof.
  intros Hsi. unfold getslice. rewrite Hsi.
  set (len := Z.of_nat (length l)) in *. assert (Hlen : 0 <= len) by (unfold len; lia).
  unfold slice_indices in Hsi.
  set (st := match sl_step s with None => 1 | Some k => k end) in *.
  destruct (st =? 0) eqn:Est; [discriminate|].
  injection Hsi as Hstart Hstop Hstep Hn. rewrite Hstep in *.
  rewrite Hstart, Hstop in Hn.
  assert (Hnn : 0 <= n) by (rewrite <- Hn; apply slicelength_nonneg; lia).
  destruct (n <=? 0) eqn:En.
  { exists []. split; [reflexivity|]. split; [cbn; lia|]. intros k Hk. lia. }
  (* all touched indices are in range *)
  assert (Hrange : forall k, 0 <= k < n -> 0 <= start + k * step < len).
  { intros k Hk.
    destruct (step <? 0) eqn:Eneg.
    - assert (Hs : step < 0) by lia.
      assert (Hb1 : -1 <= start <= len - 1).
      { rewrite <- Hstart. destruct (sl_start s); [apply adj_bound_range_neg; lia|lia]. }
      assert (Hb2 : -1 <= stop <= len - 1).
      { rewrite <- Hstop. destruct (sl_stop s); [apply adj_bound_range_neg; lia|lia]. }
      assert (Hlt : stop < start).
      { rewrite <- Hn in En. unfold slicelength in En. rewrite Eneg in En. destruct (stop <? start) eqn:E; lia. }
      destruct (slicelength_last_neg start stop step Hs Hlt) as [Hlast _]. rewrite Hn in Hlast.
      assert (k * step >= (n - 1) * step) by nia.
      assert (k * step <= 0) by nia. lia.
    - assert (Hs : 0 < step) by lia.
      assert (Hb1 : 0 <= start <= len).
      { rewrite <- Hstart. destruct (sl_start s); [apply adj_bound_range_pos; lia|lia]. }
      assert (Hb2 : 0 <= stop <= len).
      { rewrite <- Hstop. destruct (sl_stop s); [apply adj_bound_range_pos; lia|lia]. }
      assert (Hlt : start < stop).
      { rewrite <- Hn in En. unfold slicelength in En. rewrite Eneg in En. destruct (start <? stop) eqn:E; lia. }
      destruct (slicelength_last_pos start stop step Hs Hlt) as [Hlast _]. rewrite Hn in Hlast.
      assert (k * step <= (n - 1) * step) by nia.
      assert (0 <= k * step) by nia. lia. }
  destruct (step =? 1) eqn:E1.
  - assert (Hs1 : step = 1) by lia.
    pose proof (Hrange (n - 1) ltac:(lia)) as Hend. pose proof (Hrange 0 ltac:(lia)) as H0.
    rewrite Hs1 in Hend, H0 |- *.
    exists (firstn (Z.to_nat n) (skipn (Z.to_nat start) l)). split; [reflexivity|]. split.
    + rewrite firstn_length, skipn_length. unfold len in *. lia.
    + intros k Hk. rewrite firstn_skipn_nth; [f_equal; lia|lia|unfold len in *; lia].
  - exists (take_step (Z.to_nat n) start step l). split; [reflexivity|].
    destruct (take_step_spec l (Z.to_nat n) start step) as [HL HN].
    { intros k Hk. apply Hrange. lia. }
    split; [lia|]. intros k Hk. apply HN. lia.
Qed.

Lemma getslice_step0 l a b : getslice l (mkslice a b (Some 0)) = Err ValueError.
Proof. reflexivity. Qed.

Lemma getslice_total l s : (sl_step s <> Some 0) -> exists r, getslice l s = Ok r.
Proof.
  intros H. destruct (slice_indices (Z.of_nat (length l)) s) as [[[[a b] c] d]|] eqn:E.
  - destruct (getslice_spec l s a b c d E) as (r & Hr & _). eauto.
  - unfold slice_indices in E. destruct (sl_step s) as [k|]; cbn in E.
    + destruct (k =? 0) eqn:Ek; [|discriminate]. assert (k = 0) by lia. subst. congruence.
    + discriminate.
Qed.

(* the step=1 fast path agrees with the generic loop *)
Lemma take_step_contig l : forall n cur, (Z.to_nat cur + n <= length l)%nat -> 0 <= cur ->
  take_step n cur 1 l = firstn n (skipn (Z.to_nat cur) l).
Proof.
  induction n as [|n IH]; intros cur H Hc; [reflexivity|].
  cbn [take_step].
  destruct (nth_error_Some_lt l (Z.to_nat cur)) as [x Hx]; [lia|]. rewrite Hx.
  rewrite IH by lia.
  replace (Z.to_nat (cur + 1)) with (S (Z.to_nat cur)) by lia.
  clear IH. revert Hx H. generalize (Z.to_nat cur) as a. intros a. revert l.
  induction a as [|a IHa]; intros l Hx H.
  - destruct l as [|y l]; [discriminate|]. cbn in Hx. inversion Hx; subst. reflexivity.
  - destruct l as [|y l]; [discriminate|]. cbn [skipn]. apply IHa; [exact Hx|cbn in H; lia].
Qed.

(* empty slices *)
Lemma getslice_empty l a b : contiguous (mkslice a b None) = true ->
  hi_of (Z.of_nat (length l)) b <= lo_of (Z.of_nat (length l)) a -> getslice l (mkslice a b None) = Ok [].
Proof.
  intros Hc H. rewrite getslice_contig by exact Hc. cbn [sl_start sl_stop].
  replace (Z.to_nat (_ - _)) with 0%nat by lia. reflexivity.
Qed.

Lemma getslice_full l : getslice l (mkslice None None None) = Ok l.
Proof.
  rewrite getslice_contig by reflexivity. cbn [sl_start sl_stop lo_of hi_of].
  rewrite Z.sub_0_r, Nat2Z.id. cbn [Z.to_nat skipn]. rewrite firstn_all. reflexivity.
Qed.

(* s[:k] + s[k:] = s for every integer k *)
Lemma getslice_split l k :
  exists r1 r2, getslice l (mkslice None (Some k) None) = Ok r1 /\
                getslice l (mkslice (Some k) None None) = Ok r2 /\ r1 ++ r2 = l.
Proof.
  do 2 eexists. rewrite !getslice_contig by reflexivity. cbn [sl_start sl_stop lo_of hi_of].
  split; [reflexivity|]. split; [reflexivity|].
  pose proof (norm_range (Z.of_nat (length l)) k ltac:(lia)) as Hr.
  set (m := norm (Z.of_nat (length l)) k) in *.
  rewrite Z.sub_0_r. cbn [Z.to_nat skipn].
  rewrite (firstn_all2 (n := Z.to_nat (Z.of_nat (length l) - m))) by (rewrite skipn_length; lia).
  apply firstn_skipn.
Qed.

(* ---- getitem ---- *)
Lemma getitem_spec l i :
  let n := Z.of_nat (length l) in
  (0 <= i < n -> getitem l i = match nth_error l (Z.to_nat i) with Some x => Ok x | None => Err IndexError end) /\
  (- n <= i < 0 -> getitem l i = getitem l (i + n)) /\
  (i < - n \/ n <= i -> getitem l i = Err IndexError).
Proof.
  intros n. unfold getitem. subst n. set (n := Z.of_nat (length l)). repeat split; intros H.
  - destruct (i <? 0) eqn:E; [lia|]. destruct ((i <? 0) || (i >=? n)) eqn:E2; [lia|reflexivity].
  - destruct (i <? 0) eqn:E; [|lia]. destruct (i + n <? 0) eqn:E2; [lia|]. cbv iota. rewrite ?E2. reflexivity.
  - destruct (i <? 0) eqn:E.
    + destruct ((i + n <? 0) || (i + n >=? n)) eqn:E2; [reflexivity|lia].
    + destruct ((i <? 0) || (i >=? n)) eqn:E2; [reflexivity|lia].
Qed.

Lemma getitem_in_range l i : - Z.of_nat (length l) <= i < Z.of_nat (length l) -> exists x, getitem l i = Ok x.
Proof.
  intros H. unfold getitem. set (n := Z.of_nat (length l)) in *.
  set (i' := if i <? 0 then i + n else i).
  assert (0 <= i' < n) by (unfold i'; destruct (i <? 0) eqn:E; lia).
  destruct ((i' <? 0) || (i' >=? n)) eqn:E2; [lia|].
  destruct (nth_error_Some_lt l (Z.to_nat i')) as [x Hx]; [unfold n in *; lia|]. rewrite Hx. eauto.
Qed.

(* s[i] is the one-element slice s[i:i+1] (for i <> -1, where i+1 = 0 would mean "from the left") *)
Lemma getitem_slice l i x : getitem l i = Ok x -> i <> -1 ->
  getslice l (mkslice (Some i) (Some (i + 1)) None) = Ok [x].
Proof.
  intros H Hi. rewrite getslice_contig by reflexivity. cbn [sl_start sl_stop lo_of hi_of].
  unfold getitem in H. set (n := Z.of_nat (length l)) in *.
  set (i' := if i <? 0 then i + n else i) in *.
  destruct ((i' <? 0) || (i' >=? n)) eqn:E2; [discriminate|].
  destruct (nth_error l (Z.to_nat i')) as [y|] eqn:E3; [|discriminate]. inversion H; subst y.
  assert (Hlo : norm n i = i') by (unfold norm, i' in *; destruct (i <? 0) eqn:E; lia).
  assert (Hhi : norm n (i + 1) = i' + 1).
  { unfold norm, i' in *. destruct (i <? 0) eqn:E; destruct (i + 1 <? 0) eqn:E4; lia. }
  rewrite Hlo, Hhi. replace (Z.to_nat (i' + 1 - i')) with 1%nat by lia.
  apply nth_error_split in E3. destruct E3 as (l1 & l2 & -> & Hl1).
  rewrite <- Hl1. rewrite skipn_app, Nat.sub_diag, skipn_all. reflexivity.
Qed.
End GetSlice.

(* ---- reversal: s[::-1] = rev s ---- *)
Lemma take_step_rev {A} : forall (l1 l2 : list A),
  take_step (length l1) (Z.of_nat (length l1) - 1) (-1) (l1 ++ l2) = rev l1.
Proof.
  intros l1. induction l1 as [|x l1 IH] using rev_ind; intros l2; [reflexivity|].
  rewrite app_length, Nat.add_comm. cbn [length Nat.add take_step].
  replace (Z.to_nat (Z.of_nat (S (length l1)) - 1)) with (length l1) by lia.
  rewrite <- app_assoc. rewrite nth_error_app2 by lia. rewrite Nat.sub_diag. cbn [app nth_error].
  rewrite rev_app_distr. cbn [rev app]. f_equal.
  replace (Z.of_nat (S (length l1)) - 1 + -1) with (Z.of_nat (length l1) - 1) by lia.
  apply IH.
Qed.

Lemma getslice_reverse {A} (l : list A) : getslice l (mkslice None None (Some (-1))) = Ok (rev l).
Proof.
  unfold getslice, slice_indices. cbn [sl_step sl_start sl_stop Z.eqb Z.ltb Z.compare].
  unfold slicelength. cbn [Z.ltb Z.compare Z.opp].
  destruct l as [|x l]; [reflexivity|].
  set (n := Z.of_nat (length (x :: l))). assert (1 <= n) by (unfold n; cbn [length]; lia).
  destruct (-1 <? n - 1) eqn:E; [|lia].
  rewrite Z.div_1_r. destruct (n - 1 - -1 - 1 + 1 <=? 0) eqn:E2; [lia|].
  cbn [Z.eqb]. replace (n - 1 - -1 - 1 + 1) with n by lia. unfold n. rewrite Nat2Z.id.
  pose proof (take_step_rev (x :: l) []) as Hr. rewrite app_nil_r in Hr. rewrite Hr. reflexivity.
Qed.

(* ---- assignment ---- *)
Lemma setslice_contig {A} (l v : list A) s : contiguous s = true ->
  let len := Z.of_nat (length l) in
  let lo := lo_of len (sl_start s) in let hi := hi_of len (sl_stop s) in
  setslice l s v = Ok (firstn (Z.to_nat lo) l ++ v ++ skipn (Z.to_nat (Z.max hi lo)) l).
Proof.
  intros Hc len lo hi. unfold setslice, slice_indices. fold len.
  assert (Hlen : 0 <= len) by (unfold len; lia).
  assert (Hstep : match sl_step s with None => 1 | Some k => k end = 1).
  { unfold contiguous in Hc. destruct (sl_step s); [lia|reflexivity]. }
  rewrite Hstep. cbn [Z.eqb Z.ltb Z.compare].
  assert (Hlo : match sl_start s with None => 0 | Some i => adj_bound len 1 i end = lo).
  { unfold lo, lo_of. destruct (sl_start s); [apply adj_bound_pos; exact Hlen|reflexivity]. }
  assert (Hhi : match sl_stop s with None => len | Some i => adj_bound len 1 i end = hi).
  { unfold hi, hi_of. destruct (sl_stop s); [apply adj_bound_pos; exact Hlen|reflexivity]. }
  rewrite Hlo, Hhi. reflexivity.
Qed.

Lemma setitem_int_spec {A} (l : list A) i v x : getitem l i = Ok x ->
  exists l1 l2, l = l1 ++ x :: l2 /\ setitem_int l i v = Ok (l1 ++ v :: l2) /\
    Z.of_nat (length l1) = (if i <? 0 then i + Z.of_nat (length l) else i).
Proof.
  unfold getitem, setitem_int. set (n := Z.of_nat (length l)). set (i' := if i <? 0 then i + n else i).
  destruct ((i' <? 0) || (i' >=? n)) eqn:E; [discriminate|].
  destruct (nth_error l (Z.to_nat i')) as [y|] eqn:E3; [|discriminate]. intros H; inversion H; subst y.
  apply nth_error_split in E3. destruct E3 as (l1 & l2 & -> & Hl1).
  exists l1, l2. split; [reflexivity|]. split; [|lia].
  rewrite <- Hl1. rewrite firstn_app, Nat.sub_diag, firstn_all. cbn [firstn]. rewrite app_nil_r.
  replace (Z.to_nat (i' + 1)) with (length l1 + 1)%nat by lia.
  rewrite skipn_app. rewrite skipn_all2 by lia. replace (length l1 + 1 - length l1)%nat with 1%nat by lia.
  reflexivity.
Qed.

(* ---- every index touched by a slice is in range; they are pairwise distinct ---- *)
Lemma slice_indices_range len s start stop step n : 0 <= len ->
  slice_indices len s = Some (start, stop, step, n) ->
  step <> 0 /\ 0 <= n /\ (forall k, 0 <= k < n -> 0 <= start + k * step < len).
Proof.
  intros Hlen Hsi. unfold slice_indices in Hsi.
  set (st := match sl_step s with None => 1 | Some k => k end) in *.
  destruct (st =? 0) eqn:Est; [discriminate|].
  injection Hsi as Hstart Hstop Hstep Hn. rewrite Hstep in *.
  rewrite Hstart, Hstop in Hn.
  assert (Hs0 : step <> 0) by lia.
  assert (Hnn : 0 <= n) by (rewrite <- Hn; apply slicelength_nonneg; exact Hs0).
  split; [exact Hs0|]. split; [exact Hnn|].
  intros k Hk.
  destruct (step <? 0) eqn:Eneg.
  - assert (Hs : step < 0) by lia.
    assert (Hb1 : -1 <= start <= len - 1).
    { rewrite <- Hstart. destruct (sl_start s); [apply adj_bound_range_neg; lia|lia]. }
    assert (Hb2 : -1 <= stop <= len - 1).
    { rewrite <- Hstop. destruct (sl_stop s); [apply adj_bound_range_neg; lia|lia]. }
    assert (Hlt : stop < start).
    { rewrite <- Hn in Hk. unfold slicelength in Hk. rewrite Eneg in Hk. destruct (stop <? start) eqn:E; lia. }
    destruct (slicelength_last_neg start stop step Hs Hlt) as [Hlast _]. rewrite Hn in Hlast.
    assert (k * step >= (n - 1) * step) by nia.
    assert (k * step <= 0) by nia. lia.
  - assert (Hs : 0 < step) by lia.
    assert (Hb1 : 0 <= start <= len).
    { rewrite <- Hstart. destruct (sl_start s); [apply adj_bound_range_pos; lia|lia]. }
    assert (Hb2 : 0 <= stop <= len).
    { rewrite <- Hstop. destruct (sl_stop s); [apply adj_bound_range_pos; lia|lia]. }
    assert (Hlt : start < stop).
    { rewrite <- Hn in Hk. unfold slicelength in Hk. rewrite Eneg in Hk. destruct (start <? stop) eqn:E; lia. }
    destruct (slicelength_last_pos start stop step Hs Hlt) as [Hlast _]. rewrite Hn in Hlast.
    assert (k * step <= (n - 1) * step) by nia.
    assert (0 <= k * step) by nia. lia.
Qed.

(* ---- set_nth ---- *)
Lemma set_nth_length {A} (l : list A) k x : length (set_nth l k x) = length l.
Proof.
  unfold set_nth. destruct (skipn k l) as [|y r] eqn:E; [reflexivity|].
  rewrite app_length. cbn [length].
  assert (H : length (skipn k l) = S (length r)) by (rewrite E; reflexivity).
  rewrite skipn_length in H. rewrite firstn_length. lia.
Qed.
Lemma set_nth_same {A} (l : list A) k x : (k < length l)%nat -> nth_error (set_nth l k x) k = Some x.
Proof.
  intros H. unfold set_nth. destruct (skipn k l) as [|y r] eqn:E.
  - assert (H' : length (skipn k l) = 0%nat) by (rewrite E; reflexivity). rewrite skipn_length in H'. lia.
  - rewrite nth_error_app2 by (rewrite firstn_length; lia).
    rewrite firstn_length. replace (k - Nat.min k (length l))%nat with 0%nat by lia. reflexivity.
Qed.
Lemma set_nth_other {A} (l : list A) k x p : p <> k -> nth_error (set_nth l k x) p = nth_error l p.
Proof.
  intros H. unfold set_nth. destruct (skipn k l) as [|y r] eqn:E; [reflexivity|].
  assert (Hl : l = firstn k l ++ y :: r) by (rewrite <- E; symmetry; apply firstn_skipn).
  assert (Hk : (k < length l)%nat).
  { assert (H' : length (skipn k l) = S (length r)) by (rewrite E; reflexivity). rewrite skipn_length in H'. lia. }
  assert (Hf : length (firstn k l) = k) by (rewrite firstn_length; lia).
  rewrite Hl at 2.
  destruct (Nat.lt_ge_cases p k) as [Hp|Hp].
  - rewrite !nth_error_app1 by lia. reflexivity.
  - rewrite !nth_error_app2 by lia. rewrite Hf.
    destruct (p - k)%nat as [|q] eqn:Eq; [lia|]. reflexivity.
Qed.
Lemma set_nth_map {A B} (f : A -> B) (l : list A) k x : set_nth (map f l) k (f x) = map f (set_nth l k x).
Proof.
  unfold set_nth. rewrite skipn_map, firstn_map. destruct (skipn k l); cbn [map]; [reflexivity|].
  rewrite map_app. reflexivity.
Qed.

(* ---- extended slice assignment ---- *)
Lemma ass_step_spec {A} : forall n cur step (l v : list A),
  length v = n -> step <> 0 ->
  (forall k, 0 <= k < Z.of_nat n -> 0 <= cur + k * step < Z.of_nat (length l)) ->
  let r := ass_step n cur step l v in
  length r = length l /\
  (forall k, (k < n)%nat -> nth_error r (Z.to_nat (cur + Z.of_nat k * step)) = nth_error v k) /\
  (forall p, (forall k, (k < n)%nat -> p <> Z.to_nat (cur + Z.of_nat k * step)) -> nth_error r p = nth_error l p).
Proof.
  induction n as [|n IH]; intros cur step l v Hv Hs Hr r.
  - subst r. cbn [ass_step]. split; [reflexivity|]. split; [intros k Hk; lia|]. intros p _. reflexivity.
  - destruct v as [|x v]; [discriminate|]. cbn [length] in Hv. subst r. cbn [ass_step].
    set (l' := set_nth l (Z.to_nat cur) x).
    assert (Hl' : length l' = length l) by apply set_nth_length.
    assert (H0 : 0 <= cur < Z.of_nat (length l)) by (specialize (Hr 0); lia).
    assert (Hr' : forall k, 0 <= k < Z.of_nat n -> 0 <= (cur + step) + k * step < Z.of_nat (length l')).
    { intros k Hk. rewrite Hl'. specialize (Hr (k + 1)).
      replace (cur + step + k * step) with (cur + (k + 1) * step) by ring. lia. }
    destruct (IH (cur + step) step l' v ltac:(lia) Hs Hr') as (IL & IN & IO).
    split; [rewrite IL; exact Hl'|]. split.
    + intros [|k] Hk.
      * cbn [nth_error Z.of_nat]. replace (cur + 0 * step) with cur by ring.
        rewrite IO.
        -- apply set_nth_same. lia.
        -- intros k Hk'. specialize (Hr' (Z.of_nat k) ltac:(lia)). rewrite Hl' in Hr'.
           assert (Z.of_nat k * step + step <> 0) by nia. lia.
      * cbn [nth_error]. rewrite <- IN by lia. f_equal. f_equal. lia.
    + intros p Hp. rewrite IO.
      * apply set_nth_other. specialize (Hp 0%nat ltac:(lia)). cbn [Z.of_nat] in Hp.
        replace (cur + 0 * step) with cur in Hp by ring. exact Hp.
      * intros k Hk. specialize (Hp (S k) ltac:(lia)).
        replace (cur + Z.of_nat (S k) * step) with (cur + step + Z.of_nat k * step) in Hp by lia. exact Hp.
Qed.

(* l[a:b:c] = v for c <> 1: ValueError unless len(v) = slicelength; else v[k] lands at start + k*c, the rest is kept *)
Lemma setslice_extended {A} (l v : list A) s start stop step n :
  slice_indices (Z.of_nat (length l)) s = Some (start, stop, step, n) -> step <> 1 ->
  (Z.of_nat (length v) <> n -> setslice l s v = Err ValueError) /\
  (Z.of_nat (length v) = n -> exists r, setslice l s v = Ok r /\ length r = length l /\
     (forall k, (k < length v)%nat -> nth_error r (Z.to_nat (start + Z.of_nat k * step)) = nth_error v k) /\
     (forall p, (forall k, (k < length v)%nat -> p <> Z.to_nat (start + Z.of_nat k * step)) -> nth_error r p = nth_error l p)).
Proof.
  intros Hsi H1. unfold setslice. rewrite Hsi.
  destruct (step =? 1) eqn:E1; [lia|].
  destruct (slice_indices_range (Z.of_nat (length l)) s start stop step n (Nat2Z.is_nonneg _) Hsi) as (Hs0 & Hn & Hr).
  split; intros Hv.
  - destruct (Z.of_nat (length v) =? n) eqn:E; [lia|reflexivity].
  - destruct (Z.of_nat (length v) =? n) eqn:E; [|lia].
    eexists. split; [reflexivity|].
    replace (Z.to_nat n) with (length v) by lia.
    apply ass_step_spec; [reflexivity|exact Hs0|]. intros k Hk. apply Hr. lia.
Qed.

Lemma setitem_int_err {A} (l : list A) i v e : getitem l i = Err e -> setitem_int l i v = Err e.
Proof.
  unfold getitem, setitem_int. set (n := Z.of_nat (length l)). set (i' := if i <? 0 then i + n else i).
  destruct ((i' <? 0) || (i' >=? n)) eqn:Eb; [intros H; inversion H; reflexivity|].
  destruct (nth_error l (Z.to_nat i')) eqn:E2; [discriminate|].
  apply nth_error_None in E2. unfold n in Eb. lia.
Qed.

(* assignment commutes with an element-wise map (used for list(data) ... ''.join) *)
Lemma ass_step_map {A B} (f : A -> B) : forall n cur step (l v : list A),
  ass_step n cur step (map f l) (map f v) = map f (ass_step n cur step l v).
Proof.
  induction n as [|n IH]; intros cur step l v; [reflexivity|].
  destruct v as [|x v]; [reflexivity|]. cbn [map ass_step]. rewrite set_nth_map. apply IH.
Qed.
Lemma setslice_map {A B} (f : A -> B) (l v : list A) s :
  setslice (map f l) s (map f v) = match setslice l s v with Ok r => Ok (map f r) | Err e => Err e end.
Proof.
  unfold setslice. rewrite !map_length.
  destruct (slice_indices (Z.of_nat (length l)) s) as [[[[a b] c] n]|]; [|reflexivity].
  destruct (c =? 1).
  - unfold ass_slice. rewrite !map_app, firstn_map, skipn_map. reflexivity.
  - destruct (Z.of_nat (length v) =? n); [|reflexivity]. rewrite ass_step_map. reflexivity.
Qed.
