(* lib/C01_Lines.v -- CPython text primitives used by the sequence-file readers/writers (C01):
   whitespace, strip, lines, join, prefixes, ASCII upper-casing; with their algebra.
   Python str is modelled on code points 0..255 ([list byte]). *)
From Coq Require Import List Bool Lia Arith NArith.
From Coq.Strings Require Import Byte.
Import ListNotations.
From SV Require Import Text.

Definition nl : byte := x0a.
Definition cr : byte := x0d.

(* str.isspace() / regex \s restricted to Latin-1: \t \n \v \f \r, FS GS RS US, space, NEL, NBSP *)
Definition is_ws (c : byte) : bool :=
  match c with
  | x09 | x0a | x0b | x0c | x0d | x1c | x1d | x1e | x1f | x20 | x85 | xa0 => true
  | _ => false
  end.
Definition non_ws (c : byte) : bool := negb (is_ws c).

(* str.lstrip() / rstrip() / strip() without argument *)
Fixpoint lstrip (s : str) : str :=
  match s with
  | [] => []
  | c :: r => if is_ws c then lstrip r else s
  end.
Fixpoint rstrip (s : str) : str :=
  match s with
  | [] => []
  | c :: r => match rstrip r with
              | [] => if is_ws c then [] else [c]
              | r' => c :: r'
              end
  end.
Definition strip (s : str) : str := rstrip (lstrip s).

(* str.lstrip(ch) for a single character *)
Fixpoint lstrip_ch (ch : byte) (s : str) : str :=
  match s with
  | [] => []
  | c :: r => if byte_eqb c ch then lstrip_ch ch r else s
  end.

Fixpoint takewhile (p : byte -> bool) (s : str) : str :=
  match s with
  | [] => []
  | c :: r => if p c then c :: takewhile p r else []
  end.
Fixpoint dropwhile (p : byte -> bool) (s : str) : str :=
  match s with
  | [] => []
  | c :: r => if p c then dropwhile p r else s
  end.

(* if s = p ++ r then Some r *)
Fixpoint strip_prefix (p s : str) : option str :=
  match p, s with
  | [], _ => Some s
  | a :: p', b :: s' => if byte_eqb a b then strip_prefix p' s' else None
  | _ :: _, [] => None
  end.
Definition startswith (p s : str) : bool := match strip_prefix p s with Some _ => true | None => false end.
(* str.removeprefix *)
Definition removeprefix (p s : str) : str := match strip_prefix p s with Some r => r | None => s end.
Definition head_is (c : byte) (s : str) : bool := match s with x :: _ => byte_eqb x c | [] => false end.

Definition mem (c : byte) (l : list byte) : bool := existsb (byte_eqb c) l.

(* substring test  [sub in s] *)
Fixpoint is_substring (sub s : str) : bool :=
  startswith sub s || match s with [] => false | _ :: r => is_substring sub r end.

(* ASCII str.upper() (the domain predicates restrict text to ASCII) *)
Definition upper1 (c : byte) : byte :=
  match c with
  | "a" => "A" | "b" => "B" | "c" => "C" | "d" => "D" | "e" => "E" | "f" => "F" | "g" => "G" | "h" => "H"
  | "i" => "I" | "j" => "J" | "k" => "K" | "l" => "L" | "m" => "M" | "n" => "N" | "o" => "O" | "p" => "P"
  | "q" => "Q" | "r" => "R" | "s" => "S" | "t" => "T" | "u" => "U" | "v" => "V" | "w" => "W" | "x" => "X"
  | "y" => "Y" | "z" => "Z" | x => x
  end%byte.
Definition upper (s : str) : str := map upper1 s.

(* ASCII str.lower() *)
Definition lower1 (c : byte) : byte :=
  match c with
  | "A" => "a" | "B" => "b" | "C" => "c" | "D" => "d" | "E" => "e" | "F" => "f" | "G" => "g" | "H" => "h"
  | "I" => "i" | "J" => "j" | "K" => "k" | "L" => "l" | "M" => "m" | "N" => "n" | "O" => "o" | "P" => "p"
  | "Q" => "q" | "R" => "r" | "S" => "s" | "T" => "t" | "U" => "u" | "V" => "v" | "W" => "w" | "X" => "x"
  | "Y" => "y" | "Z" => "z" | x => x
  end%byte.
Definition lower (s : str) : str := map lower1 s.

(* sep.join(parts) *)
Fixpoint join (sep : str) (parts : list str) : str :=
  match parts with
  | [] => []
  | [p] => p
  | p :: r => p ++ sep ++ join sep r
  end.

(* s.split(c) for a single separator character *)
Fixpoint split_on (c : byte) (s : str) : list str :=
  match s with
  | [] => [[]]
  | x :: r =>
      if byte_eqb x c then [] :: split_on c r
      else match split_on c r with
           | h :: t => (x :: h) :: t
           | [] => [[x]]
           end
  end.

(* every line terminated by "\n" *)
Fixpoint unlines (ls : list str) : str :=
  match ls with
  | [] => []
  | l :: r => l ++ nl :: unlines r
  end.

(* iteration over a text file: lines without their terminator; a final line need not be terminated *)
Fixpoint pylines (s : str) : list str :=
  match s with
  | [] => []
  | c :: r =>
      if byte_eqb c nl then [] :: pylines r
      else match pylines r with
           | [] => [[c]]
           | h :: t => (c :: h) :: t
           end
  end.

(* universal newlines of the text layer: "\r\n" and lone "\r" become "\n" *)
Fixpoint univ_nl (s : str) : str :=
  match s with
  | [] => []
  | c :: r =>
      if byte_eqb c cr then
        match r with
        | d :: r' => if byte_eqb d nl then nl :: univ_nl r' else nl :: univ_nl r
        | [] => [nl]
        end
      else c :: univ_nl r
  end.

Definition no_byte (c : byte) (s : str) : bool := forallb (fun x => negb (byte_eqb x c)) s.
Definition no_nl (s : str) : bool := no_byte nl s && no_byte cr s.
Definition all_non_ws (s : str) : bool := forallb non_ws s.
(* printable ASCII 0x21..0x7e *)
Definition is_graph (c : byte) : bool := let n := Byte.to_N c in (N.leb 33 n && N.leb n 126)%N.
Definition is_print_or_tab (c : byte) : bool := is_graph c || byte_eqb c " "%byte || byte_eqb c x09.

(* ------------------------------------------------------------------ lemmas *)

Lemma byte_eqb_sym a b : byte_eqb a b = byte_eqb b a.
Proof.
  destruct (byte_eqb a b) eqn:E.
  - apply byte_eqb_eq in E. subst. symmetry. apply byte_eqb_refl.
  - symmetry. apply byte_eqb_neq. apply byte_eqb_neq in E. congruence.
Qed.

Lemma is_graph_non_ws c : is_graph c = true -> is_ws c = false.
Proof. destruct c; vm_compute; congruence. Qed.

Lemma pylines_unlines ls : forallb (no_byte nl) ls = true -> pylines (unlines ls) = ls.
Proof.
  induction ls as [|l ls IH]; intros H; [reflexivity|].
  cbn [forallb] in H. apply andb_prop in H. destruct H as [Hl Hls].
  specialize (IH Hls). cbn [unlines].
  induction l as [|c l IHl].
  - cbn. rewrite IH. reflexivity.
  - cbn [no_byte forallb] in Hl. apply andb_prop in Hl. destruct Hl as [Hc Hl].
    cbn [app pylines]. apply negb_true_iff in Hc. rewrite Hc.
    rewrite (IHl Hl). reflexivity.
Qed.

Lemma univ_nl_id s : no_byte cr s = true -> univ_nl s = s.
Proof.
  induction s as [|c s IH]; intros H; [reflexivity|].
  cbn [no_byte forallb] in H. apply andb_prop in H. destruct H as [Hc Hs].
  cbn [univ_nl]. apply negb_true_iff in Hc. rewrite Hc. f_equal. apply IH. exact Hs.
Qed.

Lemma no_byte_app c a b : no_byte c (a ++ b) = no_byte c a && no_byte c b.
Proof. unfold no_byte. apply forallb_app. Qed.

Lemma no_byte_unlines c ls : byte_eqb nl c = false -> forallb (no_byte c) ls = true -> no_byte c (unlines ls) = true.
Proof.
  intros Hc. induction ls as [|l ls IH]; intros H; [reflexivity|].
  cbn [forallb] in H. apply andb_prop in H. destruct H as [Hl Hls].
  cbn [unlines]. rewrite no_byte_app. rewrite Hl. cbn [no_byte forallb andb]. rewrite Hc. cbn. apply IH. exact Hls.
Qed.

Lemma unlines_app a b : unlines (a ++ b) = unlines a ++ unlines b.
Proof. induction a as [|x a IH]; [reflexivity|]. cbn [app unlines]. rewrite IH. rewrite <- app_assoc. reflexivity. Qed.

(* strip *)
Lemma lstrip_non_ws c s : is_ws c = false -> lstrip (c :: s) = c :: s.
Proof. intros H. cbn. rewrite H. reflexivity. Qed.

Lemma rstrip_nil_iff s : rstrip s = [] <-> forallb is_ws s = true.
Proof.
  induction s as [|c s IH]; cbn; [tauto|].
  destruct (rstrip s) eqn:E.
  - destruct (is_ws c); cbn; split; intros H; try discriminate; try reflexivity.
    apply IH. reflexivity.
  - split; [discriminate|]. intros H. apply andb_prop in H. destruct H as [_ H]. apply IH in H. discriminate.
Qed.

(* a string whose last character is not whitespace is a fixed point of rstrip *)
Lemma rstrip_last s c : is_ws c = false -> rstrip (s ++ [c]) = s ++ [c].
Proof.
  intros H. induction s as [|x s IH].
  - cbn. rewrite H. reflexivity.
  - cbn [app rstrip]. rewrite IH. destruct (s ++ [c]) eqn:E; [destruct s; discriminate|reflexivity].
Qed.

Lemma rstrip_all_non_ws s : all_non_ws s = true -> rstrip s = s.
Proof.
  induction s as [|c s IH]; intros H; [reflexivity|].
  cbn [all_non_ws forallb] in H. apply andb_prop in H. destruct H as [Hc Hs].
  unfold non_ws in Hc. apply negb_true_iff in Hc.
  cbn [rstrip]. rewrite (IH Hs). destruct s; [rewrite Hc|]; reflexivity.
Qed.
Lemma lstrip_all_non_ws s : all_non_ws s = true -> lstrip s = s.
Proof.
  destruct s as [|c s]; intros H; [reflexivity|].
  cbn [all_non_ws forallb] in H. apply andb_prop in H. destruct H as [Hc _].
  unfold non_ws in Hc. apply negb_true_iff in Hc. apply lstrip_non_ws. exact Hc.
Qed.
Lemma strip_all_non_ws s : all_non_ws s = true -> strip s = s.
Proof. intros H. unfold strip. rewrite (lstrip_all_non_ws s H). apply rstrip_all_non_ws. exact H. Qed.

Lemma rstrip_idem s : rstrip (rstrip s) = rstrip s.
Proof.
  induction s as [|c s IH]; [reflexivity|].
  cbn [rstrip]. destruct (rstrip s) as [|y r'] eqn:E.
  - destruct (is_ws c) eqn:W; [reflexivity|]. cbn. rewrite W. reflexivity.
  - change (rstrip (c :: y :: r')) with (match rstrip (y :: r') with [] => if is_ws c then [] else [c] | r0 => c :: r0 end).
    rewrite IH. reflexivity.
Qed.

(* rstrip never touches the first character when something non-blank follows *)
Lemma rstrip_cons_nonblank c s : rstrip s <> [] -> rstrip (c :: s) = c :: rstrip s.
Proof. intros H. cbn [rstrip]. destruct (rstrip s); [contradiction|reflexivity]. Qed.

Lemma rstrip_head s : forall c r, rstrip s = c :: r -> exists r0, s = c :: r0.
Proof.
  destruct s as [|x s]; intros c r H; [discriminate|].
  cbn [rstrip] in H. destruct (rstrip s).
  - destruct (is_ws x); [discriminate|]. inversion H; subst. eauto.
  - inversion H; subst. eauto.
Qed.

Lemma lstrip_head_non_ws s c r : lstrip s = c :: r -> is_ws c = false.
Proof.
  induction s as [|x s IH]; cbn; [discriminate|].
  destruct (is_ws x) eqn:W; [exact IH|]. intros H. inversion H; subst. exact W.
Qed.

Lemma lstrip_idem s : lstrip (lstrip s) = lstrip s.
Proof.
  destruct (lstrip s) as [|c r] eqn:E; [reflexivity|].
  apply lstrip_non_ws. eapply lstrip_head_non_ws. exact E.
Qed.

(* strip result: empty, or starts and ends with non-whitespace; in any case a fixed point of strip *)
Lemma lstrip_rstrip_comm_head s c r : rstrip s = c :: r -> is_ws c = false -> lstrip (rstrip s) = rstrip s.
Proof. intros H W. rewrite H. apply lstrip_non_ws. exact W. Qed.

Lemma strip_head_non_ws s c r : strip s = c :: r -> is_ws c = false.
Proof.
  unfold strip. intros H. destruct (rstrip_head _ _ _ H) as [r0 E].
  eapply lstrip_head_non_ws. exact E.
Qed.

Lemma strip_idem s : strip (strip s) = strip s.
Proof.
  destruct (strip s) as [|c r] eqn:E; [reflexivity|].
  pose proof (strip_head_non_ws _ _ _ E) as W.
  unfold strip at 1. rewrite (lstrip_non_ws c r W). rewrite <- E. unfold strip. apply rstrip_idem.
Qed.

Lemma strip_nil : strip [] = [].
Proof. reflexivity. Qed.

Lemma upper_idem s : upper (upper s) = upper s.
Proof.
  unfold upper. rewrite map_map. apply map_ext. intros c. destruct c; reflexivity.
Qed.
Lemma upper_app a b : upper (a ++ b) = upper a ++ upper b.
Proof. apply map_app. Qed.

Lemma strip_prefix_app p s : strip_prefix p (p ++ s) = Some s.
Proof. induction p as [|a p IH]; [reflexivity|]. cbn. rewrite byte_eqb_refl. exact IH. Qed.
Lemma removeprefix_app p s : removeprefix p (p ++ s) = s.
Proof. unfold removeprefix. rewrite strip_prefix_app. reflexivity. Qed.
Lemma strip_prefix_some p s r : strip_prefix p s = Some r -> s = p ++ r.
Proof.
  revert s. induction p as [|a p IH]; intros s H.
  - cbn in H. inversion H. reflexivity.
  - destruct s as [|b s]; [discriminate|]. cbn in H.
    destruct (byte_eqb a b) eqn:E; [|discriminate]. apply byte_eqb_eq in E. subst. cbn. f_equal. apply IH. exact H.
Qed.

Lemma takewhile_app_stop p a c b : forallb p a = true -> p c = false -> takewhile p (a ++ c :: b) = a.
Proof.
  intros Ha Hc. induction a as [|x a IH]; cbn.
  - rewrite Hc. reflexivity.
  - cbn in Ha. apply andb_prop in Ha. destruct Ha as [Hx Ha]. rewrite Hx. f_equal. apply IH. exact Ha.
Qed.
Lemma takewhile_all p a : forallb p a = true -> takewhile p a = a.
Proof.
  induction a as [|x a IH]; intros H; [reflexivity|]. cbn in *. apply andb_prop in H. destruct H as [Hx Ha].
  rewrite Hx. f_equal. apply IH. exact Ha.
Qed.
Lemma takewhile_forallb p s : forallb p (takewhile p s) = true.
Proof. induction s as [|x s IH]; [reflexivity|]. cbn. destruct (p x) eqn:E; [cbn; rewrite E; exact IH|reflexivity]. Qed.
Lemma takewhile_dropwhile p s : takewhile p s ++ dropwhile p s = s.
Proof. induction s as [|x s IH]; [reflexivity|]. cbn. destruct (p x); [cbn; f_equal; exact IH|reflexivity]. Qed.
Lemma takewhile_idem p s : takewhile p (takewhile p s) = takewhile p s.
Proof. apply takewhile_all. apply takewhile_forallb. Qed.

(* split / join *)
Lemma split_on_no c s : no_byte c s = true -> split_on c s = [s].
Proof.
  induction s as [|x s IH]; [reflexivity|]. cbn [no_byte forallb]. intros H. apply andb_prop in H. destruct H as [Hx Hs].
  apply negb_true_iff in Hx. cbn [split_on]. rewrite Hx. rewrite (IH Hs). reflexivity.
Qed.
Lemma split_on_app c a r : no_byte c a = true -> split_on c (a ++ c :: r) = a :: split_on c r.
Proof.
  induction a as [|x a IH]; intros H.
  - cbn. rewrite byte_eqb_refl. reflexivity.
  - cbn [no_byte forallb] in H. apply andb_prop in H. destruct H as [Hx Ha]. apply negb_true_iff in Hx.
    cbn [app split_on]. rewrite Hx. rewrite (IH Ha). reflexivity.
Qed.
Lemma split_join c cols : cols <> [] -> forallb (no_byte c) cols = true -> split_on c (join [c] cols) = cols.
Proof.
  induction cols as [|a cols IH]; [contradiction|]. intros _ H. cbn [forallb] in H. apply andb_prop in H. destruct H as [Ha Hc].
  destruct cols as [|b cols].
  - cbn [join]. apply split_on_no. exact Ha.
  - change (join [c] (a :: b :: cols)) with (a ++ [c] ++ join [c] (b :: cols)). cbn [app].
    rewrite (split_on_app c a _ Ha). rewrite IH; [reflexivity|discriminate|exact Hc].
Qed.
Lemma join_cons sep a b cols : join sep (a :: b :: cols) = a ++ sep ++ join sep (b :: cols).
Proof. reflexivity. Qed.
Lemma join_snoc sep cols l : cols <> [] -> join sep (cols ++ [l]) = join sep cols ++ sep ++ l.
Proof.
  induction cols as [|a cols IH]; [contradiction|]. intros _. destruct cols as [|b cols].
  - reflexivity.
  - cbn [app]. rewrite join_cons. change (b :: cols ++ [l]) with ((b :: cols) ++ [l]).
    rewrite IH by discriminate. rewrite join_cons. rewrite <- !app_assoc. reflexivity.
Qed.
