(* lib/C14_Dec.v -- decimal rendering / parsing round trip for Text.dec_of_Z / Z_of_dec (copy of lib/C01_Dec.v so that C14 does not
   depend on another property's files; candidate for a shared lib/Dec.v). *)
From Coq Require Import List ZArith NArith Bool Lia.
From Coq.Strings Require Import Byte.
From Coq Require Decimal DecimalZ DecimalPos.
Import ListNotations.
From SV Require Import Text.
Local Open Scope Z_scope.

Lemma digits_acc_pos : forall u p,
  digits_acc (uint_bytes u) (Zpos p) = Some (Zpos (Pos.of_uint_acc u p)).
Proof.
  induction u as [|u IH|u IH|u IH|u IH|u IH|u IH|u IH|u IH|u IH|u IH]; intros p;
    cbn [uint_bytes digits_acc digit_val Pos.of_uint_acc]; try reflexivity.
  - replace (Zpos p * 10 + 0) with (Zpos (Pos.mul 10 p)) by lia. apply IH.
  - replace (Zpos p * 10 + 1) with (Zpos (Pos.add 1 (Pos.mul 10 p))) by lia. apply IH.
  - replace (Zpos p * 10 + 2) with (Zpos (Pos.add 2 (Pos.mul 10 p))) by lia. apply IH.
  - replace (Zpos p * 10 + 3) with (Zpos (Pos.add 3 (Pos.mul 10 p))) by lia. apply IH.
  - replace (Zpos p * 10 + 4) with (Zpos (Pos.add 4 (Pos.mul 10 p))) by lia. apply IH.
  - replace (Zpos p * 10 + 5) with (Zpos (Pos.add 5 (Pos.mul 10 p))) by lia. apply IH.
  - replace (Zpos p * 10 + 6) with (Zpos (Pos.add 6 (Pos.mul 10 p))) by lia. apply IH.
  - replace (Zpos p * 10 + 7) with (Zpos (Pos.add 7 (Pos.mul 10 p))) by lia. apply IH.
  - replace (Zpos p * 10 + 8) with (Zpos (Pos.add 8 (Pos.mul 10 p))) by lia. apply IH.
  - replace (Zpos p * 10 + 9) with (Zpos (Pos.add 9 (Pos.mul 10 p))) by lia. apply IH.
Qed.

Lemma digits_acc_zero : forall u, digits_acc (uint_bytes u) 0 = Some (Z.of_N (Pos.of_uint u)).
Proof.
  induction u as [|u IH|u IH|u IH|u IH|u IH|u IH|u IH|u IH|u IH|u IH];
    cbn [uint_bytes digits_acc digit_val Pos.of_uint]; try reflexivity;
    try (change (0 * 10 + 0) with 0; exact IH);
    match goal with |- digits_acc _ ?a = _ => let v := eval vm_compute in a in change a with v end;
    rewrite digits_acc_pos; reflexivity.
Qed.

Lemma uint_bytes_nil : forall u, uint_bytes u = [] -> u = Decimal.Nil.
Proof. destruct u; cbn; intros H; try discriminate; reflexivity. Qed.

Lemma nat_of_dec_pos : forall p, nat_of_dec (uint_bytes (Pos.to_uint p)) = Some (Zpos p).
Proof.
  intros p. unfold nat_of_dec.
  destruct (uint_bytes (Pos.to_uint p)) eqn:E.
  - apply uint_bytes_nil in E. pose proof (DecimalPos.Unsigned.of_to p) as H. rewrite E in H. discriminate.
  - rewrite <- E. rewrite digits_acc_zero, DecimalPos.Unsigned.of_to. reflexivity.
Qed.

Definition is_digit_byte (c : byte) : bool := match digit_val c with Some _ => true | None => false end.
Lemma uint_bytes_digits : forall u, forallb is_digit_byte (uint_bytes u) = true.
Proof. induction u; cbn; auto. Qed.

Lemma Z_of_dec_digits : forall s, forallb is_digit_byte s = true -> Z_of_dec s = nat_of_dec s.
Proof.
  intros [|c r] H; [reflexivity|]. cbn in H. apply andb_prop in H. destruct H as [H _].
  destruct c; try discriminate H; reflexivity.
Qed.

Theorem Z_of_dec_of_Z : forall z, Z_of_dec (dec_of_Z z) = Some z.
Proof.
  intros [|p|p]; unfold dec_of_Z; cbn [Z.to_int].
  - reflexivity.
  - rewrite Z_of_dec_digits by apply uint_bytes_digits. apply nat_of_dec_pos.
  - cbn [Z_of_dec]. rewrite nat_of_dec_pos. reflexivity.
Qed.

(* the decimal of a natural number consists of digits only *)
Lemma dec_of_nat_digits n : forallb is_digit_byte (dec_of_nat n) = true.
Proof.
  unfold dec_of_nat, dec_of_Z. destruct (Z.of_nat n) eqn:E; cbn [Z.to_int]; try apply uint_bytes_digits. lia.
Qed.
Lemma dec_of_nat_nonempty n : dec_of_nat n <> [].
Proof.
  intros H. pose proof (Z_of_dec_of_Z (Z.of_nat n)) as R. unfold dec_of_nat in H. rewrite H in R. discriminate.
Qed.
