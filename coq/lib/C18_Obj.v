(* C18 model, part 3: BioSeq / BioBasket / FeatureList / Feature / LocationTuple / Location / Meta as a heap of OBJECTS WITH
   IDENTITIES.  Definitions only (executable, run by the correspondence harness); proofs are in proof/C18_ObjLemmas.v.

   An object is a cell: its class, its named slots (public attributes of a sugar object / the ordered items of a mapping) and
   its elements (BioBasket.data, FeatureList.data, LocationTuple, a plain list).  Slots and elements hold scalars or references.
   The heap is a list of cells addressed by position; allocation appends.

   Every public operation is a PROGRAM (cmd) over four primitives: read a cell, overwrite a cell, allocate a cell, deep-copy an
   object graph.  The interpreter (interp) is capability checked: a program can only touch addresses it was handed (its operands),
   found in a cell it read, or allocated itself; anything else stops with OutOfDomain.  The isolation / not-in-place / returns-the-
   receiver theorems are proved ONCE for the interpreter, hence hold for every operation written in this language.

   x.copy() = copy.deepcopy(x) (seq.py:517-521, 922-926; fts.py:836-840; meta.py:68-70) is the primitive Copy: a GRAPH copy (one new
   cell per reachable cell, internal sharing preserved - deepcopy's memo), not a tree rebuild.
   Slicing / + / Meta(meta) re-wrapping allocate a new top-level Meta with the SAME item values (seq.py:447-498, 277-280, 221-233;
   meta.py:31-40): nested Attr objects and the FeatureList meta.fts are shared by design (seq.py:316-330). *)
From Coq Require Import List ZArith NArith Bool.
From Coq.Strings Require Import Byte.
Import ListNotations.
From SV Require Import Text G_attr G_codes C18_Model C18_Heap.

Inductive cls := KSeq | KBasket | KFts | KFeat | KLocs | KLoc | KMeta | KAttr | KDict | KList.
Record ocell := OC { ocls : cls; ofs : list (str * hval); oes : list hval }.
Definition oheap := list ocell.

Definition vrefs (vs : list hval) : list nat := flat_map (fun v => match v with HRef l => [l] | _ => [] end) vs.
Definition ocell_vals (c : ocell) : list hval := map snd (ofs c) ++ oes c.
Definition ocell_refs (c : ocell) : list nat := vrefs (ocell_vals c).

Definition memb (x : nat) (l : list nat) : bool := existsb (Nat.eqb x) l.
Definition subsetb (a b : list nat) : bool := forallb (fun x => memb x b) a.
Definition val_known (kn : list nat) (v : hval) : bool := match v with HRef l => memb l kn | _ => true end.

(* ---- reachable cells in first-visit (preorder) order; the harness numbers object identities in this order ---- *)
Fixpoint dfs (fuel : nat) (h : oheap) (stack seen : list nat) : option (list nat) :=
  match fuel with
  | O => None
  | S f =>
      match stack with
      | [] => Some seen
      | l :: st =>
          if memb l seen then dfs f h st seen
          else match nth_error h l with
               | Some c => dfs f h (ocell_refs c ++ st) (l :: seen)
               | None => None
               end
      end
  end.
Definition dfs_fuel (h : oheap) (st : list nat) : nat :=
  S (S (length st + length h + fold_right (fun c a => length (ocell_refs c) + a) 0 h)).
Definition reach_order (h : oheap) (roots : list nat) : option (list nat) :=
  option_map (@rev nat) (dfs (dfs_fuel h roots) h roots []).

Fixpoint index_of (x : nat) (l : list nat) : option nat :=
  match l with
  | [] => None
  | y :: r => if Nat.eqb y x then Some 0 else option_map S (index_of x r)
  end.

(* ---- deepcopy as a graph copy: the i-th reachable cell is copied to address length h + i; a reference that is not in the
        reachable set (cannot happen when dfs finished) makes the copy fail closed ---- *)
Definition rename (R : list nat) (n : nat) (v : hval) : option hval :=
  match v with
  | HRef a => option_map (fun i => HRef (n + i)) (index_of a R)
  | _ => Some v
  end.
Definition rename_cell (R : list nat) (n : nat) (c : ocell) : option ocell :=
  match mapM (fun kv => option_map (pair (fst kv)) (rename R n (snd kv))) (ofs c), mapM (rename R n) (oes c) with
  | Some fs, Some es => Some (OC (ocls c) fs es)
  | _, _ => None
  end.
Definition graph_copy (h : oheap) (l : nat) : option (oheap * nat) :=
  match reach_order h [l] with
  | Some R =>
      match mapM (fun a => match nth_error h a with Some c => rename_cell R (length h) c | None => None end) R,
            index_of l R with
      | Some cells, Some i => Some (h ++ cells, length h + i)
      | _, _ => None
      end
  | None => None
  end.

(* ---- programs ---- *)
Inductive cmd :=
| Ret (v : hval)
| Fail (e : err)
| Read (l : nat) (k : ocell -> cmd)
| Write (l : nat) (c : ocell) (k : cmd)
| Alloc (c : ocell) (k : nat -> cmd)
| Copy (l : nat) (k : nat -> cmd).

Fixpoint interp (c : cmd) (kn : list nat) (h : oheap) : (oheap * hval) + err :=
  match c with
  | Ret v => if val_known kn v then inl (h, v) else inr EOut
  | Fail e => inr e
  | Read l k =>
      if memb l kn then
        match nth_error h l with
        | Some c => interp (k c) (ocell_refs c ++ kn) h
        | None => inr EOut
        end
      else inr EOut
  | Write l c k =>
      if memb l kn && subsetb (ocell_refs c) kn && Nat.ltb l (length h) then interp k kn (set_nth h l c) else inr EOut
  | Alloc c k =>
      if subsetb (ocell_refs c) kn then interp (k (length h)) (length h :: kn) (h ++ [c]) else inr EOut
  | Copy l k =>
      if memb l kn then
        match graph_copy h l with
        | Some (h', l') => interp (k l') (l' :: kn) h'
        | None => inr EOut
        end
      else inr EOut
  end.

(* ---- small program combinators ---- *)
Definition rd (v : hval) (k : nat -> ocell -> cmd) : cmd :=
  match v with HRef l => Read l (k l) | _ => Fail EOut end.

Definition is_seqlike (g : cls) : bool := match g with KBasket | KFts | KLocs | KList => true | _ => false end.
Definition is_mapcls (g : cls) : bool := match g with KMeta | KAttr | KDict => true | _ => false end.
Definition attrcls (g : cls) : bool := match g with KMeta | KAttr => true | _ => false end.

(* obj.name / mapping[key] / container[i] *)
Definition cstep (c : ocell) (e : pelem) : option hval :=
  match e with
  | PK k => aget k (ofs c)
  | PI i => if is_seqlike (ocls c) then nth_py (oes c) i else None
  end.
Fixpoint onav (v : hval) (p : list pelem) (k : hval -> cmd) : cmd :=
  match p with
  | [] => k v
  | e :: p' => rd v (fun _ c => match cstep c e with Some x => onav x p' k | None => Fail EOut end)
  end.
(* the same navigation as a function of the heap (used in theorem statements) *)
Fixpoint onav_pure (h : oheap) (v : hval) (p : list pelem) : option hval :=
  match p with
  | [] => Some v
  | e :: p' =>
      match v with
      | HRef l => match nth_error h l with
                  | Some c => match cstep c e with Some x => onav_pure h x p' | None => None end
                  | None => None
                  end
      | _ => None
      end
  end.

(* for x in xs: x = f(x)   -- sequential, like the Python loops (an object that occurs twice is transformed twice) *)
Fixpoint foreach (vs : list hval) (f : ocell -> option ocell) (k : cmd) : cmd :=
  match vs with
  | [] => k
  | v :: r => rd v (fun l c => match f c with Some c' => Write l c' (foreach r f k) | None => Fail EOut end)
  end.
Fixpoint read_all (vs : list hval) (acc : list (hval * ocell)) (k : list (hval * ocell) -> cmd) : cmd :=
  match vs with
  | [] => k (rev acc)
  | v :: r => rd v (fun _ c => read_all r ((v, c) :: acc) k)
  end.
Fixpoint alloc_list {A} (f : A -> (hval -> cmd) -> cmd) (l : list A) (acc : list hval) (k : list hval -> cmd) : cmd :=
  match l with
  | [] => k (rev acc)
  | x :: r => f x (fun v => alloc_list f r (v :: acc) k)
  end.

Definition cls_of_tag (g : tag) : cls := match g with TgDict => KDict | TgAttr => KAttr | TgMeta => KMeta end.
(* allocate a metadata value (already converted at value level by C18_Model.conv / attr_init) *)
Fixpoint alloc_tree (t : tree) (k : hval -> cmd) {struct t} : cmd :=
  match t with
  | TNull => k HNull | TBool b => k (HBool b) | TInt z => k (HInt z) | TStr s => k (HStr s)
  | TList l =>
      (fix go (l : list tree) (acc : list hval) {struct l} : cmd :=
         match l with
         | [] => Alloc (OC KList [] (rev acc)) (fun a => k (HRef a))
         | x :: r => alloc_tree x (fun v => go r (v :: acc))
         end) l []
  | TMap g kvs =>
      (fix go (l : list (str * tree)) (acc : list (str * hval)) {struct l} : cmd :=
         match l with
         | [] => Alloc (OC (cls_of_tag g) (rev acc) []) (fun a => k (HRef a))
         | (key, x) :: r => alloc_tree x (fun v => go r ((key, v) :: acc))
         end) kvs []
  end.
Fixpoint alloc_items (kvs : list (str * tree)) (acc : list (str * hval)) (k : list (str * hval) -> cmd) : cmd :=
  match kvs with
  | [] => k (rev acc)
  | (key, x) :: r => alloc_tree x (fun v => alloc_items r ((key, v) :: acc) k)
  end.

(* ---- bytes ---- *)
Definition upper_byte (b : byte) : byte :=
  let n := Byte.to_N b in
  if N.leb 97 n && N.leb n 122 then match Byte.of_N (n - 32) with Some c => c | None => b end else b.
Definition lower_byte (b : byte) : byte :=
  let n := Byte.to_N b in
  if N.leb 65 n && N.leb n 90 then match Byte.of_N (n + 32) with Some c => c | None => b end else b.
Definition upper (s : str) : str := map upper_byte s.
Definition lower (s : str) : str := map lower_byte s.
(* BioSeq.complement (seq.py:501-509): str.translate(COMPLEMENT_TRANS), with the U <-> T detour for RNA; the table is the
   regenerated G_codes.COMPLEMENT_TRANS; characters without an entry (lower case, N already mapped to N, ...) stay *)
Definition trans_byte (b : byte) : byte :=
  match find (fun kv => N.eqb (fst kv) (Byte.to_N b)) COMPLEMENT_TRANS with
  | Some (_, n) => match Byte.of_N n with Some c => c | None => b end
  | None => b
  end.
Definition swap_byte (x y b : byte) : byte := if byte_eqb b x then y else b.
Definition complement (d : str) : str :=
  if existsb (byte_eqb "U"%byte) d
  then map (swap_byte "T"%byte "U"%byte) (map trans_byte (map (swap_byte "U"%byte "T"%byte) d))
  else map trans_byte d.
Definition is_ascii (s : str) : bool := forallb (fun b => N.ltb (Byte.to_N b) 128) s.
(* BioSeq.__init__ (seq.py:234-236): type = 'nt' if all letters are in CODES or 'U' *)
Definition seq_type (d : str) : str :=
  if forallb (fun b => existsb (fun kv => byte_eqb (fst kv) b) CODES || byte_eqb b "U"%byte) d then bs "nt"%bs else bs "aa"%bs.
(* s[a:b] for str / list, step 1 *)
Definition clampi (n i : Z) : Z := let j := if Z.ltb i 0 then (i + n)%Z else i in if Z.ltb j 0 then 0%Z else if Z.ltb n j then n else j.
Definition slice_py {A} (l : list A) (a b : Z) : list A :=
  let n := Z.of_nat (length l) in
  let a' := clampi n a in let b' := clampi n b in
  firstn (Z.to_nat (b' - a')) (skipn (Z.to_nat a') l).

Definition kdata : str := bs "data"%bs.
Definition kmeta : str := bs "meta"%bs.
Definition ktype : str := bs "type"%bs.
Definition kid : str := bs "id"%bs.
Definition kfts : str := bs "fts"%bs.
Definition klocs : str := bs "locs"%bs.

Definition set_slot (c : ocell) (k : str) (v : hval) : ocell := OC (ocls c) (aset k v (ofs c)) (oes c).
Definition set_elems (c : ocell) (es : list hval) : ocell := OC (ocls c) (ofs c) es.
Definition seq_data (c : ocell) : option str :=
  match ocls c, aget kdata (ofs c) with KSeq, Some (HStr d) => Some d | _, _ => None end.
Definition seq_map (f : str -> str) (c : ocell) : option ocell :=
  match seq_data c with Some d => Some (set_slot c kdata (HStr (f d))) | None => None end.

(* ---- literals handed to the constructors ---- *)
Record loclit := LocLit { ll_start : Z; ll_stop : Z; ll_strand : str; ll_defect : Z; ll_meta : tree }.
Record featlit := FeatLit { fl_type : option str; fl_locs : list loclit; fl_meta : tree }.
Record seqlit := SeqLit { sl_data : str; sl_meta : tree; sl_fts : list featlit }.
Inductive objlit := LSeq (s : seqlit) | LBasket (ss : list seqlit) (m : tree) | LFts (fs : list featlit) | LMeta (m : tree).

(* Meta(d) for a literal dict: value-level conversion (C18_Model.attr_init), then allocation *)
Definition meta_items (t : tree) : option (list (str * tree)) :=
  match t with
  | TMap TgDict kvs => match attr_init TgMeta kvs with TMap _ items => Some items | _ => None end
  | _ => None
  end.
(* Location(start, stop, strand, defect, meta=d)   fts.py:84-93 *)
Definition alloc_loc (x : loclit) (k : hval -> cmd) : cmd :=
  if Z.leb (ll_stop x) (ll_start x) then Fail EOut else
  match meta_items (ll_meta x) with
  | Some items =>
      alloc_tree (TMap TgMeta items) (fun m =>
        Alloc (OC KLoc [(bs "defect"%bs, HInt (ll_defect x)); (kmeta, m); (bs "start"%bs, HInt (ll_start x));
                        (bs "stop"%bs, HInt (ll_stop x)); (bs "strand"%bs, HStr (ll_strand x))] [])
              (fun a => k (HRef a)))
  | None => Fail EOut
  end.
(* LocationTuple.__new__ sorts by start (by stop, descending, on the '-' strand) and wants one strand: the literal must already be
   in that order (strictly), otherwise it is outside the modelled domain.  fts.py:163-190 *)
Fixpoint locs_sorted (minus : bool) (l : list loclit) : bool :=
  match l with
  | [] => true
  | x :: r => match r with
              | [] => true
              | y :: _ => (if minus then Z.ltb (ll_stop y) (ll_stop x) else Z.ltb (ll_start x) (ll_start y))
                          && str_eqb (ll_strand x) (ll_strand y) && locs_sorted minus r
              end
  end.
(* Feature(type, locs, meta=d): meta = Meta(d); meta.type = type; locs   fts.py:281-287 *)
Definition alloc_feat (x : featlit) (k : hval -> cmd) : cmd :=
  match fl_locs x, meta_items (fl_meta x) with
  | l0 :: _, Some items =>
      if locs_sorted (str_eqb (ll_strand l0) (bs "-"%bs)) (fl_locs x) then
        alloc_tree (TMap TgMeta (match fl_type x with Some ty => aset ktype (TStr ty) items | None => items end)) (fun m =>
          alloc_list alloc_loc (fl_locs x) [] (fun ls =>
            Alloc (OC KLocs [] ls) (fun lt =>
              Alloc (OC KFeat [(klocs, HRef lt); (kmeta, m)] []) (fun a => k (HRef a)))))
      else Fail EOut
  | _, _ => Fail EOut
  end.
Definition alloc_fts (fs : list featlit) (k : hval -> cmd) : cmd :=
  alloc_list alloc_feat fs [] (fun es => Alloc (OC KFts [] es) (fun a => k (HRef a))).
(* s = BioSeq(data, meta=d); s.fts = [features]     seq.py:221-243, 326-330 *)
Definition alloc_seq (x : seqlit) (k : hval -> cmd) : cmd :=
  match meta_items (sl_meta x) with
  | Some items =>
      if amem kfts items || negb (is_ascii (sl_data x)) then Fail EOut else
      let items := if amem kid items then items else aset kid (TStr []) items in
      alloc_items items [] (fun its =>
        let fin := fun (its' : list (str * hval)) =>
          Alloc (OC KMeta its' []) (fun m =>
            let d := upper (sl_data x) in
            Alloc (OC KSeq [(kdata, HStr d); (kmeta, HRef m); (ktype, HStr (seq_type d))] []) (fun a => k (HRef a))) in
        (* a sequence built without features has NO 'fts' item: BioSeq.fts creates it lazily (seq.py:316-324) *)
        match sl_fts x with
        | [] => fin its
        | _ => alloc_fts (sl_fts x) (fun f => fin (aset kfts f its))
        end)
  | None => Fail EOut
  end.
Definition alloc_obj (o : objlit) (k : hval -> cmd) : cmd :=
  match o with
  | LSeq s => alloc_seq s k
  | LBasket ss m =>
      match meta_items m with
      | Some items =>
          alloc_list alloc_seq ss [] (fun es =>
            alloc_tree (TMap TgMeta items) (fun mm => Alloc (OC KBasket [(kmeta, mm)] es) (fun a => k (HRef a))))
      | None => Fail EOut
      end
  | LFts fs => alloc_fts fs k
  | LMeta m => match meta_items m with Some items => alloc_tree (TMap TgMeta items) k | None => Fail EOut end
  end.

(* Meta(m) for an existing Meta m (seq.py:233, 663): a NEW top-level object with the same item values.  Attr.__setitem__ would
   convert a plain dict value; a Meta never holds one (C18_apply_op_good), the model checks it and stops otherwise. *)
Definition rewrap (m : hval) (k : hval -> cmd) : cmd :=
  rd m (fun _ mc =>
    if attrcls (ocls mc) then
      read_all (map HRef (vrefs (map snd (ofs mc)))) [] (fun cs =>
        if existsb (fun vc => match ocls (snd vc) with KDict => true | _ => false end) cs then Fail EOut
        else Alloc (OC KMeta (ofs mc) []) (fun a => k (HRef a)))
    else Fail EOut).
(* cls(data, meta=old.meta) of BioSeq: upper-cases, re-wraps the metadata, sets id if missing, detects the type *)
Definition new_seq (d : str) (m : hval) (k : hval -> cmd) : cmd :=
  rewrap m (fun m' =>
    rd m' (fun ml mc =>
      let fin := fun (m'' : hval) =>
        let d' := upper d in
        Alloc (OC KSeq [(kdata, HStr d'); (kmeta, m''); (ktype, HStr (seq_type d'))] []) (fun a => k (HRef a)) in
      if amem kid (ofs mc) then fin m'
      else Write ml (set_slot mc kid (HStr [])) (fin m'))).

(* ---- stable sort by an integer key (sorted(..., key=len)) ---- *)
Fixpoint insert_by {A} (key : A -> Z) (x : A) (l : list A) : list A :=
  match l with
  | [] => [x]
  | y :: r => if Z.ltb (key x) (key y) then x :: y :: r else y :: insert_by key x r
  end.
Definition sort_by {A} (key : A -> Z) (l : list A) : list A := fold_left (fun acc x => insert_by key x acc) l [].
Definition len_of (vc : hval * ocell) : option Z := option_map (fun d => Z.of_nat (length d)) (seq_data (snd vc)).
Definition all_some {A B} (f : A -> option B) (l : list A) : bool := forallb (fun x => match f x with Some _ => true | None => false end) l.
Definition len0 (vc : hval * ocell) : Z := match len_of vc with Some z => z | None => 0%Z end.

(* ---- the modelled public operations ---- *)
(* in-place transformations: documented to return the receiver *)
Inductive ifn :=
| FReverse                  (* BioSeq.reverse / BioBasket.reverse          seq.py:599-604, 914-920 *)
| FLower | FUpper           (* BioSeq.str.lower / upper, BioBasket.str.*   seq.py:99-101, 168-170, 185-199 *)
| FComplement | FRc         (* complement() / rc() of BioSeq and BioBasket seq.py:356-363, 501-509, 781-787, 894-901 *)
| FIaddLit (s : str)        (* seq += 'ACG'                                seq.py:282-286 *)
| FSortLen                  (* basket.sort(len)                            seq.py:1066-1085, cane.py:48-64 *)
| FFilterLen (n : Z).       (* basket.filter(inplace=True, len_gt=n)       seq.py:1105-1134, cane.py:67-105 *)

Definition seq_fn (f : ifn) : option (str -> str) :=
  match f with
  | FReverse => Some (@rev byte) | FLower => Some lower | FUpper => Some upper
  | FComplement => Some complement | FRc => Some (fun d => complement (rev d))
  | FIaddLit s => Some (fun d => d ++ s)
  | _ => None
  end.

Definition inplace_cmd (f : ifn) (l : nat) (c : ocell) : cmd :=
  match ocls c with
  | KSeq =>
      match seq_fn f with
      | Some g => match seq_map g c with Some c' => Write l c' (Ret (HRef l)) | None => Fail EOut end
      | None => Fail EOut
      end
  | KBasket =>
      match f with
      | FReverse | FLower | FUpper | FComplement | FRc =>
          match seq_fn f with
          | Some g => foreach (oes c) (seq_map g) (Ret (HRef l))
          | None => Fail EOut
          end
      | FSortLen =>
          read_all (oes c) [] (fun cs =>
            if all_some len_of cs then Write l (set_elems c (map fst (sort_by len0 cs))) (Ret (HRef l)) else Fail EOut)
      | FFilterLen n =>
          read_all (oes c) [] (fun cs =>
            if all_some len_of cs then Write l (set_elems c (map fst (filter (fun vc => Z.ltb n (len0 vc)) cs))) (Ret (HRef l))
            else Fail EOut)
      | FIaddLit _ => Fail EOut
      end
  | _ => Fail EOut
  end.

(* operations documented as NOT in-place: they build a new object *)
Inductive pfn :=
| PCopy                     (* x.copy()                                                                     *)
| PSlice (a b : Z)          (* seq[a:b] / basket[a:b] / fts[a:b]            seq.py:447-498, 848-874; UserList *)
| PAddLit (s : str)         (* seq + 'ACG'                                  seq.py:277-280 *)
| PFilterLen (n : Z)        (* basket.filter(len_gt=n)                      seq.py:1130-1134 *)
| PBasketFts                (* basket.fts : a NEW FeatureList holding the SAME feature objects of all sequences  seq.py:740-749 *)
| PGet.                     (* plain attribute / item access: an alias, nothing is built *)

Definition pure_cmd (f : pfn) (l : nat) (c : ocell) : cmd :=
  match f with
  | PGet => Ret (HRef l)
  | PCopy => Copy l (fun a => Ret (HRef a))
  | PSlice a b =>
      match ocls c with
      | KSeq => match seq_data c, aget kmeta (ofs c) with
                | Some d, Some m => new_seq (slice_py d a b) m Ret
                | _, _ => Fail EOut
                end
      | KBasket => match aget kmeta (ofs c) with
                   | Some m => rewrap m (fun m' => Alloc (OC KBasket [(kmeta, m')] (slice_py (oes c) a b)) (fun x => Ret (HRef x)))
                   | None => Fail EOut
                   end
      | KFts => Alloc (OC KFts [] (slice_py (oes c) a b)) (fun x => Ret (HRef x))
      | _ => Fail EOut
      end
  | PAddLit s =>
      match seq_data c, aget kmeta (ofs c) with
      | Some d, Some m => new_seq (d ++ s) m Ret
      | _, _ => Fail EOut
      end
  | PBasketFts =>
      match ocls c with
      | KBasket =>
          read_all (oes c) [] (fun scs =>
            match mapM (fun vc : hval * ocell => match ocls (snd vc) with KSeq => aget kmeta (ofs (snd vc)) | _ => None end) scs with
            | Some ms =>
                read_all ms [] (fun mcs =>
                  (* seq.fts is meta.setdefault('fts', FeatureList()): a sequence WITHOUT the item would be changed by the getter,
                     that is outside the modelled domain *)
                  match mapM (fun vc : hval * ocell => aget kfts (ofs (snd vc))) mcs with
                  | Some fs =>
                      read_all fs [] (fun fcs =>
                        if forallb (fun vc : hval * ocell => match ocls (snd vc) with KFts => true | _ => false end) fcs then
                          Alloc (OC KFts [] (flat_map (fun vc : hval * ocell => oes (snd vc)) fcs)) (fun x => Ret (HRef x))
                        else Fail EOut)
                  | None => Fail EOut
                  end)
            | None => Fail EOut
            end)
      | _ => Fail EOut
      end
  | PFilterLen n =>
      match ocls c with
      | KBasket =>
          read_all (oes c) [] (fun cs =>
            if all_some len_of cs then
              Alloc (OC KMeta [] []) (fun m =>
                Alloc (OC KBasket [(kmeta, HRef m)] (map fst (filter (fun vc => Z.ltb n (len0 vc)) cs))) (fun x => Ret (HRef x)))
            else Fail EOut)
      | _ => Fail EOut
      end
  end.

(* mutating operations without a return contract (they return None) *)
Inductive mfn :=
| MSetLit (k : str) (t : tree)     (* mapping[k] = literal   (Attr: recursive conversion)     meta.py:49-54 *)
| MDelKey (k : str)                (* del mapping[k]                                          meta.py:56-57 *)
| MSetId (s : str)                 (* seq.id = s                                              seq.py:311-313 *)
| MAppendSeq (x : seqlit)          (* basket.append(BioSeq(...))                              UserList *)
| MAppendFeat (x : featlit)        (* fts.append(Feature(...))                                UserList *)
| MAppendLit (t : tree)            (* plain list .append(literal) *)
| MDelIdx (i : Z)                  (* del container[i]                                        UserList *)
| MClear.                          (* container.clear()                                       UserList *)

Definition mut_cmd (f : mfn) (l : nat) (c : ocell) : cmd :=
  match f with
  | MSetLit k t =>
      if is_mapcls (ocls c) then
        alloc_tree (if attrcls (ocls c) then conv t else t) (fun v => Write l (set_slot c k v) (Ret HNull))
      else Fail EOut
  | MDelKey k =>
      if is_mapcls (ocls c) then
        match adel k (ofs c) with Some fs => Write l (OC (ocls c) fs (oes c)) (Ret HNull) | None => Fail EKey end
      else Fail EOut
  | MSetId s =>
      match ocls c, aget kmeta (ofs c) with
      | KSeq, Some m => rd m (fun ml mc => Write ml (set_slot mc kid (HStr s)) (Ret HNull))
      | _, _ => Fail EOut
      end
  | MAppendSeq x =>
      match ocls c with KBasket => alloc_seq x (fun v => Write l (set_elems c (oes c ++ [v])) (Ret HNull)) | _ => Fail EOut end
  | MAppendFeat x =>
      match ocls c with KFts => alloc_feat x (fun v => Write l (set_elems c (oes c ++ [v])) (Ret HNull)) | _ => Fail EOut end
  | MAppendLit t =>
      match ocls c with KList => alloc_tree t (fun v => Write l (set_elems c (oes c ++ [v])) (Ret HNull)) | _ => Fail EOut end
  | MDelIdx i =>
      match ocls c with
      | KBasket | KFts | KList =>
          let n := Z.of_nat (length (oes c)) in
          let j := if Z.ltb i 0 then (i + n)%Z else i in
          if Z.ltb j 0 || Z.leb n j then Fail EIndex
          else Write l (set_elems c (firstn (Z.to_nat j) (oes c) ++ skipn (S (Z.to_nat j)) (oes c))) (Ret HNull)
      | _ => Fail EOut
      end
  | MClear =>
      match ocls c with KBasket | KFts | KList => Write l (set_elems c []) (Ret HNull) | _ => Fail EOut end
  end.

(* operations with a second operand that is an existing object *)
Inductive bfn :=
| BExtend          (* container += other_container : the ELEMENTS are shared; returns the receiver     UserList.__iadd__ *)
| BSetFts          (* seq.fts = other_fts : a NEW FeatureList holding the SAME features                seq.py:326-330 *)
| BSetRef (k : str)(* mapping[k] = existing object (an Attr / list / FeatureList is stored as it is)   meta.py:49-54 *)
| BSetItem (i : Z) (* basket[i] = seq : the basket stores BioSeq(seq), a NEW sequence object whose re-wrapped metadata shares
                      meta.fts and nested metadata with the operand                                    seq.py:876-882, 221-243 *)
| BBasketSetFts    (* basket.fts = fts : the features are grouped by meta.seqid; every sequence whose id has a group gets a NEW
                      FeatureList holding those feature OBJECTS (first sequence with that id wins)        seq.py:751-760, cane.py:28-45 *)
| BGetFts          (* seq.fts (second operand unused): meta.setdefault('fts', FeatureList()) -- the getter stores a FRESH empty
                      FeatureList in the metadata of a sequence that has none, and hands out the stored one   seq.py:316-324 *)
| BIs.             (* a is b *)

(* getattr(ft.meta, 'seqid', None) as a dict key: a str, or None (missing / None); anything else is outside the modelled domain *)
Definition seqid_of (mc : ocell) : option (option str) :=
  match aget (bs "seqid"%bs) (ofs mc) with
  | None | Some HNull => Some None
  | Some (HStr s) => Some (Some s)
  | _ => None
  end.
Definition has_id (sid : str) (p : hval * option str) : bool := match snd p with Some x => str_eqb x sid | None => false end.
Fixpoint assign_fts (seqs : list hval) (pool : list (hval * option str)) (k : cmd) : cmd :=
  match seqs with
  | [] => k
  | sv :: r =>
      rd sv (fun _ sc =>
        match ocls sc, aget kmeta (ofs sc) with
        | KSeq, Some m =>
            rd m (fun ml mc =>
              match aget kid (ofs mc) with
              | Some (HStr sid) =>
                  match filter (has_id sid) pool with
                  | [] => assign_fts r pool k
                  | mine => Alloc (OC KFts [] (map fst mine)) (fun f =>
                              Write ml (set_slot mc kfts (HRef f)) (assign_fts r (filter (fun p => negb (has_id sid p)) pool) k))
                  end
              | _ => Fail EOut
              end)
        | _, _ => Fail EOut
        end)
  end.

Definition bin_cmd (f : bfn) (a b : hval) : cmd :=
  match f with
  | BIs => match a, b with HRef x, HRef y => Ret (HBool (Nat.eqb x y)) | _, _ => Fail EOut end
  | BExtend =>
      rd a (fun l c => rd b (fun _ c2 =>
        match ocls c, ocls c2 with
        | KBasket, KBasket | KFts, KFts => Write l (set_elems c (oes c ++ oes c2)) (Ret (HRef l))
        | _, _ => Fail EOut
        end))
  | BSetFts =>
      rd a (fun _ c => rd b (fun _ c2 =>
        match ocls c, aget kmeta (ofs c), ocls c2 with
        | KSeq, Some m, KFts =>
            Alloc (OC KFts [] (oes c2)) (fun f => rd m (fun ml mc =>
              (* the setter compares ft.seqid with self.id AFTER assigning: without an 'id' item that raises AttributeError on a
                 half-done assignment -- outside the modelled domain *)
              if negb (amem kid (ofs mc)) && negb (match oes c2 with [] => true | _ => false end) then Fail EOut
              else Write ml (set_slot mc kfts (HRef f)) (Ret HNull)))
        | _, _, _ => Fail EOut
        end))
  | BGetFts =>
      rd a (fun _ c =>
        match ocls c, aget kmeta (ofs c) with
        | KSeq, Some m =>
            rd m (fun ml mc =>
              match aget kfts (ofs mc) with
              | Some v => Ret v
              | None => Alloc (OC KFts [] []) (fun f => Write ml (set_slot mc kfts (HRef f)) (Ret (HRef f)))
              end)
        | _, _ => Fail EOut
        end)
  | BBasketSetFts =>
      rd a (fun _ c => rd b (fun _ c2 =>
        match ocls c, ocls c2 with
        | KBasket, KFts =>
            read_all (oes c2) [] (fun fcs =>
              match mapM (fun vc : hval * ocell => match ocls (snd vc) with KFeat => aget kmeta (ofs (snd vc)) | _ => None end) fcs with
              | Some ms =>
                  read_all ms [] (fun mcs =>
                    match mapM (fun vc : hval * ocell => seqid_of (snd vc)) mcs with
                    | Some ids => assign_fts (oes c) (combine (oes c2) ids) (Ret HNull)
                    | None => Fail EOut
                    end)
              | None => Fail EOut
              end)
        | _, _ => Fail EOut
        end))
  | BSetItem i =>
      rd a (fun l c => rd b (fun _ c2 =>
        match ocls c, seq_data c2, aget kmeta (ofs c2) with
        | KBasket, Some d, Some m =>
            new_seq d m (fun v =>
              match nth_py (oes c) i with
              | Some _ => Write l (set_elems c (set_py (oes c) i v)) (Ret HNull)
              | None => Fail EIndex
              end)
        | _, _, _ => Fail EOut
        end))
  | BSetRef k =>
      rd a (fun l c => rd b (fun _ c2 =>
        if attrcls (ocls c) then
          match ocls c2 with
          | KDict => Fail EOut          (* a plain dict would be converted (copied): covered by the heap model, part 2 *)
          | _ => Write l (set_slot c k b) (Ret HNull)
          end
        else Fail EOut))
  end.

Inductive oop :=
| ONew (i : nat) (o : objlit)                                   (* r_i = literal object *)
| OClr (i : nat)                                                (* r_i = None *)
| OPure (i : nat) (f : pfn) (j : nat) (q : list pelem)          (* r_i = f(nav(r_j, q)) *)
| OInpl (d : option nat) (f : ifn) (j : nat) (q : list pelem)   (* [r_d =] nav(r_j, q).f() *)
| OMut (f : mfn) (j : nat) (q : list pelem)                     (* nav(r_j, q).f(...) *)
| OBin (d : option nat) (f : bfn) (j : nat) (q : list pelem) (j2 : nat) (q2 : list pelem).

Definition op_regs (o : oop) : list nat :=
  match o with
  | ONew _ _ | OClr _ => []
  | OPure _ _ j _ | OInpl _ _ j _ | OMut _ j _ => [j]
  | OBin _ _ j _ j2 _ => [j; j2]
  end.
Definition op_dst (o : oop) : option nat :=
  match o with
  | ONew i _ | OClr i | OPure i _ _ _ => Some i
  | OInpl d _ _ _ | OBin d _ _ _ _ _ => d
  | OMut _ _ _ => None
  end.
Definition op_cmd (o : oop) (vals : list hval) : cmd :=
  match o with
  | ONew _ x => alloc_obj x Ret
  | OClr _ => Ret HNull
  | OPure _ f _ q => onav (nth 0 vals HNull) q (fun v => rd v (pure_cmd f))
  | OInpl _ f _ q => onav (nth 0 vals HNull) q (fun v => rd v (inplace_cmd f))
  | OMut f _ q => onav (nth 0 vals HNull) q (fun v => rd v (mut_cmd f))
  | OBin _ f _ q _ q2 => onav (nth 0 vals HNull) q (fun a => onav (nth 1 vals HNull) q2 (fun b => bin_cmd f a b))
  end.

Definition ostate := (oheap * list hval)%type.
Definition oreg (s : ostate) (i : nat) : hval := nth i (snd s) HNull.
Definition ostep (o : oop) (s : ostate) : (ostate * hval) + err :=
  let vals := map (oreg s) (op_regs o) in
  match interp (op_cmd o vals) (vrefs vals) (fst s) with
  | inl (h', r) => inl ((h', match op_dst o with Some i => set_nth (snd s) i r | None => snd s end), r)
  | inr e => inr e
  end.

(* ---- observation: the whole object graph behind the variables, identities numbered in first-visit order ---- *)
Definition cls_name (g : cls) : str :=
  match g with
  | KSeq => bs "Seq"%bs | KBasket => bs "Basket"%bs | KFts => bs "Fts"%bs | KFeat => bs "Feat"%bs | KLocs => bs "Locs"%bs
  | KLoc => bs "Loc"%bs | KMeta => bs "Meta"%bs | KAttr => bs "Attr"%bs | KDict => bs "dict"%bs | KList => bs "list"%bs
  end.
Definition render_v (order : list nat) (v : hval) : val :=
  match v with
  | HNull => VNone | HBool b => VB b | HInt z => VI z | HStr s => VS s
  | HRef a => match index_of a order with Some i => VL [VI (Z.of_nat i)] | None => VE (bs "Dangling"%bs) end
  end.
Definition render_cell (order : list nat) (c : ocell) : val :=
  VL [VS (cls_name (ocls c)); VL (map (fun kv => VL [VS (fst kv); render_v order (snd kv)]) (ofs c));
      VL (map (render_v order) (oes c))].
Definition dump (s : ostate) : val :=
  match reach_order (fst s) (vrefs (snd s)) with
  | Some order =>
      VL [VL (map (render_v order) (snd s));
          VL (map (fun a => match nth_error (fst s) a with Some c => render_cell order c | None => VNone end) order)]
  | None => VE (bs "OutOfDomain"%bs)
  end.
Definition hval_is (a b : hval) : bool := match a, b with HRef x, HRef y => Nat.eqb x y | _, _ => false end.
(* the result of one operation: a scalar, or -- for an object -- which variables it IS afterwards *)
Definition render_res (s : ostate) (r : hval) : val :=
  match r with
  | HRef _ => VL (VS (bs "obj"%bs) :: map (fun v => VB (hval_is r v)) (snd s))
  | HNull => VNone | HBool b => VB b | HInt z => VI z | HStr x => VS x
  end.

Fixpoint orun (ops : list oop) (s : ostate) (okd : bool) (acc : list val) : bool * list val * ostate :=
  match ops with
  | [] => (okd, rev acc, s)
  | o :: r =>
      match ostep o s with
      | inl (s', v) => orun r s' okd (render_res s' v :: acc)
      | inr EOut => orun r s false (enc_err EOut :: acc)
      | inr e => orun r s okd (enc_err e :: acc)
      end
  end.

Definition oinit : ostate := ([], repeat HNull nregs).
Definition wf_C18_obj (ops : list oop) : bool := let '(okd, _, _) := orun ops oinit true [] in okd.
(* harness entry point: [in-domain; [per-operation results; graph dump of all variables]] *)
Definition run_C18_obj (ops : list oop) : val :=
  let '(okd, res, s) := orun ops oinit true [] in
  VL [VB okd; VL [VL res; dump s]].

(* ---- the BioSeq.str / BioBasket.str namespaces (seq.py:36-199): a row of the regenerated table coq/gen/G_c18_str.v is
        (method, kind of BioSeq.str.m: 1 = works in place / 0 = returns a value / 2 = raises,
         [BioBasket.str.m returned the basket itself: 1 / 0 / 2, for baskets with 0, 1 and 2 sequences]) ---- *)
Definition str_row_ok (row : str * (N * list N)) : bool :=
  match fst (snd row) with
  | 1%N => forallb (N.eqb 1) (snd (snd row))
  | 0%N => forallb (N.eqb 0) (snd (snd row))
  | _ => true
  end.
