(* C18 model, part 2: a small heap for the aliasing structure of Attr/Meta objects.
   Definitions only (executable, run by the correspondence harness); proofs are in proof/C18_HeapLemmas.v.
   A heap is a list of cells addressed by position; allocation appends, so old addresses stay valid.
   A cell is a mapping object (dict / Attr / Meta, with its ordered items) or a list; items hold scalars or
   references.  copy.deepcopy itself is CPython's: it is modelled as "read the reachable structure, build it afresh"
   (deepcopy), which is exact for objects whose reachable graph is a tree; internally shared or cyclic objects are
   outside the modelled domain (flagged by [tree_shaped]). *)
From Coq Require Import List ZArith NArith Bool.
From Coq.Strings Require Import Byte.
Import ListNotations.
From SV Require Import Text G_attr C18_Model.

Inductive hval := HNull | HBool (b : bool) | HInt (z : Z) | HStr (s : str) | HRef (l : nat).
Inductive cell := CMap (g : tag) (kvs : list (str * hval)) | CList (vs : list hval).
Definition heap := list cell.

Fixpoint mapM {A B} (f : A -> option B) (l : list A) : option (list B) :=
  match l with
  | [] => Some []
  | x :: r => match f x, mapM f r with Some y, Some ys => Some (y :: ys) | _, _ => None end
  end.

(* deep read with fuel (depth) *)
Fixpoint snap (n : nat) (h : heap) (v : hval) : option tree :=
  match v with
  | HNull => Some TNull | HBool b => Some (TBool b) | HInt z => Some (TInt z) | HStr s => Some (TStr s)
  | HRef l =>
      match n with
      | O => None
      | S n' =>
          match nth_error h l with
          | Some (CMap g kvs) =>
              option_map (TMap g) (mapM (fun kv => option_map (pair (fst kv)) (snap n' h (snd kv))) kvs)
          | Some (CList vs) => option_map TList (mapM (snap n' h) vs)
          | None => None
          end
      end
  end.

(* allocate a value-level tree as fresh cells (children first, the node itself last) *)
Fixpoint build (t : tree) (h : heap) : heap * hval :=
  match t with
  | TNull => (h, HNull) | TBool b => (h, HBool b) | TInt z => (h, HInt z) | TStr s => (h, HStr s)
  | TList l =>
      let '(h1, vs) := (fix go (l : list tree) (h : heap) : heap * list hval :=
                          match l with
                          | [] => (h, [])
                          | x :: r => let '(h1, v) := build x h in let '(h2, vs) := go r h1 in (h2, v :: vs)
                          end) l h in
      (h1 ++ [CList vs], HRef (length h1))
  | TMap g kvs =>
      let '(h1, vs) := (fix go (l : list (str * tree)) (h : heap) : heap * list (str * hval) :=
                          match l with
                          | [] => (h, [])
                          | (k, x) :: r => let '(h1, v) := build x h in let '(h2, vs) := go r h1 in (h2, (k, v) :: vs)
                          end) kvs h in
      (h1 ++ [CMap g vs], HRef (length h1))
  end.

(* x.copy() = copy.deepcopy(x)  (meta.py:68-70; seq.py copy(); fts.py copy()) *)
Definition deepcopy (n : nat) (h : heap) (v : hval) : option (heap * hval) :=
  match snap n h v with Some t => Some (build t h) | None => None end.

(* locations reachable from a value, in preorder, WITH repetitions (so NoDup = no internal sharing) *)
Fixpoint reach_list (n : nat) (h : heap) (v : hval) : list nat :=
  match v, n with
  | HRef l, S n' =>
      l :: match nth_error h l with
           | Some (CMap _ kvs) => flat_map (fun kv => reach_list n' h (snd kv)) kvs
           | Some (CList vs) => flat_map (reach_list n' h) vs
           | None => []
           end
  | _, _ => []
  end.
Fixpoint nodup_nat (l : list nat) : bool :=
  match l with [] => true | x :: r => negb (existsb (Nat.eqb x) r) && nodup_nat r end.
Definition tree_shaped (n : nat) (h : heap) (v : hval) : bool := nodup_nat (reach_list n h v).

(* Attr.__setitem__ on the heap: a reference to a plain dict is replaced by a NEW Attr built from its items
   (recursively); any other value -- in particular an existing Attr/Meta or a list -- is stored as it is, i.e. SHARED.
   meta.py:49-54, 31-40, 72-75 *)
Fixpoint hconv (n : nat) (h : heap) (v : hval) : option (heap * hval) :=
  match v with
  | HRef l =>
      match nth_error h l with
      | Some (CMap TgDict kvs) =>
          match n with
          | O => None
          | S n' =>
              match (fix go (kvs : list (str * hval)) (h : heap) (acc : list (str * hval))
                       : option (heap * list (str * hval)) :=
                       match kvs with
                       | [] => Some (h, acc)
                       | (k, x) :: r => match hconv n' h x with
                                        | Some (h1, x') => go r h1 (aset k x' acc)
                                        | None => None
                                        end
                       end) kvs h [] with
              | Some (h1, acc) => Some (h1 ++ [CMap TgAttr acc], HRef (length h1))
              | None => None
              end
          end
      | _ => Some (h, v)
      end
  | _ => Some (h, v)
  end.

(* obj[e] on the heap *)
Definition hstep (h : heap) (v : hval) (e : pelem) : hval + err :=
  match v with
  | HRef l =>
      match nth_error h l, e with
      | Some (CMap _ kvs), PK k => match aget k kvs with Some x => inl x | None => inr EKey end
      | Some (CMap _ _), PI _ => inr EKey
      | Some (CList vs), PI i => match nth_py vs i with Some x => inl x | None => inr EIndex end
      | Some (CList _), PK _ => inr EType
      | None, _ => inr EOut
      end
  | HStr _ => match e with PI _ => inr EOut | PK _ => inr EType end
  | _ => inr EType
  end.
Fixpoint hnav (h : heap) (v : hval) (p : list pelem) : hval + err :=
  match p with
  | [] => inl v
  | e :: p' => match hstep h v e with inl x => hnav h x p' | inr e => inr e end
  end.

Definition hwrite (h : heap) (l : nat) (c : cell) : heap := set_nth h l c.

(* ---- programs over registers ---- *)
Inductive hop :=
| HNew (i : nat) (d : tree)                                  (* r_i = Meta(d), d a literal dict *)
| HCopy (i j : nat)                                          (* r_i = r_j.copy() *)
| HWrap (i j : nat) (q : list pelem)                         (* r_i = Meta(nav(r_j, q))  -- shallow re-wrap *)
| HSetLit (i : nat) (p : list pelem) (k : str) (t : tree)    (* nav(r_i, p)[k] = literal *)
| HSetRef (i : nat) (p : list pelem) (k : str) (j : nat) (q : list pelem)  (* nav(r_i, p)[k] = nav(r_j, q) *)
| HDel (i : nat) (p : list pelem) (k : str)
| HAppendLit (i : nat) (p : list pelem) (t : tree)           (* nav(r_i, p).append(literal) *)
| HAppendRef (i : nat) (p : list pelem) (j : nat) (q : list pelem)
| HIs (i : nat) (p : list pelem) (j : nat) (q : list pelem). (* nav(r_i, p) is nav(r_j, q), both containers *)

Definition state := (heap * list hval)%type.
Definition reg (s : state) (i : nat) : hval := nth i (snd s) HNull.
Definition set_reg (s : state) (i : nat) (v : hval) (h : heap) : state := (h, set_nth (snd s) i v).
Definition fuel_of (h : heap) : nat := S (length h).

(* the new top-level object made by Attr.__init__/update from the items of an existing mapping cell *)
Fixpoint hupdate (n : nat) (h : heap) (acc : list (str * hval)) (kvs : list (str * hval))
  : option (heap * list (str * hval)) :=
  match kvs with
  | [] => Some (h, acc)
  | (k, x) :: r => match hconv n h x with
                   | Some (h1, x') => hupdate n h1 (aset k x' acc) r
                   | None => None
                   end
  end.

Definition occurs (h : heap) (l : nat) (v : hval) : bool := existsb (Nat.eqb l) (reach_list (fuel_of h) h v).

Definition hop_step (o : hop) (s : state) : (state * val) + err :=
  let h := fst s in
  match o with
  | HNew i d =>
      match d with
      | TMap TgDict kvs => let '(h', v) := build (attr_init TgMeta kvs) h in inl (set_reg s i v h', VNone)
      | _ => inr EOut
      end
  | HCopy i j =>
      match reg s j with
      | HRef l =>
          if tree_shaped (fuel_of h) h (HRef l) then
            match deepcopy (fuel_of h) h (HRef l) with
            | Some (h', v) => inl (set_reg s i v h', VNone)
            | None => inr EOut
            end
          else inr EOut
      | _ => inr EOut
      end
  | HWrap i j q =>
      match hnav h (reg s j) q with
      | inl (HRef l) =>
          match nth_error h l with
          | Some (CMap _ kvs) =>
              match hupdate (fuel_of h) h [] kvs with
              | Some (h1, acc) => inl (set_reg s i (HRef (length h1)) (h1 ++ [CMap TgMeta acc]), VNone)
              | None => inr EOut
              end
          | _ => inr EOut
          end
      | inl _ => inr EOut
      | inr e => inr e
      end
  | HSetLit i p k t =>
      match hnav h (reg s i) p with
      | inl (HRef l) =>
          match nth_error h l with
          | Some (CMap g kvs) =>
              let '(h1, v) := build (if is_attr g then conv t else t) h in
              inl ((hwrite h1 l (CMap g (aset k v kvs)), snd s), VNone)
          | _ => inr EType
          end
      | inl _ => inr EType
      | inr e => inr e
      end
  | HSetRef i p k j q =>
      match hnav h (reg s i) p, hnav h (reg s j) q with
      | inl (HRef l), inl v =>
          match nth_error h l with
          | Some (CMap g kvs) =>
              if occurs h l v then inr EOut           (* would create a cycle: outside the modelled domain *)
              else if is_attr g then
                match hconv (fuel_of h) h v with
                | Some (h1, v') => inl ((hwrite h1 l (CMap g (aset k v' kvs)), snd s), VNone)
                | None => inr EOut
                end
              else inl ((hwrite h l (CMap g (aset k v kvs)), snd s), VNone)
          | _ => inr EType
          end
      | inl _, inl _ => inr EType
      | inr e, _ => inr e
      | _, inr e => inr e
      end
  | HDel i p k =>
      match hnav h (reg s i) p with
      | inl (HRef l) =>
          match nth_error h l with
          | Some (CMap g kvs) =>
              match adel k kvs with
              | Some kvs' => inl ((hwrite h l (CMap g kvs'), snd s), VNone)
              | None => inr EKey
              end
          | _ => inr EType
          end
      | inl _ => inr EType
      | inr e => inr e
      end
  | HAppendLit i p t =>
      match hnav h (reg s i) p with
      | inl (HRef l) =>
          match nth_error h l with
          | Some (CList vs) => let '(h1, v) := build t h in inl ((hwrite h1 l (CList (vs ++ [v])), snd s), VNone)
          | _ => inr EOut
          end
      | inl _ => inr EOut
      | inr e => inr e
      end
  | HAppendRef i p j q =>
      match hnav h (reg s i) p, hnav h (reg s j) q with
      | inl (HRef l), inl v =>
          match nth_error h l with
          | Some (CList vs) => if occurs h l v then inr EOut else inl ((hwrite h l (CList (vs ++ [v])), snd s), VNone)
          | _ => inr EOut
          end
      | inl _, inl _ => inr EOut
      | inr e, _ => inr e
      | _, inr e => inr e
      end
  | HIs i p j q =>
      match hnav h (reg s i) p, hnav h (reg s j) q with
      | inl (HRef a), inl (HRef b) => inl (s, VB (Nat.eqb a b))
      | inl _, inl _ => inr EOut
      | inr e, _ => inr e
      | _, inr e => inr e
      end
  end.

Definition hop_lits (o : hop) : list tree :=
  match o with HNew _ d => [d] | HSetLit _ _ _ t | HAppendLit _ _ t => [t] | _ => [] end.
Definition hop_keys_ok (o : hop) : bool :=
  match o with
  | HNew _ _ | HCopy _ _ => true
  | HWrap _ _ q => forallb pelem_ok q
  | HSetLit _ p k _ | HDel _ p k => negb (reserved k) && forallb pelem_ok p
  | HSetRef _ p k _ q => negb (reserved k) && forallb pelem_ok p && forallb pelem_ok q
  | HAppendLit _ p _ => forallb pelem_ok p
  | HAppendRef _ p _ q | HIs _ p _ q => forallb pelem_ok p && forallb pelem_ok q
  end.
Definition wf_hop (o : hop) : bool := hop_keys_ok o && forallb wf_lit (hop_lits o).

Fixpoint run_hops (ops : list hop) (s : state) (okd : bool) (acc : list val) : bool * list val * state :=
  match ops with
  | [] => (okd, rev acc, s)
  | o :: r =>
      match hop_step o s with
      | inl (s', v) => run_hops r s' okd (v :: acc)
      | inr EOut => run_hops r s false (enc_err EOut :: acc)
      | inr e => run_hops r s okd (enc_err e :: acc)
      end
  end.

Definition nregs : nat := 4.
Definition init_state : state := ([], repeat HNull nregs).
Definition wf_C18_heap (ops : list hop) : bool :=
  forallb wf_hop ops && (let '(okd, _, _) := run_hops ops init_state true [] in okd).
(* harness entry point: [in-domain; [per-op results; snapshots of all registers]] *)
Definition run_C18_heap (ops : list hop) : val :=
  let '(okd, res, s) := run_hops ops init_state true [] in
  VL [VB (wf_C18_heap ops);
      VL [VL res; VL (map (fun v => match snap (fuel_of (fst s)) (fst s) v with Some t => enc t | None => VE (bs "OutOfDomain"%bs) end) (snd s))]].
