(* lib/Text.v -- byte strings, literals, hex transport, generic result values.
   Python str is modelled on code points 0..255 as [list byte]. *)
From Coq Require Import List ZArith NArith Bool Lia.
From Coq.Strings Require Import Byte.
From Coq Require Decimal DecimalZ.
Import ListNotations.

Definition str := list byte.

(* A one-constructor wrapper so that literals "..."%bs parse to [list byte]
   cheaply and results print as one string literal. *)
Inductive bstr := Bstr (l : list byte).
Definition bstr_of_bytes (l : list byte) : bstr := Bstr l.
Definition bytes_of_bstr (b : bstr) : list byte := match b with Bstr l => l end.
Declare Scope bs_scope.
Delimit Scope bs_scope with bs.
String Notation bstr bstr_of_bytes bytes_of_bstr : bs_scope.
Definition bs (b : bstr) : str := bytes_of_bstr b.
Coercion bs : bstr >-> str.

Definition byte_eqb (a b : byte) : bool := Byte.eqb a b.
Lemma byte_eqb_eq a b : byte_eqb a b = true <-> a = b.
Proof. unfold byte_eqb. split; [apply Byte.byte_dec_bl | apply Byte.byte_dec_lb]. Qed.
Lemma byte_eqb_refl a : byte_eqb a a = true.
Proof. apply byte_eqb_eq. reflexivity. Qed.
Lemma byte_eqb_neq a b : byte_eqb a b = false <-> a <> b.
Proof.
  split.
  - intros H E. apply byte_eqb_eq in E. congruence.
  - intros H. destruct (byte_eqb a b) eqn:E; [apply byte_eqb_eq in E; contradiction|reflexivity].
Qed.

Fixpoint str_eqb (a b : str) : bool :=
  match a, b with
  | [], [] => true
  | x :: a', y :: b' => byte_eqb x y && str_eqb a' b'
  | _, _ => false
  end.
Lemma str_eqb_eq a b : str_eqb a b = true <-> a = b.
Proof.
  revert b; induction a as [|x a IH]; intros [|y b]; simpl; split; intros H; try congruence; try discriminate.
  - apply andb_prop in H. destruct H as [H1 H2]. apply byte_eqb_eq in H1. apply IH in H2. congruence.
  - inversion H; subst. rewrite byte_eqb_refl. simpl. apply IH. reflexivity.
Qed.
Lemma str_eqb_refl a : str_eqb a a = true.
Proof. apply str_eqb_eq. reflexivity. Qed.

(* ---- hex transport ------------------------------------------------------ *)
Definition hexdigit (n : N) : byte :=
  match n with
  | 0 => "0" | 1 => "1" | 2 => "2" | 3 => "3" | 4 => "4" | 5 => "5" | 6 => "6" | 7 => "7"
  | 8 => "8" | 9 => "9" | 10 => "a" | 11 => "b" | 12 => "c" | 13 => "d" | 14 => "e" | _ => "f"
  end%N%byte.
Definition hexval (b : byte) : option N :=
  match b with
  | "0" => Some 0 | "1" => Some 1 | "2" => Some 2 | "3" => Some 3 | "4" => Some 4
  | "5" => Some 5 | "6" => Some 6 | "7" => Some 7 | "8" => Some 8 | "9" => Some 9
  | "a" => Some 10 | "b" => Some 11 | "c" => Some 12 | "d" => Some 13 | "e" => Some 14 | "f" => Some 15
  | _ => None
  end%N%byte.
Fixpoint hex (s : str) : str :=
  match s with
  | [] => []
  | c :: r => let n := Byte.to_N c in hexdigit (N.div n 16) :: hexdigit (N.modulo n 16) :: hex r
  end.
Fixpoint unhex (s : str) : str :=
  match s with
  | a :: b :: r =>
      match hexval a, hexval b with
      | Some x, Some y => match Byte.of_N (x * 16 + y) with Some c => c :: unhex r | None => [] end
      | _, _ => []
      end
  | _ => []
  end.
Lemma unhex_hex_byte : forall c : byte,
  unhex [hexdigit (N.div (Byte.to_N c) 16); hexdigit (N.modulo (Byte.to_N c) 16)] = [c].
Proof. intros c; destruct c; vm_compute; reflexivity. Qed.
Lemma unhex_hex s : unhex (hex s) = s.
Proof.
  induction s as [|c s IH]; [reflexivity|].
  cbn [hex]. pose proof (unhex_hex_byte c) as H.
  cbn [unhex] in *.
  destruct (hexval (hexdigit (Byte.to_N c / 16))); [|discriminate].
  destruct (hexval (hexdigit (Byte.to_N c mod 16))); [|discriminate].
  destruct (Byte.of_N (n * 16 + n0)); [|discriminate].
  inversion H; subst. rewrite IH. reflexivity.
Qed.

(* ---- decimal rendering of integers ------------------------------------- *)
Fixpoint uint_bytes (u : Decimal.uint) : str :=
  match u with
  | Decimal.Nil => []
  | Decimal.D0 r => "0"%byte :: uint_bytes r | Decimal.D1 r => "1"%byte :: uint_bytes r
  | Decimal.D2 r => "2"%byte :: uint_bytes r | Decimal.D3 r => "3"%byte :: uint_bytes r
  | Decimal.D4 r => "4"%byte :: uint_bytes r | Decimal.D5 r => "5"%byte :: uint_bytes r
  | Decimal.D6 r => "6"%byte :: uint_bytes r | Decimal.D7 r => "7"%byte :: uint_bytes r
  | Decimal.D8 r => "8"%byte :: uint_bytes r | Decimal.D9 r => "9"%byte :: uint_bytes r
  end.
Definition dec_of_Z (z : Z) : str :=
  match Z.to_int z with
  | Decimal.Pos u => uint_bytes u
  | Decimal.Neg u => "-"%byte :: uint_bytes u
  end.
Definition dec_of_nat (n : nat) : str := dec_of_Z (Z.of_nat n).

(* parse an optional sign and decimal digits; None on anything else *)
Definition digit_val (b : byte) : option Z :=
  match b with
  | "0" => Some 0 | "1" => Some 1 | "2" => Some 2 | "3" => Some 3 | "4" => Some 4
  | "5" => Some 5 | "6" => Some 6 | "7" => Some 7 | "8" => Some 8 | "9" => Some 9
  | _ => None
  end%Z%byte.
Fixpoint digits_acc (s : str) (acc : Z) : option Z :=
  match s with
  | [] => Some acc
  | c :: r => match digit_val c with Some d => digits_acc r (acc * 10 + d)%Z | None => None end
  end.
Definition nat_of_dec (s : str) : option Z :=
  match s with [] => None | _ => digits_acc s 0%Z end.
Definition Z_of_dec (s : str) : option Z :=
  match s with
  | "-"%byte :: r => option_map Z.opp (nat_of_dec r)
  | "+"%byte :: r => nat_of_dec r
  | _ => nat_of_dec s
  end.

(* ---- generic result values, rendered as JSON-like ASCII text ----------- *)
Inductive val :=
| VNone
| VB (b : bool)
| VI (z : Z)
| VS (s : str)            (* rendered as 'hex' *)
| VL (l : list val)
| VE (kind : str).        (* exception class, rendered as {'e':'hex'} *)

Definition sq : byte := "'"%byte.
Fixpoint show (v : val) : str :=
  match v with
  | VNone => bs "null"%bs
  | VB true => bs "true"%bs
  | VB false => bs "false"%bs
  | VI z => dec_of_Z z
  | VS s => sq :: hex s ++ [sq]
  | VL l =>
      "["%byte ::
      (fix go (l : list val) : str :=
         match l with
         | [] => []
         | [x] => show x
         | x :: r => show x ++ ","%byte :: go r
         end) l ++ ["]"%byte]
  | VE k => bs "{'e':'"%bs ++ hex k ++ bs "'}"%bs
  end.
Definition out (v : val) : bstr := Bstr (show v).

Definition VZs (l : list Z) : val := VL (map VI l).
Definition VPair (a b : val) : val := VL [a; b].
Definition VOpt {A} (f : A -> val) (o : option A) : val :=
  match o with Some x => f x | None => VNone end.
