(* lib/C16_StableSort.v -- stable insertion sort over a boolean preorder, with the facts C16 needs:
   permutation, sortedness, stability, and the "radix" law
       isort le1 (isort le2 l) = isort (lex le1 le2) l
   which turns sugar's  `for key in keys[::-1]: objs = sorted(objs, key=key)`  into ONE stable sort
   by the lexicographic order on the key tuple. *)
From Coq Require Import List Bool Permutation Sorted.
Import ListNotations.

Section Sort.
Context {A : Type}.

Fixpoint insert (le : A -> A -> bool) (x : A) (l : list A) : list A :=
  match l with
  | [] => [x]
  | y :: r => if le x y then x :: y :: r else y :: insert le x r
  end.
Fixpoint isort (le : A -> A -> bool) (l : list A) : list A :=
  match l with
  | [] => []
  | x :: r => insert le x (isort le r)
  end.

(* lexicographic combination of two preorders: le1 decides, ties are broken by le2 *)
Definition lex (le1 le2 : A -> A -> bool) (x y : A) : bool :=
  if le1 x y then (if le1 y x then le2 x y else true) else false.
Definition flip_le (le : A -> A -> bool) (x y : A) : bool := le y x.
Definition le_true (x y : A) : bool := true.

Definition total (le : A -> A -> bool) := forall x y, le x y = true \/ le y x = true.
Definition trans (le : A -> A -> bool) := forall x y z, le x y = true -> le y z = true -> le x z = true.
Definition preorder (le : A -> A -> bool) := total le /\ trans le.
Definition eqv (le : A -> A -> bool) (x y : A) : bool := le x y && le y x.

(* ---- permutation / membership ---- *)
Lemma insert_perm le x l : Permutation (insert le x l) (x :: l).
Proof.
  induction l as [|y r IH]; cbn [insert]; [apply Permutation_refl|].
  destruct (le x y); [apply Permutation_refl|].
  eapply Permutation_trans; [apply perm_skip, IH | apply perm_swap].
Qed.
Lemma isort_perm le l : Permutation (isort le l) l.
Proof.
  induction l as [|x r IH]; cbn [isort]; [constructor|].
  eapply Permutation_trans; [apply insert_perm | apply perm_skip, IH].
Qed.
Lemma isort_In le l x : In x (isort le l) <-> In x l.
Proof. split; apply Permutation_in; [|apply Permutation_sym]; apply isort_perm. Qed.
Lemma isort_length le l : length (isort le l) = length l.
Proof. apply Permutation_length, isort_perm. Qed.

(* ---- sortedness ---- *)
Definition sorted (le : A -> A -> bool) := StronglySorted (fun x y => le x y = true).

Lemma insert_sorted le x l : preorder le -> sorted le l -> sorted le (insert le x l).
Proof.
  intros [Htot Htr] Hs. induction Hs as [|y r Hr IH Hall]; cbn [insert].
  - constructor; constructor.
  - destruct (le x y) eqn:E.
    + constructor; [constructor; assumption|].
      constructor; [exact E|].
      eapply Forall_impl; [|exact Hall]. intros z Hz. cbn beta in *. eapply Htr; eauto.
    + constructor; [exact IH|].
      assert (Hyx : le y x = true) by (destruct (Htot x y) as [H|H]; [congruence|exact H]).
      apply Forall_forall. intros z Hz.
      apply (Permutation_in _ (insert_perm le x r)) in Hz. destruct Hz as [<-|Hz]; [exact Hyx|].
      rewrite Forall_forall in Hall. apply Hall, Hz.
Qed.
Lemma isort_sorted le l : preorder le -> sorted le (isort le l).
Proof.
  intros Hp. induction l as [|x r IH]; cbn [isort]; [constructor|]. apply insert_sorted; assumption.
Qed.

(* ---- stability: every class of equivalent elements keeps its input order ---- *)
Lemma insert_filter_stable le x l (p : A -> bool) :
  trans le ->
  (forall z, p z = true -> p x = true -> le x z = true) ->
  filter p (insert le x l) = filter p (x :: l).
Proof.
  intros Htr Hp. induction l as [|y r IH]; cbn [insert]; [reflexivity|].
  destruct (le x y) eqn:E; [reflexivity|].
  cbn [filter] in *. rewrite IH.
  destruct (p x) eqn:Px; [|reflexivity].
  destruct (p y) eqn:Py; [|reflexivity].
  rewrite (Hp y Py eq_refl) in E. discriminate.
Qed.
(* p is a union of equivalence classes none of whose members is strictly below another member *)
Lemma isort_filter_stable le l (p : A -> bool) :
  trans le ->
  (forall x z, p x = true -> p z = true -> le x z = true) ->
  filter p (isort le l) = filter p l.
Proof.
  intros Htr Hp. induction l as [|x r IH]; cbn [isort]; [reflexivity|].
  rewrite insert_filter_stable by (auto; intros; apply Hp; assumption).
  cbn [filter]. rewrite IH. reflexivity.
Qed.
Lemma isort_stable le l a : trans le -> filter (eqv le a) (isort le l) = filter (eqv le a) l.
Proof.
  intros Htr. apply isort_filter_stable; [exact Htr|].
  intros x z Hx Hz. unfold eqv in *. apply andb_prop in Hx, Hz. destruct Hx, Hz. eapply Htr; eauto.
Qed.

(* ---- inserts of non-equivalent elements commute ---- *)
Lemma insert_comm le a b S : preorder le -> le a b = false ->
  insert le a (insert le b S) = insert le b (insert le a S).
Proof.
  intros [Htot Htr] Hab.
  assert (Hba : le b a = true) by (destruct (Htot a b); congruence).
  induction S as [|y S IH]; cbn [insert].
  - rewrite Hab, Hba. reflexivity.
  - destruct (le b y) eqn:Eby.
    + cbn [insert]. rewrite Hab.
      destruct (le a y) eqn:Eay; cbn [insert]; rewrite ?Hba, ?Eby, ?Eay; reflexivity.
    + assert (Eay : le a y = false).
      { destruct (le a y) eqn:Eay; [|reflexivity].
        assert (le y b = true) by (destruct (Htot b y); congruence).
        rewrite (Htr a y b) in Hab by assumption. discriminate. }
      rewrite Eay. cbn [insert]. rewrite Eay, Eby. rewrite IH. reflexivity.
Qed.
Lemma insert_comm' le a b S : preorder le -> eqv le a b = false ->
  insert le a (insert le b S) = insert le b (insert le a S).
Proof.
  intros Hp H. unfold eqv in H. apply andb_false_iff in H. destruct H as [H|H].
  - apply insert_comm; assumption.
  - symmetry. apply insert_comm; assumption.
Qed.
Lemma isort_app_insert le m1 x m2 : preorder le -> (forall z, In z m1 -> eqv le z x = false) ->
  isort le (m1 ++ x :: m2) = insert le x (isort le (m1 ++ m2)).
Proof.
  intros Hp. induction m1 as [|z m1 IH]; intros Hz; [reflexivity|].
  cbn [app isort]. rewrite IH by (intros; apply Hz; right; assumption).
  apply insert_comm'; [exact Hp|]. apply Hz. left. reflexivity.
Qed.
Lemma insert_split le x m : exists m1 m2, m = m1 ++ m2 /\ insert le x m = m1 ++ x :: m2 /\
  forall z, In z m1 -> le x z = false.
Proof.
  induction m as [|y r IH]; cbn [insert].
  - exists [], []. repeat split. intros z [].
  - destruct (le x y) eqn:E.
    + exists [], (y :: r). repeat split. intros z [].
    + destruct IH as (m1 & m2 & -> & H2 & H3). exists (y :: m1), m2. cbn [app]. rewrite H2. repeat split.
      intros z [<-|Hz]; [exact E|apply H3, Hz].
Qed.

(* ---- the radix law ---- *)
Lemma lex_total le1 le2 : total le1 -> total le2 -> total (lex le1 le2).
Proof.
  intros T1 T2 x y. unfold lex.
  destruct (le1 x y) eqn:E1, (le1 y x) eqn:E2; auto.
  destruct (T1 x y); congruence.
Qed.
Lemma lex_trans le1 le2 : preorder le1 -> trans le2 -> trans (lex le1 le2).
Proof.
  intros [T1 R1] R2 x y z. unfold lex.
  destruct (le1 x y) eqn:Exy; [|discriminate].
  destruct (le1 y z) eqn:Eyz; [|intros; discriminate].
  rewrite (R1 x y z Exy Eyz).
  destruct (le1 y x) eqn:Eyx, (le1 z y) eqn:Ezy, (le1 z x) eqn:Ezx; intros H1 H2; try reflexivity;
    try (eapply R2; eassumption); exfalso;
    first [ pose proof (R1 z x y Ezx Exy); congruence | pose proof (R1 y z x Eyz Ezx); congruence ].
Qed.
Lemma lex_preorder le1 le2 : preorder le1 -> preorder le2 -> preorder (lex le1 le2).
Proof. intros P1 [T2 R2]. split; [apply lex_total; [apply P1|exact T2] | apply lex_trans; assumption]. Qed.

Lemma presort_irrelevant le1 le2 l : preorder le1 -> preorder le2 ->
  isort (lex le1 le2) (isort le2 l) = isort (lex le1 le2) l.
Proof.
  intros P1 P2. pose proof (lex_preorder le1 le2 P1 P2) as PL.
  induction l as [|x r IH]; [reflexivity|]. cbn [isort].
  destruct (insert_split le2 x (isort le2 r)) as (m1 & m2 & Hm & Hins & Hlt).
  rewrite Hins. rewrite isort_app_insert; [rewrite <- Hm, IH; reflexivity|exact PL|].
  intros z Hz. specialize (Hlt z Hz). unfold eqv, lex. rewrite Hlt.
  destruct (le1 z x), (le1 x z); cbn; try reflexivity; apply andb_false_r.
Qed.
Lemma insert_lex_same le1 le2 x S : (forall y, In y S -> le2 x y = true) ->
  insert le1 x S = insert (lex le1 le2) x S.
Proof.
  induction S as [|y S IH]; intros H; [reflexivity|]. cbn [insert].
  assert (E : lex le1 le2 x y = le1 x y).
  { unfold lex. rewrite (H y (or_introl eq_refl)). destruct (le1 x y), (le1 y x); reflexivity. }
  rewrite E. rewrite IH by (intros; apply H; right; assumption). reflexivity.
Qed.
Lemma isort_on_sorted le1 le2 l : sorted le2 l -> isort le1 l = isort (lex le1 le2) l.
Proof.
  induction 1 as [|x r Hr IH Hall]; [reflexivity|]. cbn [isort]. rewrite IH.
  apply insert_lex_same. intros y Hy. apply isort_In in Hy. rewrite Forall_forall in Hall. apply Hall, Hy.
Qed.
Theorem isort_radix le1 le2 l : preorder le1 -> preorder le2 ->
  isort le1 (isort le2 l) = isort (lex le1 le2) l.
Proof.
  intros P1 P2. rewrite (isort_on_sorted le1 le2) by (apply isort_sorted; exact P2).
  apply presort_irrelevant; assumption.
Qed.

Lemma isort_le_true l : isort le_true l = l.
Proof. induction l as [|x r IH]; [reflexivity|]. cbn [isort]. rewrite IH. destruct r; reflexivity. Qed.
Lemma le_true_preorder : preorder le_true.
Proof. split; [intros x y; left; reflexivity | intros x y z _ _; reflexivity]. Qed.
Lemma flip_preorder le : preorder le -> preorder (flip_le le).
Proof.
  intros [T R]. split.
  - intros x y. unfold flip_le. destruct (T x y); auto.
  - intros x y z. unfold flip_le. intros H1 H2. eapply R; eauto.
Qed.

End Sort.
