(* C11, text level: a file made of separator-joined data rows reads to the row-level results *)
From Coq Require Import List ZArith NArith Bool Lia.
From Coq.Strings Require Import Byte.
Import ListNotations.
From SV Require Import Text G_tab C11_Model C11_Lemmas.

Lemma byte_eqb_sym a b : byte_eqb a b = byte_eqb b a.
Proof.
  destruct (byte_eqb a b) eqn:E.
  - apply byte_eqb_eq in E. subst. symmetry. apply byte_eqb_refl.
  - destruct (byte_eqb b a) eqn:E2; [|reflexivity]. apply byte_eqb_eq in E2. subst. rewrite byte_eqb_refl in E. discriminate.
Qed.

Lemma split_on_nosep c x : has c x = false -> split_on c x = [x].
Proof.
  induction x as [|a x IH]; cbn; [reflexivity|].
  intros H. apply orb_false_elim in H. destruct H as [H1 H2]. rewrite byte_eqb_sym, H1.
  rewrite (IH H2). reflexivity.
Qed.
Lemma split_on_app_sep c x r : has c x = false -> split_on c (x ++ c :: r) = x :: split_on c r.
Proof.
  induction x as [|a x IH]; cbn.
  - rewrite byte_eqb_refl. reflexivity.
  - intros H. apply orb_false_elim in H. destruct H as [H1 H2]. rewrite byte_eqb_sym, H1.
    rewrite (IH H2). reflexivity.
Qed.
Lemma split_on_join c toks : toks <> [] -> forallb (fun t => negb (has c t)) toks = true ->
  split_on c (join c toks) = toks.
Proof.
  induction toks as [|t r IH]; [congruence|]. intros _ F. cbn in F. apply andb_prop in F. destruct F as [F1 F2].
  assert (T : has c t = false) by (destruct (has c t); [discriminate|reflexivity]).
  destruct r as [|t2 r].
  - cbn. apply split_on_nosep. exact T.
  - change (join c (t :: t2 :: r)) with (t ++ c :: join c (t2 :: r)).
    rewrite split_on_app_sep by exact T. rewrite IH; [reflexivity|discriminate|exact F2].
Qed.

Lemma lstrip_ws_id s : match s with [] => true | x :: _ => negb (is_space x) end = true -> lstrip_ws s = s.
Proof. destruct s as [|x r]; cbn; [reflexivity|]. destruct (is_space x); [discriminate|reflexivity]. Qed.

Lemma lstrip_ws_app s t : match s with [] => false | x :: _ => negb (is_space x) end = true -> lstrip_ws (s ++ t) = s ++ t.
Proof. destruct s as [|x r]; cbn; [discriminate|]. destruct (is_space x); [discriminate|reflexivity]. Qed.
Lemma strip_line s : edge_ok s = true -> strip_ws (s ++ [x0a]) = s /\ s <> [].
Proof.
  unfold edge_ok. intros E. apply andb_prop in E. destruct E as [E1 E2].
  split; [|destruct s; [discriminate|discriminate]].
  unfold strip_ws. rewrite lstrip_ws_app by exact E1.
  unfold rstrip_ws. rewrite rev_app_distr. change (rev [x0a]) with [x0a]. cbn [app].
  change (lstrip_ws (x0a :: rev s)) with (lstrip_ws (rev s)).
  rewrite lstrip_ws_id; [apply rev_involutive|].
  destruct (rev s); [discriminate|exact E2].
Qed.

Lemma starts_with_app p s t : starts_with p s = true -> starts_with p (s ++ t) = true.
Proof.
  revert s; induction p as [|a p IH]; intros s H; [reflexivity|].
  destruct s as [|b s]; [discriminate|]. cbn in *. apply andb_prop in H. destruct H as [H1 H2].
  rewrite H1. cbn. apply IH. exact H2.
Qed.
Lemma starts_with_hash_app s t : s <> [] -> starts_with (bs "#"%bs) (s ++ t) = starts_with (bs "#"%bs) s.
Proof. destruct s as [|b s]; [congruence|]. intros _. cbn. rewrite !andb_true_r. reflexivity. Qed.
Lemma starts_with_fields_hash l : starts_with (bs "# Fields:"%bs) l = true -> starts_with (bs "#"%bs) l = true.
Proof. destruct l as [|b l]; [discriminate|]. cbn. intros H. apply andb_prop in H. destruct H as [H _]. rewrite H. reflexivity. Qed.

(* one rendered data line goes through the data branch of the loop *)
Definition eff_headers (d : dialect) (st : state) : res (list hdr) :=
  match s_headers st with
  | Some hs => Ok hs
  | None => match assoc (dialect_name d) DEFAULT_OUTFMT with
            | None => Err eKey
            | Some names => headers_from false d names
            end
  end.
Lemma step_row d c on ftype st hs toks :
  eff_headers d st = Ok hs ->
  (match d with Infernal => match s_headers st with None => false | Some _ => true end | _ => true end) = true ->
  s_maxsplit st = None -> row_ok d c toks = true ->
  snd (step d (Some c) on ftype st (line_of c toks)) =
  match row_feature d ftype hs toks with
  | Err e => Err e
  | Ok ft => Ok (mkState (Some hs) None (ft :: s_fts st))
  end.
Proof.
  intros HS NI MS RO. unfold row_ok in RO.
  apply andb_prop in RO. destruct RO as [RO R5]. apply andb_prop in RO. destruct RO as [RO R4].
  apply andb_prop in RO. destruct RO as [RO R3]. apply andb_prop in RO. destruct RO as [R1 R2].
  destruct (strip_line _ R3) as [SL NE].
  assert (TK : toks <> []). { intros ->. apply NE. reflexivity. }
  assert (SP : split_on c (join c toks) = toks).
  { apply split_on_join; [exact TK|]. apply forallb_forall. intros t Ht. rewrite forallb_forall in R1. specialize (R1 t Ht).
    apply andb_prop in R1. tauto. }
  assert (H1 : starts_with (bs "#"%bs) (line_of c toks) = false).
  { unfold line_of. rewrite starts_with_hash_app by exact NE. destruct (starts_with _ _); [discriminate|reflexivity]. }
  assert (H0 : starts_with (bs "# Fields:"%bs) (line_of c toks) = false).
  { destruct (starts_with (bs "# Fields:"%bs) (line_of c toks)) eqn:E; [|reflexivity].
    apply starts_with_fields_hash in E. congruence. }
  unfold step. rewrite H0, H1, MS. rewrite !andb_false_r. cbn [andb orb].
  assert (INF : (match d with Infernal => true | _ => false end &&
                 match s_headers st with None => true | Some _ => false end) = false).
  { destruct d; try reflexivity. destruct (s_headers st); [reflexivity|discriminate]. }
  rewrite INF. cbn [andb]. unfold eff_headers in HS.
  unfold line_of in *. rewrite SL.
  assert (BL : (match join c toks with [] => true | _ :: _ => false end) = false)
    by (destruct (join c toks); [congruence|reflexivity]).
  rewrite BL.
  cbn [py_split]. rewrite SP.
  assert (MM : (match d with Mmseqs => true | _ => false end &&
                (Nat.ltb 1 (length toks) && subset toks MMSEQS_HEADER_NAMES)) = false).
  { unfold mm_header_toks in R5. destruct d; try reflexivity. cbn [andb]. destruct (_ && _); [discriminate|reflexivity]. }
  rewrite MM. rewrite HS. destruct (row_feature d ftype hs toks); reflexivity.
Qed.

Lemma loop_rows d c on ftype hs : forall rows st ok,
  s_headers st = Some hs -> s_maxsplit st = None -> forallb (row_ok d c) rows = true ->
  snd (loop d (Some c) on ftype st ok (map (line_of c) rows)) =
  match rows_features d ftype hs rows with
  | Ok fs => Ok (rev (s_fts st) ++ fs)
  | Err e => Err e
  end.
Proof.
  induction rows as [|r rows IH]; intros st ok HS MS F; cbn [map loop rows_features].
  - cbn. rewrite app_nil_r. reflexivity.
  - cbn in F. apply andb_prop in F. destruct F as [F1 F2].
    assert (EH : eff_headers d st = Ok hs) by (unfold eff_headers; rewrite HS; reflexivity).
    assert (NI : (match d with Infernal => match s_headers st with None => false | Some _ => true end | _ => true end) = true)
      by (rewrite HS; destruct d; reflexivity).
    pose proof (step_row d c on ftype st hs r EH NI MS F1) as S.
    destruct (step d (Some c) on ftype st (line_of c r)) as [k rs]. cbn [snd] in S. subst rs.
    destruct (row_feature d ftype hs r) as [ft|e]; [|reflexivity].
    rewrite IH by (try reflexivity; exact F2). cbn [s_fts rev].
    destruct (rows_features d ftype hs rows); [|reflexivity]. rewrite <- app_assoc. reflexivity.
Qed.

(* lines of a file whose lines do not contain a newline *)
Lemma lines_keep_app_line l rest : has x0a l = false -> lines_keep (l ++ x0a :: rest) = (l ++ [x0a]) :: lines_keep rest.
Proof.
  induction l as [|a l IH]; cbn.
  - reflexivity.
  - intros H. apply orb_false_elim in H. destruct H as [H1 H2].
    replace (byte_eqb a x0a) with false by (rewrite byte_eqb_sym; symmetry; exact H1).
    rewrite (IH H2). reflexivity.
Qed.
Lemma lines_keep_concat ls : forallb (fun l => negb (has x0a l)) ls = true ->
  lines_keep (concat (map (fun l => l ++ [x0a]) ls)) = map (fun l => l ++ [x0a]) ls.
Proof.
  induction ls as [|l ls IH]; cbn; [reflexivity|]. intros F. apply andb_prop in F. destruct F as [F1 F2].
  rewrite <- app_assoc. cbn [app]. rewrite lines_keep_app_line by (destruct (has x0a l); [discriminate|reflexivity]).
  rewrite (IH F2). reflexivity.
Qed.
Lemma has_app c a b : has c (a ++ b) = has c a || has c b.
Proof. unfold has. apply existsb_app. Qed.
Lemma has_join_nl c toks : has x0a [c] = false -> forallb (fun t => negb (has c t) && negb (has x0a t)) toks = true ->
  has x0a (join c toks) = false.
Proof.
  intros HC. induction toks as [|t r IH]; [reflexivity|]. intros F. cbn in F. apply andb_prop in F. destruct F as [F1 F2].
  apply andb_prop in F1. destruct F1 as [_ F1].
  assert (T : has x0a t = false) by (destruct (has x0a t); [discriminate|reflexivity]).
  destruct r as [|t2 r]; [exact T|].
  change (join c (t :: t2 :: r)) with (t ++ [c] ++ join c (t2 :: r)).
  rewrite !has_app, T, HC, (IH F2). reflexivity.
Qed.

(* the text-level theorem for the separator-joined dialects (BLAST outfmt 6/10, MMseqs2 fmtmode 0) *)
Lemma read_rendered_rows d c outfmt ftype hs rows :
  (match outfmt with
   | Some o => headers_from false d (split_ws o)
   | None => match assoc (dialect_name d) DEFAULT_OUTFMT with Some names => headers_from false d names | None => Err eKey end
   end) = Ok hs ->
  rows <> [] \/ outfmt <> None ->
  forallb (row_ok d c) rows = true ->
  snd (read_lines d (Some c) outfmt ftype (lines_keep (concat (map (line_of c) rows)))) = rows_features d ftype hs rows.
Proof.
  intros HH NE F.
  assert (LK : lines_keep (concat (map (line_of c) rows)) = map (line_of c) rows).
  { unfold line_of. rewrite <- (map_map (join c) (fun l => l ++ [x0a])). rewrite lines_keep_concat; [reflexivity|].
    apply forallb_forall. intros l Hl. apply in_map_iff in Hl. destruct Hl as (toks & <- & Ht).
    rewrite forallb_forall in F. specialize (F toks Ht). unfold row_ok in F.
    apply andb_prop in F. destruct F as [F _]. apply andb_prop in F. destruct F as [F _]. apply andb_prop in F. destruct F as [F _].
    apply andb_prop in F. destruct F as [F1 F2].
    rewrite has_join_nl; [reflexivity| |exact F1]. destruct (has x0a [c]); [discriminate|reflexivity]. }
  rewrite LK. unfold read_lines. destruct outfmt as [o|].
  - rewrite HH. rewrite (loop_rows d c false ftype hs rows (mkState (Some hs) None []) true eq_refl eq_refl F). cbn [s_fts rev app].
    destruct (rows_features d ftype hs rows); reflexivity.
  - destruct rows as [|r rows]; [destruct NE; congruence|].
    (* the first data row installs the default headers, core.py:291-296 *)
    cbn [map loop rows_features]. cbn in F. apply andb_prop in F. destruct F as [F1 F2].
    assert (NI : (match d with Infernal => false | _ => true end) = true).
    { destruct d; try reflexivity. exfalso. revert HH. vm_compute. discriminate. }
    pose proof (step_row d c true ftype (mkState None None []) hs r HH NI eq_refl F1) as S.
    destruct (step d (Some c) true ftype (mkState None None []) (line_of c r)) as [k rs]. cbn [snd] in S. subst rs.
    destruct (row_feature d ftype hs r) as [ft|e]; [|reflexivity].
    cbn [s_fts].
    rewrite (loop_rows d c true ftype hs rows (mkState (Some hs) None [ft]) (true && k) eq_refl eq_refl F2). cbn [s_fts rev app].
    destruct (rows_features d ftype hs rows); reflexivity.
Qed.
