(* C03 proofs, part 6: sessions on one handle -- detect is transparent in any history of calls; the Stockholm reader
   consumes exactly one alignment. *)
From Coq Require Import List ZArith NArith Bool Lia.
From Coq.Strings Require Import Byte.
Import ListNotations.
From SV Require Import Text G_c03 C03_Model C03_Lemmas.

(* ------------------------------------------------------------------ detect hands back the identical handle state *)
Lemma detect_loop_binary : forall w o fpos ps h, h_binary (snd (detect_loop w o fpos ps h)) = h_binary h.
Proof.
  intros w o fpos ps. induction ps as [|p rest IH]; intros h; cbn [detect_loop]; [reflexivity|].
  destruct (negb (p_has_sniffer p)); [apply IH|].
  destruct (p_binary p && negb (h_binary h)); [apply IH|].
  destruct (p_binary p); [reflexivity|].
  destruct (sniffer_of w (p_name p)) as [sn|]; [|reflexivity].
  destruct (sn o (h_rest h)) as [[|]|]; cbn [snd]; try reflexivity; rewrite IH; reflexivity.
Qed.
Lemma detect_keeps_handle : forall w o h, snd (detect_h w o h) = h.
Proof.
  intros w o h. pose proof (detect_restores_pos w o h) as [Hp Hc].
  pose proof (detect_loop_binary w o (h_tell h) (chain w) h) as Hb. fold (detect_h w o h) in Hb.
  destruct (snd (detect_h w o h)) as [c' p' b']. destruct h as [c p b]. cbn in Hp, Hc, Hb. subst. reflexivity.
Qed.
Lemma detect_h_value : forall w o h, fst (detect_h w o h) = detect w o (h_rest h).
Proof. intros w o [c p b]. apply detect_at_offset. Qed.
Lemma detect_h_eq : forall w o h, detect_h w o h = (detect w o (h_rest h), h).
Proof.
  intros w o h. rewrite (surjective_pairing (detect_h w o h)), detect_h_value, detect_keeps_handle. reflexivity.
Qed.
Lemma sstep_detect : forall h w o,
  sstep h (SDetect w o) = (VL [v_dres (detect w o (h_rest h)); VI (Z.of_nat (h_pos h))], h).
Proof. intros h w o. cbn [sstep]. rewrite detect_h_eq. reflexivity. Qed.

(* ------------------------------------------------------------------ detect calls can be deleted from any history *)
Definition nondetect (op : sop) : bool := negb (is_detect op).
Lemma session_detect_transparent : forall ops h,
  other_answers ops (fst (run_session h ops)) = fst (run_session h (filter nondetect ops)) /\
  snd (run_session h ops) = snd (run_session h (filter nondetect ops)).
Proof.
  induction ops as [|op r IH]; intros h; [split; reflexivity|].
  cbn [run_session filter].
  assert (Hn : nondetect op = negb (is_detect op)) by reflexivity. rewrite Hn.
  destruct (is_detect op) eqn:Ed; cbn [negb].
  - destruct op; try discriminate Ed. rewrite sstep_detect.
    destruct (run_session h r) as [as_ h''] eqn:E2. cbn [fst snd].
    unfold other_answers. cbn [combine filter fst is_detect negb]. fold (other_answers r as_).
    specialize (IH h). rewrite E2 in IH. exact IH.
  - cbn [run_session].
    destruct (sstep h op) as [a h'] eqn:E1.
    specialize (IH h').
    destruct (run_session h' r) as [as_ h''] eqn:E2.
    destruct (run_session h' (filter nondetect r)) as [bs_ k''] eqn:E3. cbn [fst snd] in *.
    unfold other_answers. cbn [combine filter fst]. rewrite Ed. cbn [negb map snd]. fold (other_answers r as_).
    destruct IH as [IH1 IH2]. rewrite IH1, IH2. split; reflexivity.
Qed.

Lemma run_session_app : forall a b h,
  run_session h (a ++ b) =
  (fst (run_session h a) ++ fst (run_session (snd (run_session h a)) b), snd (run_session (snd (run_session h a)) b)).
Proof.
  induction a as [|op r IH]; intros b h; cbn [app run_session fst snd].
  - destruct (run_session h b); reflexivity.
  - destruct (sstep h op) as [x h']. rewrite IH.
    destruct (run_session h' r) as [xs h'']. cbn [fst snd]. destruct (run_session h'' b). reflexivity.
Qed.
(* a detect call anywhere in a history answers the verdict on the rest of the content at that moment *)
Lemma session_detect_value : forall pre w o h,
  let h1 := snd (run_session h pre) in
  fst (run_session h (pre ++ [SDetect w o])) =
    fst (run_session h pre) ++ [VL [v_dres (detect w o (h_rest h1)); VI (Z.of_nat (h_pos h1))]] /\
  snd (run_session h (pre ++ [SDetect w o])) = h1.
Proof.
  intros pre w o h h1. rewrite run_session_app. cbn [run_session fst snd]. fold h1. rewrite sstep_detect. split; reflexivity.
Qed.

(* ------------------------------------------------------------------ the kind of handle does not matter *)
Definition same_upto_kind (h1 h2 : handle) : Prop := h_content h1 = h_content h2 /\ h_pos h1 = h_pos h2.
Lemma read_plan_eq : forall w o fmt h,
  read_plan w o fmt h =
  match (match fmt with
         | Some f => Some (lower f)
         | None => match detect w o (h_rest h) with DFound d => Some (lower d) | _ => None end
         end) with
  | Some f => Some {| pl_fmt := f; pl_pos := h_pos h; pl_content := h_content h; pl_binary := h_binary h; pl_opts := o |}
  | None => None
  end.
Proof.
  intros w o fmt h. unfold read_plan. destruct fmt as [f|]; [reflexivity|].
  rewrite detect_h_eq. destruct (detect w o (h_rest h)); reflexivity.
Qed.
Lemma sstep_kind : forall op h1 h2, same_upto_kind h1 h2 ->
  fst (sstep h1 op) = fst (sstep h2 op) /\ same_upto_kind (snd (sstep h1 op)) (snd (sstep h2 op)).
Proof.
  intros op [c1 p1 b1] [c2 p2 b2] [Hc Hp]. cbn in Hc, Hp. subst c2 p2.
  destruct op as [p|[n|]| | |w o|w o fmt]; try (split; [reflexivity|split; reflexivity]).
  - rewrite !sstep_detect. split; [reflexivity|split; reflexivity].
  - cbn [sstep]. rewrite !read_plan_eq. unfold h_rest. cbn [h_content h_pos].
    destruct (match fmt with
              | Some f => Some (lower f)
              | None => match detect w o (skipn p1 c1) with DFound d => Some (lower d) | _ => None end
              end) as [f|]; cbn [pl_fmt fst snd]; split; try reflexivity; split; reflexivity.
Qed.
Lemma session_kind_irrelevant_gen : forall ops h1 h2, same_upto_kind h1 h2 ->
  fst (run_session h1 ops) = fst (run_session h2 ops) /\ same_upto_kind (snd (run_session h1 ops)) (snd (run_session h2 ops)).
Proof.
  induction ops as [|op r IH]; intros h1 h2 H; [split; [reflexivity|exact H]|].
  cbn [run_session]. pose proof (sstep_kind op h1 h2 H) as [Ha Hs].
  destruct (sstep h1 op) as [a1 k1]. destruct (sstep h2 op) as [a2 k2]. cbn [fst snd] in Ha, Hs. subst a2.
  specialize (IH k1 k2 Hs). destruct (run_session k1 r) as [x1 y1]. destruct (run_session k2 r) as [x2 y2].
  cbn [fst snd] in *. destruct IH as [I1 I2]. subst x2. split; [reflexivity|exact I2].
Qed.
Lemma session_kind_irrelevant : forall ops c p,
  fst (run_session {| h_content := c; h_pos := p; h_binary := true |} ops) =
  fst (run_session {| h_content := c; h_pos := p; h_binary := false |} ops) /\
  h_pos (snd (run_session {| h_content := c; h_pos := p; h_binary := true |} ops)) =
  h_pos (snd (run_session {| h_content := c; h_pos := p; h_binary := false |} ops)).
Proof.
  intros ops c p.
  pose proof (session_kind_irrelevant_gen ops {| h_content := c; h_pos := p; h_binary := true |}
                {| h_content := c; h_pos := p; h_binary := false |} (conj eq_refl eq_refl)) as [A [_ B]].
  split; assumption.
Qed.

(* ------------------------------------------------------------------ the Stockholm reader *)
Lemma take_line_split : forall s, s = fst (take_line s) ++ snd (take_line s).
Proof.
  induction s as [|c r IH]; [reflexivity|]. cbn [take_line]. destruct (byte_eqb c nl); [reflexivity|].
  destruct (take_line r) as [l t]. cbn [fst snd] in *. rewrite IH at 1. reflexivity.
Qed.
Lemma take_line_app : forall l rest, nosep nl l = true -> take_line ((l ++ [nl]) ++ rest) = (l ++ [nl], rest).
Proof.
  induction l as [|c r IH]; intros rest H.
  - cbn. reflexivity.
  - cbn [nosep forallb] in H. apply andb_prop in H. destruct H as [Hc Hr]. cbn [app take_line].
    apply negb_true_iff in Hc. rewrite Hc. fold (nosep nl r) in Hr.
    rewrite (IH rest Hr). reflexivity.
Qed.
Lemma stk_consume_aux_le : forall fuel s, stk_consume_aux fuel s <= length s.
Proof.
  induction fuel as [|k IH]; intros s; cbn [stk_consume_aux]; [lia|].
  destruct s as [|c r]; [cbn; lia|].
  pose proof (take_line_split (c :: r)) as E. destruct (take_line (c :: r)) as [l t]. cbn [fst snd] in E.
  assert (L : length (c :: r) = length l + length t) by (rewrite E, app_length; reflexivity).
  rewrite L. destruct (startswith (bs "//"%bs) (strip_ws l)); [lia|]. specialize (IH t). lia.
Qed.
(* a Stockholm read never runs past the content *)
Lemma stockholm_read_stays_inside : forall s, stk_consume s <= length s.
Proof. intros s. apply stk_consume_aux_le. Qed.

(* lines of an alignment: no newline inside, and not the terminator *)
Definition stk_body_ok (body : list str) : bool :=
  forallb (fun l => nosep nl l && negb (startswith (bs "//"%bs) (strip_ws (l ++ [nl])))) body.
Definition stk_end : str := bs "//"%bs ++ [nl].
Lemma stk_consume_aux_one : forall body fuel more,
  length body < fuel -> stk_body_ok body = true ->
  stk_consume_aux fuel (text_of body ++ stk_end ++ more) = length (text_of body ++ stk_end).
Proof.
  induction body as [|l body IH]; intros fuel more Hf Hb.
  - destruct fuel as [|k]; [cbn in Hf; lia|]. cbn. reflexivity.
  - destruct fuel as [|k]; [cbn in Hf; lia|]. cbn [length] in Hf.
    cbn [stk_body_ok forallb] in Hb. apply andb_prop in Hb. destruct Hb as [Hl Hb]. apply andb_prop in Hl. destruct Hl as [Hn Hs].
    apply negb_true_iff in Hs.
    unfold text_of. cbn [map concat]. fold (text_of body).
    rewrite <- !app_assoc. rewrite (app_assoc l [nl]).
    cbn [stk_consume_aux].
    destruct ((l ++ [nl]) ++ text_of body ++ stk_end ++ more) eqn:Es; [destruct l; discriminate Es|]. rewrite <- Es.
    rewrite (take_line_app l _ Hn). rewrite Hs.
    rewrite (IH k more) by (try lia; exact Hb). rewrite !app_length. cbn [length]. lia.
Qed.
Lemma stk_consume_one : forall body more, stk_body_ok body = true ->
  stk_consume (text_of body ++ stk_end ++ more) = length (text_of body ++ stk_end).
Proof.
  intros body more H. unfold stk_consume. apply stk_consume_aux_one; [|exact H].
  rewrite !app_length. unfold text_of.
  assert (G : forall b : list str, length b <= length (concat (map (fun l => l ++ [nl]) b))).
  { induction b as [|x b IHb]; [cbn; lia|]. cbn [map concat]. rewrite !app_length. cbn [length]. lia. }
  specialize (G body). lia.
Qed.

Lemma skipn_add : forall (A : Type) a b (l : list A), skipn (a + b) l = skipn b (skipn a l).
Proof.
  intros A a. induction a as [|a IH]; intros b l; [reflexivity|].
  destruct l as [|x l]; [cbn; destruct b; reflexivity|]. cbn [Nat.add skipn]. apply IH.
Qed.
(* a Stockholm read on a handle -- of any kind, at any position, format named -- consumes exactly one alignment: the
   handle then stands at what follows the "//" line *)
Lemma stockholm_read_consumes_one_alignment : forall h w o body more,
  stk_body_ok body = true -> h_rest h = text_of body ++ stk_end ++ more ->
  let r := sstep h (SReadObj w o (Some (bs "stockholm"%bs))) in
  h_rest (snd r) = more /\
  fst r = VL [VS (bs "stockholm"%bs); VI (Z.of_nat (h_pos h + length (text_of body ++ stk_end)))].
Proof.
  intros h w o body more Hb Hr r. subst r. cbn [sstep read_plan pl_fmt].
  change (lower (bs "stockholm"%bs)) with (bs "stockholm"%bs).
  unfold consume. change (name_is (bs "stockholm"%bs) "stockholm"%bs) with true. cbn iota.
  rewrite Hr, (stk_consume_one body more Hb). cbn [fst snd].
  set (n := length (text_of body ++ stk_end)).
  assert (Hlen : h_pos h + n <= length (h_content h)).
  { unfold h_rest in Hr. assert (L : length (skipn (h_pos h) (h_content h)) = length ((text_of body ++ stk_end) ++ more))
      by (rewrite Hr, <- app_assoc; reflexivity).
    rewrite skipn_length, app_length in L. fold n in L.
    destruct (Nat.le_gt_cases (h_pos h) (length (h_content h))) as [Hle|Hgt]; [lia|].
    assert (n = 0) by lia. unfold n in H. rewrite app_length in H. cbn in H. lia. }
  unfold h_advance, h_rest, h_seek. cbn [h_content h_pos].
  rewrite Nat.min_r by exact Hlen. split; [|reflexivity].
  rewrite skipn_add. unfold h_rest in Hr. rewrite Hr, app_assoc. fold n.
  unfold n. rewrite skipn_app, skipn_all, Nat.sub_diag. reflexivity.
Qed.

Lemma witness_session :
  let c := render_stockholm [bs "a ACGU"%bs; bs "b AC-U"%bs] ++ render_stockholm [bs "c GG"%bs] in
  let h := {| h_content := c; h_pos := 0; h_binary := true |} in
  let stk := Some (bs "stockholm"%bs) in
  stk_body_ok [bs "# STOCKHOLM 1.0"%bs; bs "a ACGU"%bs; bs "b AC-U"%bs] = true /\
  fst (run_session h [SDetect Seqs no_opts; SReadObj Seqs no_opts None; STell; SDetect Fts no_opts; SDetect Seqs no_opts;
                      SReadObj Seqs no_opts stk; SReadObj Seqs no_opts None; SRead None]) =
    [VL [VS (bs "stockholm"%bs); VI 0]; VL [VS (bs "stockholm"%bs); VI 33]; VI 33; VL [VNone; VI 33]; VL [VS (bs "stockholm"%bs); VI 33];
     VL [VS (bs "stockholm"%bs); VI 57]; VE (bs "OSError"%bs); VS []].
Proof. vm_compute. split; reflexivity. Qed.
