(* C01 proofs, part 5: the statements exported to props/C01_Props.v. *)
From Coq Require Import List ZArith NArith Bool Lia.
From Coq.Strings Require Import Byte.
Import ListNotations.
From SV Require Import Text C01_Lines G_codes G_c01_io C01_Model C01_Lemmas C01_Formats C01_Stockholm C01_Domain C01_Gff.

Definition norm_of (f : fmt) : bseq -> bseq :=
  match f with Fasta | Gff => norm_fasta f | _ => norm_plain f end.

Lemma norm_of_obs f b : length (map (norm_of f) b) = length b /\ map b_id (map (norm_of f) b) = map b_id b
  /\ map b_data (map (norm_of f) b) = map b_data b.
Proof. rewrite map_length, !map_map. destruct f; repeat split. Qed.

(* per format: write -> read gives the normal form of every sequence (same id, residues, type); the normal form is written
   and read back as itself (t2), so every further cycle repeats objects and bytes *)
Theorem format_cycle f b : wfb_basket f b = true ->
  exists t t2, write_w f b = Ok t /\ read_content f t = Ok (map (norm_of f) b)
               /\ write_w f (map (norm_of f) b) = Ok t2 /\ read_content f t2 = Ok (map (norm_of f) b)
               /\ (f <> Sjson -> t2 = t).
Proof.
  destruct f; cbn [wfb_basket norm_of]; intros H.
  - destruct (fasta_cycle b H) as (t & H1 & H2 & H3). exists t, t. auto 6.
  - destruct (stockholm_roundtrip b H) as (t & H1 & H2 & H3). exists t, t. auto 6.
  - destruct (sjson_seq_roundtrip b H) as (t & H1 & H2 & t2 & H3 & H4). exists t, t2. repeat split; auto. congruence.
  - destruct (gff_seq_roundtrip b H) as (t & H1 & H2 & H3). exists t, t. auto 6.
Qed.

(* the property as stated, from the domain predicate evaluated by the harness *)
Theorem roundtrip_all f xs : wf_basket f xs = true ->
  exists t o, write_w f (build xs) = Ok t /\ read_content f t = Ok o
    /\ length o = length xs
    /\ map b_id o = map (fun x => fst (fst x)) xs
    /\ map b_data o = map (fun x => upper (snd (fst x))) xs
    /\ exists t2, write_w f o = Ok t2 /\ read_content f t2 = Ok o /\ (f <> Sjson -> t2 = t).
Proof.
  intros H. destruct (domain_bridge f xs H) as [Hb _].
  destruct (format_cycle f (build xs) Hb) as (t & t2 & H1 & H2 & H3 & H4 & H5).
  destruct (norm_of_obs f (build xs)) as (L & I & D).
  exists t, (map (norm_of f) (build xs)). split; [exact H1|]. split; [exact H2|].
  split; [rewrite L; unfold build; apply map_length|].
  split; [rewrite I; unfold build; rewrite map_map; apply map_ext; intros x; apply build_id|].
  split; [rewrite D; unfold build; rewrite map_map; apply map_ext; intros x; apply build_data|].
  exists t2. auto.
Qed.

Theorem fasta_append_main b1 b2 :
  bind (write_w Fasta b1) (fun c1 => write_file Fasta true c1 b2) = write_w Fasta (b1 ++ b2)
  /\ write_dispatch Fasta true false b2 = Ok (CText (concat (map append_fasta b2))).
Proof. exact (fasta_append b1 b2). Qed.

(* GFF baskets that carry plain features (harness-level domain) *)
Theorem gff_fts_roundtrip_all xs fts : wf_basket Gff xs = true -> forallb wf_gft fts = true ->
  exists t o, write_w_fts Gff fts (build xs) = Ok t /\ read_content Gff t = Ok o
    /\ length o = length xs
    /\ map b_id o = map (fun x => fst (fst x)) xs
    /\ map b_data o = map (fun x => upper (snd (fst x))) xs
    /\ write_w_fts Gff fts o = Ok t.
Proof.
  intros H Hf. destruct (domain_bridge Gff xs H) as [Hb _]. cbn [wfb_basket] in Hb.
  destruct (gff_fts_roundtrip fts (build xs) Hf Hb) as (t & H1 & H2 & H3).
  destruct (norm_of_obs Gff (build xs)) as (L & I & D). cbn [norm_of] in L, I, D.
  exists t, (map (norm_fasta Gff) (build xs)). split; [exact H1|]. split; [exact H2|].
  split; [rewrite L; unfold build; apply map_length|].
  split; [rewrite I; unfold build; rewrite map_map; apply map_ext; intros x; apply build_id|].
  split; [rewrite D; unfold build; rewrite map_map; apply map_ext; intros x; apply build_data|].
  exact H3.
Qed.
