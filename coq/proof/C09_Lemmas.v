(* C09 proofs: slicing through wrapped lines (DESIGN appendix A), _pack/_unpack, extraction from a rendered record. *)
From Coq Require Import List Arith Lia ZArith NArith Bool.
From Coq.Strings Require Import Byte.
Import ListNotations.
From SV Require Import Text C09_Model.

(* ------------------------------------------------------------------ arithmetic *)
Lemma div_step w k : 0 < w ->
  (S k) / w = k / w + (if (S k) mod w =? 0 then 1 else 0).
Proof.
  intros Hw.
  pose proof (Nat.div_mod_eq k w) as E2.
  pose proof (Nat.mod_upper_bound k w ltac:(lia)) as B2.
  set (q := k / w) in *. set (r := k mod w) in *.
  destruct (Nat.eq_dec (S r) w) as [E|E].
  - assert (D: S k / w = q + 1) by (symmetry; apply (Nat.div_unique _ _ _ 0); nia).
    assert (M: S k mod w = 0) by (symmetry; apply (Nat.mod_unique _ _ (q+1)); nia).
    rewrite D, M. reflexivity.
  - assert (D: S k / w = q) by (symmetry; apply (Nat.div_unique _ _ _ (S r)); nia).
    assert (M: S k mod w = S r) by (symmetry; apply (Nat.mod_unique _ _ q); nia).
    rewrite D, M. simpl. lia.
Qed.

Section Wrap.
Variable isnl : byte -> bool.
Variable nl : str.              (* "\n" or "\r\n" *)
Variable w : nat.               (* residues per line *)
Hypothesis w_pos : 0 < w.
Hypothesis nl_isnl : forallb isnl nl = true.

Let nonnl := fun c => negb (isnl c).

Definition boff (k m : nat) : nat := m + ((k + m) / w - k / w) * length nl.

Lemma boff_S k m : boff k (S m) = S (length (brk nl w k)) + boff (S k) m.
Proof.
  unfold boff, brk. replace (k + S m) with (S k + m) by lia.
  pose proof (div_step w k w_pos) as D.
  assert (Mono: S k / w <= (S k + m) / w) by (apply Nat.div_le_mono; lia).
  destruct (S k mod w =? 0); simpl length; nia.
Qed.

Lemma firstn_wrap : forall s k m, m <= length s ->
  firstn (boff k m) (wrap_from nl w k s) = wrap_from nl w k (firstn m s).
Proof.
  induction s as [|c s IH]; intros k m Hm.
  - simpl in Hm. assert (m = 0) by lia. subst. unfold boff. rewrite Nat.add_0_r, Nat.sub_diag. reflexivity.
  - destruct m as [|m].
    + unfold boff. rewrite Nat.add_0_r, Nat.sub_diag. reflexivity.
    + rewrite boff_S. simpl. f_equal.
      rewrite firstn_app. rewrite firstn_all2 by lia. f_equal.
      replace (length (brk nl w k) + boff (S k) m - length (brk nl w k)) with (boff (S k) m) by lia.
      apply IH. simpl in Hm. lia.
Qed.

Lemma skipn_wrap : forall s k m, m <= length s ->
  skipn (boff k m) (wrap_from nl w k s) = wrap_from nl w (k + m) (skipn m s).
Proof.
  induction s as [|c s IH]; intros k m Hm.
  - simpl in Hm. assert (m = 0) by lia. subst. unfold boff. rewrite Nat.add_0_r, Nat.sub_diag. reflexivity.
  - destruct m as [|m].
    + unfold boff. rewrite !Nat.add_0_r, Nat.sub_diag. reflexivity.
    + rewrite boff_S. simpl. rewrite skipn_app.
      rewrite (skipn_all2 (brk nl w k)) by lia. simpl app.
      replace (length (brk nl w k) + boff (S k) m - length (brk nl w k)) with (boff (S k) m) by lia.
      rewrite IH by (simpl in Hm; lia). f_equal. lia.
Qed.

Lemma filter_nl : filter nonnl nl = [].
Proof.
  clear -nl_isnl. subst nonnl. induction nl as [|x l IHl]; simpl in *; [reflexivity|].
  apply andb_prop in nl_isnl. destruct nl_isnl as [Hx Hl]. rewrite Hx. simpl. auto.
Qed.

Lemma filter_wrap : forall s k, forallb nonnl s = true ->
  filter nonnl (wrap_from nl w k s) = s.
Proof.
  induction s as [|c s IH]; intros k H; simpl in *; [reflexivity|].
  apply andb_prop in H. destruct H as [Hc Hs]. rewrite Hc. f_equal.
  rewrite filter_app. rewrite IH by assumption.
  assert (E: filter nonnl (brk nl w k) = []).
  { unfold brk. destruct (_ =? _); [apply filter_nl|reflexivity]. }
  rewrite E. reflexivity.
Qed.

(* Python: off x = x + (x // w) * len(nl);  read bytes [off i, off j) of the body; fastaindex.py:118,132 *)
Definition off (x : nat) : nat := x + (x / w) * length nl.

Lemma off_boff x : off x = boff 0 x.
Proof. unfold off, boff. rewrite Nat.div_0_l by lia. simpl. lia. Qed.

Lemma forallb_slice (s : str) i j : forallb nonnl s = true -> forallb nonnl (firstn j (skipn i s)) = true.
Proof.
  intros Hs. rewrite forallb_forall in *. intros x Hx. apply Hs.
  rewrite <- (firstn_skipn i s). apply in_or_app. right.
  rewrite <- (firstn_skipn j (skipn i s)). apply in_or_app. left. exact Hx.
Qed.

Theorem slice_through_wrap s i j :
  i <= j -> j <= length s -> forallb nonnl s = true ->
  filter nonnl (firstn (off j - off i) (skipn (off i) (wrap_from nl w 0 s)))
  = firstn (j - i) (skipn i s).
Proof.
  intros Hij Hj Hs.
  rewrite (off_boff i), skipn_wrap by lia. simpl.
  assert (Oj: off j - boff 0 i = boff i (j - i)).
  { unfold off, boff. rewrite Nat.div_0_l by lia. replace (i + (j - i)) with j by lia.
    simpl (0 + i). rewrite Nat.sub_0_r.
    assert (Hd: i / w <= j / w) by (apply Nat.div_le_mono; lia).
    generalize dependent (i / w). generalize dependent (j / w). intros a b Hd. nia. }
  rewrite Oj, firstn_wrap by (rewrite skipn_length; lia).
  apply filter_wrap. apply forallb_slice. exact Hs.
Qed.

(* prefix of the wrapped text up to residue x *)
Lemma filter_firstn_off s x : x <= length s -> forallb nonnl s = true ->
  filter nonnl (firstn (off x) (wrap_from nl w 0 s)) = firstn x s.
Proof.
  intros Hx Hs. rewrite off_boff, firstn_wrap by lia. apply filter_wrap.
  rewrite <- (skipn_O s). apply forallb_slice. exact Hs.
Qed.

Lemma length_wrap : forall s k, length (wrap_from nl w k s) = boff k (length s).
Proof.
  induction s as [|c s IH]; intros k.
  - unfold boff. simpl. rewrite Nat.add_0_r, Nat.sub_diag. reflexivity.
  - simpl length. rewrite boff_S, app_length, IH. lia.
Qed.

Lemma off_mono x y : x <= y -> off x <= off y.
Proof.
  intros H. unfold off. assert (x / w <= y / w) by (apply Nat.div_le_mono; lia). nia.
Qed.
End Wrap.

(* ------------------------------------------------------------------ _pack / _unpack *)
Definition le_val (r : list byte) : N := fold_right (fun c acc => (acc * 256 + Byte.to_N c)%N) 0%N r.

Lemma from_bytes_rev r : from_bytes (rev r) = le_val r.
Proof. unfold from_bytes, le_val. rewrite <- fold_left_rev_right. rewrite rev_involutive. reflexivity. Qed.

Lemma to_bytes_rev_some : forall len n, (n < 256 ^ N.of_nat len)%N ->
  exists r, to_bytes_rev len n = Some r /\ length r = len /\ le_val r = n.
Proof.
  induction len as [|len IH]; intros n Hn.
  - simpl in Hn. assert (n = 0%N) by lia. subst. exists []. simpl. auto.
  - assert (Hq: (n / 256 < 256 ^ N.of_nat len)%N).
    { apply N.div_lt_upper_bound; [lia|]. rewrite Nat2N.inj_succ, N.pow_succ_r' in Hn. lia. }
    destruct (IH _ Hq) as [r [Hr [Hl Hv]]].
    assert (Hm: (n mod 256 < 256)%N) by (apply N.mod_lt; lia).
    destruct (Byte.of_N (n mod 256)) as [b|] eqn:Eb.
    + exists (b :: r). cbn [to_bytes_rev]. rewrite Eb, Hr. split; [reflexivity|]. split; [simpl; lia|].
      cbn [le_val fold_right]. fold (le_val r). rewrite Hv. apply Byte.to_of_N in Eb. rewrite Eb.
      pose proof (N.div_mod n 256 ltac:(lia)). lia.
    + apply Byte.of_N_None_iff in Eb. lia.
Qed.

Lemma to_bytes_some len n : (n < 256 ^ N.of_nat len)%N ->
  exists b, to_bytes len n = Some b /\ length b = len /\ from_bytes b = n.
Proof.
  intros H. destruct (to_bytes_rev_some len n H) as [r [Hr [Hl Hv]]].
  exists (rev r). unfold to_bytes. rewrite Hr. simpl. rewrite rev_length, from_bytes_rev. auto.
Qed.

Lemma bit_length_bound n : (n < 256 ^ N.of_nat (bit_length n))%N.
Proof.
  unfold bit_length. rewrite N2Nat.id. pose proof (N.size_gt n) as H.
  assert ((2 ^ N.size n <= 256 ^ N.size n)%N) by (apply N.pow_le_mono_l; lia). lia.
Qed.

Theorem pack_unpack fn ll st : (fn < 65536)%N -> (ll < 65536)%N ->
  exists b, pack fn ll st = Some b /\ unpack b = (fn, ll, st).
Proof.
  intros Hf Hl.
  destruct (to_bytes_some 2 fn ltac:(simpl; lia)) as [a [Ha [La Va]]].
  destruct (to_bytes_some 2 ll ltac:(simpl; lia)) as [b [Hb [Lb Vb]]].
  destruct (to_bytes_some (bit_length st) st (bit_length_bound st)) as [c [Hc [Lc Vc]]].
  exists (a ++ b ++ c). unfold pack. rewrite Ha, Hb, Hc. split; [reflexivity|].
  destruct a as [|a1 [|a2 [|? ?]]]; try discriminate La.
  destruct b as [|b1 [|b2 [|? ?]]]; try discriminate Lb.
  unfold unpack. cbn [app firstn skipn]. rewrite Va, Vb, Vc. reflexivity.
Qed.

(* the overflow of F15 is exactly a line length that does not fit two bytes *)
Lemma pack_overflow fn ll st : (65536 <= ll)%N -> pack fn ll st = None.
Proof.
  intros H. unfold pack.
  assert (E: to_bytes 2 ll = None).
  { unfold to_bytes. cbn [to_bytes_rev].
    destruct (Byte.of_N (ll mod 256)); [|reflexivity].
    destruct (Byte.of_N (ll / 256 mod 256)); [|reflexivity].
    assert (N.eqb (ll / 256 / 256) 0 = false) as ->; [|reflexivity].
    apply N.eqb_neq. intros E0. apply N.div_small_iff in E0; [|lia].
    assert (ll / 256 >= 256)%N; [|lia].
    apply N.le_ge. apply N.div_le_lower_bound; lia. }
  rewrite E. destruct (to_bytes 2 fn); reflexivity.
Qed.

(* ------------------------------------------------------------------ file numbers index the registration list *)
(* every entry of the index carries the position, in the list of registered files, of the file whose scan produced it
   (FastaIndex.add, fastaindex.py:253-264): looking the file up by that number in the same list gives that file back *)
Lemma scan_loop_fn : forall fuel f fn st es, scan_loop fuel f fn st = Ok es -> forall e, In e es -> e_fn e = fn.
Proof.
  induction fuel as [|fuel IH]; intros f fn st es H e He; [discriminate|].
  cbn [scan_loop] in H. destruct (scan_step f fn st) as [[e0 nxt]|k] eqn:E; [|discriminate].
  assert (F0: e_fn e0 = fn).
  { unfold scan_step in E. destruct (first_word _); [|discriminate]. inversion E. reflexivity. }
  destruct nxt as [nxt|].
  - destruct (scan_loop fuel f fn nxt) as [es'|k] eqn:E2; [|discriminate]. inversion H; subst es.
    destruct He as [<-|He]; [exact F0|]. exact (IH _ _ _ _ E2 e He).
  - inversion H; subst es. destruct He as [<-|[]]. exact F0.
Qed.

Lemma scan_file_fn f fn es : scan_file f fn = Ok es -> forall e, In e es -> e_fn e = fn.
Proof.
  unfold scan_file. destruct f as [|c f]; [discriminate|].
  destruct (mfind GT (c :: f) 0 None) as [st|].
  - apply scan_loop_fn.
  - intros H e He. inversion H; subst es. destruct He.
Qed.

Theorem scan_files_registered : forall (reg : list str) k es, scan_files reg k = Ok es ->
  forall e, In e es ->
  k <= e_fn e /\ exists f es', nth_error reg (e_fn e - k) = Some f /\ scan_file f (e_fn e) = Ok es' /\ In e es'.
Proof.
  induction reg as [|f reg IH]; intros k es H e He.
  - inversion H; subst es. destruct He.
  - cbn [scan_files] in H. destruct (scan_file f k) as [es1|?] eqn:E1; [|discriminate].
    destruct (scan_files reg (S k)) as [es2|?] eqn:E2; [|discriminate]. inversion H; subst es.
    apply in_app_or in He. destruct He as [He|He].
    + pose proof (scan_file_fn _ _ _ E1 e He) as Fe. rewrite Fe, Nat.sub_diag. split; [lia|].
      exists f, es1. split; [reflexivity|]. split; assumption.
    + destruct (IH _ _ E2 e He) as [Hk [f' [es' [N [S' I']]]]]. split; [lia|].
      exists f', es'. replace (e_fn e - k) with (S (e_fn e - S k)) by lia. split; [exact N|]. split; assumption.
Qed.
