(* C09 proofs, part 11: "the same sequence as reading the file": the whole-file reader on a rendered file yields the
   abstract records in order, and the answers of the index are slices of what the reader yields. *)
From Coq Require Import List Arith Lia ZArith NArith Bool.
From Coq.Strings Require Import Byte.
Import ListNotations.
From SV Require Import Text C09_Model C09_Lemmas C09_Extract C09_Record C09_Unterm C09_Box C09_Scan C09_Parse C09_Get C09_GetAll.

Definition lf_end (s : str) : Prop := s = [] \/ exists s', s = s' ++ [LF].

Lemma lf_end_tail t r : lf_end (t ++ LF :: r) -> lf_end r.
Proof.
  intros [E | [s' E]]; [destruct t; discriminate|].
  destruct r as [|a r0]; [left; reflexivity|right].
  destruct (@exists_last _ (a :: r0) ltac:(discriminate)) as [q [z Eq]]. rewrite Eq in *.
  replace (t ++ LF :: q ++ [z]) with ((t ++ LF :: q) ++ [z]) in E by (rewrite <- app_assoc; reflexivity).
  apply app_inj_tail in E. destruct E as [_ ->]. exists q. reflexivity.
Qed.

(* the data lines of a record inside a larger text: the following text starts on a line boundary, or there is none *)
Lemma fasta_all_data : forall n (s : str), length s <= n -> forallb datab s = true -> cr_ok s = true ->
  forall rest h d acc, (lf_end s \/ rest = []) ->
  fasta_all (lines_keep (s ++ rest)) (Some (h, d)) acc = fasta_all (lines_keep rest) (Some (h, d ++ filter nonnl s)) acc.
Proof.
  induction n as [|n IH]; intros s Hn Hd Hc rest h d acc He.
  - destruct s; [|simpl in Hn; lia]. cbn. rewrite app_nil_r. reflexivity.
  - destruct (split_lf s) as [Hl | [t [rest0 [E Hl]]]].
    + destruct s as [|c s0] eqn:Es; [cbn; rewrite app_nil_r; reflexivity|]. rewrite <- Es in *.
      assert (rest = []) as ->.
      { destruct He as [[E | [s' E]] | E]; [rewrite Es in E; discriminate| |exact E].
        exfalso. rewrite E, forallb_app in Hl. apply andb_prop in Hl. destruct Hl as [_ Hl]. discriminate. }
      rewrite app_nil_r. unfold lines_keep. rewrite (lines_keep_last s [] Hl). cbn [rev app]. rewrite Es. rewrite <- Es.
      cbn [fasta_all lines_keep_aux]. destruct (starts_data s Hd) as [-> ->].
      assert (S: strip_ws s = filter nonnl s).
      { rewrite <- (app_nil_r s) at 1. apply (line_strip s [] [] Hd Hl); [rewrite app_nil_r; exact Hc|auto|auto]. }
      rewrite S. reflexivity.
    + subst s. rewrite <- app_assoc. cbn [app]. unfold lines_keep. rewrite (lines_keep_line t [] (rest0 ++ rest) Hl).
      cbn [rev app fasta_all].
      rewrite forallb_app in Hd. apply andb_prop in Hd. destruct Hd as [Hdt Hdr]. cbn [forallb] in Hdr.
      apply andb_prop in Hdr. destruct Hdr as [_ Hdr].
      assert (Hdl: forallb datab (t ++ [LF]) = true) by (rewrite forallb_app, Hdt; reflexivity).
      destruct (starts_data _ Hdl) as [-> ->].
      assert (S: strip_ws (t ++ [LF]) = filter nonnl t) by (apply (line_strip t (LF :: rest0) [LF] Hdt Hl Hc); eauto).
      rewrite S.
      assert (Hcr: cr_ok rest0 = true).
      { pose proof (cr_ok_skipn _ (length t + 1) Hc) as K.
        replace (t ++ LF :: rest0) with ((t ++ [LF]) ++ rest0) in K by (rewrite <- app_assoc; reflexivity).
        replace (length t + 1) with (length (t ++ [LF])) in K by (rewrite app_length; reflexivity).
        rewrite skipn_app_len in K. exact K. }
      fold (lines_keep (rest0 ++ rest)). rewrite IH; [|rewrite app_length in Hn; simpl in Hn; lia|exact Hdr|exact Hcr|].
      * rewrite filter_app. cbn [filter]. change (nonnl LF) with false. cbn iota. rewrite app_assoc. reflexivity.
      * destruct He as [He | He]; [left; exact (lf_end_tail _ _ He)|right; exact He].
Qed.

Lemma lines_header crlf r data : forallb notLF (rid r ++ rdesc r) = true ->
  lines_keep (header_line (nl_of crlf) r ++ data) = header_line (nl_of crlf) r :: lines_keep data.
Proof.
  intros HL. unfold lines_keep, header_line. destruct crlf; cbn [nl_of].
  - replace ((GT :: rid r ++ rdesc r ++ [CR; LF]) ++ data) with ((GT :: (rid r ++ rdesc r) ++ [CR]) ++ LF :: data)
      by (cbn [app]; rewrite <- !app_assoc; reflexivity).
    rewrite lines_keep_line by (cbn [forallb]; rewrite forallb_app, HL; reflexivity).
    cbn [rev app]. rewrite <- !app_assoc. reflexivity.
  - replace ((GT :: rid r ++ rdesc r ++ [LF]) ++ data) with ((GT :: (rid r ++ rdesc r)) ++ LF :: data)
      by (cbn [app]; rewrite <- !app_assoc; reflexivity).
    rewrite lines_keep_line by (cbn [forallb]; rewrite HL; reflexivity).
    cbn [rev app]. rewrite <- !app_assoc. reflexivity.
Qed.

Lemma header_step mode crlf r ls cur acc : wf_rec mode (length (nl_of crlf)) r = true ->
  fasta_all (header_line (nl_of crlf) r :: ls) cur acc = fasta_all ls (Some (hdr crlf r, [])) (push_rec cur acc).
Proof.
  intros Hwf. destruct (wf_id_facts _ _ _ Hwf) as [_ [_ [c [i [Ei Hc]]]]].
  cbn [fasta_all]. unfold header_line at 1. cbn [starts_with]. rewrite byte_eqb_refl.
  assert (LG: lstrip_gt (header_line (nl_of crlf) r) = rid r ++ rdesc r ++ nl_of crlf).
  { unfold header_line. cbn [lstrip_gt]. rewrite byte_eqb_refl. rewrite Ei. cbn [app lstrip_gt]. rewrite Hc. reflexivity. }
  rewrite LG. reflexivity.
Qed.

Lemma body_lf_end crlf r : 1 <= rw r -> lf_end (body (nl_of crlf) r).
Proof.
  intros Hw. destruct (rseq r) as [|c s] eqn:Es.
  - left. unfold body. rewrite Es. cbn [wrap_from length app].
    assert (M: 0 mod rw r =? 0 = true) by (destruct (rw r); [reflexivity|]; rewrite Nat.mod_0_l by lia; reflexivity).
    rewrite M. reflexivity.
  - right. destruct (body_ends_nl crlf r Hw ltac:(rewrite Es; discriminate)) as [W' E]. rewrite E.
    destruct crlf; cbn [nl_of]; [exists (W' ++ [CR]); rewrite <- app_assoc; reflexivity|exists W'; reflexivity].
Qed.

Definition absrec (crlf : bool) (r : arec) : str * str := (hdr crlf r, rseq r).

(* all terminated records, then a tail piece that is read on its own *)
Lemma fasta_all_recs mode crlf (T : str) : forall (rs : list arec) cur acc,
  Forall (fun r => wf_rec mode (length (nl_of crlf)) r = true) rs ->
  fasta_all (lines_keep (render_recs (nl_of crlf) rs ++ T)) cur acc
  = fasta_all (lines_keep T)
      (match rev rs with r :: _ => Some (absrec crlf r) | [] => cur end)
      (match rev rs with _ :: p => map (absrec crlf) p ++ push_rec cur acc | [] => acc end).
Proof.
  induction rs as [|r rs IH]; intros cur acc Hwf; [reflexivity|].
  inversion Hwf as [|r' rs' Hr Hrs]; subst r' rs'.
  destruct (wf_rec_facts _ _ _ Hr) as [Hw [H1 [H2 [H3 H4]]]]. pose proof (wf_rec_resb _ _ _ Hr) as HR.
  rewrite render_recs_cons.
  change (render_rec (nl_of crlf) r) with (header_line (nl_of crlf) r ++ body (nl_of crlf) r). rewrite <- !app_assoc.
  rewrite (lines_header crlf r _ (nonnl_notLF _ H1)), (header_step mode crlf r _ cur acc Hr).
  etransitivity.
  { apply (fasta_all_data _ (body (nl_of crlf) r) (le_n _) (body_datab crlf r HR) (body_cr_ok crlf r HR)
             (render_recs (nl_of crlf) rs ++ T) (hdr crlf r) [] (push_rec cur acc) (or_introl (body_lf_end crlf r Hw))). }
  rewrite (body_filter crlf r H3). cbn [app]. rewrite (IH _ _ Hrs). cbn [rev].
  destruct (rev rs) as [|rl p] eqn:Er.
  - cbn [app]. reflexivity.
  - cbn [app]. f_equal. rewrite map_app. cbn [map push_rec]. rewrite <- app_assoc. reflexivity.
Qed.

Lemma fasta_all_end cur acc : fasta_all (lines_keep []) cur acc = Ok (rev (push_rec cur acc)).
Proof. reflexivity. Qed.

(* the last record without its final line terminator *)
Lemma fasta_all_unterm mode crlf r cur acc : wf_rec mode (length (nl_of crlf)) r = true ->
  fasta_all (lines_keep (firstn (length (render_rec (nl_of crlf) r) - length (nl_of crlf)) (render_rec (nl_of crlf) r))) cur acc
  = Ok (rev (absrec crlf r :: push_rec cur acc)).
Proof.
  intros Hr. destruct (wf_rec_facts _ _ _ Hr) as [Hw [H1 [H2 [H3 H4]]]]. pose proof (wf_rec_resb _ _ _ Hr) as HR.
  assert (D: rseq r = [] \/ rseq r <> []) by (destruct (rseq r); [left; reflexivity | right; discriminate]).
  destruct D as [Es | Hne].
  - rewrite (unterm_degenerate crlf r Es). destruct (wf_id_facts _ _ _ Hr) as [_ [_ [c [i [Ei Hc]]]]].
    unfold lines_keep. rewrite (lines_keep_last (GT :: rid r ++ rdesc r) []) by (cbn [forallb]; rewrite (nonnl_notLF _ H1); reflexivity).
    cbn [rev app fasta_all starts_with]. rewrite byte_eqb_refl. cbn [lstrip_gt]. rewrite byte_eqb_refl.
    rewrite Ei. cbn [app lstrip_gt]. rewrite Hc. change (c :: i ++ rdesc r) with ((c :: i) ++ rdesc r). rewrite <- Ei.
    rewrite (hdr_nonl mode crlf r Hr). unfold absrec. rewrite Es. reflexivity.
  - destruct (body_ends_nl crlf r Hw Hne) as [W' EW].
    assert (EU: firstn (length (render_rec (nl_of crlf) r) - length (nl_of crlf)) (render_rec (nl_of crlf) r)
                = header_line (nl_of crlf) r ++ W').
    { unfold render_rec. rewrite EW. rewrite (app_assoc (header_line _ _) W'). rewrite app_length, Nat.add_sub.
      rewrite firstn_app, Nat.sub_diag, firstn_O, app_nil_r, firstn_all. reflexivity. }
    rewrite EU, (lines_header crlf r _ (nonnl_notLF _ H1)), (header_step mode crlf r _ cur acc Hr).
    pose proof (body_datab crlf r HR) as BD. rewrite EW, forallb_app in BD. apply andb_prop in BD. destruct BD as [BD _].
    pose proof (body_cr_ok crlf r HR) as BC. rewrite EW in BC.
    assert (BC': cr_ok W' = true).
    { pose proof (cr_ok_firstn _ (length W') BC) as K. rewrite firstn_app, Nat.sub_diag, firstn_O, app_nil_r, firstn_all in K. exact K. }
    assert (Fnl: filter nonnl (nl_of crlf) = []) by (destruct crlf; reflexivity).
    pose proof (body_filter crlf r H3) as BF. rewrite EW, filter_app, Fnl, app_nil_r in BF.
    rewrite <- (app_nil_r W') at 1.
    etransitivity.
    { apply (fasta_all_data _ W' (le_n _) BD BC' [] (hdr crlf r) [] (push_rec cur acc) (or_intror eq_refl)). }
    rewrite BF. reflexivity.
Qed.

Lemma rev_recs crlf rs cur acc :
  rev (push_rec (match rev rs with r :: _ => Some (absrec crlf r) | [] => cur end)
                (match rev rs with _ :: p => map (absrec crlf) p ++ push_rec cur acc | [] => acc end))
  = rev (push_rec cur acc) ++ map (absrec crlf) rs.
Proof.
  destruct (rev rs) as [|rl p] eqn:Er.
  - assert (rs = []) as -> by (rewrite <- (rev_involutive rs), Er; reflexivity). cbn. rewrite app_nil_r. reflexivity.
  - cbn [push_rec]. assert (rs = rev p ++ [rl]) as -> by (rewrite <- (rev_involutive rs), Er; reflexivity).
    cbn [rev]. rewrite rev_app_distr, map_app, <- map_rev. cbn [map]. rewrite <- app_assoc. reflexivity.
Qed.

(* reading the file: every record, in order, as (id, stripped header, upper-cased residues) *)
Theorem read_file mode crlf final (rs : list arec) :
  Forall (fun r => wf_rec mode (length (nl_of crlf)) r = true) rs ->
  read_fasta (render_file crlf final rs) = Ok (map (fun r => (Some (rid r), hdr crlf r, upper (rseq r))) rs).
Proof.
  intros Hwf.
  assert (E: fasta_all (lines_keep (render_file crlf final rs)) None [] = Ok (map (absrec crlf) rs)).
  { destruct final.
    - unfold render_file. rewrite <- (app_nil_r (render_recs _ rs)), (fasta_all_recs mode crlf [] rs None [] Hwf), fasta_all_end, rev_recs. reflexivity.
    - destruct rs as [|r0 rs0]; [reflexivity|].
      destruct (@exists_last _ (r0 :: rs0) ltac:(discriminate)) as [init [rl E]]. rewrite E in *.
      apply Forall_app in Hwf. destruct Hwf as [Hinit Hl]. inversion Hl as [|x l Hrl _]; subst x l.
      rewrite render_file_unterminated, (fasta_all_recs mode crlf _ init None [] Hinit).
      rewrite (fasta_all_unterm mode crlf rl _ _ Hrl). cbn [rev]. rewrite rev_recs. cbn [push_rec rev app].
      rewrite map_app. reflexivity. }
  unfold read_fasta. rewrite E, map_map. f_equal. apply map_ext_in. intros r Hin.
  rewrite Forall_forall in Hwf. unfold absrec. cbn [fst snd]. rewrite (id_hdr mode crlf r (Hwf r Hin)). reflexivity.
Qed.

Lemma upper_sl s oi oj : upper (sl s oi oj) = sl (upper s) oi oj.
Proof. unfold sl, upper. destruct oj; rewrite <- ?firstn_map, <- ?skipn_map; reflexivity. Qed.

(* the index answers with slices of what reading the file gives: get((id, i, j)) = read(file)[id][i:j] on the model *)
Theorem index_equals_read mode (fs : list gfile) :
  (mode = MODE_BINARY \/ (mode = MODE_DB /\ (N.of_nat (length fs) < 65536)%N)) ->
  Forall (wf_gfile mode) fs -> NoDup (all_ids (map g_strip fs)) ->
  forall k f rs1 r rs2, nth_error fs k = Some f -> g_recs f = rs1 ++ r :: rs2 ->
  exists recs h d,
    read_fasta (gfile_bytes f) = Ok recs /\ nth_error recs (length rs1) = Some (Some (rid r), h, d)
    /\ answer mode (map gfile_bytes fs) (entries_from 0 (map g_strip fs)) (Query 0 (rid r) None) = VL [VS (rid r); VS h; VS d]
    /\ forall oi oj : option nat,
         (match oi, oj with Some i, Some j => i <= j | None, None => False | _, _ => True end) ->
         answer mode (map gfile_bytes fs) (entries_from 0 (map g_strip fs))
                (Query 0 (rid r) (Some (option_map Z.of_nat oi, option_map Z.of_nat oj)))
         = VL [VS (rid r); VS h; VS (sl d oi oj)].
Proof.
  intros Hmode Hwf Hnd k f rs1 r rs2 Hk Hrs.
  destruct f as [[crlf final] rs]. cbn [g_recs snd] in Hrs. subst rs.
  destruct (index_get_spec_all mode fs Hmode Hwf Hnd) as [_ [_ HA]].
  destruct (HA k crlf final rs1 r rs2 Hk) as [_ [_ [A0 AR]]].
  rewrite Forall_forall in Hwf. pose proof (Hwf _ (nth_error_In _ _ Hk)) as [_ Hall]. cbn [g_strip g_crlf g_recs fst snd] in Hall.
  exists (map (fun r => (Some (rid r), hdr crlf r, upper (rseq r))) (rs1 ++ r :: rs2)), (hdr crlf r), (upper (rseq r)).
  split; [apply (read_file mode crlf final _ Hall)|]. split.
  - rewrite nth_error_map, nth_error_app2, Nat.sub_diag by lia. reflexivity.
  - split; [exact A0|]. intros oi oj Hij. rewrite (AR oi oj Hij), upper_sl. reflexivity.
Qed.
