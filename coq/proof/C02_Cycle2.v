(* C02 proofs, part 11: for every feature list of the round-trip domain, the text written after reading back is the
   text that was read (second cycle byte-identical). *)
From Coq Require Import List ZArith NArith Bool Lia.
From Coq.Strings Require Import Byte.
Import ListNotations.
From SV Require Import Text G_gff C02_Model C02_Lemmas C02_Line C02_Dict C02_Feat C02_Read C02_Upd C02_Fix C02_Cycle.
Local Open Scope Z_scope.

(* ------------------------------------------------------------------ copyattrs: aliases in and out *)
Section Copy.
  Variable A : adict.
  Definition stepM (m : adict) (p : str * str) : adict := match aget (fst p) A with Some v => aset (snd p) v m | None => m end.
  Lemma str_neq_eqb a b : a <> b -> str_eqb a b = false.
  Proof. intros N. destruct (str_eqb a b) eqn:E; [apply str_eqb_eq in E; contradiction|reflexivity]. Qed.
  Lemma fold_m_other ps : forall m0 k, ~ In k (map snd ps) -> aget k (fold_left stepM ps m0) = aget k m0.
  Proof.
    induction ps as [|q ps IH]; intros m0 k N; [reflexivity|]. cbn [fold_left]. rewrite IH by (intros H; apply N; right; exact H).
    unfold stepM. destruct (aget (fst q) A); [|reflexivity]. apply aget_aset_other. apply str_neq_eqb. intros E. apply N. left. exact E.
  Qed.
  Lemma fold_m_in ps : forall m0 p, NoDup (map snd ps) -> In p ps ->
    aget (snd p) (fold_left stepM ps m0) = match aget (fst p) A with Some v => Some v | None => aget (snd p) m0 end.
  Proof.
    induction ps as [|q ps IH]; intros m0 p ND Hin; [contradiction|]. cbn [map] in ND. inversion ND as [|? ? Nq ND']; subst.
    cbn [fold_left]. destruct Hin as [<-|Hin].
    - rewrite (fold_m_other ps _ _ Nq). unfold stepM. destruct (aget (fst q) A); [apply aget_aset_same|reflexivity].
    - rewrite (IH _ p ND' Hin). destruct (aget (fst p) A); [reflexivity|].
      unfold stepM. destruct (aget (fst q) A); [|reflexivity]. apply aget_aset_other. apply str_neq_eqb.
      intros E. apply Nq. rewrite E. apply in_map. exact Hin.
  Qed.
  Lemma fold_g_id (m : adict) ps : (forall p, In p ps -> aget (snd p) m = aget (fst p) A) ->
    fold_left (fun g p => match aget (snd p) m with Some v => aset (fst p) v g | None => g end) ps A = A.
  Proof.
    induction ps as [|q ps IH]; intros H; [reflexivity|]. cbn [fold_left]. rewrite (H q (or_introl eq_refl)).
    destruct (aget (fst q) A) as [v|] eqn:G; [rewrite (aset_same_val _ _ _ G)|]; apply IH; intros p Hp; apply H; right; exact Hp.
  Qed.
  Lemma copy_nodup : NoDup (map snd copyattrs).
  Proof.
    unfold copyattrs. cbn [map snd]. repeat (constructor; [cbn [In]; intros H; repeat (destruct H as [H|H]; [discriminate H|]); exact H|]). constructor.
  Qed.

  Theorem copy_fold ty : aget k_type A = None ->
    let m := fold_left stepM copyattrs (opt_entry k_type ty) in
    fold_left (fun g p => match aget (snd p) m with Some v => aset (fst p) v g | None => g end) copyattrs A = oaset k_type ty A
    /\ aget k_type m = ty.
  Proof.
    intros HT m.
    assert (aget k_type m = ty) as Ty.
    { unfold m. change k_type with (snd (k_type, k_type)) at 1. rewrite (fold_m_in copyattrs _ (k_type, k_type) copy_nodup).
      - cbn [fst snd]. rewrite HT. destruct ty; cbn [opt_entry aget]; [rewrite str_eqb_refl|]; reflexivity.
      - unfold copyattrs. cbn. tauto. }
    split; [|exact Ty].
    rewrite copyattrs_last at 1. rewrite fold_left_app. rewrite fold_g_id.
    - cbn [fold_left fst snd]. rewrite Ty. destruct ty; reflexivity.
    - intros p Hp. unfold m. rewrite (fold_m_in copyattrs _ p copy_nodup).
      + destruct (aget (fst p) A); [reflexivity|]. unfold copyattrs in Hp. cbn [firstn] in Hp.
        repeat (destruct Hp as [<-|Hp]; [destruct ty; reflexivity|]). contradiction.
      + rewrite copyattrs_last. apply in_or_app. left. exact Hp.
  Qed.
End Copy.

(* ------------------------------------------------------------------ the writer on any feature whose merged dict is known *)
Lemma write_feat_gen ft g l0 rest :
  merged_gff ft = g -> mdict_ok g = true -> flocs ft = l0 :: rest -> lgff l0 = None ->
  (aget k_type g = None -> aget k_type (fmeta ft) = None) ->
  write_feat ft = concat_opt (line_opts g l0 rest).
Proof.
  intros Eg Mg Hl Nm Ht. unfold write_feat, write_feat_r. change (merged_gff_r random_id ft) with (merged_gff ft). rewrite Eg, Hl.
  assert (loc_meta g l0 = g) as E0 by (unfold loc_meta; rewrite Nm; reflexivity).
  rewrite E0. destruct (m_seqid _ Mg) as [E1 _]. destruct (m_type _ Mg) as [E3 C3].
  rewrite (qcol_ok _ _ E1), E3.
  destruct (ocol k_type g) as [t|] eqn:Ot; cbn [option_map].
  - destruct C3 as [_ [Nt _]]. assert (truthy (AS t) = true) as Tt by (destruct t; [congruence|reflexivity]).
    rewrite Tt. unfold line_opts, idv_of, dline_i, differs. rewrite Ot. cbn [py_str sid_back]. reflexivity.
  - rewrite (Ht E3). unfold line_opts, idv_of, dline_i, differs. rewrite Ot. cbn [sid_back]. reflexivity.
Qed.

(* ------------------------------------------------------------------ the feature read back *)
Definition Nf (ft : feat) : feat := copy_attrs_in (asm_f ft).

Lemma ocol_g1 g k : keys_unique g = true -> ocol k (g1_of g) = ocol k g.
Proof. intros U. unfold ocol. rewrite (aget_g1 g k U). reflexivity. Qed.
Lemma idv_g1 g : keys_unique g = true -> idv_of (g1_of g) = idv_of g.
Proof. intros U. unfold idv_of. rewrite (aget_g1 g _ U). reflexivity. Qed.

Definition rt_feat (ft : feat) : Prop :=
  feat_ok ft = true /\ normalised ft = true /\ locs_sorted (flocs ft) = true /\ forallb loc_plain (flocs ft) = true.

Theorem write_Nf ft : rt_feat ft -> write_feat (Nf ft) = write_feat ft.
Proof.
  intros [W [Nm [Hs Hp]]]. pose proof (g0_ok ft W) as Mg. set (g := g0 ft) in *.
  assert (keys_unique g = true) as U by (unfold mdict_ok in Mg; apply andb_prop in Mg; tauto).
  destruct (flocs ft) as [|l0 rest] eqn:Hl; [discriminate Hs|].
  assert (lgff l0 = None) as N0 by (unfold normalised in Nm; rewrite Hl in Nm; destruct (lgff l0); [discriminate Nm|reflexivity]).
  assert (loc_meta g l0 = g) as E0 by (unfold loc_meta; rewrite N0; reflexivity).
  rewrite (write_feat_eq ft l0 rest W Nm Hl). fold g.
  destruct (feat_ok_parts ft W) as [_ [_ [_ [_ [Hlocs _]]]]]. rewrite Hl in Hlocs. cbn [forallb] in Hlocs, Hp.
  apply andb_prop in Hlocs. destruct Hlocs as [_ Hrest]. apply andb_prop in Hp. destruct Hp as [_ Hprest].
  assert (rest <> [] -> aget k_ID g = Some (idv_of g)) as Hid.
  { intros NE. destruct (multi_has_id ft W) as [v Hv]; [rewrite Hl; destruct rest; [congruence|cbn; lia]|].
    unfold idv_of. fold g in Hv. rewrite Hv. reflexivity. }
  (* shape of the feature read back *)
  assert (asm_f ft = asm g l0 rest) as Ea by (unfold asm_f; rewrite Hl; reflexivity).
  pose proof (A0_form g l0 Mg E0) as EA.
  destruct (m_type g Mg) as [ET _].
  assert (aget k_type (A0_of g) = None) as TA.
  { rewrite <- (aget_oaset_other k_phase k_type None (A0_of g) eq_refl). unfold A0_of, asets.
    rewrite !aget_oaset_other by reflexivity. destruct (pop5_aget_col g U) as [_ [_ [_ [_ P5]]]]. exact P5. }
  destruct (copy_fold (A0_of g) (aget k_type g) TA) as [CF1 CF2].
  set (rest1 := map (fun l => merge_loc (A0_of g) (gl_of g (dline_i g (idv_of g) l) l)) rest).
  set (l01 := g_loc (gl_of g (pop5 g) l0)).
  assert (fgff (Nf ft) = Some (A0_of g) /\ flocs (Nf ft) = l01 :: rest1 /\
          fmeta (Nf ft) = fold_left (stepM (A0_of g)) copyattrs (opt_entry k_type (aget k_type g))) as [Fg [Fl Fm]].
  { unfold Nf. rewrite Ea. unfold asm, copy_attrs_in. cbn [fgff flocs fmeta getgff]. rewrite EA. repeat split.
    unfold stepM. f_equal. rewrite ET. destruct (ocol k_type g); reflexivity. }
  assert (merged_gff (Nf ft) = g1_of g) as Em.
  { unfold merged_gff, merged_gff_r, getgff. rewrite Fg, Fm, Fl. rewrite CF1. fold (g1_of g).
    destruct (Nat.ltb 1 (length (l01 :: rest1))) eqn:L; [|reflexivity].
    assert (rest <> []) as NE by (intros E; subst rest; unfold rest1 in L; cbn in L; discriminate L).
    rewrite (aget_g1 g k_ID U), (Hid NE). reflexivity. }
  rewrite (write_feat_gen (Nf ft) (g1_of g) l01 rest1 Em (g1_ok g Mg) Fl eq_refl).
  2:{ intros H. rewrite Fm, CF2. rewrite (aget_g1 g k_type U) in H. exact H. }
  f_equal. unfold line_opts. rewrite !(ocol_g1 g _ U), (idv_g1 g U), (pop5_g1 g U). f_equal.
  - unfold write_line_s. rewrite (qcol_ext k_source _ _ (aget_g1 g k_source U)). destruct (qcol k_source g); [|reflexivity].
    apply write_line_ext; try reflexivity; rewrite !aget_pop3 by reflexivity; apply (aget_g1 g _ U).
  - unfold rest1. rewrite map_map. apply map_ext_in. intros l Hin.
    assert (rest <> []) as NE by (intros E; subst rest; contradiction).
    rewrite forallb_forall in Hrest, Hprest.
    apply (line_same g l (idv_of g) Mg (Hrest l Hin) (Hprest l Hin) (Hid NE)).
Qed.

(* ------------------------------------------------------------------ the feature read back means the same *)
Lemma Nf_shape ft l0 rest : rt_feat ft -> flocs ft = l0 :: rest ->
  merged_gff (Nf ft) = g1_of (g0 ft) /\
  flocs (Nf ft) = g_loc (gl_of (g0 ft) (pop5 (g0 ft)) l0)
                  :: map (fun l => merge_loc (A0_of (g0 ft)) (gl_of (g0 ft) (dline_i (g0 ft) (idv_of (g0 ft)) l) l)) rest.
Proof.
  intros [W [Nm [Hs Hp]]] Hl. pose proof (g0_ok ft W) as Mg. set (g := g0 ft) in *.
  assert (keys_unique g = true) as U by (unfold mdict_ok in Mg; apply andb_prop in Mg; tauto).
  assert (lgff l0 = None) as N0 by (unfold normalised in Nm; rewrite Hl in Nm; destruct (lgff l0); [discriminate Nm|reflexivity]).
  assert (loc_meta g l0 = g) as E0 by (unfold loc_meta; rewrite N0; reflexivity).
  assert (rest <> [] -> aget k_ID g = Some (idv_of g)) as Hid.
  { intros NE. destruct (multi_has_id ft W) as [v Hv]; [rewrite Hl; destruct rest; [congruence|cbn; lia]|].
    unfold idv_of. fold g in Hv. rewrite Hv. reflexivity. }
  assert (asm_f ft = asm g l0 rest) as Ea by (unfold asm_f; rewrite Hl; reflexivity).
  pose proof (A0_form g l0 Mg E0) as EA. destruct (m_type g Mg) as [ET _].
  assert (aget k_type (A0_of g) = None) as TA.
  { unfold A0_of, asets. rewrite !aget_oaset_other by reflexivity. destruct (pop5_aget_col g U) as [_ [_ [_ [_ P5]]]]. exact P5. }
  destruct (copy_fold (A0_of g) (aget k_type g) TA) as [CF1 CF2].
  set (rest1 := map (fun l => merge_loc (A0_of g) (gl_of g (dline_i g (idv_of g) l) l)) rest).
  set (l01 := g_loc (gl_of g (pop5 g) l0)).
  assert (fgff (Nf ft) = Some (A0_of g) /\ flocs (Nf ft) = l01 :: rest1 /\
          fmeta (Nf ft) = fold_left (stepM (A0_of g)) copyattrs (opt_entry k_type (aget k_type g))) as [Fg [Fl Fm]].
  { unfold Nf. rewrite Ea. unfold asm, copy_attrs_in. cbn [fgff flocs fmeta getgff]. rewrite EA. repeat split.
    unfold stepM. f_equal. rewrite ET. destruct (ocol k_type g); reflexivity. }
  split; [|exact Fl].
  unfold merged_gff, merged_gff_r, getgff. rewrite Fg, Fm, Fl. rewrite CF1. fold (g1_of g).
  destruct (Nat.ltb 1 (length (l01 :: rest1))) eqn:L; [|reflexivity].
  assert (rest <> []) as NE by (intros E; subst rest; unfold rest1 in L; cbn in L; discriminate L).
  rewrite (aget_g1 g k_ID U), (Hid NE). reflexivity.
Qed.

Lemma same_map_ext a b : keys_unique a = true -> keys_unique b = true -> (forall k, aget k a = aget k b) -> same_map a b = true.
Proof.
  intros Ua Ub H. unfold same_map. apply andb_true_intro. split; apply forallb_forall; intros [k v] Hin; cbn [fst snd].
  - rewrite <- H, (In_aget k v a Ua Hin). cbn. apply aval_eqb_eq. reflexivity.
  - rewrite H, (In_aget k v b Ub Hin). cbn. apply aval_eqb_eq. reflexivity.
Qed.
Lemma aget_apop_same k d : keys_unique d = true -> aget k (apop k d) = None.
Proof. intros U. apply aget_none_in_keys. apply in_keys_apop_same. exact U. Qed.
Lemma apop_type_ext a b : keys_unique a = true -> keys_unique b = true -> (forall k, str_eqb k_type k = false -> aget k a = aget k b) ->
  same_map (apop k_type a) (apop k_type b) = true.
Proof.
  intros Ua Ub H. apply same_map_ext; try (apply keys_unique_apop; assumption).
  intros k. destruct (str_eqb k_type k) eqn:E.
  - apply str_eqb_eq in E. subst k. rewrite !aget_apop_same by assumption. reflexivity.
  - rewrite !aget_apop_other by exact E. apply H. exact E.
Qed.

Theorem same_Nf ft : rt_feat ft -> same_feat ft (Nf ft) = true.
Proof.
  intros R. pose proof R as [W [Nm [Hs Hp]]]. pose proof (g0_ok ft W) as Mg.
  assert (keys_unique (g0 ft) = true) as U by (unfold mdict_ok in Mg; apply andb_prop in Mg; tauto).
  destruct (flocs ft) as [|l0 rest] eqn:Hl; [discriminate Hs|].
  destruct (Nf_shape ft l0 rest R Hl) as [Em Fl].
  assert (lgff l0 = None) as N0 by (unfold normalised in Nm; rewrite Hl in Nm; destruct (lgff l0); [discriminate Nm|reflexivity]).
  pose proof (g1_ok _ Mg) as Mg1. assert (keys_unique (g1_of (g0 ft)) = true) as U1' by (unfold mdict_ok in Mg1; apply andb_prop in Mg1; tauto).
  unfold same_feat. rewrite Em, (merged_is_g0 ft W), (aget_g1 _ k_type U), Hl, Fl. apply andb_true_intro. split.
  - destruct (aget k_type (g0 ft)); [apply aval_eqb_eq|]; reflexivity.
  - cbn [all2]. apply andb_true_intro. split.
    + unfold same_loc, eff_attrs. rewrite Em, (merged_is_g0 ft W). cbn [lstart lstop lstrand g_loc gl_of].
      rewrite !Z.eqb_refl, byte_eqb_refl. cbn [andb]. unfold loc_meta at 1 2. rewrite N0. cbn [lgff].
      apply apop_type_ext; try assumption. intros k _. symmetry. apply aget_g1. exact U.
    + destruct (feat_ok_parts ft W) as [_ [_ [_ [_ [Hlocs _]]]]]. rewrite Hl in Hlocs. cbn [forallb] in Hlocs, Hp.
      apply andb_prop in Hlocs. destruct Hlocs as [_ Hrest]. apply andb_prop in Hp. destruct Hp as [_ Hprest].
      assert (rest <> [] -> aget k_ID (g0 ft) = Some (idv_of (g0 ft))) as Hid.
      { intros NE. destruct (multi_has_id ft W) as [v Hv]; [rewrite Hl; destruct rest; [congruence|cbn; lia]|].
        unfold idv_of. rewrite Hv. reflexivity. }
      clear Hl Fl Hs. induction rest as [|l r IH]; [reflexivity|]. cbn [map all2 forallb] in *.
      apply andb_prop in Hrest. destruct Hrest as [Hl1 Hr]. apply andb_prop in Hprest. destruct Hprest as [Hp1 Hpr].
      assert (aget k_ID (g0 ft) = Some (idv_of (g0 ft))) as Hv by (apply Hid; discriminate).
      apply andb_true_intro. split; [|apply IH; try assumption; intros _; exact Hv].
      unfold same_loc, eff_attrs. rewrite Em, (merged_is_g0 ft W). cbn [lstart lstop lstrand merge_loc g_loc gl_of].
      rewrite !Z.eqb_refl, byte_eqb_refl. cbn [andb].
      change (merge_loc (A0_of (g0 ft)) (gl_of (g0 ft) (dline_i (g0 ft) (idv_of (g0 ft)) l) l)) with (l1 (g0 ft) l (idv_of (g0 ft))).
      rewrite (l1_meta (g0 ft) l (idv_of (g0 ft))).
      pose proof (locmeta_ok _ l Mg Hl1) as Mm. assert (keys_unique (loc_meta (g0 ft) l) = true) as Um by (unfold mdict_ok in Mm; apply andb_prop in Mm; tauto).
      apply apop_type_ext; [exact Um|apply keys_unique_aupdate; exact U1'|].
      intros k _. rewrite (aget_aupdate _ _ _ (D_unique (g0 ft) l (idv_of (g0 ft)) Mg Hl1 Hv)), (aget_g1 _ k U).
      symmetry. apply (aget_eff (g0 ft) l (idv_of (g0 ft)) Mg Hl1 Hp1 Hv).
Qed.

(* ------------------------------------------------------------------ whole feature lists *)
Lemma rt_good ft : rt_feat ft -> good ft.
Proof. intros [W [Nm [Hs _]]]. repeat split; assumption. Qed.

Theorem cycle_main x : Forall rt_feat x -> adjacent_distinct x = true ->
  exists w1, cycle2 x = Some (w1, map Nf x, w1) /\ fix2 x = true /\ roundtrip_ok x = true.
Proof.
  intros R Adj.
  destruct (read_write x (Forall_impl good rt_good R) Adj) as [w1 [Ww Rw]].
  change (map (fun f => copy_attrs_in (asm_f f)) x) with (map Nf x) in Rw.
  assert (write_gff (map Nf x) = Some w1) as W2.
  { rewrite <- Ww. unfold write_gff. f_equal. f_equal. rewrite map_map. apply map_ext_in. intros f Hin.
    rewrite Forall_forall in R. apply write_Nf. apply R. exact Hin. }
  assert (cycle2 x = Some (w1, map Nf x, w1)) as C by (unfold cycle2; rewrite Ww, Rw, W2; reflexivity).
  exists w1. split; [exact C|]. split.
  - unfold fix2. rewrite C. apply str_eqb_refl.
  - unfold roundtrip_ok. rewrite C. clear -R. induction R as [|f x Rf _ IH]; [reflexivity|].
    cbn [map all2]. rewrite (same_Nf f Rf), IH. reflexivity.
Qed.

(* the same with the boolean domain predicates of the model *)
Theorem gff_roundtrip_fix x :
  wf_C02 x = true -> rt_C02 x = true -> (forall f, In f x -> loc_tuple (flocs f) = Some (flocs f)) ->
  fix2 x = true /\ roundtrip_ok x = true.
Proof.
  intros W R S. unfold rt_C02 in R. rewrite !andb_true_iff in R. destruct R as [[R1 R2] R3].
  destruct (cycle_main x) as [w1 [_ H]]; [|exact R2|exact H].
  apply Forall_forall. intros f Hin. unfold wf_C02 in W. rewrite forallb_forall in W, R1, R3.
  repeat split; auto. apply loc_tuple_fix_sorted. apply S. exact Hin.
Qed.

(* reading what was written: one feature per feature, locations in the same order with the same coordinates and strand *)
Theorem read_write_shape x : Forall rt_feat x -> adjacent_distinct x = true ->
  exists w1 x1, write_gff x = Some w1 /\ read_gff w1 = Some x1 /\ length x1 = length x /\
    Forall2 (fun f f1 => map (fun l => (lstart l, lstop l, lstrand l)) (flocs f1) = map (fun l => (lstart l, lstop l, lstrand l)) (flocs f)) x x1.
Proof.
  intros R Adj. destruct (cycle_main x R Adj) as [w1 [C _]]. unfold cycle2 in C.
  destruct (write_gff x) as [w|] eqn:Ww; [|discriminate C]. destruct (read_gff w) as [x1|] eqn:Rw; [|discriminate C].
  destruct (write_gff x1) as [w2|]; [|discriminate C]. inversion C; subst.
  exists w1, (map Nf x). split; [reflexivity|]. split; [exact Rw|]. split; [apply map_length|].
  clear -R. induction R as [|f x Rf _ IH]; [constructor|]. cbn [map]. constructor; [|exact IH].
  pose proof Rf as [W [Nm [Hs Hp]]]. destruct (flocs f) as [|l0 rest] eqn:Hl; [discriminate Hs|].
  destruct (Nf_shape f l0 rest Rf Hl) as [_ Fl]. rewrite Fl. cbn [map]. f_equal. rewrite map_map. reflexivity.
Qed.

(* the aliases Feature.meta.name / id / score / evalue / seqid / phase / type after reading are the GFF attributes *)
Theorem aliases_copied f p : In p copyattrs ->
  aget (snd p) (fmeta (copy_attrs_in f)) = match aget (fst p) (getgff f) with Some v => Some v | None => aget (snd p) (fmeta f) end.
Proof. intros Hin. unfold copy_attrs_in. cbn [fmeta]. apply (fold_m_in (getgff f) copyattrs (fmeta f) p copy_nodup Hin). Qed.
