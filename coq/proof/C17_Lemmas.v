From Coq Require Import List ZArith NArith Bool Lia.
From Coq.Strings Require Import Byte.
Import ListNotations.
From SV Require Import Text C05_Model C17_Model G_gc_ids G_gc_prt G_gc_all.
Open Scope N_scope.

Lemma in_all_codons c : c < 3375 -> In c all_codons.
Proof.
  intros H. unfold all_codons. apply in_map_iff. exists (N.to_nat c). split; [apply N2Nat.id|].
  apply in_seq. lia.
Qed.

Lemma table_ok t : In t all_tables -> check_table_prt t = true.
Proof. intros H. pose proof all_tables_ok as A. rewrite forallb_forall in A. exact (A t H). Qed.

(* unpack the boolean check into the clauses of the property *)
Lemma table_spec t : In t all_tables ->
  exists name aa sc, lookup_prt (t_id t) prt_tables = Some (name, aa, sc) /\ t_key t = t_id t /\
  forall c, c < 3375 ->
    lookupNb c (t_tt t) = allsame (map (aa_at aa) (expand c)) /\
    memN c (t_astops t) = (negb (unamb c) && existsb (is_stop_ix sc) (expand c)) /\
    memN c (t_astarts t) = (negb (unamb c) && existsb (is_start_ix sc) (expand c)) /\
    memN c (t_stops t) = (unamb c && existsb (is_stop_ix sc) (expand c)) /\
    memN c (t_starts t) = (unamb c && existsb (is_start_ix sc) (expand c)) /\
    ttinv_fwd_ok aa t c = true.
Proof.
  intros H. pose proof (table_ok t H) as A. unfold check_table_prt in A.
  apply andb_prop in A. destruct A as [K A]. apply N.eqb_eq in K.
  destruct (lookup_prt (t_id t) prt_tables) as [[[name aa] sc]|]; [|discriminate].
  exists name, aa, sc. split; [reflexivity|]. split; [exact K|].
  intros c Hc. unfold check_table in A.
  do 8 (apply andb_prop in A; destruct A as [A ?]).
  rewrite forallb_forall in A. specialize (A c (in_all_codons c Hc)).
  unfold check_codon in A. do 5 (apply andb_prop in A; destruct A as [A ?]).
  unfold tt_ok, astops_ok, astarts_ok, stops_ok, starts_ok in *.
  repeat match goal with Hx : Bool.eqb _ _ = true |- _ => apply Bool.eqb_prop in Hx end.
  assert (E: lookupNb c (t_tt t) = allsame (map (aa_at aa) (expand c))).
  { destruct (lookupNb c (t_tt t)) as [x|], (allsame (map (aa_at aa) (expand c))) as [y|]; simpl in A; try discriminate; try reflexivity.
    apply byte_eqb_eq in A. congruence. }
  repeat split; assumption.
Qed.

Lemma ttinv_entries t : In t all_tables ->
  exists name aa sc, lookup_prt (t_id t) prt_tables = Some (name, aa, sc) /\
  forall a cs, In (a, cs) (t_ttinv t) -> cs <> [] /\
    forall c, In c cs -> c < 3375 /\ unamb c = true /\ exists i, expand c = [i] /\ aa_at aa i = a.
Proof.
  intros H. pose proof (table_ok t H) as A. unfold check_table_prt in A.
  apply andb_prop in A. destruct A as [_ A].
  destruct (lookup_prt (t_id t) prt_tables) as [[[name aa] sc]|]; [|discriminate].
  exists name, aa, sc. split; [reflexivity|].
  intros a cs Hin. unfold check_table in A.
  do 8 (apply andb_prop in A; destruct A as [A ?]).
  match goal with Hx : forallb (ttinv_entry_ok aa) _ = true |- _ => rewrite forallb_forall in Hx; specialize (Hx _ Hin); rename Hx into E end.
  unfold ttinv_entry_ok in E. apply andb_prop in E. destruct E as [E1 E2].
  split; [destruct cs; [discriminate|congruence]|].
  intros c Hc. rewrite forallb_forall in E2. specialize (E2 c Hc).
  apply andb_prop in E2. destruct E2 as [E2 E3]. apply andb_prop in E2. destruct E2 as [E2 E4].
  apply N.ltb_lt in E2. split; [exact E2|]. split; [exact E4|].
  destruct (expand c) as [|i [|j r]]; try discriminate. exists i. split; [reflexivity|]. apply byte_eqb_eq. exact E3.
Qed.

Lemma ids_spec : (forall t, In t all_tables -> exists v, lookup_prt (t_key t) prt_tables = Some v) /\
  (forall i, In i (map fst prt_tables) -> In i (map t_key all_tables)) /\ length all_tables = length prt_tables
  /\ map t_key all_tables = json_ids.
Proof.
  pose proof all_ids_ok as A. unfold ids_match in A.
  apply andb_prop in A. destruct A as [A L]. apply andb_prop in A. destruct A as [A B].
  split; [|split; [|split]].
  - intros t Ht. pose proof (table_ok t Ht) as C. unfold check_table_prt in C.
    apply andb_prop in C. destruct C as [K C]. apply N.eqb_eq in K. rewrite K.
    destruct (lookup_prt (t_id t) prt_tables) as [v|]; [eexists; reflexivity|discriminate].
  - intros i Hi. rewrite forallb_forall in B. specialize (B i Hi). unfold memN in B.
    apply existsb_exists in B. destruct B as (x & Hx & E). apply N.eqb_eq in E. subst. exact Hx.
  - apply Nat.eqb_eq. exact L.
  - vm_compute. reflexivity.
Qed.
