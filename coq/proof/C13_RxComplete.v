(* C13: completeness of the regex-tree matcher and of finditer over it: wherever a string of the language of the pattern begins,
   the matcher finds a match (possibly another one of higher priority), and no occurrence lies outside the reported spans. *)
From Coq Require Import List ZArith NArith Bool Lia.
From Coq.Strings Require Import Byte.
Import ListNotations.
From SV Require Import Text G_codes C05_Model C13_Model C13_Rx C13_Lemmas C13_RxLemmas.

Lemma lang_nonnull r t : lang r t -> nullable r = false -> t <> [].
Proof.
  induction 1; cbn [nullable]; intros Hn; try discriminate.
  - apply andb_false_iff in Hn. destruct Hn as [Hn|Hn].
    + intros E. apply app_eq_nil in E. destruct E as [E _]. now apply IHlang1.
    + intros E. apply app_eq_nil in E. destruct E as [_ E]. now apply IHlang2.
  - apply orb_false_iff in Hn. destruct Hn as [Hn _]. now apply IHlang.
  - apply orb_false_iff in Hn. destruct Hn as [_ Hn]. now apply IHlang.
  - intros E. apply app_eq_nil in E. destruct E as [E _]. now apply IHlang1.
  - now apply IHlang.
Qed.

Definition mcomplete (r : rx) : Prop :=
  forall t, lang r t -> forall u k, k u <> None -> mrx r (t ++ u) k <> None.

Lemma star_loop_complete a : nullable a = false -> mcomplete a ->
  forall t, lang (XStar a) t -> forall fuel u k, (length t < fuel)%nat -> k u <> None ->
  star_loop (mrx a) k fuel (t ++ u) <> None.
Proof.
  intros Hn Ha t Ht. remember (XStar a) as r eqn:Er. induction Ht; inversion Er; subst; intros fuel u0 k Hf Hk.
  - destruct fuel as [|f]; [exact Hk|]. rewrite star_loop_S. cbn [app].
    destruct (mrx a u0 _); [discriminate|exact Hk].
  - clear IHHt1. specialize (IHHt2 eq_refl).
    assert (Hne : t <> []) by (eapply lang_nonnull; eauto).
    destruct fuel as [|f]; [lia|]. rewrite star_loop_S. rewrite <- app_assoc.
    match goal with |- context [mrx a ?s ?kk] => assert (Hc : mrx a s kk <> None) end.
    { apply Ha; [exact Ht1|].
      rewrite !app_length. destruct t as [|x t']; [congruence|]. cbn [length].
      replace (length u + length u0 <? S (length t') + (length u + length u0))%nat with true by (symmetry; apply Nat.ltb_lt; lia).
      apply IHHt2; [|exact Hk]. rewrite app_length in Hf. cbn [length] in Hf. lia. }
    destruct (mrx a _ _); [discriminate|congruence].
Qed.

Lemma mrx_complete r : rx_ok r = true -> mcomplete r.
Proof.
  induction r; cbn [rx_ok]; intros Hok t Ht u k Hk.
  - apply lang_chr_inv in Ht. subst t. cbn. rewrite byte_eqb_refl. destruct (k u); [discriminate|congruence].
  - assert (Hd : exists x, t = [x] /\ x <> cnl) by (inversion Ht; subst; eauto). destruct Hd as (x & -> & Hx).
    cbn. apply byte_eqb_neq in Hx. rewrite Hx. destruct (k u); [discriminate|congruence].
  - apply lang_cls_inv in Ht. destruct Ht as (x & -> & Hx). cbn. rewrite Hx, eqb_reflx. destruct (k u); [discriminate|congruence].
  - apply andb_prop in Hok. destruct Hok as [Hok _]. apply andb_prop in Hok. destruct Hok as [Hok _].
    apply andb_prop in Hok. destruct Hok as [Hok1 Hok2].
    apply lang_cat_inv in Ht. destruct Ht as (t1 & t2 & -> & H1 & H2). cbn [mrx]. rewrite <- app_assoc.
    apply (IHr1 Hok1 t1 H1). now apply (IHr2 Hok2 t2 H2).
  - apply andb_prop in Hok. destruct Hok as [Hok1 Hok2]. cbn [mrx]. apply lang_alt_inv in Ht.
    destruct (mrx r1 (t ++ u) k) eqn:E; [discriminate|]. destruct Ht as [Ht|Ht].
    + exfalso. now apply (IHr1 Hok1 t Ht u k Hk).
    + now apply (IHr2 Hok2 t Ht).
  - apply andb_prop in Hok. destruct Hok as [Hok Hn]. apply andb_prop in Hok. destruct Hok as [Hok _]. apply negb_true_iff in Hn.
    cbn [mrx]. apply (star_loop_complete r Hn (IHr Hok) t Ht); [rewrite app_length; lia|exact Hk].
  - apply andb_prop in Hok. destruct Hok as [Hok Hn]. apply andb_prop in Hok. destruct Hok as [Hok _]. apply negb_true_iff in Hn.
    apply lang_plus_inv in Ht. destruct Ht as (t1 & t2 & -> & H1 & H2). cbn [mrx]. rewrite <- app_assoc.
    apply (IHr Hok t1 H1). apply (star_loop_complete r Hn (IHr Hok) t2 H2); [rewrite app_length; lia|exact Hk].
  - apply andb_prop in Hok. destruct Hok as [Hok _]. apply andb_prop in Hok. destruct Hok as [Hok _].
    cbn [mrx]. apply lang_opt_inv in Ht. destruct (mrx r (t ++ u) k) eqn:E; [discriminate|]. destruct Ht as [->|Ht].
    + exact Hk.
    + exfalso. now apply (IHr Hok t Ht u k Hk).
  - apply lang_grp_inv in Ht. cbn [mrx]. now apply (IHr Hok).
Qed.

Lemma m_rx_complete r t u : rx_ok r = true -> lang r t -> m_rx r (t ++ u) <> None.
Proof. intros Hok Ht. unfold m_rx. apply (mrx_complete r Hok t Ht). discriminate. Qed.

(* a reported match of a pattern that cannot match the empty string is not empty *)
Lemma m_rx_pos r s n : nullable r = false -> m_rx r s = Some n -> (0 < n)%nat.
Proof.
  intros Hn H. apply m_rx_sound in H. destruct H as [_ H]. apply lang_nonnull in H; [|exact Hn].
  destruct n; [now destruct s|lia].
Qed.

(* leftmost completeness of finditer over any matcher whose matches are not empty *)
Lemma finditer_m_complete (m : str -> option nat) s : forall pos skip p n, (skip <= p)%nat ->
  m (skipn p s) = Some (S n) -> (forall s' k, m s' = Some k -> (0 < k <= length s')%nat) ->
  exists b e, In (b, e) (finditer_m m s pos skip) /\ (b <= pos + p)%nat /\ (pos + p < e)%nat.
Proof.
  induction s as [|x s IH]; intros pos skip p n Hp H Hm.
  - rewrite skipn_nil in H. apply Hm in H. cbn in H. lia.
  - cbn [finditer_m]. destruct skip as [|k].
    + destruct (m (x :: s)) as [[|j]|] eqn:E.
      * apply Hm in E. lia.
      * destruct (Nat.le_gt_cases p j) as [Hle|Hgt].
        -- exists pos, (pos + S j)%nat. split; [left; reflexivity|lia].
        -- destruct p as [|p]; [lia|]. cbn [skipn] in H.
           destruct (IH (S pos) j p n ltac:(lia) H Hm) as (b & e & Hi & H1 & H2). exists b, e. split; [right; exact Hi|lia].
      * destruct p as [|p]; [cbn in H; congruence|]. cbn [skipn] in H.
        destruct (IH (S pos) 0%nat p n ltac:(lia) H Hm) as (b & e & Hi & H1 & H2). exists b, e. repeat split; auto; lia.
    + destruct p as [|p]; [lia|]. cbn [skipn] in H.
      destruct (IH (S pos) k p n ltac:(lia) H Hm) as (b & e & Hi & H1 & H2). exists b, e. repeat split; auto; lia.
Qed.

(* every occurrence of the pattern (a string of its language beginning at column p) is reported or lies inside a reported
   match that begins at or before p *)
Theorem rx_occurrence_covered r s t u p : rx_ok r = true -> nullable r = false ->
  lang r t -> skipn p s = t ++ u ->
  exists b e, In (b, e) (finditer_m (m_rx r) s 0 0) /\ (b <= p < e)%nat.
Proof.
  intros Hok Hn Ht Hs.
  assert (Hm : forall s' k, m_rx r s' = Some k -> (0 < k <= length s')%nat).
  { intros s' k H. split; [eapply m_rx_pos; eauto|now apply m_rx_sound in H]. }
  destruct (m_rx r (skipn p s)) as [n|] eqn:E.
  - destruct n as [|n]; [apply Hm in E; lia|].
    destruct (finditer_m_complete (m_rx r) s 0 0 p n ltac:(lia) E Hm) as (b & e & Hi & H1 & H2). exists b, e. split; [exact Hi|lia].
  - exfalso. rewrite Hs in E. now apply (m_rx_complete r t u Hok Ht).
Qed.

Lemma class_is_alternation cs t : lang (XCls false cs) t <-> exists c, In c cs /\ t = [c].
Proof.
  split.
  - intros H. apply lang_cls_inv in H. destruct H as (x & -> & Hx). cbn in Hx. unfold has in Hx. apply existsb_exists in Hx.
    destruct Hx as (c & Hi & He). apply byte_eqb_eq in He. subst c. eauto.
  - intros (c & Hi & ->). constructor. cbn. unfold has. apply existsb_exists. exists c. split; [exact Hi|apply byte_eqb_refl].
Qed.

(* nothing requested is lost, for any matcher: every finditer match at a column >= start whose frame is requested is reported *)
Local Open Scope Z_scope.
Lemma reported_m m s start gap rfn :
  (forall l b e, rfn = Some l -> has_fwd l = true -> In (b, e) (finditer_m m s 0 0) -> start <= Z.of_nat b ->
     In (frame_of (fwd_gaps gap (Some l) s start) start (Z.of_nat b)) l ->
     In (mk_bm (Z.of_nat b) (Z.of_nat e) (slice b e s) (Some (frame_of (fwd_gaps gap (Some l) s start) start (Z.of_nat b))))
        (matchall_m m s rfn start gap)) /\
  (forall b e, rfn = None -> In (b, e) (finditer_m m s 0 0) -> start <= Z.of_nat b ->
     In (mk_bm (Z.of_nat b) (Z.of_nat e) (slice b e s) None) (matchall_m m s rfn start gap)) /\
  (forall l b e, rfn = Some l -> has_bwd l = true -> In (b, e) (finditer_m m (rc s) 0 0) -> start <= Z.of_nat b ->
     In (-1 * frame_of (bwd_gaps gap (rc s) start) start (Z.of_nat b) - 1) l ->
     In (mk_bm (Z.of_nat (length (rc s)) - Z.of_nat e) (Z.of_nat (length (rc s)) - Z.of_nat b) (slice b e (rc s))
           (Some (-1 * frame_of (bwd_gaps gap (rc s) start) start (Z.of_nat b) - 1)))
        (matchall_m m s rfn start gap)).
Proof.
  unfold matchall_m. repeat split.
  - intros l b e -> Hf Hi Hs Hr. apply in_or_app. left. unfold fwd_list_m. cbn [runs_fwd]. rewrite Hf. apply in_filter_map.
    exists (b, e). split.
    + unfold raw_pass_m. apply filter_In. split; [exact Hi|]. cbn. now apply Z.leb_le.
    + unfold fwd_one. apply zmem_In in Hr. rewrite Hr. reflexivity.
  - intros b e -> Hi Hs. apply in_or_app. left. unfold fwd_list_m. cbn [runs_fwd]. apply in_filter_map.
    exists (b, e). split; [|reflexivity]. unfold raw_pass_m. apply filter_In. split; [exact Hi|]. cbn. now apply Z.leb_le.
  - intros l b e -> Hf Hi Hs Hr. apply in_or_app. right. unfold bwd_list_m. rewrite Hf. cbv zeta. apply in_filter_map.
    exists (b, e). split.
    + unfold raw_pass_m. apply filter_In. split; [exact Hi|]. cbn. now apply Z.leb_le.
    + unfold bwd_one. apply zmem_In in Hr. rewrite Hr. reflexivity.
Qed.
