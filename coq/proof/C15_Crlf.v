(* C15 proofs, round 6: white space at the end of lines (blanks, tabs, the "\r" of DOS line ends) does not change what
   is read, and the reader still consumes exactly the alignment. *)
From Coq Require Import List ZArith NArith Bool Arith Lia.
From Coq.Strings Require Import Byte.
Import ListNotations.
From SV Require Import Text G_flags C15_Model C15_Lemmas C15_Read C15_Fold C15_Blocks C15_Handle.

Definition all_ws (t : str) : Prop := forallb is_ws t = true.

Lemma lstrip_all_ws t : all_ws t -> lstrip t = [].
Proof. unfold all_ws. induction t as [|c t IH]; simpl; [reflexivity|]. intros H. apply andb_prop in H. destruct H as [H1 H2]. rewrite H1. apply IH. exact H2. Qed.
Lemma lstrip_ws_app w y : all_ws w -> lstrip (w ++ y) = lstrip y.
Proof. unfold all_ws. induction w as [|c w IH]; simpl; [reflexivity|]. intros H. apply andb_prop in H. destruct H as [H1 H2]. rewrite H1. apply IH. exact H2. Qed.
Lemma lstrip_app_ws l t : all_ws t -> lstrip (l ++ t) = match lstrip l with [] => [] | x => x ++ t end.
Proof.
  intros Ht. induction l as [|c l IH]; cbn [app lstrip].
  - apply lstrip_all_ws. exact Ht.
  - destruct (is_ws c); [exact IH|reflexivity].
Qed.
Lemma all_ws_rev t : all_ws t -> all_ws (rev t).
Proof.
  unfold all_ws. intros H. apply forallb_forall. intros c Hc. apply in_rev in Hc. rewrite forallb_forall in H. apply H. exact Hc.
Qed.
Lemma rstrip_app_ws x t : all_ws t -> rstrip (x ++ t) = rstrip x.
Proof. intros Ht. unfold rstrip. rewrite rev_app_distr, (lstrip_ws_app _ _ (all_ws_rev t Ht)). reflexivity. Qed.

(* str.strip() does not see trailing white space *)
Lemma strip_app_ws l t : all_ws t -> strip (l ++ t) = strip l.
Proof.
  intros Ht. unfold strip. rewrite (lstrip_app_ws l t Ht).
  destruct (lstrip l) as [|c x] eqn:E; [reflexivity|]. apply rstrip_app_ws. exact Ht.
Qed.

Definition ws_tail (t : str) : Prop := all_ws t /\ no_nl t.
Lemma nl_ws : all_ws [NL]. Proof. reflexivity. Qed.
Lemma all_ws_app a b : all_ws a -> all_ws b -> all_ws (a ++ b).
Proof. unfold all_ws. intros Ha Hb. rewrite forallb_app, Ha, Hb. reflexivity. Qed.

Lemma parse_line_tail l t : all_ws t -> parse_line (l ++ t ++ [NL]) = parse_line (addnl l).
Proof.
  intros Ht. unfold parse_line, addnl. rewrite (strip_app_ws l (t ++ [NL])) by (apply all_ws_app; [exact Ht|exact nl_ws]).
  rewrite (strip_app_ws l [NL] nl_ws). reflexivity.
Qed.

(* lines with arbitrary white space before the line end *)
Definition eol_lines (ls tails : list str) : list str := map (fun p => fst p ++ snd p ++ [NL]) (combine ls tails).

Lemma eol_py_lines ls : forall tails rest, Forall no_nl ls -> Forall ws_tail tails -> length tails = length ls ->
  py_lines (concat (eol_lines ls tails) ++ rest) = eol_lines ls tails ++ py_lines rest.
Proof.
  induction ls as [|l ls IH]; intros tails rest Hl Ht Hn; [reflexivity|].
  destruct tails as [|t tails]; [discriminate|]. injection Hn as Hn.
  inversion Hl as [|? ? Hl1 Hl2]; subst. inversion Ht as [|? ? Ht1 Ht2]; subst.
  unfold eol_lines in *. cbn [combine map concat fst snd]. rewrite <- !app_assoc. cbn [app].
  rewrite (app_assoc l t). rewrite (py_lines_line (l ++ t)) by (apply no_nl_app; [exact Hl1|apply Ht1]).
  rewrite IH by assumption. rewrite <- !app_assoc. reflexivity.
Qed.
Lemma eol_parse ls : forall tails, Forall ws_tail tails -> length tails = length ls ->
  map parse_line (eol_lines ls tails) = map pl ls.
Proof.
  induction ls as [|l ls IH]; intros tails Ht Hn; [reflexivity|].
  destruct tails as [|t tails]; [discriminate|]. injection Hn as Hn. inversion Ht as [|? ? Ht1 Ht2]; subst.
  unfold eol_lines in *. cbn [combine map fst snd]. f_equal; [|apply IH; assumption].
  unfold pl. apply parse_line_tail. apply Ht1.
Qed.

Theorem read_trailing_ws a tails tend rest : wf_aln a = true ->
  length tails = length (content_lines a) -> Forall ws_tail tails -> ws_tail tend ->
  read_text (concat (eol_lines (content_lines a) tails) ++ (bs "//"%bs ++ tend ++ [NL]) ++ rest) = (Some a, rest).
Proof.
  intros Hwf Hn Ht [He1 He2]. pose proof (wf_aln_ok a Hwf) as Hok. unfold read_text.
  rewrite (eol_py_lines _ tails _ (lines_no_nl a Hok) Ht Hn).
  replace ((bs "//"%bs ++ tend ++ [NL]) ++ rest) with ((bs "//"%bs ++ tend) ++ NL :: rest)
    by (rewrite <- !app_assoc; reflexivity).
  rewrite (py_lines_line (bs "//"%bs ++ tend) rest) by (apply no_nl_app; [reflexivity|exact He2]).
  pose proof (run_items_app parse_line (eol_lines (content_lines a) tails) ((bs "//"%bs ++ tend) ++ [NL]) (py_lines rest) st0) as R.
  pose proof (eol_parse _ tails Ht Hn) as P. pose proof (lines_items a Hok) as L.
  unfold str in *. rewrite R; clear R.
  - rewrite P, L. cbn [option_map]. rewrite (fold_items a Hok), concat_py_lines. reflexivity.
  - rewrite P, L. apply items_good.
  - rewrite <- app_assoc. rewrite (parse_line_tail (bs "//"%bs) tend He1). reflexivity.
Qed.

(* ------------------------------------------------------------------ DOS line ends *)
Lemma crlf_app a b : crlf (a ++ b) = crlf a ++ crlf b.
Proof. unfold crlf. apply flat_map_app. Qed.
Lemma crlf_no_nl l : no_nl l -> crlf l = l.
Proof.
  unfold no_nl, crlf. induction l as [|c l IH]; simpl; [reflexivity|]. intros H. apply andb_prop in H. destruct H as [H1 H2].
  apply negb_true_iff in H1. rewrite H1, (IH H2). reflexivity.
Qed.
Lemma crlf_lines ls : Forall no_nl ls ->
  crlf (concat (map addnl ls)) = concat (eol_lines ls (repeat [CR] (length ls))).
Proof.
  induction 1 as [|l ls Hl _ IH]; [reflexivity|].
  cbn [map concat length repeat]. unfold eol_lines in *. cbn [combine map concat fst snd].
  rewrite crlf_app, IH. unfold addnl. rewrite crlf_app, (crlf_no_nl l Hl). rewrite <- !app_assoc. reflexivity.
Qed.
Lemma cr_tail : ws_tail [CR]. Proof. split; reflexivity. Qed.

Theorem read_crlf a rest : wf_aln a = true -> read_text (crlf (write_text a) ++ rest) = (Some a, rest).
Proof.
  intros Hwf. pose proof (wf_aln_ok a Hwf) as Hok. unfold write_text. rewrite write_lines_eq, join_snoc, crlf_app.
  rewrite (crlf_lines _ (lines_no_nl a Hok)).
  change (crlf ENDL) with (bs "//"%bs ++ [CR] ++ [NL]). rewrite <- app_assoc.
  apply read_trailing_ws; [exact Hwf|apply repeat_length| |exact cr_tail].
  apply Forall_forall. intros t Ht. apply repeat_spec in Ht. subst t. exact cr_tail.
Qed.

Lemma is_stockholm_crlf a rest : is_stockholm (crlf (write_text a) ++ rest) = true.
Proof.
  unfold write_text. rewrite write_lines_eq. unfold content_lines. cbn [app].
  rewrite join_cons by (destruct (map (kvline GFt []) (a_gf a) ++ flat_map gs_lines (a_rows a) ++ flat_map seq_lines (a_rows a)
                                  ++ map (kvline GCt []) (a_gc a)); discriminate).
  rewrite crlf_app, <- app_assoc. reflexivity.
Qed.
(* hence everything proved about successive reads (chain_renders) holds for files with DOS line ends *)
Theorem renders_crlf a : wf_aln a = true -> renders a (crlf (write_text a)).
Proof. intros H rest. split; [apply read_crlf; exact H|apply is_stockholm_crlf]. Qed.

Definition dos_text (a : aln) : str := crlf (write_text a).
Theorem chain_crlf alns flags pre post : forallb wf_aln alns = true -> length flags = length alns ->
  chain flags (pre ++ concat (map dos_text alns) ++ post) (length pre)
  = combine (map got alns) (offsets (length pre) (map dos_text alns)).
Proof.
  intros H HL.
  pose proof (chain_renders (map (fun a => (a, dos_text a)) alns) flags pre post) as C.
  rewrite (map_snd_pair dos_text (fun a => a)), (map_got_pair dos_text (fun a => a)), map_length in C. apply C; [|exact HL].
  apply Forall_forall. intros ax Hin. apply in_map_iff in Hin. destruct Hin as (a & <- & Ha). cbn [fst snd].
  apply renders_crlf. rewrite forallb_forall in H. apply H. exact Ha.
Qed.
