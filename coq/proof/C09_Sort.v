(* C09: order of the binary search file records, sorted(), _binarysearch, BinarySearchFile.get -- all unbounded. *)
From Coq Require Import List Arith Lia ZArith NArith Bool Sorted Permutation.
From Coq.Strings Require Import Byte.
Import ListNotations.
From SV Require Import Text C09_Model C09_Store.

(* ------------------------------------------------------------------ bytes comparison is a total order *)
Lemma byte_to_N_inj a b : Byte.to_N a = Byte.to_N b -> a = b.
Proof. intros H. pose proof (Byte.of_to_N a) as Ha. pose proof (Byte.of_to_N b) as Hb. rewrite H in Ha. congruence. Qed.

Lemma str_cmp_eq : forall a b, str_cmp a b = Eq <-> a = b.
Proof.
  induction a as [|x a IH]; intros [|y b]; cbn [str_cmp]; split; intros H; try reflexivity; try discriminate.
  - destruct (N.compare_spec (Byte.to_N x) (Byte.to_N y)) as [E|E|E]; try discriminate.
    apply byte_to_N_inj in E. apply IH in H. congruence.
  - inversion H; subst. rewrite N.compare_refl. apply IH. reflexivity.
Qed.

Lemma str_cmp_refl a : str_cmp a a = Eq.
Proof. apply str_cmp_eq. reflexivity. Qed.

Lemma str_cmp_antisym : forall a b, str_cmp b a = CompOpp (str_cmp a b).
Proof.
  induction a as [|x a IH]; intros [|y b]; cbn [str_cmp]; try reflexivity.
  rewrite (N.compare_antisym (Byte.to_N x) (Byte.to_N y)).
  destruct (N.compare (Byte.to_N x) (Byte.to_N y)); cbn [CompOpp]; [apply IH|reflexivity|reflexivity].
Qed.

Lemma str_cmp_trans : forall c a b d, str_cmp a b = c -> str_cmp b d = c -> str_cmp a d = c.
Proof.
  intros c. induction a as [|x a IH]; intros [|y b] [|z d]; cbn [str_cmp]; intros H1 H2; try congruence.
  destruct (N.compare_spec (Byte.to_N x) (Byte.to_N y)) as [E1|E1|E1];
    destruct (N.compare_spec (Byte.to_N y) (Byte.to_N z)) as [E2|E2|E2];
    destruct (N.compare_spec (Byte.to_N x) (Byte.to_N z)) as [E3|E3|E3]; try lia; try congruence; eauto.
Qed.

Definition str_le (a b : str) : Prop := str_cmp a b <> Gt.

Lemma str_ltb_lt a b : str_ltb a b = true <-> str_cmp a b = Lt.
Proof. unfold str_ltb. destruct (str_cmp a b); split; congruence. Qed.

Lemma str_le_lt_trans a b c : str_le a b -> str_cmp b c = Lt -> str_cmp a c = Lt.
Proof.
  unfold str_le. intros H1 H2. destruct (str_cmp a b) eqn:E; [| |congruence].
  - apply str_cmp_eq in E. subst. exact H2.
  - exact (str_cmp_trans Lt _ _ _ E H2).
Qed.

Lemma str_le_trans a b c : str_le a b -> str_le b c -> str_le a c.
Proof.
  unfold str_le. intros H1 H2 H3.
  destruct (str_cmp b c) eqn:E; [| |congruence].
  - apply str_cmp_eq in E. subst. contradiction.
  - pose proof (str_le_lt_trans a b c H1 E). congruence.
Qed.

Lemma str_le_refl a : str_le a a.
Proof. unfold str_le. rewrite str_cmp_refl. discriminate. Qed.

Lemma str_le_antisym a b : str_le a b -> str_le b a -> a = b.
Proof.
  unfold str_le. intros H1 H2. rewrite (str_cmp_antisym a b) in H2.
  destruct (str_cmp a b) eqn:E; cbn in H2; try congruence. apply str_cmp_eq. exact E.
Qed.

Lemma str_le_total a b : str_le a b \/ str_le b a.
Proof.
  unfold str_le. rewrite (str_cmp_antisym a b). destruct (str_cmp a b); cbn; [left|left|right]; discriminate.
Qed.

(* ------------------------------------------------------------------ tuple comparison is a total order *)
Lemma entry_cmp_antisym a b : entry_cmp b a = CompOpp (entry_cmp a b).
Proof.
  unfold entry_cmp. rewrite (str_cmp_antisym (e_id a) (e_id b)).
  destruct (str_cmp (e_id a) (e_id b)); cbn [CompOpp]; try reflexivity.
  rewrite (Nat.compare_antisym (e_fn a) (e_fn b)). destruct (e_fn a ?= e_fn b); cbn [CompOpp]; try reflexivity.
  rewrite (Nat.compare_antisym (e_linelen a) (e_linelen b)). destruct (e_linelen a ?= e_linelen b); cbn [CompOpp]; try reflexivity.
  apply Nat.compare_antisym.
Qed.

Lemma entry_cmp_eq a b : entry_cmp a b = Eq <-> a = b.
Proof.
  unfold entry_cmp. split.
  - intros H. destruct (str_cmp (e_id a) (e_id b)) eqn:E1; try discriminate. apply str_cmp_eq in E1.
    destruct (e_fn a ?= e_fn b) eqn:E2; try discriminate. apply Nat.compare_eq in E2.
    destruct (e_linelen a ?= e_linelen b) eqn:E3; try discriminate. apply Nat.compare_eq in E3.
    apply Nat.compare_eq in H. destruct a, b; cbn in *; congruence.
  - intros ->. rewrite str_cmp_refl, !Nat.compare_refl. reflexivity.
Qed.

Lemma nat_cmp_trans c (x y z : nat) : (x ?= y) = c -> (y ?= z) = c -> (x ?= z) = c.
Proof.
  destruct (Nat.compare_spec x y), (Nat.compare_spec y z), (Nat.compare_spec x z); intros; subst; try lia; congruence.
Qed.

Lemma entry_cmp_trans_lt a b d : entry_cmp a b = Lt -> entry_cmp b d = Lt -> entry_cmp a d = Lt.
Proof.
  unfold entry_cmp. intros H1 H2.
  destruct (str_cmp (e_id a) (e_id b)) eqn:A1; try discriminate;
  destruct (str_cmp (e_id b) (e_id d)) eqn:A2; try discriminate;
  try (apply str_cmp_eq in A1); try (apply str_cmp_eq in A2).
  2: { rewrite A1, A2. reflexivity. }
  2: { rewrite <- A2, A1. reflexivity. }
  2: { rewrite (str_cmp_trans Lt _ _ _ A1 A2). reflexivity. }
  rewrite A1, A2, str_cmp_refl.
  destruct (e_fn a ?= e_fn b) eqn:B1; try discriminate;
  destruct (e_fn b ?= e_fn d) eqn:B2; try discriminate;
  try (apply Nat.compare_eq in B1); try (apply Nat.compare_eq in B2).
  2: { rewrite B1, B2. reflexivity. }
  2: { rewrite <- B2, B1. reflexivity. }
  2: { rewrite (nat_cmp_trans Lt _ _ _ B1 B2). reflexivity. }
  rewrite B1, B2, Nat.compare_refl.
  destruct (e_linelen a ?= e_linelen b) eqn:C1; try discriminate;
  destruct (e_linelen b ?= e_linelen d) eqn:C2; try discriminate;
  try (apply Nat.compare_eq in C1); try (apply Nat.compare_eq in C2).
  2: { rewrite C1, C2. reflexivity. }
  2: { rewrite <- C2, C1. reflexivity. }
  2: { rewrite (nat_cmp_trans Lt _ _ _ C1 C2). reflexivity. }
  rewrite C1, C2, Nat.compare_refl. exact (nat_cmp_trans Lt _ _ _ H1 H2).
Qed.

Definition entry_le (a b : entry) : Prop := entry_leb a b = true.

Lemma entry_le_iff a b : entry_le a b <-> entry_cmp a b <> Gt.
Proof. unfold entry_le, entry_leb. destruct (entry_cmp a b); split; congruence. Qed.

Lemma entry_le_refl a : entry_le a a.
Proof. apply entry_le_iff. rewrite (proj2 (entry_cmp_eq a a) eq_refl). discriminate. Qed.

Lemma entry_le_total a b : entry_leb a b = false -> entry_le b a.
Proof.
  unfold entry_le, entry_leb. rewrite (entry_cmp_antisym a b). destruct (entry_cmp a b); cbn; congruence.
Qed.

Lemma entry_le_antisym a b : entry_le a b -> entry_le b a -> a = b.
Proof.
  intros H1 H2. apply entry_le_iff in H1. apply entry_le_iff in H2. rewrite (entry_cmp_antisym a b) in H2.
  destruct (entry_cmp a b) eqn:E; cbn in H2; try congruence. apply entry_cmp_eq. exact E.
Qed.

Lemma entry_le_trans a b c : entry_le a b -> entry_le b c -> entry_le a c.
Proof.
  intros H1 H2. apply entry_le_iff in H1. apply entry_le_iff in H2. apply entry_le_iff.
  destruct (entry_cmp a b) eqn:E1; [| |congruence].
  - apply entry_cmp_eq in E1. subst. exact H2.
  - destruct (entry_cmp b c) eqn:E2; [| |congruence].
    + apply entry_cmp_eq in E2. subst. rewrite E1. discriminate.
    + rewrite (entry_cmp_trans_lt _ _ _ E1 E2). discriminate.
Qed.

Lemma entry_le_id a b : entry_le a b -> str_le (e_id a) (e_id b).
Proof.
  intros H. apply entry_le_iff in H. unfold str_le. intros E. apply H. unfold entry_cmp. rewrite E. reflexivity.
Qed.

(* ------------------------------------------------------------------ sorted(): the sorted permutation, and the only one *)
Lemma insert_perm x : forall l, Permutation (insert_e x l) (x :: l).
Proof.
  induction l as [|y l IH]; cbn [insert_e]; [reflexivity|].
  destruct (entry_leb x y); [reflexivity|]. rewrite IH. apply perm_swap.
Qed.

Lemma sort_perm : forall l, Permutation (sort_e l) l.
Proof.
  induction l as [|x l IH]; cbn [sort_e fold_right]; [reflexivity|].
  fold (sort_e l). rewrite insert_perm. constructor. exact IH.
Qed.

Lemma insert_sorted x : forall l, StronglySorted entry_le l -> StronglySorted entry_le (insert_e x l).
Proof.
  induction l as [|y l IH]; intros H; cbn [insert_e].
  - constructor; constructor.
  - inversion H as [|? ? Hs Hf]; subst. destruct (entry_leb x y) eqn:E.
    + constructor; [exact H|]. constructor; [exact E|].
      eapply Forall_impl; [|exact Hf]. intros z Hz. exact (entry_le_trans _ _ _ E Hz).
    + constructor; [exact (IH Hs)|].
      assert (P: Permutation (insert_e x l) (x :: l)) by apply insert_perm.
      apply (Permutation_Forall (Permutation_sym P)). constructor; [exact (entry_le_total _ _ E)|exact Hf].
Qed.

Theorem sort_sorted : forall l, StronglySorted entry_le (sort_e l).
Proof.
  induction l as [|x l IH]; cbn [sort_e fold_right]; [constructor|]. fold (sort_e l). apply insert_sorted. exact IH.
Qed.

(* two sorted lists with the same elements are equal: whatever algorithm sorted() uses, the file holds [sort_e data] *)
Theorem sorted_unique : forall l1 l2, StronglySorted entry_le l1 -> StronglySorted entry_le l2 -> Permutation l1 l2 -> l1 = l2.
Proof.
  induction l1 as [|x l1 IH]; intros l2 S1 S2 P.
  - apply Permutation_nil in P. congruence.
  - destruct l2 as [|y l2]; [apply Permutation_sym, Permutation_nil in P; discriminate|].
    inversion S1 as [|? ? S1' F1]; inversion S2 as [|? ? S2' F2]; subst.
    assert (E: x = y).
    { apply entry_le_antisym.
      - assert (I: In y (x :: l1)) by (apply (Permutation_in _ (Permutation_sym P)); left; reflexivity).
        destruct I as [<-|I]; [apply entry_le_refl|]. rewrite Forall_forall in F1. exact (F1 _ I).
      - assert (I: In x (y :: l2)) by (apply (Permutation_in _ P); left; reflexivity).
        destruct I as [<-|I]; [apply entry_le_refl|]. rewrite Forall_forall in F2. exact (F2 _ I). }
    subst y. f_equal. apply IH; try assumption. exact (Permutation_cons_inv P).
Qed.

Theorem sorted_records (data recs : list entry) :
  StronglySorted entry_le recs -> Permutation recs data -> recs = sort_e data.
Proof.
  intros S P. apply sorted_unique; [exact S|apply sort_sorted|]. rewrite P. symmetry. apply sort_perm.
Qed.

Lemma sort_idem l : StronglySorted entry_le l -> sort_e l = l.
Proof. intros S. symmetry. apply sorted_records; [exact S|reflexivity]. Qed.

Lemma sort_length l : length (sort_e l) = length l.
Proof. apply Permutation_length, sort_perm. Qed.

(* ------------------------------------------------------------------ _binarysearch returns the lower bound *)
Lemma mid_bounds lo hi : lo < hi -> lo <= (lo + hi) / 2 /\ (lo + hi) / 2 < hi.
Proof.
  intros H. split.
  - apply Nat.div_le_lower_bound; lia.
  - apply Nat.div_lt_upper_bound; lia.
Qed.

Section BSearch.
Variable key : nat -> str.
Variable n : nat.
Variable x : str.
Hypothesis key_sorted : forall i j, i <= j -> j < n -> str_le (key i) (key j).

Lemma bsearch_loop_spec : forall fuel lo hi,
  hi - lo < fuel -> lo <= hi -> hi <= n ->
  (forall i, i < lo -> str_ltb (key i) x = true) ->
  (forall i, hi <= i -> i < n -> str_ltb (key i) x = false) ->
  exists k, bsearch_loop fuel key x lo hi = Some k /\ k <= n
            /\ (forall i, i < k -> str_ltb (key i) x = true) /\ (forall i, k <= i -> i < n -> str_ltb (key i) x = false).
Proof.
  induction fuel as [|fuel IH]; intros lo hi Hf Hle Hn Hlo Hhi; [lia|].
  cbn [bsearch_loop]. destruct (lo <? hi) eqn:E.
  - apply Nat.ltb_lt in E. destruct (mid_bounds lo hi E) as [M1 M2]. set (mid := (lo + hi) / 2) in *.
    destruct (str_ltb (key mid) x) eqn:K.
    + apply IH; try lia; [|exact Hhi].
      intros i Hi. apply str_ltb_lt. apply str_ltb_lt in K.
      apply (str_le_lt_trans _ (key mid)); [|exact K]. apply key_sorted; lia.
    + apply IH; try lia; [exact Hlo|].
      intros i Hi1 Hi2. destruct (str_ltb (key i) x) eqn:K2; [|reflexivity].
      apply str_ltb_lt in K2. assert (L: str_cmp (key mid) x = Lt).
      { apply (str_le_lt_trans _ (key i)); [|exact K2]. apply key_sorted; lia. }
      apply str_ltb_lt in L. congruence.
  - apply Nat.ltb_ge in E. exists lo. split; [reflexivity|]. split; [lia|]. split; [exact Hlo|].
    intros i Hi1 Hi2. apply Hhi; lia.
Qed.

Theorem bsearch_lower_bound_gen :
  exists k, bsearch key x n = Some k /\ k <= n
            /\ (forall i, i < k -> str_cmp (key i) x = Lt) /\ (forall i, k <= i -> i < n -> str_cmp (key i) x <> Lt).
Proof.
  assert (A1: forall i, i < 0 -> str_ltb (key i) x = true) by (intros i Hi; lia).
  assert (A2: forall i, n <= i -> i < n -> str_ltb (key i) x = false) by (intros i Hi1 Hi2; lia).
  destruct (bsearch_loop_spec (S n) 0 n ltac:(lia) ltac:(lia) ltac:(lia) A1 A2) as [k [H1 [H2 [H3 H4]]]].
  - exists k. split; [exact H1|]. split; [exact H2|]. split.
    + intros i Hi. apply str_ltb_lt. exact (H3 i Hi).
    + intros i Hi1 Hi2 C. apply str_ltb_lt in C. rewrite (H4 i Hi1 Hi2) in C. discriminate.
Qed.
End BSearch.

(* ------------------------------------------------------------------ BinarySearchFile.get on a sorted record list *)
Lemma sorted_keys : forall recs, StronglySorted entry_le recs ->
  forall i j, i <= j -> j < length recs -> str_le (bsf_key recs i) (bsf_key recs j).
Proof.
  induction recs as [|e recs IH]; intros S i j Hij Hj; [cbn in Hj; lia|].
  inversion S as [|? ? S' F]; subst. destruct j as [|j].
  - assert (i = 0) by lia. subst. apply str_le_refl.
  - destruct i as [|i].
    + unfold bsf_key. cbn [nth_error]. destruct (nth_error recs j) as [e'|] eqn:E.
      * apply entry_le_id. rewrite Forall_forall in F. apply F. exact (nth_error_In _ _ E).
      * apply nth_error_None in E. cbn in Hj. lia.
    + unfold bsf_key. cbn [nth_error]. apply (IH S'); cbn in Hj; lia.
Qed.

Lemma find_at {A} (p : A -> bool) : forall (l : list A) k e, nth_error l k = Some e -> p e = true ->
  (forall i e', i < k -> nth_error l i = Some e' -> p e' = false) -> find p l = Some e.
Proof.
  induction l as [|y l IH]; intros k e Hn Hp Hlt; [destruct k; discriminate|].
  destruct k as [|k]; cbn in Hn.
  - inversion Hn; subst. cbn. rewrite Hp. reflexivity.
  - cbn. rewrite (Hlt 0 y ltac:(lia) eq_refl). apply (IH k); try assumption.
    intros i e' Hi He. apply (Hlt (S i) e'); [lia|exact He].
Qed.

Lemma find_none_idx {A} (p : A -> bool) : forall (l : list A),
  (forall i e', nth_error l i = Some e' -> p e' = false) -> find p l = None.
Proof.
  induction l as [|y l IH]; intros H; [reflexivity|]. cbn. rewrite (H 0 y eq_refl). apply IH.
  intros i e' He. exact (H (S i) e' He).
Qed.

(* search/get finds a record iff the id is present -- then the FIRST record of the file with that id --
   and raises ValueError otherwise; for every sorted record list, any length *)
Theorem bsf_get_first : forall recs id, StronglySorted entry_le recs -> id <> [] ->
  bsf_get recs id = match find (fun e => str_eqb (e_id e) id) recs with
                    | Some e => Ok e
                    | None => Err (bs "ValueError"%bs)
                    end.
Proof.
  intros recs id S Hne.
  destruct (bsearch_lower_bound_gen (bsf_key recs) (length recs) id (sorted_keys recs S)) as [k [Hk [Hkn [Hlt Hge]]]].
  unfold bsf_get. rewrite Hk.
  destruct (nth_error recs k) as [e|] eqn:En.
  - assert (Kk: bsf_key recs k = e_id e) by (unfold bsf_key; rewrite En; reflexivity).
    destruct (str_eqb id (bsf_key recs k)) eqn:Eq.
    + apply str_eqb_eq in Eq. rewrite (find_at _ recs k e En).
      * reflexivity.
      * apply str_eqb_eq. congruence.
      * intros i e' Hi He. destruct (str_eqb (e_id e') id) eqn:C; [|reflexivity]. apply str_eqb_eq in C.
        pose proof (Hlt i Hi) as L. unfold bsf_key in L. rewrite He, C, str_cmp_refl in L. discriminate.
    + rewrite find_none_idx; [reflexivity|].
      intros i e' He. destruct (str_eqb (e_id e') id) eqn:C; [|reflexivity]. apply str_eqb_eq in C. exfalso.
      assert (Hi: i < length recs) by (apply nth_error_Some; congruence).
      destruct (Nat.lt_ge_cases i k) as [Hik|Hik].
      * pose proof (Hlt i Hik) as L. unfold bsf_key in L. rewrite He, C, str_cmp_refl in L. discriminate.
      * assert (Kn: k < length recs) by (apply nth_error_Some; congruence).
        pose proof (sorted_keys recs S k i Hik Hi) as Le. pose proof (Hge k (le_n k) Kn) as NL.
        unfold bsf_key in Le at 2. rewrite He, C in Le.
        (* key k <= id, not key k < id, key k <> id *)
        unfold str_le in Le. destruct (str_cmp (bsf_key recs k) id) eqn:Cm; try congruence.
        apply str_cmp_eq in Cm. rewrite Cm, str_eqb_refl in Eq. discriminate.
  - assert (Kk: bsf_key recs k = []) by (unfold bsf_key; rewrite En; reflexivity).
    rewrite Kk. destruct (str_eqb id []) eqn:Eq; [apply str_eqb_eq in Eq; contradiction|].
    rewrite find_none_idx; [reflexivity|].
    intros i e' He. destruct (str_eqb (e_id e') id) eqn:C; [|reflexivity]. apply str_eqb_eq in C. exfalso.
    apply nth_error_None in En. assert (Hi: i < length recs) by (apply nth_error_Some; congruence).
    pose proof (Hlt i ltac:(lia)) as L. unfold bsf_key in L. rewrite He, C, str_cmp_refl in L. discriminate.
Qed.

(* among several records with the same id the one returned is the least in the tuple order *)
Theorem bsf_get_min : forall recs id e, StronglySorted entry_le recs -> id <> [] -> bsf_get recs id = Ok e ->
  In e recs /\ e_id e = id /\ forall e', In e' recs -> e_id e' = id -> entry_le e e'.
Proof.
  intros recs id e S Hne H. rewrite (bsf_get_first recs id S Hne) in H.
  destruct (find (fun e0 => str_eqb (e_id e0) id) recs) as [e0|] eqn:F; [|discriminate]. inversion H; subst e0. clear H.
  pose proof (find_some _ _ F) as [I P]. apply str_eqb_eq in P. split; [exact I|]. split; [exact P|].
  clear I. revert S F. induction recs as [|y recs IH]; intros S F e' I' P'; [destruct I'|].
  inversion S as [|? ? S' Fa]; subst. cbn [find] in F. destruct (str_eqb (e_id y) (e_id e)) eqn:C.
  - inversion F; subst y. destruct I' as [<-|I']; [apply entry_le_refl|]. rewrite Forall_forall in Fa. exact (Fa _ I').
  - destruct I' as [<-|I']; [apply str_eqb_eq in P'; congruence|]. exact (IH S' F e' I' P').
Qed.

(* present <-> found *)
Theorem bsf_get_iff : forall recs id, StronglySorted entry_le recs -> id <> [] ->
  ((exists e, In e recs /\ e_id e = id) <-> exists e, bsf_get recs id = Ok e)
  /\ ((forall e, In e recs -> e_id e <> id) <-> bsf_get recs id = Err (bs "ValueError"%bs)).
Proof.
  intros recs id S Hne. rewrite (bsf_get_first recs id S Hne).
  destruct (find (fun e0 => str_eqb (e_id e0) id) recs) as [e0|] eqn:F.
  - pose proof (find_some _ _ F) as [I P]. apply str_eqb_eq in P. split; split.
    + intros _. exists e0. reflexivity.
    + intros _. exists e0. split; assumption.
    + intros H. exfalso. exact (H e0 I P).
    + discriminate.
  - pose proof (find_none _ _ F) as Nn. split; split.
    + intros [e [I P]]. specialize (Nn e I). cbn in Nn. rewrite P, str_eqb_refl in Nn. discriminate.
    + intros [e H]. discriminate.
    + reflexivity.
    + intros _ e I P. specialize (Nn e I). cbn in Nn. rewrite P, str_eqb_refl in Nn. discriminate.
Qed.
