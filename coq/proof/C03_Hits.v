(* C03 proofs, part 3: hit tables (BLAST outfmt 6 / 10, MMseqs2 fmtmode 0) -- the documented identity discriminator. *)
From Coq Require Import List ZArith NArith Bool Lia.
From Coq.Strings Require Import Byte.
Import ListNotations.
From SV Require Import Text G_c03 C03_Model C03_Lemmas C03_Fts.

Lemma strip_ws_wsfree : forall s, wsfree s = true -> strip_ws s = s.
Proof.
  intros s H. unfold strip_ws. destruct s as [|c s]; [reflexivity|].
  pose proof H as H'. cbn [wsfree forallb] in H'. apply andb_prop in H'. destruct H' as [Hc _]. apply negb_true_iff in Hc.
  cbn [lstrip_ws]. rewrite Hc. apply rstrip_ws_wsfree. exact H.
Qed.
Lemma int_digits_all : forall s acc, forallb is_digit s = true -> exists z, int_digits s acc false = Some z.
Proof.
  induction s as [|c s IH]; intros acc H; [eexists; reflexivity|].
  cbn [forallb] in H. apply andb_prop in H. destruct H as [Hc Hs].
  cbn [int_digits]. unfold is_digit in Hc. destruct (digit_val c) as [d|] eqn:Ed; [|discriminate].
  assert (Hu : byte_eqb c "_"%byte = false) by (destruct c; try discriminate Ed; reflexivity).
  rewrite Hu. apply IH. exact Hs.
Qed.
Lemma digit_wsfree : forall s, forallb is_digit s = true -> wsfree s = true.
Proof.
  intros s. unfold wsfree. apply forallb_impl. intros c H. unfold is_digit in H. destruct c; try discriminate H; reflexivity.
Qed.
Lemma py_int_digits : forall s, is_digits s = true -> exists z, py_int s = Some z.
Proof.
  intros s H. unfold is_digits in H. destruct s as [|d s]; [discriminate|].
  unfold py_int. rewrite strip_ws_wsfree by (apply digit_wsfree; exact H).
  pose proof H as H'. cbn [forallb] in H'. apply andb_prop in H'. destruct H' as [Hd _].
  assert (Hss : split_sign (d :: s) = (false, d :: s)) by (unfold is_digit in Hd; destruct d; try discriminate Hd; reflexivity).
  rewrite Hss.
  assert (Hu : byte_eqb d "_"%byte = false) by (unfold is_digit in Hd; destruct d; try discriminate Hd; reflexivity).
  rewrite Hu. destruct (int_digits_all (d :: s) 0%Z H) as [z Hz]. rewrite Hz. eexists. reflexivity.
Qed.
Lemma contains_digits_false : forall s, is_digits s = true -> contains s (bs "+-.?"%bs) = false.
Proof.
  intros s H. unfold is_digits in H. destruct s as [|d s]; [discriminate|]. cbn [forallb] in H. apply andb_prop in H.
  destruct H as [Hd _]. unfold is_digit in Hd. destruct d; try discriminate Hd; reflexivity.
Qed.

(* one data line with the 12 default columns: what the two sniffers compute (tab/core.py:258-313 + the final range test) *)
Lemma data_line_blast : forall v0 v1 fl v3 v4 v5 zqs zqe zss zse v10 v11,
  let attrs := [(bs "qseqid"%bs, v0); (bs "sseqid"%bs, v1); (bs "pident"%bs, PF fl); (bs "length"%bs, v3); (bs "mismatch"%bs, v4);
                (bs "gapopen"%bs, v5); (bs "qstart"%bs, PI zqs); (bs "qend"%bs, PI zqe); (bs "sstart"%bs, PI zss);
                (bs "send"%bs, PI zse); (bs "evalue"%bs, v10); (bs "bitscore"%bs, v11)] in
  data_line_attrs TBlast attrs = Some attrs /\ pident_in_range attrs = Some (float_in_range fl 100 47).
Proof.
  intros. split.
  - cbv - [Z.ltb float_in_range]. destruct (zse <? zss)%Z, (zss <? zse)%Z, (zqs <? zqe)%Z, (zqe <? zqs)%Z; reflexivity.
  - cbv - [float_in_range]. reflexivity.
Qed.
Lemma data_line_mmseqs : forall v0 v1 fl v3 v4 v5 zqs zqe zss zse v10 v11,
  let attrs := [(bs "query"%bs, v0); (bs "target"%bs, v1); (bs "fident"%bs, PF fl); (bs "alnlen"%bs, v3); (bs "mismatch"%bs, v4);
                (bs "gapopen"%bs, v5); (bs "qstart"%bs, PI zqs); (bs "qend"%bs, PI zqe); (bs "tstart"%bs, PI zss);
                (bs "tend"%bs, PI zse); (bs "evalue"%bs, v10); (bs "bits"%bs, v11)] in
  data_line_attrs TMmseqs attrs = Some attrs /\ pident_in_range attrs = Some (float_in_range fl 1 53).
Proof.
  intros. split.
  - cbv - [Z.ltb float_in_range]. destruct (zse <? zss)%Z, (zss <? zse)%Z, (zqs <? zqe)%Z, (zqe <? zqs)%Z; reflexivity.
  - cbv - [float_in_range]. reflexivity.
Qed.

Definition hs_of (f : tabfmt) : list (str * N) :=
  match headers_from (default_outfmt f) (hdr_table f) with Some h => h | None => [] end.
Lemma hs_of_ok : forall f, headers_from (default_outfmt f) (hdr_table f) = Some (hs_of f).
Proof. destruct f; vm_compute; reflexivity. Qed.

Local Opaque py_int py_float float_in_range.
Lemma hit_line_value : forall f q s ident alen mism gapo qs qe ss se ev bits zqs zqe zss zse fl,
  py_int qs = Some zqs -> py_int qe = Some zqe -> py_int ss = Some zss -> py_int se = Some zse -> py_float ident = Some fl ->
  match data_line f (hs_of f) [q; s; ident; alen; mism; gapo; qs; qe; ss; se; ev; bits] with
  | None => None
  | Some a => pident_in_range a
  end = Some (match f with TBlast => float_in_range fl 100 47 | TMmseqs => float_in_range fl 1 53 end).
Proof.
  intros f q s ident alen mism gapo qs qe ss se ev bits zqs zqe zss zse fl Hqs Hqe Hss Hse Hid.
  destruct f.
  - unfold data_line. change (hs_of TBlast) with ltac:(let v := eval vm_compute in (hs_of TBlast) in exact v).
    cbv [mk_attrs combine map fst snd length Nat.eqb negb convert]. rewrite Hqs, Hqe, Hss, Hse, Hid.
    match goal with |- context [data_line_attrs TBlast [(_, ?v0); (_, ?v1); (_, PF ?f); (_, ?v3); (_, ?v4); (_, ?v5); (_, PI ?a); (_, PI ?b);
                                                       (_, PI ?c); (_, PI ?d); (_, ?v10); (_, ?v11)]] =>
      destruct (data_line_blast v0 v1 f v3 v4 v5 a b c d v10 v11) as [D1 D2] end.
    cbv zeta in D1, D2.
    match goal with |- context [data_line_attrs TBlast ?A] =>
      match type of D1 with data_line_attrs TBlast ?A' = _ => change A with A' end end.
    rewrite D1. exact D2.
  - unfold data_line. change (hs_of TMmseqs) with ltac:(let v := eval vm_compute in (hs_of TMmseqs) in exact v).
    cbv [mk_attrs combine map fst snd length Nat.eqb negb convert]. rewrite Hqs, Hqe, Hss, Hse, Hid.
    match goal with |- context [data_line_attrs TMmseqs [(_, ?v0); (_, ?v1); (_, PF ?f); (_, ?v3); (_, ?v4); (_, ?v5); (_, PI ?a); (_, PI ?b);
                                                         (_, PI ?c); (_, PI ?d); (_, ?v10); (_, ?v11)]] =>
      destruct (data_line_mmseqs v0 v1 f v3 v4 v5 a b c d v10 v11) as [D1 D2] end.
    cbv zeta in D1, D2.
    match goal with |- context [data_line_attrs TMmseqs ?A] =>
      match type of D1 with data_line_attrs TMmseqs ?A' = _ => change A with A' end end.
    rewrite D1. exact D2.
Qed.

Lemma sniff_line_data : forall f o line,
  o_outfmt o = None -> startswith (bs "#"%bs) line = false -> strip_ws line <> [] ->
  (f = TMmseqs -> subset_str (split_on (sep_or o tab) (strip_ws line)) MMSEQS_HEADER_NAMES = false) ->
  sniff_line f o line = match data_line f (hs_of f) (split_on (sep_or o tab) (strip_ws line)) with
                        | None => None
                        | Some a => pident_in_range a
                        end.
Proof.
  intros f o line Ho Hh Hs Hm. unfold sniff_line. rewrite Ho.
  assert (Hf : match f with TBlast => startswith (bs "# Fields:"%bs) line | TMmseqs => false end = false).
  { destruct f; [|reflexivity]. destruct line as [|c l]; [reflexivity|]. cbn [startswith bs bytes_of_bstr] in *.
    apply andb_false_iff in Hh. destruct Hh as [Hh|Hh]; [rewrite Hh; reflexivity|discriminate]. }
  replace (match f with TBlast => match @None str with Some _ => false | None => startswith (bs "# Fields:"%bs) line end | TMmseqs => false end)
    with false by (destruct f; symmetry; exact Hf).
  rewrite Hh. cbn [orb].
  destruct (strip_ws line) as [|s0 sl] eqn:Es; [congruence|].
  assert (Hmm : match f with TMmseqs => Nat.ltb 1 (length (split_on (sep_or o tab) (s0 :: sl))) && subset_str (split_on (sep_or o tab) (s0 :: sl)) MMSEQS_HEADER_NAMES | TBlast => false end = false).
  { destruct f; [reflexivity|]. rewrite (Hm eq_refl). apply andb_false_r. }
  rewrite Hmm, hs_of_ok. reflexivity.
Qed.

Lemma names_not_float : forallb (fun k => match py_float k with None => true | Some _ => false end) MMSEQS_HEADER_NAMES = true.
Proof. Local Transparent py_float. vm_compute. reflexivity. Qed.
Local Opaque py_float.

(* the documented discriminator, at the level of the two sniffers: on a well-formed 12-column first line both readers succeed
   and the verdicts are exactly the range tests of the identity column (fraction for MMseqs2, percentage for BLAST) *)
Lemma hit_sniffers : forall o sep fields c X h t fl,
  hit_fields_ok sep fields = true -> o_outfmt o = None -> sep_or o tab = sep ->
  splitlines (read_n 1000 c) = join sep fields :: X -> c = h :: t -> byte_eqb "#"%byte h = false ->
  py_float (nth 2 fields []) = Some fl ->
  is_fts_mmseqs o c = Some (float_in_range fl 1 53) /\ is_fts_blast o c = Some (float_in_range fl 100 47).
Proof.
  intros o sep fields c X h t fl Hok Ho Hsep HX Hc Hh Hfl.
  unfold hit_fields_ok in Hok.
  destruct fields as [|q [|s [|ident [|alen [|mism [|gapo [|qs [|qe [|ss [|se [|ev [|bits [|? ?]]]]]]]]]]]]]; try discriminate Hok.
  do 8 (apply andb_prop in Hok; destruct Hok as [Hok ?]).
  cbn [nth] in Hfl.
  set (fields := [q; s; ident; alen; mism; gapo; qs; qe; ss; se; ev; bits]) in *.
  set (line := join sep fields) in *.
  cbn [nth] in Hfl.
  assert (Hwords : forallb (fun k => wsfree k && negb (match k with [] => true | _ => false end)) fields = true).
  { revert Hok. apply forallb_impl. intros k Hk. apply andb_prop in Hk. destruct Hk as [Hk1 Hk2]. apply andb_true_intro. split.
    - unfold wsfree. revert Hk1. apply forallb_impl. intros x Hx. apply andb_prop in Hx. destruct Hx as [Hx _].
      apply andb_prop in Hx. tauto.
    - destruct k; [discriminate|reflexivity]. }
  assert (Hnosep : forallb (nosep sep) fields = true).
  { revert Hok. apply forallb_impl. intros k Hk. apply andb_prop in Hk. destruct Hk as [Hk1 _]. unfold nosep. revert Hk1.
    apply forallb_impl. intros x Hx. apply andb_prop in Hx. destruct Hx as [Hx _]. apply andb_prop in Hx. tauto. }
  assert (Hstrip : strip_ws line = line) by (apply strip_join_names; [discriminate|exact Hwords]).
  assert (Hsplit : split_on sep line = fields) by (apply split_join; [discriminate|exact Hnosep]).
  assert (Hq : exists hq tq, q = hq :: tq).
  { cbn [forallb] in Hwords. apply andb_prop in Hwords. destruct Hwords as [Hq _]. apply andb_prop in Hq. destruct Hq as [_ Hq].
    destruct q; [discriminate|eauto]. }
  destruct Hq as [hq [tq Eq]].
  assert (Hline : exists rest, line = hq :: rest) by (unfold line, fields; rewrite Eq; apply join_head).
  destruct Hline as [rest Hline].
  assert (Hhash : startswith (bs "#"%bs) line = false).
  { rewrite Hline. match goal with Hx : negb (startswith (bs "#"%bs) q) = true |- _ => apply negb_true_iff in Hx; rewrite Eq in Hx; exact Hx end. }
  assert (Hne : strip_ws line <> []) by (rewrite Hstrip, Hline; discriminate).
  assert (Hsub : subset_str fields MMSEQS_HEADER_NAMES = false).
  { destruct (subset_str fields MMSEQS_HEADER_NAMES) eqn:E; [|reflexivity].
    assert (Hin : mem_str ident MMSEQS_HEADER_NAMES = true).
    { apply (subset_mem fields _ ident E). unfold fields, mem_str. cbn [existsb]. rewrite (str_eqb_refl ident). repeat rewrite orb_true_r. reflexivity. }
    apply mem_str_true_In in Hin. pose proof names_not_float as NF. rewrite forallb_forall in NF. specialize (NF ident Hin).
    rewrite Hfl in NF. discriminate. }
  repeat match goal with Hx : is_digits _ = true |- _ => apply py_int_digits in Hx; destruct Hx as [? Hx] end.
  assert (Hval : forall f, sniff_line f o line = Some (match f with TBlast => float_in_range fl 100 47 | TMmseqs => float_in_range fl 1 53 end)).
  { intros f. rewrite sniff_line_data; try assumption.
    - rewrite Hstrip, Hsep, Hsplit. unfold fields. eapply hit_line_value; eassumption.
    - intros _. rewrite Hstrip, Hsep, Hsplit. exact Hsub. }
  split.
  - unfold is_fts_mmseqs. rewrite HX. fold fields line. rewrite Hstrip, Hsep, Hsplit, Hsub, andb_false_r. apply (Hval TMmseqs).
  - unfold is_fts_blast.
    assert (E : startswith (bs "#"%bs) (read_n 1000 c) = false).
    { subst c. unfold read_n. change (firstn 1000 (h :: t)) with (h :: firstn 999 t). cbn [startswith bs bytes_of_bstr]. rewrite Hh. reflexivity. }
    rewrite E. cbn [andb]. rewrite HX. fold fields line. apply (Hval TBlast).
Qed.

Definition demo_hit (ident : str) : list str :=
  [bs "q1"%bs; bs "NC_081844.1"%bs; ident; bs "1480"%bs; bs "0"%bs; bs "0"%bs; bs "1"%bs; bs "1480"%bs; bs "39923568"%bs; bs "39922089"%bs;
   bs "3.03e-83"%bs; bs "2734"%bs].
Lemma witness_hits :
  hit_fields_ok tab (demo_hit (bs "95.408"%bs)) = true /\ hit_fields_ok ","%byte (demo_hit (bs "0.954"%bs)) = true /\
  ident_percent_ok (bs "95.408"%bs) = true /\ ident_fraction_ok (bs "95.408"%bs) = false /\ ident_fraction_ok (bs "0.954"%bs) = true.
Proof. Local Transparent py_int py_float float_in_range. vm_compute. repeat split; reflexivity. Qed.
