(* C01 proofs: BioSeq construction (seq.py:213-243): data normal form, id precedence, type inference / assertion. *)
From Coq Require Import List ZArith NArith Bool Lia Arith.
From Coq.Strings Require Import Byte.
Import ListNotations.
From SV Require Import Text C01_Lines G_codes G_c01_io C01_Model C01_Detect C01_Lemmas.

Definition src_data (d : bdata) : str := match d with DStr s => s | DSeq b => b_data b end.
(* BioSeq(str, id=id) is the constructor the readers use *)
Theorem bioseq_init_plain s id : bioseq_init (DStr s) id None None = Ok (bioseq s id).
Proof. unfold bioseq_init, bioseq. cbn [is_some negb]. rewrite orb_true_r. reflexivity. Qed.
(* whatever the arguments: the data is the upper-cased text, the type is the given one or inferred from the UPPER-CASED
   data, and only a type other than 'nt' / 'aa' fails (AssertionError) *)
Theorem bioseq_init_data_type d id meta ty :
  match ty with
  | None => exists i, bioseq_init d id meta ty = Ok i /\ b_data i = upper (src_data d) /\ b_nt i = forallb is_code (upper (src_data d))
  | Some t =>
      if str_eqb t (bs "nt"%bs) || str_eqb t (bs "aa"%bs)
      then exists i, bioseq_init d id meta ty = Ok i /\ b_data i = upper (src_data d) /\ b_nt i = str_eqb t (bs "nt"%bs)
      else bioseq_init d id meta ty = Err E_Assertion
  end.
Proof.
  destruct ty as [t|]; unfold bioseq_init.
  - destruct (str_eqb t (bs "nt"%bs)) eqn:E1; cbn [orb].
    + eexists. split; [reflexivity|]. destruct d; split; reflexivity.
    + destruct (str_eqb t (bs "aa"%bs)) eqn:E2.
      * eexists. split; [reflexivity|]. destruct d; split; reflexivity.
      * reflexivity.
  - eexists. split; [reflexivity|]. destruct d; split; reflexivity.
Qed.
(* id precedence: a non-empty id argument wins; otherwise the id of the source object / of the meta mapping is kept;
   otherwise the (empty or None) argument is stored *)
Theorem bioseq_init_id d id meta ty i : bioseq_init d id meta ty = Ok i ->
  (truthy id = true -> b_id i = id)
  /\ (truthy id = false -> forall b0, d = DSeq b0 -> b_id i = b_id b0)
  /\ (truthy id = false -> forall s m, d = DStr s -> meta = Some (Some m) -> b_id i = m)
  /\ (truthy id = false -> forall s, d = DStr s -> (meta = None \/ meta = Some None) -> b_id i = id).
Proof.
  intros H.
  assert (E : b_id i = if truthy id || negb (is_some (match d with DSeq b => Some (b_id b) | DStr _ => match meta with Some m => m | None => None end end))
                       then id else match (match d with DSeq b => Some (b_id b) | DStr _ => match meta with Some m => m | None => None end end) with Some x => x | None => None end).
  { unfold bioseq_init in H. destruct ty as [t|].
    - destruct (str_eqb t (bs "nt"%bs)); [injection H as <-; reflexivity|].
      destruct (str_eqb t (bs "aa"%bs)); [injection H as <-; reflexivity|discriminate].
    - injection H as <-. reflexivity. }
  repeat split.
  - intros T. rewrite E, T. reflexivity.
  - intros T b0 ->. rewrite E, T. reflexivity.
  - intros T s m -> ->. rewrite E, T. reflexivity.
  - intros T s -> [->| ->]; rewrite E, T; reflexivity.
Qed.
(* BioSeq(seq) of a sequence as BioSeq() builds them is a copy with the same visible state (the type is re-inferred) *)
Theorem bioseq_init_copy b : wfb_common b = true -> bioseq_init (DSeq b) (Some []) None None = Ok b.
Proof.
  intros H. destruct (wfb_common_facts b H) as (_ & Hu & Hn).
  unfold bioseq_init. cbn [truthy is_some negb orb]. rewrite Hu. rewrite <- Hn. destruct b; reflexivity.
Qed.
(* ... but a type given explicitly is NOT copied: the copy of a sequence declared 'aa' whose letters are all nucleotide codes is 'nt' *)
Theorem bioseq_init_copy_reinfers : exists b, bioseq_init (DStr (bs "ACGT"%bs)) (Some (bs "x"%bs)) None (Some (bs "aa"%bs)) = Ok b
  /\ b_nt b = false /\ exists c, bioseq_init (DSeq b) (Some []) None None = Ok c /\ b_nt c = true /\ b_id c = Some (bs "x"%bs).
Proof. eexists. split; [reflexivity|]. split; [reflexivity|]. eexists. split; [reflexivity|]. split; reflexivity. Qed.
(* the call of the SJSON object hook, BioSeq(data=d, meta=Meta(id=i, ...), type=t), is the decoder of the model *)
Theorem bioseq_init_hook d i nt :
  bioseq_init (DStr d) (Some []) (Some (Some i)) (Some (type_name nt)) = Ok (bioseq_typed d i nt None).
Proof. destruct nt; reflexivity. Qed.
