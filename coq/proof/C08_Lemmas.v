(* C08 proofs, part 1: flags, strands, defects, stable insertion sort, LocationTuple invariant, comparisons. *)
From Coq Require Import List ZArith NArith Bool Lia Permutation.
From Coq.Strings Require Import Byte.
Import ListNotations.
From SV Require Import Text G_flags C08_Model.
Local Open Scope Z_scope.

Ltac bytes c := destruct c; vm_compute; try reflexivity; try discriminate; auto.

(* ------------------------------------------------------------------ regenerated flag values *)
Definition all_flags : N := fold_right N.lor 0%N (map snd defect_members).
Lemma flags_pins :
  S_FORWARD = cPlus /\ S_REVERSE = cMinus /\ S_NONE <> S_UNKNOWN /\ is_strand cPlus = true /\ is_strand cMinus = true /\
  strand_reverse S_NONE = S_NONE /\ strand_reverse S_UNKNOWN = S_UNKNOWN /\
  forallb (fun p => Nat.eqb (popcount (snd p)) 1) defect_members = true /\
  length defect_members = 8%nat /\ all_flags = 255%N /\
  defect_members = [(bs "MISS_LEFT"%bs, D_MISS_LEFT); (bs "MISS_RIGHT"%bs, D_MISS_RIGHT);
                    (bs "BEYOND_LEFT"%bs, D_BEYOND_LEFT); (bs "BEYOND_RIGHT"%bs, D_BEYOND_RIGHT);
                    (bs "UNKNOWN_LEFT"%bs, D_UNKNOWN_LEFT); (bs "UNKNOWN_RIGHT"%bs, D_UNKNOWN_RIGHT);
                    (bs "BETWEEN_CONSECUTIVE"%bs, D_BETWEEN_CONSECUTIVE); (bs "UNKNOWN_SINGLE_BETWEEN"%bs, D_UNKNOWN_SINGLE_BETWEEN)].
Proof. vm_compute. repeat split; try reflexivity. discriminate. Qed.

(* ------------------------------------------------------------------ Strand *)
Lemma strand_reverse_invol c : strand_reverse (strand_reverse c) = c.
Proof. bytes c. Qed.
Lemma strand_reverse_ok c : is_strand c = true -> is_strand (strand_reverse c) = true.
Proof. bytes c. Qed.
Lemma strand_reverse_spec c : is_strand c = true ->
  (c = S_FORWARD -> strand_reverse c = S_REVERSE) /\ (c = S_REVERSE -> strand_reverse c = S_FORWARD) /\
  (c <> S_FORWARD -> c <> S_REVERSE -> strand_reverse c = c).
Proof.
  destruct c; vm_compute; intros H; try discriminate H; repeat split; intros; try reflexivity; try congruence.
Qed.
Lemma strand_reverse_minus c : byte_eqb (strand_reverse c) cMinus = byte_eqb c cPlus.
Proof. bytes c. Qed.
Lemma strand_reverse_plus c : byte_eqb (strand_reverse c) cPlus = byte_eqb c cMinus.
Proof. bytes c. Qed.
Lemma strand_reverse_inj_eqb c d : byte_eqb (strand_reverse c) (strand_reverse d) = byte_eqb c d.
Proof.
  destruct (byte_eqb c d) eqn:E.
  - apply byte_eqb_eq in E. subst. apply byte_eqb_refl.
  - apply byte_eqb_neq. apply byte_eqb_neq in E. intros H. apply E.
    rewrite <- (strand_reverse_invol c), <- (strand_reverse_invol d), H. reflexivity.
Qed.

(* ------------------------------------------------------------------ Defect: finite check over the 256 bit sets *)
Definition rest_mask : N := N.lor D_BETWEEN_CONSECUTIVE D_UNKNOWN_SINGLE_BETWEEN.
Definition defect_ok (d : N) : bool :=
  let d' := defect_reverse d in
  N.eqb (defect_reverse d') d
  && Bool.eqb (has_flag d' D_MISS_LEFT) (has_flag d D_MISS_RIGHT) && Bool.eqb (has_flag d' D_MISS_RIGHT) (has_flag d D_MISS_LEFT)
  && Bool.eqb (has_flag d' D_BEYOND_LEFT) (has_flag d D_BEYOND_RIGHT) && Bool.eqb (has_flag d' D_BEYOND_RIGHT) (has_flag d D_BEYOND_LEFT)
  && Bool.eqb (has_flag d' D_UNKNOWN_LEFT) (has_flag d D_UNKNOWN_RIGHT) && Bool.eqb (has_flag d' D_UNKNOWN_RIGHT) (has_flag d D_UNKNOWN_LEFT)
  && N.eqb (N.land d' rest_mask) (N.land d rest_mask)
  && (d' <? 256)%N.
Definition all_defects : list N := map N.of_nat (seq 0 256).
Lemma all_defects_ok : forallb defect_ok all_defects = true.
Proof. vm_compute. reflexivity. Qed.
Lemma in_all_defects d : (d < 256)%N -> In d all_defects.
Proof.
  intros H. unfold all_defects. rewrite <- (N2Nat.id d). apply in_map. apply in_seq. lia.
Qed.
Lemma defect_reverse_spec d : (d < 256)%N ->
  defect_reverse (defect_reverse d) = d /\
  has_flag (defect_reverse d) D_MISS_LEFT = has_flag d D_MISS_RIGHT /\
  has_flag (defect_reverse d) D_MISS_RIGHT = has_flag d D_MISS_LEFT /\
  has_flag (defect_reverse d) D_BEYOND_LEFT = has_flag d D_BEYOND_RIGHT /\
  has_flag (defect_reverse d) D_BEYOND_RIGHT = has_flag d D_BEYOND_LEFT /\
  has_flag (defect_reverse d) D_UNKNOWN_LEFT = has_flag d D_UNKNOWN_RIGHT /\
  has_flag (defect_reverse d) D_UNKNOWN_RIGHT = has_flag d D_UNKNOWN_LEFT /\
  N.land (defect_reverse d) rest_mask = N.land d rest_mask /\
  (defect_reverse d < 256)%N.
Proof.
  intros H. pose proof all_defects_ok as A. rewrite forallb_forall in A. specialize (A d (in_all_defects d H)).
  unfold defect_ok in A. cbv zeta in A. rewrite !andb_true_iff in A.
  destruct A as ((((((((A1 & A2) & A3) & A4) & A5) & A6) & A7) & A8) & A9).
  apply N.eqb_eq in A1. apply N.eqb_eq in A8. apply N.ltb_lt in A9.
  apply eqb_prop in A2, A3, A4, A5, A6, A7.
  repeat split; assumption.
Qed.
Lemma defect_reverse_invol d : (d < 256)%N -> defect_reverse (defect_reverse d) = d.
Proof. intros H. apply (defect_reverse_spec d H). Qed.
Lemma defect_reverse_lt d : (d < 256)%N -> (defect_reverse d < 256)%N.
Proof. intros H. apply (defect_reverse_spec d H). Qed.

(* ------------------------------------------------------------------ Defect: every bit set (IntFlag keeps unknown bits) *)
Definition low (d : N) : N := N.land d 255.
Definition cmask (m d : N) : N := if Nat.eqb (popcount (N.land m d)) 1 then m else 0%N.
Lemma flip_pair_lxor m self acc : flip_pair m self acc = N.lxor acc (cmask m self).
Proof. unfold flip_pair, cmask. destruct (Nat.eqb _ 1); [reflexivity|rewrite N.lxor_0_r; reflexivity]. Qed.
Lemma defect_reverse_lxor d :
  defect_reverse d = N.lxor (N.lxor (N.lxor d (cmask mask_MISS d)) (cmask mask_BEYOND d)) (cmask mask_UNKNOWN d).
Proof. unfold defect_reverse. rewrite !flip_pair_lxor. reflexivity. Qed.
Lemma masks_low : N.land mask_MISS 255 = mask_MISS /\ N.land mask_BEYOND 255 = mask_BEYOND /\ N.land mask_UNKNOWN 255 = mask_UNKNOWN.
Proof. vm_compute. repeat split; reflexivity. Qed.
Lemma cmask_low m d : N.land m 255 = m -> cmask m d = cmask m (low d).
Proof.
  intros H. unfold cmask, low. replace (N.land m (N.land d 255)) with (N.land m d); [reflexivity|].
  rewrite (N.land_comm d 255), N.land_assoc, H. reflexivity.
Qed.
Lemma low_low d : low (low d) = low d.
Proof. unfold low. rewrite <- N.land_assoc. reflexivity. Qed.
Lemma low_lt d : (low d < 256)%N.
Proof.
  unfold low. change 255%N with (N.ones 8). rewrite N.land_ones. apply N.mod_lt. vm_compute. discriminate.
Qed.
Lemma small_facts : forallb (fun n => N.eqb (N.land n 255) n && N.eqb (N.shiftr n 8) 0) all_defects = true.
Proof. vm_compute. reflexivity. Qed.
Lemma low_small n : (n < 256)%N -> low n = n /\ N.shiftr n 8 = 0%N.
Proof.
  intros H. pose proof small_facts as A. rewrite forallb_forall in A. specialize (A n (in_all_defects n H)).
  apply andb_prop in A. destruct A as [A B]. apply N.eqb_eq in A, B. split; assumption.
Qed.
Lemma lxor_cancel_r a b : N.lxor (N.lxor a b) b = a.
Proof. rewrite N.lxor_assoc, N.lxor_nilpotent, N.lxor_0_r. reflexivity. Qed.
Lemma split_hi_lo d : N.lxor (N.lxor d (low d)) (low d) = d.
Proof. rewrite N.lxor_assoc, N.lxor_nilpotent, N.lxor_0_r. reflexivity. Qed.
(* the unknown bits pass through unchanged: reverse = (bits outside 0..255) xor reverse(bits inside) *)
Lemma defect_reverse_split d : defect_reverse d = N.lxor (N.lxor d (low d)) (defect_reverse (low d)).
Proof.
  destruct masks_low as (M1 & M2 & M3).
  rewrite (defect_reverse_lxor d), (defect_reverse_lxor (low d)).
  rewrite (cmask_low mask_MISS d M1), (cmask_low mask_BEYOND d M2), (cmask_low mask_UNKNOWN d M3).
  generalize (cmask mask_MISS (low d)) (cmask mask_BEYOND (low d)) (cmask mask_UNKNOWN (low d)). intros c1 c2 c3.
  rewrite <- !N.lxor_assoc. rewrite split_hi_lo. reflexivity.
Qed.
Lemma land_lxor_distr_l a b c : N.land (N.lxor a b) c = N.lxor (N.land a c) (N.land b c).
Proof.
  apply N.bits_inj. intros n. rewrite N.land_spec, !N.lxor_spec, !N.land_spec.
  destruct (N.testbit a n), (N.testbit b n), (N.testbit c n); reflexivity.
Qed.
Lemma low_hi d : low (N.lxor d (low d)) = 0%N.
Proof. unfold low. rewrite land_lxor_distr_l. fold (low d). fold (low (low d)). rewrite low_low. apply N.lxor_nilpotent. Qed.
Lemma low_defect_reverse d : low (defect_reverse d) = defect_reverse (low d).
Proof.
  rewrite (defect_reverse_split d). unfold low at 1. rewrite land_lxor_distr_l. fold (low (N.lxor d (low d))).
  rewrite low_hi, N.lxor_0_l. apply low_small. apply defect_reverse_lt. apply low_lt.
Qed.
Lemma defect_reverse_invol_all d : defect_reverse (defect_reverse d) = d.
Proof.
  rewrite (defect_reverse_split (defect_reverse d)). rewrite low_defect_reverse.
  rewrite (defect_reverse_invol (low d) (low_lt d)).
  rewrite (defect_reverse_split d) at 1. rewrite lxor_cancel_r. apply split_hi_lo.
Qed.
Lemma shiftr_hi d : N.shiftr d 8 = N.shiftr (N.lxor d (low d)) 8.
Proof.
  rewrite N.shiftr_lxor. destruct (low_small (low d) (low_lt d)) as [_ E]. rewrite E, N.lxor_0_r. reflexivity.
Qed.
Lemma defect_reverse_high d : N.shiftr (defect_reverse d) 8 = N.shiftr d 8.
Proof.
  rewrite (defect_reverse_split d), N.shiftr_lxor.
  destruct (low_small (defect_reverse (low d)) (defect_reverse_lt _ (low_lt d))) as [_ E]. rewrite E, N.lxor_0_r.
  symmetry. apply shiftr_hi.
Qed.
Lemma has_flag_low d m : N.land m 255 = m -> has_flag d m = has_flag (low d) m.
Proof.
  intros H. unfold has_flag, low. rewrite <- N.land_assoc, (N.land_comm 255 m), H. reflexivity.
Qed.
Lemma flags_low : N.land D_MISS_LEFT 255 = D_MISS_LEFT /\ N.land D_MISS_RIGHT 255 = D_MISS_RIGHT /\
  N.land D_BEYOND_LEFT 255 = D_BEYOND_LEFT /\ N.land D_BEYOND_RIGHT 255 = D_BEYOND_RIGHT /\
  N.land D_UNKNOWN_LEFT 255 = D_UNKNOWN_LEFT /\ N.land D_UNKNOWN_RIGHT 255 = D_UNKNOWN_RIGHT.
Proof. vm_compute. repeat split; reflexivity. Qed.
(* Defect._reverse on an arbitrary bit set *)
Lemma defect_reverse_all d :
  defect_reverse (defect_reverse d) = d /\
  N.land (defect_reverse d) 255 = defect_reverse (N.land d 255) /\
  N.shiftr (defect_reverse d) 8 = N.shiftr d 8 /\
  has_flag (defect_reverse d) D_MISS_LEFT = has_flag d D_MISS_RIGHT /\
  has_flag (defect_reverse d) D_MISS_RIGHT = has_flag d D_MISS_LEFT /\
  has_flag (defect_reverse d) D_BEYOND_LEFT = has_flag d D_BEYOND_RIGHT /\
  has_flag (defect_reverse d) D_BEYOND_RIGHT = has_flag d D_BEYOND_LEFT /\
  has_flag (defect_reverse d) D_UNKNOWN_LEFT = has_flag d D_UNKNOWN_RIGHT /\
  has_flag (defect_reverse d) D_UNKNOWN_RIGHT = has_flag d D_UNKNOWN_LEFT.
Proof.
  split; [apply defect_reverse_invol_all|]. split; [apply low_defect_reverse|]. split; [apply defect_reverse_high|].
  destruct flags_low as (F1 & F2 & F3 & F4 & F5 & F6).
  destruct (defect_reverse_spec (low d) (low_lt d)) as (_ & S1 & S2 & S3 & S4 & S5 & S6 & _).
  rewrite (has_flag_low (defect_reverse d)), (has_flag_low d D_MISS_RIGHT) by assumption.
  rewrite (has_flag_low (defect_reverse d) D_MISS_RIGHT), (has_flag_low d D_MISS_LEFT) by assumption.
  rewrite (has_flag_low (defect_reverse d) D_BEYOND_LEFT), (has_flag_low d D_BEYOND_RIGHT) by assumption.
  rewrite (has_flag_low (defect_reverse d) D_BEYOND_RIGHT), (has_flag_low d D_BEYOND_LEFT) by assumption.
  rewrite (has_flag_low (defect_reverse d) D_UNKNOWN_LEFT), (has_flag_low d D_UNKNOWN_RIGHT) by assumption.
  rewrite (has_flag_low (defect_reverse d) D_UNKNOWN_RIGHT), (has_flag_low d D_UNKNOWN_LEFT) by assumption.
  rewrite !low_defect_reverse. repeat split; assumption.
Qed.

(* ------------------------------------------------------------------ generic list helpers *)
Lemma all_some_map {A B} (f : A -> option B) (g : A -> B) l :
  (forall x, In x l -> f x = Some (g x)) -> all_some (map f l) = Some (map g l).
Proof.
  induction l as [|x l IH]; intros H; simpl; [reflexivity|].
  rewrite (H x (or_introl eq_refl)). rewrite IH; [reflexivity|]. intros y Hy. apply H. right. exact Hy.
Qed.
Lemma all_some_Forall {A B} (f : A -> option B) (P : B -> Prop) l r :
  (forall x y, f x = Some y -> P y) -> all_some (map f l) = Some r -> Forall P r.
Proof.
  intros Hf. revert r. induction l as [|x l IH]; intros r H; simpl in H.
  - inversion H. constructor.
  - destruct (f x) as [y|] eqn:E; [|discriminate]. destruct (all_some (map f l)) as [r'|]; [|discriminate].
    inversion H; subst. constructor; [eapply Hf; exact E|apply IH; reflexivity].
Qed.
Lemma all_some_length {A} (l : list (option A)) r : all_some l = Some r -> length r = length l.
Proof.
  revert r. induction l as [|x l IH]; intros r H; simpl in H.
  - inversion H. reflexivity.
  - destruct x; [|discriminate]. destruct (all_some l); [|discriminate]. inversion H; subst. simpl. f_equal. apply IH. reflexivity.
Qed.

(* ------------------------------------------------------------------ stable insertion sort *)
Section Sort.
  Variable le : loc -> loc -> bool.
  Definition hd_le (x : loc) (l : list loc) : bool := match l with [] => true | y :: _ => le x y end.
  Lemma sorted_cons x l : sorted_by le (x :: l) = hd_le x l && sorted_by le l.
  Proof. destruct l; simpl; [reflexivity|reflexivity]. Qed.

  Lemma insert_perm x l : Permutation (insert_by le x l) (x :: l).
  Proof.
    induction l as [|y l IH]; simpl; [apply Permutation_refl|].
    destruct (le x y); [apply Permutation_refl|].
    eapply Permutation_trans; [apply perm_skip; exact IH|apply perm_swap].
  Qed.
  Lemma sort_perm l : Permutation (sort_by le l) l.
  Proof.
    induction l as [|x l IH]; simpl; [constructor|].
    eapply Permutation_trans; [apply insert_perm|apply perm_skip; exact IH].
  Qed.
  Lemma sort_nil_iff l : sort_by le l = [] <-> l = [].
  Proof.
    split; intros H; [|subst; reflexivity].
    pose proof (sort_perm l) as P. rewrite H in P. apply Permutation_nil in P. exact P.
  Qed.

  Hypothesis le_total : forall x y, le x y = false -> le y x = true.
  Lemma insert_sorted x l : sorted_by le l = true -> sorted_by le (insert_by le x l) = true.
  Proof.
    induction l as [|y l IH]; intros H; [reflexivity|].
    cbn [insert_by]. destruct (le x y) eqn:E.
    - rewrite sorted_cons. cbn [hd_le]. rewrite E, H. reflexivity.
    - rewrite sorted_cons in H. apply andb_prop in H. destruct H as [H1 H2].
      rewrite sorted_cons. rewrite (IH H2), andb_true_r.
      destruct l as [|z l]; cbn [insert_by hd_le]; [apply le_total; exact E|].
      destruct (le x z); cbn [hd_le]; [apply le_total; exact E|exact H1].
  Qed.
  Lemma sort_sorted l : sorted_by le (sort_by le l) = true.
  Proof. induction l as [|x l IH]; [reflexivity|]. simpl. apply insert_sorted. exact IH. Qed.

  (* a sorted list is a fixpoint of the stable sort *)
  Lemma sort_id l : sorted_by le l = true -> sort_by le l = l.
  Proof.
    induction l as [|x l IH]; intros H; [reflexivity|].
    rewrite sorted_cons in H. apply andb_prop in H. destruct H as [H1 H2].
    simpl. rewrite (IH H2). destruct l as [|y l]; [reflexivity|]. cbn [hd_le] in H1. cbn [insert_by]. rewrite H1. reflexivity.
  Qed.

  Hypothesis le_trans : forall x y z, le x y = true -> le y z = true -> le x z = true.
  Lemma sorted_head_all x l : sorted_by le (x :: l) = true -> Forall (fun y => le x y = true) l.
  Proof.
    revert x. induction l as [|y l IH]; intros x H; [constructor|].
    rewrite sorted_cons in H. apply andb_prop in H. destruct H as [H1 H2]. cbn [hd_le] in H1.
    constructor; [exact H1|]. specialize (IH y H2).
    eapply Forall_impl; [|exact IH]. intros z Hz. eapply le_trans; eassumption.
  Qed.
  Lemma hd_le_Forall x l : Forall (fun y => le x y = true) l -> hd_le x l = true.
  Proof. intros H. destruct l; [reflexivity|]. inversion H; assumption. Qed.
  Lemma sorted_filter (p : loc -> bool) l : sorted_by le l = true -> sorted_by le (filter p l) = true.
  Proof.
    induction l as [|x l IH]; intros H; [reflexivity|].
    pose proof (sorted_head_all x l H) as A.
    rewrite sorted_cons in H. apply andb_prop in H. destruct H as [_ H2].
    cbn [filter]. destruct (p x); [|apply IH; exact H2].
    rewrite sorted_cons, (IH H2), andb_true_r. apply hd_le_Forall.
    rewrite Forall_forall in *. intros y Hy. apply A. apply filter_In in Hy. apply Hy.
  Qed.
End Sort.

Lemma sorted_map (le le' : loc -> loc -> bool) (f : loc -> loc) l :
  (forall x y, le' (f x) (f y) = le x y) -> sorted_by le' (map f l) = sorted_by le l.
Proof.
  intros H. induction l as [|x l IH]; [reflexivity|].
  cbn [map]. rewrite !sorted_cons, IH. f_equal. destruct l; [reflexivity|]. cbn [map hd_le]. apply H.
Qed.
Lemma sorted_map_mono (le : loc -> loc -> bool) (f : loc -> loc) l :
  (forall x y, le x y = true -> le (f x) (f y) = true) -> sorted_by le l = true -> sorted_by le (map f l) = true.
Proof.
  intros H. induction l as [|x l IH]; intros S; [reflexivity|].
  rewrite sorted_cons in S. apply andb_prop in S. destruct S as [S1 S2].
  cbn [map]. rewrite sorted_cons, (IH S2), andb_true_r. destruct l; [reflexivity|]. cbn [map hd_le] in *. apply H. exact S1.
Qed.
Lemma insert_map (le le' : loc -> loc -> bool) (f : loc -> loc) x l :
  (forall x y, le' (f x) (f y) = le x y) -> map f (insert_by le x l) = insert_by le' (f x) (map f l).
Proof.
  intros H. induction l as [|y l IH]; [reflexivity|].
  cbn [insert_by map]. rewrite H. destruct (le x y); [reflexivity|]. cbn [map]. rewrite IH. reflexivity.
Qed.
Lemma sort_map (le le' : loc -> loc -> bool) (f : loc -> loc) l :
  (forall x y, le' (f x) (f y) = le x y) -> map f (sort_by le l) = sort_by le' (map f l).
Proof.
  intros H. induction l as [|x l IH]; [reflexivity|].
  simpl. rewrite (insert_map le le' f _ _ H), IH. reflexivity.
Qed.

Lemma le_start_total x y : le_start x y = false -> le_start y x = true.
Proof. unfold le_start. lia. Qed.
Lemma le_start_trans x y z : le_start x y = true -> le_start y z = true -> le_start x z = true.
Proof. unfold le_start. lia. Qed.
Lemma ge_stop_total x y : ge_stop x y = false -> ge_stop y x = true.
Proof. unfold ge_stop. lia. Qed.
Lemma ge_stop_trans x y z : ge_stop x y = true -> ge_stop y z = true -> ge_stop x z = true.
Proof. unfold ge_stop. lia. Qed.
Lemma order_total s x y : order_of s x y = false -> order_of s y x = true.
Proof. unfold order_of. destruct (byte_eqb s cMinus); [apply ge_stop_total|apply le_start_total]. Qed.
Lemma order_trans s x y z : order_of s x y = true -> order_of s y z = true -> order_of s x z = true.
Proof. unfold order_of. destruct (byte_eqb s cMinus); [apply ge_stop_trans|apply le_start_trans]. Qed.

(* ------------------------------------------------------------------ the LocationTuple invariant *)
Definition has_strand (s : byte) (l : loc) : bool := byte_eqb (lstrand l) s.
Definition inv_s (s : byte) (t : list loc) : bool :=
  forallb loc_ok t && forallb (has_strand s) t && sorted_by (order_of s) t.

Lemma inv_locs_inv_s t : inv_locs t = true <-> t <> [] /\ exists s, inv_s s t = true.
Proof.
  split.
  - destruct t as [|l0 t]; [discriminate|]. intros H. split; [discriminate|]. exists (lstrand l0). exact H.
  - intros [Hn [s H]]. destruct t as [|l0 t]; [congruence|].
    unfold inv_locs. unfold inv_s in H.
    apply andb_prop in H. destruct H as [H H3]. apply andb_prop in H. destruct H as [H1 H2].
    assert (E : lstrand l0 = s).
    { cbn [forallb] in H2. apply andb_prop in H2. destruct H2 as [H2 _]. apply byte_eqb_eq in H2. exact H2. }
    unfold same_strand. rewrite E. unfold has_strand in H2. rewrite H1, H2, H3. reflexivity.
Qed.
Lemma inv_s_parts s t : inv_s s t = true ->
  Forall (fun l => loc_ok l = true) t /\ Forall (fun l => lstrand l = s) t /\ sorted_by (order_of s) t = true.
Proof.
  unfold inv_s. intros H. apply andb_prop in H. destruct H as [H H3]. apply andb_prop in H. destruct H as [H1 H2].
  rewrite forallb_forall in H1, H2. split; [|split; [|exact H3]]; apply Forall_forall; intros l Hl; [apply H1; exact Hl|].
  apply byte_eqb_eq. apply H2. exact Hl.
Qed.
Lemma inv_s_build s t :
  Forall (fun l => loc_ok l = true) t -> Forall (fun l => lstrand l = s) t -> sorted_by (order_of s) t = true -> inv_s s t = true.
Proof.
  intros H1 H2 H3. unfold inv_s. rewrite H3, andb_true_r. apply andb_true_intro. split; apply forallb_forall; intros l Hl.
  - rewrite Forall_forall in H1. apply H1. exact Hl.
  - rewrite Forall_forall in H2. apply byte_eqb_eq. apply H2. exact Hl.
Qed.
Lemma inv_locs_head t : inv_locs t = true -> exists l0 r, t = l0 :: r /\ inv_s (lstrand l0) t = true.
Proof. destruct t as [|l0 r]; [discriminate|]. intros H. exists l0, r. split; [reflexivity|exact H]. Qed.

Lemma mk_location_some a b s d m l : mk_location a b s d m = Some l ->
  l = mkLoc a b s d m /\ a < b /\ is_strand s = true.
Proof.
  unfold mk_location. destruct (a >=? b) eqn:E; [discriminate|]. destruct (is_strand s) eqn:F; [|discriminate].
  intros H. inversion H. repeat split. lia.
Qed.
Lemma mk_location_ok a b s d m : a < b -> is_strand s = true -> mk_location a b s d m = Some (mkLoc a b s d m).
Proof. intros H1 H2. unfold mk_location. rewrite H2. destruct (a >=? b) eqn:E; [lia|reflexivity]. Qed.
Lemma mk_location_loc_ok a b s d m l : mk_location a b s d m = Some l -> loc_ok l = true.
Proof.
  intros H. apply mk_location_some in H. destruct H as (-> & H1 & H2). unfold loc_ok. cbn. rewrite H2. lia.
Qed.
Lemma loc_ok_parts l : loc_ok l = true -> lstart l < lstop l /\ is_strand (lstrand l) = true.
Proof. unfold loc_ok. intros H. apply andb_prop in H. destruct H as [H1 H2]. split; [lia|exact H2]. Qed.

(* the constructor: its result always satisfies the invariant and is a permutation of the argument *)
Lemma mk_loctuple_some ls t : mk_loctuple ls = Some t ->
  exists l0 r, ls = l0 :: r /\ Forall (fun l => lstrand l = lstrand l0) ls /\ t = sort_by (order_of (lstrand l0)) ls.
Proof.
  unfold mk_loctuple. destruct ls as [|l0 r]; [discriminate|].
  destruct (forallb (same_strand l0) (l0 :: r)) eqn:E; [|discriminate].
  intros H. inversion H. exists l0, r. repeat split.
  rewrite forallb_forall in E. apply Forall_forall. intros l Hl. apply byte_eqb_eq. apply (E l Hl).
Qed.
Lemma Forall_perm {A} (P : A -> Prop) l l' : Permutation l l' -> Forall P l -> Forall P l'.
Proof. intros Hp H. rewrite Forall_forall in *. intros x Hx. apply H. eapply Permutation_in; [apply Permutation_sym; exact Hp|exact Hx]. Qed.
Lemma mk_loctuple_inv ls t : Forall (fun l => loc_ok l = true) ls -> mk_loctuple ls = Some t ->
  inv_locs t = true /\ Permutation ls t.
Proof.
  intros Hok H. apply mk_loctuple_some in H. destruct H as (l0 & r & E & Hs & ->).
  pose proof (sort_perm (order_of (lstrand l0)) ls) as P.
  split; [|apply Permutation_sym; exact P].
  apply inv_locs_inv_s. split.
  - intros C. apply sort_nil_iff in C. subst. discriminate.
  - exists (lstrand l0). apply inv_s_build.
    + eapply Forall_perm; [apply Permutation_sym; exact P|exact Hok].
    + eapply Forall_perm; [apply Permutation_sym; exact P|exact Hs].
    + apply sort_sorted. apply order_total.
Qed.
(* and it is the identity on lists that already satisfy the invariant *)
Lemma mk_loctuple_id t : inv_locs t = true -> mk_loctuple t = Some t.
Proof.
  intros H. destruct t as [|l0 r]; [discriminate|].
  unfold inv_locs in H. apply andb_prop in H. destruct H as [H H3]. apply andb_prop in H. destruct H as [H1 H2].
  unfold mk_loctuple. rewrite H2. rewrite sort_id; [reflexivity|exact H3].
Qed.
Lemma mk_loctuple_inv_s s t : t <> [] -> inv_s s t = true -> mk_loctuple t = Some t.
Proof. intros Hn H. apply mk_loctuple_id. apply inv_locs_inv_s. split; [exact Hn|exists s; exact H]. Qed.
Lemma inv_locs_ok t : inv_locs t = true -> Forall (fun l => loc_ok l = true) t.
Proof. intros H. apply inv_locs_inv_s in H. destruct H as [_ [s H]]. apply (inv_s_parts s t H). Qed.

(* the reading of the invariant: non-empty, every location start<stop, one strand, 5'->3' *)
Lemma inv_locs_meaning t : inv_locs t = true ->
  t <> [] /\
  (forall l, In l t -> lstart l < lstop l /\ is_strand (lstrand l) = true) /\
  (exists s, (forall l, In l t -> lstrand l = s) /\
     (s = cMinus -> sorted_by ge_stop t = true) /\ (s <> cMinus -> sorted_by le_start t = true)).
Proof.
  intros H. apply inv_locs_inv_s in H. destruct H as [Hn [s H]]. apply inv_s_parts in H. destruct H as (H1 & H2 & H3).
  split; [exact Hn|]. split.
  - intros l Hl. rewrite Forall_forall in H1. apply loc_ok_parts. apply H1. exact Hl.
  - exists s. split; [intros l Hl; rewrite Forall_forall in H2; apply H2; exact Hl|].
    unfold order_of in H3. split; intros E.
    + subst. rewrite byte_eqb_refl in H3. exact H3.
    + apply byte_eqb_neq in E. rewrite E in H3. exact H3.
Qed.
(* sortedness spelled out on positions *)
Lemma sorted_by_nth le (le_trans : forall x y z, le x y = true -> le y z = true -> le x z = true) t :
  sorted_by le t = true -> forall i j d, (i < j < length t)%nat -> le (nth i t d) (nth j t d) = true.
Proof.
  induction t as [|x t IH]; intros H i j d Hij; [simpl in Hij; lia|].
  pose proof (sorted_head_all le le_trans x t H) as A.
  rewrite sorted_cons in H. apply andb_prop in H. destruct H as [_ H2].
  destruct j as [|j]; [lia|]. destruct i as [|i].
  - cbn [nth]. rewrite Forall_forall in A. apply A. apply nth_In. simpl in Hij. lia.
  - cbn [nth]. apply IH; [exact H2|]. simpl in Hij. lia.
Qed.

(* ------------------------------------------------------------------ range and comparisons *)
Lemma fold_min_spec l a : (fold_left Z.min l a <= a) /\ (forall x, In x l -> fold_left Z.min l a <= x) /\
  (fold_left Z.min l a = a \/ In (fold_left Z.min l a) l).
Proof.
  revert a. induction l as [|y l IH]; intros a; cbn [fold_left].
  - split; [lia|]. split; [intros x []|left; reflexivity].
  - destruct (IH (Z.min a y)) as (H1 & H2 & H3). split; [lia|]. split.
    + intros x [->|Hx]; [lia|apply H2; exact Hx].
    + destruct H3 as [H3|H3]; [|right; right; exact H3].
      destruct (Z.min_spec a y) as [[_ E]|[_ E]]; [left; rewrite H3; exact E|right; left; rewrite H3; symmetry; exact E].
Qed.
Lemma fold_max_spec l a : (a <= fold_left Z.max l a) /\ (forall x, In x l -> x <= fold_left Z.max l a) /\
  (fold_left Z.max l a = a \/ In (fold_left Z.max l a) l).
Proof.
  revert a. induction l as [|y l IH]; intros a; cbn [fold_left].
  - split; [lia|]. split; [intros x []|left; reflexivity].
  - destruct (IH (Z.max a y)) as (H1 & H2 & H3). split; [lia|]. split.
    + intros x [->|Hx]; [lia|apply H2; exact Hx].
    + destruct H3 as [H3|H3]; [|right; right; exact H3].
      destruct (Z.max_spec a y) as [[_ E]|[_ E]]; [right; left; rewrite H3; symmetry; exact E|left; rewrite H3; exact E].
Qed.
(* range = (least start, greatest stop) *)
Lemma range_spec t : t <> [] ->
  (forall l, In l t -> fst (range t) <= lstart l /\ lstop l <= snd (range t)) /\
  (exists l, In l t /\ lstart l = fst (range t)) /\ (exists l, In l t /\ lstop l = snd (range t)).
Proof.
  destruct t as [|l0 r]; [congruence|]. intros _. unfold range. cbn [fst snd].
  destruct (fold_min_spec (map lstart r) (lstart l0)) as (A1 & A2 & A3).
  destruct (fold_max_spec (map lstop r) (lstop l0)) as (B1 & B2 & B3).
  split; [|split].
  - intros l [<-|Hl]; [lia|]. split; [apply A2|apply B2]; apply in_map; exact Hl.
  - destruct A3 as [A3|A3]; [exists l0; split; [left; reflexivity|symmetry; exact A3]|].
    apply in_map_iff in A3. destruct A3 as (l & E & Hl). exists l. split; [right; exact Hl|exact E].
  - destruct B3 as [B3|B3]; [exists l0; split; [left; reflexivity|symmetry; exact B3]|].
    apply in_map_iff in B3. destruct B3 as (l & E & Hl). exists l. split; [right; exact Hl|exact E].
Qed.
Lemma range_nonempty t : inv_locs t = true -> fst (range t) < snd (range t).
Proof.
  intros H. pose proof (inv_locs_meaning t H) as (Hn & Hok & _).
  destruct (range_spec t Hn) as (A & (l & Hl & E) & _).
  destruct (A l Hl) as [_ A2]. destruct (Hok l Hl) as [B _]. lia.
Qed.

Lemma cmp_defs t u :
  lt_lt t u = ranges_lt (range t) (range u) /\
  lt_le t u = (ranges_lt (range t) (range u) || ranges_eq (range t) (range u)) /\
  lt_gt t u = ranges_lt (range u) (range t) /\
  lt_ge t u = (ranges_lt (range u) (range t) || ranges_eq (range t) (range u)) /\
  lt_overlaps t u = lt_overlaps u t.
Proof.
  unfold lt_lt, lt_le, lt_gt, lt_ge, lt_overlaps, ranges_lt, ranges_eq.
  destruct (range t) as [s e], (range u) as [s2 e2]. cbn [fst snd]. repeat split; lia.
Qed.
Lemma ranges_lt_lex p q : ranges_lt p q = true <-> (fst p < fst q \/ (fst p = fst q /\ snd p < snd q)).
Proof. unfold ranges_lt. lia. Qed.
Lemma ranges_eq_eq p q : ranges_eq p q = true <-> p = q.
Proof.
  unfold ranges_eq. destruct p, q. cbn [fst snd]. split; [intros H; f_equal; lia|intros H; inversion H; lia].
Qed.
Lemma ranges_trichotomy p q :
  (ranges_lt p q = true /\ ranges_eq p q = false /\ ranges_lt q p = false) \/
  (ranges_lt p q = false /\ ranges_eq p q = true /\ ranges_lt q p = false) \/
  (ranges_lt p q = false /\ ranges_eq p q = false /\ ranges_lt q p = true).
Proof. unfold ranges_lt, ranges_eq. lia. Qed.
Lemma ranges_lt_trans p q r : ranges_lt p q = true -> ranges_lt q r = true -> ranges_lt p r = true.
Proof. unfold ranges_lt. lia. Qed.
Lemma overlaps_spec t u : fst (range t) < snd (range t) -> fst (range u) < snd (range u) ->
  (lt_overlaps t u = true <->
   exists p, fst (range t) <= p < snd (range t) /\ fst (range u) <= p < snd (range u)).
Proof.
  unfold lt_overlaps. destruct (range t) as [s e], (range u) as [s2 e2]. cbn [fst snd]. intros N1 N2. split.
  - intros H. exists (Z.max s s2). lia.
  - intros [p H]. lia.
Qed.
