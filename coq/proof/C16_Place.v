(* C16 proofs, round 7: the PLACE a key is looked up, per collection kind.  The helpers read an object only through the value at
   place_of_key K k (metadata for FeatureList / BioBasket, attributes for BioMatchList, the callable's own value otherwise):
   the other places are irrelevant, and two collections that agree on identities and on the values at the places of the keys
   used get the same (rendered) answer from groupby and sort. *)
From Coq Require Import List ZArith NArith Bool Lia Permutation Sorted.
From Coq.Strings Require Import Byte.
Import ListNotations.
From SV Require Import Text C16_StableSort C16_Model C16_Lemmas.

Lemma assoc_app {V} k (a b : list (str * V)) : assoc k (a ++ b) = opt_or (assoc k a) (assoc k b).
Proof.
  induction a as [|[k' v] a IH]; simpl.
  - destruct (assoc k b); reflexivity.
  - destruct (str_eqb k' k); [reflexivity | exact IH].
Qed.

(* ------------------------------------------------------------------ the decision table *)
Lemma place_table K k o : keyval k (xview K o) = place_val K (place_of_key K k) o.
Proof.
  destruct k; try reflexivity.
  destruct K; try reflexivity.
  simpl. unfold mget, getattr_none. simpl. rewrite assoc_app. reflexivity.
Qed.

Lemma xkeyval_view K k o : xkeyval K k o = keyval k (xview K o).
Proof. unfold xkeyval. symmetry. apply place_table. Qed.

Lemma cond_place K s o : attr_is_meta K = true -> getv s (xview K o) = place_val K (place_of_cond s) o.
Proof.
  intros HK. unfold getv, place_of_cond, xview. rewrite HK.
  destruct (str_eqb s k_len); reflexivity.
Qed.

Lemma eidx_view K o : eidx (xview K o) = eidx (xe o).
Proof. destruct K; reflexivity. Qed.

Lemma place_table_full :
  (forall K k o, keyval k (xview K o) = place_val K (place_of_key K k) o) /\
  (forall K s o, attr_is_meta K = true -> getv s (xview K o) = place_val K (place_of_cond s) o) /\
  (forall s, place_of_key CFl (KMeta s) = PlMeta s /\ place_of_key CBb (KMeta s) = PlMeta s /\ place_of_key CMl (KMeta s) = PlAttr s) /\
  (forall K k, (forall s, k <> KMeta s) -> place_of_key K k = PlCall k) /\
  (forall s o, place_val CMl (PlAttr s) o =
     match assoc s (xinst o) with Some v => v | None => match assoc s (xwrap o) with Some v => v | None => PNone end end) /\
  (forall K s o, place_val K (PlMeta s) o = match assoc s (emeta (xe o)) with Some v => v | None => PNone end) /\
  place_of_cond k_len = PlLen /\ (forall s, str_eqb s k_len = false -> place_of_cond s = PlMeta s).
Proof.
  split; [exact place_table|]. split; [exact cond_place|].
  split; [intros s; repeat split|].
  split. { intros K k Hk. destruct k; try reflexivity. exfalso. exact (Hk k eq_refl). }
  split. { intros s o. unfold place_val, getattr_none, opt_or. destruct (assoc s (xinst o)); reflexivity. }
  split. { reflexivity. }
  split. { reflexivity. }
  intros s Hs. unfold place_of_cond. rewrite Hs. reflexivity.
Qed.

(* ------------------------------------------------------------------ the other places are irrelevant *)
Definition same_place (K : ckind) (o o' : xobj) : Prop :=
  if attr_is_meta K then xe o = xe o'
  else eidx (xe o) = eidx (xe o') /\ xinst o = xinst o' /\ xwrap o = xwrap o'.

Lemma view_same_place K o o' : same_place K o o' -> xview K o = xview K o'.
Proof.
  unfold same_place, xview. destruct (attr_is_meta K).
  - intros H. exact H.
  - intros (H1 & H2 & H3). rewrite H1, H2, H3. reflexivity.
Qed.

Lemma views_same_place K objs objs' : Forall2 (same_place K) objs objs' -> map (xview K) objs = map (xview K) objs'.
Proof.
  induction 1 as [|o o' l l' H _ IH]; simpl; [reflexivity|].
  rewrite (view_same_place K o o' H), IH. reflexivity.
Qed.

Lemma other_place_irrelevant K objs objs' : Forall2 (same_place K) objs objs' ->
  (forall ks, x_groupby K ks objs = x_groupby K ks objs') /\
  (forall ks r, x_sort K ks r objs = x_sort K ks r objs') /\
  (forall conds, x_filter K conds objs = x_filter K conds objs').
Proof.
  intros H. unfold x_groupby, x_sort, x_filter. rewrite (views_same_place K objs objs' H).
  repeat split.
Qed.

(* ------------------------------------------------------------------ groupby reads only the values at the places of its keys *)
(* two elements that the helper cannot tell apart through the keys kfs *)
Definition alike (kfs : list key) (x y : elem) : Prop :=
  eidx x = eidx y /\ Forall (fun k => keyval k x = keyval k y) kfs.

Lemma alike_idx kfs l l' : Forall2 (alike kfs) l l' -> map eidx l = map eidx l'.
Proof. induction 1 as [|x y l l' [H _] _ IH]; simpl; [reflexivity | rewrite H, IH; reflexivity]. Qed.

Lemma alike_keys kfs k l l' : In k kfs -> Forall2 (alike kfs) l l' -> map (keyval k) l = map (keyval k) l'.
Proof.
  intros Hk. induction 1 as [|x y l l' [_ H] _ IH]; simpl; [reflexivity|].
  rewrite Forall_forall in H. rewrite (H k Hk), IH. reflexivity.
Qed.

Lemma alike_tail k kfs x y : alike (k :: kfs) x y -> alike kfs x y.
Proof. intros [H1 H2]. split; [exact H1 | inversion H2; assumption]. Qed.

Lemma alike_filter k kfs v l l' : Forall2 (alike (k :: kfs)) l l' ->
  Forall2 (alike kfs) (filter (fun x => pv_eqb (keyval k x) v) l) (filter (fun x => pv_eqb (keyval k x) v) l').
Proof.
  induction 1 as [|x y l l' H _ IH]; simpl; [constructor|].
  assert (Hk : keyval k x = keyval k y) by (destruct H as [_ H2]; inversion H2; assumption).
  rewrite Hk. destruct (pv_eqb (keyval k y) v); [constructor; [exact (alike_tail k kfs x y H) | exact IH] | exact IH].
Qed.

Lemma spec_tree_alike kfs : forall l l', Forall2 (alike kfs) l l' -> vtree (spec_tree kfs l) = vtree (spec_tree kfs l').
Proof.
  induction kfs as [|k kfs IH]; intros l l' H.
  - simpl. unfold vidx. rewrite <- !(map_map eidx (fun i => VI (Z.of_nat i))). rewrite (alike_idx [] l l' H). reflexivity.
  - simpl. rewrite !map_map. simpl.
    rewrite (alike_keys (k :: kfs) k l l' (or_introl eq_refl) H).
    f_equal. apply map_ext. intros v.
    rewrite (IH _ _ (alike_filter k kfs v l l' H)). reflexivity.
Qed.

Lemma Forall2_nil_iff {A B} (R : A -> B -> Prop) l l' : Forall2 R l l' -> (l = [] <-> l' = []).
Proof. intros H. inversion H; subst; split; intros E; try reflexivity; discriminate. Qed.

Lemma groupby_alike ks l l' : Forall2 (alike (keyfuncs ks)) l l' ->
  vres vtree (m_groupby ks l) = vres vtree (m_groupby ks l').
Proof.
  intros H.
  destruct (m_groupby ks l) as [t|e] eqn:E1; destruct (m_groupby ks l') as [t'|e'] eqn:E2.
  - destruct l as [|x l]; destruct l' as [|y l']; try (inversion H; fail).
    + unfold m_groupby in E1, E2. inversion E1; inversion E2. reflexivity.
    + rewrite (groupby_complete ks (x :: l) t E1) by discriminate.
      rewrite (groupby_complete ks (y :: l') t' E2) by discriminate.
      simpl. apply spec_tree_alike. exact H.
  - exfalso. unfold m_groupby in E1, E2.
    destruct l as [|x l]; destruct l' as [|y l']; try (inversion H; fail); try discriminate.
    destruct (keyfuncs ks); [discriminate|]. destruct (has_default (k :: l0)); discriminate.
  - exfalso. unfold m_groupby in E1, E2.
    destruct l as [|x l]; destruct l' as [|y l']; try (inversion H; fail); try discriminate.
    destruct (keyfuncs ks); [discriminate|]. destruct (has_default (k :: l0)); discriminate.
  - unfold m_groupby in E1, E2.
    destruct l as [|x l]; destruct l' as [|y l']; try (inversion H; fail); try discriminate.
    destruct (keyfuncs ks); [inversion E1; inversion E2; reflexivity|].
    destruct (has_default (k :: l0)); [inversion E1; inversion E2; reflexivity | discriminate].
Qed.

(* objects that agree on identity and on the values at the places of the keys used *)
Definition same_at (K : ckind) (kfs : list key) (o o' : xobj) : Prop :=
  eidx (xe o) = eidx (xe o') /\ Forall (fun k => xkeyval K k o = xkeyval K k o') kfs.

Lemma same_at_alike K kfs objs objs' : Forall2 (same_at K kfs) objs objs' ->
  Forall2 (alike kfs) (map (xview K) objs) (map (xview K) objs').
Proof.
  induction 1 as [|o o' l l' [H1 H2] _ IH]; simpl; constructor; [|exact IH].
  split. { rewrite !eidx_view. exact H1. }
  rewrite Forall_forall in *. intros k Hk. rewrite <- !xkeyval_view. exact (H2 k Hk).
Qed.

Lemma groupby_reads_only_place K ks objs objs' : Forall2 (same_at K (keyfuncs ks)) objs objs' ->
  vres vtree (x_groupby K ks objs) = vres vtree (x_groupby K ks objs').
Proof. intros H. unfold x_groupby. apply groupby_alike. apply same_at_alike. exact H. Qed.

(* ------------------------------------------------------------------ sort reads only the values at the places of its keys *)
Lemma insert_alike kfs (le : elem -> elem -> bool) :
  (forall x y x' y', alike kfs x y -> alike kfs x' y' -> le x x' = le y y') ->
  forall x y l l', alike kfs x y -> Forall2 (alike kfs) l l' -> Forall2 (alike kfs) (insert le x l) (insert le y l').
Proof.
  intros Hle x y l l' Hxy H. induction H as [|a b l l' Hab H IH]; simpl.
  - constructor; [exact Hxy | constructor].
  - rewrite (Hle x y a b Hxy Hab). destruct (le y b).
    + constructor; [exact Hxy|]. constructor; assumption.
    + constructor; [exact Hab | exact IH].
Qed.

Lemma isort_alike kfs (le : elem -> elem -> bool) :
  (forall x y x' y', alike kfs x y -> alike kfs x' y' -> le x x' = le y y') ->
  forall l l', Forall2 (alike kfs) l l' -> Forall2 (alike kfs) (isort le l) (isort le l').
Proof.
  intros Hle l l' H. induction H as [|a b l l' Hab H IH]; simpl; [constructor|].
  apply insert_alike; assumption.
Qed.

Definition no_default (kfs : list key) : Prop := Forall (fun k => k <> KDefault) kfs.

Lemma key_le_alike kfs k r : In k kfs -> k <> KDefault ->
  forall x y x' y', alike kfs x y -> alike kfs x' y' -> dir r (key_le k) x x' = dir r (key_le k) y y'.
Proof.
  intros Hk Hd x y x' y' [_ H] [_ H'].
  rewrite Forall_forall in H, H'.
  assert (E : forall a b a' b', keyval k a = keyval k b -> keyval k a' = keyval k b' -> key_le k a a' = key_le k b b').
  { intros a b a' b' E1 E2. rewrite !(key_le_meaning k) by exact Hd. rewrite E1, E2. reflexivity. }
  destruct r; unfold dir, flip_le; apply E; auto.
Qed.

Lemma sorted_by_alike kfs r : forall sub, (forall k, In k sub -> In k kfs /\ k <> KDefault) ->
  forall l l', Forall2 (alike kfs) l l' ->
  Forall2 (alike kfs) (fold_left (fun o k => py_sorted r k o) sub l) (fold_left (fun o k => py_sorted r k o) sub l').
Proof.
  induction sub as [|k sub IH]; intros Hsub l l' H; simpl; [exact H|].
  apply IH. { intros k' Hk'. apply Hsub. right. exact Hk'. }
  unfold py_sorted. apply isort_alike; [|exact H].
  destruct (Hsub k (or_introl eq_refl)) as [Hin Hd].
  exact (key_le_alike kfs k r Hin Hd).
Qed.

Lemma sort_reads_only_place K ks r objs objs' : no_default (keyfuncs ks) ->
  Forall2 (same_at K (keyfuncs ks)) objs objs' ->
  map eidx (x_sort K ks r objs) = map eidx (x_sort K ks r objs').
Proof.
  intros Hd H. unfold x_sort, m_sort, sorted_by.
  apply (alike_idx (keyfuncs ks)). apply sorted_by_alike; [|apply same_at_alike; exact H].
  intros k Hk. apply in_rev in Hk. split; [exact Hk|].
  unfold no_default in Hd. rewrite Forall_forall in Hd. exact (Hd k Hk).
Qed.

(* ------------------------------------------------------------------ BioMatchList.groupby by one attribute name *)
Lemma filter_map {A B} (f : A -> B) (P : B -> bool) l : filter P (map f l) = map f (filter (fun x => P (f x)) l).
Proof. induction l as [|a l IH]; simpl; [reflexivity|]. destruct (P (f a)); simpl; rewrite IH; reflexivity. Qed.

Lemma matchlist_groupby_attr s objs t v : x_groupby CMl (KsTuple [KMeta s]) objs = Ok t ->
  glookup [v] t = map (xview CMl) (filter (fun o => pv_eqb (getattr_none s o) v) objs).
Proof.
  intros H. unfold x_groupby in H.
  rewrite (groupby_spec (KsTuple [KMeta s]) _ t [v] H eq_refl).
  rewrite filter_map. f_equal. apply filter_ext. intros o.
  simpl. rewrite andb_true_r.
  change (mget s (xview CMl o)) with (keyval (KMeta s) (xview CMl o)).
  rewrite place_table. reflexivity.
Qed.

(* ------------------------------------------------------------------ filter reads only the values at the places of its conditions *)
Definition cond_same (x y : elem) (c : cond) : Prop :=
  match parse_cond c with Ok (key, _) => getv key x = getv key y | Err _ => True end.
Definition alike_c (conds : list cond) (x y : elem) : Prop := eidx x = eidx y /\ Forall (cond_same x y) conds.

Lemma cond_eval_alike c x y : cond_same x y c -> cond_eval c x = cond_eval c y.
Proof. unfold cond_same, cond_eval. destruct (parse_cond c) as [[key o]|e]; intros H; [rewrite H|]; reflexivity. Qed.

Definition res_rel {A} (R : A -> A -> Prop) (a b : res A) : Prop :=
  match a, b with Ok x, Ok y => R x y | Err e, Err e' => e = e' | _, _ => False end.

Lemma filter_m_alike (R : elem -> elem -> Prop) f : (forall x y, R x y -> f x = f y) ->
  forall l l', Forall2 R l l' -> res_rel (Forall2 R) (filter_m f l) (filter_m f l').
Proof.
  intros Hf l l' H. induction H as [|x y l l' Hxy H IH]; simpl; [constructor|].
  rewrite (Hf x y Hxy). destruct (f y) as [b|e]; [|reflexivity].
  destruct (filter_m f l) as [a|e1]; destruct (filter_m f l') as [a'|e2]; simpl in IH; try contradiction.
  - simpl. destruct b; [constructor; assumption | exact IH].
  - exact IH.
Qed.

Lemma m_filter_alike all : forall conds, (forall c, In c conds -> In c all) ->
  forall l l', Forall2 (alike_c all) l l' -> res_rel (Forall2 (alike_c all)) (m_filter conds l) (m_filter conds l').
Proof.
  induction conds as [|c conds IH]; intros Hsub l l' H; simpl; [exact H|].
  destruct (parse_cond c) as [p|e] eqn:Ep; [|reflexivity].
  assert (Hc : forall x y, alike_c all x y -> cond_eval c x = cond_eval c y).
  { intros x y [_ Hxy]. apply cond_eval_alike. rewrite Forall_forall in Hxy. apply Hxy. apply Hsub. left. reflexivity. }
  pose proof (filter_m_alike (alike_c all) (cond_eval c) Hc l l' H) as HF.
  destruct (filter_m (cond_eval c) l) as [a|e1]; destruct (filter_m (cond_eval c) l') as [a'|e2]; simpl in HF; try contradiction.
  - apply IH; [|exact HF]. intros c' Hc'. apply Hsub. right. exact Hc'.
  - exact HF.
Qed.

Lemma alike_c_idx conds l l' : Forall2 (alike_c conds) l l' -> vidx l = vidx l'.
Proof.
  intros H. unfold vidx. f_equal. induction H as [|x y l l' [Hxy _] _ IH]; simpl; [reflexivity|]. rewrite Hxy, IH. reflexivity.
Qed.

Lemma filter_alike conds l l' : Forall2 (alike_c conds) l l' -> vres vidx (m_filter conds l) = vres vidx (m_filter conds l').
Proof.
  intros H. pose proof (m_filter_alike conds conds (fun c Hc => Hc) l l' H) as HF.
  destruct (m_filter conds l) as [a|e1]; destruct (m_filter conds l') as [a'|e2]; simpl in HF; try contradiction.
  - simpl. exact (alike_c_idx conds a a' HF).
  - simpl. rewrite HF. reflexivity.
Qed.

Definition same_at_c (K : ckind) (conds : list cond) (o o' : xobj) : Prop :=
  eidx (xe o) = eidx (xe o') /\
  Forall (fun c => match parse_cond c with
                   | Ok (key, _) => place_val K (place_of_cond key) o = place_val K (place_of_cond key) o'
                   | Err _ => True
                   end) conds.

Lemma filter_reads_only_place K conds objs objs' : attr_is_meta K = true -> Forall2 (same_at_c K conds) objs objs' ->
  vres vidx (x_filter K conds objs) = vres vidx (x_filter K conds objs').
Proof.
  intros HK H. unfold x_filter. apply filter_alike.
  induction H as [|o o' l l' [H1 H2] _ IH]; simpl; constructor; [|exact IH].
  split. { rewrite !eidx_view. exact H1. }
  rewrite Forall_forall in *. intros c Hc. specialize (H2 c Hc). unfold cond_same.
  destruct (parse_cond c) as [[key op]|e]; [|exact I].
  rewrite !(cond_place K key) by exact HK. exact H2.
Qed.

(* non-vacuity witness for the round-7 theorems (stated again in props/C16_Props.v) *)
Lemma witness_round7 :
  let k_rf := bs "rf"%bs in let k_pos := bs "pos"%bs in
  let f0 := mkX (Ft 0 [(0, 3)%Z] [(k_rf, PInt 2)]) [(k_rf, PInt 5)] [] in
  let f1 := mkX (Ft 1 [(1, 4)%Z] [(k_rf, PInt 0)]) [(k_rf, PInt 5)] [] in
  let f0' := mkX (Ft 0 [(0, 3)%Z] [(k_rf, PInt 2)]) [] [] in
  let f1' := mkX (Ft 1 [(1, 4)%Z] [(k_rf, PInt 0)]) [(k_rf, PInt 7)] [] in
  let m0 := mkX (Sq 0 [] [(k_rf, PInt (-1))]) [(k_rf, PInt 1); (k_seqid, PStr (bs "q"%bs))] [(k_pos, PInt 3)] in
  let m1 := mkX (Sq 1 [] []) [(k_rf, PInt 0); (k_seqid, PNone); (k_pos, PInt 9)] [(k_pos, PInt 3)] in
  xstep_wf (XsGroup CFl [f0; f1] (KsStr k_rf)) = true /\ xstep_wf (XsSort CFl [f0; f1] (KsStr k_rf) false) = true /\
  xstep_wf (XsGroup CMl [m0; m1] (KsStr (bs "rf pos"%bs))) = true /\
  xstep_wf (XsFilter CFl [f0; f1] [(bs "rf_eq"%bs, FV (PInt 2))]) = true /\
  vres vtree (x_groupby CFl (KsStr k_rf) [f0; f1]) = VL [VL [VI 2; VL [VI 0]]; VL [VI 0; VL [VI 1]]] /\
  map eidx (x_sort CFl (KsStr k_rf) false [f0; f1]) = [1; 0]%nat /\
  vres vtree (x_groupby CMl (KsStr (bs "rf pos"%bs)) [m0; m1]) = VL [VL [VI 1; VL [VL [VI 3; VL [VI 0]]]]; VL [VI 0; VL [VL [VI 9; VL [VI 1]]]]] /\
  Forall2 (same_place CFl) [f0; f1] [f0'; f1'] /\ Forall2 (same_at CMl [KMeta k_rf]) [m0; m1] [m0; mkX (Sq 1 [] [(k_rf, PInt 4)]) [(k_rf, PInt 0)] []] /\
  no_default (keyfuncs (KsStr k_rf)) /\
  Forall2 (same_at_c CFl [(bs "rf_eq"%bs, FV (PInt 2))]) [f0; f1] [f0'; f1'].
Proof.
  repeat split; try reflexivity; repeat constructor; discriminate.
Qed.

(* ------------------------------------------------------------------ histories across kinds have no state *)
Definition xhist_vals (steps : list xstep) : list val := map (fun s => result (xstep_req s)) steps.
Lemma xhist_stateless :
  (forall steps, run_C16_xhist steps = VL [VB (forallb xstep_wf steps); VL (xhist_vals steps)]) /\
  (forall pre s post, nth_error (xhist_vals (pre ++ s :: post)) (length pre) = Some (result (xstep_req s))) /\
  (forall steps steps', Permutation steps steps' -> Permutation (xhist_vals steps) (xhist_vals steps')).
Proof.
  split; [reflexivity|]. split.
  - intros pre s post. unfold xhist_vals. rewrite map_app. rewrite nth_error_app2 by (rewrite map_length; lia).
    rewrite map_length, Nat.sub_diag. reflexivity.
  - intros steps steps' H. unfold xhist_vals. apply Permutation_map. exact H.
Qed.
