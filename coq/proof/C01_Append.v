(* C01 proofs: mode 'a' of write() for every format: which plugin function is called, and what the appended file is. *)
From Coq Require Import List ZArith NArith Bool Lia Arith.
From Coq.Strings Require Import Byte.
Import ListNotations.
From SV Require Import Text C01_Lines G_codes G_c01_io C01_Model C01_Lemmas C01_Formats C01_Stockholm C01_Main.

(* write(), main.py:436-446: with 'a' in mode the per-sequence append_<fmt> is used where the plugin has one (FASTA);
   the other plugins have only write_<fmt>, which is then called once on the handle opened for appending *)
Theorem append_dispatch f b :
  write_dispatch f true false b = Ok (if has_append f then append_each f b else write_fmt f b)
  /\ write_dispatch f false true b = Ok (if has_write f then write_fmt f b else append_each f b)
  /\ (has_append f = true <-> f = Fasta) /\ (has_write f = false <-> f = Fasta).
Proof.
  destruct f; (split; [reflexivity|]); (split; [reflexivity|]); split; split; intros H; try reflexivity; try discriminate.
Qed.
(* the appended file is the old characters followed by the new ones *)
Theorem append_file f old b : exists c, write_w f b = Ok c /\ write_file f true old b = Ok (content_app old c).
Proof. destruct f; eexists; split; reflexivity. Qed.

(* Stockholm: everything after the first '//' is ignored by the reader *)
Lemma stk_loop_end b : forall d rest, forallb wfb_stk b = true -> distinct (map fst d ++ ids_of b) = true ->
  stk_loop (map stk_seq_line b ++ bs "//"%bs :: rest) d = Ok (d ++ map row b).
Proof.
  induction b as [|s b IH]; intros d rest H Hd.
  - cbn [map app]. rewrite app_nil_r. reflexivity.
  - cbn [forallb] in H. apply andb_prop in H. destruct H as [Hs Hb].
    cbn [map app stk_loop]. rewrite (stk_seq_step s d Hs). cbn [bind].
    unfold ids_of in Hd. cbn [map] in Hd. fold (ids_of b) in Hd.
    rewrite (dict_append_fresh _ _ d (distinct_app_fresh _ _ _ Hd)).
    rewrite IH; [rewrite <- app_assoc; reflexivity|exact Hb|].
    rewrite map_app. cbn [map fst]. rewrite <- app_assoc. exact Hd.
Qed.
(* ... so appending a second alignment with mode 'a' is NOT writing the concatenated basket: only the first one is read back
   (write()'s documentation: mode 'a' "will only work with compatible formats (i.e. FASTA)") *)
Theorem stk_append_reads_first b1 b2 : wf_stk_basket b1 = true -> forallb wfb_stk b2 = true ->
  exists c, bind (write_w Stockholm b1) (fun c1 => write_file Stockholm true c1 b2) = Ok c
            /\ read_content Stockholm c = Ok (map (norm_plain Stockholm) b1).
Proof.
  unfold wf_stk_basket. intros H H2. apply andb_prop in H. destruct H as [H Hd].
  exists (CText (unlines (write_stockholm_lines b1) ++ unlines (write_stockholm_lines b2))). split; [reflexivity|].
  unfold read_content. rewrite <- unlines_app.
  rewrite text_lines_unlines by (rewrite forallb_app; rewrite !stk_lines_clean; auto).
  unfold read_stockholm_lines. unfold write_stockholm_lines at 1. cbn [app stk_loop].
  change (stk_line (bs "# STOCKHOLM 1.0"%bs) []) with (@Ok (list (str * str) * bool) ([], false)). cbn [bind].
  rewrite <- app_assoc. cbn [app].
  rewrite (stk_loop_end b1 [] _ H Hd). cbn [app bind]. f_equal. rewrite !map_map. apply map_ext_in. intros s Hs.
  rewrite forallb_forall in H. rewrite (bioseq_row s (H s Hs)). reflexivity.
Qed.

(* read() prefers read_<fmt> and falls back to list(iter_<fmt>), iter_() prefers iter_<fmt> and falls back to read_<fmt>
   (main.py:232-255, 322-331); write() needs append_<fmt> or write_<fmt>. Each of the four plugins of /repo has exactly one
   reader entry point and exactly one writer entry point, so read() and iter_() run the same plugin function and
   'No read / write support' (RuntimeError) cannot happen in modes 'w' and 'a' *)
Definition has_read (f : fmt) : bool :=
  match f with Fasta => HAS_read_fasta | Stockholm => HAS_read_stockholm | Sjson => HAS_read_sjson | Gff => HAS_read_gff end.
Definition has_iter (f : fmt) : bool :=
  match f with Fasta => HAS_iter_fasta | Stockholm => HAS_iter_stockholm | Sjson => HAS_iter_sjson | Gff => HAS_iter_gff end.
Theorem plugins_complete f : xorb (has_read f) (has_iter f) = true /\ xorb (has_append f) (has_write f) = true
  /\ (forall b, exists c, write_dispatch f false true b = Ok c) /\ (forall b, exists c, write_dispatch f true false b = Ok c).
Proof. destruct f; repeat split; intros; eexists; reflexivity. Qed.
