(* C03 proofs, part 2: soundness of detection for the feature formats over renderer models
   (TSV/CSV writer output of any length, hit tables, ...). *)
From Coq Require Import List ZArith NArith Bool Lia.
From Coq.Strings Require Import Byte.
Import ListNotations.
From SV Require Import Text G_c03 C03_Model C03_Lemmas.

(* ------------------------------------------------------------------ splitlines *)

Lemma splitlines_aux_line : forall l rest cur, nolb l = true ->
  splitlines_aux (l ++ nl :: rest) cur = (rev cur ++ l) :: splitlines_aux rest [].
Proof.
  induction l as [|x l IH]; intros rest cur H.
  - cbn [app splitlines_aux]. change (byte_eqb nl x0d) with false. change (is_linebreak nl) with true. cbn iota.
    rewrite app_nil_r. reflexivity.
  - cbn [nolb forallb] in H. apply andb_prop in H. destruct H as [Hx Hl].
    cbn [app splitlines_aux].
    assert (Hd : byte_eqb x x0d = false).
    { destruct (byte_eqb x x0d) eqn:E; [|reflexivity]. apply byte_eqb_eq in E. subst x. discriminate. }
    rewrite Hd. apply negb_true_iff in Hx. rewrite Hx.
    rewrite IH by exact Hl. cbn [rev]. rewrite <- app_assoc. reflexivity.
Qed.
Lemma splitlines_aux_nolb : forall l cur, nolb l = true ->
  splitlines_aux l cur = match rev cur ++ l with [] => [] | x => [x] end.
Proof.
  induction l as [|x l IH]; intros cur H.
  - cbn [splitlines_aux]. rewrite app_nil_r. destruct cur as [|c cur]; [reflexivity|].
    destruct (rev (c :: cur)) eqn:E; [|reflexivity].
    apply (f_equal (@length byte)) in E. rewrite rev_length in E. discriminate.
  - cbn [nolb forallb] in H. apply andb_prop in H. destruct H as [Hx Hl].
    cbn [splitlines_aux].
    assert (Hd : byte_eqb x x0d = false).
    { destruct (byte_eqb x x0d) eqn:E; [|reflexivity]. apply byte_eqb_eq in E. subst x. discriminate. }
    rewrite Hd. apply negb_true_iff in Hx. rewrite Hx. rewrite IH by exact Hl. cbn [rev]. rewrite <- app_assoc. reflexivity.
Qed.
Lemma splitlines_line : forall l rest, nolb l = true -> splitlines (l ++ nl :: rest) = l :: splitlines rest.
Proof. intros. unfold splitlines. rewrite splitlines_aux_line by assumption. reflexivity. Qed.
Lemma splitlines_nonempty : forall s, s <> [] -> splitlines s <> [].
Proof.
  intros s Hs. unfold splitlines.
  assert (G : forall s cur, (s <> [] \/ cur <> []) -> splitlines_aux s cur <> []).
  { clear. induction s as [|x s IH]; intros cur H.
    - cbn. destruct cur; [destruct H; congruence|discriminate].
    - cbn [splitlines_aux]. destruct (byte_eqb x x0d).
      + destruct s as [|y s']; [discriminate|]. destruct y; discriminate.
      + destruct (is_linebreak x); [discriminate|]. apply IH. right. discriminate. }
  apply G. left. exact Hs.
Qed.

(* the window: complete lines of the first k characters of a text are a prefix of its lines *)
Lemma nolb_firstn : forall k l, nolb l = true -> nolb (firstn k l) = true.
Proof.
  intros k l. revert k. induction l as [|x l IH]; intros k H; destruct k; try reflexivity.
  cbn [nolb forallb firstn] in *. apply andb_prop in H. destruct H as [H1 H2]. rewrite H1. apply IH. exact H2.
Qed.
Lemma removelast_splitlines_nolb : forall l, nolb l = true -> removelast (splitlines l) = [].
Proof.
  intros l H. unfold splitlines. rewrite splitlines_aux_nolb by exact H. cbn [rev app]. destruct l; reflexivity.
Qed.
Lemma firstn_app_line : forall k l rest,
  firstn k (l ++ nl :: rest) =
  if Nat.leb k (length l) then firstn k l else l ++ nl :: firstn (k - length l - 1) rest.
Proof.
  intros k l rest. destruct (Nat.leb k (length l)) eqn:E.
  - apply Nat.leb_le in E. rewrite firstn_app. replace (k - length l) with 0 by lia. cbn [firstn]. apply app_nil_r.
  - apply Nat.leb_gt in E. rewrite firstn_app. rewrite firstn_all2 by lia.
    destruct (k - length l) as [|m] eqn:Em; [lia|]. cbn [firstn]. replace (S m - 1) with m by lia. reflexivity.
Qed.
Lemma window_prefix : forall ls k, forallb nolb ls = true ->
  exists m, removelast (splitlines (firstn k (text_of ls))) = firstn m ls.
Proof.
  induction ls as [|l ls IH]; intros k H.
  - exists 0. unfold text_of. cbn. destruct k; reflexivity.
  - cbn [forallb] in H. apply andb_prop in H. destruct H as [Hl Hls].
    unfold text_of. cbn [map concat]. rewrite <- app_assoc. cbn [app].
    rewrite firstn_app_line. destruct (Nat.leb k (length l)).
    + exists 0. apply removelast_splitlines_nolb. apply nolb_firstn. exact Hl.
    + rewrite splitlines_line by exact Hl.
      destruct (IH (k - length l - 1) Hls) as [m Hm]. fold (text_of ls).
      destruct (splitlines (firstn (k - length l - 1) (text_of ls))) as [|y ys] eqn:E.
      * exists 0. reflexivity.
      * exists (S m). cbn [firstn]. rewrite <- Hm. reflexivity.
Qed.
Lemma window_first : forall l0 l1 ls k, nolb l0 = true -> l1 <> [] -> length l0 + 2 <= k ->
  exists ys, removelast (splitlines (firstn k (text_of (l0 :: l1 :: ls)))) = l0 :: ys.
Proof.
  intros l0 l1 ls k H0 H1 Hk. unfold text_of. cbn [map concat]. rewrite <- app_assoc. cbn [app].
  rewrite firstn_app_line. assert (E : Nat.leb k (length l0) = false) by (apply Nat.leb_gt; lia). rewrite E.
  rewrite splitlines_line by exact H0.
  destruct l1 as [|c l1]; [congruence|].
  destruct (k - length l0 - 1) as [|k'] eqn:Ek; [lia|].
  cbn [app firstn].
  match goal with |- context [splitlines ?t] => destruct (splitlines t) eqn:E2 end.
  - exfalso. revert E2. apply splitlines_nonempty. discriminate.
  - eexists. reflexivity.
Qed.
(* first line of the 1000-character window *)
Lemma window_line0 : forall l0 rest k, nolb l0 = true -> length l0 + 1 <= k ->
  splitlines (firstn k (l0 ++ nl :: rest)) = l0 :: splitlines (firstn (k - length l0 - 1) rest).
Proof.
  intros l0 rest k H Hk. rewrite firstn_app_line. assert (E : Nat.leb k (length l0) = false) by (apply Nat.leb_gt; lia).
  rewrite E. apply splitlines_line. exact H.
Qed.

(* ------------------------------------------------------------------ split / join *)
Lemma split_on_nosep : forall sep s, nosep sep s = true -> split_on sep s = [s].
Proof.
  intros sep. induction s as [|c s IH]; intros H; [reflexivity|]. cbn [nosep forallb] in H. apply andb_prop in H.
  destruct H as [H1 H2]. apply negb_true_iff in H1. cbn [split_on]. rewrite H1. rewrite IH by exact H2. reflexivity.
Qed.
Lemma split_on_app_sep : forall sep a rest, nosep sep a = true -> split_on sep (a ++ sep :: rest) = a :: split_on sep rest.
Proof.
  intros sep. induction a as [|c a IH]; intros rest H.
  - cbn [app split_on]. rewrite byte_eqb_refl. reflexivity.
  - cbn [nosep forallb] in H. apply andb_prop in H. destruct H as [H1 H2]. apply negb_true_iff in H1.
    cbn [app split_on]. rewrite H1. rewrite IH by exact H2. reflexivity.
Qed.
Lemma split_join : forall sep fs, fs <> [] -> forallb (nosep sep) fs = true -> split_on sep (join sep fs) = fs.
Proof.
  intros sep. induction fs as [|x fs IH]; intros Hne H; [congruence|].
  cbn [forallb] in H. apply andb_prop in H. destruct H as [Hx Hfs].
  destruct fs as [|y fs].
  - cbn [join]. apply split_on_nosep. exact Hx.
  - change (join sep (x :: y :: fs)) with (x ++ sep :: join sep (y :: fs)).
    rewrite split_on_app_sep by exact Hx. rewrite IH; [reflexivity|discriminate|exact Hfs].
Qed.

(* ------------------------------------------------------------------ TSV / CSV: the sniffer accepts writer output of any length *)
Lemma forallb_firstn_b : forall {A} (f : A -> bool) m l, forallb f l = true -> forallb f (firstn m l) = true.
Proof.
  intros A f m l. revert m. induction l as [|x l IH]; intros m H; destruct m; try reflexivity.
  cbn [forallb firstn] in *. apply andb_prop in H. destruct H as [H1 H2]. rewrite H1. apply IH. exact H2.
Qed.
Lemma forallb_impl : forall {A} (f g : A -> bool) l, (forall x, f x = true -> g x = true) -> forallb f l = true -> forallb g l = true.
Proof.
  intros A f g l Hfg. induction l as [|x l IH]; intros H; [reflexivity|]. cbn [forallb] in *. apply andb_prop in H.
  destruct H as [H1 H2]. rewrite (Hfg x H1). apply IH. exact H2.
Qed.
Lemma field_ok_nosep : forall sep f, field_ok sep f = true -> nosep sep f = true.
Proof.
  intros sep f. unfold field_ok, nosep. apply forallb_impl. intros x H. apply andb_prop in H. destruct H as [H _].
  apply andb_prop in H. destruct H as [H _]. exact H.
Qed.
Lemma field_ok_nolb : forall sep f, field_ok sep f = true -> nolb f = true.
Proof.
  intros sep f. unfold field_ok, nolb. apply forallb_impl. intros x H. apply andb_prop in H. destruct H as [H _].
  apply andb_prop in H. destruct H as [_ H]. exact H.
Qed.
Lemma field_ok_notab : forall sep f, field_ok sep f = true -> nosep tab f = true.
Proof.
  intros sep f. unfold field_ok, nosep. apply forallb_impl. intros x H. apply andb_prop in H. destruct H as [_ H]. exact H.
Qed.
Lemma nolb_app : forall a b, nolb (a ++ b) = nolb a && nolb b.
Proof. intros. unfold nolb. apply forallb_app. Qed.
Lemma nolb_join : forall sep fs, is_linebreak sep = false -> forallb nolb fs = true -> nolb (join sep fs) = true.
Proof.
  intros sep fs Hs. induction fs as [|x fs IH]; intros H; [reflexivity|].
  cbn [forallb] in H. apply andb_prop in H. destruct H as [Hx Hfs].
  destruct fs as [|y fs]; [exact Hx|].
  change (join sep (x :: y :: fs)) with (x ++ sep :: join sep (y :: fs)).
  rewrite nolb_app, Hx. cbn [nolb forallb]. rewrite Hs. cbn [negb andb]. apply IH. exact Hfs.
Qed.
Lemma join_nonempty2 : forall sep a b r, join sep (a :: b :: r) <> [].
Proof. intros. change (join sep (a :: b :: r)) with (a ++ sep :: join sep (b :: r)). apply app_cons_not_nil || (intro H; apply app_eq_nil in H; destruct H; discriminate). Qed.

(* identifiers: no blanks, no separators, not numeric *)
Lemma is_name_chars : forall k c, is_name k = true -> In c k -> is_alnum_ c = true.
Proof.
  intros k c H Hin. unfold is_name in H. destruct k as [|h t]; [discriminate|]. apply andb_prop in H. destruct H as [_ H].
  rewrite forallb_forall in H. apply H. exact Hin.
Qed.
Lemma alnum_facts : forall c, is_alnum_ c = true ->
  is_ws c = false /\ is_linebreak c = false /\ byte_eqb c tab = false /\ byte_eqb c ","%byte = false /\ byte_eqb c "#"%byte = false.
Proof. intros c. destruct c; vm_compute; intros H; try discriminate; repeat split; reflexivity. Qed.
Lemma name_nosep : forall sep k, (sep = tab \/ sep = ","%byte) -> is_name k = true -> field_ok sep k = true.
Proof.
  intros sep k Hs H. unfold field_ok. apply forallb_forall. intros c Hc.
  destruct (alnum_facts c (is_name_chars k c H Hc)) as [_ [H2 [H3 [H4 _]]]].
  rewrite H2, H3. destruct Hs; subst sep; [rewrite H3|rewrite H4]; reflexivity.
Qed.
Lemma two_of_three_len : forall keys, two_of_three keys = true -> exists a b r, keys = a :: b :: r.
Proof.
  intros keys H. destruct keys as [|a [|b r]]; [vm_compute in H; discriminate| |eauto].
  exfalso. unfold two_of_three, mem_str in H. cbn [existsb] in H.
  destruct (str_eqb (bs "start"%bs) a) eqn:E1; destruct (str_eqb (bs "stop"%bs) a) eqn:E2; destruct (str_eqb (bs "len"%bs) a) eqn:E3;
    cbn in H; try discriminate;
    repeat match goal with Hx : str_eqb _ a = true |- _ => apply str_eqb_eq in Hx; subst a end; discriminate.
Qed.

Definition rows_ok (sep : byte) (n : nat) (rows : list (list str)) : bool :=
  forallb (fun r => Nat.eqb (length r) n && forallb (field_ok sep) r) rows.
Lemma xsv_accepts : forall sep keys rows,
  is_linebreak sep = false -> forallb (field_ok sep) keys = true -> two_of_three keys = true ->
  rows <> [] -> rows_ok sep (length keys) rows = true -> length (join sep keys) + 2 <= 1000 ->
  is_fts_xsv sep (render_xsv sep keys rows) = Some true.
Proof.
  intros sep keys rows Hsep Hk H2 Hr Hrows Hlen.
  destruct (two_of_three_len keys H2) as [ka [kb [kr Ekeys]]].
  unfold is_fts_xsv, read_n, render_xsv.
  set (ls := map (join sep) (keys :: rows)).
  assert (Hnolb : forallb nolb ls = true).
  { unfold ls. rewrite forallb_forall. intros l Hl. apply in_map_iff in Hl. destruct Hl as [r [Hr1 Hr2]]. subst l.
    apply nolb_join; [exact Hsep|]. destruct Hr2 as [Hr2|Hr2].
    - subst r. revert Hk. apply forallb_impl. apply field_ok_nolb.
    - unfold rows_ok in Hrows. rewrite forallb_forall in Hrows. specialize (Hrows r Hr2). apply andb_prop in Hrows.
      destruct Hrows as [_ Hf]. revert Hf. apply forallb_impl. apply field_ok_nolb. }
  assert (Hsplit : forallb (fun l => Nat.eqb (length (split_on sep l)) (length keys)) ls = true).
  { unfold ls. rewrite forallb_forall. intros l Hl. apply in_map_iff in Hl. destruct Hl as [r [Hr1 Hr2]]. subst l.
    destruct Hr2 as [Hr2|Hr2].
    - subst r. rewrite split_join; [apply Nat.eqb_refl|subst keys; discriminate|].
      revert Hk. apply forallb_impl. apply field_ok_nosep.
    - unfold rows_ok in Hrows. rewrite forallb_forall in Hrows. specialize (Hrows r Hr2). apply andb_prop in Hrows.
      destruct Hrows as [Hn Hf]. rewrite split_join; [exact Hn| |].
      + apply Nat.eqb_eq in Hn. intro E. subst r keys. discriminate.
      + revert Hf. apply forallb_impl. apply field_ok_nosep. }
  destruct (window_prefix ls 1000 Hnolb) as [m Hm].
  destruct rows as [|r0 rows']; [congruence|].
  assert (Hfirst : exists ys, removelast (splitlines (firstn 1000 (text_of ls))) = join sep keys :: ys).
  { unfold ls. cbn [map]. apply window_first.
    - cbn [forallb] in Hnolb. unfold ls in Hnolb. cbn [map forallb] in Hnolb. apply andb_prop in Hnolb. tauto.
    - unfold rows_ok in Hrows. cbn [forallb] in Hrows. apply andb_prop in Hrows. destruct Hrows as [Hr0 _].
      apply andb_prop in Hr0. destruct Hr0 as [Hn _]. apply Nat.eqb_eq in Hn. subst keys. cbn [length] in Hn.
      destruct r0 as [|a [|b r]]; try discriminate. apply join_nonempty2.
    - exact Hlen. }
  destruct Hfirst as [ys Hys]. rewrite Hys.
  assert (Hl0 : split_on sep (join sep keys) = keys).
  { apply split_join; [subst keys; discriminate|]. revert Hk. apply forallb_impl. apply field_ok_nosep. }
  rewrite Hl0. fold (two_of_three keys). rewrite H2. cbn [andb]. f_equal.
  rewrite <- Hys, Hm. apply forallb_firstn_b. exact Hsplit.
Qed.

(* ------------------------------------------------------------------ generic rejection lemmas *)
Lemma firstn_app_cons : forall {A} k (l : list A) x rest,
  firstn k (l ++ x :: rest) = if Nat.leb k (length l) then firstn k l else l ++ x :: firstn (k - length l - 1) rest.
Proof.
  intros A k l x rest. destruct (Nat.leb k (length l)) eqn:E.
  - apply Nat.leb_le in E. rewrite firstn_app. replace (k - length l) with 0 by lia. cbn [firstn]. apply app_nil_r.
  - apply Nat.leb_gt in E. rewrite firstn_app. rewrite firstn_all2 by lia.
    destruct (k - length l) as [|m] eqn:Em; [lia|]. cbn [firstn]. replace (S m - 1) with m by lia. reflexivity.
Qed.
Lemma nosep_firstn : forall sep k l, nosep sep l = true -> nosep sep (firstn k l) = true.
Proof. intros. unfold nosep in *. apply forallb_firstn_b. assumption. Qed.
Lemma splitn_app_sep : forall c a rest n, nosep c a = true -> splitn c (a ++ c :: rest) (S n) = a :: splitn c rest n.
Proof.
  intros c. induction a as [|x a IH]; intros rest n H.
  - cbn [app splitn]. rewrite byte_eqb_refl. reflexivity.
  - cbn [nosep forallb] in H. apply andb_prop in H. destruct H as [H1 H2]. apply negb_true_iff in H1.
    cbn [app splitn]. rewrite H1. rewrite IH by exact H2. reflexivity.
Qed.
Lemma splitn_firstn_field : forall a rest m n, nosep tab a = true ->
  splitn tab (firstn m (a ++ tab :: rest)) (S n) =
  if Nat.leb m (length a) then [firstn m a] else a :: splitn tab (firstn (m - length a - 1) rest) n.
Proof.
  intros a rest m n H. rewrite firstn_app_cons. destruct (Nat.leb m (length a)).
  - apply splitn_no_sep. apply nosep_firstn. exact H.
  - apply splitn_app_sep. exact H.
Qed.
Lemma splitn_head : forall h u n, byte_eqb h tab = false -> exists x y, splitn tab (h :: u) (S n) = (h :: x) :: y.
Proof.
  intros h u n H. cbn [splitn]. rewrite H.
  destruct (splitn tab u (S n)) as [|x y]; eauto.
Qed.
Lemma py_int_name_head : forall h x, (is_alpha h || byte_eqb h "_"%byte) = true -> py_int (h :: x) = None.
Proof.
  intros h x H. unfold py_int.
  assert (Hw : is_ws h = false) by (destruct h; try discriminate H; reflexivity).
  destruct (strip_head h x Hw) as [r Hr]. rewrite Hr.
  destruct h; try discriminate H; reflexivity.
Qed.
(* a tab-separated text whose 4th field starts with a letter is no GFF line, whatever the 100-character window cuts *)
Lemma gff_reject_4th : forall k0 k1 k2 h T,
  nosep tab k0 = true -> nosep tab k1 = true -> nosep tab k2 = true ->
  (is_alpha h || byte_eqb h "_"%byte) = true ->
  startswith (bs "##gff-version 3"%bs) (strip_ws (firstn 100 (k0 ++ tab :: k1 ++ tab :: k2 ++ tab :: h :: T))) = false ->
  is_gff (k0 ++ tab :: k1 ++ tab :: k2 ++ tab :: h :: T) = None.
Proof.
  intros k0 k1 k2 h T H0 H1 H2 Hh Hs. unfold is_gff, read_n. rewrite Hs.
  assert (Hht : byte_eqb h tab = false) by (destruct h; try discriminate Hh; reflexivity).
  change 9 with (S 8). rewrite splitn_firstn_field by exact H0.
  destruct (Nat.leb 100 (length k0)); [reflexivity|].
  rewrite splitn_firstn_field by exact H1.
  destruct (Nat.leb (100 - length k0 - 1) (length k1)); [reflexivity|].
  rewrite splitn_firstn_field by exact H2.
  destruct (Nat.leb (100 - length k0 - 1 - length k1 - 1) (length k2)); [reflexivity|].
  cbn [skipn].
  destruct (100 - length k0 - 1 - length k1 - 1 - length k2 - 1) as [|m3]; [reflexivity|].
  cbn [firstn]. destruct (splitn_head h (firstn m3 T) 5 Hht) as [x [y Hxy]]. rewrite Hxy.
  destruct y as [|e1 [|e2 [|e3 [|e4 y']]]]; cbn [firstn]; try reflexivity.
  rewrite py_int_name_head by exact Hh. reflexivity.
Qed.

(* GenBank needs the five letters *)
Lemma is_genbank_prefix5 : forall c, is_genbank c = Some true -> startswith (bs "locus"%bs) (lower c) = true.
Proof.
  intros c H. unfold is_genbank, read_n in H. inversion H as [H1]. apply str_eqb_eq in H1.
  destruct c as [|a [|b [|c2 [|d [|e r]]]]]; try discriminate H1.
  cbn [firstn lower map] in H1. injection H1 as Ha Hb Hc Hd He.
  unfold lower. cbn [map]. rewrite Ha, Hb, Hc, Hd, He. reflexivity.
Qed.
Lemma startswith_app_split : forall p a x r, startswith p (a ++ x :: r) = true -> startswith p a = true \/ In x p.
Proof.
  induction p as [|y p IH]; intros a x r H; [left; destruct a; reflexivity|].
  destruct a as [|z a].
  - cbn [app startswith] in H. apply andb_prop in H. destruct H as [H _]. apply byte_eqb_eq in H. right. left. exact H.
  - cbn [app startswith] in H. apply andb_prop in H. destruct H as [H1 H2]. destruct (IH a x r H2) as [G|G].
    + left. cbn [startswith]. rewrite H1, G. reflexivity.
    + right. right. exact G.
Qed.
Lemma genbank_reject : forall k0 sep r, (sep = tab \/ sep = ","%byte) ->
  startswith (bs "locus"%bs) (lower k0) = false -> is_genbank (k0 ++ sep :: r) <> Some true.
Proof.
  intros k0 sep r Hs Hk H. apply is_genbank_prefix5 in H. unfold lower in H. rewrite map_app in H. cbn [map] in H.
  apply startswith_app_split in H. destruct H as [H|H].
  - unfold lower in Hk. congruence.
  - destruct Hs; subst sep; vm_compute in H; intuition discriminate.
Qed.

(* strip() is the identity on text that starts and ends with a non-blank character *)
Lemma rstrip_ws_wsfree : forall k, wsfree k = true -> rstrip_ws k = k.
Proof.
  induction k as [|c k IH]; intros H; [reflexivity|]. cbn [wsfree forallb] in H. apply andb_prop in H. destruct H as [H1 H2].
  apply negb_true_iff in H1. rewrite rstrip_ws_cons, IH by exact H2. rewrite H1. destruct k; reflexivity.
Qed.
Lemma rstrip_ws_app_r : forall a b, rstrip_ws b <> [] -> rstrip_ws (a ++ b) = a ++ rstrip_ws b.
Proof.
  induction a as [|c a IH]; intros b H; [reflexivity|]. cbn [app]. rewrite rstrip_ws_cons, IH by exact H.
  destruct (a ++ rstrip_ws b) eqn:E; [|reflexivity]. apply app_eq_nil in E. destruct E. congruence.
Qed.
Lemma strip_join_names : forall sep fs, fs <> [] -> forallb (fun k => wsfree k && negb (match k with [] => true | _ => false end)) fs = true ->
  strip_ws (join sep fs) = join sep fs.
Proof.
  intros sep fs Hne H.
  assert (R : rstrip_ws (join sep fs) = join sep fs /\ join sep fs <> []).
  { induction fs as [|x fs IH]; [congruence|]. cbn [forallb] in H. apply andb_prop in H. destruct H as [Hx Hfs].
    apply andb_prop in Hx. destruct Hx as [Hw Hn]. destruct fs as [|y fs].
    - cbn [join]. split; [apply rstrip_ws_wsfree; exact Hw|destruct x; [discriminate|discriminate]].
    - change (join sep (x :: y :: fs)) with (x ++ sep :: join sep (y :: fs)).
      destruct IH as [I1 I2]; [discriminate|exact Hfs|].
      split.
      + change (x ++ sep :: join sep (y :: fs)) with (x ++ [sep] ++ join sep (y :: fs)). rewrite app_assoc.
        rewrite rstrip_ws_app_r by (rewrite I1; exact I2). rewrite I1. reflexivity.
      + intro E. apply app_eq_nil in E. destruct E. discriminate. }
  destruct R as [R1 R2]. unfold strip_ws.
  destruct fs as [|x fs]; [congruence|]. cbn [forallb] in H. apply andb_prop in H. destruct H as [Hx _].
  apply andb_prop in Hx. destruct Hx as [Hw Hn]. destruct x as [|h t]; [discriminate|].
  cbn [wsfree forallb] in Hw. apply andb_prop in Hw. destruct Hw as [Hh _]. apply negb_true_iff in Hh.
  assert (E : exists rest, join sep ((h :: t) :: fs) = h :: rest).
  { destruct fs; cbn [join app]; eauto. }
  destruct E as [rest E].
  assert (L : lstrip_ws (join sep ((h :: t) :: fs)) = join sep ((h :: t) :: fs)).
  { rewrite E. cbn [lstrip_ws]. rewrite Hh. reflexivity. }
  etransitivity; [|exact R1]. f_equal. exact L.
Qed.

(* one-line read of a hit table: wrong number of columns *)
Lemma default_headers_len : forall f hs, headers_from (default_outfmt f) (hdr_table f) = Some hs -> length hs = 12.
Proof. intros f hs H. destruct f; vm_compute in H; inversion H; reflexivity. Qed.
Lemma sniff_line_count : forall f o line,
  o_outfmt o = None -> startswith (bs "#"%bs) line = false -> strip_ws line <> [] ->
  (f = TMmseqs -> subset_str (split_on (sep_or o tab) (strip_ws line)) MMSEQS_HEADER_NAMES = false) ->
  length (split_on (sep_or o tab) (strip_ws line)) <> 12 -> sniff_line f o line = None.
Proof.
  intros f o line Ho Hh Hs Hm Hn. unfold sniff_line. rewrite Ho.
  assert (Hf : match f with TBlast => startswith (bs "# Fields:"%bs) line | TMmseqs => false end = false).
  { destruct f; [|reflexivity]. destruct line as [|c l]; [reflexivity|]. cbn [startswith bs bytes_of_bstr] in *.
    apply andb_false_iff in Hh. destruct Hh as [Hh|Hh]; [rewrite Hh; reflexivity|discriminate]. }
  replace (match f with TBlast => match @None str with Some _ => false | None => startswith (bs "# Fields:"%bs) line end | TMmseqs => false end)
    with false by (destruct f; symmetry; exact Hf).
  rewrite Hh. cbn [orb].
  destruct (strip_ws line) as [|s0 sl] eqn:Es; [congruence|].
  assert (Hmm : match f with TMmseqs => Nat.ltb 1 (length (split_on (sep_or o tab) (s0 :: sl))) && subset_str (split_on (sep_or o tab) (s0 :: sl)) MMSEQS_HEADER_NAMES | TBlast => false end = false).
  { destruct f; [reflexivity|]. rewrite (Hm eq_refl). apply andb_false_r. }
  rewrite Hmm.
  destruct (headers_from (default_outfmt f) (hdr_table f)) as [hs|] eqn:Eh; [|reflexivity].
  unfold data_line. rewrite (default_headers_len f hs Eh).
  destruct (Nat.eqb (length (split_on (sep_or o tab) (s0 :: sl))) 12) eqn:E12; [apply Nat.eqb_eq in E12; congruence|].
  reflexivity.
Qed.

(* ------------------------------------------------------------------ str.split() on joined words *)
Lemma split_ws_aux_word : forall k rest cur, k <> [] -> wsfree k = true ->
  split_ws_aux (k ++ tab :: rest) cur = (rev cur ++ k) :: split_ws_aux rest [].
Proof.
  induction k as [|x k IH]; intros rest cur Hne H; [congruence|].
  cbn [wsfree forallb] in H. apply andb_prop in H. destruct H as [Hx Hk]. apply negb_true_iff in Hx.
  cbn [app split_ws_aux]. rewrite Hx. destruct k as [|y k].
  - cbn [app split_ws_aux]. change (is_ws tab) with true. cbn iota. reflexivity.
  - rewrite IH; [|discriminate|exact Hk]. cbn [rev]. rewrite <- app_assoc. reflexivity.
Qed.
Lemma split_ws_aux_last : forall k cur, k <> [] -> wsfree k = true -> split_ws_aux k cur = [rev cur ++ k].
Proof.
  induction k as [|x k IH]; intros cur Hne H; [congruence|].
  cbn [wsfree forallb] in H. apply andb_prop in H. destruct H as [Hx Hk]. apply negb_true_iff in Hx.
  cbn [split_ws_aux]. rewrite Hx. destruct k as [|y k].
  - cbn [split_ws_aux]. reflexivity.
  - rewrite IH; [|discriminate|exact Hk]. cbn [rev]. rewrite <- app_assoc. reflexivity.
Qed.
Lemma word_inv : forall k, word k = true -> k <> [] /\ wsfree k = true.
Proof. intros k H. unfold word in H. apply andb_prop in H. destruct H as [H1 H2]. split; [destruct k; [discriminate|discriminate]|exact H1]. Qed.
Lemma split_ws_join_tab : forall fs, forallb word fs = true -> split_ws (join tab fs) = fs.
Proof.
  unfold split_ws. induction fs as [|x fs IH]; intros H; [reflexivity|].
  cbn [forallb] in H. apply andb_prop in H. destruct H as [Hx Hfs]. destruct (word_inv x Hx) as [Hn Hw].
  destruct fs as [|y fs].
  - cbn [join]. rewrite split_ws_aux_last by assumption. reflexivity.
  - change (join tab (x :: y :: fs)) with (x ++ tab :: join tab (y :: fs)).
    rewrite split_ws_aux_word by assumption. cbn [rev app]. rewrite IH by exact Hfs. reflexivity.
Qed.
Lemma wsfree_app : forall a b, wsfree (a ++ b) = wsfree a && wsfree b.
Proof. intros. unfold wsfree. apply forallb_app. Qed.
Lemma wsfree_join : forall sep fs, is_ws sep = false -> forallb wsfree fs = true -> wsfree (join sep fs) = true.
Proof.
  intros sep fs Hs. induction fs as [|x fs IH]; intros H; [reflexivity|].
  cbn [forallb] in H. apply andb_prop in H. destruct H as [Hx Hfs].
  destruct fs as [|y fs]; [exact Hx|].
  change (join sep (x :: y :: fs)) with (x ++ sep :: join sep (y :: fs)).
  rewrite wsfree_app, Hx. cbn [wsfree forallb]. rewrite Hs. cbn [negb andb]. apply IH. exact Hfs.
Qed.

(* membership facts *)
Lemma mem_str_true_In : forall x l, mem_str x l = true -> In x l.
Proof.
  intros x l H. unfold mem_str in H. apply existsb_exists in H. destruct H as [y [H1 H2]]. apply str_eqb_eq in H2. subst y. exact H1.
Qed.
Lemma subset_mem : forall a b x, subset_str a b = true -> mem_str x a = true -> mem_str x b = true.
Proof.
  intros a b x H Hx. unfold subset_str in H. rewrite forallb_forall in H. apply H. apply mem_str_true_In. exact Hx.
Qed.
Lemma two_of_three_start_stop : forall keys, two_of_three keys = true ->
  mem_str (bs "start"%bs) keys = true \/ mem_str (bs "stop"%bs) keys = true.
Proof.
  intros keys H. unfold two_of_three in H.
  destruct (mem_str (bs "start"%bs) keys); [left; reflexivity|].
  destruct (mem_str (bs "stop"%bs) keys); [right; reflexivity|].
  destruct (mem_str (bs "len"%bs) keys); discriminate.
Qed.
Lemma keys_not_subset : forall keys T, two_of_three keys = true ->
  mem_str (bs "start"%bs) T = false -> mem_str (bs "stop"%bs) T = false -> subset_str keys T = false.
Proof.
  intros keys T H Ha Hb. destruct (subset_str keys T) eqn:E; [|reflexivity].
  destruct (two_of_three_start_stop keys H) as [G|G]; apply (subset_mem keys T _ E) in G; congruence.
Qed.
Lemma nosep_app_sep : forall sep a r, nosep sep (a ++ sep :: r) = false.
Proof.
  intros sep a r. unfold nosep. rewrite forallb_app. cbn [forallb]. rewrite byte_eqb_refl. cbn [negb andb]. apply andb_false_r.
Qed.
Lemma comma_not_member : forall l T, forallb (nosep ","%byte) T = true -> nosep ","%byte l = false -> mem_str l T = false.
Proof.
  intros l T HT Hl. destruct (mem_str l T) eqn:E; [|reflexivity]. apply mem_str_true_In in E.
  rewrite forallb_forall in HT. rewrite (HT l E) in Hl. discriminate.
Qed.
Lemma tables_no_comma : forallb (nosep ","%byte) INFERNAL_HEADER_KW = true /\ forallb (nosep ","%byte) MMSEQS_HEADER_NAMES = true.
Proof. vm_compute. split; reflexivity. Qed.
Lemma tables_no_start_stop :
  mem_str (bs "start"%bs) INFERNAL_HEADER_KW = false /\ mem_str (bs "stop"%bs) INFERNAL_HEADER_KW = false /\
  mem_str (bs "start"%bs) MMSEQS_HEADER_NAMES = false /\ mem_str (bs "stop"%bs) MMSEQS_HEADER_NAMES = false.
Proof. vm_compute. repeat split; reflexivity. Qed.

(* ------------------------------------------------------------------ chain stepping *)
Lemma first_accepting_skip : forall w o p rest c sn,
  sniffer_of w (p_name p) = Some sn -> sn o c <> Some true ->
  first_accepting w o (p :: rest) c = first_accepting w o rest c.
Proof.
  intros w o p rest c sn Hs Hn. cbn [first_accepting]. rewrite Hs. destruct (sn o c) as [[|]|]; [congruence|reflexivity|reflexivity].
Qed.
Lemma first_accepting_hit : forall w o p rest c sn,
  sniffer_of w (p_name p) = Some sn -> sn o c = Some true ->
  first_accepting w o (p :: rest) c = DFound (p_name p).
Proof. intros w o p rest c sn Hs Hn. cbn [first_accepting]. rewrite Hs, Hn. reflexivity. Qed.

Lemma infernal_reject : forall c l0 X, splitlines (read_n 1000 c) = l0 :: X ->
  subset_str (split_ws (lstrip_char "#"%byte l0)) INFERNAL_HEADER_KW = false -> is_fts_infernal c <> Some true.
Proof.
  intros c l0 X H Hs. unfold is_fts_infernal. rewrite H. destruct X; [discriminate|]. rewrite Hs. discriminate.
Qed.
Lemma mmseqs_reject_count : forall o c l0 X, splitlines (read_n 1000 c) = l0 :: X ->
  o_outfmt o = None -> startswith (bs "#"%bs) l0 = false -> strip_ws l0 <> [] ->
  subset_str (split_on (sep_or o tab) (strip_ws l0)) MMSEQS_HEADER_NAMES = false ->
  length (split_on (sep_or o tab) (strip_ws l0)) <> 12 -> is_fts_mmseqs o c <> Some true.
Proof.
  intros o c l0 X H Ho Hh Hs Hsub Hn. unfold is_fts_mmseqs. rewrite H, Hsub, andb_false_r.
  rewrite sniff_line_count; [discriminate|assumption..|intros _; exact Hsub|exact Hn].
Qed.
Lemma blast_reject_count : forall o c h t l0 X, c = h :: t -> byte_eqb "#"%byte h = false ->
  splitlines (read_n 1000 c) = l0 :: X ->
  o_outfmt o = None -> startswith (bs "#"%bs) l0 = false -> strip_ws l0 <> [] ->
  length (split_on (sep_or o tab) (strip_ws l0)) <> 12 -> is_fts_blast o c <> Some true.
Proof.
  intros o c h t l0 X Hc Hh H Ho Hl Hs Hn. unfold is_fts_blast.
  assert (E : startswith (bs "#"%bs) (read_n 1000 c) = false).
  { subst c. unfold read_n. change (firstn 1000 (h :: t)) with (h :: firstn 999 t). cbn [startswith bs bytes_of_bstr]. rewrite Hh. reflexivity. }
  rewrite E. cbn [andb]. rewrite H.
  rewrite sniff_line_count; [discriminate|assumption..|intros G; discriminate G|exact Hn].
Qed.

Lemma byte_eqb_sym_false : forall a b, byte_eqb a b = false -> byte_eqb b a = false.
Proof. intros a b H. apply byte_eqb_neq. apply byte_eqb_neq in H. congruence. Qed.

(* ------------------------------------------------------------------ TSV / CSV writer output: the whole chain *)
Lemma render_xsv_head : forall sep keys rows,
  render_xsv sep keys rows = join sep keys ++ nl :: text_of (map (join sep) rows).
Proof. intros. unfold render_xsv, text_of. cbn [map concat]. rewrite <- app_assoc. reflexivity. Qed.
Lemma name_word : forall k, is_name k = true -> word k = true.
Proof.
  intros k H. unfold word. apply andb_true_intro. split.
  - unfold wsfree. apply forallb_forall. intros c Hc. destruct (alnum_facts c (is_name_chars k c H Hc)) as [Hw _]. rewrite Hw. reflexivity.
  - destruct k; [discriminate H|reflexivity].
Qed.
Lemma name_head : forall k, is_name k = true -> exists h t, k = h :: t /\ (is_alpha h || byte_eqb h "_"%byte) = true.
Proof. intros k H. destruct k as [|h t]; [discriminate|]. unfold is_name in H. apply andb_prop in H. destruct H as [H _]. eauto. Qed.
Lemma head_facts : forall h, (is_alpha h || byte_eqb h "_"%byte) = true ->
  is_ws h = false /\ byte_eqb "#"%byte h = false /\ byte_eqb ">"%byte h = false.
Proof. intros h H. destruct h; try discriminate H; repeat split; reflexivity. Qed.
Lemma join_head : forall sep h t fs, exists rest, join sep ((h :: t) :: fs) = h :: rest.
Proof. intros. destruct fs; cbn [join app]; eauto. Qed.

Record xsv_view (sep : byte) (keys : list str) (rows : list (list str)) : Prop := {
  xv_names : forallb is_name keys = true;
  xv_two : two_of_three keys = true;
  xv_locus : exists k0 kr, keys = k0 :: kr /\ startswith (bs "locus"%bs) (lower k0) = false;
  xv_not12 : length keys <> 12;
  xv_rows : rows <> [];
  xv_rect : rows_ok sep (length keys) rows = true;
  xv_len : length (join sep keys) + 2 <= 1000 }.
Lemma wf_xsv_view : forall sep keys rows, wf_xsv sep keys rows = true -> xsv_view sep keys rows.
Proof.
  intros sep keys rows H. unfold wf_xsv in H.
  repeat (apply andb_prop in H; destruct H as [H ?]).
  constructor; try assumption.
  - destruct keys as [|k0 kr]; [discriminate|]. exists k0, kr. split; [reflexivity|]. apply negb_true_iff. assumption.
  - apply negb_true_iff in H3. apply Nat.eqb_neq. exact H3.
  - destruct rows; [discriminate|discriminate].
  - apply Nat.leb_le. assumption.
Qed.

Section XSV.
  Variable sep : byte.
  Variable keys : list str.
  Variable rows : list (list str).
  Hypothesis Hsep : sep = tab \/ sep = ","%byte.
  Hypothesis V : xsv_view sep keys rows.
  Let c := render_xsv sep keys rows.
  Let l0 := join sep keys.

  Lemma xsv_sep_facts : is_linebreak sep = false /\ is_ws sep = is_ws sep.
  Proof. destruct Hsep; subst sep; split; reflexivity. Qed.
  Lemma xsv_keys_ok : forallb (field_ok sep) keys = true.
  Proof. generalize (xv_names _ _ _ V). apply forallb_impl. intros k. apply name_nosep. exact Hsep. Qed.
  Lemma xsv_l0_nolb : nolb l0 = true.
  Proof.
    unfold l0. apply nolb_join; [destruct Hsep; subst sep; reflexivity|].
    generalize xsv_keys_ok. apply forallb_impl. apply field_ok_nolb.
  Qed.
  Lemma xsv_c_eq : c = l0 ++ nl :: text_of (map (join sep) rows).
  Proof. apply render_xsv_head. Qed.
  Lemma xsv_line0 : exists X, splitlines (read_n 1000 c) = l0 :: X.
  Proof.
    unfold read_n. rewrite xsv_c_eq. rewrite window_line0; [eauto|exact xsv_l0_nolb|]. generalize (xv_len _ _ _ V). fold l0. lia.
  Qed.
  Lemma xsv_head : exists h t, l0 = h :: t /\ (is_alpha h || byte_eqb h "_"%byte) = true.
  Proof.
    destruct (xv_locus _ _ _ V) as [k0 [kr [E _]]]. generalize (xv_names _ _ _ V). rewrite E. cbn [forallb]. intros H.
    apply andb_prop in H. destruct H as [H _]. destruct (name_head k0 H) as [h [t [Ek Hh]]]. subst k0.
    unfold l0. rewrite E. destruct (join_head sep h t kr) as [rest Er]. exists h, rest. split; assumption.
  Qed.
  Lemma xsv_strip : strip_ws l0 = l0.
  Proof.
    unfold l0. apply strip_join_names.
    - destruct (xv_locus _ _ _ V) as [k0 [kr [E _]]]. rewrite E. discriminate.
    - generalize (xv_names _ _ _ V). apply forallb_impl. intros k Hk. exact (name_word k Hk).
  Qed.
  Lemma xsv_split : split_on sep l0 = keys.
  Proof.
    unfold l0. apply split_join.
    - destruct (xv_locus _ _ _ V) as [k0 [kr [E _]]]. rewrite E. discriminate.
    - generalize xsv_keys_ok. apply forallb_impl. apply field_ok_nosep.
  Qed.
  Lemma xsv_l0_nonempty : l0 <> [] /\ startswith (bs "#"%bs) l0 = false.
  Proof.
    destruct xsv_head as [h [t [E Hh]]]. rewrite E. split; [discriminate|]. cbn [startswith bs bytes_of_bstr].
    destruct (head_facts h Hh) as [_ [H2 _]]. rewrite H2. reflexivity.
  Qed.
  Lemma xsv_genbank : is_genbank c <> Some true.
  Proof.
    destruct (xv_locus _ _ _ V) as [k0 [kr [E Hl]]].
    destruct (two_of_three_len keys (xv_two _ _ _ V)) as [a [b [r E2]]]. rewrite E in E2. injection E2 as Ea Ekr. subst a kr.
    assert (Ec : c = k0 ++ sep :: (join sep (b :: r) ++ nl :: text_of (map (join sep) rows))).
    { rewrite xsv_c_eq. unfold l0. rewrite E. change (join sep (k0 :: b :: r)) with (k0 ++ sep :: join sep (b :: r)).
      rewrite <- app_assoc. reflexivity. }
    rewrite Ec. apply genbank_reject; assumption.
  Qed.
  Lemma xsv_c_head : exists h t, c = h :: t /\ (is_alpha h || byte_eqb h "_"%byte) = true.
  Proof. destruct xsv_head as [h [t [E Hh]]]. exists h. eexists. rewrite xsv_c_eq, E. cbn [app]. split; [reflexivity|exact Hh]. Qed.
End XSV.

Lemma detect_tsv_sound : forall o keys rows,
  wf_xsv tab keys rows = true -> 4 <= length keys -> o_outfmt o = None -> sep_or o tab = tab ->
  detect Fts o (render_xsv tab keys rows) = DFound (bs "tsv"%bs).
Proof.
  intros o keys rows Hwf H4 Ho Hsepo.
  pose proof (wf_xsv_view tab keys rows Hwf) as V.
  assert (Hs : tab = tab \/ tab = ","%byte) by (left; reflexivity).
  set (c := render_xsv tab keys rows).
  destruct (xsv_line0 tab keys rows Hs V) as [X HX]. fold c in HX.
  destruct (xsv_l0_nonempty tab keys rows V) as [Hne Hhash].
  destruct (xsv_c_head tab keys rows V) as [h [t [Ec Hh]]]. fold c in Ec.
  destruct (head_facts h Hh) as [Hw [Hhash2 _]].
  pose proof (xsv_strip tab keys rows V) as Hstrip.
  pose proof (xsv_split tab keys rows Hs V) as Hsplit.
  destruct tables_no_start_stop as [T1 [T2 [T3 T4]]].
  (* gff *)
  assert (Hgff : is_gff c <> Some true).
  { destruct keys as [|k0 [|k1 [|k2 [|k3 kr]]]]; cbn [length] in H4; try lia.
    pose proof (xv_names _ _ _ V) as Hn. cbn [forallb] in Hn.
    apply andb_prop in Hn. destruct Hn as [N0 Hn]. apply andb_prop in Hn. destruct Hn as [N1 Hn].
    apply andb_prop in Hn. destruct Hn as [N2 Hn]. apply andb_prop in Hn. destruct Hn as [N3 _].
    destruct (name_head k3 N3) as [h3 [t3 [E3 Hh3]]]. subst k3.
    destruct (join_head tab h3 t3 kr) as [rest3 Er3].
    assert (Ec2 : c = k0 ++ tab :: k1 ++ tab :: k2 ++ tab :: h3 :: (rest3 ++ nl :: text_of (map (join tab) rows))).
    { unfold c. rewrite render_xsv_head.
      change (join tab (k0 :: k1 :: k2 :: (h3 :: t3) :: kr)) with (k0 ++ tab :: k1 ++ tab :: k2 ++ tab :: join tab ((h3 :: t3) :: kr)).
      rewrite Er3. rewrite <- !app_assoc. cbn [app]. rewrite <- !app_assoc. cbn [app]. rewrite <- !app_assoc. reflexivity. }
    rewrite Ec2. rewrite gff_reject_4th; [discriminate| | | |exact Hh3|].
    - apply field_ok_nosep. apply name_nosep; [left; reflexivity|exact N0].
    - apply field_ok_nosep. apply name_nosep; [left; reflexivity|exact N1].
    - apply field_ok_nosep. apply name_nosep; [left; reflexivity|exact N2].
    - rewrite <- Ec2, Ec. apply not_gff_head; assumption. }
  pose proof (xsv_genbank tab keys rows Hs V) as Hgb. fold c in Hgb.
  (* infernal: the tokens of the header line are the column names *)
  assert (Hinf : is_fts_infernal c <> Some true).
  { apply (infernal_reject c _ X HX).
    destruct (xsv_head tab keys rows V) as [h' [t' [E' Hh']]]. rewrite E'.
    destruct (head_facts h' Hh') as [_ [Hx _]]. cbn [lstrip_char]. rewrite byte_eqb_sym_false by exact Hx.
    rewrite <- E'. rewrite split_ws_join_tab.
    - apply keys_not_subset; [exact (xv_two _ _ _ V)|exact T1|exact T2].
    - generalize (xv_names _ _ _ V). apply forallb_impl. apply name_word. }
  assert (Hmm : is_fts_mmseqs o c <> Some true).
  { apply (mmseqs_reject_count o c _ X HX Ho Hhash); rewrite ?Hstrip, ?Hsepo, ?Hsplit.
    - exact Hne.
    - apply keys_not_subset; [exact (xv_two _ _ _ V)|exact T3|exact T4].
    - exact (xv_not12 _ _ _ V). }
  assert (Hbl : is_fts_blast o c <> Some true).
  { apply (blast_reject_count o c h t _ X Ec Hhash2 HX Ho Hhash); rewrite ?Hstrip, ?Hsepo, ?Hsplit.
    - exact Hne.
    - exact (xv_not12 _ _ _ V). }
  assert (Htsv : is_fts_tsv o c = Some true).
  { unfold is_fts_tsv. rewrite Hsepo. apply xsv_accepts; try reflexivity.
    - exact (xsv_keys_ok tab keys rows Hs V).
    - exact (xv_two _ _ _ V).
    - exact (xv_rows _ _ _ V).
    - exact (xv_rect _ _ _ V).
    - exact (xv_len _ _ _ V). }
  rewrite detect_is_first_accepting. unfold chain, PLUGINS_fts.
  erewrite (first_accepting_skip Fts o _ _ c (fun _ => is_gff)); [|reflexivity|exact Hgff].
  erewrite (first_accepting_skip Fts o _ _ c (fun _ => is_genbank)); [|reflexivity|exact Hgb].
  erewrite (first_accepting_skip Fts o _ _ c (fun _ => is_fts_infernal)); [|reflexivity|exact Hinf].
  erewrite (first_accepting_skip Fts o _ _ c is_fts_mmseqs); [|reflexivity|exact Hmm].
  erewrite (first_accepting_skip Fts o _ _ c is_fts_blast); [|reflexivity|exact Hbl].
  erewrite (first_accepting_hit Fts o _ _ c is_fts_tsv); [reflexivity|reflexivity|exact Htsv].
Qed.

(* ---- CSV *)
Lemma nosep_app : forall sep a b, nosep sep (a ++ b) = nosep sep a && nosep sep b.
Proof. intros. unfold nosep. apply forallb_app. Qed.
Lemma nosep_join : forall c sep fs, byte_eqb sep c = false -> forallb (nosep c) fs = true -> nosep c (join sep fs) = true.
Proof.
  intros c sep fs Hs. induction fs as [|x fs IH]; intros H; [reflexivity|].
  cbn [forallb] in H. apply andb_prop in H. destruct H as [Hx Hfs].
  destruct fs as [|y fs]; [exact Hx|].
  change (join sep (x :: y :: fs)) with (x ++ sep :: join sep (y :: fs)).
  rewrite nosep_app, Hx. cbn [nosep forallb]. rewrite Hs. cbn [negb andb]. apply IH. exact Hfs.
Qed.
Lemma nosep_text_of : forall c ls, byte_eqb nl c = false -> forallb (nosep c) ls = true -> nosep c (text_of ls) = true.
Proof.
  intros c ls Hn. induction ls as [|l ls IH]; intros H; [reflexivity|].
  cbn [forallb] in H. apply andb_prop in H. destruct H as [Hl Hls].
  unfold text_of. cbn [map concat]. rewrite !nosep_app, Hl. cbn [nosep forallb]. rewrite Hn. cbn [negb andb]. apply IH. exact Hls.
Qed.
Lemma xsv_lines_head : forall sep keys rows, (sep = tab \/ sep = ","%byte) -> xsv_view sep keys rows ->
  exists ys, removelast (splitlines (firstn 1000 (render_xsv sep keys rows))) = join sep keys :: ys.
Proof.
  intros sep keys rows Hs V. unfold render_xsv.
  destruct rows as [|r0 rows']; [exfalso; exact (xv_rows _ _ _ V eq_refl)|]. cbn [map].
  apply window_first.
  - exact (xsv_l0_nolb sep keys (r0 :: rows') Hs V).
  - pose proof (xv_rect _ _ _ V) as Hr. unfold rows_ok in Hr. cbn [forallb] in Hr. apply andb_prop in Hr. destruct Hr as [Hr0 _].
    apply andb_prop in Hr0. destruct Hr0 as [Hn _]. apply Nat.eqb_eq in Hn.
    destruct (two_of_three_len keys (xv_two _ _ _ V)) as [a [b [r E]]]. subst keys. cbn [length] in Hn.
    destruct r0 as [|x [|y z]]; try discriminate. apply join_nonempty2.
  - exact (xv_len _ _ _ V).
Qed.
Lemma detect_csv_sound : forall o keys rows,
  wf_xsv ","%byte keys rows = true -> o_outfmt o = None -> o_sep o = None ->
  detect Fts o (render_xsv ","%byte keys rows) = DFound (bs "csv"%bs).
Proof.
  intros o keys rows Hwf Ho Hso.
  pose proof (wf_xsv_view ","%byte keys rows Hwf) as V.
  assert (Hs : ","%byte = tab \/ ","%byte = ","%byte) by (right; reflexivity).
  assert (Hsepo : sep_or o tab = tab) by (unfold sep_or; rewrite Hso; reflexivity).
  assert (Hsepc : sep_or o ","%byte = ","%byte) by (unfold sep_or; rewrite Hso; reflexivity).
  set (c := render_xsv ","%byte keys rows).
  set (l0 := join ","%byte keys).
  destruct (xsv_line0 ","%byte keys rows Hs V) as [X HX]. fold c l0 in HX.
  destruct (xsv_l0_nonempty ","%byte keys rows V) as [Hne Hhash]. fold l0 in Hne, Hhash.
  destruct (xsv_c_head ","%byte keys rows V) as [h [t [Ec Hh]]]. fold c in Ec.
  destruct (head_facts h Hh) as [Hw [Hhash2 _]].
  pose proof (xsv_strip ","%byte keys rows V) as Hstrip. fold l0 in Hstrip.
  destruct tables_no_comma as [TC1 TC2].
  pose proof (xsv_keys_ok ","%byte keys rows Hs V) as Hkeys.
  (* the header line contains a comma, no tab, no blank *)
  assert (Hcomma : nosep ","%byte l0 = false).
  { destruct (two_of_three_len keys (xv_two _ _ _ V)) as [a [b [r E]]]. unfold l0. rewrite E.
    change (join ","%byte (a :: b :: r)) with (a ++ ","%byte :: join ","%byte (b :: r)). apply nosep_app_sep. }
  assert (Hnotab0 : nosep tab l0 = true).
  { unfold l0. apply nosep_join; [reflexivity|]. revert Hkeys. apply forallb_impl. apply field_ok_notab. }
  assert (Hwsfree : wsfree l0 = true).
  { unfold l0. apply wsfree_join; [reflexivity|]. generalize (xv_names _ _ _ V). apply forallb_impl.
    intros k Hk. destruct (word_inv k (name_word k Hk)) as [_ G]. exact G. }
  assert (Hsplit_tab : split_on tab l0 = [l0]) by (apply split_on_nosep; exact Hnotab0).
  assert (Hnotab : nosep tab c = true).
  { unfold c, render_xsv. apply nosep_text_of; [reflexivity|]. apply forallb_forall. intros l Hl. apply in_map_iff in Hl.
    destruct Hl as [r [E Hr]]. subst l. apply nosep_join; [reflexivity|]. destruct Hr as [Hr|Hr].
    - subst r. revert Hkeys. apply forallb_impl. apply field_ok_notab.
    - pose proof (xv_rect _ _ _ V) as Hrect. unfold rows_ok in Hrect. rewrite forallb_forall in Hrect. specialize (Hrect r Hr).
      apply andb_prop in Hrect. destruct Hrect as [_ Hf]. revert Hf. apply forallb_impl. apply field_ok_notab. }
  assert (Hgff : is_gff c <> Some true).
  { rewrite is_gff_no_tab; [discriminate| |].
    - rewrite Ec. apply not_gff_head; assumption.
    - apply nosep_firstn. exact Hnotab. }
  pose proof (xsv_genbank ","%byte keys rows Hs V) as Hgb. fold c in Hgb.
  assert (Hmem_kw : mem_str l0 INFERNAL_HEADER_KW = false) by (apply comma_not_member; assumption).
  assert (Hmem_mm : mem_str l0 MMSEQS_HEADER_NAMES = false) by (apply comma_not_member; assumption).
  assert (Hinf : is_fts_infernal c <> Some true).
  { apply (infernal_reject c _ X HX).
    destruct (xsv_head ","%byte keys rows V) as [h' [t' [E' Hh']]]. fold l0 in E'.
    destruct (head_facts h' Hh') as [_ [Hx _]].
    assert (El : lstrip_char "#"%byte l0 = l0).
    { rewrite E'. cbn [lstrip_char]. rewrite byte_eqb_sym_false by exact Hx. reflexivity. }
    rewrite El. unfold split_ws. rewrite split_ws_aux_last by assumption. cbn [rev app subset_str forallb].
    rewrite Hmem_kw. reflexivity. }
  assert (Hmm : is_fts_mmseqs o c <> Some true).
  { apply (mmseqs_reject_count o c _ X HX Ho Hhash); rewrite ?Hstrip, ?Hsepo, ?Hsplit_tab.
    - exact Hne.
    - cbn [subset_str forallb]. rewrite Hmem_mm. reflexivity.
    - cbn [length]. lia. }
  assert (Hbl : is_fts_blast o c <> Some true).
  { apply (blast_reject_count o c h t _ X Ec Hhash2 HX Ho Hhash); rewrite ?Hstrip, ?Hsepo, ?Hsplit_tab.
    - exact Hne.
    - cbn [length]. lia. }
  assert (Htsv : is_fts_tsv o c <> Some true).
  { unfold is_fts_tsv, is_fts_xsv, read_n. rewrite Hsepo.
    destruct (xsv_lines_head ","%byte keys rows Hs V) as [ys Hys]. fold c l0 in Hys. rewrite Hys. rewrite Hsplit_tab.
    assert (M : forall x, nosep ","%byte x = true -> mem_str x [l0] = false).
    { intros x Hx. destruct (mem_str x [l0]) eqn:E; [|reflexivity]. apply mem_str_true_In in E. destruct E as [E|[]]. subst x. congruence. }
    rewrite !M by reflexivity. cbn. discriminate. }
  assert (Hcsv : is_fts_csv o c = Some true).
  { unfold is_fts_csv. rewrite Hsepc. apply xsv_accepts; try reflexivity.
    - exact Hkeys.
    - exact (xv_two _ _ _ V).
    - exact (xv_rows _ _ _ V).
    - exact (xv_rect _ _ _ V).
    - exact (xv_len _ _ _ V). }
  rewrite detect_is_first_accepting. unfold chain, PLUGINS_fts.
  erewrite (first_accepting_skip Fts o _ _ c (fun _ => is_gff)); [|reflexivity|exact Hgff].
  erewrite (first_accepting_skip Fts o _ _ c (fun _ => is_genbank)); [|reflexivity|exact Hgb].
  erewrite (first_accepting_skip Fts o _ _ c (fun _ => is_fts_infernal)); [|reflexivity|exact Hinf].
  erewrite (first_accepting_skip Fts o _ _ c is_fts_mmseqs); [|reflexivity|exact Hmm].
  erewrite (first_accepting_skip Fts o _ _ c is_fts_blast); [|reflexivity|exact Hbl].
  erewrite (first_accepting_skip Fts o _ _ c is_fts_tsv); [|reflexivity|exact Htsv].
  erewrite (first_accepting_hit Fts o _ _ c is_fts_csv); [reflexivity|reflexivity|exact Hcsv].
Qed.

(* non-vacuity: a default-keys table far longer than the 1000-character window *)
Definition demo_keys : list str := [bs "type"%bs; bs "start"%bs; bs "stop"%bs; bs "strand"%bs].
Definition demo_rows (sep : byte) : list (list str) := repeat [bs "CDS"%bs; bs "1"%bs; bs "20"%bs; bs "+"%bs] 150.
Lemma witness_xsv :
  wf_xsv tab demo_keys (demo_rows tab) = true /\ wf_xsv ","%byte demo_keys (demo_rows ","%byte) = true /\
  Nat.ltb 1000 (length (render_xsv tab demo_keys (demo_rows tab))) = true /\ 4 <= length demo_keys.
Proof. vm_compute. repeat split; try reflexivity; repeat constructor. Qed.

(* ------------------------------------------------------------------ sequence writers: first line as a function of the object *)
Lemma detect_writers_sound : forall o,
  (forall recs, recs <> [] -> detect Seqs o (render_fasta recs) = DFound (bs "fasta"%bs)) /\
  (forall body, detect Seqs o (render_stockholm body) = DFound (bs "stockholm"%bs)) /\
  (forall header body, detect Seqs o (render_gff header body) = DFound (bs "gff"%bs) /\
                       detect Fts o (render_gff header body) = DFound (bs "gff"%bs)).
Proof.
  intros o. repeat split.
  - intros recs Hne. apply detect_fasta_sound. destruct recs as [|[[i h] d] r]; [congruence|]. reflexivity.
  - intros body. apply detect_stockholm_sound. unfold render_stockholm.
    destruct body as [|b body]; unfold shape_stockholm; cbn [app join]; apply startswith_self_app.
  - apply detect_gff_seqs_sound. unfold shape_gff, render_gff. apply startswith_self_app.
  - apply detect_gff_fts_sound. unfold shape_gff, render_gff. apply startswith_self_app.
Qed.
