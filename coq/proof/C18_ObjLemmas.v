(* C18 proofs, object model (lib/C18_Obj.v): the two-colour separation invariant is proved ONCE for the capability-checked
   interpreter, hence for every operation written as a program; copy isolation over arbitrary histories, both directions;
   in-place operations return the receiver; not-in-place operations only allocate. *)
From Coq Require Import List ZArith NArith Bool Lia.
From Coq.Strings Require Import Byte.
Import ListNotations.
From SV Require Import Text G_attr G_codes C18_Model C18_Heap C18_Lemmas C18_HeapLemmas C18_HeapOps C18_Obj.

(* ---------- small facts ---------- *)
Lemma memb_In x l : memb x l = true <-> In x l.
Proof.
  unfold memb. rewrite existsb_exists. split.
  - intros [y [H E]]. apply Nat.eqb_eq in E. subst. exact H.
  - intros H. exists x. split; [exact H|apply Nat.eqb_refl].
Qed.
Lemma subsetb_In a b : subsetb a b = true -> forall x, In x a -> In x b.
Proof. unfold subsetb. rewrite forallb_forall. intros H x Hx. apply memb_In. apply H. exact Hx. Qed.
Lemma index_of_lt x l : forall i, index_of x l = Some i -> i < length l.
Proof.
  induction l as [|y r IH]; cbn; intros i H; [discriminate|].
  destruct (Nat.eqb y x).
  - inversion H. lia.
  - destruct (index_of x r) as [j|]; cbn in H; [|discriminate]. inversion H. specialize (IH j eq_refl). lia.
Qed.
Lemma In_vrefs l vs : In l (vrefs vs) <-> In (HRef l) vs.
Proof.
  unfold vrefs. rewrite in_flat_map. split.
  - intros [v [Hv H]]. destruct v; cbn in H; try contradiction. destruct H as [->|[]]. exact Hv.
  - intros H. exists (HRef l). split; [exact H|left; reflexivity].
Qed.
Lemma mapM_length {A B} (f : A -> option B) l : forall ys, mapM f l = Some ys -> length ys = length l.
Proof.
  induction l as [|x r IH]; cbn; intros ys H.
  - inversion H. reflexivity.
  - destruct (f x); [|discriminate]. destruct (mapM f r) as [zs|]; [|discriminate]. inversion H. cbn. f_equal. apply IH. reflexivity.
Qed.
Lemma mapM_Forall {A B} (f : A -> option B) (P : B -> Prop) l : (forall x y, In x l -> f x = Some y -> P y) ->
  forall ys, mapM f l = Some ys -> Forall P ys.
Proof.
  induction l as [|x r IH]; cbn; intros HP ys H.
  - inversion H. constructor.
  - destruct (f x) eqn:E; [|discriminate]. destruct (mapM f r) as [zs|] eqn:E2; [|discriminate]. inversion H. constructor.
    + eapply HP; [left; reflexivity|exact E].
    + apply IH; [|reflexivity]. intros x' y' Hx. apply HP. right. exact Hx.
Qed.

(* ---------- the invariant on object heaps ---------- *)
Definition ocell_ok side n b (c : ocell) : Prop := Forall (okv side n b) (ocell_vals c).
Definition ocells_inv side (h : oheap) : Prop := forall l c, nth_error h l = Some c -> ocell_ok side (length h) (side l) c.
Definition oinv side (R : nat -> bool) (s : ostate) : Prop :=
  ocells_inv side (fst s) /\ forall k, okv side (length (fst s)) (R k) (oreg s k).

Lemma ocell_ok_mono side n m b c : n <= m -> ocell_ok side n b c -> ocell_ok side m b c.
Proof. intros L H. unfold ocell_ok in *. eapply Forall_impl; [|exact H]. intros v. apply okv_mono. exact L. Qed.

Lemma ocells_inv_app side h ex : fresh_true side (length h) -> ocells_inv side h ->
  Forall (ocell_ok side (length (h ++ ex)) true) ex -> ocells_inv side (h ++ ex).
Proof.
  intros F I C l c E. destruct (Nat.lt_ge_cases l (length h)) as [Hl|Hl].
  - rewrite nth_error_app1 in E by exact Hl. eapply ocell_ok_mono; [|apply (I l c E)]. rewrite app_length. lia.
  - rewrite nth_error_app2 in E by exact Hl. rewrite (F l Hl). apply nth_error_In in E. rewrite Forall_forall in C. apply C. exact E.
Qed.
Lemma ocells_inv_write side h l c : ocells_inv side h -> ocell_ok side (length h) (side l) c -> ocells_inv side (set_nth h l c).
Proof.
  intros I C l' c' E. rewrite length_set_nth.
  destruct (Nat.eq_dec l l') as [->|N].
  - destruct (Nat.lt_ge_cases l' (length h)) as [Hl|Hl].
    + rewrite nth_error_set_nth_same in E by exact Hl. inversion E; subst. exact C.
    + assert (nth_error (set_nth h l' c) l' = None) as X by (apply nth_error_None; rewrite length_set_nth; exact Hl).
      congruence.
  - rewrite nth_error_set_nth_other in E by exact N. rewrite length_set_nth in E || idtac. apply (I l' c' E).
Qed.

(* what a program knows: in-bounds addresses of the operating colour *)
Definition known_ok side n (kn : list nat) : Prop := forall l, In l kn -> l < n /\ side l = true.
Lemma known_ok_mono side n m kn : n <= m -> known_ok side n kn -> known_ok side m kn.
Proof. intros L H l Hl. destruct (H l Hl). split; [lia|assumption]. Qed.
Lemma known_refs side n kn c : known_ok side n kn -> (forall x, In x (ocell_refs c) -> In x kn) -> ocell_ok side n true c.
Proof.
  intros K S. unfold ocell_ok. rewrite Forall_forall. intros v Hv. destruct v; cbn; auto.
  apply K. apply S. unfold ocell_refs. apply In_vrefs. exact Hv.
Qed.
Lemma cell_refs_known side h l c kn : ocells_inv side h -> known_ok side (length h) kn -> In l kn -> nth_error h l = Some c ->
  known_ok side (length h) (ocell_refs c ++ kn).
Proof.
  intros I K Hl E x Hx. apply in_app_or in Hx. destruct Hx as [Hx|Hx]; [|apply K; exact Hx].
  destruct (K l Hl) as [_ Sl]. specialize (I l c E). rewrite Sl in I. unfold ocell_ok in I. rewrite Forall_forall in I.
  unfold ocell_refs in Hx. apply In_vrefs in Hx. apply (I _ Hx).
Qed.

(* ---------- deepcopy as graph copy: only new cells, which refer to new cells only ---------- *)
Lemma rename_new R n v v' : rename R n v = Some v' -> match v' with HRef a => n <= a < n + length R | _ => True end.
Proof.
  destruct v; cbn; intros H; try (inversion H; exact I).
  destruct (index_of l R) as [i|] eqn:E; cbn in H; [|discriminate]. inversion H. apply index_of_lt in E. lia.
Qed.
Lemma rename_cell_new R n c c' : rename_cell R n c = Some c' ->
  Forall (fun v => match v with HRef a => n <= a < n + length R | _ => True end) (ocell_vals c').
Proof.
  unfold rename_cell. destruct (mapM _ (ofs c)) as [fs|] eqn:E1; [|discriminate]. destruct (mapM _ (oes c)) as [es|] eqn:E2; [|discriminate].
  intros H. inversion H. unfold ocell_vals. cbn. apply Forall_app. split.
  - eapply mapM_Forall with (P := fun kv => match snd kv with HRef a => n <= a < n + length R | _ => True end) in E1.
    + rewrite Forall_forall in *. intros v Hv. apply in_map_iff in Hv. destruct Hv as [kv [<- Hkv]]. apply E1. exact Hkv.
    + intros kv y _ Hy. destruct (rename R n (snd kv)) eqn:E; cbn in Hy; [|discriminate]. inversion Hy. cbn. eapply rename_new. exact E.
  - eapply mapM_Forall; [|exact E2]. intros x y _ Hy. eapply rename_new. exact Hy.
Qed.
Lemma graph_copy_spec h l h' l' : graph_copy h l = Some (h', l') ->
  exists cells, h' = h ++ cells /\ length h <= l' < length h' /\
    Forall (fun c => Forall (fun v => match v with HRef a => length h <= a < length h' | _ => True end) (ocell_vals c)) cells.
Proof.
  unfold graph_copy. destruct (reach_order h [l]) as [R|]; [|discriminate].
  destruct (mapM _ R) as [cells|] eqn:E; [|discriminate]. destruct (index_of l R) as [i|] eqn:Ei; [|discriminate].
  intros H. inversion H; subst. exists cells. pose proof (mapM_length _ _ _ E) as Len. apply index_of_lt in Ei.
  rewrite app_length. split; [reflexivity|]. split; [lia|].
  eapply mapM_Forall; [|exact E]. intros a c' _ Hc. cbn beta in Hc. revert Hc. destruct (nth_error h a) as [c0|]; [|discriminate]. intros Hc.
  apply rename_cell_new in Hc. rewrite Len. exact Hc.
Qed.

(* ---------- THE interpreter theorem: any program, run by the side that owns its operands, keeps the separation
              invariant, changes no cell of the other colour, and returns a value of its own colour ---------- *)
Theorem interp_inv side c : forall kn h h' r,
  fresh_true side (length h) -> ocells_inv side h -> known_ok side (length h) kn ->
  interp c kn h = inl (h', r) ->
  ocells_inv side h' /\ length h <= length h' /\ okv side (length h') true r /\
  (forall l, side l = false -> nth_error h' l = nth_error h l).
Proof.
  induction c as [v|e|l k IH|l c k IH|c k IH|l k IH]; intros kn h h' r F I K E; cbn [interp] in E.
  - destruct (val_known kn v) eqn:V; [|discriminate]. inversion E; subst. repeat split; auto.
    destruct r; cbn; auto. cbn in V. apply memb_In in V. apply K. exact V.
  - discriminate.
  - destruct (memb l kn) eqn:M; [|discriminate]. apply memb_In in M.
    destruct (nth_error h l) as [c|] eqn:N; [|discriminate].
    apply (IH c (ocell_refs c ++ kn) h h' r F I); [eapply cell_refs_known; eauto|exact E].
  - destruct (memb l kn && subsetb (ocell_refs c) kn && Nat.ltb l (length h)) eqn:G; [|discriminate].
    apply andb_prop in G. destruct G as [G L]. apply andb_prop in G. destruct G as [M S].
    apply memb_In in M. apply Nat.ltb_lt in L. destruct (K l M) as [_ Sl].
    assert (ocells_inv side (set_nth h l c)) as I'.
    { apply ocells_inv_write; [exact I|]. rewrite Sl. eapply known_refs; [exact K|]. apply subsetb_In. exact S. }
    specialize (IH kn (set_nth h l c) h' r). rewrite length_set_nth in IH. destruct (IH F I' K E) as [A [B [C D]]].
    repeat split; auto. intros x Hx. rewrite D by exact Hx. apply nth_error_set_nth_other. intros ->. congruence.
  - destruct (subsetb (ocell_refs c) kn) eqn:Sb; [|discriminate].
    assert (ocells_inv side (h ++ [c])) as I'.
    { apply ocells_inv_app; auto. constructor; [|constructor]. eapply ocell_ok_mono; [|eapply known_refs; [exact K|apply subsetb_In; exact Sb]].
      rewrite app_length. lia. }
    assert (length (h ++ [c]) = S (length h)) as Len by (rewrite app_length; cbn; lia).
    destruct (IH (length h) (length h :: kn) (h ++ [c]) h' r) as [A [B [C D]]]; auto.
    + rewrite Len. eapply fresh_true_mono; [|exact F]. lia.
    + rewrite Len. intros x [<-|Hx]; [split; [lia|apply F; lia]|]. destruct (K x Hx). split; [lia|assumption].
    + repeat split; auto; [lia|]. intros x Hx. rewrite D by exact Hx. apply app_old.
      destruct (Nat.lt_ge_cases x (length h)) as [Y|Y]; [exact Y|]. rewrite (F x Y) in Hx. discriminate.
  - destruct (memb l kn) eqn:M; [|discriminate]. destruct (graph_copy h l) as [[h1 l1]|] eqn:G; [|discriminate].
    apply graph_copy_spec in G. destruct G as [cells [-> [Hl1 Cs]]].
    assert (ocells_inv side (h ++ cells)) as I'.
    { apply ocells_inv_app; auto. rewrite Forall_forall in *. intros c Hc. specialize (Cs c Hc). unfold ocell_ok.
      rewrite Forall_forall in *. intros v Hv. specialize (Cs v Hv). destruct v; cbn; auto. split; [lia|apply F; lia]. }
    assert (length h <= length (h ++ cells)) as Len by (rewrite app_length; lia).
    destruct (IH l1 (l1 :: kn) (h ++ cells) h' r) as [A [B [C D]]]; auto.
    + eapply fresh_true_mono; [exact Len|exact F].
    + intros x [<-|Hx]; [split; [lia|apply F; lia]|]. destruct (K x Hx). split; [lia|assumption].
    + repeat split; auto; [lia|]. intros x Hx. rewrite D by exact Hx. apply app_old.
      destruct (Nat.lt_ge_cases x (length h)) as [Y|Y]; [exact Y|]. rewrite (F x Y) in Hx. discriminate.
Qed.

(* ---------- operations ---------- *)
Definition oregs_in (R : nat -> bool) (o : oop) : bool :=
  forallb R (op_regs o) && match op_dst o with Some i => R i | None => true end.

Record ostep_ok side (R : nat -> bool) (s s' : ostate) : Prop := {
  oso_inv : oinv side R s';
  oso_len : length (fst s) <= length (fst s');
  oso_old : forall l, side l = false -> nth_error (fst s') l = nth_error (fst s) l;
  oso_regs : forall k, R k = false -> oreg s' k = oreg s k }.

Theorem ostep_sep side R s o s' r : fresh_true side (length (fst s)) -> oinv side R s -> oregs_in R o = true ->
  ostep o s = inl (s', r) -> ostep_ok side R s s'.
Proof.
  intros F [I Rg] RI E. unfold ostep in E.
  destruct (interp _ _ _) as [[h' r']|e] eqn:X; [|discriminate]. inversion E; subst. clear E.
  unfold oregs_in in RI. apply andb_prop in RI. destruct RI as [RI RD]. rewrite forallb_forall in RI.
  apply interp_inv with (side := side) in X; auto.
  - destruct X as [A [B [C D]]]. constructor; cbn; auto.
    + split; cbn; [exact A|]. intros k. unfold oreg. cbn. destruct (op_dst o) as [i|].
      * rewrite nth_set_nth. destruct (Nat.eqb k i) eqn:Q1; cbn [andb];
          [match goal with |- context [if ?b then _ else _] => destruct b eqn:Q2 end|].
        -- apply Nat.eqb_eq in Q1. subst k. rewrite RD. exact C.
        -- eapply okv_mono; [exact B|apply Rg].
        -- eapply okv_mono; [exact B|apply Rg].
      * eapply okv_mono; [exact B|apply Rg].
    + intros k Hk. unfold oreg. cbn. destruct (op_dst o) as [i|]; [|reflexivity].
      rewrite nth_set_nth. destruct (Nat.eqb k i) eqn:Q; [apply Nat.eqb_eq in Q; subst; congruence|reflexivity].
  - intros l Hl. apply In_vrefs in Hl. apply in_map_iff in Hl. destruct Hl as [k [Hk Hin]].
    specialize (Rg k). rewrite Hk in Rg. rewrite (RI k Hin) in Rg. exact Rg.
Qed.

Definition oexec1 (o : oop) (s : ostate) : ostate := match ostep o s with inl (s', _) => s' | inr _ => s end.
Definition oexec (ops : list oop) (s : ostate) : ostate := fold_left (fun s o => oexec1 o s) ops s.
Lemma orun_oexec ops : forall s okd acc, snd (orun ops s okd acc) = oexec ops s.
Proof.
  induction ops as [|o r IH]; intros s okd acc; cbn; [reflexivity|]. unfold oexec1.
  destruct (ostep o s) as [[s' v]|e]; [apply IH|]. destruct e; apply IH.
Qed.

(* ---------- observation through a variable: the canonical dump of the object graph behind it, any fuel ---------- *)
Definition view (n : nat) (s : ostate) (k : nat) : val :=
  match option_map (@rev nat) (dfs n (fst s) (vrefs [oreg s k]) []) with
  | Some order =>
      VL [render_v order (oreg s k);
          VL (map (fun a => match nth_error (fst s) a with Some c => render_cell order c | None => VNone end) order)]
  | None => VE (bs "OutOfDomain"%bs)
  end.

Lemma dfs_frame side h h' : ocells_inv side h -> (forall l, side l = false -> nth_error h' l = nth_error h l) ->
  forall n st seen, Forall (fun l => l < length h /\ side l = false) st -> dfs n h' st seen = dfs n h st seen.
Proof.
  intros I D n. induction n as [|n IH]; intros st seen St; cbn [dfs]; [reflexivity|].
  destruct st as [|l st]; [reflexivity|]. inversion St as [|? ? [L S] St']; subst.
  destruct (memb l seen); [apply IH; exact St'|]. rewrite (D l S).
  destruct (nth_error h l) as [c|] eqn:N; [|reflexivity]. apply IH. apply Forall_app. split; [|exact St'].
  specialize (I l c N). rewrite S in I. unfold ocell_ok in I. rewrite Forall_forall in *. intros x Hx.
  unfold ocell_refs in Hx. apply In_vrefs in Hx. apply (I _ Hx).
Qed.
Lemma dfs_seen_ok (P : nat -> Prop) h : (forall l c, P l -> nth_error h l = Some c -> Forall P (ocell_refs c)) ->
  forall n st seen r, Forall P st -> Forall P seen -> dfs n h st seen = Some r -> Forall P r.
Proof.
  intros C n. induction n as [|n IH]; intros st seen r St Se E; cbn [dfs] in E; [discriminate|].
  destruct st as [|l st]; [inversion E; subst; exact Se|]. inversion St; subst.
  destruct (memb l seen); [apply (IH st seen r); assumption|]. destruct (nth_error h l) as [c|] eqn:N; [|discriminate].
  apply (IH (ocell_refs c ++ st) (l :: seen) r); [apply Forall_app; split; eauto|constructor; auto|exact E].
Qed.

Lemma view_frame0 side s s' k n : ocells_inv side (fst s) -> okv side (length (fst s)) false (oreg s k) ->
  (forall l, side l = false -> nth_error (fst s') l = nth_error (fst s) l) -> oreg s' k = oreg s k -> view n s' k = view n s k.
Proof.
  intros I Rg Old Regs. unfold view. rewrite Regs.
  assert (Forall (fun l => l < length (fst s) /\ side l = false) (vrefs [oreg s k])) as St.
  { destruct (oreg s k); cbn; constructor; auto. }
  rewrite (dfs_frame side (fst s) (fst s') I Old n _ _ St).
  destruct (dfs n (fst s) (vrefs [oreg s k]) []) as [r|] eqn:E; cbn; [|reflexivity].
  f_equal. f_equal. f_equal. f_equal. apply map_ext_in. intros a Ha. rewrite Old; [reflexivity|].
  apply in_rev in Ha. eapply dfs_seen_ok with (P := fun l => l < length (fst s) /\ side l = false) in E; [| |exact St|constructor].
  - rewrite Forall_forall in E. apply (E a Ha).
  - intros l c [L S] N. specialize (I l c N). rewrite S in I. unfold ocell_ok in I. rewrite Forall_forall in *. intros x Hx.
    unfold ocell_refs in Hx. apply In_vrefs in Hx. apply (I _ Hx).
Qed.
Lemma view_frame side R s s' k n : oinv side R s -> ostep_ok side R s s' -> R k = false -> view n s' k = view n s k.
Proof.
  intros [I Rg] [_ _ Old Regs] Rk. apply view_frame0 with (side := side); auto. specialize (Rg k). rewrite Rk in Rg. exact Rg.
Qed.

(* any history by the R-side leaves every observation through the other side unchanged *)
Theorem oexec_frame side R ops : forall s, fresh_true side (length (fst s)) -> oinv side R s ->
  forallb (oregs_in R) ops = true ->
  oinv side R (oexec ops s) /\ fresh_true side (length (fst (oexec ops s))) /\
  forall k n, R k = false -> view n (oexec ops s) k = view n s k.
Proof.
  induction ops as [|o r IH]; intros s F I RI.
  - cbn. repeat split; auto; apply I.
  - cbn in RI. apply andb_prop in RI. destruct RI as [Ro Rr].
    change (oexec (o :: r) s) with (oexec r (oexec1 o s)). unfold oexec1.
    destruct (ostep o s) as [[s1 v]|e] eqn:E; [|apply IH; auto].
    pose proof (ostep_sep side R s o s1 v F I Ro E) as SO.
    assert (fresh_true side (length (fst s1))) as F1 by (eapply fresh_true_mono; [apply (oso_len _ _ _ _ SO)|exact F]).
    destruct (IH s1 F1 (oso_inv _ _ _ _ SO) Rr) as [A [B C]]. split; [exact A|]. split; [exact B|].
    intros k n Rk. rewrite C by exact Rk. eapply view_frame; eauto.
Qed.

(* ---------- every reachable state is well formed (no dangling reference) ---------- *)
Lemma oregs_in_all o : oregs_in all_true o = true.
Proof. unfold oregs_in. apply andb_true_intro. split; [apply forallb_forall; reflexivity|destruct (op_dst o); reflexivity]. Qed.

Lemma oinv_init : oinv all_true all_true oinit.
Proof.
  split.
  - intros l c E. destruct l; discriminate.
  - intros k. unfold oreg, oinit, nregs. cbn. do 5 (destruct k as [|k]; cbn; auto).
Qed.
Definition oheap_ok (h : oheap) : Prop := forall l c, nth_error h l = Some c -> Forall (vref_lt (length h)) (ocell_vals c).
Lemma oinv_all_ok s : oinv all_true all_true s -> oheap_ok (fst s) /\ forall k, vref_lt (length (fst s)) (oreg s k).
Proof.
  intros [I Rg]. split.
  - intros l c E. specialize (I l c E). unfold ocell_ok in I. eapply Forall_impl; [|exact I]. intros v O. destruct v; cbn in *; auto. tauto.
  - intros k. specialize (Rg k). destruct (oreg s k); cbn in *; auto. tauto.
Qed.
Theorem oreachable_ok ops : let s := oexec ops oinit in
  oinv all_true all_true s /\ oheap_ok (fst s) /\ forall k, vref_lt (length (fst s)) (oreg s k).
Proof.
  cbn zeta. destruct (oexec_frame all_true all_true ops oinit) as (I & _ & _).
  - intros l _. reflexivity.
  - exact oinv_init.
  - apply forallb_forall. intros o _. apply oregs_in_all.
  - split; [exact I|apply oinv_all_ok; exact I].
Qed.

Lemma ostep_regs_len o s s' r : ostep o s = inl (s', r) -> length (snd s') = length (snd s).
Proof.
  unfold ostep. destruct (interp _ _ _) as [[h' r']|e]; [|discriminate]. intros E. inversion E; subst. cbn.
  destruct (op_dst o); [apply length_set_nth|reflexivity].
Qed.
Lemma oexec_regs_len ops : forall s, length (snd (oexec ops s)) = length (snd s).
Proof.
  induction ops as [|o r IH]; intros s; [reflexivity|]. change (oexec (o :: r) s) with (oexec r (oexec1 o s)). rewrite IH. unfold oexec1.
  destruct (ostep o s) as [[s' v]|e] eqn:E; [|reflexivity]. eapply ostep_regs_len; eauto.
Qed.

(* ---------- navigation by a program = navigation as a function of the heap; reads change nothing ---------- *)
Lemma interp_rd v k kn h res : interp (rd v k) kn h = inl res ->
  exists l c, v = HRef l /\ nth_error h l = Some c /\ In l kn /\ interp (k l c) (ocell_refs c ++ kn) h = inl res.
Proof.
  destruct v; cbn [rd interp]; try discriminate. destruct (memb l kn) eqn:M; [|discriminate].
  destruct (nth_error h l) as [c|] eqn:N; [|discriminate]. intros E. exists l, c. apply memb_In in M. auto.
Qed.
Lemma interp_onav k q : forall v kn h res, interp (onav v q k) kn h = inl res ->
  exists v' kn', onav_pure h v q = Some v' /\ interp (k v') kn' h = inl res /\ (forall x, In x kn -> In x kn') /\
                 (forall x, In x kn' -> In x kn \/ exists l c, In l kn' /\ nth_error h l = Some c /\ In x (ocell_refs c)).
Proof.
  induction q as [|e q IH]; intros v kn h res E; cbn [onav onav_pure] in *.
  - exists v, kn. repeat split; auto.
  - apply interp_rd in E. destruct E as (l & c & -> & N & Hl & E). rewrite N.
    destruct (cstep c e) as [y0|]; [|discriminate]. apply IH in E. destruct E as (v' & kn' & P & E & S1 & S2).
    exists v', kn'. repeat split; auto. intros x Hx. apply S1. apply in_or_app. right. exact Hx.
    intros x Hx. destruct (S2 x Hx) as [Hx'|Hx']; [|right; exact Hx'].
    apply in_app_or in Hx'. destruct Hx' as [Hx'|Hx']; [|left; exact Hx'].
    right. exists l, c. repeat split; auto. apply S1. apply in_or_app. right. exact Hl.
Qed.

(* ---------- (1) in-place operations return the receiver itself ---------- *)
Fixpoint returns_only (v : hval) (c : cmd) : Prop :=
  match c with
  | Ret v' => v' = v
  | Fail _ => True
  | Read _ k => forall c, returns_only v (k c)
  | Write _ _ k => returns_only v k
  | Alloc _ k => forall a, returns_only v (k a)
  | Copy _ k => forall a, returns_only v (k a)
  end.
Lemma returns_only_sound v c : forall kn h h' r, returns_only v c -> interp c kn h = inl (h', r) -> r = v.
Proof.
  induction c as [v'|e|l k IH|l c k IH|c k IH|l k IH]; intros kn h h' r RO E; cbn [interp returns_only] in *.
  - destruct (val_known kn v'); [|discriminate]. inversion E; subst. reflexivity.
  - discriminate.
  - destruct (memb l kn); [|discriminate]. destruct (nth_error h l) as [c|]; [|discriminate]. eapply IH; eauto.
  - destruct (_ && _); [|discriminate]. eapply IH; eauto.
  - destruct (subsetb _ _); [|discriminate]. eapply IH; eauto.
  - destruct (memb l kn); [|discriminate]. destruct (graph_copy h l) as [[h1 l1]|]; [|discriminate]. eapply IH; eauto.
Qed.
Lemma ro_rd v x k : (forall l c, returns_only v (k l c)) -> returns_only v (rd x k).
Proof. intros H. destruct x; cbn; auto. Qed.
Lemma ro_foreach v f k : returns_only v k -> forall vs, returns_only v (foreach vs f k).
Proof. intros H vs. induction vs as [|x r IH]; cbn [foreach]; [exact H|]. apply ro_rd. intros l c. destruct (f c); cbn; auto. Qed.
Lemma ro_read_all v k : (forall cs, returns_only v (k cs)) -> forall vs acc, returns_only v (read_all vs acc k).
Proof. intros H vs. induction vs as [|x r IH]; intros acc; cbn [read_all]; [apply H|]. apply ro_rd. intros l c. apply IH. Qed.
Lemma inplace_cmd_returns f l c : returns_only (HRef l) (inplace_cmd f l c).
Proof.
  unfold inplace_cmd. destruct (ocls c); cbn; auto.
  - destruct (seq_fn f); cbn; auto. destruct (seq_map _ c); cbn; auto.
  - destruct f; cbn [seq_fn]; cbn; auto; try (apply ro_foreach; reflexivity);
      apply ro_read_all; intros cs; destruct (all_some len_of cs); cbn; auto.
Qed.
Theorem inplace_returns_receiver d f j q s s' r : ostep (OInpl d f j q) s = inl (s', r) ->
  exists l, onav_pure (fst s) (oreg s j) q = Some (HRef l) /\ r = HRef l /\
            snd s' = match d with Some i => set_nth (snd s) i (HRef l) | None => snd s end.
Proof.
  unfold ostep. cbn [op_regs op_cmd op_dst map nth]. destruct (interp _ _ _) as [[h' r']|e] eqn:E; [|discriminate].
  intros X. inversion X; subst. clear X. apply interp_onav in E. destruct E as (v' & kn' & P & E & _).
  apply interp_rd in E. destruct E as (l & c & -> & N & Hl & E). exists l. split; [exact P|].
  apply returns_only_sound with (v := HRef l) in E; [|apply inplace_cmd_returns]. subst. split; reflexivity.
Qed.

(* ---------- (2) operations documented as not in-place only allocate (and may finish the object they are building) ---------- *)
Fixpoint wr_ok (fr : list nat) (c : cmd) : Prop :=
  match c with
  | Ret _ | Fail _ => True
  | Read _ k => forall c, wr_ok fr (k c)
  | Write l _ k => In l fr /\ wr_ok fr k
  | Alloc _ k => forall a, wr_ok (a :: fr) (k a)
  | Copy _ k => forall a, wr_ok (a :: fr) (k a)
  end.
Lemma wr_ok_sound n0 c : forall fr kn h h' r, wr_ok fr c -> (forall a, In a fr -> n0 <= a) -> n0 <= length h ->
  interp c kn h = inl (h', r) -> n0 <= length h' /\ forall l, l < n0 -> nth_error h' l = nth_error h l.
Proof.
  induction c as [v'|e|l k IH|l c k IH|c k IH|l k IH]; intros fr kn h h' r W Fr L E; cbn [interp wr_ok] in *.
  - destruct (val_known kn v'); [|discriminate]. inversion E; subst. auto.
  - discriminate.
  - destruct (memb l kn); [|discriminate]. destruct (nth_error h l) as [c|]; [|discriminate]. eapply IH; eauto.
  - destruct (_ && _); [|discriminate]. destruct W as [Wl W]. specialize (IH fr kn (set_nth h l c) h' r W Fr).
    rewrite length_set_nth in IH. destruct (IH L E) as [A B]. split; [exact A|]. intros x Hx. rewrite B by exact Hx.
    apply nth_error_set_nth_other. specialize (Fr l Wl). lia.
  - destruct (subsetb _ _); [|discriminate]. destruct (IH (length h) (length h :: fr) (length h :: kn) (h ++ [c]) h' r) as [A B]; auto.
    + intros a [<-|Ha]; auto.
    + rewrite app_length. lia.
    + split; [exact A|]. intros x Hx. rewrite B by exact Hx. apply app_old. lia.
  - destruct (memb l kn); [|discriminate]. destruct (graph_copy h l) as [[h1 l1]|] eqn:G; [|discriminate].
    apply graph_copy_spec in G. destruct G as [cells [-> [Hl1 _]]].
    destruct (IH l1 (l1 :: fr) (l1 :: kn) (h ++ cells) h' r) as [A B]; auto.
    + intros a [<-|Ha]; auto. lia.
    + rewrite app_length. lia.
    + split; [exact A|]. intros x Hx. rewrite B by exact Hx. apply app_old. lia.
Qed.
Lemma wr_rd fr x k : (forall l c, wr_ok fr (k l c)) -> wr_ok fr (rd x k).
Proof. intros H. destruct x; cbn; auto. Qed.
Lemma wr_read_all fr k : (forall cs, wr_ok fr (k cs)) -> forall vs acc, wr_ok fr (read_all vs acc k).
Proof. intros H vs. induction vs as [|x r IH]; intros acc; cbn [read_all]; [apply H|]. apply wr_rd. intros l c. apply IH. Qed.
Lemma wr_onav fr k q : (forall v, wr_ok fr (k v)) -> forall v, wr_ok fr (onav v q k).
Proof. intros H. induction q as [|e q IH]; intros v; cbn [onav]; [apply H|]. apply wr_rd. intros l c. destruct (cstep c e); cbn; auto. Qed.
Lemma wr_rewrap fr m k : (forall a, wr_ok (a :: fr) (k (HRef a))) -> wr_ok fr (rewrap m k).
Proof.
  intros H. unfold rewrap. apply wr_rd. intros l c. destruct (attrcls (ocls c)); cbn; auto.
  apply wr_read_all. intros cs. destruct (existsb _ cs); cbn; auto.
Qed.
Lemma wr_new_seq fr d m : wr_ok fr (new_seq d m Ret).
Proof.
  unfold new_seq. apply wr_rewrap. intros a. cbn [rd wr_ok]. intros c. destruct (amem kid (ofs c)); cbn; auto.
Qed.
Lemma pure_cmd_wr f l c : wr_ok [] (pure_cmd f l c).
Proof.
  destruct f; cbn [pure_cmd].
  - cbn [wr_ok]. auto.
  - destruct (ocls c); try exact I.
    + destruct (seq_data c); [|exact I]. destruct (aget kmeta (ofs c)); [|exact I]. apply wr_new_seq.
    + destruct (aget kmeta (ofs c)); [|exact I]. apply wr_rewrap. intros x. cbn [wr_ok]. auto.
    + cbn [wr_ok]. auto.
  - destruct (seq_data c); [|exact I]. destruct (aget kmeta (ofs c)); [|exact I]. apply wr_new_seq.
  - destruct (ocls c); try exact I. apply wr_read_all. intros cs. destruct (all_some len_of cs); [|exact I]. cbn [wr_ok]. auto.
  - destruct (ocls c); try exact I. apply wr_read_all. intros scs. destruct (mapM _ scs); [|exact I].
    apply wr_read_all. intros mcs. destruct (mapM _ mcs); [|exact I]. apply wr_read_all. intros fcs.
    destruct (forallb _ fcs); [|exact I]. cbn [wr_ok]. auto.
  - exact I.
Qed.
Theorem pure_only_allocates i f j q s s' r : ostep (OPure i f j q) s = inl (s', r) ->
  length (fst s) <= length (fst s') /\ (forall l, l < length (fst s) -> nth_error (fst s') l = nth_error (fst s) l) /\
  (forall k, k <> i -> oreg s' k = oreg s k).
Proof.
  unfold ostep. cbn [op_regs op_cmd op_dst map nth]. destruct (interp _ _ _) as [[h' r']|e] eqn:E; [|discriminate].
  intros X. inversion X; subst. clear X. cbn [fst snd].
  apply wr_ok_sound with (n0 := length (fst s)) (fr := []) in E; auto.
  - destruct E as [A B]. repeat split; auto. intros k N. unfold oreg. cbn. rewrite nth_set_nth.
    destruct (Nat.eqb k i) eqn:Q; [apply Nat.eqb_eq in Q; contradiction|reflexivity].
  - apply wr_onav. intros v. apply wr_rd. intros l c. apply pure_cmd_wr.
  - intros a [].
Qed.
(* hence every observation through every other variable -- the operands included -- is unchanged *)
Theorem pure_not_inplace i f j q s s' r : oinv all_true all_true s -> ostep (OPure i f j q) s = inl (s', r) ->
  forall k n, k <> i -> view n s' k = view n s k.
Proof.
  intros I E k n N. destruct (pure_only_allocates _ _ _ _ _ _ _ E) as (L & Old & Rg).
  destruct (oinv_all_ok s I) as [OK RgL].
  apply view_frame0 with (side := fun l => Nat.leb (length (fst s)) l).
  - intros l c X. assert (l < length (fst s)) as Hl by (apply nth_error_Some; congruence).
    replace (Nat.leb (length (fst s)) l) with false by (symmetry; apply Nat.leb_gt; exact Hl).
    specialize (OK l c X). unfold ocell_ok. eapply Forall_impl; [|exact OK]. intros v Hv. destruct v; cbn in *; auto.
    split; [exact Hv|apply Nat.leb_gt; exact Hv].
  - specialize (RgL k). destruct (oreg s k); cbn in *; auto. split; [exact RgL|apply Nat.leb_gt; exact RgL].
  - intros l Hl. apply Nat.leb_gt in Hl. apply Old. exact Hl.
  - apply Rg. exact N.
Qed.

(* ---------- (3) copy isolation over arbitrary histories, both directions ---------- *)
Lemma copy_effect i j q s s1 r : ostep (OPure i PCopy j q) s = inl (s1, r) ->
  exists l l', onav_pure (fst s) (oreg s j) q = Some (HRef l) /\ graph_copy (fst s) l = Some (fst s1, l') /\ r = HRef l' /\
               snd s1 = set_nth (snd s) i (HRef l').
Proof.
  unfold ostep. cbn [op_regs op_cmd op_dst map nth]. destruct (interp _ _ _) as [[h' r']|e] eqn:E; [|discriminate].
  intros X. inversion X; subst. clear X. apply interp_onav in E. destruct E as (v' & kn' & P & E & _).
  apply interp_rd in E. destruct E as (l & c & -> & N & Hl & E). cbn [pure_cmd interp] in E.
  destruct (memb l _); [|discriminate]. destruct (graph_copy (fst s) l) as [[h1 l1]|] eqn:G; [|discriminate].
  cbn [val_known] in E. destruct (memb l1 _); [|discriminate]. inversion E; subst. exists l, l1. auto.
Qed.

Lemma copy_colour side (R : nat -> bool) (b : bool) (h : oheap) regs cells i l' :
  oheap_ok h -> (forall k, vref_lt (length h) (nth k regs HNull)) -> i < length regs ->
  Forall (fun c => Forall (fun v => match v with HRef a => length h <= a < length (h ++ cells) | _ => True end) (ocell_vals c)) cells ->
  length h <= l' < length (h ++ cells) ->
  (forall l, l < length h -> side l = negb b) -> (forall l, length h <= l < length (h ++ cells) -> side l = b) ->
  R i = b -> (forall k, k <> i -> R k = negb b \/ forall l, nth k regs HNull <> HRef l) ->
  oinv side R (h ++ cells, set_nth regs i (HRef l')).
Proof.
  intros OK Rg Li Cs Hl' Sold Snew Ri Rk. split; cbn [fst snd].
  - intros l0 c E. assert (l0 < length (h ++ cells)) as Hb by (apply nth_error_Some; congruence).
    destruct (Nat.lt_ge_cases l0 (length h)) as [Hl|Hl].
    + rewrite nth_error_app1 in E by exact Hl. rewrite (Sold l0 Hl). specialize (OK l0 c E). unfold ocell_ok.
      eapply Forall_impl; [|exact OK]. intros v Hv. destruct v; cbn in *; auto. split; [lia|apply Sold; exact Hv].
    + rewrite nth_error_app2 in E by exact Hl. apply nth_error_In in E. rewrite (Snew l0) by lia.
      rewrite Forall_forall in Cs. specialize (Cs c E). unfold ocell_ok. eapply Forall_impl; [|exact Cs].
      intros v Hv. destruct v; cbn in *; auto. split; [lia|apply Snew; exact Hv].
  - intros k. unfold oreg. cbn [snd]. rewrite nth_set_nth. destruct (Nat.eqb k i) eqn:Q; cbn [andb].
    + apply Nat.eqb_eq in Q. subst k. replace (Nat.ltb i (length regs)) with true by (symmetry; apply Nat.ltb_lt; exact Li).
      cbn. split; [lia|]. rewrite Ri. apply Snew. exact Hl'.
    + apply Nat.eqb_neq in Q. specialize (Rg k). destruct (Rk k Q) as [H|H].
      * rewrite H. destruct (nth k regs HNull); cbn in *; auto. split; [rewrite app_length; lia|apply Sold; exact Rg].
      * destruct (nth k regs HNull) as [| | | |a]; cbn; auto. exfalso. apply (H a). reflexivity.
Qed.

Theorem obj_copy_isolation pre i j q s1 r : i < nregs ->
  ostep (OPure i PCopy j q) (oexec pre oinit) = inl (s1, r) ->
  (forall R ops, R i = true -> (forall k, k <> i -> R k = true -> forall l, oreg s1 k <> HRef l) ->
     forallb (oregs_in R) ops = true -> forall k n, R k = false -> view n (oexec ops s1) k = view n s1 k) /\
  (forall R ops, R i = false -> (forall k, k <> i -> R k = false -> forall l, oreg s1 k <> HRef l) ->
     forallb (oregs_in R) ops = true -> forall k n, R k = false -> view n (oexec ops s1) k = view n s1 k).
Proof.
  intros Li E. destruct (oreachable_ok pre) as (I0 & OK0 & Rg0).
  pose proof (oexec_regs_len pre oinit) as RL. cbn [snd oinit] in RL. rewrite repeat_length in RL.
  destruct (copy_effect _ _ _ _ _ _ E) as (l & l' & _ & G & _ & Rs).
  destruct (oexec pre oinit) as [h regs] eqn:S0. destruct s1 as [h1 regs1]. cbn [fst snd] in *. subst regs1.
  apply graph_copy_spec in G. destruct G as (cells & -> & Hl' & Cs).
  assert (forall k, k <> i -> oreg (h ++ cells, set_nth regs i (HRef l')) k = nth k regs HNull) as Rk.
  { intros k N. unfold oreg. cbn [snd]. rewrite nth_set_nth. destruct (Nat.eqb k i) eqn:Q; [apply Nat.eqb_eq in Q; contradiction|reflexivity]. }
  assert (i < length regs) as Li' by (rewrite RL; exact Li).
  split.
  - intros R ops Ri Scr A k n Rkf.
    set (side := fun x => Nat.leb (length h) x).
    assert (oinv side R (h ++ cells, set_nth regs i (HRef l'))) as I1.
    { apply copy_colour with (b := true); auto.
      - intros x Hx. unfold side. apply Nat.leb_gt. exact Hx.
      - intros x Hx. unfold side. apply Nat.leb_le. lia.
      - intros k0 N. destruct (R k0) eqn:Q; [right|left; reflexivity]. intros a Ha. apply (Scr k0 N Q a). rewrite Rk by exact N. exact Ha. }
    assert (fresh_true side (length (h ++ cells))) as F1.
    { intros x Hx. unfold side. apply Nat.leb_le. rewrite app_length in Hx. lia. }
    destruct (oexec_frame side R ops (h ++ cells, set_nth regs i (HRef l')) F1 I1 A) as (_ & _ & Fr). apply Fr. exact Rkf.
  - intros R ops Ri Scr A k n Rkf.
    set (side := fun x => Nat.ltb x (length h) || Nat.leb (length (h ++ cells)) x).
    assert (oinv side R (h ++ cells, set_nth regs i (HRef l'))) as I2.
    { apply copy_colour with (b := false); auto.
      - intros x Hx. unfold side. apply orb_true_intro. left. apply Nat.ltb_lt. exact Hx.
      - intros x Hx. unfold side. apply orb_false_intro; [apply Nat.ltb_ge; lia|apply Nat.leb_gt; lia].
      - intros k0 N. destruct (R k0) eqn:Q; [left; reflexivity|right]. intros a Ha. apply (Scr k0 N Q a). rewrite Rk by exact N. exact Ha. }
    assert (fresh_true side (length (h ++ cells))) as F2.
    { intros x Hx. unfold side. apply orb_true_intro. right. apply Nat.leb_le. exact Hx. }
    destruct (oexec_frame side R ops (h ++ cells, set_nth regs i (HRef l')) F2 I2 A) as (_ & _ & Fr). apply Fr. exact Rkf.
Qed.

(* ---------- non-vacuity: concrete programs ---------- *)
Definition demo_seq : seqlit :=
  SeqLit (bs "ACGTAC"%bs) (TMap TgDict [(bs "id"%bs, TStr (bs "s1"%bs)); (bs "a"%bs, TMap TgDict [(bs "b"%bs, TInt 1)])])
         [FeatLit (Some (bs "cds"%bs)) [LocLit 1 4 (bs "+"%bs) 0 (TMap TgDict [])] (TMap TgDict [(bs "seqid"%bs, TStr (bs "s1"%bs))])].
Definition demo_basket : objlit := LBasket [demo_seq; SeqLit (bs "GG"%bs) (TMap TgDict [(bs "id"%bs, TStr (bs "s2"%bs))]) []] (TMap TgDict [(bs "n"%bs, TInt 1)]).
Definition pmeta := PK (bs "meta"%bs).
Definition pfts := PK (bs "fts"%bs).
(* slicing shares meta.fts and nested metadata BY DESIGN, copy() separates everything *)
Definition demo_share : list oop :=
  [ONew 0 demo_basket;
   OPure 1 (PSlice 0 3) 0 [PI 0];                                    (* r1 = r0[0][0:3] *)
   OBin None BIs 1 [pmeta] 0 [PI 0; pmeta];                          (* r1.meta is r0[0].meta           -> False *)
   OBin None BIs 1 [pmeta; pfts] 0 [PI 0; pmeta; pfts];              (* r1.meta.fts is r0[0].meta.fts   -> True  *)
   OBin None BIs 1 [pmeta; PK (bs "a"%bs)] 0 [PI 0; pmeta; PK (bs "a"%bs)];   (* nested Attr shared    -> True  *)
   OPure 2 PCopy 0 [];                                               (* r2 = r0.copy() *)
   OBin None BIs 2 [PI 0; pmeta; pfts] 0 [PI 0; pmeta; pfts];        (* -> False *)
   OBin None BIs 2 [PI 0] 0 [PI 0];                                  (* -> False *)
   OInpl (Some 3) FSortLen 0 [];                                     (* r3 = r0.sort(len) *)
   OBin None BIs 3 [] 0 []].                                         (* r3 is r0 -> True *)
Lemma demo_share_run : wf_C18_obj demo_share = true /\
  (let '(_, res, _) := orun demo_share oinit true [] in
   map (fun i => nth i res VNone) [2; 3; 4; 6; 7; 9] = [VB false; VB true; VB true; VB false; VB false; VB true]).
Proof. vm_compute. split; reflexivity. Qed.

Lemma demo_obj_copy :
  let pre := [ONew 0 demo_basket; OPure 2 (PSlice 0 1) 0 []] in
  let ops := [OInpl None FReverse 1 [PI 0]; OMut (MSetLit (bs "b"%bs) (TInt 2)) 1 [PI 0; pmeta; PK (bs "a"%bs)];
              OMut (MDelIdx 1) 1 []; OInpl (Some 1) FLower 1 []; OBin None BSetFts 1 [PI 0] 1 [PI 0; pmeta; pfts];
              OMut (MAppendFeat (FeatLit None [LocLit 0 1 (bs "-"%bs) 0 (TMap TgDict [])] (TMap TgDict []))) 1 [PI 0; pmeta; pfts]] in
  exists s1, ostep (OPure 1 PCopy 0 []) (oexec pre oinit) = inl (s1, HRef 15) /\ 1 < nregs /\
             forallb (oregs_in (only 1)) ops = true /\
             wf_C18_obj (pre ++ [OPure 1 PCopy 0 []] ++ ops) = true /\
             view 99 (oexec ops s1) 1 <> view 99 s1 1 /\
             view 99 (oexec ops s1) 0 = view 99 s1 0 /\ view 99 (oexec ops s1) 2 = view 99 s1 2.
Proof.
  cbn zeta. eexists. split; [vm_compute; reflexivity|]. split; [unfold nregs; lia|]. split; [vm_compute; reflexivity|].
  split; [vm_compute; reflexivity|]. split; [|split; vm_compute; reflexivity]. vm_compute. discriminate.
Qed.
