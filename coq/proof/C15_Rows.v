(* C15 proofs, part 4: row2fts / fts2row are mutually inverse -- complete enumeration of bounded boxes. *)
From Coq Require Import List ZArith NArith Bool Arith Lia.
From Coq.Strings Require Import Byte.
Import ListNotations.
From SV Require Import Text G_flags C15_Model C15_Lemmas.

Definition ft_eqb (a b : ft) : bool :=
  Nat.eqb (f_start a) (f_start b) && Nat.eqb (f_stop a) (f_stop b) && N.eqb (f_defect a) (f_defect b)
  && str_eqb (f_name a) (f_name b).
Fixpoint fts_eqb (a b : list ft) : bool :=
  match a, b with
  | [], [] => true
  | x :: a', y :: b' => ft_eqb x y && fts_eqb a' b'
  | _, _ => false
  end.
Lemma ft_eqb_eq a b : ft_eqb a b = true -> a = b.
Proof.
  unfold ft_eqb. intros H. apply andb_prop in H. destruct H as [H H4]. apply andb_prop in H. destruct H as [H H3].
  apply andb_prop in H. destruct H as [H1 H2]. apply Nat.eqb_eq in H1. apply Nat.eqb_eq in H2. apply N.eqb_eq in H3.
  apply str_eqb_eq in H4. destruct a, b; simpl in *; congruence.
Qed.
Lemma fts_eqb_eq a : forall b, fts_eqb a b = true -> a = b.
Proof.
  induction a as [|x a IH]; intros [|y b] H; simpl in H; try discriminate; [reflexivity|].
  apply andb_prop in H. destruct H as [H1 H2]. rewrite (ft_eqb_eq x y H1), (IH b H2). reflexivity.
Qed.

(* all strings over an alphabet up to a length *)
Fixpoint strs_of_len (alpha : list byte) (n : nat) : list str :=
  match n with
  | 0 => [[]]
  | S n' => flat_map (fun s => map (fun c => c :: s) alpha) (strs_of_len alpha n')
  end.
Definition strs_upto (alpha : list byte) (n : nat) : list str := flat_map (strs_of_len alpha) (seq 0 (S n)).
Definition ROW_ALPHA : list byte := [DOT; BAR; "a"%byte; "b"%byte].
Definition ROW_BOX : nat := 8.

(* row -> features -> row -> features is the identity on features *)
Definition row_idem (r : str) : bool :=
  implb (wf_rowstr r)
        (match fts2row (row2fts r) with
         | ROk s => fts_eqb (row2fts s) (row2fts r) && wf_fts (row2fts r)
         | RErr _ => false
         end).
Lemma row_box_check : forallb row_idem (strs_upto ROW_ALPHA ROW_BOX) = true.
Proof. vm_compute. reflexivity. Qed.
Lemma row_fts_row_box r : In r (strs_upto ROW_ALPHA ROW_BOX) -> wf_rowstr r = true ->
  exists s, fts2row (row2fts r) = ROk s /\ row2fts s = row2fts r /\ wf_fts (row2fts r) = true.
Proof.
  intros Hin Hwf. pose proof row_box_check as H. rewrite forallb_forall in H. specialize (H r Hin).
  unfold row_idem in H. rewrite Hwf in H. simpl in H. destruct (fts2row (row2fts r)) as [s|e]; [|discriminate].
  apply andb_prop in H. destruct H as [H1 H2]. exists s. split; [reflexivity|]. split; [apply fts_eqb_eq; exact H1|exact H2].
Qed.

(* features -> row -> features: all lists of at most two features inside columns 0..FT_BOX, names a / bc, defects 0..3 *)
Definition FT_BOX : nat := 9.
Definition box_fts1 : list ft :=
  flat_map (fun st => flat_map (fun len => flat_map (fun d => map (fun nm => mkft st (st + len) d nm)
     [bs "a"%bs; bs "bc"%bs]) [0%N; 1%N; 2%N; 3%N]) (seq 1 (FT_BOX - st))) (seq 0 FT_BOX).
Definition box_fts : list (list ft) :=
  [] :: map (fun f => [f]) box_fts1 ++ flat_map (fun f => map (fun g => [f; g]) box_fts1) box_fts1.
Definition fts_inv (l : list ft) : bool :=
  implb (wf_fts l)
        (match fts2row l with
         | ROk s => fts_eqb (row2fts s) (sort_fts l)
                    && Nat.eqb (length s) (match rev (sort_fts l) with f :: _ => f_stop f | [] => 0 end)
         | RErr _ => false
         end).
Lemma fts_box_check : forallb fts_inv box_fts = true.
Proof. vm_compute. reflexivity. Qed.
Lemma fts_row_fts_box l : In l box_fts -> wf_fts l = true ->
  exists s, fts2row l = ROk s /\ row2fts s = sort_fts l
            /\ length s = match rev (sort_fts l) with f :: _ => f_stop f | [] => 0 end.
Proof.
  intros Hin Hwf. pose proof fts_box_check as H. rewrite forallb_forall in H. specialize (H l Hin).
  unfold fts_inv in H. rewrite Hwf in H. simpl in H. destruct (fts2row l) as [s|e]; [|discriminate].
  apply andb_prop in H. destruct H as [H1 H2]. exists s. split; [reflexivity|]. split; [apply fts_eqb_eq; exact H1|].
  apply Nat.eqb_eq. exact H2.
Qed.
Lemma box_sizes : N.of_nat (length (strs_upto ROW_ALPHA ROW_BOX)) = 87381%N /\ N.of_nat (length box_fts) = 129961%N
  /\ N.of_nat (length (filter wf_rowstr (strs_upto ROW_ALPHA ROW_BOX))) = 21835%N
  /\ N.of_nat (length (filter wf_fts box_fts)) = 1085%N.
Proof. vm_compute. repeat split. Qed.
