From Coq Require Import List ZArith NArith Bool Lia.
From Coq.Strings Require Import Byte.
Import ListNotations.
From SV Require Import Text G_submat_index C20_Model.

(* ================= finite facts over the regenerated files ================= *)
Lemma all_files_ok : forallb (fun f => file_ok (snd f)) submat_files = true.
Proof. vm_compute. reflexivity. Qed.
Lemma all_files_sym : forallb (fun f => file_sym (snd f)) submat_files = true.
Proof. vm_compute. reflexivity. Qed.
Lemma all_files_wf : forallb (fun f => wf_content (snd f)) submat_files = true.
Proof. vm_compute. reflexivity. Qed.
(* names are pairwise different (lookup by name returns that file) and are their own upper-case form *)
Lemma names_functional :
  forallb (fun f => match dict_get (fst f) submat_files with
                    | Some r => str_eqb r (snd f)
                    | None => false
                    end && is_upper_name (fst f)) submat_files = true.
Proof. vm_compute. reflexivity. Qed.

