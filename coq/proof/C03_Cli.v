(* C03 proofs, part 5: the command-line converter (sugar convert / convertf) against its decision table. *)
From Coq Require Import List ZArith NArith Bool Lia.
From Coq.Strings Require Import Byte.
Import ListNotations.
From SV Require Import Text G_c03 C03_Model C03_Lemmas C03_Write.

Lemma lower1_idem : forall c, lower1 (lower1 c) = lower1 c.
Proof. destruct c; vm_compute; reflexivity. Qed.
Lemma lower_idem : forall s, lower (lower s) = lower s.
Proof. intros s. unfold lower. rewrite map_map. apply map_ext. exact lower1_idem. Qed.

(* the two write paths the converter uses, read off the proved write table *)
Lemma wr_tostr : forall w x, write_resolve w [] FNone (Some x) ANone = WToStr (lower x).
Proof. reflexivity. Qed.
Lemma wr_file : forall w name fmtout,
  write_resolve w [] (FStr name) fmtout ANone =
  match (match fmtout with Some x => Some (lower x) | None => option_map lower (detect_ext w name) end) with
  | Some fw => WFile name fw
  | None => WErrDetect
  end.
Proof. intros w name [x|]; reflexivity. Qed.

Lemma cli_decision_table : forall w det n fmt out fmtout,
  cli_convert w det n fmt out fmtout = cli_table w det n fmt out fmtout.
Proof.
  intros w det n fmt out fmtout. unfold cli_convert, cli_table, cli_read, cli_emit.
  destruct fmt as [f|].
  - cbn [option_map]. destruct (readable w (lower f)) as [e|]; [reflexivity|].
    destruct out as [name|].
    + rewrite wr_file. destruct fmtout as [x|]; [reflexivity|].
      destruct (detect_ext w name); reflexivity.
    + destruct (truthy fmtout) as [x|]; [rewrite wr_tostr; reflexivity|].
      destruct (truthy (Some f)) as [x|]; [rewrite wr_tostr; reflexivity|].
      destruct n; [reflexivity|]. rewrite wr_tostr, lower_idem. reflexivity.
  - destruct det as [d|]; cbn [option_map]; [|reflexivity].
    destruct (readable w (lower d)) as [e|]; [reflexivity|].
    destruct out as [name|].
    + rewrite wr_file. destruct fmtout as [x|]; [reflexivity|].
      destruct (detect_ext w name); reflexivity.
    + destruct (truthy fmtout) as [x|]; [rewrite wr_tostr; reflexivity|]. cbn [truthy].
      destruct n; [reflexivity|]. rewrite wr_tostr, lower_idem. reflexivity.
Qed.

(* what a successful run wrote, and in which formats *)
Definition cli_fw (r : cli_res) : option str := match r with CStdout _ fw | CFile _ _ fw => Some fw | CErr _ => None end.
Definition cli_fr (r : cli_res) : option str := match r with CStdout fr _ | CFile _ fr _ => Some fr | CErr _ => None end.
Definition cli_ok (r : cli_res) : bool := match r with CErr _ => false | _ => true end.

(* -fo wins over the extension of -o, over -f and over the input format *)
Lemma cli_fmtout_wins : forall w det n fmt out x r,
  x <> [] -> cli_convert w det n fmt out (Some x) = r -> cli_ok r = true -> cli_fw r = Some (lower x).
Proof.
  intros w det n fmt out x r Hx H Hok. subst r. rewrite cli_decision_table in *. unfold cli_table in *.
  assert (Ht : truthy (Some x) = Some x) by (destruct x; [congruence|reflexivity]). rewrite Ht in *.
  destruct (match fmt with Some x0 => Some (lower x0) | None => option_map lower det end) as [r0|]; [|discriminate Hok].
  destruct (readable w r0); [discriminate Hok|].
  destruct out as [name|]; destruct (writable w (lower x)); try discriminate Hok; reflexivity.
Qed.

(* without -fo the output is written in the format the extension of -o declares (for the read format whatever it is) *)
Lemma cli_by_extension : forall w det n fmt p e stem r,
  In p (chain w) -> In e (p_exts p) ->
  forallb (fun c => negb (byte_eqb c slash)) stem = true -> forallb (fun c => byte_eqb c dot) stem = false ->
  cli_convert w det n fmt (Some (stem ++ dot :: e)) None = r -> cli_ok r = true ->
  cli_fw r = Some (p_name p) /\ exists fr, r = CFile (stem ++ dot :: e) fr (p_name p).
Proof.
  intros w det n fmt p e stem r Hp He Hs Hd H Hok. subst r. rewrite cli_decision_table in *. unfold cli_table in *.
  rewrite (detect_ext_spec w p e stem Hp He Hs Hd) in *. cbn [option_map] in *. rewrite (chain_names_lower w p Hp) in *.
  destruct (match fmt with Some x0 => Some (lower x0) | None => option_map lower det end) as [r0|]; [|discriminate Hok].
  destruct (readable w r0); [discriminate Hok|].
  destruct (writable w (p_name p)); [discriminate Hok|]. split; [reflexivity|]. exists r0. reflexivity.
Qed.

(* neither -o nor -fo nor -f: the output format is the input format, and it goes to stdout *)
Lemma cli_default_is_input_format : forall w d n r,
  cli_convert w (Some d) (S n) None None None = r -> cli_ok r = true -> r = CStdout (lower d) (lower d).
Proof.
  intros w d n r H Hok. subst r. rewrite cli_decision_table in *. unfold cli_table in *. cbn [option_map truthy] in *.
  destruct (readable w (lower d)); [discriminate Hok|]. destruct (writable w (lower d)); [discriminate Hok|]. reflexivity.
Qed.
(* with -f and without -o / -fo: read and written in the -f format *)
Lemma cli_fmt_is_output_format : forall w det n f r,
  f <> [] -> cli_convert w det n (Some f) None None = r -> cli_ok r = true -> r = CStdout (lower f) (lower f).
Proof.
  intros w det n f r Hf H Hok. subst r. rewrite cli_decision_table in *. unfold cli_table in *.
  assert (Ht : truthy (Some f) = Some f) by (destruct f; [congruence|reflexivity]). rewrite Ht in *. cbn [truthy] in *.
  destruct (readable w (lower f)); [discriminate Hok|]. destruct (writable w (lower f)); [discriminate Hok|]. reflexivity.
Qed.

(* the input format: -f (lower-cased) if given, else the detected one; nothing is written before the input format is settled *)
Lemma cli_read_format : forall w det n fmt out fmtout r,
  cli_convert w det n fmt out fmtout = r -> cli_ok r = true ->
  cli_fr r = match fmt with Some x => Some (lower x) | None => option_map lower det end.
Proof.
  intros w det n fmt out fmtout r H Hok. subst r. rewrite cli_decision_table in *. unfold cli_table in *.
  destruct (match fmt with Some x0 => Some (lower x0) | None => option_map lower det end) as [r0|]; [|discriminate Hok].
  destruct (readable w r0); [discriminate Hok|].
  match goal with |- context [match ?W with Some _ => _ | None => _ end] => destruct W as [fw|] end; [|discriminate Hok].
  destruct (writable w fw); [discriminate Hok|]. destruct out; reflexivity.
Qed.

(* the error rows: exactly when which error *)
Lemma cli_errors : forall w det n fmt out fmtout,
  (* nothing detected and no -f *)
  (fmt = None -> det = None -> cli_convert w det n fmt out fmtout = CErr EOS) /\
  (* an output name whose extension declares no format, without -fo, after a successful read *)
  (forall name fr, cli_read w det fmt = inr fr -> out = Some name -> fmtout = None -> detect_ext w name = None ->
     cli_convert w det n fmt out fmtout = CErr EOS) /\
  (* -f names no plugin *)
  (forall x, fmt = Some x -> lookup_support (lower x) (support_tab w) = None -> cli_convert w det n fmt out fmtout = CErr EKey) /\
  (* the run succeeds only if the read format can be read and the write format can be written *)
  (cli_ok (cli_convert w det n fmt out fmtout) = true ->
     exists fr fw, cli_fr (cli_convert w det n fmt out fmtout) = Some fr /\ cli_fw (cli_convert w det n fmt out fmtout) = Some fw /\
                   readable w fr = None /\ writable w fw = None).
Proof.
  intros w det n fmt out fmtout. repeat split.
  - intros -> ->. reflexivity.
  - intros name fr Hr -> -> He. unfold cli_convert. rewrite Hr, wr_file, He. reflexivity.
  - intros x -> Hl. unfold cli_convert, cli_read, readable. rewrite Hl. reflexivity.
  - rewrite cli_decision_table. unfold cli_table.
    destruct (match fmt with Some x0 => Some (lower x0) | None => option_map lower det end) as [r0|]; [|discriminate].
    destruct (readable w r0) eqn:Er; [discriminate|].
    match goal with |- context [match ?W with Some _ => _ | None => _ end] => destruct W as [fw|] end; [|discriminate].
    destruct (writable w fw) eqn:Ew; [discriminate|]. intros _. exists r0, fw. destruct out; repeat split; assumption.
Qed.

(* format names are case-insensitive on the command line *)
Lemma cli_case_insensitive : forall w det n f f' out g g',
  lower f = lower f' -> lower g = lower g' ->
  cli_convert w det n (Some f) out (Some g) = cli_convert w det n (Some f') out (Some g') /\
  cli_convert w det n (Some f) out None = cli_convert w det n (Some f') out None /\
  cli_convert w det n None out (Some g) = cli_convert w det n None out (Some g').
Proof.
  intros w det n f f' out g g' Hf Hg. rewrite !cli_decision_table. unfold cli_table.
  assert (Tf : option_map lower (truthy (Some f)) = option_map lower (truthy (Some f'))).
  { destruct f, f'; cbn [truthy option_map]; try reflexivity; try (rewrite Hf; reflexivity); discriminate Hf. }
  assert (Tg : option_map lower (truthy (Some g)) = option_map lower (truthy (Some g'))).
  { destruct g, g'; cbn [truthy option_map]; try reflexivity; try (rewrite Hg; reflexivity); discriminate Hg. }
  rewrite <- Hf, <- Hg.
  assert (W : forall a b : option str, option_map lower a = option_map lower b ->
          forall (k : option str) , match a with Some x => Some (lower x) | None => k end = match b with Some x => Some (lower x) | None => k end).
  { intros [a|] [b|] E k; cbn in E; congruence. }
  repeat split.
  - destruct out; [reflexivity|].
    rewrite (W _ _ Tg). destruct (truthy (Some g')); [reflexivity|]. rewrite (W _ _ Tf). reflexivity.
  - destruct out; [reflexivity|]. cbn [truthy]. rewrite (W _ _ Tf). reflexivity.
  - destruct out; [reflexivity|]. rewrite (W _ _ Tg). reflexivity.
Qed.

Lemma witness_cli :
  cli_convert Seqs (Some (bs "fasta"%bs)) 2 None None None = CStdout (bs "fasta"%bs) (bs "fasta"%bs) /\
  cli_convert Seqs (Some (bs "fasta"%bs)) 2 None (Some (bs "d/out.v2.stk"%bs)) None
    = CFile (bs "d/out.v2.stk"%bs) (bs "fasta"%bs) (bs "stockholm"%bs) /\
  cli_convert Seqs (Some (bs "fasta"%bs)) 2 (Some (bs "FASTA"%bs)) (Some (bs "out.stk"%bs)) (Some (bs "SJson"%bs))
    = CFile (bs "out.stk"%bs) (bs "fasta"%bs) (bs "sjson"%bs) /\
  cli_convert Seqs (Some (bs "genbank"%bs)) 1 None None None = CErr ERuntime /\
  cli_convert Seqs (Some (bs "genbank"%bs)) 1 None None (Some (bs "fasta"%bs)) = CStdout (bs "genbank"%bs) (bs "fasta"%bs) /\
  cli_convert Fts (Some (bs "blast"%bs)) 3 None (Some (bs "hits.txt"%bs)) None = CErr EOS /\
  cli_convert Fts None 0 None None None = CErr EOS /\
  cli_convert Fts (Some (bs "gff"%bs)) 0 None None None = CErr EIndex /\
  cli_convert Fts (Some (bs "gff"%bs)) 1 (Some (bs "gf"%bs)) None None = CErr EKey /\
  cli_convert Fts (Some (bs "gff"%bs)) 1 None None (Some []) = CStdout (bs "gff"%bs) (bs "gff"%bs) /\
  cli_convert Fts (Some (bs "gff"%bs)) 1 None (Some (bs "o.gff"%bs)) (Some []) = CErr EKey.
Proof. vm_compute. repeat split; reflexivity. Qed.
