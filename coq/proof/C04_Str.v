(* C04, round 6: the .str methods with pure list semantics (model/C04_Model.v, section "str methods on ASCII code
   points") proved equal to list functions / characterised by their defining properties. *)
From Coq Require Import List ZArith NArith Bool Lia ZifyBool.
From Coq.Strings Require Import Byte.
Import ListNotations.
From SV Require Import Text C04_PySlice C04_Model C04_Lemmas.
Local Open Scope Z_scope.

(* ---------------- case mapping ---------------- *)
Lemma swap_invol c : ascii_swap (ascii_swap c) = c.
Proof. destruct c; vm_compute; reflexivity. Qed.
Lemma lower_idem c : ascii_lower (ascii_lower c) = ascii_lower c.
Proof. destruct c; vm_compute; reflexivity. Qed.
Lemma upper_lower c : ascii_upper (ascii_lower c) = ascii_upper c.
Proof. destruct c; vm_compute; reflexivity. Qed.
Lemma lower_upper c : ascii_lower (ascii_upper c) = ascii_lower c.
Proof. destruct c; vm_compute; reflexivity. Qed.
Lemma lower_swap c : ascii_lower (ascii_swap c) = ascii_lower c.
Proof. destruct c; vm_compute; reflexivity. Qed.
Lemma lower_id c : is_upper c = false -> ascii_lower c = c.
Proof. unfold ascii_lower. intros ->. reflexivity. Qed.
Lemma not_both c : is_upper c && is_lower c = false.
Proof. destruct c; vm_compute; reflexivity. Qed.
Lemma swap_cases c : ascii_swap c = if is_upper c then ascii_lower c else if is_lower c then ascii_upper c else c.
Proof. destruct c; vm_compute; reflexivity. Qed.
Lemma lower_is_lower c : is_upper (ascii_lower c) = false.
Proof. destruct c; vm_compute; reflexivity. Qed.

Lemma map_ext_id {A} (f : A -> A) l : (forall x, In x l -> f x = x) -> map f l = l.
Proof. induction l as [|x l IH]; cbn; intros H; [reflexivity|]. rewrite H by (left; reflexivity). rewrite IH; auto. Qed.

Lemma py_swapcase_invol s : py_swapcase (py_swapcase s) = s.
Proof. unfold py_swapcase. rewrite map_map. apply map_ext_id. intros; apply swap_invol. Qed.
Lemma py_lower_idem s : py_lower (py_lower s) = py_lower s.
Proof. unfold py_lower. rewrite map_map. apply map_ext. apply lower_idem. Qed.
Lemma py_upper_lower s : py_upper (py_lower s) = py_upper s.
Proof. unfold py_upper, py_lower. rewrite map_map. apply map_ext. apply upper_lower. Qed.
Lemma py_lower_upper s : py_lower (py_upper s) = py_lower s.
Proof. unfold py_upper, py_lower. rewrite map_map. apply map_ext. apply lower_upper. Qed.
Lemma py_lower_swapcase s : py_lower (py_swapcase s) = py_lower s.
Proof. unfold py_swapcase, py_lower. rewrite map_map. apply map_ext. apply lower_swap. Qed.
Lemma py_lower_length s : length (py_lower s) = length s.
Proof. apply map_length. Qed.
Lemma py_swapcase_length s : length (py_swapcase s) = length s.
Proof. apply map_length. Qed.
Lemma py_islower_fix s : py_islower s = true -> py_lower s = s.
Proof.
  unfold py_islower. intros H. apply andb_true_iff in H. destruct H as [H _].
  apply map_ext_id. intros c Hc. apply lower_id.
  rewrite forallb_forall in H. specialize (H c Hc). destruct (is_upper c); [discriminate|reflexivity].
Qed.
Lemma py_isupper_fix s : py_isupper s = true -> py_upper s = s.
Proof.
  unfold py_isupper. intros H. apply andb_true_iff in H. destruct H as [H _].
  apply py_upper_id. exact H.
Qed.
Lemma py_isupper_islower s : py_isupper s && py_islower s = false.
Proof.
  unfold py_isupper, py_islower.
  destruct (forallb (fun c => negb (is_lower c)) s) eqn:E1; [|reflexivity].
  destruct (existsb is_upper s) eqn:E2; [|reflexivity]. cbn.
  destruct (forallb (fun c => negb (is_upper c)) s) eqn:E3; [|reflexivity].
  apply existsb_exists in E2. destruct E2 as (c & Hc & Hu).
  rewrite forallb_forall in E3. specialize (E3 c Hc). rewrite Hu in E3. discriminate.
Qed.
Lemma py_lower_no_upper s : forallb (fun c => negb (is_upper c)) (py_lower s) = true.
Proof. unfold py_lower. induction s as [|c s IH]; [reflexivity|]. cbn. rewrite lower_is_lower, IH. reflexivity. Qed.

Lemma str_case_spec s :
  length (py_lower s) = length s /\ length (py_swapcase s) = length s /\
  py_swapcase (py_swapcase s) = s /\ py_lower (py_lower s) = py_lower s /\ py_upper (py_lower s) = py_upper s /\
  py_lower (py_upper s) = py_lower s /\ py_lower (py_swapcase s) = py_lower s /\
  (py_islower s = true -> py_lower s = s) /\ (py_isupper s = true -> py_upper s = s) /\
  py_isupper s && py_islower s = false /\
  (forall i, nth_error (py_lower s) i = option_map ascii_lower (nth_error s i)) /\
  (forall i, nth_error (py_swapcase s) i = option_map ascii_swap (nth_error s i)) /\
  (forall c, ascii_swap c = if is_upper c then ascii_lower c else if is_lower c then ascii_upper c else c).
Proof.
  repeat split.
  - apply py_lower_length. - apply py_swapcase_length. - apply py_swapcase_invol. - apply py_lower_idem.
  - apply py_upper_lower. - apply py_lower_upper. - apply py_lower_swapcase. - apply py_islower_fix.
  - apply py_isupper_fix. - apply py_isupper_islower.
  - intros i. unfold py_lower. apply nth_error_map.
  - intros i. unfold py_swapcase. apply nth_error_map.
  - apply swap_cases.
Qed.

(* ---------------- prefixes, windows ---------------- *)
Lemma prefixb_iff p : forall w, prefixb p w = true <-> exists t, w = p ++ t.
Proof.
  induction p as [|a p IH]; intros w.
  - cbn. split; [intros _; exists w; reflexivity|reflexivity].
  - destruct w as [|b w]; cbn.
    + split; [discriminate|intros (t & H); discriminate].
    + rewrite andb_true_iff, byte_eqb_eq, IH. split.
      * intros (-> & t & ->). exists t. reflexivity.
      * intros (t & H). inversion H; subst. split; [reflexivity|exists t; reflexivity].
Qed.
Lemma prefixb_nil_l w : prefixb [] w = true.
Proof. destruct w; reflexivity. Qed.
Lemma prefixb_length p w : prefixb p w = true -> (length p <= length w)%nat.
Proof. intros H. apply prefixb_iff in H. destruct H as (t & ->). rewrite app_length. lia. Qed.
Lemma suffix_iff p w : prefixb (rev p) (rev w) = true <-> exists t, w = t ++ p.
Proof.
  rewrite prefixb_iff. split.
  - intros (t & H). exists (rev t). apply (f_equal (@rev byte)) in H. rewrite rev_involutive, rev_app_distr, rev_involutive in H. exact H.
  - intros (t & ->). exists (rev t). apply rev_app_distr.
Qed.

Lemma window_full s : window s None None = Some (0, s).
Proof.
  unfold window. cbn [adj_start adj_end]. rewrite Z.sub_0_r.
  destruct (Z.of_nat (length s) <? 0) eqn:E; [lia|].
  rewrite Nat2Z.id. cbn [Z.to_nat skipn]. rewrite firstn_all. reflexivity.
Qed.
(* the part of the string the search methods look at is the Python slice s[a:b] *)
Lemma window_is_slice s a b st w : window s a b = Some (st, w) ->
  getslice s (mkslice a b None) = Ok w /\ 0 <= st /\ st + Z.of_nat (length w) <= Z.of_nat (length s) /\
  st = adj_start (Z.of_nat (length s)) a.
Proof.
  unfold window. set (n := Z.of_nat (length s)).
  destruct (adj_end n b - adj_start n a <? 0) eqn:E; [discriminate|].
  intros H. inversion H; subst st w. clear H.
  assert (Hn : 0 <= n) by (unfold n; lia).
  assert (Hs : 0 <= adj_start n a).
  { unfold adj_start. destruct a as [a|]; [|lia]. destruct (a <? 0) eqn:Ea; lia. }
  assert (He : adj_end n b <= n).
  { unfold adj_end. destruct b as [b|]; [|lia]. destruct (b >? n) eqn:E1; [lia|]. destruct (b <? 0) eqn:E2; lia. }
  assert (Hlo : lo_of n a = adj_start n a).
  { unfold lo_of, adj_start, norm in *. destruct a as [a|]; [|reflexivity]. destruct (a <? 0) eqn:Ea; lia. }
  assert (Hhi : hi_of n b = adj_end n b).
  { unfold hi_of, adj_end, norm in *. destruct b as [b|]; [|reflexivity].
    destruct (b >? n) eqn:E1; destruct (b <? 0) eqn:E2; lia. }
  split.
  - rewrite getslice_contig by reflexivity. cbn [sl_start sl_stop]. fold n. rewrite Hlo, Hhi. reflexivity.
  - split; [exact Hs|]. split; [|reflexivity].
    rewrite firstn_length, skipn_length. fold n. lia.
Qed.
Lemma window_none s a b : window s a b = None ->
  adj_end (Z.of_nat (length s)) b < adj_start (Z.of_nat (length s)) a.
Proof. unfold window. destruct (_ <? 0) eqn:E; [lia|discriminate]. Qed.

(* ---------------- find / rfind / index ---------------- *)
Lemma find_in_some sub : forall w i, find_in sub w = Some i ->
  prefixb sub (skipn i w) = true /\ (i <= length w)%nat /\ forall j, (j < i)%nat -> prefixb sub (skipn j w) = false.
Proof.
  induction w as [|c w IH]; intros i H; cbn [find_in] in H.
  - destruct (prefixb sub []) eqn:E; [|discriminate]. inversion H; subst. cbn. split; [exact E|]. split; [lia|]. intros j Hj; lia.
  - destruct (prefixb sub (c :: w)) eqn:E.
    + inversion H; subst. cbn. split; [exact E|]. split; [lia|]. intros j Hj; lia.
    + destruct (find_in sub w) as [i'|] eqn:E2; [|discriminate]. inversion H; subst. cbn [skipn length].
      destruct (IH i' eq_refl) as (H1 & H2 & H3). split; [exact H1|]. split; [lia|].
      intros [|j] Hj; [exact E|]. cbn. apply H3. lia.
Qed.
Lemma find_in_none sub : forall w, find_in sub w = None -> forall j, (j <= length w)%nat -> prefixb sub (skipn j w) = false.
Proof.
  induction w as [|c w IH]; intros H j Hj; cbn [find_in] in H.
  - destruct (prefixb sub []) eqn:E; [discriminate|]. destruct j; exact E.
  - destruct (prefixb sub (c :: w)) eqn:E; [discriminate|].
    destruct (find_in sub w) eqn:E2; [discriminate|]. destruct j as [|j]; [exact E|]. cbn in *. apply IH; [reflexivity|lia].
Qed.
Lemma rfind_in_some sub : forall w i, rfind_in sub w = Some i ->
  prefixb sub (skipn i w) = true /\ (i <= length w)%nat /\
  forall j, (i < j <= length w)%nat -> prefixb sub (skipn j w) = false.
Proof.
  induction w as [|c w IH]; intros i H; cbn [rfind_in] in H.
  - destruct (prefixb sub []) eqn:E; [|discriminate]. inversion H; subst. cbn. split; [exact E|]. split; [lia|]. intros j Hj; lia.
  - destruct (rfind_in sub w) as [i'|] eqn:E2.
    + inversion H; subst. cbn [skipn length]. destruct (IH i' eq_refl) as (H1 & H2 & H3).
      split; [exact H1|]. split; [lia|]. intros [|j] Hj; [lia|]. cbn. apply H3. lia.
    + destruct (prefixb sub (c :: w)) eqn:E; [|discriminate]. inversion H; subst. cbn [skipn length].
      split; [exact E|]. split; [lia|]. intros [|j] Hj; [lia|]. cbn.
      assert (Hn : forall w, rfind_in sub w = None -> forall j, (j <= length w)%nat -> prefixb sub (skipn j w) = false).
      { clear. induction w as [|c w IH]; intros H j Hj; cbn [rfind_in] in H.
        - destruct (prefixb sub []) eqn:E; [discriminate|]. destruct j; exact E.
        - destruct (rfind_in sub w) eqn:E2; [discriminate|]. destruct (prefixb sub (c :: w)) eqn:E; [discriminate|].
          destruct j as [|j]; [exact E|]. cbn in *. apply IH; [reflexivity|lia]. }
      apply Hn; [exact E2|lia].
Qed.
Lemma rfind_in_none sub : forall w, rfind_in sub w = None -> forall j, (j <= length w)%nat -> prefixb sub (skipn j w) = false.
Proof.
  induction w as [|c w IH]; intros H j Hj; cbn [rfind_in] in H.
  - destruct (prefixb sub []) eqn:E; [discriminate|]. destruct j; exact E.
  - destruct (rfind_in sub w) eqn:E2; [discriminate|]. destruct (prefixb sub (c :: w)) eqn:E; [discriminate|].
    destruct j as [|j]; [exact E|]. cbn in *. apply IH; [reflexivity|lia].
Qed.
Lemma rfind_none_iff_find_none sub w : rfind_in sub w = None <-> find_in sub w = None.
Proof.
  split; intros H.
  - destruct (find_in sub w) as [i|] eqn:E; [|reflexivity]. apply find_in_some in E. destruct E as (E1 & E2 & _).
    rewrite (rfind_in_none sub w H i E2) in E1. discriminate.
  - destruct (rfind_in sub w) as [i|] eqn:E; [|reflexivity]. apply rfind_in_some in E. destruct E as (E1 & E2 & _).
    rewrite (find_in_none sub w H i E2) in E1. discriminate.
Qed.

(* find: the least offset in the window s[a:b] at which sub starts, shifted by the window start; -1 if there is none *)
Lemma py_find_spec s sub a b :
  match window s a b with
  | None => py_find s sub a b = -1 /\ py_rfind s sub a b = -1
  | Some (st, w) =>
      (py_find s sub a b = -1 /\ py_rfind s sub a b = -1 /\
       forall j, (j <= length w)%nat -> prefixb sub (skipn j w) = false) \/
      (exists i k, py_find s sub a b = st + Z.of_nat i /\ py_rfind s sub a b = st + Z.of_nat k /\ (i <= k <= length w)%nat /\
         prefixb sub (skipn i w) = true /\ prefixb sub (skipn k w) = true /\
         (forall j, (j < i)%nat -> prefixb sub (skipn j w) = false) /\
         (forall j, (k < j <= length w)%nat -> prefixb sub (skipn j w) = false))
  end.
Proof.
  unfold py_find, py_rfind. destruct (window s a b) as [[st w]|]; [|split; reflexivity].
  destruct (find_in sub w) as [i|] eqn:E1.
  - right. destruct (rfind_in sub w) as [k|] eqn:E2.
    + exists i, k. pose proof (find_in_some sub w i E1) as (F1 & F2 & F3).
      pose proof (rfind_in_some sub w k E2) as (R1 & R2 & R3).
      assert (i <= k)%nat.
      { destruct (Nat.le_gt_cases i k) as [Hle|Hgt]; [exact Hle|]. rewrite (R3 i) in F1 by lia. discriminate. }
      repeat split; auto; lia.
    + apply rfind_none_iff_find_none in E2. rewrite E2 in E1. discriminate.
  - left. rewrite (proj2 (rfind_none_iff_find_none sub w) E1). repeat split. apply find_in_none. exact E1.
Qed.
Lemma py_index_spec s sub a b :
  (py_find s sub a b = -1 -> py_index s sub a b = Err ValueError) /\
  (0 <= py_find s sub a b -> py_index s sub a b = Ok (py_find s sub a b)) /\
  (py_rfind s sub a b = -1 -> py_rindex s sub a b = Err ValueError) /\
  (0 <= py_rfind s sub a b -> py_rindex s sub a b = Ok (py_rfind s sub a b)) /\
  (-1 <= py_find s sub a b) /\ (-1 <= py_rfind s sub a b).
Proof.
  unfold py_index, py_rindex.
  assert (H1 : -1 <= py_find s sub a b).
  { unfold py_find. destruct (window s a b) as [[st w]|] eqn:E; [|lia].
    destruct (window_is_slice _ _ _ _ _ E) as (_ & H0 & _). destruct (find_in sub w); lia. }
  assert (H2 : -1 <= py_rfind s sub a b).
  { unfold py_rfind. destruct (window s a b) as [[st w]|] eqn:E; [|lia].
    destruct (window_is_slice _ _ _ _ _ E) as (_ & H0 & _). destruct (rfind_in sub w); lia. }
  repeat split; auto.
  - intros ->. reflexivity.
  - intros H. destruct (_ <? 0) eqn:E; [lia|reflexivity].
  - intros ->. reflexivity.
  - intros H. destruct (py_rfind s sub a b <? 0) eqn:E; [lia|reflexivity].
Qed.

(* ---------------- count ---------------- *)
Lemma count_in_char c : forall w, count_in [c] w O = C04_Model.count c w.
Proof.
  unfold C04_Model.count. induction w as [|x w IH]; [reflexivity|].
  cbn [count_in prefixb length Nat.sub filter]. rewrite ?prefixb_nil_l, ?andb_true_r.
  destruct (byte_eqb c x); cbn [length]; rewrite IH; reflexivity.
Qed.
Lemma py_count_char d c : py_count d [c] None None = Z.of_nat (C04_Model.count c d).
Proof. unfold py_count. rewrite window_full, count_in_char. reflexivity. Qed.
Lemma count_in_zero_iff sub : sub <> [] -> forall w, count_in sub w O = O <-> find_in sub w = None.
Proof.
  intros Hs. induction w as [|c w IH]; cbn [count_in find_in].
  - destruct sub; [contradiction|]. cbn. split; reflexivity.
  - destruct (prefixb sub (c :: w)); [split; discriminate|]. rewrite IH. destruct (find_in sub w); cbn; split; congruence.
Qed.

(* ---------------- replace ---------------- *)
Lemma replace_lim0 old new s : py_replace s old new (Some 0) = s.
Proof.
  unfold py_replace, lim_of. cbn. destruct old.
  - destruct s; reflexivity.
  - destruct s; reflexivity.
Qed.
Lemma replace_in_char a new : forall w,
  replace_in [a] new w O None = flat_map (fun c => if byte_eqb a c then new else [c]) w.
Proof.
  induction w as [|x w IH]; [reflexivity|].
  cbn [replace_in prefixb length Nat.sub flat_map option_map]. rewrite ?prefixb_nil_l, ?andb_true_r.
  destruct (byte_eqb a x); rewrite IH; reflexivity.
Qed.
(* one character for one character: a map *)
Lemma py_replace_char s a b :
  py_replace s [a] [b] None = map (fun c => if byte_eqb a c then b else c) s.
Proof.
  unfold py_replace, lim_of. rewrite replace_in_char. induction s as [|x s IH]; [reflexivity|].
  cbn. rewrite IH. destruct (byte_eqb a x); reflexivity.
Qed.
Lemma replace_in_absent old new lim : forall w, find_in old w = None -> replace_in old new w O lim = w.
Proof.
  induction w as [|c w IH]; intros H; [reflexivity|]. cbn [find_in] in H. cbn [replace_in].
  destruct (prefixb old (c :: w)); [discriminate|]. destruct (find_in old w) eqn:E; [discriminate|].
  rewrite IH by reflexivity. destruct lim as [[|n]|]; reflexivity.
Qed.
(* len(s.replace(old, new)) = len(s) + s.count(old) * (len(new) - len(old)) *)
Lemma replace_in_length old new : old <> [] -> forall w k,
  (length (replace_in old new w k None) + count_in old w k * length old + Nat.min k (length w) =
   length w + count_in old w k * length new)%nat.
Proof.
  intros Ho. induction w as [|c w IH]; intros k.
  - cbn. lia.
  - cbn [replace_in count_in]. destruct k as [|k].
    + destruct (prefixb old (c :: w)) eqn:E.
      * apply prefixb_length in E. cbn [length] in E.
        assert (length old >= 1)%nat by (destruct old; [contradiction|cbn; lia]).
        specialize (IH (length old - 1)%nat). cbn [option_map]. rewrite app_length. cbn [length].
        rewrite Nat.min_l in IH by lia. nia.
      * specialize (IH O). cbn [length]. rewrite Nat.min_0_l in *. lia.
    + specialize (IH k). cbn [length]. lia.
Qed.
Lemma py_replace_length s old new : old <> [] ->
  Z.of_nat (length (py_replace s old new None)) =
  Z.of_nat (length s) + py_count s old None None * (Z.of_nat (length new) - Z.of_nat (length old)).
Proof.
  intros Ho. unfold py_replace, py_count, lim_of. rewrite window_full. destruct old as [|o old]; [contradiction|].
  pose proof (replace_in_length (o :: old) new Ho s O) as H. rewrite Nat.min_0_l in H. nia.
Qed.
Lemma py_replace_absent s old new cnt : old <> [] -> py_find s old None None = -1 -> py_replace s old new cnt = s.
Proof.
  intros Ho H. unfold py_find in H. rewrite window_full in H. destruct (find_in old s) eqn:E; [lia|].
  unfold py_replace. destruct old; [contradiction|]. apply replace_in_absent. exact E.
Qed.

(* ---------------- strip family ---------------- *)
Lemma dropwhile_spec f : forall s, exists l, s = l ++ dropwhile f s /\ forallb f l = true /\
  match dropwhile f s with [] => True | c :: _ => f c = false end.
Proof.
  induction s as [|c s IH]; cbn.
  - exists []. repeat split.
  - destruct (f c) eqn:E.
    + destruct IH as (l & H1 & H2 & H3). exists (c :: l). cbn. rewrite E, H2. split; [f_equal; exact H1|]. split; [reflexivity|exact H3].
    + exists []. cbn. repeat split. exact E.
Qed.
Lemma forallb_rev {A} (f : A -> bool) l : forallb f (rev l) = forallb f l.
Proof.
  induction l as [|x l IH]; [reflexivity|]. cbn. rewrite forallb_app, IH. cbn. rewrite andb_true_r. apply andb_comm.
Qed.
Lemma strip_spec s cs :
  (exists l, s = l ++ py_lstrip s cs /\ forallb (strip_set cs) l = true /\
     match py_lstrip s cs with [] => True | c :: _ => strip_set cs c = false end) /\
  (exists t, s = py_rstrip s cs ++ t /\ forallb (strip_set cs) t = true /\
     match rev (py_rstrip s cs) with [] => True | c :: _ => strip_set cs c = false end) /\
  (exists l t, s = l ++ py_strip s cs ++ t /\ forallb (strip_set cs) l = true /\ forallb (strip_set cs) t = true /\
     match py_strip s cs with [] => True | c :: _ => strip_set cs c = false end /\
     match rev (py_strip s cs) with [] => True | c :: _ => strip_set cs c = false end).
Proof.
  assert (HR : forall s, exists t, s = py_rstrip s cs ++ t /\ forallb (strip_set cs) t = true /\
     match rev (py_rstrip s cs) with [] => True | c :: _ => strip_set cs c = false end).
  { intros s0. unfold py_rstrip. destruct (dropwhile_spec (strip_set cs) (rev s0)) as (l & H1 & H2 & H3).
    exists (rev l). rewrite rev_involutive. split; [|split; [rewrite forallb_rev; exact H2|exact H3]].
    apply (f_equal (@rev byte)) in H1. rewrite rev_involutive, rev_app_distr in H1. exact H1. }
  split; [apply dropwhile_spec|]. split; [apply HR|].
  destruct (dropwhile_spec (strip_set cs) s) as (l & H1 & H2 & H3). fold (py_lstrip s cs) in *.
  destruct (HR (py_lstrip s cs)) as (t & T1 & T2 & T3). fold (py_strip s cs) in *.
  exists l, t. split; [rewrite <- T1; exact H1|]. split; [exact H2|]. split; [exact T2|]. split; [|exact T3].
  destruct (py_strip s cs) as [|c r] eqn:E; [exact I|].
  rewrite T1 in H3. cbn in H3. exact H3.
Qed.

(* ---------------- ljust / rjust / center ---------------- *)
Lemma just_spec s w f :
  py_ljust s w f = s ++ repeat (fill_of f) (Z.to_nat (w - Z.of_nat (length s))) /\
  py_rjust s w f = repeat (fill_of f) (Z.to_nat (w - Z.of_nat (length s))) ++ s /\
  (exists l r, py_center s w f = repeat (fill_of f) (Z.to_nat l) ++ s ++ repeat (fill_of f) (Z.to_nat r) /\
     0 <= l /\ 0 <= r /\ l + r = Z.max (w - Z.of_nat (length s)) 0 /\ -1 <= l - r <= 1 /\
     (Z.even (w - Z.of_nat (length s)) = true -> l = r)) /\
  Z.of_nat (length (py_ljust s w f)) = Z.max w (Z.of_nat (length s)) /\
  Z.of_nat (length (py_rjust s w f)) = Z.max w (Z.of_nat (length s)) /\
  Z.of_nat (length (py_center s w f)) = Z.max w (Z.of_nat (length s)).
Proof.
  unfold py_ljust, py_rjust, py_center, pad. set (n := Z.of_nat (length s)). set (m := w - n).
  destruct (m <=? 0) eqn:E.
  - assert (Hz : Z.to_nat m = O) by lia. rewrite Hz. cbn [repeat]. rewrite app_nil_r.
    repeat split; try (fold n; lia).
    exists 0, 0. cbn [Z.to_nat repeat]. rewrite app_nil_r. repeat split; lia.
  - cbn [Z.to_nat repeat app]. rewrite app_nil_r.
    set (l := m / 2 + (if Z.odd m && Z.odd w then 1 else 0)).
    assert (Hm : 0 < m) by lia.
    pose proof (Z.div_mod m 2 ltac:(lia)) as Hd. pose proof (Z.mod_pos_bound m 2 ltac:(lia)) as Hb.
    assert (Hodd : Z.odd m = true -> m mod 2 = 1).
    { intros Ho. rewrite Zmod_odd, Ho. reflexivity. }
    assert (Heven : Z.odd m = false -> m mod 2 = 0).
    { intros Ho. rewrite Zmod_odd, Ho. reflexivity. }
    assert (Hl : 0 <= l /\ 0 <= m - l /\ -1 <= l - (m - l) <= 1 /\ (Z.even m = true -> l = m - l)).
    { unfold l. rewrite <- Z.negb_odd. destruct (Z.odd m) eqn:Eo.
      - specialize (Hodd eq_refl). destruct (Z.odd w); cbn; repeat split; try lia; discriminate.
      - specialize (Heven eq_refl). cbn. repeat split; lia. }
    destruct Hl as (L1 & L2 & L3 & L4).
    split; [reflexivity|]. split; [reflexivity|]. split; [|split; [|split]].
    + exists l, (m - l). split; [reflexivity|]. split; [exact L1|]. split; [exact L2|]. split; [lia|]. split; [lia|exact L4].
    + rewrite app_length, repeat_length. fold n. lia.
    + rewrite app_length, repeat_length. fold n. lia.
    + rewrite !app_length, !repeat_length. fold n. lia.
Qed.

(* ---------------- startswith / endswith ---------------- *)
Lemma tailmatch_spec s p a b :
  match window s a b with
  | None => py_startswith s p a b = false /\ py_endswith s p a b = false
  | Some (_, w) => (py_startswith s p a b = true <-> exists t, w = p ++ t) /\
                   (py_endswith s p a b = true <-> exists t, w = t ++ p)
  end.
Proof.
  unfold py_startswith, py_endswith. destruct (window s a b) as [[st w]|]; [|split; reflexivity].
  split; [apply prefixb_iff|apply suffix_iff].
Qed.

(* ---------------- gc through .str.count ---------------- *)
Lemma seq_gc_counts_spec s :
  seq_gc_counts s = (Z.of_nat (fst (gc_counts (data s))), Z.of_nat (snd (gc_counts (data s)))).
Proof.
  unfold seq_gc_counts, str_query, gc_counts. rewrite !py_count_char. cbn [fst snd]. f_equal; lia.
Qed.

(* ---------------- feature type lookup ---------------- *)
Lemma lower_eq_iff a b : lower_eq a b = true <-> py_lower a = py_lower b.
Proof. unfold lower_eq. apply str_eqb_eq. Qed.
Lemma lower_eq_length a b : lower_eq a b = true -> length a = length b.
Proof. intros H. apply lower_eq_iff in H. apply (f_equal (@length byte)) in H. rewrite !py_lower_length in H. exact H. Qed.
Lemma ft_get_spec name : forall fts,
  match ft_get fts name with
  | Some loc => exists pre t post, fts = pre ++ (Some t, loc) :: post /\ lower_eq t name = true /\
                  forall x, In x pre -> match fst x with None => True | Some t' => lower_eq t' name = false end
  | None => forall x, In x fts -> match fst x with None => True | Some t' => lower_eq t' name = false end
  end.
Proof.
  induction fts as [|[[t|] loc] fts IH]; cbn [ft_get].
  - intros x [].
  - destruct (lower_eq t name) eqn:E.
    + exists [], t, fts. repeat split; [exact E|]. intros x [].
    + destruct (ft_get fts name) as [loc'|].
      * destruct IH as (pre & t' & post & H1 & H2 & H3). exists ((Some t, loc) :: pre), t', post. cbn. rewrite H1.
        repeat split; [exact H2|]. intros x [<-|Hx]; [exact E|apply H3; exact Hx].
      * intros x [<-|Hx]; [exact E|apply IH; exact Hx].
  - destruct (ft_get fts name) as [loc'|].
    + destruct IH as (pre & t' & post & H1 & H2 & H3). exists ((None, loc) :: pre), t', post. cbn. rewrite H1.
      repeat split; [exact H2|]. intros x [<-|Hx]; [exact I|apply H3; exact Hx].
    + intros x [<-|Hx]; [exact I|apply IH; exact Hx].
Qed.

(* ---------------- count: the remaining facts ---------------- *)
Lemma py_count_empty s : py_count s [] None None = Z.of_nat (length s) + 1.
Proof. unfold py_count. rewrite window_full. reflexivity. Qed.
Lemma py_count_zero_iff s sub : sub <> [] -> (py_count s sub None None = 0 <-> py_find s sub None None = -1).
Proof.
  intros Hs. unfold py_count, py_find. rewrite window_full. destruct sub as [|c sub]; [contradiction|].
  pose proof (count_in_zero_iff (c :: sub) Hs s) as H. split; intros H0.
  - assert (Hc : count_in (c :: sub) s 0 = O) by lia. apply H in Hc. rewrite Hc. reflexivity.
  - destruct (find_in (c :: sub) s) eqn:E; [lia|]. rewrite (proj2 H eq_refl). reflexivity.
Qed.
Lemma py_count_nonneg s sub a b : 0 <= py_count s sub a b.
Proof. unfold py_count. destruct (window s a b) as [[st w]|]; [|lia]. destruct sub; lia. Qed.
