(* C02: the TSV/CSV bridge at the text level: str.split() of the keys, the table text written for ANY list of column names,
   reading it back cell by cell, and the decision table of frompandas. *)
From Coq Require Import List ZArith Lia Bool.
From Coq.Strings Require Import Byte.
Import ListNotations.
From SV Require Import Text G_gff C02_Model C02_Lemmas C02_Order C02_Read C02_Lenient.
Local Open Scope Z_scope.

(* ------------------------------------------------------------------ str.split() *)
Lemma py_split_cons c r :
  py_split (c :: r) =
  if is_ws c then py_split r
  else match r with
       | [] => [[c]]
       | d :: _ => if is_ws d then [c] :: py_split r
                   else match py_split r with p :: ps => (c :: p) :: ps | [] => [[c]] end
       end.
Proof. reflexivity. Qed.
Definition word (w : str) : bool := forallb nws w && negb (Nat.eqb (length w) 0).
Definition ws_head (s : str) : bool := match s with [] => true | d :: _ => is_ws d end.
Lemma py_split_allws g rest : forallb is_ws g = true -> py_split (g ++ rest) = py_split rest.
Proof.
  induction g as [|c g IH]; intros H; [reflexivity|]. cbn [forallb] in H. apply andb_prop in H. destruct H as [Hc Hg].
  cbn [app]. rewrite py_split_cons, Hc. exact (IH Hg).
Qed.
Lemma py_split_word w : forall rest, word w = true -> ws_head rest = true -> py_split (w ++ rest) = w :: py_split rest.
Proof.
  induction w as [|c w IH]; intros rest W R; [discriminate W|].
  unfold word in W. cbn [forallb] in W. apply andb_prop in W. destruct W as [W _]. apply andb_prop in W. destruct W as [Wc Ww].
  unfold nws in Wc. apply negb_true_iff in Wc. cbn [app]. rewrite py_split_cons, Wc.
  destruct w as [|c2 w].
  - cbn [app]. destruct rest as [|d r]; [reflexivity|]. cbn [ws_head] in R. rewrite R. reflexivity.
  - assert (W2 : word (c2 :: w) = true) by (unfold word; rewrite Ww; reflexivity).
    cbn [forallb] in Ww. apply andb_prop in Ww. destruct Ww as [Wc2 _]. unfold nws in Wc2. apply negb_true_iff in Wc2.
    cbn [app]. cbv beta iota. rewrite Wc2.
    change (c2 :: (w ++ rest)) with ((c2 :: w) ++ rest). rewrite (IH rest W2 R). reflexivity.
Qed.
(* white space, word, white space, word, ..., trailing white space *)
Fixpoint spaced (l : list (str * str)) : str := match l with [] => [] | (g, w) :: r => g ++ w ++ spaced r end.
Definition gap_ok (p : str * str) : bool := forallb is_ws (fst p) && negb (Nat.eqb (length (fst p)) 0).
Lemma spaced_tail r : forall tail, forallb gap_ok r = true -> forallb (fun p => word (snd p)) r = true -> forallb is_ws tail = true ->
  ws_head (spaced r ++ tail) = true /\ py_split (spaced r ++ tail) = map snd r.
Proof.
  induction r as [|[g w] r IH]; intros tail G W T.
  - cbn [spaced app map]. split.
    + destruct tail as [|d t]; [reflexivity|]. cbn [forallb] in T. apply andb_prop in T. exact (proj1 T).
    + rewrite <- (app_nil_r tail). rewrite py_split_allws by exact T. reflexivity.
  - cbn [forallb] in G, W. apply andb_prop in G, W. destruct G as [Gg Gr], W as [Ww Wr].
    unfold gap_ok in Gg. cbn [fst snd] in Gg, Ww. apply andb_prop in Gg. destruct Gg as [G1 G2].
    destruct (IH tail Gr Wr T) as [H1 H2]. cbn [spaced map snd]. rewrite <- !app_assoc. split.
    + destruct g as [|d g]; [discriminate G2|]. cbn [forallb] in G1. apply andb_prop in G1. exact (proj1 G1).
    + rewrite py_split_allws by exact G1. rewrite py_split_word by assumption. rewrite H2. reflexivity.
Qed.
Theorem keys_str g0 w0 r tail : forallb is_ws g0 = true -> word w0 = true -> forallb gap_ok r = true ->
  forallb (fun p => word (snd p)) r = true -> forallb is_ws tail = true ->
  keys_of (KStr (g0 ++ w0 ++ spaced r ++ tail)) = keys_of (KList (w0 :: map snd r)).
Proof.
  intros G0 W0 G W T. unfold keys_of. destruct (spaced_tail r tail G W T) as [H1 H2].
  rewrite py_split_allws by exact G0. rewrite py_split_word by assumption. rewrite H2. reflexivity.
Qed.
Theorem keys_str_empty s : forallb is_ws s = true -> keys_of (KStr s) = [].
Proof. intros H. unfold keys_of. rewrite <- (app_nil_r s). rewrite py_split_allws by exact H. reflexivity. Qed.
(* every name str.split() yields is a word: non-empty, without white space *)
Theorem py_split_words s : forallb word (py_split s) = true.
Proof.
  induction s as [|c r IH]; [reflexivity|]. rewrite py_split_cons. destruct (is_ws c) eqn:Ec; [exact IH|].
  assert (Wc : word [c] = true) by (unfold word, nws; cbn [forallb]; rewrite Ec; reflexivity).
  destruct r as [|d r']; [cbn [forallb]; rewrite Wc; reflexivity|].
  destruct (is_ws d) eqn:Ed.
  - cbn [forallb]. rewrite Wc. exact IH.
  - destruct (py_split (d :: r')) as [|p ps]; [cbn [forallb]; rewrite Wc; reflexivity|].
    cbn [forallb] in IH |- *. apply andb_prop in IH. destruct IH as [Hp Hps]. rewrite Hps, andb_true_r.
    unfold word in Hp |- *. apply andb_prop in Hp. destruct Hp as [Hp _]. cbn [forallb]. unfold nws at 1. rewrite Ec, Hp. reflexivity.
Qed.

(* ------------------------------------------------------------------ the table text *)
Lemma has_forallb (P : byte -> bool) c s : forallb P s = true -> P c = false -> has c s = false.
Proof.
  induction s as [|a s IH]; cbn [forallb has existsb]; intros H Pc; [reflexivity|]. apply andb_prop in H. destruct H as [Ha Hs].
  destruct (byte_eqb c a) eqn:E; [apply byte_eqb_eq in E; subst; congruence|]. exact (IH Hs Pc).
Qed.
Lemma clean_props sep s : clean sep s = true -> has sep s = false /\ has x0a s = false /\ s <> [].
Proof.
  unfold clean. intros H. repeat (apply andb_prop in H; destruct H as [H ?]).
  repeat match goal with E : negb _ = true |- _ => apply negb_true_iff in E end.
  repeat split; try assumption. intros ->. discriminate.
Qed.
Lemma has_join_no c sep l : byte_eqb c sep = false -> forallb (fun p => negb (has c p)) l = true -> has c (join [sep] l) = false.
Proof.
  intros Hs. induction l as [|x l IH]; intros H; [reflexivity|].
  cbn [forallb] in H. apply andb_prop in H. destruct H as [Hx Hl]. apply negb_true_iff in Hx.
  destruct l as [|y l]; [exact Hx|]. rewrite join_cons2, !has_app, Hx, (IH Hl). cbn [has existsb]. rewrite Hs. reflexivity.
Qed.
Lemma join_nonempty sep x l : x <> [] -> join sep (x :: l) <> [].
Proof. intros Hx. destruct l as [|y l]; [exact Hx|]. rewrite join_cons2. destruct x; [congruence|discriminate]. Qed.
Lemma line_props sep cells : byte_eqb sep x0a = false -> cells <> [] -> forallb (clean sep) cells = true ->
  has x0a (join [sep] cells) = false /\ nonblank (join [sep] cells) = true /\ split_on sep (join [sep] cells) = cells.
Proof.
  intros Hs Hne H.
  assert (A : forallb (fun p => negb (has x0a p)) cells = true /\ forallb (fun p => negb (has sep p)) cells = true).
  { clear Hne. induction cells as [|c cells IH]; [split; reflexivity|]. cbn [forallb] in H |- *. apply andb_prop in H. destruct H as [Hc Hr].
    destruct (clean_props _ _ Hc) as [P1 [P2 _]]. destruct (IH Hr) as [I1 I2]. rewrite P1, P2, I1, I2. split; reflexivity. }
  destruct A as [A1 A2]. split; [|split].
  - apply has_join_no; [rewrite byte_eqb_sym; exact Hs|exact A1].
  - destruct cells as [|c cells]; [congruence|]. cbn [forallb] in H. apply andb_prop in H. destruct H as [Hc _].
    destruct (clean_props _ _ Hc) as [_ [_ P3]]. pose proof (join_nonempty [sep] c cells P3) as J. unfold nonblank.
    destruct (join [sep] (c :: cells)) eqn:E; [exfalso; exact (J E)|reflexivity].
  - apply split_join; assumption.
Qed.
Lemma write_xsv_lines sep names x :
  write_xsv sep names x = concat (map (fun t => t ++ nl) (join [sep] names :: map (fun f => join [sep] (nrow names f)) x)).
Proof. unfold write_xsv, xsv_line. cbn [map concat]. f_equal. rewrite map_map. reflexivity. Qed.
Definition cells_clean (sep : byte) (names : list str) (f : feat) : bool := forallb (clean sep) (nrow names f).
Lemma filter_all {A} (p : A -> bool) l : forallb p l = true -> filter p l = l.
Proof. induction l as [|a l IH]; cbn; intros H; [reflexivity|]. apply andb_prop in H. destruct H as [Ha Hl]. rewrite Ha, (IH Hl). reflexivity. Qed.
(* reading the written table gives back the column names and the cells, for every separator that is in none of them *)
Theorem table_text sep names x : byte_eqb sep x0a = false -> names <> [] -> forallb (clean sep) names = true ->
  forallb (cells_clean sep names) x = true ->
  xsv_rows sep (write_xsv sep names x) = Some (names, map (nrow names) x).
Proof.
  intros Hs Hne Hn Hx. destruct (line_props sep names Hs Hne Hn) as [N1 [N2 N3]].
  assert (R : Forall (fun t => has x0a t = false) (map (fun f => join [sep] (nrow names f)) x)
              /\ forallb nonblank (map (fun f => join [sep] (nrow names f)) x) = true
              /\ map (split_on sep) (map (fun f => join [sep] (nrow names f)) x) = map (nrow names) x).
  { clear N1 N2 N3. induction x as [|f x IH]; [repeat split; constructor|].
    cbn [forallb] in Hx. apply andb_prop in Hx. destruct Hx as [Hf Hr]. destruct (IH Hr) as [I1 [I2 I3]].
    assert (Hc : nrow names f <> []) by (unfold nrow; destruct names; [congruence|discriminate]).
    destruct (line_props sep (nrow names f) Hs Hc Hf) as [L1 [L2 L3]]. cbn [map forallb]. rewrite L2, I2, L3, I3.
    repeat split. constructor; assumption. }
  destruct R as [R1 [R2 R3]]. unfold xsv_rows. rewrite write_xsv_lines, file_lines_concat by (constructor; assumption).
  cbn [filter]. rewrite N2, (filter_all _ _ R2), N3, R3. reflexivity.
Qed.

(* ------------------------------------------------------------------ records *)
Lemma ncell_of_nrow n names f : ncell_of n names (nrow names f) = if nhas n names then Some (ncell n f) else None.
Proof.
  unfold nrow, nhas. induction names as [|m names IH]; [reflexivity|]. cbn [map ncell_of existsb].
  destruct (str_eqb n m) eqn:E; [apply str_eqb_eq in E; subst; reflexivity|exact IH].
Qed.
Lemma ncell_start f : ncell n_start f = dec_of_Z (fst (loc_range (flocs f))). Proof. reflexivity. Qed.
Lemma ncell_stop f : ncell n_stop f = dec_of_Z (snd (loc_range (flocs f))). Proof. reflexivity. Qed.
Lemma ncell_len f : ncell n_len f = dec_of_Z (snd (loc_range (flocs f)) - fst (loc_range (flocs f))). Proof. reflexivity. Qed.
Lemma ncell_strand f : ncell n_strand f = [feat_strand_m f]. Proof. reflexivity. Qed.
Lemma xrange_nrow names f :
  xrange names (nrow names f) =
  if sel_ok names then Some (Some (fst (loc_range (flocs f))), Some (snd (loc_range (flocs f)))) else None.
Proof.
  unfold xrange, getZ, sel_ok. rewrite !ncell_of_nrow.
  destruct (nhas n_start names), (nhas n_stop names), (nhas n_len names); cbn [andb orb]; try reflexivity;
    rewrite ?ncell_start, ?ncell_stop, ?ncell_len, ?Z_of_dec_of_Z; cbn [obind2]; try reflexivity; do 3 f_equal; lia.
Qed.
Lemma xtype_nrow ft names f : xtype ft names (nrow names f) = xspec_ty ft names f.
Proof.
  unfold xtype, xspec_ty. rewrite ncell_of_nrow. destruct (nhas k_type names); [reflexivity|].
  destruct ft as [c|]; [|reflexivity]. rewrite ncell_of_nrow. destruct (nhas c names); reflexivity.
Qed.
(* the record of a written row: the feature's range, strand and type when the selection allows it, KeyError otherwise *)
Theorem xrecord_total ft names f : loc_valid f = true -> strand_ok (feat_strand_m f) = true ->
  xrecord_s ft names (nrow names f) =
  if sel_ok names then match xspec ft names f with (ty, a, b, sd) => XRec ty a b sd end else XKey.
Proof.
  intros V S. unfold xrecord_s, xspec. rewrite xrange_nrow. destruct (sel_ok names); [|reflexivity].
  unfold loc_valid in V. apply andb_prop in V. destruct V as [V1 V2].
  assert (L : fst (loc_range (flocs f)) < snd (loc_range (flocs f))).
  { apply range_lt; [|exact V2]. intros E. rewrite E in V1. discriminate V1. }
  apply Z.ltb_lt in L. rewrite L, ncell_of_nrow, xtype_nrow. destruct (nhas n_strand names).
  - rewrite ncell_strand, S. reflexivity.
  - reflexivity.
Qed.
Definition key_error : val := VE (bs "KeyError"%bs).
Lemma xcollect_recs (g : feat -> option str * Z * Z * byte) x :
  xcollect (map (fun f => match g f with (ty, a, b, sd) => XRec ty a b sd end) x) = inr (map g x).
Proof. induction x as [|f x IH]; [reflexivity|]. cbn [map xcollect]. destruct (g f) as [[[ty a] b] sd]. rewrite IH. reflexivity. Qed.
Definition feat_valid (f : feat) : bool := loc_valid f && strand_ok (feat_strand_m f).
(* MAIN (TSV/CSV): for EVERY list of column names (any order, repetitions, foreign columns), every separator and every feature
   list, the written table is read back - one record per feature with its range, its strand if selected, its type if selected or
   given by ftype - exactly when the names hold start and stop, or len and one of them; otherwise reading raises KeyError *)
Theorem xsv_total sep ft names x : byte_eqb sep x0a = false -> names <> [] -> forallb (clean sep) names = true ->
  forallb (cells_clean sep names) x = true -> forallb feat_valid x = true ->
  read_xsv sep ft (write_xsv sep names x) =
  if sel_ok names then inr (map (xspec ft names) x) else match x with [] => inr [] | _ => inl key_error end.
Proof.
  intros Hs Hne Hn Hc Hv. unfold read_xsv. rewrite table_text by assumption. rewrite map_map.
  assert (E : map (fun f => xrecord_s ft names (nrow names f)) x =
              map (fun f => if sel_ok names then match xspec ft names f with (ty, a, b, sd) => XRec ty a b sd end else XKey) x).
  { clear Hc. induction x as [|f x IH]; [reflexivity|]. cbn [forallb] in Hv. apply andb_prop in Hv. destruct Hv as [Hf Hr].
    unfold feat_valid in Hf. apply andb_prop in Hf. destruct Hf as [F1 F2]. cbn [map]. rewrite (IH Hr), xrecord_total by assumption. reflexivity. }
  rewrite E. destruct (sel_ok names).
  - apply xcollect_recs.
  - destruct x; reflexivity.
Qed.

(* ------------------------------------------------------------------ the model's domain flags imply the hypotheses of xsv_total *)
Lemma digit_byte_digit : forall c, is_digit_byte c = true -> is_digit c = true.
Proof. intros c; destruct c; cbn; intros H; try discriminate H; reflexivity. Qed.
Definition numc (c : byte) : bool := is_digit c || byte_eqb c "-"%byte.
Lemma dec_numc z : forallb numc (dec_of_Z z) = true.
Proof.
  assert (D : forall u, forallb numc (uint_bytes u) = true).
  { intros u. apply (forallb_impl is_digit_byte); [|apply uint_bytes_digits]. intros c H. unfold numc. rewrite (digit_byte_digit c H). reflexivity. }
  destruct z as [|p|p]; unfold dec_of_Z; cbn [Z.to_int]; [reflexivity|apply D|]. cbn [forallb]. rewrite D. reflexivity.
Qed.
Lemma dec_nonempty z : dec_of_Z z <> [].
Proof. intros E. pose proof (Z_of_dec_of_Z z) as H. rewrite E in H. discriminate H. Qed.
Lemma sep_ok_numc : forall sep, sep_ok sep = true ->
  numc sep = false /\ numc x0a = false /\ numc x0d = false /\ numc x22 = false /\ has sep (bs "+-.?"%bs) = false /\ byte_eqb sep x0a = false.
Proof. intros sep; destruct sep; vm_compute; intros H; try discriminate H; repeat split; reflexivity. Qed.
Lemma dec_clean sep z : sep_ok sep = true -> clean sep (dec_of_Z z) = true.
Proof.
  intros S. destruct (sep_ok_numc sep S) as [N1 [N2 [N3 [N4 _]]]]. pose proof (dec_numc z) as D. unfold clean.
  rewrite (has_forallb numc sep _ D N1), (has_forallb numc x0a _ D N2), (has_forallb numc x0d _ D N3), (has_forallb numc x22 _ D N4).
  pose proof (dec_nonempty z) as E. destruct (dec_of_Z z); [congruence|reflexivity].
Qed.
Lemma strand_clean : forall sep c, sep_ok sep = true -> strand_ok c = true -> clean sep [c] = true.
Proof. intros sep c; destruct c; vm_compute; intros S H; try discriminate H; destruct sep; vm_compute in S |- *; try discriminate S; reflexivity. Qed.
Lemma zero_clean : forall sep, sep_ok sep = true -> clean sep (bs "0"%bs) = true.
Proof. intros sep; destruct sep; vm_compute; intros S; try discriminate S; reflexivity. Qed.
Lemma loc_name_cell sep n f : sep_ok sep = true -> strand_ok (feat_strand_m f) = true -> is_loc_name n = true -> clean sep (ncell n f) = true.
Proof.
  intros S T H. unfold is_loc_name, is_num_name in H.
  destruct (str_eqb n n_start) eqn:E1; [apply str_eqb_eq in E1; subst; rewrite ncell_start; apply dec_clean; exact S|].
  destruct (str_eqb n n_stop) eqn:E2; [apply str_eqb_eq in E2; subst; rewrite ncell_stop; apply dec_clean; exact S|].
  destruct (str_eqb n n_len) eqn:E3; [apply str_eqb_eq in E3; subst; rewrite ncell_len; apply dec_clean; exact S|].
  destruct (str_eqb n n_strand) eqn:E4; [apply str_eqb_eq in E4; subst; rewrite ncell_strand; apply strand_clean; assumption|].
  destruct (str_eqb n n_defect) eqn:E5; [apply str_eqb_eq in E5; subst; apply zero_clean; exact S|]. discriminate H.
Qed.
Lemma feat_clean_ok sep names f : sep_ok sep = true -> feat_clean sep names f = true -> cells_clean sep names f = true /\ feat_valid f = true.
Proof.
  intros S H. unfold feat_clean in H. apply andb_prop in H. destruct H as [H H4]. apply andb_prop in H. destruct H as [H H3].
  apply andb_prop in H. destruct H as [H1 H2]. split.
  - unfold cells_clean, nrow. rewrite forallb_map. apply (forallb_impl (fun n => is_loc_name n || clean sep (ncell n f))); [|exact H4].
    intros n Hn. apply orb_prop in Hn. destruct Hn as [Hn|Hn]; [apply loc_name_cell; assumption|exact Hn].
  - unfold feat_valid, loc_valid. rewrite H1, H2, H3. reflexivity.
Qed.
Lemma names_ok_clean sep names : names_ok sep names = true -> forallb (clean sep) names = true.
Proof. apply forallb_impl. intros n H. apply andb_prop in H. exact (proj1 H). Qed.
(* the same statement on the boolean domain flags run_C02_xsvw evaluates on every generated case *)
Theorem xsv_total_dom sep ft names x : sep_ok sep = true -> names_ok sep names = true -> names <> [] ->
  forallb (feat_clean sep names) x = true ->
  read_xsv sep ft (write_xsv sep names x) =
  if sel_ok names then inr (map (xspec ft names) x) else match x with [] => inr [] | _ => inl key_error end.
Proof.
  intros S N Hne H. destruct (sep_ok_numc sep S) as [_ [_ [_ [_ [_ S6]]]]].
  assert (A : forallb (cells_clean sep names) x = true /\ forallb feat_valid x = true).
  { induction x as [|f x IH]; [split; reflexivity|]. cbn [forallb] in H |- *. apply andb_prop in H. destruct H as [Hf Hr].
    destruct (feat_clean_ok sep names f S Hf) as [F1 F2]. destruct (IH Hr) as [I1 I2]. rewrite F1, F2, I1, I2. split; reflexivity. }
  destruct A as [A1 A2]. apply xsv_total; try assumption. apply names_ok_clean. exact N.
Qed.

(* ------------------------------------------------------------------ the decision table of frompandas on ANY record *)
Ltac dmatch := repeat match goal with |- context [match ?x with _ => _ end] => destruct x end.
(* KeyError exactly when the column names hold neither start and stop nor len and one of them - whatever the cells are *)
Theorem xrecord_errors ft names row : xrecord_s ft names row = XKey <-> sel_ok names = false.
Proof.
  unfold xrecord_s, xrange, sel_ok.
  destruct (nhas n_start names), (nhas n_stop names), (nhas n_len names); cbn [andb orb]; split; intros H; try reflexivity; try discriminate H;
    revert H; dmatch; intros H; try discriminate H; reflexivity.
Qed.
(* with start and stop present a len column is not looked at *)
Theorem len_ignored names row : nhas n_start names = true -> nhas n_stop names = true ->
  xrange names row = Some (getZ n_start names row, getZ n_stop names row).
Proof. intros A B. unfold xrange. rewrite A, B. reflexivity. Qed.
(* a record that is returned: non-empty range, one of the four strands, and the coordinates are those of the start / stop columns,
   or follow from len: stop = start + len, start = stop - len *)
Lemma xrec_tail (S : option str) T a b ty a' b' sd :
  (if Z.ltb a b then match S with Some [c] => if strand_ok c then XRec T a b c else XVal | _ => XVal end else XVal) = XRec ty a' b' sd ->
  a' = a /\ b' = b /\ a < b /\ S = Some [sd] /\ strand_ok sd = true /\ ty = T.
Proof.
  destruct (Z.ltb a b) eqn:L; [apply Z.ltb_lt in L|discriminate]. destruct S as [[|c [|? ?]]|]; try discriminate.
  destruct (strand_ok c) eqn:K; [|discriminate]. intros H. injection H as <- <- <- <-. repeat split; assumption.
Qed.
Theorem xrecord_table ft names row ty a b sd : xrecord_s ft names row = XRec ty a b sd ->
  a < b /\ strand_ok sd = true /\ ty = xtype ft names row
  /\ (nhas n_start names = true -> getZ n_start names row = Some a)
  /\ (nhas n_stop names = true -> getZ n_stop names row = Some b)
  /\ (nhas n_stop names = false -> exists n, getZ n_len names row = Some n /\ b = a + n)
  /\ (nhas n_start names = false -> exists n, getZ n_len names row = Some n /\ a = b - n)
  /\ (if nhas n_strand names then ncell_of n_strand names row = Some [sd] else sd = "?"%byte).
Proof.
  unfold xrecord_s, xrange.
  destruct (nhas n_start names) eqn:E1, (nhas n_stop names) eqn:E2, (nhas n_len names) eqn:E3; cbn [andb orb]; try discriminate;
    destruct (getZ n_start names row) as [s|], (getZ n_stop names row) as [e|], (getZ n_len names row) as [n|]; cbn [obind2]; try discriminate;
    intros H; apply xrec_tail in H; destruct H as [-> [-> [L [Sd [K ->]]]]];
    (repeat split; try assumption; try reflexivity; try discriminate;
     [..| destruct (nhas n_strand names); [exact Sd|injection Sd as <-; reflexivity]]);
    intros _; eexists; split; try reflexivity; lia.
Qed.

(* ------------------------------------------------------------------ witness *)
Definition ex_names : list str := [n_strand; n_len; bs "name"%bs; k_type; n_start; n_len].
Definition ex_table : list feat :=
  [mkFeat [(k_type, AS (bs "CDS"%bs)); (bs "name"%bs, AS (bs "a b"%bs))] None
          [mkLoc 0 1994 "-"%byte None; mkLoc 1200 1300 "-"%byte None];
   mkFeat [(k_type, AS (bs "gene"%bs)); (bs "name"%bs, AS (bs "x,y"%bs))] None [mkLoc (-5) 7 "+"%byte None]].
Definition ex_table_text : bstr :=
  Bstr (bs "strand|len|name|type|start|len"%bs ++ nl ++ bs "-|1994|a b|CDS|0|1994"%bs ++ nl ++ bs "+|12|x,y|gene|-5|12"%bs ++ nl).
Lemma ex_table_ok :
  sep_ok "|"%byte = true /\ names_ok "|"%byte ex_names = true /\ forallb (feat_clean "|"%byte ex_names) ex_table = true /\
  sel_ok ex_names = true /\ sel_ok [k_type; n_start; n_strand] = false /\
  option_map Bstr (Some (write_xsv "|"%byte ex_names ex_table)) = Some ex_table_text.
Proof. vm_compute. repeat split; reflexivity. Qed.
