(* C02: more about tables: strands, blank lines, column order of any table, and the bridge from the column-key model of rounds 1-6
   to the column-name model of round 7. *)
From Coq Require Import List ZArith Lia Bool Permutation.
From Coq.Strings Require Import Byte.
Import ListNotations.
From SV Require Import Text G_gff C02_Model C02_Lemmas C02_Order C02_Read C02_Lenient C02_Xsv.
Local Open Scope Z_scope.

(* ------------------------------------------------------------------ exactly the texts + - . ? are strands *)
Theorem strand_mapping : forall c, strand_ok c = true <-> In c ["+"; "-"; "."; "?"]%byte.
Proof.
  intros c. unfold strand_ok. split.
  - intros H. destruct c; try discriminate H; cbn; tauto.
  - intros [H|[H|[H|[H|[]]]]]; subst; reflexivity.
Qed.

(* ------------------------------------------------------------------ blank lines in a table are skipped *)
Lemma filter_idem {A} (p : A -> bool) l : filter p (filter p l) = filter p l.
Proof. induction l as [|a l IH]; [reflexivity|]. cbn [filter]. destruct (p a) eqn:E; [cbn [filter]; rewrite E, IH; reflexivity|exact IH]. Qed.
Lemma Forall_filter {A} (P : A -> Prop) p l : Forall P l -> Forall P (filter p l).
Proof. induction 1 as [|a l Ha _ IH]; [constructor|]. cbn [filter]. destruct (p a); [constructor; assumption|exact IH]. Qed.
Theorem blank_lines_skipped sep ft ls : Forall (fun t => has x0a t = false) ls ->
  read_xsv sep ft (concat (map (fun l => l ++ nl) ls)) = read_xsv sep ft (concat (map (fun l => l ++ nl) (filter nonblank ls))).
Proof.
  intros H. unfold read_xsv, xsv_rows. rewrite !file_lines_concat by (try apply Forall_filter; exact H). rewrite filter_idem. reflexivity.
Qed.

(* ------------------------------------------------------------------ any column order, on any table *)
Lemma ncell_of_assoc n cols :
  ncell_of n (map fst cols) (map snd cols) = option_map snd (find (fun p => str_eqb n (fst p)) cols).
Proof. induction cols as [|[k v] cols IH]; [reflexivity|]. cbn [map ncell_of find fst snd]. destruct (str_eqb n k); [reflexivity|exact IH]. Qed.
Lemma nhas_perm n a b : Permutation a b -> nhas n a = nhas n b.
Proof.
  unfold nhas. induction 1 as [|x a b _ IH|x y a|a b c _ IH1 _ IH2]; cbn [existsb]; [reflexivity|rewrite IH; reflexivity| |congruence].
  destruct (str_eqb n x), (str_eqb n y); reflexivity.
Qed.
Lemma find_perm n (a b : list (str * str)) : Permutation a b -> NoDup (map fst a) ->
  find (fun p => str_eqb n (fst p)) a = find (fun p => str_eqb n (fst p)) b.
Proof.
  induction 1 as [|x a b _ IH|x y a|a b c P1 IH1 P2 IH2]; intros ND.
  - reflexivity.
  - cbn [find]. destruct (str_eqb n (fst x)); [reflexivity|]. apply IH. cbn [map] in ND. inversion ND; assumption.
  - cbn [find]. destruct (str_eqb n (fst x)) eqn:Ex, (str_eqb n (fst y)) eqn:Ey; try reflexivity.
    apply str_eqb_eq in Ex, Ey. exfalso. cbn [map] in ND. inversion ND as [|? ? Hin _]; subst. apply Hin. left. congruence.
  - rewrite IH1 by exact ND. apply IH2. apply (Permutation_NoDup (Permutation_map fst P1) ND).
Qed.
Lemma xrecord_ext ft N R N' R' : (forall n, nhas n N = nhas n N') -> (forall n, ncell_of n N R = ncell_of n N' R') ->
  xrecord_s ft N R = xrecord_s ft N' R'.
Proof.
  intros H1 H2. unfold xrecord_s, xrange, getZ, xtype.
  rewrite !(H1 n_start), !(H1 n_stop), !(H1 n_len), !(H1 n_strand), !(H1 k_type), !(H2 n_start), !(H2 n_stop), !(H2 n_len), !(H2 n_strand), !(H2 k_type).
  destruct ft as [c|]; [rewrite (H1 c), (H2 c)|]; reflexivity.
Qed.
(* a record given as (column name, cell) pairs with distinct names: the order of the columns does not matter *)
Theorem column_order_irrelevant ft (cols cols' : list (str * str)) : Permutation cols cols' -> NoDup (map fst cols) ->
  xrecord_s ft (map fst cols) (map snd cols) = xrecord_s ft (map fst cols') (map snd cols').
Proof.
  intros P ND. apply xrecord_ext; intros n.
  - apply nhas_perm. apply Permutation_map. exact P.
  - rewrite !ncell_of_assoc, (find_perm n cols cols' P ND). reflexivity.
Qed.

(* ------------------------------------------------------------------ the column-key model of rounds 1-6 is the name model on the five names *)
Definition kname (k : xkey) : str :=
  match k with KType => k_type | KStart => n_start | KStop => n_stop | KLen => n_len | KStrand => n_strand end.
Lemma nhas_kname k ks : nhas (kname k) (map kname ks) = xhas k ks.
Proof.
  unfold nhas, xhas. induction ks as [|k' ks IH]; [reflexivity|]. cbn [map existsb]. rewrite IH. f_equal. destruct k, k'; reflexivity.
Qed.
Lemma sel_ok_kname ks : sel_ok (map kname ks) = xsel ks.
Proof.
  unfold sel_ok, xsel. rewrite (nhas_kname KStart), (nhas_kname KStop), (nhas_kname KLen).
  destruct (xhas KStart ks), (xhas KStop ks), (xhas KLen ks); reflexivity.
Qed.
Lemma xrecord_nosel ks f : xsel ks = false -> xrecord ks (xrow ks f) = None.
Proof.
  intros S. unfold xrecord, xrow. rewrite !cell_of_map. unfold xsel in S.
  destruct (xhas KStart ks), (xhas KStop ks), (xhas KLen ks); cbn in S; try discriminate S; reflexivity.
Qed.
Theorem xrecord_bridge ks f : loc_valid f = true -> strand_ok (feat_strand_m f) = true -> feat_type f <> Some [] ->
  xrecord_s None (map kname ks) (nrow (map kname ks) f) =
  match xrecord ks (xrow ks f) with Some (Some (ty, a, b, sd)) => XRec ty a b sd | Some None => XVal | None => XKey end.
Proof.
  intros V S T. rewrite xrecord_total by assumption. rewrite sel_ok_kname. destruct (xsel ks) eqn:X.
  - unfold loc_valid in V. apply andb_prop in V. destruct V as [V1 V2].
    assert (L : fst (loc_range (flocs f)) < snd (loc_range (flocs f))).
    { apply range_lt; [|exact V2]. intros E. rewrite E in V1. discriminate V1. }
    rewrite (xsv_arith ks f X L). unfold xspec, xspec_ty. rewrite (nhas_kname KType), (nhas_kname KStrand).
    replace (feat_strand f) with (feat_strand_m f) by reflexivity.
    destruct (xhas KType ks); [|reflexivity]. unfold feat_type in T |- *. unfold ncell. cbn [str_eqb].
    change (str_eqb k_type n_strand) with false. change (str_eqb k_type n_defect) with false. change (str_eqb k_type n_start) with false.
    change (str_eqb k_type n_stop) with false. change (str_eqb k_type n_len) with false. cbv iota.
    destruct (aget k_type (fmeta f)) as [[s| | |]|]; try reflexivity. destruct s; [exfalso; apply T; reflexivity|reflexivity].
  - rewrite (xrecord_nosel ks f X). reflexivity.
Qed.
