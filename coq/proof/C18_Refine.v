(* C18 proofs: refinement between the two models.  For the operations both models cover (item assignment of a literal,
   item deletion, list append of a literal, at a path of keys) the snapshot of the heap after the heap operation is the
   value-level operation applied to the snapshot before -- provided the object has no internal sharing (NoDup of its
   reachable locations), which is exactly where a value (tree) is an adequate description of an object graph. *)
From Coq Require Import List ZArith NArith Bool Lia.
From Coq.Strings Require Import Byte.
Import ListNotations.
From SV Require Import Text G_attr C18_Model C18_Heap C18_Lemmas C18_HeapLemmas C18_HeapOps.

(* ---- value-level navigation / replacement, and the factorisation of upd ---- *)
Fixpoint tnav (p : list pelem) (T : tree) : option tree :=
  match p with
  | [] => Some T
  | e :: p' => match step T e with inl c => tnav p' c | inr _ => None end
  end.
Fixpoint trepl (p : list pelem) (T X : tree) : tree :=
  match p with
  | [] => X
  | e :: p' => match step T e with inl c => put T e (trepl p' c X) | inr _ => T end
  end.
Lemma upd_factor {R} (f : tree -> (tree * R) + err) p : forall T Tl Tl' r,
  tnav p T = Some Tl -> f Tl = inl (Tl', r) -> upd p f T = inl (trepl p T Tl', r).
Proof.
  induction p as [|e p IH]; intros T Tl Tl' r N F; cbn in *.
  - inversion N; subst. exact F.
  - destruct (step T e) as [c|x]; [|discriminate]. rewrite (IH _ _ _ _ N F). reflexivity.
Qed.

(* ---- list facts ---- *)
Lemma mapM_in {A B} (f : A -> option B) l ys x : mapM f l = Some ys -> In x l -> exists y, f x = Some y.
Proof.
  revert ys. induction l as [|a r IH]; intros ys M Hin; [destruct Hin|].
  cbn in M. destruct (f a) as [y|] eqn:Fa; [|discriminate]. destruct (mapM f r) as [ys'|]; [|discriminate].
  destruct Hin as [->|Hin]; [eauto|eapply IH; eauto].
Qed.
Lemma mapM_app {A B} (f : A -> option B) l1 l2 ys : mapM f (l1 ++ l2) = Some ys ->
  exists y1 y2, mapM f l1 = Some y1 /\ mapM f l2 = Some y2 /\ ys = y1 ++ y2.
Proof.
  revert ys. induction l1 as [|a r IH]; intros ys M; cbn in *.
  - exists [], ys. auto.
  - destruct (f a) as [y|]; [|discriminate]. destruct (mapM f (r ++ l2)) as [ys'|] eqn:M'; [|discriminate].
    inversion M; subst. destruct (IH _ eq_refl) as (y1 & y2 & -> & E2 & ->). exists (y :: y1), y2. auto.
Qed.
Lemma mapM_app_intro {A B} (f : A -> option B) l1 l2 y1 y2 : mapM f l1 = Some y1 -> mapM f l2 = Some y2 ->
  mapM f (l1 ++ l2) = Some (y1 ++ y2).
Proof.
  revert y1. induction l1 as [|a r IH]; intros y1 M1 M2; cbn in *; [inversion M1; subst; exact M2|].
  destruct (f a) as [y|]; [|discriminate]. destruct (mapM f r) as [ys'|]; [|discriminate].
  inversion M1; subst. rewrite (IH _ eq_refl M2). reflexivity.
Qed.
Lemma aget_split {A} k (m : list (str * A)) x : aget k m = Some x ->
  exists pre k' post, m = pre ++ (k', x) :: post /\ str_eqb k' k = true /\ aget k pre = None.
Proof.
  induction m as [|[k' v'] r IH]; cbn; [discriminate|]. destruct (str_eqb k' k) eqn:E; intros H.
  - inversion H; subst. exists [], k', r. auto.
  - destruct (IH H) as (pre & k2 & post & -> & E2 & N). exists ((k', v') :: pre), k2, post. cbn. rewrite E. auto.
Qed.
Lemma aget_app_none {A} k (pre post : list (str * A)) : aget k pre = None -> aget k (pre ++ post) = aget k post.
Proof. induction pre as [|[k' v'] r IH]; cbn; auto. destruct (str_eqb k' k); [discriminate|auto]. Qed.
Lemma aset_app_none {A} k (c : A) (pre post : list (str * A)) : aget k pre = None -> aset k c (pre ++ post) = pre ++ aset k c post.
Proof. induction pre as [|[k' v'] r IH]; cbn; auto. destruct (str_eqb k' k); [discriminate|]. intros H. rewrite IH; auto. Qed.
Lemma adel_app_none {A} k (pre post : list (str * A)) : aget k pre = None -> adel k (pre ++ post) = option_map (app pre) (adel k post).
Proof.
  induction pre as [|[k' v'] r IH]; cbn; [destruct (adel k post); reflexivity|].
  destruct (str_eqb k' k); [discriminate|]. intros H. rewrite IH by exact H. destruct (adel k post); reflexivity.
Qed.

(* the item snapshot function, and that it keeps keys *)
Definition fitem (n : nat) (h : heap) (kv : str * hval) : option (str * tree) := option_map (pair (fst kv)) (snap n h (snd kv)).
Lemma snap_map n h l g kvs : nth_error h l = Some (CMap g kvs) ->
  snap (S n) h (HRef l) = option_map (TMap g) (mapM (fitem n h) kvs).
Proof. intros E. cbn. rewrite E. reflexivity. Qed.
Lemma snap_list n h l vs : nth_error h l = Some (CList vs) -> snap (S n) h (HRef l) = option_map TList (mapM (snap n h) vs).
Proof. intros E. cbn. rewrite E. reflexivity. Qed.
Lemma mapM_fitem_aget n h kvs kvsT k : mapM (fitem n h) kvs = Some kvsT ->
  aget k kvsT = match aget k kvs with Some x => snap n h x | None => None end.
Proof.
  revert kvsT. induction kvs as [|[k' x] r IH]; intros kvsT M; cbn in M.
  - inversion M; subst. reflexivity.
  - unfold fitem in M at 1. cbn in M. destruct (snap n h x) as [t|] eqn:S; [|discriminate]. cbn in M.
    destruct (mapM (fitem n h) r) as [ys|] eqn:Mr; [|discriminate]. inversion M; subst. cbn.
    destruct (str_eqb k' k); [auto|apply IH; reflexivity].
Qed.
Lemma mapM_fitem_aset n h kvs kvsT k v t : mapM (fitem n h) kvs = Some kvsT -> snap n h v = Some t ->
  mapM (fitem n h) (aset k v kvs) = Some (aset k t kvsT).
Proof.
  revert kvsT. induction kvs as [|[k' x] r IH]; intros kvsT M Sv; cbn in M.
  - inversion M; subst. cbn. unfold fitem. cbn. rewrite Sv. reflexivity.
  - unfold fitem in M at 1. cbn in M. destruct (snap n h x) as [tx|] eqn:Sx; [|discriminate]. cbn in M.
    destruct (mapM (fitem n h) r) as [ys|] eqn:Mr; [|discriminate]. inversion M; subst. cbn.
    destruct (str_eqb k' k); cbn.
    + unfold fitem at 1. cbn. rewrite Sv. cbn. rewrite Mr. reflexivity.
    + unfold fitem at 1. cbn. rewrite Sx. cbn. rewrite (IH _ eq_refl Sv). reflexivity.
Qed.
Lemma mapM_fitem_adel n h kvs kvsT k kvs' : mapM (fitem n h) kvs = Some kvsT -> adel k kvs = Some kvs' ->
  exists kvsT', adel k kvsT = Some kvsT' /\ mapM (fitem n h) kvs' = Some kvsT'.
Proof.
  revert kvsT kvs'. induction kvs as [|[k' x] r IH]; intros kvsT kvs' M D; cbn in M, D; [discriminate|].
  unfold fitem in M at 1. cbn in M. destruct (snap n h x) as [tx|] eqn:Sx; [|discriminate]. cbn in M.
  destruct (mapM (fitem n h) r) as [ys|] eqn:Mr; [|discriminate]. inversion M; subst. cbn.
  destruct (str_eqb k' k).
  - inversion D; subst. eauto.
  - destruct (adel k r) as [r'|] eqn:Dr; [|discriminate]. inversion D; subst.
    destruct (IH _ _ eq_refl eq_refl) as (yT & DT & MT). rewrite DT. cbn. eexists. split; [reflexivity|].
    cbn. unfold fitem at 1. cbn. rewrite Sx. cbn. rewrite MT. reflexivity.
Qed.

(* ---- reachability: the computed list is complete when the deep read succeeds ---- *)
Lemma snap_reach n : forall h v T l, snap n h v = Some T -> Reach h v l -> In l (reach_list n h v) /\ l < length h.
Proof.
  induction n as [|n IH]; intros h v T l Sn R.
  - destruct R; cbn in Sn; discriminate.
  - inversion R as [l0|l0 c x l' E Hin R']; subst.
    + cbn in Sn. destruct (nth_error h l) as [c|] eqn:E; [|discriminate]. split; [cbn; auto|]. apply nth_error_Some. congruence.
    + cbn in Sn. rewrite E in Sn. cbn [reach_list]. rewrite E. destruct c as [g kvs|vs]; cbn in Hin.
      * apply in_map_iff in Hin. destruct Hin as ([k x'] & <- & Hin). cbn in *.
        destruct (mapM _ kvs) as [ys|] eqn:M; [|discriminate].
        destruct (mapM_in _ _ _ _ M Hin) as [y Fy]. cbn in Fy. destruct (snap n h x') as [tx|] eqn:Sx; [|discriminate].
        destruct (IH _ _ _ _ Sx R') as [I1 I2]. split; [|exact I2]. right. apply in_flat_map. exists (k, x'). auto.
      * destruct (mapM _ vs) as [ys|] eqn:M; [|discriminate].
        destruct (mapM_in _ _ _ _ M Hin) as [y Sx]. destruct (IH _ _ _ _ Sx R') as [I1 I2]. split; [|exact I2].
        right. apply in_flat_map. exists x. auto.
Qed.
Lemma hstep_reach h v e x l : hstep h v e = inl x -> Reach h x l -> Reach h v l.
Proof.
  intros E R. destruct v as [| | |s|l0]; cbn in E; try discriminate; [destruct e; discriminate|].
  destruct (nth_error h l0) as [[g kvs|vs]|] eqn:C; [| |destruct e; discriminate].
  - destruct e as [k|i]; [|discriminate]. destruct (aget k kvs) as [y|] eqn:A; [|discriminate]. inversion E; subst.
    eapply R_step; eauto. cbn. eapply aget_in; eauto.
  - destruct e as [k|i]; [discriminate|]. destruct (nth_py vs i) as [y|] eqn:A; [|discriminate]. inversion E; subst.
    eapply R_step; eauto. cbn. eapply nth_py_in; eauto.
Qed.
Lemma hnav_reach h p : forall v l, hnav h v p = inl (HRef l) -> Reach h v l.
Proof.
  induction p as [|e p IH]; intros v l E; cbn in E; [inversion E; constructor|].
  destruct (hstep h v e) as [y|] eqn:S; [|discriminate]. eapply hstep_reach; eauto.
Qed.

Lemma NoDup_app_inv {A} (a b : list A) : NoDup (a ++ b) -> NoDup a /\ NoDup b /\ forall x, In x a -> ~ In x b.
Proof.
  induction a as [|y r IH]; cbn; intros H; [repeat split; auto; constructor|].
  inversion H as [|? ? Hn Hr]; subst. destruct (IH Hr) as (Na & Nb & D). repeat split; auto.
  - constructor; auto. intros X. apply Hn. apply in_or_app. auto.
  - intros x [->|Hx] Hb; [apply Hn; apply in_or_app; auto|eapply D; eauto].
Qed.

Definition agree_except (h h' : heap) (l : nat) : Prop := forall l', l' < length h -> l' <> l -> nth_error h' l' = nth_error h l'.

(* a value that does not reach l reads the same in h' *)
Lemma snap_agree n h h' l v T : agree_except h h' l -> snap n h v = Some T -> ~ In l (reach_list n h v) -> snap n h' v = Some T.
Proof.
  intros A Sn NI. rewrite <- Sn. apply snap_ext. intros l' R. destruct (snap_reach _ _ _ _ _ Sn R) as [I1 I2].
  apply A; auto. intros ->. contradiction.
Qed.

Definition key_path (p : list pelem) : bool := forallb (fun e => match e with PK _ => true | PI _ => false end) p.

(* ---- the path lemma ---- *)
Lemma write_path p : forall n h v T l, key_path p = true -> snap n h v = Some T -> NoDup (reach_list n h v) ->
  hnav h v p = inl (HRef l) ->
  exists Tl k, tnav p T = Some Tl /\ snap k h (HRef l) = Some Tl /\ NoDup (reach_list k h (HRef l)) /\
    forall h' Tl' m0, agree_except h h' l -> snap m0 h' (HRef l) = Some Tl' -> exists m, snap m h' v = Some (trepl p T Tl').
Proof.
  induction p as [|e p IH]; intros n h v T l KP Sn ND Nv.
  - cbn in Nv. inversion Nv; subst. exists T, n. repeat split; auto. intros h' Tl' m0 _ S'. exists m0. exact S'.
  - cbn in KP. apply andb_prop in KP. destruct KP as [KE KP]. destruct e as [k1|i]; [|discriminate].
    cbn [hnav] in Nv. destruct (hstep h v (PK k1)) as [x|] eqn:Hs; [|discriminate].
    destruct v as [| | |s|r]; cbn in Hs; try discriminate.
    destruct (nth_error h r) as [[g kvs|vs]|] eqn:C; try discriminate.
    destruct (aget k1 kvs) as [x0|] eqn:A; [|discriminate]. inversion Hs; subst x0. clear Hs.
    destruct n as [|n]; [cbn in Sn; discriminate|].
    rewrite (snap_map _ _ _ _ _ C) in Sn. destruct (mapM (fitem n h) kvs) as [kvsT|] eqn:M; [|discriminate].
    inversion Sn; subst T. clear Sn.
    cbn [reach_list] in ND. rewrite C in ND. inversion ND as [|? ? Hr NDf]; subst.
    destruct (aget_split _ _ _ A) as (pre & k' & post & -> & Ek & Npre).
    destruct (mapM_app _ _ _ _ M) as (preT & restT & Mpre & Mrest & ->).
    cbn in Mrest. unfold fitem in Mrest at 1. cbn in Mrest. destruct (snap n h x) as [Tx|] eqn:Sx; [|discriminate]. cbn in Mrest.
    destruct (mapM (fitem n h) post) as [postT|] eqn:Mpost; [|discriminate]. inversion Mrest; subst restT. clear Mrest.
    rewrite flat_map_app in NDf. cbn [flat_map] in NDf.
    destruct (NoDup_app_inv _ _ NDf) as (NDpre & NDrest & Dpre).
    destruct (NoDup_app_inv _ _ NDrest) as (NDx & NDpost & Dx). cbn [snd] in *.
    destruct (IH n h x Tx l KP Sx NDx Nv) as (Tl & k & TN & Sl & NDl & Rep).
    assert (aget k1 preT = None) as NpreT.
    { rewrite (mapM_fitem_aget _ _ _ _ k1 Mpre), Npre. reflexivity. }
    assert (step (TMap g (preT ++ (k', Tx) :: postT)) (PK k1) = inl Tx) as St.
    { cbn. rewrite aget_app_none by exact NpreT. cbn. rewrite Ek. reflexivity. }
    exists Tl, k. split; [cbn [tnav]; rewrite St; exact TN|]. split; [exact Sl|]. split; [exact NDl|].
    intros h' Tl' m0 Ag S'.
    destruct (Rep h' Tl' m0 Ag S') as [m Sm].
    (* l is reachable from x, hence different from r and not reachable from the other items *)
    pose proof (hnav_reach _ _ _ _ Nv) as Rl. destruct (snap_reach _ _ _ _ _ Sx Rl) as [Il _].
    assert (l <> r) as Nlr.
    { intros ->. apply Hr. rewrite flat_map_app. apply in_or_app. right. cbn. apply in_or_app. left. exact Il. }
    assert (r < length h) as Lr by (apply nth_error_Some; congruence).
    assert (nth_error h' r = Some (CMap g (pre ++ (k', x) :: post))) as C' by (rewrite (Ag r Lr (not_eq_sym Nlr)); exact C).
    set (M0 := Nat.max n m).
    assert (forall items itemsT, mapM (fitem n h) items = Some itemsT -> ~ In l (flat_map (fun kv => reach_list n h (snd kv)) items) ->
              mapM (fitem M0 h') items = Some itemsT) as OTHER.
    { induction items as [|[ka xa] ra IHa]; intros itemsT Mi NI; cbn in Mi.
      - inversion Mi; subst. reflexivity.
      - unfold fitem in Mi at 1. cbn in Mi. destruct (snap n h xa) as [ta|] eqn:Sa; [|discriminate]. cbn in Mi.
        destruct (mapM (fitem n h) ra) as [ys|] eqn:Mra; [|discriminate]. inversion Mi; subst. cbn in NI.
        cbn. unfold fitem at 1. cbn.
        rewrite (snap_fuel n M0 h' xa ta (Nat.le_max_l _ _) (snap_agree _ _ _ _ _ _ Ag Sa (fun X => NI (in_or_app _ _ _ (or_introl X))))).
        cbn. rewrite (IHa _ eq_refl (fun X => NI (in_or_app _ _ _ (or_intror X)))). reflexivity. }
    exists (S M0). rewrite (snap_map _ _ _ _ _ C').
    assert (mapM (fitem M0 h') pre = Some preT) as Mpre'.
    { apply OTHER; [exact Mpre|]. intros X. eapply Dpre; [exact X|]. cbn. apply in_or_app. left. exact Il. }
    assert (mapM (fitem M0 h') post = Some postT) as Mpost'.
    { apply OTHER; [exact Mpost|]. intros X. eapply Dx; eauto. }
    rewrite (mapM_app_intro _ _ _ preT ((k', trepl p Tx Tl') :: postT) Mpre').
    + cbn [option_map trepl]. rewrite St. cbn [put]. rewrite aset_app_none by exact NpreT. cbn [aset]. rewrite Ek. reflexivity.
    + cbn. unfold fitem at 1. cbn. rewrite (snap_fuel m M0 h' x _ (Nat.le_max_r _ _) Sm). cbn. rewrite Mpost'. reflexivity.
Qed.

Lemma vals_agree n h h' l M vs : forall ys, agree_except h h' l -> n <= M -> mapM (snap n h) vs = Some ys ->
  ~ In l (flat_map (reach_list n h) vs) -> mapM (snap M h') vs = Some ys.
Proof.
  induction vs as [|x r IH]; intros ys Ag LE Mi NI; cbn in Mi; [inversion Mi; reflexivity|].
  destruct (snap n h x) as [tx|] eqn:Sx; [|discriminate]. destruct (mapM (snap n h) r) as [ys'|] eqn:Mr; [|discriminate].
  inversion Mi; subst. cbn in NI. cbn.
  rewrite (snap_fuel n M h' x tx LE (snap_agree _ _ _ _ _ _ Ag Sx (fun X => NI (in_or_app _ _ _ (or_introl X))))).
  rewrite (IH _ Ag LE eq_refl (fun X => NI (in_or_app _ _ _ (or_intror X)))). reflexivity.
Qed.
Lemma items_agree n h h' l M kvs : forall ys, agree_except h h' l -> n <= M -> mapM (fitem n h) kvs = Some ys ->
  ~ In l (flat_map (fun kv => reach_list n h (snd kv)) kvs) -> mapM (fitem M h') kvs = Some ys.
Proof.
  induction kvs as [|[k x] r IH]; intros ys Ag LE Mi NI; cbn in Mi; [inversion Mi; reflexivity|].
  unfold fitem in Mi at 1. cbn in Mi. destruct (snap n h x) as [tx|] eqn:Sx; [|discriminate]. cbn in Mi.
  destruct (mapM (fitem n h) r) as [ys'|] eqn:Mr; [|discriminate].
  inversion Mi; subst. cbn in NI. cbn. unfold fitem at 1. cbn.
  rewrite (snap_fuel n M h' x tx LE (snap_agree _ _ _ _ _ _ Ag Sx (fun X => NI (in_or_app _ _ _ (or_introl X))))). cbn.
  rewrite (IH _ Ag LE eq_refl (fun X => NI (in_or_app _ _ _ (or_intror X)))). reflexivity.
Qed.

Lemma agree_write_app (h ex : heap) l c : agree_except h (hwrite (h ++ ex) l c) l.
Proof.
  intros l' Hl N. unfold hwrite. rewrite nth_error_set_nth_other by congruence. apply nth_error_app1. exact Hl.
Qed.
Lemma nth_write_app (h ex : heap) l c : l < length h -> nth_error (hwrite (h ++ ex) l c) l = Some c.
Proof. intros Hl. unfold hwrite. apply nth_error_set_nth_same. rewrite app_length. lia. Qed.

(* a freshly built value reads the same after a write to an old cell *)
Lemma built_after_write t h h1 v l c : build t h = (h1, v) -> l < length h -> exists m, snap m (hwrite h1 l c) v = Some t.
Proof.
  intros B Hl. destruct (build_spec t _ _ _ B) as (ex & -> & G & L & C & _ & m & Sm). exists m.
  rewrite frame_write; [exact Sm|]. intros R. pose proof (reach_new _ _ _ _ C G R). lia.
Qed.

(* ---- refinement theorems ---- *)
Theorem refine_setlit s i p k t s' r n T : key_path p = true ->
  snap n (fst s) (reg s i) = Some T -> NoDup (reach_list n (fst s) (reg s i)) ->
  hop_step (HSetLit i p k t) s = inl (s', r) ->
  exists T' m, apply_op (OSetItem p k t) T = inl (T', VNone) /\ snap m (fst s') (reg s' i) = Some T'.
Proof.
  intros KP Sn ND E. destruct s as [h regs]. cbn [hop_step fst snd] in *. unfold reg in *. cbn [snd] in *.
  destruct (hnav h (nth i regs HNull) p) as [[| | | |l]|] eqn:Nv; try discriminate.
  destruct (nth_error h l) as [[g kvs|vs]|] eqn:C; try discriminate.
  destruct (build _ h) as [h1 vnew] eqn:B. inversion E; subst s' r. clear E. cbn [fst snd].
  destruct (write_path p n h _ T l KP Sn ND Nv) as (Tl & k0 & TN & Sl & NDl & Rep).
  destruct k0 as [|k1]; [cbn in Sl; discriminate|].
  rewrite (snap_map _ _ _ _ _ C) in Sl. destruct (mapM (fitem k1 h) kvs) as [kvsT|] eqn:M; [|discriminate].
  inversion Sl; subst Tl. clear Sl.
  cbn [reach_list] in NDl. rewrite C in NDl. inversion NDl as [|? ? Hl0 _]; subst.
  assert (l < length h) as Ll by (apply nth_error_Some; congruence).
  set (t' := if is_attr g then conv t else t) in *.
  destruct (build_spec _ _ _ _ B) as (ex & -> & _).
  destruct (built_after_write _ _ _ _ l (CMap g (aset k vnew kvs)) B Ll) as [m1 S1].
  set (h' := hwrite (h ++ ex) l (CMap g (aset k vnew kvs))) in *.
  pose proof (agree_write_app h ex l (CMap g (aset k vnew kvs))) as Ag. fold h' in Ag.
  pose proof (nth_write_app h ex l (CMap g (aset k vnew kvs)) Ll) as Nw. fold h' in Nw.
  set (M0 := Nat.max k1 m1).
  assert (snap (S M0) h' (HRef l) = Some (TMap g (aset k t' kvsT))) as S'.
  { rewrite (snap_map _ _ _ _ _ Nw).
    rewrite (mapM_fitem_aset M0 h' kvs kvsT k vnew t').
    - reflexivity.
    - apply (items_agree k1 h h' l M0 kvs kvsT Ag (Nat.le_max_l _ _) M Hl0).
    - eapply snap_fuel; [apply Nat.le_max_r|exact S1]. }
  destruct (Rep h' _ _ Ag S') as [m Sm].
  exists (trepl p T (TMap g (aset k t' kvsT))), m. split; [|exact Sm].
  cbn [apply_op]. apply (upd_factor _ p T (TMap g kvsT)); [exact TN|]. reflexivity.
Qed.

Theorem refine_del s i p k s' r n T : key_path p = true ->
  snap n (fst s) (reg s i) = Some T -> NoDup (reach_list n (fst s) (reg s i)) ->
  hop_step (HDel i p k) s = inl (s', r) ->
  exists T' m, apply_op (ODelItem p k) T = inl (T', VNone) /\ snap m (fst s') (reg s' i) = Some T'.
Proof.
  intros KP Sn ND E. destruct s as [h regs]. cbn [hop_step fst snd] in *. unfold reg in *. cbn [snd] in *.
  destruct (hnav h (nth i regs HNull) p) as [[| | | |l]|] eqn:Nv; try discriminate.
  destruct (nth_error h l) as [[g kvs|vs]|] eqn:C; try discriminate.
  destruct (adel k kvs) as [kvs'|] eqn:D; [|discriminate]. inversion E; subst s' r. clear E. cbn [fst snd].
  destruct (write_path p n h _ T l KP Sn ND Nv) as (Tl & k0 & TN & Sl & NDl & Rep).
  destruct k0 as [|k1]; [cbn in Sl; discriminate|].
  rewrite (snap_map _ _ _ _ _ C) in Sl. destruct (mapM (fitem k1 h) kvs) as [kvsT|] eqn:M; [|discriminate].
  inversion Sl; subst Tl. clear Sl.
  cbn [reach_list] in NDl. rewrite C in NDl. inversion NDl as [|? ? Hl0 _]; subst.
  assert (l < length h) as Ll by (apply nth_error_Some; congruence).
  pose proof (agree_write_app h [] l (CMap g kvs')) as Ag. rewrite app_nil_r in Ag.
  pose proof (nth_write_app h [] l (CMap g kvs') Ll) as Nw. rewrite app_nil_r in Nw.
  set (h' := hwrite h l (CMap g kvs')) in *.
  assert (mapM (fitem k1 h') kvs = Some kvsT) as M' by (apply (items_agree k1 h h' l k1 kvs kvsT Ag (le_n _) M Hl0)).
  destruct (mapM_fitem_adel _ _ _ _ _ _ M' D) as (kvsT' & DT & MT).
  assert (snap (S k1) h' (HRef l) = Some (TMap g kvsT')) as S' by (rewrite (snap_map _ _ _ _ _ Nw), MT; reflexivity).
  destruct (Rep h' _ _ Ag S') as [m Sm].
  exists (trepl p T (TMap g kvsT')), m. split; [|exact Sm].
  cbn [apply_op]. apply (upd_factor _ p T (TMap g kvsT)); [exact TN|]. rewrite DT. reflexivity.
Qed.

Theorem refine_append s i p t s' r n T : key_path p = true ->
  snap n (fst s) (reg s i) = Some T -> NoDup (reach_list n (fst s) (reg s i)) ->
  hop_step (HAppendLit i p t) s = inl (s', r) ->
  exists T' m, apply_op (OListAppend p t) T = inl (T', VNone) /\ snap m (fst s') (reg s' i) = Some T'.
Proof.
  intros KP Sn ND E. destruct s as [h regs]. cbn [hop_step fst snd] in *. unfold reg in *. cbn [snd] in *.
  destruct (hnav h (nth i regs HNull) p) as [[| | | |l]|] eqn:Nv; try discriminate.
  destruct (nth_error h l) as [[g kvs|vs]|] eqn:C; try discriminate.
  destruct (build t h) as [h1 vnew] eqn:B. inversion E; subst s' r. clear E. cbn [fst snd].
  destruct (write_path p n h _ T l KP Sn ND Nv) as (Tl & k0 & TN & Sl & NDl & Rep).
  destruct k0 as [|k1]; [cbn in Sl; discriminate|].
  rewrite (snap_list _ _ _ _ C) in Sl. destruct (mapM (snap k1 h) vs) as [lT|] eqn:M; [|discriminate].
  inversion Sl; subst Tl. clear Sl.
  cbn [reach_list] in NDl. rewrite C in NDl. inversion NDl as [|? ? Hl0 _]; subst.
  assert (l < length h) as Ll by (apply nth_error_Some; congruence).
  destruct (build_spec _ _ _ _ B) as (ex & -> & _).
  destruct (built_after_write _ _ _ _ l (CList (vs ++ [vnew])) B Ll) as [m1 S1].
  set (h' := hwrite (h ++ ex) l (CList (vs ++ [vnew]))) in *.
  pose proof (agree_write_app h ex l (CList (vs ++ [vnew]))) as Ag. fold h' in Ag.
  pose proof (nth_write_app h ex l (CList (vs ++ [vnew])) Ll) as Nw. fold h' in Nw.
  set (M0 := Nat.max k1 m1).
  assert (snap (S M0) h' (HRef l) = Some (TList (lT ++ [t]))) as S'.
  { rewrite (snap_list _ _ _ _ Nw).
    rewrite (mapM_app_intro (snap M0 h') vs [vnew] lT [t]).
    - reflexivity.
    - apply (vals_agree k1 h h' l M0 vs lT Ag (Nat.le_max_l _ _) M Hl0).
    - cbn. rewrite (snap_fuel m1 M0 h' vnew t (Nat.le_max_r _ _) S1). reflexivity. }
  destruct (Rep h' _ _ Ag S') as [m Sm].
  exists (trepl p T (TList (lT ++ [t]))), m. split; [|exact Sm].
  cbn [apply_op]. apply (upd_factor _ p T (TList lT)); [exact TN|]. reflexivity.
Qed.

(* the boolean domain test of the model implies the NoDup hypothesis *)
Lemma nodup_nat_NoDup l : nodup_nat l = true -> NoDup l.
Proof.
  induction l as [|x r IH]; cbn; intros H; [constructor|]. apply andb_prop in H. destruct H as [H1 H2].
  constructor; [|auto]. intros X. apply negb_true_iff in H1.
  assert (existsb (Nat.eqb x) r = true) as Y by (apply existsb_exists; exists x; split; [exact X|apply Nat.eqb_refl]). congruence.
Qed.

(* non-vacuity: the demo object r0 = Meta({'a': {'b': 1}, 'l': [{}]}) is tree shaped and all three operations apply *)
Lemma demo_refine :
  let s := exec [HNew 0 (TMap TgDict [(bs "a"%bs, TMap TgDict [(bs "b"%bs, TInt 1)]); (bs "l"%bs, TList [TMap TgDict []])])] init_state in
  tree_shaped 5 (fst s) (reg s 0) = true /\
  (exists T, snap 5 (fst s) (reg s 0) = Some T) /\
  (exists s', hop_step (HSetLit 0 [PK (bs "a"%bs)] (bs "c"%bs) (TMap TgDict [(bs "d"%bs, TInt 2)])) s = inl (s', VNone)) /\
  (exists s', hop_step (HDel 0 [PK (bs "a"%bs)] (bs "b"%bs)) s = inl (s', VNone)) /\
  (exists s', hop_step (HAppendLit 0 [PK (bs "l"%bs)] (TInt 7)) s = inl (s', VNone)).
Proof.
  cbn zeta. split; [vm_compute; reflexivity|]. split; [eexists; vm_compute; reflexivity|].
  split; [|split]; eexists; vm_compute; reflexivity.
Qed.

(* ---- the mapping laws at ANY path (not only at the root): upd is "navigate, apply, put back" ---- *)
Lemma upd_tnav {R} (f : tree -> (tree * R) + err) p : forall T Tl, tnav p T = Some Tl ->
  upd p f T = match f Tl with inl (Tl', r) => inl (trepl p T Tl', r) | inr e => inr e end.
Proof.
  induction p as [|e p IH]; intros T Tl N; cbn in *.
  - inversion N; subst. destruct (f Tl) as [[Tl' r]|x]; reflexivity.
  - destruct (step T e) as [c|x]; [|discriminate]. rewrite (IH _ _ N). destruct (f Tl) as [[Tl' r]|x]; reflexivity.
Qed.

(* attribute access = key access on the Attr/Meta reached by any path; only KeyError/AttributeError differ *)
Theorem attr_is_key_path p T g kvs k v : tnav p T = Some (TMap g kvs) -> is_attr g = true ->
  apply_op (OGetAttr p k) T = match apply_op (OGetItem p k) T with inr EKey => inr EAttr | x => x end /\
  apply_op (OSetAttr p k v) T = apply_op (OSetItem p k v) T /\
  apply_op (ODelAttr p k) T = apply_op (ODelItem p k) T.
Proof.
  intros N A. cbn [apply_op]. rewrite !(upd_tnav _ p T _ N). cbn. rewrite A. repeat split.
  destruct (aget k kvs); reflexivity.
Qed.

(* get after set at any path of keys: the stored value is the converted one, through item and attribute access *)
Lemma tnav_trepl p : forall T Tl X, key_path p = true -> tnav p T = Some Tl -> tnav p (trepl p T X) = Some X.
Proof.
  induction p as [|e p IH]; intros T Tl X KP N; cbn in *; [reflexivity|].
  apply andb_prop in KP. destruct KP as [KE KP]. destruct e as [k|i]; [|discriminate].
  destruct T as [| | |s|l|g kvs]; cbn in *; try discriminate.
  destruct (aget k kvs) as [c|] eqn:A; [|discriminate]. cbn. rewrite aget_aset_same. eapply IH; eauto.
Qed.
Theorem get_set_path p T g kvs k v : key_path p = true -> tnav p T = Some (TMap g kvs) -> is_attr g = true ->
  exists T', apply_op (OSetItem p k v) T = inl (T', VNone) /\
             tnav p T' = Some (TMap g (aset k (conv v) kvs)) /\
             apply_op (OGetItem p k) T' = inl (T', enc (conv v)) /\ apply_op (OGetAttr p k) T' = inl (T', enc (conv v)).
Proof.
  intros KP N A. exists (trepl p T (TMap g (aset k (conv v) kvs))).
  pose proof (tnav_trepl p T _ (TMap g (aset k (conv v) kvs)) KP N) as N'.
  split; [|split; [exact N'|]].
  - cbn [apply_op]. rewrite (upd_tnav _ p T _ N). cbn. unfold map_set. rewrite A. reflexivity.
  - cbn [apply_op]. rewrite !(upd_tnav _ p _ _ N'). cbn. rewrite A, aget_aset_same.
    assert (forall X, trepl p (trepl p T X) X = trepl p T X) as Idem.
    { clear - KP N. revert T N. induction p as [|e p IH]; intros T N X; cbn in *; [reflexivity|].
      apply andb_prop in KP. destruct KP as [KE KP]. destruct e as [k|i]; [|discriminate].
      destruct T as [| | |s|l|g0 kvs0]; cbn in *; try discriminate.
      destruct (aget k kvs0) as [c|] eqn:A; [|discriminate]. cbn. rewrite aget_aset_same. rewrite (IH KP c N X).
      f_equal. clear. induction kvs0 as [|[k' v'] r IHr]; cbn; [rewrite str_eqb_refl; reflexivity|].
      destruct (str_eqb k' k) eqn:E; cbn; rewrite E; [reflexivity|rewrite IHr; reflexivity]. }
    unfold ret. rewrite Idem. split; reflexivity.
Qed.
