(* C14 proofs: the SJSON reader inverts the SJSON writer on the domain wf, up to the keys the encoder filter rejects. *)
From Coq Require Import List ZArith NArith Bool Lia.
From Coq.Strings Require Import Byte.
Import ListNotations.
From SV Require Import Text G_codes G_flags G_sjson C14_Model.

(* ---- pins: the constants of /repo the model was written against ------------------------------------------------- *)
Lemma pin_classes : SJSON_CLASSES =
  [cls_name CAttr; N_BioBasket; N_BioSeq; bs "Defect"%bs; N_Feature; N_FeatureList; N_Location; cls_name CMeta; bs "Strand"%bs].
Proof. reflexivity. Qed.
(* the attributes `o.__dict__.items()` enumerates: exactly the public ones the encoder writes plus the private ones it re-adds *)
Lemma pin_vars :
  SJSON_VARS_BioSeq = [K_data; K_meta; K_type] /\ SJSON_VARS_BioBasket = [K_data; K_meta] /\
  SJSON_VARS_FeatureList = [K_data] /\ SJSON_VARS_Feature = [K_meta; bs "_locs"%bs] /\
  SJSON_VARS_Location = [K_start; K_stop; bs "_strand"%bs; bs "_defect"%bs; bs "_meta"%bs].
Proof. repeat split; reflexivity. Qed.
(* the keyword parameters cls(KW d) binds *)
Lemma pin_inits :
  SJSON_INIT_BioSeq = [K_data; K_id; K_meta; K_type] /\ SJSON_INIT_BioBasket = [K_data; K_meta] /\
  SJSON_INIT_FeatureList = [K_data] /\ SJSON_INIT_Location = [K_start; K_stop; K_strand; K_defect; K_meta] /\
  SJSON_INIT_Feature = [K_type; K_locs; K_meta; bs "**kw"%bs] /\
  SJSON_INIT_LocationTuple = [K_locs; K_start; K_stop; K_strand] /\
  SJSON_INIT_Attr = [bs "*args"%bs; bs "**kwargs"%bs].
Proof. repeat split; reflexivity. Qed.
Lemma pin_filter_on_vars :
  filter keep_key SJSON_VARS_BioSeq = [K_data; K_meta; K_type] /\ filter keep_key SJSON_VARS_BioBasket = [K_data; K_meta] /\
  filter keep_key SJSON_VARS_FeatureList = [K_data] /\ filter keep_key SJSON_VARS_Feature = [K_meta] /\
  filter keep_key SJSON_VARS_Location = [K_start; K_stop] /\ keep_key K_fmtcomment = true /\ keep_key K_cls = false.
Proof. repeat split; reflexivity. Qed.

(* ---- induction principle for the nested type -------------------------------------------------------------------------- *)
Section obj_induction.
  Variable P : obj -> Prop.
  Definition Pkv (kv : list (str * obj)) : Prop := Forall (fun p => P (snd p)) kv.
  Hypothesis HNone : P ONone.
  Hypothesis HBool : forall b, P (OBool b).
  Hypothesis HInt : forall z, P (OInt z).
  Hypothesis HFloat : forall l, P (OFloat l).
  Hypothesis HStr : forall s, P (OStr s).
  Hypothesis HList : forall l, Forall P l -> P (OList l).
  Hypothesis HDict : forall kv, Pkv kv -> P (ODict kv).
  Hypothesis HAttr : forall c kv, Pkv kv -> P (OAttr c kv).
  Hypothesis HLoc : forall a b s d m, match m with None => True | Some kv => Pkv kv end -> P (OLoc a b s d m).
  Hypothesis HFeat : forall m locs, Pkv m -> Forall P locs -> P (OFeat m locs).
  Hypothesis HFts : forall data, Forall P data -> P (OFts data).
  Hypothesis HSeq : forall d m t, Pkv m -> P (OSeq d m t).
  Hypothesis HBasket : forall data m, Forall P data -> Pkv m -> P (OBasket data m).
  Fixpoint obj_ind' (o : obj) : P o :=
    let fl := fix fl (l : list obj) : Forall P l :=
                match l with [] => Forall_nil _ | x :: r => Forall_cons x (obj_ind' x) (fl r) end in
    let fkv := fix fkv (kv : list (str * obj)) : Pkv kv :=
                 match kv with
                 | [] => Forall_nil _
                 | (k, v) :: r => Forall_cons (k, v) (obj_ind' v) (fkv r)
                 end in
    match o with
    | ONone => HNone | OBool b => HBool b | OInt z => HInt z | OFloat l => HFloat l | OStr s => HStr s
    | OList l => HList l (fl l)
    | ODict kv => HDict kv (fkv kv)
    | OAttr c kv => HAttr c kv (fkv kv)
    | OLoc a b s d m => HLoc a b s d m (match m with None => I | Some kv => fkv kv end)
    | OFeat m locs => HFeat m locs (fkv m) (fl locs)
    | OFts data => HFts data (fl data)
    | OSeq d m t => HSeq d m t (fkv m)
    | OBasket data m => HBasket data m (fl data) (fkv m)
    end.
End obj_induction.

(* ---- small facts ---------------------------------------------------------------------------------------------------------- *)
Definition encp (p : str * obj) : str * json := match p with (k, v) => (k, enc v) end.
Definition stripp (p : str * obj) : str * obj := match p with (k, v) => (k, strip v) end.
Definition pubp (p : str * obj) : str * obj := match p with (k, v) => (k, pub v) end.
Definition keepk (p : str * obj) : bool := keep_key (fst p).
Definition strip_kv (kv : list (str * obj)) : list (str * obj) := filter keepo (map stripp kv).
Definition pub_kv (kv : list (str * obj)) : list (str * obj) := filter pubo (map pubp kv).

Lemma bind_ok {A B} (a : A) (f : A -> res B) : bind (Ok a) f = f a.
Proof. reflexivity. Qed.
Lemma mapM_cons {A B} (f : A -> res B) x r :
  mapM f (x :: r) = bind (f x) (fun y => bind (mapM f r) (fun ys => Ok (y :: ys))).
Proof. reflexivity. Qed.
Lemma mapMkv_cons {A B} (f : A -> res B) k x r :
  mapMkv f ((k, x) :: r) = bind (f x) (fun y => bind (mapMkv f r) (fun ys => Ok ((k, y) :: ys))).
Proof. reflexivity. Qed.
Lemma mapMkv_nil {A B} (f : A -> res B) : mapMkv f [] = Ok [].
Proof. reflexivity. Qed.
Lemma mapMkv_app {A B} (f : A -> res B) a a' b b' :
  mapMkv f a = Ok a' -> mapMkv f b = Ok b' -> mapMkv f (a ++ b) = Ok (a' ++ b').
Proof.
  revert a'. induction a as [|[k x] a IH]; intros a' Ha Hb.
  - cbn in Ha. inversion Ha; subst. exact Hb.
  - rewrite <- app_comm_cons, mapMkv_cons. rewrite mapMkv_cons in Ha.
    destruct (f x) as [y|e]; [|discriminate]. cbn [bind] in *.
    destruct (mapMkv f a) as [ys|e]; [|discriminate]. cbn [bind] in Ha. inversion Ha; subst.
    rewrite (IH ys eq_refl Hb). reflexivity.
Qed.

Lemma dec_obj kv : dec (JObj kv) = bind (mapMkv dec kv) hook.
Proof. reflexivity. Qed.
Lemma dec_arr l : dec (JArr l) = bind (mapM dec l) (fun l' => Ok (OList l')).
Proof. reflexivity. Qed.

Lemma has_key_false_iff {A} k (l : list (str * A)) : has_key k l = false <-> ~ In k (keys l).
Proof.
  unfold has_key, keys. induction l as [|[a v] l IH]; cbn.
  - tauto.
  - rewrite orb_false_iff, IH. split.
    + intros [H1 H2] [E|E]; [subst; rewrite str_eqb_refl in H1; discriminate|tauto].
    + intros H. split; [|tauto]. destruct (str_eqb a k) eqn:E; [|reflexivity].
      apply str_eqb_eq in E. tauto.
Qed.
Lemma has_key_true_iff {A} k (l : list (str * A)) : has_key k l = true <-> In k (keys l).
Proof.
  destruct (has_key k l) eqn:E.
  - split; [intros _|reflexivity]. destruct (in_dec (list_eq_dec Byte.byte_eq_dec) k (keys l)) as [H|H]; [exact H|].
    apply has_key_false_iff in H. congruence.
  - apply has_key_false_iff in E. split; [discriminate|tauto].
Qed.
Lemma lookup_app_last {A} k (v : A) l : has_key k l = false -> lookup k (l ++ [(k, v)]) = Some v.
Proof.
  unfold has_key. induction l as [|[a x] l IH]; cbn; intros H.
  - rewrite str_eqb_refl. reflexivity.
  - apply orb_false_iff in H. destruct H as [H1 H2]. rewrite H1. auto.
Qed.
Lemma remove_key_absent {A} k (l : list (str * A)) : has_key k l = false -> remove_key k l = l.
Proof.
  unfold has_key, remove_key. induction l as [|[a x] l IH]; cbn; intros H; [reflexivity|].
  apply orb_false_iff in H. destruct H as [H1 H2]. rewrite H1. cbn. f_equal. auto.
Qed.
Lemma remove_key_app_last {A} k (v : A) l : has_key k l = false -> remove_key k (l ++ [(k, v)]) = l.
Proof.
  intros H. unfold remove_key. rewrite filter_app. fold (remove_key k l). rewrite (remove_key_absent _ _ H).
  cbn. rewrite str_eqb_refl. cbn. apply app_nil_r.
Qed.
Lemma keys_filter_map_incl {B} (f : str * B -> bool) (g : str * obj -> str * B) kv :
  (forall p, fst (g p) = fst p) -> forall k, In k (keys (filter f (map g kv))) -> In k (keys kv).
Proof.
  intros Hg k. unfold keys. induction kv as [|p kv IH]; cbn; [tauto|].
  destruct (f (g p)); cbn; rewrite ?Hg; tauto.
Qed.
Lemma fst_stripp p : fst (stripp p) = fst p.
Proof. destruct p; reflexivity. Qed.
Lemma fst_pubp p : fst (pubp p) = fst p.
Proof. destruct p; reflexivity. Qed.
Lemma has_key_strip_kv_false k kv : has_key k kv = false -> has_key k (strip_kv kv) = false.
Proof.
  rewrite !has_key_false_iff. intros H C. apply H.
  eapply keys_filter_map_incl; [apply fst_stripp|exact C].
Qed.
Lemma has_key_strip_kv_true k kv : keep_final k = true -> has_key k kv = true -> has_key k (strip_kv kv) = true.
Proof.
  intros Hk. rewrite !has_key_true_iff. unfold strip_kv, keys.
  induction kv as [|[a v] kv IH]; cbn; [tauto|].
  intros [E|H].
  - subst a. unfold keepo at 1. cbn. rewrite Hk. cbn. auto.
  - destruct (keepo (a, strip v)); cbn; auto.
Qed.
Lemma keepk_filter_no_cls kv : has_key K_cls (filter keepk kv) = false.
Proof.
  apply has_key_false_iff. unfold keys. induction kv as [|[a v] kv IH]; cbn; [tauto|].
  unfold keepk at 1. cbn. destruct (keep_key a) eqn:E; cbn; [|exact IH].
  intros [H|H]; [|tauto]. subst a. vm_compute in E. discriminate.
Qed.
(* the pop of the hook after the encoder filter = the final filter *)
Lemma pops_after_filter (l : list (str * obj)) :
  remove_key K_fmtcomment (filter keepk l) = filter keepo l.
Proof.
  unfold remove_key. induction l as [|[a v] l IH]; [reflexivity|].
  cbn [filter]. unfold keepk at 1, keepo at 1, keep_final. cbn [fst].
  destruct (keep_key a); cbn [andb filter fst]; [|exact IH].
  destruct (str_eqb a K_fmtcomment); cbn [negb andb filter fst]; [exact IH|]. f_equal. exact IH.
Qed.

(* strip and pub keep the head constructor and the location coordinates *)
Lemma is_dict_strip v : is_dict (strip v) = is_dict v.
Proof. destruct v; reflexivity. Qed.
Lemma is_loc_strip v : is_loc (strip v) = is_loc v.
Proof. destruct v; reflexivity. Qed.
Lemma is_seq_strip v : is_seq (strip v) = is_seq v.
Proof. destruct v; reflexivity. Qed.
Lemma loc_strand_strip v : loc_strand (strip v) = loc_strand v.
Proof. destruct v; reflexivity. Qed.
Lemma loc_start_strip v : loc_start (strip v) = loc_start v.
Proof. destruct v; reflexivity. Qed.
Lemma loc_stop_strip v : loc_stop (strip v) = loc_stop v.
Proof. destruct v; reflexivity. Qed.

Lemma conv_val_id v : is_dict v = false -> conv_val v = v.
Proof. destruct v; cbn; intros H; try reflexivity; discriminate. Qed.
Lemma conv_kv_id kv : forallb (fun p => negb (is_dict (snd p))) kv = true -> conv_kv kv = kv.
Proof.
  unfold conv_kv. induction kv as [|[k v] kv IH]; cbn; intros H; [reflexivity|].
  apply andb_prop in H. destruct H as [H1 H2]. rewrite (IH H2).
  rewrite conv_val_id; [reflexivity|]. destruct (is_dict v); [discriminate|reflexivity].
Qed.
Lemma nodict_strip_kv kv :
  forallb (fun p => negb (is_dict (snd p))) kv = true -> forallb (fun p => negb (is_dict (snd p))) (strip_kv kv) = true.
Proof.
  unfold strip_kv. induction kv as [|[k v] kv IH]; cbn; intros H; [reflexivity|].
  apply andb_prop in H. destruct H as [H1 H2].
  destruct (keepo (k, strip v)); cbn; [|auto]. rewrite is_dict_strip, H1. cbn. auto.
Qed.

(* membership facts extracted from ok_attr_shape *)
Lemma forallb_keys_not k (ok : str -> bool) {A} (kv : list (str * A)) :
  forallb ok (keys kv) = true -> ok k = false -> has_key k kv = false.
Proof.
  intros H Hk. apply has_key_false_iff. intros C. rewrite forallb_forall in H. specialize (H _ C). congruence.
Qed.
Lemma shape_nodict kv : ok_attr_shape kv = true -> forallb (fun p => negb (is_dict (snd p))) kv = true.
Proof. unfold ok_attr_shape. intros H. apply andb_prop in H. tauto. Qed.

(* ---- the recursive steps ------------------------------------------------------------------------------------------------ *)
Definition RT (o : obj) : Prop := wf o = true -> dec (enc o) = Ok (strip o).

Lemma rt_list l : Forall RT l -> forallb wf l = true -> mapM dec (map enc l) = Ok (map strip l).
Proof.
  induction 1 as [|x l Hx Hl IH]; cbn [map forallb]; intros H; [reflexivity|].
  apply andb_prop in H. destruct H as [H1 H2].
  rewrite mapM_cons, (Hx H1), bind_ok, (IH H2). reflexivity.
Qed.
Lemma rt_kv kv : Pkv RT kv -> forallb (fun p => wf (snd p)) kv = true -> mapMkv dec (map encp kv) = Ok (map stripp kv).
Proof.
  induction 1 as [|[k v] kv Hx Hl IH]; cbn [map forallb]; intros H; [reflexivity|].
  apply andb_prop in H. destruct H as [H1 H2]. cbn [encp stripp snd] in *.
  rewrite mapMkv_cons, (Hx H1), bind_ok, (IH H2). reflexivity.
Qed.
Lemma rt_kv_filter kv :
  Pkv RT kv -> forallb (fun p => wf (snd p)) kv = true ->
  mapMkv dec (filter keepj (map encp kv)) = Ok (filter keepk (map stripp kv)).
Proof.
  induction 1 as [|[k v] kv Hx Hl IH]; cbn [map forallb filter]; intros H; [reflexivity|].
  apply andb_prop in H. destruct H as [H1 H2]. cbn [encp stripp snd] in *.
  unfold keepj at 1, keepk at 1. cbn [fst].
  destruct (keep_key k).
  - rewrite mapMkv_cons, (Hx H1), bind_ok, (IH H2). reflexivity.
  - exact (IH H2).
Qed.

Lemma construct_attr c d : construct (cls_name c) d = mk_attr c d.
Proof. destruct c; reflexivity. Qed.

(* an Attr/Meta mapping goes through encoder, text layer and hook *)
Lemma rt_attr c kv :
  Pkv RT kv -> ok_attr_shape kv = true -> forallb (fun p => wf (snd p)) kv = true ->
  dec (enc_attr_j c (map encp kv)) = Ok (OAttr c (strip_kv kv)).
Proof.
  intros IH Hs Hw. unfold enc_attr_j. rewrite dec_obj.
  rewrite (mapMkv_app dec _ (filter keepk (map stripp kv)) [jcls (cls_name c)] [(K_cls, OStr (cls_name c))]);
    [|apply rt_kv_filter; assumption|reflexivity].
  rewrite bind_ok. unfold hook.
  rewrite lookup_app_last by apply keepk_filter_no_cls.
  rewrite remove_key_app_last by apply keepk_filter_no_cls.
  replace (truthy (OStr (cls_name c))) with true by (destruct c; reflexivity).
  rewrite pops_after_filter. fold (strip_kv kv).
  rewrite construct_attr. unfold mk_attr.
  rewrite conv_kv_id by (apply nodict_strip_kv, shape_nodict, Hs). reflexivity.
Qed.

Lemma forallb_map' {A B} (f : B -> bool) (g : A -> B) l : forallb f (map g l) = forallb (fun x => f (g x)) l.
Proof. induction l as [|x l IH]; cbn [map forallb]; [reflexivity|]. rewrite IH. reflexivity. Qed.
Lemma forallb_ext' {A} (f g : A -> bool) l : (forall x, f x = g x) -> forallb f l = forallb g l.
Proof. intros H. induction l as [|x l IH]; cbn [forallb]; [reflexivity|]. rewrite H, IH. reflexivity. Qed.

(* ---- stable sort of an ordered tuple is the identity ----------------------------------------------------------------- *)
Lemma sort_sorted lt l : sorted_by lt l = true -> sort_by lt l = l.
Proof.
  unfold sort_by. induction l as [|x l IH]; [reflexivity|].
  cbn [sorted_by fold_right]. intros H. apply andb_prop in H. destruct H as [H1 H2].
  rewrite (IH H2). destruct l as [|y r]; [reflexivity|]. cbn [insert_by].
  destruct (lt y x); [discriminate|reflexivity].
Qed.
Lemma sorted_map_strip lt l :
  (forall x y, lt (strip y) (strip x) = lt y x) -> sorted_by lt (map strip l) = sorted_by lt l.
Proof.
  intros Hlt. induction l as [|x l IH]; [reflexivity|].
  cbn [map sorted_by]. rewrite IH. destruct l as [|y r]; [reflexivity|]. cbn [map]. rewrite Hlt. reflexivity.
Qed.
Lemma loc_order_strip l : loc_order (map strip l) = loc_order l.
Proof. destruct l as [|x l]; [reflexivity|]. cbn [map loc_order]. rewrite loc_strand_strip. reflexivity. Qed.
Lemma loc_order_compat l x y : loc_order l (strip y) (strip x) = loc_order l y x.
Proof.
  unfold loc_order. destruct l as [|z l].
  - unfold lt_start. rewrite !loc_start_strip. reflexivity.
  - destruct (str_eqb (loc_strand z) S_minus); unfold gt_stop, lt_start;
      rewrite ?loc_start_strip, ?loc_stop_strip; reflexivity.
Qed.
Lemma same_strands_strip l : same_strands (map strip l) = same_strands l.
Proof.
  destruct l as [|x l]; [reflexivity|]. cbn [map same_strands]. rewrite forallb_map'.
  apply forallb_ext'. intros y. rewrite !loc_strand_strip. reflexivity.
Qed.
Lemma forallb_map_strip (f : obj -> bool) l : (forall v, f (strip v) = f v) -> forallb f (map strip l) = forallb f l.
Proof. intros H. rewrite forallb_map'. apply forallb_ext'. exact H. Qed.
Lemma coerce_locs_id l : forallb is_loc l = true -> mapM coerce_loc l = Ok l.
Proof.
  induction l as [|x l IH]; cbn [forallb]; intros H; [reflexivity|].
  apply andb_prop in H. destruct H as [H1 H2]. rewrite mapM_cons, (IH H2).
  destruct x; try discriminate. reflexivity.
Qed.
Lemma location_tuple_strip locs :
  locs <> [] -> forallb is_loc locs = true -> same_strands locs = true -> sorted_by (loc_order locs) locs = true ->
  location_tuple (map strip locs) = Ok (map strip locs).
Proof.
  intros Hne Hl Hs Ho. unfold location_tuple.
  destruct (map strip locs) eqn:E; [destruct locs; [congruence|discriminate]|]. rewrite <- E.
  rewrite coerce_locs_id by (rewrite (forallb_map_strip is_loc _ is_loc_strip); exact Hl).
  rewrite bind_ok, same_strands_strip, Hs. cbn [negb].
  rewrite sort_sorted; [reflexivity|].
  rewrite loc_order_strip, sorted_map_strip; [exact Ho|]. intros x y. apply loc_order_compat.
Qed.

(* ---- the hook on the fixed shapes the encoder writes ---------------------------------------------------------------- *)
Lemma hook_loc_none a b s d :
  Z.ltb a b = true -> is_strand s = true ->
  hook [(K_start, OInt a); (K_stop, OInt b); (K_strand, OStr s); (K_defect, OInt d); (K_cls, OStr N_Location)]
  = Ok (OLoc a b s d None).
Proof.
  intros Hab Hs.
  change (hook [(K_start, OInt a); (K_stop, OInt b); (K_strand, OStr s); (K_defect, OInt d); (K_cls, OStr N_Location)])
    with (if Z.geb a b then Err E_Value
          else bind (if is_strand s then Ok s else Err E_Value) (fun s0 => Ok (OLoc a b s0 d None))).
  rewrite Z.geb_leb. replace (Z.leb b a) with false by (symmetry; apply Z.leb_gt; apply Z.ltb_lt; exact Hab).
  rewrite Hs. reflexivity.
Qed.
Lemma hook_loc_some a b s d m :
  Z.ltb a b = true -> is_strand s = true -> conv_kv m = m ->
  hook [(K_start, OInt a); (K_stop, OInt b); (K_strand, OStr s); (K_defect, OInt d); (K_meta, OAttr CMeta m);
        (K_cls, OStr N_Location)]
  = Ok (OLoc a b s d (Some m)).
Proof.
  intros Hab Hs Hm.
  change (hook [(K_start, OInt a); (K_stop, OInt b); (K_strand, OStr s); (K_defect, OInt d); (K_meta, OAttr CMeta m);
                (K_cls, OStr N_Location)])
    with (if Z.geb a b then Err E_Value
          else bind (if is_strand s then Ok s else Err E_Value) (fun s0 => Ok (OLoc a b s0 d (Some (conv_kv m))))).
  rewrite Z.geb_leb. replace (Z.leb b a) with false by (symmetry; apply Z.leb_gt; apply Z.ltb_lt; exact Hab).
  rewrite Hs, Hm. reflexivity.
Qed.
Lemma hook_feat m locs :
  conv_kv m = m ->
  hook [(K_meta, OAttr CMeta m); (K_locs, OList locs); (K_cls, OStr N_Feature)]
  = bind (location_tuple locs) (fun ls => Ok (OFeat m ls)).
Proof.
  intros Hm.
  change (hook [(K_meta, OAttr CMeta m); (K_locs, OList locs); (K_cls, OStr N_Feature)])
    with (bind (location_tuple locs) (fun ls => Ok (OFeat (conv_kv m) ls))).
  rewrite Hm. reflexivity.
Qed.
Lemma hook_fts data : hook [(K_data, OList data); (K_cls, OStr N_FeatureList)] = Ok (OFts data).
Proof. reflexivity. Qed.
Lemma hook_seq d m t :
  conv_kv m = m -> has_key K_id m = true -> (str_eqb t N_nt || str_eqb t N_aa) = true ->
  hook [(K_data, OStr d); (K_meta, OAttr CMeta m); (K_type, OStr t); (K_cls, OStr N_BioSeq)] = Ok (OSeq (upper d) m t).
Proof.
  intros Hm Hid Ht.
  change (hook [(K_data, OStr d); (K_meta, OAttr CMeta m); (K_type, OStr t); (K_cls, OStr N_BioSeq)])
    with (let m' := if false || negb (has_key K_id (conv_kv m)) then set_key K_id (OStr []) (conv_kv m) else conv_kv m in
          if str_eqb t N_nt || str_eqb t N_aa then Ok (OSeq (upper d) m' t) else Err E_Assert).
  cbv zeta. rewrite Hm, Hid, Ht. reflexivity.
Qed.
Lemma hook_basket data m :
  conv_kv m = m -> existsb eq_meta_word data = false ->
  hook [(K_data, OList data); (K_meta, OAttr CMeta m); (K_cls, OStr N_BioBasket)] = Ok (OBasket data m).
Proof.
  intros Hm He.
  change (hook [(K_data, OList data); (K_meta, OAttr CMeta m); (K_cls, OStr N_BioBasket)])
    with (if existsb eq_meta_word data then Err E_Type else Ok (OBasket data (conv_kv m))).
  rewrite He, Hm. reflexivity.
Qed.
(* the top-level object carries the comment entry first; the hook pops it *)
Lemma hook_basket_top c data m :
  hook [(K_fmtcomment, c); (K_data, OList data); (K_meta, OAttr CMeta m); (K_cls, OStr N_BioBasket)]
  = hook [(K_data, OList data); (K_meta, OAttr CMeta m); (K_cls, OStr N_BioBasket)].
Proof. reflexivity. Qed.

(* ---- unfolding equations (all by computation) ---------------------------------------------------------------------------- *)
Lemma enc_list l : enc (OList l) = JArr (map enc l). Proof. reflexivity. Qed.
Lemma enc_dict kv : enc (ODict kv) = JObj (map encp kv). Proof. reflexivity. Qed.
Lemma enc_attr c kv : enc (OAttr c kv) = enc_attr_j c (map encp kv). Proof. reflexivity. Qed.
Lemma enc_loc a b s d m : enc (OLoc a b s d m) =
  JObj ([(K_start, JInt a); (K_stop, JInt b); (K_strand, JStr s); (K_defect, JInt d)]
        ++ match m with None => [] | Some kv => [(K_meta, enc_attr_j CMeta (map encp kv))] end ++ [jcls N_Location]).
Proof. destruct m; reflexivity. Qed.
Lemma enc_feat m locs : enc (OFeat m locs) =
  JObj [(K_meta, enc_attr_j CMeta (map encp m)); (K_locs, JArr (map enc locs)); jcls N_Feature].
Proof. reflexivity. Qed.
Lemma enc_fts data : enc (OFts data) = JObj [(K_data, JArr (map enc data)); jcls N_FeatureList]. Proof. reflexivity. Qed.
Lemma enc_seq d m t : enc (OSeq d m t) =
  JObj [(K_data, JStr d); (K_meta, enc_attr_j CMeta (map encp m)); (K_type, JStr t); jcls N_BioSeq].
Proof. reflexivity. Qed.
Lemma enc_basket data m : enc (OBasket data m) =
  JObj [(K_data, JArr (map enc data)); (K_meta, enc_attr_j CMeta (map encp m)); jcls N_BioBasket].
Proof. reflexivity. Qed.

Lemma strip_list l : strip (OList l) = OList (map strip l). Proof. reflexivity. Qed.
Lemma strip_dict kv : strip (ODict kv) = ODict (map stripp kv). Proof. reflexivity. Qed.
Lemma strip_attr c kv : strip (OAttr c kv) = OAttr c (strip_kv kv). Proof. reflexivity. Qed.
Lemma strip_loc a b s d m : strip (OLoc a b s d m) = OLoc a b s d (option_map strip_kv m). Proof. destruct m; reflexivity. Qed.
Lemma strip_feat m locs : strip (OFeat m locs) = OFeat (strip_kv m) (map strip locs). Proof. reflexivity. Qed.
Lemma strip_fts data : strip (OFts data) = OFts (map strip data). Proof. reflexivity. Qed.
Lemma strip_seq d m t : strip (OSeq d m t) = OSeq d (strip_kv m) t. Proof. reflexivity. Qed.
Lemma strip_basket data m : strip (OBasket data m) = OBasket (map strip data) (strip_kv m). Proof. reflexivity. Qed.

Definition wfkv (kv : list (str * obj)) : bool := forallb (fun p => wf (snd p)) kv.
Lemma wf_list l : wf (OList l) = forallb wf l. Proof. reflexivity. Qed.
Lemma wf_dict kv : wf (ODict kv) = nodup_keys (keys kv) && negb (has_key K_cls kv) && wfkv kv. Proof. reflexivity. Qed.
Lemma wf_attr c kv : wf (OAttr c kv) = ok_attr_shape kv && wfkv kv. Proof. reflexivity. Qed.
Lemma wf_loc a b s d m : wf (OLoc a b s d m) =
  Z.ltb a b && is_strand s && Z.leb 0 d && Z.ltb d 256
  && match m with None => true | Some kv => ok_attr_shape kv && wfkv kv end.
Proof. destruct m; reflexivity. Qed.
Lemma wf_feat m locs : wf (OFeat m locs) =
  ok_attr_shape m && wfkv m && match locs with [] => false | _ => true end
  && forallb is_loc locs && same_strands locs && sorted_by (loc_order locs) locs && forallb wf locs.
Proof. reflexivity. Qed.
Lemma wf_fts data : wf (OFts data) = forallb wf data. Proof. reflexivity. Qed.
Lemma wf_seq d m t : wf (OSeq d m t) =
  forallb no_lower_ascii d && (str_eqb t N_nt || str_eqb t N_aa) && has_key K_id m && ok_attr_shape m && wfkv m.
Proof. reflexivity. Qed.
Lemma wf_basket data m : wf (OBasket data m) = forallb is_seq data && forallb wf data && ok_attr_shape m && wfkv m.
Proof. reflexivity. Qed.

Lemma upper1_id c : no_lower_ascii c = true -> upper1 c = c.
Proof. intros H. destruct c; vm_compute in H |- *; congruence. Qed.
Lemma upper_id d : forallb no_lower_ascii d = true -> upper d = d.
Proof.
  unfold upper. induction d as [|c d IH]; cbn [forallb map]; intros H; [reflexivity|].
  apply andb_prop in H. destruct H as [H1 H2]. rewrite (upper1_id _ H1), (IH H2). reflexivity.
Qed.
Lemma no_meta_word data :
  forallb is_seq data = true -> forallb wf data = true -> existsb eq_meta_word (map strip data) = false.
Proof.
  induction data as [|x data IH]; cbn [forallb map existsb]; intros H1 H2; [reflexivity|].
  apply andb_prop in H1. destruct H1 as [Hx H1]. apply andb_prop in H2. destruct H2 as [Wx H2].
  rewrite (IH H1 H2), orb_false_r.
  destruct x; try discriminate. rewrite strip_seq. cbn [eq_meta_word].
  rewrite wf_seq in Wx. repeat (apply andb_prop in Wx; destruct Wx as [Wx ?]).
  destruct (str_eqb data0 K_meta) eqn:E; [|reflexivity].
  apply str_eqb_eq in E. subst data0. vm_compute in Wx. discriminate.
Qed.
Lemma keep_final_id : keep_final K_id = true.
Proof. reflexivity. Qed.
Lemma conv_strip_kv m : ok_attr_shape m = true -> conv_kv (strip_kv m) = strip_kv m.
Proof. intros H. apply conv_kv_id, nodict_strip_kv, shape_nodict, H. Qed.

(* ---- main theorem: dec inverts enc up to strip ------------------------------------------------------------------------ *)
Local Opaque ok_attr_shape.
Theorem roundtrip_obj : forall o, wf o = true -> dec (enc o) = Ok (strip o).
Proof.
  apply (obj_ind' RT); unfold RT; try (intros; reflexivity).
  - (* list *) intros l IH H. rewrite wf_list in H. rewrite enc_list, strip_list, dec_arr, (rt_list l IH H). reflexivity.
  - (* plain dict *) intros kv IH H. rewrite wf_dict in H.
    apply andb_prop in H. destruct H as [H Hw]. apply andb_prop in H. destruct H as [Hn Hc].
    rewrite enc_dict, strip_dict, dec_obj, (rt_kv kv IH Hw), bind_ok. unfold hook.
    replace (lookup K_cls (map stripp kv)) with (@None obj); [reflexivity|].
    symmetry. destruct (has_key K_cls kv) eqn:E; [discriminate|].
    clear - E. unfold has_key in E. induction kv as [|[a v] kv IH]; [reflexivity|].
    cbn [existsb fst] in E. apply orb_false_iff in E. destruct E as [E1 E2].
    cbn [map stripp lookup]. rewrite E1. auto.
  - (* Attr / Meta *) intros c kv IH H. rewrite wf_attr in H. apply andb_prop in H. destruct H as [Hs Hw].
    rewrite enc_attr, strip_attr. apply rt_attr; assumption.
  - (* Location *) intros a b s d m IH H. rewrite wf_loc in H.
    apply andb_prop in H. destruct H as [H Hm]. repeat (apply andb_prop in H; destruct H as [H ?]).
    rewrite enc_loc, strip_loc, dec_obj. destruct m as [kv|].
    + apply andb_prop in Hm. destruct Hm as [Hs Hw].
      cbn [app]. unfold jcls. rewrite !mapMkv_cons, mapMkv_nil.
      rewrite (rt_attr CMeta kv IH Hs Hw). cbn [dec bind option_map].
      apply hook_loc_some; [assumption|assumption|apply conv_strip_kv, Hs].
    + cbn [app]. unfold jcls. rewrite !mapMkv_cons, mapMkv_nil. cbn [dec bind option_map].
      apply hook_loc_none; assumption.
  - (* Feature *) intros m locs IHm IHl H. rewrite wf_feat in H.
    repeat (apply andb_prop in H; destruct H as [H ?]).
    rewrite enc_feat, strip_feat, dec_obj. unfold jcls. rewrite !mapMkv_cons, mapMkv_nil.
    rewrite (rt_attr CMeta m IHm) by assumption. rewrite dec_arr, (rt_list locs IHl) by assumption.
    cbn [dec bind]. rewrite hook_feat by (apply conv_strip_kv; assumption).
    rewrite location_tuple_strip; try assumption; [reflexivity|]. destruct locs; [discriminate|congruence].
  - (* FeatureList *) intros data IH H. rewrite wf_fts in H.
    rewrite enc_fts, strip_fts, dec_obj. unfold jcls. rewrite !mapMkv_cons, mapMkv_nil.
    rewrite dec_arr, (rt_list data IH H). cbn [dec bind]. apply hook_fts.
  - (* BioSeq *) intros d m t IH H. rewrite wf_seq in H.
    repeat (apply andb_prop in H; destruct H as [H ?]).
    rewrite enc_seq, strip_seq, dec_obj. unfold jcls. rewrite !mapMkv_cons, mapMkv_nil.
    rewrite (rt_attr CMeta m IH) by assumption. cbn [dec bind].
    rewrite hook_seq; [rewrite upper_id by assumption; reflexivity|apply conv_strip_kv; assumption| |assumption].
    apply has_key_strip_kv_true; [reflexivity|assumption].
  - (* BioBasket *) intros data m IHd IHm H. rewrite wf_basket in H.
    repeat (apply andb_prop in H; destruct H as [H ?]).
    rewrite enc_basket, strip_basket, dec_obj. unfold jcls. rewrite !mapMkv_cons, mapMkv_nil.
    rewrite dec_arr, (rt_list data IHd) by assumption. rewrite (rt_attr CMeta m IHm) by assumption. cbn [dec bind].
    apply hook_basket; [apply conv_strip_kv; assumption|apply no_meta_word; assumption].
Qed.

Lemma all_RT_list (l : list obj) : Forall RT l.
Proof. apply Forall_forall. intros x _. exact (roundtrip_obj x). Qed.
Lemma all_RT_kv (kv : list (str * obj)) : Pkv RT kv.
Proof. apply Forall_forall. intros x _. exact (roundtrip_obj (snd x)). Qed.

(* BioBasket.write(fmt='sjson') then read_sjson: the comment entry written first is popped by the hook *)
Theorem roundtrip_basket : forall b, wf_C14 b = true -> read_sjson (write_sjson b) = Ok (strip b).
Proof.
  intros b H. unfold wf_C14 in H. apply andb_prop in H. destruct H as [Hb H].
  destruct b; try discriminate. clear Hb. rewrite wf_basket in H.
  repeat (apply andb_prop in H; destruct H as [H ?]).
  unfold read_sjson, write_sjson. rewrite enc_basket, strip_basket, dec_obj. unfold jcls.
  rewrite !mapMkv_cons, mapMkv_nil.
  rewrite dec_arr, (rt_list data (all_RT_list data)) by assumption.
  rewrite (rt_attr CMeta meta (all_RT_kv meta)) by assumption. cbn [dec bind].
  rewrite hook_basket_top. apply hook_basket; [apply conv_strip_kv; assumption|apply no_meta_word; assumption].
Qed.
Local Transparent ok_attr_shape.

(* ---- only '_'-prefixed keys are dropped ------------------------------------------------------------------------------ *)
Lemma dropped_is_private k : keep_final k = false -> starts_us k = true.
Proof.
  unfold keep_final, keep_key. intros H. destruct (starts_us k) eqn:E; [reflexivity|].
  cbn [negb orb andb] in H. destruct (str_eqb k K_fmtcomment) eqn:F; [|discriminate].
  apply str_eqb_eq in F. subst k. discriminate.
Qed.
Definition PS (o : obj) : Prop := wf o = true -> pub (strip o) = pub o.
Lemma ps_list l : Forall PS l -> forallb wf l = true -> map pub (map strip l) = map pub l.
Proof.
  induction 1 as [|x l Hx Hl IH]; cbn [map forallb]; intros H; [reflexivity|].
  apply andb_prop in H. destruct H as [H1 H2]. rewrite (Hx H1), (IH H2). reflexivity.
Qed.
Lemma ps_kv_plain kv : Pkv PS kv -> wfkv kv = true -> map pubp (map stripp kv) = map pubp kv.
Proof.
  unfold wfkv. induction 1 as [|[k v] kv Hx Hl IH]; cbn [map forallb]; intros H; [reflexivity|].
  apply andb_prop in H. destruct H as [H1 H2]. cbn [snd stripp pubp] in *. rewrite (Hx H1), (IH H2). reflexivity.
Qed.
Lemma ps_kv kv : Pkv PS kv -> wfkv kv = true -> pub_kv (strip_kv kv) = pub_kv kv.
Proof.
  unfold wfkv, pub_kv, strip_kv.
  induction 1 as [|[k v] kv Hx Hl IH]; cbn [map forallb filter]; intros H; [reflexivity|].
  apply andb_prop in H. destruct H as [H1 H2].
  cbn [snd fst stripp pubp] in *. unfold keepo at 1, pubo at 2. cbn [fst].
  destruct (keep_final k) eqn:K.
  - cbn [map filter pubp]. unfold pubo at 1. cbn [fst]. rewrite (Hx H1), (IH H2). reflexivity.
  - rewrite (dropped_is_private k K). cbn [negb]. exact (IH H2).
Qed.
Lemma pub_list l : pub (OList l) = OList (map pub l). Proof. reflexivity. Qed.
Lemma pub_dict kv : pub (ODict kv) = ODict (map pubp kv). Proof. reflexivity. Qed.
Lemma pub_attr c kv : pub (OAttr c kv) = OAttr c (pub_kv kv). Proof. reflexivity. Qed.
Lemma pub_loc a b s d m : pub (OLoc a b s d m) = OLoc a b s d (option_map pub_kv m). Proof. destruct m; reflexivity. Qed.
Lemma pub_feat m locs : pub (OFeat m locs) = OFeat (pub_kv m) (map pub locs). Proof. reflexivity. Qed.
Lemma pub_fts data : pub (OFts data) = OFts (map pub data). Proof. reflexivity. Qed.
Lemma pub_seq d m t : pub (OSeq d m t) = OSeq d (pub_kv m) t. Proof. reflexivity. Qed.
Lemma pub_basket data m : pub (OBasket data m) = OBasket (map pub data) (pub_kv m). Proof. reflexivity. Qed.

Local Opaque ok_attr_shape.
Theorem pub_strip : forall o, wf o = true -> pub (strip o) = pub o.
Proof.
  apply (obj_ind' PS); unfold PS; try (intros; reflexivity).
  - intros l IH H. rewrite wf_list in H. rewrite strip_list, !pub_list, (ps_list l IH H). reflexivity.
  - intros kv IH H. rewrite wf_dict in H. apply andb_prop in H. destruct H as [_ H].
    rewrite strip_dict, !pub_dict, (ps_kv_plain kv IH H). reflexivity.
  - intros c kv IH H. rewrite wf_attr in H. apply andb_prop in H. destruct H as [Hs Hw].
    rewrite strip_attr, !pub_attr, (ps_kv kv IH Hw). reflexivity.
  - intros a b s d m IH H. rewrite wf_loc in H. apply andb_prop in H. destruct H as [_ Hm].
    rewrite strip_loc, !pub_loc. destruct m as [kv|]; [|reflexivity].
    apply andb_prop in Hm. destruct Hm as [Hs Hw]. cbn [option_map].
    rewrite (ps_kv kv IH Hw). reflexivity.
  - intros m locs IHm IHl H. rewrite wf_feat in H. repeat (apply andb_prop in H; destruct H as [H ?]).
    rewrite strip_feat, !pub_feat, (ps_kv m IHm) by assumption.
    rewrite (ps_list locs IHl) by assumption. reflexivity.
  - intros data IH H. rewrite wf_fts in H. rewrite strip_fts, !pub_fts, (ps_list data IH H). reflexivity.
  - intros d m t IH H. rewrite wf_seq in H. repeat (apply andb_prop in H; destruct H as [H ?]).
    rewrite strip_seq, !pub_seq, (ps_kv m IH) by assumption. reflexivity.
  - intros data m IHd IHm H. rewrite wf_basket in H. repeat (apply andb_prop in H; destruct H as [H ?]).
    rewrite strip_basket, !pub_basket, (ps_kv m IHm) by assumption.
    rewrite (ps_list data IHd) by assumption. reflexivity.
Qed.
Local Transparent ok_attr_shape.

(* ---- the read glue adds only the private key _fmt ------------------------------------------------------------------------ *)
Lemma filter_pubo_cons k (y : obj) l :
  filter pubo ((k, y) :: l) = if negb (starts_us k) then (k, y) :: filter pubo l else filter pubo l.
Proof. reflexivity. Qed.
Lemma pub_kv_set_private k v m : starts_us k = true -> pub_kv (set_key k v m) = pub_kv m.
Proof.
  intros Hk. unfold set_key, pub_kv. destruct (has_key k m).
  - induction m as [|[a x] m IH]; [reflexivity|]. cbn [map fst]. destruct (str_eqb a k) eqn:E.
    + apply str_eqb_eq in E. subst a. cbn [pubp]. rewrite !filter_pubo_cons, Hk. cbn [negb]. exact IH.
    + cbn [pubp]. rewrite !filter_pubo_cons, IH. reflexivity.
  - rewrite map_app, filter_app. cbn [map pubp]. rewrite filter_pubo_cons, Hk. cbn [negb filter].
    apply app_nil_r.
Qed.
Lemma pub_add_fmt x : pub (add_fmt x) = pub x.
Proof. destruct x; try reflexivity. cbn [add_fmt]. rewrite !pub_seq, pub_kv_set_private; reflexivity. Qed.
Lemma map_pub_add_fmt l : map pub (map add_fmt l) = map pub l.
Proof. induction l as [|x l IH]; cbn [map]; [reflexivity|]. rewrite pub_add_fmt, IH. reflexivity. Qed.

(* write then sugar.read: exact result, and its public part is the public part of the input *)
Theorem write_read_exact : forall data m, wf_C14 (OBasket data m) = true ->
  write_read (OBasket data m) = Ok (OBasket (map add_fmt (map strip data)) (strip_kv m)).
Proof.
  intros data m H. unfold write_read. rewrite (roundtrip_basket _ H), bind_ok, strip_basket. unfold read_glue.
  unfold wf_C14 in H. cbn [is_basket andb] in H. rewrite wf_basket in H.
  apply andb_prop in H. destruct H as [H _]. apply andb_prop in H. destruct H as [H _]. apply andb_prop in H. destruct H as [H _].
  rewrite (forallb_map_strip is_seq _ is_seq_strip), H. reflexivity.
Qed.
Theorem write_read_public : forall b, wf_C14 b = true -> exists b', write_read b = Ok b' /\ pub b' = pub b.
Proof.
  intros b H. destruct b; try discriminate.
  eexists. split; [apply write_read_exact; exact H|].
  unfold wf_C14 in H. cbn [is_basket andb] in H. pose proof (pub_strip _ H) as P.
  rewrite strip_basket, !pub_basket in P. rewrite !pub_basket, map_pub_add_fmt. exact P.
Qed.

(* ---- class tags --------------------------------------------------------------------------------------------------------- *)
Theorem tags_injective : forall k1 k2, tag k1 = tag k2 -> k1 = k2.
Proof. intros [] []; intros H; try reflexivity; vm_compute in H; discriminate. Qed.
Theorem tags_are_sugar_classes : forall k, In (tag k) SJSON_CLASSES.
Proof. intros []; vm_compute; tauto. Qed.
Theorem tags_dispatch : forall k d, construct (tag k) d = constructor_of k d.
Proof. intros [] d; reflexivity. Qed.
Theorem enc_writes_tag : forall o k, kind_of o = Some k -> json_cls (enc o) = Some (JStr (tag k)).
Proof.
  intros o k H. destruct o; try discriminate.
  - assert (E : k = match c with CAttr => KAttr | CMeta => KMeta end) by (destruct c; cbn in H; congruence).
    subst k. rewrite enc_attr. unfold enc_attr_j, json_cls, jcls.
    rewrite lookup_app_last.
    + destruct c; reflexivity.
    + apply has_key_false_iff. unfold keys. induction (map encp kv) as [|[a v] l IH]; cbn [filter map]; [tauto|].
      unfold keepj at 1. cbn [fst]. destruct (keep_key a) eqn:E; [|exact IH].
      cbn [map fst]. intros [C|C]; [|tauto]. subst a. vm_compute in E. discriminate.
  - cbn in H. inversion H; subst. rewrite enc_loc. destruct meta; reflexivity.
  - cbn in H. inversion H; subst. reflexivity.
  - cbn in H. inversion H; subst. reflexivity.
  - cbn in H. inversion H; subst. reflexivity.
  - cbn in H. inversion H; subst. reflexivity.
Qed.

(* ---- what strip does, spelled out --------------------------------------------------------------------------------------- *)
Theorem strip_fields :
  (forall data m, strip (OBasket data m) = OBasket (map strip data) (strip_items m)) /\
  (forall d m t, strip (OSeq d m t) = OSeq d (strip_items m) t) /\
  (forall data, strip (OFts data) = OFts (map strip data)) /\
  (forall m locs, strip (OFeat m locs) = OFeat (strip_items m) (map strip locs)) /\
  (forall a b s d m, strip (OLoc a b s d m) = OLoc a b s d (option_map strip_items m)) /\
  (forall c kv, strip (OAttr c kv) = OAttr c (strip_items kv)) /\
  (forall kv, strip (ODict kv) = ODict (map (fun p => (fst p, strip (snd p))) kv)) /\
  (forall l, strip (OList l) = OList (map strip l)) /\
  (forall s, strip (OStr s) = OStr s) /\ (forall z, strip (OInt z) = OInt z) /\ (forall l, strip (OFloat l) = OFloat l) /\
  (forall b, strip (OBool b) = OBool b) /\ strip ONone = ONone.
Proof.
  repeat match goal with |- _ /\ _ => split end; try reflexivity.
  intros kv. rewrite strip_dict. f_equal. apply map_ext. intros [k v]. reflexivity.
Qed.
(* the items of a mapping after the round trip: same order, values stripped, a key is missing only if the filter rejects it *)
Theorem strip_items_spec : forall kv,
  strip_items kv = map (fun p => (fst p, strip (snd p))) (filter (fun p => keep_final (fst p)) kv).
Proof.
  intros kv. unfold strip_items. induction kv as [|[k v] kv IH]; [reflexivity|].
  cbn [map filter fst snd]. unfold keepo at 1. cbn [fst]. destruct (keep_final k); cbn [map fst snd]; rewrite IH; reflexivity.
Qed.
Theorem dropped_keys_private : forall k, keep_final k = false -> starts_us k = true.
Proof. exact dropped_is_private. Qed.

(* ---- a second round trip is the identity ---------------------------------------------------------------------------------- *)
Lemma filter_keepo_cons k (y : obj) l :
  filter keepo ((k, y) :: l) = if keep_final k then (k, y) :: filter keepo l else filter keepo l.
Proof. reflexivity. Qed.
Lemma filter_keepo_map_stripp l : filter keepo (map stripp l) = map stripp (filter keepo l).
Proof.
  induction l as [|[k v] l IH]; [reflexivity|]. cbn [map stripp]. rewrite !filter_keepo_cons.
  destruct (keep_final k); cbn [map stripp]; rewrite IH; reflexivity.
Qed.
Lemma filter_keepo_idem (l : list (str * obj)) : filter keepo (filter keepo l) = filter keepo l.
Proof.
  induction l as [|p l IH]; [reflexivity|]. cbn [filter]. destruct (keepo p) eqn:E; [|exact IH].
  cbn [filter]. rewrite E, IH. reflexivity.
Qed.
Definition SI (o : obj) : Prop := strip (strip o) = strip o.
Lemma si_list l : Forall SI l -> map strip (map strip l) = map strip l.
Proof. induction 1 as [|x l Hx Hl IH]; cbn [map]; [reflexivity|]. rewrite Hx, IH. reflexivity. Qed.
Lemma si_kv_plain kv : Pkv SI kv -> map stripp (map stripp kv) = map stripp kv.
Proof.
  induction 1 as [|[k v] kv Hx Hl IH]; cbn [map stripp]; [reflexivity|]. cbn [snd] in Hx. rewrite Hx, IH. reflexivity.
Qed.
Lemma si_kv kv : Pkv SI kv -> strip_kv (strip_kv kv) = strip_kv kv.
Proof.
  unfold strip_kv. induction 1 as [|[k v] kv Hx Hl IH]; [reflexivity|].
  cbn [map stripp]. rewrite filter_keepo_cons. destruct (keep_final k) eqn:K; [|exact IH].
  cbn [map stripp]. rewrite filter_keepo_cons, K. cbn [snd] in Hx. rewrite Hx, IH. reflexivity.
Qed.
Theorem strip_idem : forall o, strip (strip o) = strip o.
Proof.
  apply (obj_ind' SI); unfold SI; try (intros; reflexivity).
  - intros l IH. rewrite !strip_list, (si_list l IH). reflexivity.
  - intros kv IH. rewrite !strip_dict, (si_kv_plain kv IH). reflexivity.
  - intros c kv IH. rewrite !strip_attr, (si_kv kv IH). reflexivity.
  - intros a b s d m IH. rewrite !strip_loc. destruct m as [kv|]; [|reflexivity]. cbn [option_map]. rewrite (si_kv kv IH). reflexivity.
  - intros m locs IHm IHl. rewrite !strip_feat, (si_kv m IHm), (si_list locs IHl). reflexivity.
  - intros data IH. rewrite !strip_fts, (si_list data IH). reflexivity.
  - intros d m t IH. rewrite !strip_seq, (si_kv m IH). reflexivity.
  - intros data m IHd IHm. rewrite !strip_basket, (si_kv m IHm), (si_list data IHd). reflexivity.
Qed.

Lemma keys_strip_kv_incl kv k : In k (keys (strip_kv kv)) -> In k (keys kv).
Proof. apply keys_filter_map_incl, fst_stripp. Qed.
Lemma mem_str_In k l : mem_str k l = true <-> In k l.
Proof.
  unfold mem_str. rewrite existsb_exists. split.
  - intros [x [H1 H2]]. apply str_eqb_eq in H2. subst. exact H1.
  - intros H. exists k. split; [exact H|apply str_eqb_refl].
Qed.
Lemma keys_cons {A} k (v : A) l : keys ((k, v) :: l) = k :: keys l.
Proof. reflexivity. Qed.
Lemma nodup_strip_kv kv : nodup_keys (keys kv) = true -> nodup_keys (keys (strip_kv kv)) = true.
Proof.
  induction kv as [|[k v] kv IH]; [reflexivity|].
  rewrite keys_cons. cbn [nodup_keys]. intros H. apply andb_prop in H. destruct H as [H1 H2].
  unfold strip_kv. cbn [map stripp]. rewrite filter_keepo_cons. fold (strip_kv kv).
  destruct (keep_final k); [|exact (IH H2)].
  rewrite keys_cons. cbn [nodup_keys]. rewrite (IH H2), andb_true_r.
  destruct (mem_str k (keys (strip_kv kv))) eqn:E; [|reflexivity].
  apply mem_str_In in E. apply keys_strip_kv_incl in E. apply mem_str_In in E.
  rewrite E in H1. discriminate.
Qed.
Lemma forallb_keys_strip_kv f kv : forallb f (keys kv) = true -> forallb f (keys (strip_kv kv)) = true.
Proof.
  intros H. apply forallb_forall. intros k Hk. apply keys_strip_kv_incl in Hk.
  rewrite forallb_forall in H. exact (H k Hk).
Qed.
Local Transparent ok_attr_shape.
Lemma shape_strip_kv kv : ok_attr_shape kv = true -> ok_attr_shape (strip_kv kv) = true.
Proof.
  unfold ok_attr_shape. intros H. apply andb_prop in H. destruct H as [H H3]. apply andb_prop in H. destruct H as [H1 H2].
  rewrite (nodup_strip_kv _ H1), (forallb_keys_strip_kv _ _ H2), (nodict_strip_kv _ H3). reflexivity.
Qed.
Local Opaque ok_attr_shape.
Definition WS (o : obj) : Prop := wf o = true -> wf (strip o) = true.
Lemma ws_list l : Forall WS l -> forallb wf l = true -> forallb wf (map strip l) = true.
Proof.
  induction 1 as [|x l Hx Hl IH]; cbn [map forallb]; intros H; [reflexivity|].
  apply andb_prop in H. destruct H as [H1 H2]. rewrite (Hx H1), (IH H2). reflexivity.
Qed.
Lemma ws_kv_plain kv : Pkv WS kv -> wfkv kv = true -> wfkv (map stripp kv) = true.
Proof.
  unfold wfkv. induction 1 as [|[k v] kv Hx Hl IH]; cbn [map forallb stripp snd]; intros H; [reflexivity|].
  apply andb_prop in H. destruct H as [H1 H2]. cbn [snd] in Hx. rewrite (Hx H1), (IH H2). reflexivity.
Qed.
Lemma ws_kv kv : Pkv WS kv -> wfkv kv = true -> wfkv (strip_kv kv) = true.
Proof.
  unfold wfkv, strip_kv. induction 1 as [|[k v] kv Hx Hl IH]; cbn [map forallb stripp snd filter]; intros H; [reflexivity|].
  apply andb_prop in H. destruct H as [H1 H2]. cbn [snd] in Hx.
  destruct (keepo (k, strip v)); [|exact (IH H2)]. cbn [forallb snd]. rewrite (Hx H1), (IH H2). reflexivity.
Qed.
Lemma keys_map_stripp kv : keys (map stripp kv) = keys kv.
Proof. unfold keys. rewrite map_map. apply map_ext. intros [k v]. reflexivity. Qed.
Lemma has_key_map_stripp k kv : has_key k (map stripp kv) = has_key k kv.
Proof.
  unfold has_key. induction kv as [|[a v] kv IH]; [reflexivity|]. cbn [map existsb stripp fst]. rewrite IH. reflexivity.
Qed.
Theorem wf_strip : forall o, wf o = true -> wf (strip o) = true.
Proof.
  apply (obj_ind' WS); unfold WS; try (intros; assumption).
  - intros l IH H. rewrite wf_list in H. rewrite strip_list, wf_list. apply ws_list; assumption.
  - intros kv IH H. rewrite wf_dict in H. apply andb_prop in H. destruct H as [H Hw]. apply andb_prop in H. destruct H as [Hn Hc].
    rewrite strip_dict, wf_dict, keys_map_stripp, has_key_map_stripp, Hn, Hc, (ws_kv_plain kv IH Hw). reflexivity.
  - intros c kv IH H. rewrite wf_attr in H. apply andb_prop in H. destruct H as [Hs Hw].
    rewrite strip_attr, wf_attr, (shape_strip_kv _ Hs), (ws_kv kv IH Hw). reflexivity.
  - intros a b s d m IH H. rewrite wf_loc in H. apply andb_prop in H. destruct H as [H Hm].
    rewrite strip_loc, wf_loc, H. destruct m as [kv|]; [|reflexivity].
    apply andb_prop in Hm. destruct Hm as [Hs Hw]. cbn [option_map andb].
    rewrite (shape_strip_kv _ Hs), (ws_kv kv IH Hw). reflexivity.
  - intros m locs IHm IHl H. rewrite wf_feat in H. repeat (apply andb_prop in H; destruct H as [H ?]).
    rewrite strip_feat, wf_feat, (shape_strip_kv _ H), (ws_kv m IHm) by assumption.
    rewrite (forallb_map_strip is_loc _ is_loc_strip), same_strands_strip, loc_order_strip.
    rewrite sorted_map_strip by (intros x y; apply loc_order_compat).
    rewrite (ws_list locs IHl) by assumption.
    destruct locs; [discriminate|]. cbn [map]. cbn [map] in *.
    repeat match goal with E : _ = true |- _ => rewrite E; clear E end. reflexivity.
  - intros data IH H. rewrite wf_fts in H. rewrite strip_fts, wf_fts. apply ws_list; assumption.
  - intros d m t IH H. rewrite wf_seq in H. repeat (apply andb_prop in H; destruct H as [H ?]).
    rewrite strip_seq, wf_seq, H, (shape_strip_kv m) by assumption. rewrite (ws_kv m IH) by assumption.
    rewrite has_key_strip_kv_true by (try assumption; reflexivity).
    repeat match goal with E : _ = true |- _ => rewrite E; clear E end. reflexivity.
  - intros data m IHd IHm H. rewrite wf_basket in H. repeat (apply andb_prop in H; destruct H as [H ?]).
    rewrite strip_basket, wf_basket, (forallb_map_strip is_seq _ is_seq_strip), H, (shape_strip_kv m) by assumption.
    rewrite (ws_kv m IHm) by assumption. rewrite (ws_list data IHd) by assumption. reflexivity.
Qed.
Local Transparent ok_attr_shape.
(* what was read can be written and read again without any further change *)
Theorem second_roundtrip : forall o, wf o = true -> wf (strip o) = true /\ dec (enc (strip o)) = Ok (strip o).
Proof.
  intros o H. pose proof (wf_strip o H) as W. split; [exact W|].
  rewrite (roundtrip_obj _ W), strip_idem. reflexivity.
Qed.

(* ---- witnesses ------------------------------------------------------------------------------------------------------------------ *)
Definition w_loc1 : obj := OLoc 3 9 S_minus 3 (Some [(bs "k"%bs, OInt 1); (bs "_p"%bs, OBool true)]).
Definition w_loc2 : obj := OLoc 0 2 S_minus 128 None.
Definition w_feat : obj := OFeat [(K_type, OStr (bs "CDS"%bs)); (bs "name"%bs, OStr (bs "q"%bs))] [w_loc1; w_loc2].
Definition w_seq : obj :=
  OSeq (bs "ACGTACGTAC"%bs)
       [(bs "a"%bs, OAttr CAttr [(bs "b"%bs, OList [OInt 1; ODict [(bs "c"%bs, OFloat (bs "2.5"%bs)); (bs "_in_dict"%bs, ONone)]]);
                                 (bs "_"%bs, OInt 2); (bs "_gff"%bs, OInt 3)]);
        (K_id, OStr (bs "x"%bs)); (bs "fts"%bs, OFts [w_feat]); (bs "_private"%bs, OStr (bs "gone"%bs))]
       N_aa.
Definition w_basket : obj := OBasket [w_seq] [(bs "m"%bs, OAttr CMeta [])].
Lemma witness_ok :
  wf_C14 w_basket = true /\ read_sjson (write_sjson w_basket) = Ok (strip w_basket) /\ strip w_basket <> w_basket /\
  (exists b', write_read w_basket = Ok b' /\ pub b' = pub w_basket /\ pub w_basket <> w_basket).
Proof.
  split; [reflexivity|]. split; [vm_compute; reflexivity|]. split; [vm_compute; discriminate|].
  eexists. split; [vm_compute; reflexivity|]. split; [vm_compute; reflexivity|vm_compute; discriminate].
Qed.
(* fixed finding reserved_meta_keys (056e094): metadata may use the keys 'str' and 'self', also nested *)
Definition w_keys : obj :=
  OBasket [OSeq (bs "ACGT"%bs)
             [(K_id, OStr (bs "x"%bs)); (K_str, OInt 1); (bs "self"%bs, OInt 2);
              (bs "a"%bs, OAttr CAttr [(bs "self"%bs, OList [ODict [(K_str, ONone)]]); (K_str, OStr (bs "s"%bs))])] N_nt]
          [(K_str, OBool true)].
Lemma str_self_keys_kept :
  wf_C14 w_keys = true /\ strip w_keys = w_keys /\ read_sjson (write_sjson w_keys) = Ok w_keys /\
  exists b', write_read w_keys = Ok b' /\ pub b' = w_keys.
Proof.
  split; [reflexivity|]. split; [reflexivity|]. split; [vm_compute; reflexivity|].
  eexists. split; vm_compute; reflexivity.
Qed.

(* ids and the feature entries exposed as attributes are ordinary metadata values: any JSON scalar, in particular the falsy ones,
   comes back with its value and type (BioSeq.__init__ tests presence of 'id', not truthiness; seeded change C14-3) *)
Definition w_falsy : obj :=
  OBasket
    [OSeq (bs "ACGT"%bs) [(K_id, OInt 0)] N_nt;
     OSeq (bs "CCGT"%bs) [(K_id, ONone); (bs "score"%bs, OInt 0); (bs "flag"%bs, OBool false); (bs "tags"%bs, OList [])] N_nt;
     OSeq (bs "AC"%bs) [(K_id, OBool false)] N_aa;
     OSeq (bs "AC"%bs) [(K_id, OFloat (bs "0.0"%bs))] N_nt;
     OSeq [] [(K_id, OStr []);
              (bs "fts"%bs, OFts [OFeat [(K_type, OInt 0); (K_id, ONone); (bs "name"%bs, OBool false); (bs "seqid"%bs, OInt 0)]
                                       [OLoc 1 4 S_plus 0 (Some [(K_id, OInt 0)])]])] N_nt]
    [(K_id, OInt 0)].
Lemma falsy_ids_kept :
  wf_C14 w_falsy = true /\ strip w_falsy = w_falsy /\ read_sjson (write_sjson w_falsy) = Ok w_falsy /\
  exists b', write_read w_falsy = Ok b' /\ pub b' = w_falsy.
Proof.
  split; [reflexivity|]. split; [reflexivity|]. split; [vm_compute; reflexivity|].
  eexists. split; vm_compute; reflexivity.
Qed.
(* general form: whatever value the key 'id' carries, rebuilding the sequence leaves the metadata alone *)
Lemma seq_id_any_value d m t :
  conv_kv m = m -> has_key K_id m = true -> (str_eqb t N_nt || str_eqb t N_aa) = true ->
  construct_seq [(K_data, OStr d); (K_meta, OAttr CMeta m); (K_type, OStr t)] = Ok (OSeq (upper d) m t).
Proof. intros H1 H2 H3. rewrite <- (hook_seq d m t H1 H2 H3). reflexivity. Qed.

(* ---- the sniffer accepts what the writer writes --------------------------------------------------------------------------- *)
Lemma write_sjson_head data m : exists kv, write_sjson (OBasket data m) = JObj ((K_fmtcomment, JStr SJSON_COMMENT) :: kv).
Proof. unfold write_sjson. rewrite enc_basket. eexists. reflexivity. Qed.
Lemma is_sjson_head kv rest : is_sjson (text_head (JObj ((K_fmtcomment, JStr SJSON_COMMENT) :: kv)) ++ rest) = true.
Proof.
  assert (E : text_head (JObj ((K_fmtcomment, JStr SJSON_COMMENT) :: kv)) = text_head (JObj [(K_fmtcomment, JStr SJSON_COMMENT)]))
    by reflexivity.
  rewrite E. clear E. unfold is_sjson. rewrite firstn_app.
  replace (SJSON_SNIFF_READ - length (text_head (JObj [(K_fmtcomment, JStr SJSON_COMMENT)]))) with 0 by (vm_compute; reflexivity).
  cbn [firstn]. rewrite app_nil_r. vm_compute. reflexivity.
Qed.
Theorem written_text_is_detected : forall b rest, is_basket b = true ->
  (exists kv, write_sjson b = JObj ((K_fmtcomment, JStr SJSON_COMMENT) :: kv)) /\
  text_head (write_sjson b) <> [] /\ is_sjson (text_head (write_sjson b) ++ rest) = true.
Proof.
  intros b rest H. destruct b; try discriminate. destruct (write_sjson_head data meta) as [kv E].
  split; [exists kv; exact E|]. rewrite E. split; [|apply is_sjson_head].
  assert (E2 : text_head (JObj ((K_fmtcomment, JStr SJSON_COMMENT) :: kv)) = text_head (JObj [(K_fmtcomment, JStr SJSON_COMMENT)]))
    by reflexivity.
  rewrite E2. vm_compute. discriminate.
Qed.

(* ---- the observables named by the property, explicitly ---------------------------------------------------------------------- *)
Lemma lookup_strip_kv k m : keep_final k = true -> lookup k (strip_kv m) = option_map strip (lookup k m).
Proof.
  intros Hk. unfold strip_kv. induction m as [|[a v] m IH]; [reflexivity|].
  cbn [map stripp]. rewrite filter_keepo_cons. cbn [lookup]. destruct (str_eqb a k) eqn:E.
  - apply str_eqb_eq in E. subst a. rewrite Hk. cbn [lookup]. rewrite str_eqb_refl. reflexivity.
  - destruct (keep_final a); [cbn [lookup]; rewrite E|]; exact IH.
Qed.
Lemma loc_view_strip x : loc_view (strip x) = loc_view x.
Proof. destruct x; reflexivity. Qed.
Lemma feat_view_strip x : feat_view (strip x) = feat_view x.
Proof.
  destruct x; try reflexivity. rewrite strip_feat. cbn [feat_view]. rewrite map_map. apply map_ext. apply loc_view_strip.
Qed.
Lemma seq_view_strip x : seq_view (strip x) = seq_view x.
Proof.
  destruct x; try reflexivity. rewrite strip_seq. cbn [seq_view]. fold (strip_kv meta).
  rewrite lookup_strip_kv by reflexivity. destruct (lookup K_fts meta) as [v|]; [|reflexivity]. cbn [option_map].
  destruct v; try reflexivity. rewrite strip_fts. rewrite map_map. f_equal. apply map_ext. apply feat_view_strip.
Qed.
Lemma seq_view_add_fmt x : seq_view (add_fmt x) = seq_view x.
Proof.
  destruct x; try reflexivity. cbn [add_fmt seq_view]. f_equal. f_equal.
  assert (L : lookup K_fts (set_key K_fmt V_sjson meta) = lookup K_fts meta); [|rewrite L; reflexivity].
  unfold set_key. destruct (has_key K_fmt meta).
  - induction meta as [|[a v] m IH]; [reflexivity|]. cbn [map fst lookup]. destruct (str_eqb a K_fmt) eqn:E.
    + apply str_eqb_eq in E. subst a. cbn [lookup]. exact IH.
    + cbn [lookup]. destruct (str_eqb a K_fts); [reflexivity|exact IH].
  - induction meta as [|[a v] m IH]; [reflexivity|]. cbn [app lookup]. destruct (str_eqb a K_fts); [reflexivity|exact IH].
Qed.
Theorem view_preserved : forall b, wf_C14 b = true ->
  exists b', write_read b = Ok b' /\ basket_view b' = basket_view b.
Proof.
  intros b H. destruct b; try discriminate. eexists. split; [apply write_read_exact; exact H|].
  cbn [basket_view]. rewrite !map_map. apply map_ext. intros x. rewrite seq_view_add_fmt. apply seq_view_strip.
Qed.

(* ---- the hook on arbitrary JSON trees ------------------------------------------------------------------------------------- *)
Section json_induction.
  Variable P : json -> Prop.
  Hypothesis JN : P JNull.
  Hypothesis JB : forall b, P (JBool b).
  Hypothesis JI : forall z, P (JInt z).
  Hypothesis JF : forall l, P (JFloat l).
  Hypothesis JS : forall s, P (JStr s).
  Hypothesis JA : forall l, Forall P l -> P (JArr l).
  Hypothesis JO : forall kv, Forall (fun p => P (snd p)) kv -> P (JObj kv).
  Fixpoint json_ind' (j : json) : P j :=
    match j with
    | JNull => JN | JBool b => JB b | JInt z => JI z | JFloat l => JF l | JStr s => JS s
    | JArr l => JA l ((fix fl (l : list json) : Forall P l :=
                        match l with [] => Forall_nil _ | x :: r => Forall_cons x (json_ind' x) (fl r) end) l)
    | JObj kv => JO kv ((fix fkv (kv : list (str * json)) : Forall (fun p => P (snd p)) kv :=
                           match kv with [] => Forall_nil _ | (k, v) :: r => Forall_cons (k, v) (json_ind' v) (fkv r) end) kv)
    end.
End json_induction.

(* JSON that carries no `_cls` key anywhere is returned as the plain data it denotes: the hook never raises on it *)
Definition plainp (p : str * json) : str * obj := match p with (k, v) => (k, plain_of v) end.
Theorem dec_plain : forall j, no_cls j = true -> dec j = Ok (plain_of j).
Proof.
  apply (json_ind' (fun j => no_cls j = true -> dec j = Ok (plain_of j))); try (intros; reflexivity).
  - intros l IH H. cbn [no_cls] in H. rewrite dec_arr.
    assert (E : mapM dec l = Ok (map plain_of l)).
    { induction IH as [|x l Hx Hl IHl]; [reflexivity|]. cbn [forallb] in H. apply andb_prop in H. destruct H as [H1 H2].
      rewrite mapM_cons, (Hx H1), bind_ok, (IHl H2). reflexivity. }
    rewrite E. reflexivity.
  - intros kv IH H. cbn [no_cls] in H. apply andb_prop in H. destruct H as [Hc H]. rewrite dec_obj.
    assert (E : mapMkv dec kv = Ok (map plainp kv)).
    { clear Hc. induction IH as [|[k v] kv Hx Hl IHl]; [reflexivity|]. cbn [forallb snd] in H. apply andb_prop in H.
      destruct H as [H1 H2]. cbn [snd] in Hx. rewrite mapMkv_cons, (Hx H1), bind_ok, (IHl H2). reflexivity. }
    rewrite E, bind_ok. unfold hook.
    replace (lookup K_cls (map plainp kv)) with (@None obj); [reflexivity|].
    symmetry. destruct (has_key K_cls kv) eqn:E2; [discriminate|]. clear - E2. unfold has_key in E2.
    induction kv as [|[a v] kv IH]; [reflexivity|]. cbn [existsb fst] in E2. apply orb_false_iff in E2. destruct E2 as [E1 E2].
    cbn [map plainp lookup]. rewrite E1. auto.
Qed.

(* whatever the JSON tree, reading either succeeds or raises one of four exception classes *)
Definition DOC {A} (r : res A) : Prop := forall e, r = Err e -> documented_error e = true.
Lemma doc_ok {A} (a : A) : DOC (Ok a).
Proof. intros e H. discriminate. Qed.
Lemma doc_err {A} e : documented_error e = true -> DOC (@Err A e).
Proof. intros H e' E. inversion E; subst. exact H. Qed.
Lemma doc_bind {A B} (r : res A) (f : A -> res B) : DOC r -> (forall a, DOC (f a)) -> DOC (bind r f).
Proof. intros Hr Hf e H. destruct r as [a|e0]; cbn [bind] in H; [exact (Hf a e H)|]. inversion H; subst. apply (Hr e). reflexivity. Qed.
Lemma doc_if {A} (c : bool) (x y : res A) : DOC x -> DOC y -> DOC (if c then x else y).
Proof. destruct c; auto. Qed.
Ltac doc := repeat first [apply doc_ok | apply doc_err; reflexivity | apply doc_if | apply doc_bind; [|intros ?]].
Lemma as_meta_doc o : DOC (as_meta o).
Proof. destruct o; cbn [as_meta]; doc. destruct l; doc. Qed.
Local Opaque as_meta.
Lemma opt_meta_doc o : DOC (opt_meta o).
Proof. destruct o as [o|]; [|cbn; doc]. destruct o; try apply as_meta_doc; cbn; doc. Qed.
Local Opaque opt_meta.
Lemma construct_loc_doc d : DOC (construct_loc d).
Proof.
  unfold construct_loc. doc.
  destruct (lookup K_start d) as [[]|]; doc; destruct (lookup K_stop d) as [[]|]; doc.
  - destruct (lookup K_strand d) as [[]|]; doc.
  - destruct (lookup K_defect d) as [[]|]; doc.
  - destruct (lookup K_meta d) as [[]|]; doc; apply as_meta_doc.
Qed.
Local Opaque construct_loc.
Lemma loc_of_list_doc l : DOC (loc_of_list l).
Proof.
  unfold loc_of_list. destruct l as [|a [|b rest]]; doc.
  destruct rest as [|s [|dd [|m [|x r]]]]; doc; apply construct_loc_doc.
Qed.
Local Opaque loc_of_list.
Lemma coerce_loc_doc o : DOC (coerce_loc o).
Proof. destruct o; cbn [coerce_loc]; doc. destruct (loc_of_list l); doc. Qed.
Local Opaque coerce_loc.
Lemma mapM_doc {A B} (f : A -> res B) l : (forall x, DOC (f x)) -> DOC (mapM f l).
Proof. intros H. induction l as [|x l IH]; [apply doc_ok|]. rewrite mapM_cons. doc; [apply H|exact IH]. Qed.
Lemma location_tuple_doc l : DOC (location_tuple l).
Proof.
  unfold location_tuple. destruct l as [|x r]; [doc|].
  apply doc_bind; [apply mapM_doc; apply coerce_loc_doc|intros; doc].
Qed.
Local Opaque location_tuple.
Lemma construct_feat_doc d : DOC (construct_feat d).
Proof.
  unfold construct_feat. doc; [apply opt_meta_doc|].
  destruct (non_none (lookup K_start d)); destruct (non_none (lookup K_stop d));
    try (destruct (non_none (lookup K_locs d)); doc; apply construct_loc_doc).
  destruct (lookup K_locs d) as [[]|]; doc. apply location_tuple_doc.
Qed.
Local Opaque construct_feat.
Lemma construct_fts_doc d : DOC (construct_fts d).
Proof. unfold construct_fts. doc. destruct (lookup K_data d) as [[]|]; doc. Qed.
Local Opaque construct_fts.
Lemma construct_seq_doc d : DOC (construct_seq d).
Proof.
  unfold construct_seq. doc. destruct (lookup K_data d) as [[]|]; doc.
  - apply opt_meta_doc.
  - destruct (lookup K_type d) as [[]|]; doc.
  - apply as_meta_doc.
  - destruct (lookup K_type d) as [[]|]; doc.
Qed.
Local Opaque construct_seq.
Lemma construct_basket_doc d : DOC (construct_basket d).
Proof.
  unfold construct_basket. doc. destruct (lookup K_data d) as [[]|]; doc; try apply opt_meta_doc; apply as_meta_doc.
Qed.
Local Opaque construct_basket.
Lemma construct_doc n d : DOC (construct n d).
Proof.
  unfold construct, mk_attr. doc; first [apply construct_loc_doc | apply construct_feat_doc | apply construct_fts_doc
                                       | apply construct_seq_doc | apply construct_basket_doc].
Qed.
Local Opaque construct.
Lemma hook_doc d : DOC (hook d).
Proof.
  unfold hook. destruct (lookup K_cls d) as [c|]; doc. destruct c; doc; apply construct_doc.
Qed.
Local Opaque hook.
Lemma mapMkv_doc {A B} (f : A -> res B) l : Forall (fun p => DOC (f (snd p))) l -> DOC (mapMkv f l).
Proof.
  induction 1 as [|[k x] l Hx Hl IH]; [apply doc_ok|]. rewrite mapMkv_cons. doc; [exact Hx|exact IH].
Qed.
Lemma dec_doc_unused : True. Proof. exact I. Qed.
Theorem dec_errors_documented : forall j e, dec j = Err e -> documented_error e = true.
Proof.
  apply (json_ind' (fun j => DOC (dec j))); try (intros; apply doc_ok).
  - intros l IH. rewrite dec_arr. doc. induction IH as [|x l Hx Hl IHl]; [apply doc_ok|]. rewrite mapM_cons. doc; assumption.
  - intros kv IH. rewrite dec_obj. doc; [apply mapMkv_doc; exact IH|apply hook_doc].
Qed.
(* sugar.read on top: the only further exception class is AttributeError (an element of the basket without .meta) *)
Theorem read_errors_documented : forall viaread j e, read_any viaread j = Err e ->
  documented_error e = true \/ e = E_Attribute.
Proof.
  intros viaread j e H. unfold read_any in H. destruct viaread; [|left; eapply dec_errors_documented; exact H].
  destruct (dec _) as [o|e0] eqn:E; cbn [bind] in H.
  - unfold read_glue in H. destruct o; try (inversion H; subst; left; reflexivity).
    destruct (forallb is_seq data); inversion H. right. reflexivity.
  - inversion H; subst. left. eapply dec_errors_documented. exact E.
Qed.
