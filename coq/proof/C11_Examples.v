(* C11: computed non-vacuity witnesses for the whole-file theorems (the bundled example files of sugar) *)
From Coq Require Import List ZArith NArith Bool Lia.
From Coq.Strings Require Import Byte.
Import ListNotations.
From SV Require Import Text G_tab C11_Model C11_Lemmas C11_TextLemmas C11_FileLemmas.
Local Open Scope Z_scope.
(* ---------------- non-vacuity of the whole-file theorems: the bundled example files of sugar ---------------- *)
Definition hs_of (r : res (list hdr)) : list hdr := match r with Ok hs => hs | Err _ => [] end.
Definition ex_blast_hs : list hdr :=
  hs_of (match assoc (dialect_name Blast) DEFAULT_OUTFMT with Some n => headers_from false Blast n | None => Err eKey end).
Definition ex_mm_hs : list hdr :=
  hs_of (match assoc (dialect_name Mmseqs) DEFAULT_OUTFMT with Some n => headers_from false Mmseqs n | None => Err eKey end).
Definition ex_blast_pre : list str := [(bs "# BLASTN 2.15.0+"%bs); (bs "# Query: exon3-AMCR MDA-chr5-NC_081844.1 Myotis daubentonii chromosome 5, mMyoDau2.1, whole genome shotgun sequence"%bs); (bs "# Database: User specified sequence set (Input: NC_081844.1.fasta)"%bs)].
Definition ex_blast_mid : list str := [(bs "# 4 hits found"%bs)].
Definition ex_blast_post : list str := [(bs "# BLAST processed 1 queries"%bs)].
Definition ex_blast_rows : list (list str) := [[(bs "exon3-AMCR"%bs); (bs "NC_081844.1"%bs); (bs "100.000"%bs); (bs "1480"%bs); (bs "0"%bs); (bs "0"%bs); (bs "1"%bs); (bs "1480"%bs); (bs "39923568"%bs); (bs "39922089"%bs); (bs "0.0"%bs); (bs "2734"%bs)]; [(bs "exon3-AMCR"%bs); (bs "NC_081844.1"%bs); (bs "95.408"%bs); (bs "196"%bs); (bs "7"%bs); (bs "2"%bs); (bs "1262"%bs); (bs "1455"%bs); (bs "39891163"%bs); (bs "39891358"%bs); (bs "3.03e-83"%bs); (bs "311"%bs)]].
Definition ex_blast_hits : list hit :=
  [mkHit (bs "NC_081844.1"%bs) (bs "exon3-AMCR"%bs) 39923568 39922089 1 1480 (bs "0.0"%bs) (bs "2734"%bs);
   mkHit (bs "NC_081844.1"%bs) (bs "exon3-AMCR"%bs) 39891163 39891358 1262 1455 (bs "3.03e-83"%bs) (bs "311"%bs)].
Definition ex_mm_rows : list (list str) := [[(bs "exon3-AMCR"%bs); (bs "NC_081844.1"%bs); (bs "1.000"%bs); (bs "1480"%bs); (bs "0"%bs); (bs "0"%bs); (bs "1480"%bs); (bs "1"%bs); (bs "39922089"%bs); (bs "39923568"%bs); (bs "0.000E+00"%bs); (bs "2653"%bs)]; [(bs "exon3-AMCR"%bs); (bs "NC_081844.1"%bs); (bs "0.949"%bs); (bs "197"%bs); (bs "10"%bs); (bs "0"%bs); (bs "1261"%bs); (bs "1455"%bs); (bs "39891162"%bs); (bs "39891358"%bs); (bs "5.331E-82"%bs); (bs "307"%bs)]].
Definition ex_mm_hits : list hit :=
  [mkHit (bs "NC_081844.1"%bs) (bs "exon3-AMCR"%bs) 39922089 39923568 1480 1 (bs "0.000E+00"%bs) (bs "2653"%bs);
   mkHit (bs "NC_081844.1"%bs) (bs "exon3-AMCR"%bs) 39891162 39891358 1261 1455 (bs "5.331E-82"%bs) (bs "307"%bs)].
Definition ex_inf_pre : list str := [(bs "#target name         accession query name           accession mdl mdl from   mdl to seq from   seq to strand trunc pass   gc  bias  score   E-value inc description of target"%bs)].
Definition ex_inf_ruler : str := (bs "#------------------- --------- -------------------- --------- --- -------- -------- -------- -------- ------ ----- ---- ---- ----- ------ --------- --- ---------------------"%bs).
Definition ex_inf_post : list str := [(bs "#"%bs); (bs "# Program:         cmsearch"%bs); (bs "# Version:         1.1.5 (Sep 2023)"%bs); (bs "# Pipeline mode:   SEARCH"%bs); (bs "# Query file:      tRNA5.c.cm"%bs); (bs "# Target file:     mrum-genome.fa"%bs); (bs "# Option settings: cmsearch --tblout fts_example.infernal --fmt 1 tRNA5.c.cm mrum-genome.fa "%bs); (bs "# Date:            Tue Oct  1 01:17:02 2024"%bs); (bs "# [ok]"%bs)].
Definition ex_inf_row : wsrow := mkWsrow [] [((bs "NC_013790.1"%bs), (bs "          "%bs)); ((bs "-"%bs), (bs "         "%bs)); ((bs "tRNA5"%bs), (bs "                "%bs)); ((bs "-"%bs), (bs "          "%bs)); ((bs "cm"%bs), (bs "        "%bs)); ((bs "1"%bs), (bs "       "%bs)); ((bs "72"%bs), (bs "   "%bs)); ((bs "362026"%bs), (bs "   "%bs)); ((bs "361955"%bs), (bs "      "%bs)); ((bs "-"%bs), (bs "    "%bs)); ((bs "no"%bs), (bs "    "%bs)); ((bs "1"%bs), (bs " "%bs)); ((bs "0.50"%bs), (bs "   "%bs)); ((bs "0.0"%bs), (bs "   "%bs)); ((bs "71.4"%bs), (bs "   "%bs)); ((bs "1.4e-18"%bs), (bs " "%bs)); ((bs "!"%bs), (bs "   "%bs))] (bs "Methanobrevibacter ruminantium M1 chromosome, complete genome"%bs) [].
Definition ex_inf_hs : list hdr := hs_of (infernal_headers 18).
Definition ex_inf_hit : hit :=
  mkHit (bs "NC_013790.1"%bs) (bs "tRNA5"%bs) 362026 361955 1 72 (bs "1.4e-18"%bs) (bs "71.4"%bs).

Lemma witness_blast7 :
  ex_blast_hs <> [] /\ forallb long_ok (map hlong ex_blast_hs) = true /\
  headers_from true Blast (map hlong ex_blast_hs) = Ok ex_blast_hs /\
  forallb (skip_line Blast true true) ex_blast_pre = true /\ forallb (skip_line Blast true true) ex_blast_mid = true /\
  forallb (skip_line Blast true true) ex_blast_post = true /\ forallb (row_ok Blast x09) ex_blast_rows = true /\
  Forall2 (row_carries Blast ex_blast_hs) ex_blast_rows ex_blast_hits.
Proof.
  split; [vm_compute; discriminate|]. repeat (split; [vm_compute; reflexivity|]).
  apply Forall2_cons; [|apply Forall2_cons; [|apply Forall2_nil]]; vm_compute; repeat split; reflexivity.
Qed.
Lemma witness_mmseqs4 :
  names_ok x09 ex_mm_hs = true /\ headers_from false Mmseqs (map hname ex_mm_hs) = Ok ex_mm_hs /\
  forallb (row_ok Mmseqs x09) ex_mm_rows = true /\ Forall2 (row_carries Mmseqs ex_mm_hs) ex_mm_rows ex_mm_hits.
Proof.
  repeat (split; [vm_compute; reflexivity|]).
  apply Forall2_cons; [|apply Forall2_cons; [|apply Forall2_nil]]; vm_compute; repeat split; reflexivity.
Qed.
Lemma witness_infernal :
  ruler_ok 18 ex_inf_ruler = true /\ infernal_headers 18 = Ok ex_inf_hs /\
  forallb (skip_line Infernal true true) ex_inf_pre = true /\ forallb (skip_line Infernal true false) ex_inf_post = true /\
  wsrow_ok 18 ex_inf_row = true /\ Forall2 (row_carries Infernal ex_inf_hs) [wsrow_toks ex_inf_row] [ex_inf_hit] /\
  spec_strand ex_inf_hit = bs "-"%bs.
Proof.
  do 5 (split; [vm_compute; reflexivity|]). split; [|vm_compute; reflexivity].
  apply Forall2_cons; [|apply Forall2_nil]. vm_compute. repeat split; reflexivity.
Qed.
(* finite facts that make the hypotheses of the whole-file theorems satisfiable for every column subset / version *)
Lemma text_tables :
  forallb long_ok (map hlong HEADER_blast) = true /\
  nodup_str (map hlong HEADER_blast) = true /\
  forallb (fun n => match infernal_headers n with Ok hs => Nat.eqb (length hs) n && nodup_str (map hname hs) | Err _ => false end)
          [18; 29; 20; 27]%nat = true.
Proof. split; [vm_compute; reflexivity|]. split; vm_compute; reflexivity. Qed.
