(* C02 proofs, part 12: the harness writer (invented IDs canonicalised per feature) is the writer of the theorems on wf_C02 lists. *)
From Coq Require Import List ZArith NArith Bool Lia.
From Coq.Strings Require Import Byte.
Import ListNotations.
From SV Require Import Text G_gff C02_Model C02_Lemmas C02_Dict C02_Feat.

Lemma merged_r ft r : feat_ok ft = true -> merged_gff_r r ft = g0 ft.
Proof.
  intros W. unfold merged_gff_r. fold (g0 ft). destruct (Nat.ltb 1 (length (flocs ft))) eqn:L; [|reflexivity].
  destruct (aget k_ID (g0 ft)) eqn:G; [reflexivity|]. apply Nat.ltb_lt in L.
  destruct (multi_has_id ft W L) as [v Hv]. congruence.
Qed.
Lemma write_feat_r_wf ft r : feat_ok ft = true -> write_feat_r r ft = write_feat ft.
Proof.
  intros W. unfold write_feat, write_feat_r. rewrite !(merged_r ft _ W).
  destruct (flocs ft) as [|l0 rest] eqn:Hl; [reflexivity|].
  destruct (aget k_ID (g0 ft)) eqn:G; [reflexivity|].
  destruct rest as [|l1 r']; [reflexivity|]. exfalso.
  destruct (multi_has_id ft W) as [v Hv]; [rewrite Hl; cbn; lia|congruence].
Qed.
Lemma write_feats_h_wf x : forallb feat_ok x = true -> forall i, write_feats_h i x = map write_feat x.
Proof.
  induction x as [|f x IH]; intros W i; [reflexivity|]. cbn [forallb] in W. apply andb_prop in W. destruct W as [W1 W2].
  cbn [write_feats_h map]. rewrite (write_feat_r_wf f _ W1), (IH W2). reflexivity.
Qed.
Theorem write_gff_h_wf x : wf_C02 x = true -> write_gff_h x = write_gff x.
Proof. intros W. unfold write_gff_h, write_gff. rewrite (write_feats_h_wf x W). reflexivity. Qed.
