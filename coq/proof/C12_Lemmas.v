(* C12 proofs: codon locator bounds, loop invariants and termination, default-mode specification *)
From Coq Require Import List ZArith NArith Bool Lia ZifyBool Sorted.
From Coq.Strings Require Import Byte.
Import ListNotations.
From SV Require Import Text C05_Model C05_Lemmas C12_Model.
Local Open Scope Z_scope.

(* ---- codon locator ------------------------------------------------------------------------------------------- *)
Lemma mw_bound : forall s sk w n m, mw sk w s n = Some m ->
  (n <= m)%nat /\ (m <= n + length s)%nat /\ (w <> [] -> (n < m)%nat).
Proof.
  induction s as [|x s IH]; intros sk w n m H.
  - destruct w as [|c w]; cbn in H; [|discriminate]. inversion H; subst. cbn. repeat split; try lia. congruence.
  - destruct w as [|c w]; cbn [mw] in H.
    + inversion H; subst. cbn. repeat split; try lia. congruence.
    + cbn [length]. destruct (byte_eqb x c) eqn:E.
      * apply IH in H. destruct H as (H1 & H2 & _). repeat split; lia.
      * destruct (sk && is_gap x) eqn:G; [|discriminate].
        apply IH in H. destruct H as (H1 & H2 & _). repeat split; lia.
Qed.

Definition nonempty_words (ws : list str) : Prop := Forall (fun w => w <> []) ws.

Lemma match_any_bound : forall ws s m, nonempty_words ws -> match_any ws s = Some m -> (0 < m <= length s)%nat.
Proof.
  induction ws as [|w ws IH]; intros s m NE H; cbn in H; [discriminate|].
  inversion NE as [|? ? Hw Hws]; subst.
  destruct (mw false w s 0) eqn:E.
  - inversion H; subst. apply mw_bound in E. destruct E as (_ & E2 & E3). specialize (E3 Hw). lia.
  - eapply IH; eauto.
Qed.

Lemma finditer_bound : forall ws s pos sk i e, nonempty_words ws -> In (i, e) (finditer ws s pos sk) ->
  (pos + sk <= i)%nat /\ (i < e)%nat /\ (e <= pos + length s)%nat.
Proof.
  intros ws s. induction s as [|x s IH]; intros pos sk i e NE H; cbn [finditer] in H; [contradiction|].
  cbn [length]. destruct sk as [|k].
  - destruct (match_any ws (x :: s)) as [len|] eqn:M.
    + pose proof (match_any_bound _ _ _ NE M) as B. cbn [length] in B.
      destruct H as [H|H].
      * inversion H; subst. lia.
      * apply IH in H; auto. lia.
    + apply IH in H; auto. lia.
  - apply IH in H; auto. lia.
Qed.

(* matches are reported left to right and do not overlap *)
Definition before (m m' : nat * nat) : Prop := (snd m <= fst m')%nat.
Lemma finditer_sorted : forall ws s pos sk, nonempty_words ws -> StronglySorted before (finditer ws s pos sk).
Proof.
  intros ws s. induction s as [|x s IH]; intros pos sk NE; cbn [finditer]; [constructor|].
  destruct sk as [|k]; [|apply IH; auto].
  destruct (match_any ws (x :: s)) as [len|] eqn:M; [|apply IH; auto].
  constructor; [apply IH; auto|].
  apply Forall_forall. intros [i e] Hin. apply finditer_bound in Hin; auto.
  pose proof (match_any_bound _ _ _ NE M) as B. unfold before; cbn. lia.
Qed.

Lemma start_words_nonempty : nonempty_words START_WORDS.
Proof. repeat constructor; discriminate. Qed.
Lemma stop_words_nonempty : nonempty_words STOP_WORDS.
Proof. repeat constructor; discriminate. Qed.

Lemma strand_str_length s f : length (strand_str s f) = length s.
Proof. unfold strand_str. destruct (f >=? 0); [reflexivity|apply rc_length]. Qed.

Lemma hits_bound ws s f i e : nonempty_words ws -> In (i, e) (hits ws s f) -> (i < e)%nat /\ (e <= length s)%nat.
Proof.
  intros NE H. unfold hits in H. apply filter_In in H. destruct H as [H _].
  apply finditer_bound in H; auto. rewrite strand_str_length in H. lia.
Qed.

Definition start_in (L a : Z) : Prop := 0 <= a < L.
Definition stop_in (L e : Z) : Prop := 0 < e <= L.

Lemma frame_starts_bound s f : Forall (start_in (Z.of_nat (length s))) (frame_starts s f).
Proof.
  apply Forall_forall. intros a H. unfold frame_starts in H. apply in_map_iff in H.
  destruct H as [[i e] [E H]]. cbn in E. subst a. apply hits_bound in H; [|apply start_words_nonempty].
  unfold start_in. lia.
Qed.
Lemma frame_stops_bound s f : Forall (stop_in (Z.of_nat (length s))) (frame_stops s f).
Proof.
  apply Forall_forall. intros a H. unfold frame_stops in H. apply in_map_iff in H.
  destruct H as [[i e] [E H]]. cbn in E. subst a. apply hits_bound in H; [|apply stop_words_nonempty].
  unfold stop_in. lia.
Qed.

(* ---- pairing loop: invariants and termination ---------------------------------------------------------------------- *)
Definition orf_ok (L minlen frame : Z) (o : orf) : Prop :=
  0 <= o_start o /\ o_start o < o_stop o /\ o_stop o <= L /\ minlen <= o_stop o - o_start o /\
  o_rf o = frame /\ o_plus o = (frame >=? 0).
Definition good (L minlen frame : Z) (r : result) : Prop := exists l, r = ROk l /\ Forall (orf_ok L minlen frame) l.

Lemma next_stop_some : forall stops i1 e r, next_stop i1 stops = Some (e, r) ->
  i1 < e /\ In e stops /\ (length r < length stops)%nat /\ (forall x, In x r -> In x stops).
Proof.
  induction stops as [|d stops IH]; intros i1 e r H; cbn in H; [discriminate|].
  destruct (d >? i1) eqn:E.
  - inversion H; subst. cbn. repeat split; auto; lia.
  - apply IH in H. destruct H as (H1 & H2 & H3 & H4). cbn. repeat split; auto; lia.
Qed.

Lemma inds2orf_some i1 e frame L : 0 <= i1 -> i1 < e -> e <= L ->
  exists o, inds2orf i1 e frame L = Some o /\ 0 <= o_start o /\ o_start o < o_stop o /\ o_stop o <= L /\
            o_stop o - o_start o = e - i1 /\ o_rf o = frame /\ o_plus o = (frame >=? 0).
Proof.
  intros H0 H1 H2. unfold inds2orf. destruct (frame >=? 0) eqn:F.
  - destruct (i1 <? e) eqn:C; [|lia]. eexists; split; [reflexivity|]. cbn. repeat split; lia.
  - destruct (L - e <? L - i1) eqn:C; [|lia]. eexists; split; [reflexivity|]. cbn. repeat split; lia.
Qed.

Lemma good_nil L minlen frame : good L minlen frame (ROk []).
Proof. exists []. split; auto. Qed.

Lemma good_cons L minlen frame keep o r : (keep = true -> orf_ok L minlen frame o) -> good L minlen frame r ->
  good L minlen frame (cons_res keep o r).
Proof.
  intros Ho [l [E Hl]]. subst r. cbn. destruct keep; eexists; split; try reflexivity; auto.
Qed.

Lemma loop_body_good rec need_stop minlen L frame i1 starts' stops i2 :
  Forall (stop_in L) stops -> 0 <= i1 -> (need_stop = false -> i1 < L) ->
  (forall p, i2 = Some p -> i1 < p -> good L minlen frame (rec starts' stops i2)) ->
  (forall e r, next_stop i1 stops = Some (e, r) -> e <> L -> good L minlen frame (rec starts' r (Some e))) ->
  good L minlen frame (loop_body rec need_stop minlen L frame i1 starts' stops i2).
Proof.
  intros Hst H0 HL Hc Hn. unfold loop_body.
  destruct (match i2 with Some p => i1 <? p | None => false end) eqn:C.
  - destruct i2 as [p|]; [|discriminate]. apply (Hc p); auto. lia.
  - destruct (next_stop i1 stops) as [[e r]|] eqn:N.
    + pose proof (next_stop_some _ _ _ _ N) as (N1 & N2 & _).
      rewrite Forall_forall in Hst. specialize (Hst _ N2). unfold stop_in in Hst.
      destruct (inds2orf_some i1 e frame L) as (o & Eo & O1 & O2 & O3 & O4 & O5 & O6); try lia.
      rewrite Eo. apply good_cons.
      * intros K. unfold orf_ok. repeat split; auto; lia.
      * destruct (e =? L) eqn:EL; [apply good_nil|]. apply Hn; auto. lia.
    + destruct need_stop; [apply good_nil|].
      specialize (HL eq_refl).
      destruct (inds2orf_some i1 L frame L) as (o & Eo & O1 & O2 & O3 & O4 & O5 & O6); try lia.
      rewrite Eo. apply good_cons.
      * intros K. unfold orf_ok. repeat split; auto; lia.
      * rewrite Z.eqb_refl. apply good_nil.
Qed.

Lemma Forall_incl {A} (P : A -> Prop) l l' : (forall x, In x l' -> In x l) -> Forall P l -> Forall P l'.
Proof. intros H F. rewrite Forall_forall in *. auto. Qed.

Lemma frame_loop_good : forall fuel ns need_stop minlen L frame fs last starts stops i2,
  Forall (start_in L) starts -> Forall (stop_in L) stops ->
  (forall p, i2 = Some p -> 0 < p < L) ->
  0 <= fs -> last <= L ->
  (length starts + length stops < fuel)%nat ->
  good L minlen frame (frame_loop fuel ns need_stop minlen L frame fs last starts stops i2).
Proof.
  induction fuel as [|fuel IH]; intros ns need_stop minlen L frame fs last starts stops i2 Hs He Hp Hfs Hlast Hf; [lia|].
  cbn [frame_loop]. destruct (loop_cond ns starts i2) eqn:C; cbn [negb]; [|apply good_nil].
  destruct (fst (choose_i1 ns fs starts i2) >=? last) eqn:Hbreak; [apply good_nil|].
  assert (Hrec_stop : forall st' e r, Forall (start_in L) st' -> (length st' <= length starts)%nat ->
            next_stop (fst (choose_i1 ns fs starts i2)) stops = Some (e, r) -> e <> L ->
            good L minlen frame (frame_loop fuel ns need_stop minlen L frame fs last st' r (Some e))).
  { intros st' e r Hst' Hlen N NL. pose proof (next_stop_some _ _ _ _ N) as (N1 & N2 & N3 & N4).
    apply IH; [assumption | eapply Forall_incl; eauto | | assumption | assumption | lia].
    intros p Ep. inversion Ep; subst p. rewrite Forall_forall in He. specialize (He _ N2). unfold stop_in in He. lia. }
  destruct ns; cbn [choose_i1 loop_cond] in *.
  - (* always: pop a start *)
    destruct starts as [|a ss]; [discriminate|].
    assert (Epop : match i2 with Some _ => pop_start (a :: ss) | None => pop_start (a :: ss) end = (a, ss))
      by (destruct i2; reflexivity).
    rewrite ?Epop in *. cbn [pop_start fst snd] in *. inversion Hs as [|? ? Ha Hss]; subst. unfold start_in in Ha.
    apply loop_body_good; auto; try lia.
    + intros p' Ep _. apply IH; auto. cbn [length] in Hf. lia.
    + intros e r N NL. apply (Hrec_stop ss e r); auto. cbn. lia.
  - (* once *)
    destruct i2 as [p|]; cbn [fst snd] in *.
    + specialize (Hp p eq_refl). apply loop_body_good; auto; try lia.
      intros p' Ep Hlt. inversion Ep; subst. lia.
    + destruct starts as [|a ss]; [discriminate|]. cbn [pop_start fst snd] in *.
      inversion Hs as [|? ? Ha Hss]; subst. unfold start_in in Ha.
      apply loop_body_good; auto; try lia.
      * intros p' Ep. discriminate.
      * intros e r N NL. apply (Hrec_stop ss e r); auto. cbn. lia.
  - (* never *)
    destruct i2 as [p|]; cbn [fst snd] in *.
    + specialize (Hp p eq_refl). apply loop_body_good; auto; try lia.
      intros p' Ep Hlt. inversion Ep; subst. lia.
    + apply loop_body_good; auto; try lia.
      intros p' Ep. discriminate.
Qed.

(* _frame_start and the last residue *)
Lemma last_res_le : forall d, (last_res d <= length d)%nat.
Proof. induction d as [|c r IH]; cbn; [lia|]. destruct (last_res r); [destruct (is_gap c); lia|lia]. Qed.

Lemma last_res_nth : forall d i c, nth_error d i = Some c -> is_gap c = false -> (i < last_res d)%nat.
Proof.
  induction d as [|x r IH]; intros i c H G; destruct i as [|i]; cbn in H; try discriminate.
  - inversion H; subst. cbn. rewrite G. destruct (last_res r); lia.
  - specialize (IH _ _ H G). cbn. destruct (last_res r); lia.
Qed.

Lemma last_res_map (f : byte -> byte) : (forall c, is_gap (f c) = is_gap c) -> forall d, last_res (map f d) = last_res d.
Proof. intros Hf. induction d as [|c r IH]; cbn; [reflexivity|]. rewrite IH, Hf. reflexivity. Qed.

(* ---- whole call: invariants in every mode of the domain ----------------------------------------------------------- *)
Definition orf_inv (L minlen : Z) (frames : list Z) (o : orf) : Prop :=
  0 <= o_start o /\ o_start o < o_stop o /\ o_stop o <= L /\ minlen <= o_stop o - o_start o /\
  In (o_rf o) frames /\ o_plus o = (o_rf o >=? 0).

Lemma frame_orfs_good ns need_stop minlen s f :
  good (Z.of_nat (length s)) minlen f (frame_orfs ns need_stop minlen s f).
Proof.
  unfold frame_orfs. apply frame_loop_good.
  - apply frame_starts_bound.
  - apply frame_stops_bound.
  - intros p E. discriminate.
  - lia.
  - pose proof (last_res_le (strand_data s f)) as H.
    assert (E : length (strand_data s f) = length s) by (unfold strand_data; destruct (f >=? 0); [reflexivity|apply rev_length]).
    lia.
  - lia.
Qed.

Lemma orfs_frames_good ns need_stop minlen s : forall frames,
  (forall f, In f frames -> good (Z.of_nat (length s)) minlen f (frame_orfs ns need_stop minlen s f)) ->
  exists l, orfs_frames ns need_stop minlen s frames = ROk l /\
            Forall (orf_inv (Z.of_nat (length s)) minlen frames) l.
Proof.
  induction frames as [|f fr IH]; intros H; cbn [orfs_frames].
  - exists []. split; auto.
  - destruct (H f (or_introl eq_refl)) as [l1 [E1 F1]].
    destruct IH as [l2 [E2 F2]]; [intros g Hg; apply H; right; exact Hg|].
    rewrite E1, E2. cbn. exists (l1 ++ l2). split; [reflexivity|].
    apply Forall_app. split.
    + eapply Forall_impl; [|exact F1]. intros o (O1 & O2 & O3 & O4 & O5 & O6).
      unfold orf_inv. rewrite O5. repeat split; auto. left; reflexivity.
    + eapply Forall_impl; [|exact F2]. intros o (O1 & O2 & O3 & O4 & O5 & O6).
      unfold orf_inv. repeat split; auto. right; exact O5.
Qed.

(* no hypothesis is needed for the invariants: they hold for every sequence, rf, mode and minlen *)
Theorem orf_invariants rf ns need_stop minlen s :
  exists l, find_orfs rf ns need_stop minlen s = ROk l /\
            Forall (orf_inv (Z.of_nat (length s)) minlen (frames_of rf)) l.
Proof. unfold find_orfs. apply orfs_frames_good. intros f Hin. apply frame_orfs_good. Qed.

(* ---- default mode: the loop computes the declarative pairing ----------------------------------------------------- *)
Definition zsorted := StronglySorted Z.lt.

Lemma find_none {A} (f : A -> bool) l : Forall (fun x => f x = false) l -> find f l = None.
Proof. induction 1 as [|x l Hx Hl IH]; cbn; [reflexivity|]. rewrite Hx. exact IH. Qed.

Lemma spec_nil_starts : forall stops prev, spec_default [] stops prev = [].
Proof. induction stops as [|e r IH]; intros prev; cbn; auto. Qed.

Lemma zsorted_tail a l : zsorted (a :: l) -> zsorted l /\ Forall (Z.lt a) l.
Proof. intros H. inversion H; subst. split; assumption. Qed.

Lemma spec_drop_head a ss : forall stops prev, a < prev -> zsorted stops -> Forall (fun e => prev <= e) stops ->
  spec_default (a :: ss) stops prev = spec_default ss stops prev.
Proof.
  induction stops as [|e r IH]; intros prev Ha Hs Hp; cbn [spec_default find]; [reflexivity|].
  inversion Hp as [|? ? Hpe Hpr]; subst. apply zsorted_tail in Hs. destruct Hs as [Hs1 Hs2].
  assert (E : (prev <=? a) && (a <? e) = false) by lia. rewrite E.
  assert (IH' : spec_default (a :: ss) r e = spec_default ss r e).
  { apply IH; [lia|assumption|]. eapply Forall_impl; [|exact Hs2]. intros x Hx. cbn in Hx. lia. }
  rewrite IH'. reflexivity.
Qed.

Lemma spec_next_stop : forall stops prev a ss, prev <= a -> Forall (fun x => a <= x) ss ->
  match next_stop a stops with
  | Some (e, r) => spec_default (a :: ss) stops prev = (a, e) :: spec_default (a :: ss) r e
  | None => spec_default (a :: ss) stops prev = []
  end.
Proof.
  induction stops as [|d r IH]; intros prev a ss Hp Hss; cbn [next_stop spec_default]; [reflexivity|].
  destruct (d >? a) eqn:D.
  - cbn [find]. assert (E : (prev <=? a) && (a <? d) = true) by lia. rewrite E. reflexivity.
  - assert (E : find (fun x => (prev <=? x) && (x <? d)) (a :: ss) = None).
    { apply find_none. constructor; [lia|]. eapply Forall_impl; [|exact Hss]. intros x Hx. cbn in Hx. lia. }
    rewrite E. apply IH; [lia|assumption].
Qed.

Lemma next_stop_sorted : forall stops i1 e r, zsorted stops -> next_stop i1 stops = Some (e, r) ->
  zsorted r /\ Forall (Z.lt e) r.
Proof.
  induction stops as [|d stops IH]; intros i1 e r Hs H; cbn in H; [discriminate|].
  apply zsorted_tail in Hs. destruct Hs as [Hs1 Hs2].
  destruct (d >? i1); [inversion H; subst; auto|]. eapply IH; eauto.
Qed.

Definition mk_orf (frame L : Z) (p : Z * Z) : orf :=
  if frame >=? 0 then mkorf (fst p) (snd p) true frame else mkorf (L - snd p) (L - fst p) false frame.
Definition long_enough (minlen : Z) (o : orf) : bool := o_stop o - o_start o >=? minlen.
Definition spec_orfs (minlen frame L : Z) (starts stops : list Z) (prev : Z) : list orf :=
  filter (long_enough minlen) (map (mk_orf frame L) (spec_default starts stops prev)).

Lemma inds2orf_mk a e frame L : a < e -> inds2orf a e frame L = Some (mk_orf frame L (a, e)).
Proof.
  intros H. unfold inds2orf, mk_orf. cbn [fst snd]. destruct (frame >=? 0).
  - destruct (a <? e) eqn:C; [reflexivity|lia].
  - destruct (L - e <? L - a) eqn:C; [reflexivity|lia].
Qed.

Lemma always_loop_spec : forall fuel minlen L frame fs last starts stops i2 prev,
  zsorted starts -> zsorted stops -> Forall (start_in L) starts -> Forall (stop_in L) stops ->
  Forall (fun a => a < last) starts ->
  prev = match i2 with Some p => p | None => 0 end ->
  Forall (fun e => prev <= e) stops ->
  (length starts + length stops < fuel)%nat ->
  frame_loop fuel NSAlways true minlen L frame fs last starts stops i2 = ROk (spec_orfs minlen frame L starts stops prev).
Proof.
  induction fuel as [|fuel IH]; intros minlen L frame fs last starts stops i2 prev Hss Hse Hbs Hbe Hlast Hprev Hpe Hf; [lia|].
  cbn [frame_loop loop_cond]. destruct starts as [|a ss].
  { cbn. unfold spec_orfs. rewrite spec_nil_starts. reflexivity. }
  cbn [is_nil negb choose_i1 pop_start fst snd]. 
  replace (match i2 with Some _ => pop_start (a :: ss) | None => pop_start (a :: ss) end) with (a, ss)
    by (destruct i2; reflexivity).
  cbn [fst snd].
  inversion Hlast as [|? ? Hal Hlast']; subst.
  assert (Hnb : a >=? last = false) by lia. rewrite Hnb.
  unfold loop_body.
  apply zsorted_tail in Hss. destruct Hss as [Hss1 Hss2].
  inversion Hbs as [|? ? Ha Hbss]; subst. unfold start_in in Ha.
  destruct (match i2 with Some p => a <? p | None => false end) eqn:C.
  - destruct i2 as [p|]; [|discriminate].
    rewrite (IH minlen L frame fs last ss stops (Some p) p); auto; [|cbn [length] in Hf; lia].
    unfold spec_orfs. rewrite spec_drop_head; auto. lia.
  - assert (Hpa : match i2 with Some p => p | None => 0 end <= a) by (destruct i2; lia).
    assert (Hge : Forall (fun x => a <= x) ss) by (eapply Forall_impl; [|exact Hss2]; intros x Hx; cbn in Hx; lia).
    pose proof (spec_next_stop stops _ a ss Hpa Hge) as SN.
    destruct (next_stop a stops) as [[e r]|] eqn:N.
    + pose proof (next_stop_some _ _ _ _ N) as (N1 & N2 & N3 & N4).
      pose proof (next_stop_sorted _ _ _ _ Hse N) as (R1 & R2).
      rewrite inds2orf_mk by exact N1.
      unfold spec_orfs. rewrite SN. cbn [map filter].
      assert (Hle : Forall (fun x => e <= x) r) by (eapply Forall_impl; [|exact R2]; intros x Hx; cbn in Hx; lia).
      rewrite (spec_drop_head a ss r e N1 R1 Hle).
      assert (Hbr : Forall (stop_in L) r) by (eapply Forall_incl; eauto).
      assert (Hrest : (if e =? L then ROk [] else frame_loop fuel NSAlways true minlen L frame fs last ss r (Some e))
                      = ROk (spec_orfs minlen frame L ss r e)).
      { destruct (e =? L) eqn:EL.
        - destruct r as [|x r']; [unfold spec_orfs; cbn; rewrite ?spec_nil_starts; destruct ss; reflexivity|].
          inversion R2; subst. inversion Hbr; subst. unfold stop_in in *. lia.
        - apply IH; auto. cbn [length] in Hf. lia. }
      rewrite Hrest. unfold spec_orfs, long_enough. cbn [cons_res]. reflexivity.
    + unfold spec_orfs. rewrite SN. reflexivity.
Qed.

(* ---- the codon lists of a frame are strictly increasing --------------------------------------------------------------- *)
Lemma Forall_filter {A} (P : A -> Prop) f l : Forall P l -> Forall P (filter f l).
Proof. intros H. rewrite Forall_forall in *. intros x Hx. apply filter_In in Hx. apply H. tauto. Qed.

Lemma sorted_filter {A} (R : A -> A -> Prop) f : forall l, StronglySorted R l -> StronglySorted R (filter f l).
Proof.
  induction l as [|x l IH]; intros H; cbn; [constructor|].
  inversion H; subst. destruct (f x); [constructor; [auto|apply Forall_filter; assumption]|auto].
Qed.

Lemma sorted_map_fst : forall l, StronglySorted before l -> Forall (fun m => (fst m < snd m)%nat) l ->
  zsorted (map (fun m => Z.of_nat (fst m)) l).
Proof.
  induction l as [|m l IH]; intros Hs Hl; cbn; [constructor|].
  inversion Hs as [|? ? Hs1 Hs2]; subst. inversion Hl as [|? ? Hm Hl']; subst.
  constructor; [apply IH; assumption|].
  apply Forall_forall. intros z Hz. apply in_map_iff in Hz. destruct Hz as [m' [E Hin]]. subst z.
  rewrite Forall_forall in Hs2. specialize (Hs2 _ Hin). unfold before in Hs2. lia.
Qed.

Lemma sorted_map_snd : forall l, StronglySorted before l -> Forall (fun m => (fst m < snd m)%nat) l ->
  zsorted (map (fun m => Z.of_nat (snd m)) l).
Proof.
  induction l as [|m l IH]; intros Hs Hl; cbn; [constructor|].
  inversion Hs as [|? ? Hs1 Hs2]; subst. inversion Hl as [|? ? Hm Hl']; subst.
  constructor; [apply IH; assumption|].
  apply Forall_forall. intros z Hz. apply in_map_iff in Hz. destruct Hz as [m' [E Hin]]. subst z.
  rewrite Forall_forall in Hs2, Hl'. specialize (Hs2 _ Hin). specialize (Hl' _ Hin). unfold before in Hs2. lia.
Qed.

Lemma hits_sorted ws s f : nonempty_words ws ->
  StronglySorted before (hits ws s f) /\ Forall (fun m => (fst m < snd m)%nat) (hits ws s f).
Proof.
  intros NE. split.
  - unfold hits. apply sorted_filter. apply finditer_sorted. exact NE.
  - apply Forall_forall. intros [i e] H. apply hits_bound in H; auto. cbn. lia.
Qed.

Lemma frame_starts_sorted s f : zsorted (frame_starts s f).
Proof. destruct (hits_sorted START_WORDS s f start_words_nonempty). apply sorted_map_fst; assumption. Qed.
Lemma frame_stops_sorted s f : zsorted (frame_stops s f).
Proof. destruct (hits_sorted STOP_WORDS s f stop_words_nonempty). apply sorted_map_snd; assumption. Qed.

(* start codons begin on a residue column, hence before the end of the last residue of the strand that is read *)
Definition letters_ok (ws : list str) : Prop := forall w c, In w ws -> In c w -> is_gap c = false.

Lemma match_any_head : forall ws x s m, nonempty_words ws -> match_any ws (x :: s) = Some m ->
  exists w, In (x :: w) ws.
Proof.
  induction ws as [|w ws IH]; intros x s m NE H; cbn [match_any] in H; [discriminate|].
  inversion NE as [|? ? Hw Hws]; subst.
  destruct (mw false w (x :: s) 0) eqn:E.
  - destruct w as [|c w]; [congruence|]. cbn [mw] in E. destruct (byte_eqb x c) eqn:B.
    + apply byte_eqb_eq in B. subst c. exists w. left; reflexivity.
    + cbn in E. discriminate.
  - destruct (IH x s m Hws H) as [w' Hw']. exists w'. right; exact Hw'.
Qed.

Lemma finditer_head : forall ws s pos sk i e, nonempty_words ws -> In (i, e) (finditer ws s pos sk) ->
  (pos <= i)%nat /\ exists c w, In (c :: w) ws /\ nth_error s (i - pos) = Some c.
Proof.
  intros ws s. induction s as [|x s IH]; intros pos sk i e NE H; cbn [finditer] in H; [contradiction|].
  assert (Htail : forall sk', In (i, e) (finditer ws s (S pos) sk') ->
            (pos <= i)%nat /\ exists c w, In (c :: w) ws /\ nth_error (x :: s) (i - pos) = Some c).
  { intros sk' H'. destruct (IH _ _ _ _ NE H') as [Hle [c [w [Hw Hn]]]]. split; [lia|]. exists c, w. split; auto.
    replace (i - pos)%nat with (S (i - S pos)) by lia. exact Hn. }
  destruct sk as [|k]; [|eauto].
  destruct (match_any ws (x :: s)) as [len|] eqn:M; [|eauto].
  destruct H as [H|H]; [|eauto].
  inversion H; subst. split; [lia|]. destruct (match_any_head _ _ _ _ NE M) as [w Hw].
  exists x, w. split; auto. rewrite Nat.sub_diag. reflexivity.
Qed.

Lemma start_letters_ok : letters_ok START_WORDS.
Proof.
  intros w c Hw Hc. cbn in Hw. repeat (destruct Hw as [Hw|Hw]; [subst w; cbn in Hc;
    repeat (destruct Hc as [Hc|Hc]; [subst c; reflexivity|]); contradiction|]). contradiction.
Qed.
Lemma stop_letters_ok : letters_ok STOP_WORDS.
Proof.
  intros w c Hw Hc. cbn in Hw. repeat (destruct Hw as [Hw|Hw]; [subst w; cbn in Hc;
    repeat (destruct Hc as [Hc|Hc]; [subst c; reflexivity|]); contradiction|]). contradiction.
Qed.

Lemma last_res_strand s f : last_res (strand_str s f) = last_res (strand_data s f).
Proof.
  unfold strand_str, strand_data. destruct (f >=? 0); [reflexivity|].
  destruct (rc_defs s) as [E _]. rewrite E, complement_as_map. apply last_res_map. intros c.
  destruct (has cU (rev s)); destruct c; vm_compute; reflexivity.
Qed.

Lemma frame_starts_before_last s f :
  Forall (fun a => a < Z.of_nat (last_res (strand_data s f))) (frame_starts s f).
Proof.
  apply Forall_forall. intros a H. unfold frame_starts in H. apply in_map_iff in H.
  destruct H as [[i e] [E H]]. cbn in E. subst a. unfold hits in H. apply filter_In in H. destruct H as [H _].
  destruct (finditer_head _ _ _ _ _ _ start_words_nonempty H) as [_ [c [w [Hw Hn]]]]. rewrite Nat.sub_0_r in Hn.
  rewrite <- last_res_strand.
  assert (G : is_gap c = false) by (apply (start_letters_ok (c :: w) c Hw); left; reflexivity).
  pose proof (last_res_nth _ _ _ Hn G). lia.
Qed.

(* default mode, one frame, any sequence: the output is the declarative pairing of the frame's codon lists *)
Theorem frame_default_spec minlen s f :
  frame_orfs NSAlways true minlen s f =
  ROk (spec_orfs minlen f (Z.of_nat (length s)) (frame_starts s f) (frame_stops s f) 0).
Proof.
  unfold frame_orfs. apply always_loop_spec; auto.
  - apply frame_starts_sorted.
  - apply frame_stops_sorted.
  - apply frame_starts_bound.
  - apply frame_stops_bound.
  - apply frame_starts_before_last.
  - eapply Forall_impl; [|apply frame_stops_bound]. intros e He. unfold stop_in in He. lia.
  - lia.
Qed.

(* what the pairing means: soundness, "first such start", completeness *)
Lemma find_first_sorted (f : Z -> bool) : forall l x, zsorted l -> find f l = Some x ->
  forall y, In y l -> y < x -> f y = false.
Proof.
  induction l as [|z l IH]; intros x Hs F y Hy Hlt; cbn in F; [discriminate|].
  apply zsorted_tail in Hs. destruct Hs as [Hs1 Hs2].
  destruct (f z) eqn:Fz.
  - inversion F; subst. destruct Hy as [Hy|Hy]; [lia|]. rewrite Forall_forall in Hs2. specialize (Hs2 _ Hy). lia.
  - destruct Hy as [Hy|Hy]; [subst; assumption|]. eapply IH; eauto.
Qed.

Lemma find_exists {A} (f : A -> bool) : forall l x, In x l -> f x = true -> exists y, find f l = Some y.
Proof.
  induction l as [|z l IH]; intros x Hin Fx; [contradiction|]. cbn. destruct (f z) eqn:Fz; [eauto|].
  destruct Hin as [Hin|Hin]; [subst; congruence|]. eapply IH; eauto.
Qed.

Lemma spec_default_sound : forall stops starts prev a e, zsorted starts -> zsorted stops ->
  Forall (fun d => prev <= d) stops -> In (a, e) (spec_default starts stops prev) ->
  In a starts /\ In e stops /\ prev <= a /\ a < e /\
  (forall e', In e' stops -> e' < e -> e' <= a) /\
  (forall a', In a' starts -> a' < a -> a' < prev \/ exists e', In e' stops /\ a' < e' /\ e' <= a).
Proof.
  induction stops as [|d r IH]; intros starts prev a e Hss Hs Hp H; cbn [spec_default] in H; [contradiction|].
  apply zsorted_tail in Hs. destruct Hs as [Hs1 Hs2]. inversion Hp as [|? ? Hpd Hpr]; subst.
  assert (Hdr : Forall (fun x => d <= x) r) by (eapply Forall_impl; [|exact Hs2]; intros x Hx; cbn in Hx; lia).
  assert (Hrec : In (a, e) (spec_default starts r d) ->
     In a starts /\ In e (d :: r) /\ prev <= a /\ a < e /\
     (forall e', In e' (d :: r) -> e' < e -> e' <= a) /\
     (forall a', In a' starts -> a' < a -> a' < prev \/ exists e', In e' (d :: r) /\ a' < e' /\ e' <= a)).
  { intros H'. destruct (IH starts d a e Hss Hs1 Hdr H') as (I1 & I2 & I3 & I4 & I5 & I6).
    repeat split; auto; try lia.
    - right; assumption.
    - intros e' [E|E] Hlt; [lia|auto].
    - intros a' Ha' Hlt. destruct (I6 a' Ha' Hlt) as [K|[e' [K1 [K2 K3]]]].
      + destruct (Z.ltb_spec a' prev); [left; assumption|]. right. exists d. cbn. repeat split; auto; lia.
      + right. exists e'. cbn. auto. }
  destruct (find (fun x => (prev <=? x) && (x <? d)) starts) as [x|] eqn:F; [|auto].
  destruct H as [H|H]; [|auto].
  inversion H; subst. pose proof (find_some _ _ F) as [F1 F2].
  repeat split; auto; try lia.
  - left; reflexivity.
  - intros e' [E|E] Hlt; [lia|]. rewrite Forall_forall in Hs2. specialize (Hs2 _ E). lia.
  - intros a' Ha' Hlt. pose proof (find_first_sorted _ _ _ Hss F a' Ha' Hlt) as K. cbn in K. left. lia.
Qed.

Lemma spec_default_complete : forall stops starts prev e a0, zsorted stops ->
  In e stops -> In a0 starts -> prev <= a0 -> a0 < e -> (forall e', In e' stops -> e' < e -> e' <= a0) ->
  exists a, In (a, e) (spec_default starts stops prev).
Proof.
  induction stops as [|d r IH]; intros starts prev e a0 Hs He Ha Hp Hlt Hno; [contradiction|].
  apply zsorted_tail in Hs. destruct Hs as [Hs1 Hs2]. cbn [spec_default].
  destruct He as [He|He].
  - subst d. destruct (find_exists (fun x => (prev <=? x) && (x <? e)) starts a0 Ha) as [y Fy]; [lia|].
    rewrite Fy. exists y. left; reflexivity.
  - rewrite Forall_forall in Hs2. pose proof (Hs2 _ He) as Hde.
    assert (Hd : d <= a0) by (apply Hno; [left; reflexivity|lia]).
    destruct (IH starts d e a0 Hs1 He Ha Hd Hlt) as [a Hin].
    { intros e' He' Hl. apply Hno; [right; assumption|assumption]. }
    exists a. destruct (find _ starts); [right|]; assumption.
Qed.

(* one ORF per stop at most, in the order of the stops *)
Inductive sublist {A} : list A -> list A -> Prop :=
| sub_nil : sublist [] []
| sub_skip x l l' : sublist l l' -> sublist l (x :: l')
| sub_take x l l' : sublist l l' -> sublist (x :: l) (x :: l').
Lemma spec_default_stops : forall stops starts prev, sublist (map snd (spec_default starts stops prev)) stops.
Proof.
  induction stops as [|d r IH]; intros starts prev; cbn [spec_default]; [constructor|].
  destruct (find _ starts); cbn [map snd]; constructor; apply IH.
Qed.

(* default mode, whole call, every sequence and every rf: frames in the requested order, each paired declaratively *)
Definition spec_find_orfs (minlen : Z) (s : str) (frames : list Z) : list orf :=
  concat (map (fun f => spec_orfs minlen f (Z.of_nat (length s)) (frame_starts s f) (frame_stops s f) 0) frames).

Lemma orfs_frames_default minlen s : forall frames,
  orfs_frames NSAlways true minlen s frames = ROk (spec_find_orfs minlen s frames).
Proof.
  induction frames as [|f fr IH]; cbn [orfs_frames]; [reflexivity|].
  rewrite frame_default_spec, IH. reflexivity.
Qed.

Theorem orf_default_spec rf minlen s :
  find_orfs rf NSAlways true minlen s = ROk (spec_find_orfs minlen s (frames_of rf)).
Proof. apply orfs_frames_default. Qed.

(* ---- gap-free input: codons are three columns, frames are positions mod 3, lengths are multiples of three -------- *)
Definition gapfree (s : str) : bool := forallb (fun c => negb (is_gap c)) s.

Lemma mw_gapfree : forall s sk w n m, gapfree s = true -> mw sk w s n = Some m -> m = (n + length w)%nat.
Proof.
  induction s as [|x s IH]; intros sk w n m G H.
  - destruct w; cbn in H; [|discriminate]. inversion H; subst. cbn. lia.
  - destruct w as [|c w]; cbn [mw] in H; [inversion H; subst; cbn; lia|].
    cbn in G. apply andb_prop in G. destruct G as [Gx Gs].
    destruct (byte_eqb x c).
    + apply IH in H; auto. cbn [length]. lia.
    + apply negb_true_iff in Gx. rewrite Gx, andb_false_r in H. discriminate.
Qed.

Definition codon_words (ws : list str) : Prop := Forall (fun w => length w = 3%nat) ws.
Lemma match_any_gapfree : forall ws s m, codon_words ws -> gapfree s = true -> match_any ws s = Some m -> m = 3%nat.
Proof.
  induction ws as [|w ws IH]; intros s m C G H; cbn in H; [discriminate|].
  inversion C as [|? ? Cw Cws]; subst.
  destruct (mw false w s 0) eqn:E; [|eauto].
  inversion H; subst. apply mw_gapfree in E; auto. lia.
Qed.

Lemma finditer_gapfree : forall ws s pos sk i e, codon_words ws -> gapfree s = true ->
  In (i, e) (finditer ws s pos sk) -> e = (i + 3)%nat.
Proof.
  intros ws s. induction s as [|x s IH]; intros pos sk i e C G H; cbn [finditer] in H; [contradiction|].
  assert (Gs : gapfree s = true) by (cbn in G; apply andb_prop in G; tauto).
  destruct sk as [|k]; [|eapply IH; eauto].
  destruct (match_any ws (x :: s)) as [len|] eqn:M; [|eapply IH; eauto].
  destruct H as [H|H]; [|eapply IH; eauto].
  inversion H; subst. apply match_any_gapfree in M; auto; subst; try lia.
Qed.

Lemma gapfree_firstn : forall n s, gapfree s = true -> filter is_gap (firstn n s) = [].
Proof.
  induction n as [|n IH]; intros s G; [reflexivity|]. destruct s as [|x s]; [reflexivity|].
  cbn in G. apply andb_prop in G. destruct G as [Gx Gs]. apply negb_true_iff in Gx.
  cbn [firstn filter]. rewrite Gx. apply IH. exact Gs.
Qed.

Lemma frame_of_gapfree s i : gapfree s = true -> frame_of s i = Z.of_nat i mod 3.
Proof. intros G. unfold frame_of, gaps_before. rewrite gapfree_firstn by exact G. cbn [length]. f_equal. lia. Qed.

Lemma cc_gap u c : is_gap (cc u c) = is_gap c.
Proof. destruct u; destruct c; vm_compute; reflexivity. Qed.

Lemma gapfree_rc s : gapfree s = true -> gapfree (rc s) = true.
Proof.
  intros G. destruct (rc_defs s) as [_ E]. rewrite E, complement_as_map. unfold gapfree in *.
  rewrite forallb_forall in *. intros c Hc. apply in_rev in Hc. apply in_map_iff in Hc.
  destruct Hc as [c0 [E0 H0]]. subst c. rewrite cc_gap. apply G. exact H0.
Qed.

Lemma gapfree_strand s f : gapfree s = true -> gapfree (strand_str s f) = true.
Proof. intros G. unfold strand_str. destruct (f >=? 0); [exact G|apply gapfree_rc; exact G]. Qed.

Lemma start_words_codons : codon_words START_WORDS.
Proof. repeat constructor. Qed.
Lemma stop_words_codons : codon_words STOP_WORDS.
Proof. repeat constructor. Qed.

Lemma hits_gapfree ws s f i e : codon_words ws -> gapfree s = true -> In (i, e) (hits ws s f) ->
  e = (i + 3)%nat /\ Z.of_nat i mod 3 = frame_key f.
Proof.
  intros C G H. unfold hits in H. apply filter_In in H. destruct H as [H1 H2]. cbn [fst] in H2.
  pose proof (gapfree_strand s f G) as Gt. split.
  - eapply finditer_gapfree; eauto.
  - rewrite frame_of_gapfree in H2 by exact Gt. lia.
Qed.

Lemma spec_default_members : forall stops starts prev a e, In (a, e) (spec_default starts stops prev) ->
  In a starts /\ In e stops /\ a < e.
Proof.
  induction stops as [|d r IH]; intros starts prev a e H; cbn [spec_default] in H; [contradiction|].
  destruct (find (fun x => (prev <=? x) && (x <? d)) starts) as [x|] eqn:F.
  - destruct H as [H|H].
    + inversion H; subst. apply find_some in F. destruct F as [F1 F2]. cbn. repeat split; auto; lia.
    + apply IH in H. cbn. tauto.
  - apply IH in H. cbn. tauto.
Qed.

Lemma mod3_diff a b k : a mod 3 = k -> b mod 3 = k -> (b + 3 - a) mod 3 = 0.
Proof.
  intros Ha Hb. rewrite (Z.div_mod a 3), (Z.div_mod b 3) by lia. rewrite Ha, Hb.
  replace (3 * (b / 3) + k + 3 - (3 * (a / 3) + k)) with ((b / 3 - a / 3 + 1) * 3) by lia.
  apply Z.mod_mul. lia.
Qed.

Theorem default_gapfree_div3 rf minlen s : gapfree s = true ->
  forall o, In o (spec_find_orfs minlen s (frames_of rf)) -> (o_stop o - o_start o) mod 3 = 0.
Proof.
  intros G o H. unfold spec_find_orfs in H. apply in_concat in H. destruct H as [l [Hl Ho]].
  apply in_map_iff in Hl. destruct Hl as [f [El Hf]]. subst l.
  unfold spec_orfs in Ho. apply filter_In in Ho. destruct Ho as [Ho _].
  apply in_map_iff in Ho. destruct Ho as [[a e] [Eo Hae]]. apply spec_default_members in Hae.
  destruct Hae as (Ha & He & Hlt).
  unfold frame_starts in Ha. apply in_map_iff in Ha. destruct Ha as [[i1 e1] [E1 H1]]. cbn [fst] in E1.
  unfold frame_stops in He. apply in_map_iff in He. destruct He as [[i2 e2] [E2 H2]]. cbn [snd] in E2.
  apply hits_gapfree in H1; [|apply start_words_codons|exact G].
  apply hits_gapfree in H2; [|apply stop_words_codons|exact G].
  destruct H1 as [_ M1]. destruct H2 as [L2 M2].
  assert (D : o_stop o - o_start o = e - a).
  { subst o. unfold mk_orf. cbn [fst snd]. destruct (f >=? 0); cbn; lia. }
  rewrite D. subst a e e2. replace (Z.of_nat (i2 + 3)) with (Z.of_nat i2 + 3) by lia.
  eapply mod3_diff; eauto.
Qed.

(* frames without a start codon contribute nothing (always / once) *)
Lemma no_start_no_orf ns need_stop minlen s f : ns <> NSNever -> frame_starts s f = [] ->
  frame_orfs ns need_stop minlen s f = ROk [].
Proof.
  intros Hns H. unfold frame_orfs. rewrite H. cbn [length].
  replace (0 + length (frame_stops s f) + 1)%nat with (S (length (frame_stops s f))) by lia.
  destruct ns; [reflexivity|reflexivity|congruence].
Qed.

Theorem pairing_meaning minlen s f :
  let starts := frame_starts s f in let stops := frame_stops s f in
  sublist (map snd (spec_default starts stops 0)) stops /\
  (forall a e, In (a, e) (spec_default starts stops 0) ->
     In a starts /\ In e stops /\ 0 <= a /\ a < e /\
     (forall e', In e' stops -> e' < e -> e' <= a) /\
     (forall a', In a' starts -> a' < a -> exists e', In e' stops /\ a' < e' /\ e' <= a)) /\
  (forall e a0, In e stops -> In a0 starts -> a0 < e -> (forall e', In e' stops -> e' < e -> e' <= a0) ->
     exists a, In (a, e) (spec_default starts stops 0)) /\
  frame_orfs NSAlways true minlen s f = ROk (spec_orfs minlen f (Z.of_nat (length s)) starts stops 0).
Proof.
  intros starts stops.
  assert (B0 : Forall (fun d => 0 <= d) stops).
  { eapply Forall_impl; [|apply frame_stops_bound]. intros e He. unfold stop_in in He. lia. }
  pose proof (frame_starts_bound s f) as BS. fold starts in BS.
  split; [apply spec_default_stops|]. split; [|split].
  - intros a e H.
    destruct (spec_default_sound stops starts 0 a e (frame_starts_sorted s f) (frame_stops_sorted s f) B0 H)
      as (H1 & H2 & H3 & H4 & H5 & H6).
    repeat split; auto. intros a' Ha' Hlt. destruct (H6 a' Ha' Hlt) as [K|K]; [|exact K].
    rewrite Forall_forall in BS. specialize (BS _ Ha'). unfold start_in in BS. lia.
  - intros e a0 He Ha Hlt Hno. apply (spec_default_complete stops starts 0 e a0); auto.
    + apply frame_stops_sorted.
    + rewrite Forall_forall in BS. specialize (BS _ Ha). unfold start_in in BS. lia.
  - apply frame_default_spec.
Qed.

(* ---- gapped input: frames count residues, codons hold three residues ------------------------------------------------ *)
Definition nres (l : str) : nat := length (filter (fun c => negb (is_gap c)) l).
Lemma firstn_S_nth {A} : forall i (t : list A) c, nth_error t i = Some c -> firstn (S i) t = firstn i t ++ [c].
Proof.
  induction i as [|i IH]; intros t c H; destruct t as [|x t]; cbn in H; try discriminate.
  - inversion H; subst. reflexivity.
  - rewrite !firstn_cons. rewrite (IH t c H). reflexivity.
Qed.

Lemma filter_partition_len {A} (p : A -> bool) l :
  length l = (length (filter p l) + length (filter (fun c => negb (p c)) l))%nat.
Proof. induction l as [|x l IH]; cbn; [reflexivity|]. destruct (p x); cbn; lia. Qed.

Lemma frame_of_rb t i : (i <= length t)%nat -> frame_of t i = Z.of_nat (rb t i) mod 3.
Proof.
  intros Hi. unfold frame_of, gaps_before, rb.
  pose proof (filter_partition_len is_gap (firstn i t)) as P. rewrite firstn_length_le in P by lia.
  f_equal. lia.
Qed.

Lemma mw_residues : forall s sk w n m, (forall c, In c w -> is_gap c = false) -> mw sk w s n = Some m ->
  nres (firstn (m - n) s) = length w.
Proof.
  induction s as [|x s IH]; intros sk w n m Hw H.
  - destruct w; cbn in H; [|discriminate]. inversion H; subst. rewrite Nat.sub_diag. reflexivity.
  - destruct w as [|c w]; cbn [mw] in H.
    + inversion H; subst. rewrite Nat.sub_diag. reflexivity.
    + destruct (byte_eqb x c) eqn:B.
      * apply byte_eqb_eq in B. subst c. pose proof (mw_bound _ _ _ _ _ H) as (B1 & _).
        replace (m - n)%nat with (S (m - S n)) by lia. cbn [firstn]. unfold nres. cbn [filter].
        rewrite (Hw x (or_introl eq_refl)). cbn [negb length]. f_equal.
        apply (IH true w (S n) m); auto. intros c Hc. apply Hw. right; exact Hc.
      * destruct (sk && is_gap x) eqn:G; [|discriminate]. apply andb_prop in G. destruct G as [_ G].
        pose proof (mw_bound _ _ _ _ _ H) as (B1 & _).
        replace (m - n)%nat with (S (m - S n)) by lia. cbn [firstn]. unfold nres. cbn [filter].
        rewrite G. cbn [negb]. apply (IH true (c :: w) (S n) m); auto.
Qed.

Lemma match_any_residues : forall ws s m, codon_words ws -> letters_ok ws -> match_any ws s = Some m ->
  nres (firstn m s) = 3%nat.
Proof.
  induction ws as [|w ws IH]; intros s m C Lo H; cbn in H; [discriminate|].
  inversion C as [|? ? Cw Cws]; subst.
  destruct (mw false w s 0) eqn:E.
  - inversion H; subst. rewrite <- Cw. replace m with (m - 0)%nat by lia.
    eapply mw_residues; eauto. intros c Hc. apply (Lo w c); [left; reflexivity|exact Hc].
  - apply IH; auto. intros w' c Hw' Hc. apply (Lo w' c); [right; exact Hw'|exact Hc].
Qed.

Lemma finditer_residues : forall ws s pos sk i e, codon_words ws -> letters_ok ws ->
  In (i, e) (finditer ws s pos sk) -> (pos <= i)%nat /\ nres (firstn (e - i) (skipn (i - pos) s)) = 3%nat.
Proof.
  intros ws s. induction s as [|x s IH]; intros pos sk i e C Lo H; cbn [finditer] in H; [contradiction|].
  assert (Htail : forall sk', In (i, e) (finditer ws s (S pos) sk') ->
            (pos <= i)%nat /\ nres (firstn (e - i) (skipn (i - pos) (x :: s))) = 3%nat).
  { intros sk' H'. destruct (IH _ _ _ _ C Lo H') as [Hle Hn]. split; [lia|].
    replace (i - pos)%nat with (S (i - S pos)) by lia. exact Hn. }
  destruct sk as [|k]; [|eauto].
  destruct (match_any ws (x :: s)) as [len|] eqn:M; [|eauto].
  destruct H as [H|H]; [|eauto].
  inversion H; subst. split; [lia|]. rewrite Nat.sub_diag. cbn [skipn].
  replace (i + len - i)%nat with len by lia. eapply match_any_residues; eauto.
Qed.

Lemma firstn_add {A} : forall i len (t : list A), firstn (i + len) t = firstn i t ++ firstn len (skipn i t).
Proof.
  induction i as [|i IH]; intros len t; [reflexivity|]. destruct t as [|x t]; [cbn; rewrite firstn_nil; reflexivity|].
  cbn [Nat.add firstn skipn app]. rewrite IH. reflexivity.
Qed.

Lemma rb_add t i len : rb t (i + len) = (rb t i + nres (firstn len (skipn i t)))%nat.
Proof. unfold rb, nres. rewrite firstn_add, filter_app, app_length. reflexivity. Qed.

(* a reported codon of frame f starts after k = frame_key f (mod 3) residues of its strand and holds three residues *)
Lemma hits_residues ws s f i e : nonempty_words ws -> codon_words ws -> letters_ok ws -> In (i, e) (hits ws s f) ->
  Z.of_nat (rb (strand_str s f) i) mod 3 = frame_key f /\
  rb (strand_str s f) e = (rb (strand_str s f) i + 3)%nat.
Proof.
  intros NE C Lo H. unfold hits in H. apply filter_In in H. destruct H as [H1 H2]. cbn [fst] in H2.
  split.
  - pose proof (finditer_bound _ _ _ _ _ _ NE H1) as (_ & B1 & B2).
    rewrite <- frame_of_rb by (cbn in B2; lia). lia.
  - destruct (finditer_residues _ _ _ _ _ _ C Lo H1) as [_ Hn]. rewrite Nat.sub_0_r in Hn.
    pose proof (finditer_bound _ _ _ _ _ _ NE H1) as (_ & B & _).
    replace e with (i + (e - i))%nat at 1 by lia. rewrite rb_add, Hn. reflexivity.
Qed.

Theorem default_residues_div3 s f a e : In (a, e) (spec_default (frame_starts s f) (frame_stops s f) 0) ->
  (Z.of_nat (rb (strand_str s f) (Z.to_nat e)) - Z.of_nat (rb (strand_str s f) (Z.to_nat a))) mod 3 = 0.
Proof.
  intros H. apply spec_default_members in H. destruct H as (Ha & He & _).
  unfold frame_starts in Ha. apply in_map_iff in Ha. destruct Ha as [[i1 e1] [E1 H1]]. cbn [fst] in E1.
  unfold frame_stops in He. apply in_map_iff in He. destruct He as [[i2 e2] [E2 H2]]. cbn [snd] in E2.
  apply hits_residues in H1; [|apply start_words_nonempty|apply start_words_codons|apply start_letters_ok].
  apply hits_residues in H2; [|apply stop_words_nonempty|apply stop_words_codons|apply stop_letters_ok].
  destruct H1 as [M1 _]. destruct H2 as [M2 L2]. subst a e. rewrite !Nat2Z.id. rewrite L2.
  replace (Z.of_nat (rb (strand_str s f) i2 + 3)) with (Z.of_nat (rb (strand_str s f) i2) + 3) by lia.
  eapply mod3_diff; eauto.
Qed.

Lemma codon_residues s f i e : In (i, e) (hits START_WORDS s f) \/ In (i, e) (hits STOP_WORDS s f) ->
  Z.of_nat (rb (strand_str s f) i) mod 3 = frame_key f /\ rb (strand_str s f) e = (rb (strand_str s f) i + 3)%nat.
Proof.
  intros [H|H].
  - apply hits_residues in H; auto using start_words_nonempty, start_words_codons, start_letters_ok.
  - apply hits_residues in H; auto using stop_words_nonempty, stop_words_codons, stop_letters_ok.
Qed.

(* _frame_start returns the column of the k-th residue of the strand (k = frame offset), or len(data) if there are
   at most k residues: the first ORF of need_start='never' starts after exactly k residues *)
Lemma rb_cons c d m : rb (c :: d) (S m) = ((if is_gap c then 0 else 1) + rb d m)%nat.
Proof. unfold rb. cbn [firstn filter]. destruct (is_gap c); reflexivity. Qed.

Lemma frame_start_from_spec : forall data k i0,
  (i0 <= frame_start_from data k i0 <= i0 + length data)%nat /\
  ((frame_start_from data k i0 < i0 + length data)%nat ->
     rb data (frame_start_from data k i0 - i0) = k /\
     exists c, nth_error data (frame_start_from data k i0 - i0) = Some c /\ is_gap c = false) /\
  (frame_start_from data k i0 = (i0 + length data)%nat -> (nres data <= k)%nat).
Proof.
  induction data as [|c d IH]; intros k i0; cbn [frame_start_from length].
  - split; [lia|]. split; [lia|]. intros _. cbn. lia.
  - destruct (is_gap c) eqn:G.
    + destruct (IH k (S i0)) as (I1 & I2 & I3). split; [lia|]. split.
      * intros Hlt. destruct I2 as [R [c' [N G']]]; [lia|].
        replace (frame_start_from d k (S i0) - i0)%nat with (S (frame_start_from d k (S i0) - S i0)) by lia.
        rewrite rb_cons, G. split; [exact R|]. exists c'. split; [exact N|exact G'].
      * intros E. unfold nres in *. cbn [filter]. rewrite G. cbn [negb]. apply I3. lia.
    + destruct k as [|k'].
      * split; [lia|]. split.
        -- intros _. rewrite Nat.sub_diag. split; [reflexivity|]. exists c. split; [reflexivity|exact G].
        -- intros E. lia.
      * destruct (IH k' (S i0)) as (I1 & I2 & I3). split; [lia|]. split.
        -- intros Hlt. destruct I2 as [R [c' [N G']]]; [lia|].
           replace (frame_start_from d k' (S i0) - i0)%nat with (S (frame_start_from d k' (S i0) - S i0)) by lia.
           rewrite rb_cons, G, R. split; [reflexivity|]. exists c'. split; [exact N|exact G'].
        -- intros E. unfold nres in *. cbn [filter]. rewrite G. cbn [negb length]. specialize (I3 ltac:(lia)). lia.
Qed.

Theorem frame_start_residues data frame : frame_ok frame = true ->
  let i := frame_start data frame in
  (i <= length data)%nat /\
  ((i < length data)%nat -> Z.of_nat (rb data i) = frame_key frame /\
                            exists c, nth_error data i = Some c /\ is_gap c = false) /\
  (i = length data -> Z.of_nat (nres data) <= frame_key frame).
Proof.
  intros Hf. unfold frame_start, frame_key. unfold frame_ok in Hf.
  set (k := Z.to_nat (if frame >=? 0 then frame else - frame - 1)).
  assert (Ek : (if frame >=? 0 then frame else - frame - 1) = Z.of_nat k) by (unfold k; destruct (frame >=? 0) eqn:F; lia).
  rewrite Ek. destruct (frame_start_from_spec data k 0) as (I1 & I2 & I3).
  rewrite Nat.sub_0_r in I2. cbn [Nat.add] in *. split; [lia|]. split.
  - intros Hlt. destruct (I2 Hlt) as [R X]. split; [lia|exact X].
  - intros E. specialize (I3 E). lia.
Qed.
