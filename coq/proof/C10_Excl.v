(* C10: the exclude names 'translation' and 'seq' on ARBITRARY text: the reader's result is the result without that name with
   exactly the named part removed (simulation over the line loop). *)
From Coq Require Import List ZArith NArith Bool Lia.
From Coq.Strings Require Import Byte.
Import ListNotations.
From SV Require Import Text G_flags C10_Model.

Definition res_map {A B} (f : A -> B) (r : res A) : res B := match r with ROk a => ROk (f a) | RErr k => RErr k end.
Definition clear_seq (r : rec) : rec := mkrec (rid r) [] (rfts r) (rhdr r).
Definition del_tr (r : rec) : rec := mkrec (rid r) (rseq r) (option_map (map del_translation) (rfts r)) (rhdr r).

Lemma adel_idem {V} k (m : list (str * V)) : adel k (adel k m) = adel k m.
Proof.
  unfold adel. induction m as [|[a v] m IH]; [reflexivity|]. cbn [filter fst]. destruct (negb (str_eqb a k)) eqn:E; [|exact IH].
  cbn [filter fst]. rewrite E. now rewrite IH.
Qed.
Lemma del_translation_idem f : del_translation (del_translation f) = del_translation f.
Proof. unfold del_translation. cbn [ftype flocs fquals fseqid]. now rewrite adel_idem. Qed.

(* ---- 'translation' *)
Lemma om_idem (f1 : option (list feat)) (b : bool) :
  option_map (map del_translation) (if b then option_map (map del_translation) f1 else f1) = option_map (map del_translation) f1.
Proof.
  destruct b; [|reflexivity]. destruct f1 as [fl|]; [|reflexivity]. cbn [option_map]. f_equal. rewrite map_map. apply map_ext.
  intros f. apply del_translation_idem.
Qed.
Lemma finish_tr excl s : finish (k_translation :: excl) s = res_map del_tr (finish excl s).
Proof.
  unfold finish. destruct (fttype s); [reflexivity|].
  change (mem k_translation (k_translation :: excl)) with true. cbv iota.
  destruct (aget k_accession (attrs s)) as [[v|l]|]; [destruct (first_word v); [|reflexivity]| reflexivity |];
    unfold res_map, del_tr; cbn [rid rseq rfts rhdr]; rewrite om_idem; reflexivity.
Qed.
Lemma run_lines_tr excl ls : forall s acc,
  run_lines (k_translation :: excl) ls s (map del_tr acc) = res_map (map del_tr) (run_lines excl ls s acc).
Proof.
  induction ls as [|raw rest IH]; intros s acc; cbn [run_lines].
  - cbn [res_map]. now rewrite map_rev.
  - destruct (is_blank (rstrip raw)); [apply IH|].
    destruct (str_eqb (strip (rstrip raw)) sl2).
    + rewrite finish_tr. destruct (finish excl s) as [r|k]; [|reflexivity]. cbn [res_map]. apply (IH (st0 (key2 s)) (r :: acc)).
    + destruct (mode s).
      * destruct (step_header s (rstrip raw)); [apply IH|reflexivity].
      * change (step_fts (k_translation :: excl) s (rstrip raw)) with (step_fts excl s (rstrip raw)).
        destruct (step_fts excl s (rstrip raw)); [apply IH|reflexivity].
      * change (step_origin (k_translation :: excl) s (rstrip raw)) with (step_origin excl s (rstrip raw)).
        destruct (step_origin excl s (rstrip raw)); [apply IH|reflexivity].
Qed.
Lemma exclude_translation_any excl text :
  iter_genbank (k_translation :: excl) text = res_map (map del_tr) (iter_genbank excl text).
Proof. unfold iter_genbank. apply (run_lines_tr excl (file_lines text) (st0 None) []). Qed.

(* ---- 'seq' *)
Definition forget (s : st) : st := set_seq s [].
Lemma step_header_forget s l : step_header (forget s) l = res_map forget (step_header s l).
Proof.
  destruct s as [mo at_ ke sk ft ty fm k2 lc sq mf]. unfold step_header, forget, set_seq, set_hdr, set_mode. cbn [mode attrs key subkey fts fttype ftmeta key2 locs seq mfts].
  repeat match goal with |- context [match ?x with _ => _ end] => destruct x end; reflexivity.
Qed.
Lemma flush_forget s : flush (forget s) = res_map forget (flush s).
Proof.
  destruct s as [mo at_ ke sk ft ty fm k2 lc sq mf]. unfold flush, forget, set_seq, set_ft. cbn [mode attrs key subkey fts fttype ftmeta key2 locs seq mfts].
  repeat match goal with |- context [match ?x with _ => _ end] => destruct x end; reflexivity.
Qed.
Lemma step_fts_forget excl s l : step_fts (k_seq :: excl) (forget s) l = res_map forget (step_fts excl s l).
Proof.
  unfold step_fts. change (mem k_fts (k_seq :: excl)) with (mem k_fts excl).
  destruct (mem k_fts excl).
  { destruct (startswith k_origin (lower (strip (firstn 20 l)))); destruct s; reflexivity. }
  destruct (negb (is_blank (firstn 20 l))).
  - rewrite flush_forget. destruct (flush s) as [s1|k]; [|reflexivity]. cbn [res_map].
    destruct (first_word (strip (firstn 20 l))); [|reflexivity]. destruct (str_eqb (lower s0) k_origin); destruct s1; reflexivity.
  - destruct s as [mo at_ ke sk ft ty fm k2 lc sq mf]. unfold forget, set_seq, set_ft. cbn [mode attrs key subkey fts fttype ftmeta key2 locs seq mfts].
    repeat match goal with |- context [match ?x with _ => _ end] => destruct x end; reflexivity.
Qed.
Lemma step_origin_forget excl s l : step_origin (k_seq :: excl) (forget s) l = res_map forget (step_origin excl s l).
Proof.
  unfold step_origin. change (mem k_seq (k_seq :: excl)) with true. cbv iota.
  destruct (mem k_seq excl); [destruct s; reflexivity|]. destruct (10 <? length l)%nat; destruct s; reflexivity.
Qed.
Lemma finish_forget excl s : finish (k_seq :: excl) (forget s) = res_map clear_seq (finish excl s).
Proof.
  unfold finish. change (mem k_translation (k_seq :: excl)) with (mem k_translation excl).
  destruct s as [mo at_ ke sk ft ty fm k2 lc sq mf]. unfold forget, set_seq. cbn [mode attrs key subkey fts fttype ftmeta key2 locs seq mfts].
  destruct ty; [reflexivity|]. destruct (aget k_accession at_) as [[v|l]|]; [destruct (first_word v)| |]; reflexivity.
Qed.
Lemma run_lines_seq excl ls : forall s acc,
  run_lines (k_seq :: excl) ls (forget s) (map clear_seq acc) = res_map (map clear_seq) (run_lines excl ls s acc).
Proof.
  induction ls as [|raw rest IH]; intros s acc; cbn [run_lines].
  - cbn [res_map]. now rewrite map_rev.
  - destruct (is_blank (rstrip raw)); [apply IH|].
    destruct (str_eqb (strip (rstrip raw)) sl2).
    + rewrite finish_forget. destruct (finish excl s) as [r|k]; [|reflexivity]. cbn [res_map].
      change (key2 (forget s)) with (key2 s). apply (IH (st0 (key2 s)) (r :: acc)).
    + change (mode (forget s)) with (mode s). destruct (mode s).
      * rewrite step_header_forget. destruct (step_header s (rstrip raw)); [apply IH|reflexivity].
      * rewrite step_fts_forget. destruct (step_fts excl s (rstrip raw)); [apply IH|reflexivity].
      * rewrite step_origin_forget. destruct (step_origin excl s (rstrip raw)); [apply IH|reflexivity].
Qed.
Lemma exclude_seq_any excl text :
  iter_genbank (k_seq :: excl) text = res_map (map clear_seq) (iter_genbank excl text).
Proof. unfold iter_genbank. apply (run_lines_seq excl (file_lines text) (st0 None) []). Qed.

(* ---- the exclude tuple matters only through the membership of its three names (order, repetitions, other names: no effect) *)
Lemma run_lines_mem_ext e1 e2 : mem k_seq e1 = mem k_seq e2 -> mem k_fts e1 = mem k_fts e2 ->
  mem k_translation e1 = mem k_translation e2 -> forall ls s acc, run_lines e1 ls s acc = run_lines e2 ls s acc.
Proof.
  intros H1 H2 H3. induction ls as [|raw rest IH]; intros s acc; cbn [run_lines]; [reflexivity|].
  assert (F : finish e1 s = finish e2 s) by (unfold finish; now rewrite H3).
  assert (A : step_fts e1 s (rstrip raw) = step_fts e2 s (rstrip raw)) by (unfold step_fts; now rewrite H2).
  assert (B : step_origin e1 s (rstrip raw) = step_origin e2 s (rstrip raw)) by (unfold step_origin; now rewrite H1).
  rewrite F, A, B. destruct (is_blank (rstrip raw)); [apply IH|]. destruct (str_eqb (strip (rstrip raw)) sl2).
  - destruct (finish e2 s); [apply IH|reflexivity].
  - destruct (mode s); [destruct (step_header s (rstrip raw))|destruct (step_fts e2 s (rstrip raw))|destruct (step_origin e2 s (rstrip raw))];
      (apply IH || reflexivity).
Qed.
Lemma iter_mem_ext e1 e2 text : mem k_seq e1 = mem k_seq e2 -> mem k_fts e1 = mem k_fts e2 ->
  mem k_translation e1 = mem k_translation e2 ->
  iter_genbank e1 text = iter_genbank e2 text /\ read_fts_genbank e1 text = read_fts_genbank e2 text.
Proof.
  intros H1 H2 H3. split; [apply run_lines_mem_ext; assumption|]. unfold read_fts_genbank, iter_genbank.
  rewrite (run_lines_mem_ext (k_seq :: e1) (k_seq :: e2)); [reflexivity|reflexivity| |].
  - change (mem k_fts (k_seq :: e1)) with (mem k_fts e1). change (mem k_fts (k_seq :: e2)) with (mem k_fts e2). exact H2.
  - change (mem k_translation (k_seq :: e1)) with (mem k_translation e1). change (mem k_translation (k_seq :: e2)) with (mem k_translation e2). exact H3.
Qed.
