(* C18 proofs, object model: slicing a sequence (seq.py:447-498) builds a NEW sequence whose metadata is a NEW top-level Meta
   holding the SAME item values as the origin: nested metadata objects and the FeatureList meta.fts are shared by design. *)
From Coq Require Import List ZArith NArith Bool Lia.
From Coq.Strings Require Import Byte.
Import ListNotations.
From SV Require Import Text G_attr G_codes C18_Model C18_Heap C18_Lemmas C18_HeapLemmas C18_HeapOps C18_Obj C18_ObjLemmas C18_ObjElems.

Lemma interp_alloc c k kn h res : interp (Alloc c k) kn h = inl res -> interp (k (length h)) (length h :: kn) (h ++ [c]) = inl res.
Proof. cbn [interp]. destruct (subsetb _ _); [auto|discriminate]. Qed.
Lemma interp_write l c k kn h res : interp (Write l c k) kn h = inl res -> interp k kn (set_nth h l c) = inl res.
Proof. cbn [interp]. destruct (_ && _); [auto|discriminate]. Qed.
Lemma interp_ret v kn h h' r : interp (Ret v) kn h = inl (h', r) -> h' = h /\ r = v.
Proof. cbn [interp]. destruct (val_known kn v); [|discriminate]. intros E. inversion E. auto. Qed.

Theorem slice_shares_meta i a b j q s s' r l c : ostep (OPure i (PSlice a b) j q) s = inl (s', r) ->
  onav_pure (fst s) (oreg s j) q = Some (HRef l) -> nth_error (fst s) l = Some c -> ocls c = KSeq ->
  exists d m mc lnew mnew cnew mcnew,
    seq_data c = Some d /\ aget kmeta (ofs c) = Some (HRef m) /\ nth_error (fst s) m = Some mc /\
    r = HRef lnew /\ nth_error (fst s') lnew = Some cnew /\ ocls cnew = KSeq /\
    seq_data cnew = Some (upper (slice_py d a b)) /\ aget kmeta (ofs cnew) = Some (HRef mnew) /\
    length (fst s) <= mnew /\ length (fst s) <= lnew /\
    nth_error (fst s') mnew = Some mcnew /\ ocls mcnew = KMeta /\
    ofs mcnew = (if amem kid (ofs mc) then ofs mc else aset kid (HStr []) (ofs mc)).
Proof.
  unfold ostep. cbn [op_regs op_cmd op_dst map nth]. destruct (interp _ _ _) as [[h' r']|e] eqn:E; [|discriminate].
  intros X P N K. inversion X; subst. clear X. cbn [fst]. apply interp_onav in E. destruct E as (v' & kn' & P' & E & _).
  rewrite P in P'. inversion P'; subst v'. clear P'. apply interp_rd in E. destruct E as (l0 & c0 & L0 & N0 & Hl & E).
  inversion L0; subst l0. rewrite N in N0. inversion N0; subst c0. clear L0 N0.
  cbn [pure_cmd] in E. rewrite K in E. destruct (seq_data c) as [d|] eqn:SD; [|discriminate].
  destruct (aget kmeta (ofs c)) as [m|] eqn:AM; [|discriminate].
  unfold new_seq, rewrap in E. apply interp_rd in E. destruct E as (m0 & mc & -> & Nm & _ & E).
  destruct (attrcls (ocls mc)); [|discriminate]. apply interp_read_all in E. destruct E as (cs & kn2 & _ & E). cbn [rev app] in E.
  destruct (existsb _ cs); [discriminate|]. apply interp_alloc in E. cbn [rd] in E. cbn [interp] in E.
  destruct (memb (length (fst s)) _); [|discriminate]. rewrite nth_error_app_last in E.
  set (h1 := fst s ++ [OC KMeta (ofs mc) []]) in *.
  assert (length h1 = S (length (fst s))) as L1 by (unfold h1; rewrite app_length; cbn; lia).
  exists d, m0, mc. cbn [ofs] in E. destruct (amem kid (ofs mc)) eqn:AK.
  - apply interp_alloc in E. apply interp_ret in E. destruct E as [-> ->].
    exists (length h1), (length (fst s)),
      (OC KSeq [(kdata, HStr (upper (slice_py d a b))); (kmeta, HRef (length (fst s))); (ktype, HStr (seq_type (upper (slice_py d a b))))] []),
      (OC KMeta (ofs mc) []).
    split; [reflexivity|]. split; [reflexivity|]. split; [exact Nm|]. split; [reflexivity|].
    split; [apply nth_error_app_last|]. split; [reflexivity|]. split; [reflexivity|]. split; [reflexivity|].
    split; [lia|]. split; [lia|]. split; [|split; reflexivity].
    rewrite app_old by lia. unfold h1. apply nth_error_app_last.
  - apply interp_write in E. apply interp_alloc in E. apply interp_ret in E. destruct E as [-> ->].
    rewrite length_set_nth.
    exists (length h1), (length (fst s)),
      (OC KSeq [(kdata, HStr (upper (slice_py d a b))); (kmeta, HRef (length (fst s))); (ktype, HStr (seq_type (upper (slice_py d a b))))] []),
      (set_slot (OC KMeta (ofs mc) []) kid (HStr [])).
    split; [reflexivity|]. split; [reflexivity|]. split; [exact Nm|]. split; [reflexivity|].
    split; [rewrite <- (length_set_nth h1 (length (fst s)) (set_slot (OC KMeta (ofs mc) []) kid (HStr []))); apply nth_error_app_last|].
    split; [reflexivity|]. split; [reflexivity|]. split; [reflexivity|].
    split; [lia|]. split; [lia|]. split; [|split; reflexivity].
    rewrite app_old by (rewrite length_set_nth; lia). apply nth_error_set_nth_same. lia.
Qed.

(* in particular: the FeatureList (and every nested metadata object) of the slice IS the one of the origin *)
Corollary slice_shares_fts i a b j q s s' r l c : ostep (OPure i (PSlice a b) j q) s = inl (s', r) ->
  onav_pure (fst s) (oreg s j) q = Some (HRef l) -> nth_error (fst s) l = Some c -> ocls c = KSeq ->
  exists m mc lnew mnew cnew mcnew,
    aget kmeta (ofs c) = Some (HRef m) /\ nth_error (fst s) m = Some mc /\ r = HRef lnew /\ nth_error (fst s') lnew = Some cnew /\
    aget kmeta (ofs cnew) = Some (HRef mnew) /\ mnew <> m /\ nth_error (fst s') mnew = Some mcnew /\
    forall k, k <> kid -> aget k (ofs mcnew) = aget k (ofs mc).
Proof.
  intros E P N K. destruct (slice_shares_meta _ _ _ _ _ _ _ _ _ _ E P N K) as (d & m & mc & lnew & mnew & cnew & mcnew & H).
  destruct H as (_ & A & B & C & D & _ & _ & F & G & _ & H & _ & I0).
  exists m, mc, lnew, mnew, cnew, mcnew. repeat (split; [assumption|]). split.
  - intros ->. assert (m < length (fst s)) by (apply nth_error_Some; unfold oheap in *; rewrite B; discriminate). lia.
  - split; [exact H|]. intros k NK. rewrite I0. destruct (amem kid (ofs mc)); [reflexivity|]. apply aget_aset_other. congruence.
Qed.

(* an in-place transformation of a SEQUENCE changes exactly its residues: same object, same class, same metadata object, and
   nothing else in the store changes *)
Theorem inplace_seq_effect d f j q s s' r l c : ostep (OInpl d f j q) s = inl (s', r) ->
  onav_pure (fst s) (oreg s j) q = Some (HRef l) -> nth_error (fst s) l = Some c -> ocls c = KSeq ->
  exists g dat, seq_fn f = Some g /\ seq_data c = Some dat /\
    nth_error (fst s') l = Some (set_slot c kdata (HStr (g dat))) /\
    length (fst s') = length (fst s) /\ forall x, x <> l -> nth_error (fst s') x = nth_error (fst s) x.
Proof.
  unfold ostep. cbn [op_regs op_cmd op_dst map nth]. destruct (interp _ _ _) as [[h' r']|e] eqn:E; [|discriminate].
  intros X P N K. inversion X; subst. clear X. cbn [fst]. apply interp_onav in E. destruct E as (v' & kn' & P' & E & _).
  rewrite P in P'. inversion P'; subst v'. clear P'. apply interp_rd in E. destruct E as (l0 & c0 & L0 & N0 & Hl & E).
  inversion L0; subst l0. rewrite N in N0. inversion N0; subst c0. clear L0 N0.
  unfold inplace_cmd in E. rewrite K in E. destruct (seq_fn f) as [g|]; [|discriminate].
  unfold seq_map in E. destruct (seq_data c) as [dat|] eqn:SD; [|discriminate].
  apply interp_write_ret in E. destruct E as (-> & L & _). exists g, dat. split; [reflexivity|]. split; [reflexivity|].
  split; [apply nth_error_set_nth_same; exact L|]. split; [apply length_set_nth|].
  intros x NE. apply nth_error_set_nth_other. congruence.
Qed.
Lemma reverse_involutive (dat : str) : rev (rev dat) = dat.
Proof. apply rev_involutive. Qed.
