(* C13, P1 finditer_words_complete in full: for plain words (letters only, none of them the gap character) that are
   prefix-free and have no proper overlap -- decided by booleans on the word list, true of 'start' and 'stop' --
   every occurrence is reported by finditer, with exactly its own extent. *)
From Coq Require Import List ZArith NArith Bool Lia.
From Coq.Strings Require Import Byte.
Import ListNotations.
From SV Require Import Text G_codes C05_Model C13_Model C13_Lemmas.

Fixpoint is_prefix (a b : str) : bool :=
  match a, b with
  | [], _ => true
  | x :: a', y :: b' => byte_eqb x y && is_prefix a' b'
  | _ :: _, [] => false
  end.
Definition comparable (a b : str) : bool := is_prefix a b || is_prefix b a.
(* the non-empty proper suffixes of a word *)
Fixpoint proper_suffixes (w : str) : list str :=
  match w with
  | [] => []
  | _ :: r => match r with [] => [] | _ :: _ => r :: proper_suffixes r end
  end.
Definition no_overlap (ws : list str) : bool :=
  forallb (fun w1 => forallb (fun x => forallb (fun w2 => negb (comparable x w2)) ws) (proper_suffixes w1)) ws.
Definition prefix_free (ws : list str) : bool :=
  forallb (fun w1 => forallb (fun w2 => negb (is_prefix w1 w2) || str_eqb w1 w2) ws) ws.
Definition plain_word (g : str) (w : str) : bool :=
  forallb (fun c => negb (has c g) && negb (byte_eqb c cdot)) w.

Lemma is_prefix_app a : forall b, is_prefix a b = true <-> exists z, b = a ++ z.
Proof.
  induction a as [|x a IH]; intros b; cbn.
  - split; [intros _; exists b; reflexivity|auto].
  - destruct b as [|y b].
    + split; [discriminate|intros (z & H); discriminate].
    + rewrite andb_true_iff, byte_eqb_eq, IH. split.
      * intros (-> & z & ->). exists z. reflexivity.
      * intros (z & H). inversion H; subst. split; [reflexivity|exists z; reflexivity].
Qed.
Lemma app_compat {A} (a : list A) : forall b x y, a ++ x = b ++ y -> (exists z, a = b ++ z) \/ (exists z, b = a ++ z).
Proof.
  induction a as [|h a IH]; intros b x y H.
  - right. exists b. reflexivity.
  - destruct b as [|h' b].
    + left. exists (h :: a). reflexivity.
    + cbn in H. inversion H; subst h'. destruct (IH _ _ _ H2) as [(z & ->)|(z & ->)].
      * left. exists z. reflexivity.
      * right. exists z. reflexivity.
Qed.

Lemma gaps_cancel (g : str) (c : byte) gs : forall gs' X X', has c g = false -> all_in g gs = true -> all_in g gs' = true ->
  gs ++ c :: X = gs' ++ c :: X' -> gs = gs' /\ X = X'.
Proof.
  unfold all_in. induction gs as [|x gs IH]; intros [|y gs'] X X' Hc H1 H2 E; cbn in E.
  - inversion E. auto.
  - inversion E; subst y. cbn in H2. rewrite Hc in H2. discriminate.
  - inversion E; subst x. cbn in H1. rewrite Hc in H1. discriminate.
  - inversion E; subst y. cbn [forallb] in H1, H2. apply andb_prop in H1, H2.
    destruct (IH gs' X X' Hc (proj2 H1) (proj2 H2) H3) as [-> ->]. auto.
Qed.

Lemma plain_cons g c r : plain_word g (c :: r) = true -> has c g = false /\ byte_eqb c cdot = false /\ plain_word g r = true.
Proof.
  cbn. intros H. apply andb_prop in H. destruct H as [H1 H2]. apply andb_prop in H1. destruct H1 as [Ha Hb].
  apply negb_true_iff in Ha, Hb. auto.
Qed.

(* shape of a match of a plain word with at least two letters *)
Lemma irel_plain_step g c c' r t : plain_word g (c :: c' :: r) = true -> irel (compile_word (Some g) (c :: c' :: r)) t ->
  exists gs t2, t = c :: gs ++ t2 /\ all_in g gs = true /\ irel (compile_word (Some g) (c' :: r)) t2.
Proof.
  intros Hp H. apply plain_cons in Hp. destruct Hp as (_ & Hd & _).
  change (compile_word (Some g) (c :: c' :: r)) with (item_of c :: IStar g :: compile_word (Some g) (c' :: r)) in H.
  unfold item_of at 1 in H. rewrite Hd in H. inversion H as [|? ? ? H1| |]; subst. inversion H1 as [| | |? gs ? t' Hgs H2]; subst.
  exists gs, t'. auto.
Qed.
Lemma irel_plain_one g c t : plain_word g [c] = true -> irel (compile_word (Some g) [c]) t -> t = [c].
Proof.
  intros Hp H. apply plain_cons in Hp. destruct Hp as (_ & Hd & _). cbn in H. unfold item_of in H. rewrite Hd in H.
  inversion H as [|? ? ? H1| |]; subst. inversion H1. reflexivity.
Qed.
Lemma irel_plain_head g c r t : plain_word g (c :: r) = true -> irel (compile_word (Some g) (c :: r)) t -> exists t', t = c :: t'.
Proof.
  intros Hp H. destruct r as [|c' r].
  - apply irel_plain_one in H; [|exact Hp]. subst. eauto.
  - apply irel_plain_step in H; [|exact Hp]. destruct H as (k & t2 & -> & _ & _). eauto.
Qed.

(* a plain word matches at most one prefix of a given text *)
Lemma irel_plain_unique g w : forall t t' u u', plain_word g w = true ->
  irel (compile_word (Some g) w) t -> irel (compile_word (Some g) w) t' -> t ++ u = t' ++ u' -> t = t'.
Proof.
  induction w as [|c r IH]; intros t t' u u' Hp H H' E.
  - cbn in H, H'. inversion H. inversion H'. reflexivity.
  - destruct r as [|c' r].
    + apply irel_plain_one in H, H'; try exact Hp. congruence.
    + pose proof Hp as Hp0. apply plain_cons in Hp. destruct Hp as (_ & _ & Hp).
      destruct (irel_plain_step _ _ _ _ _ Hp0 H) as (k & t2 & -> & Hk & H2).
      destruct (irel_plain_step _ _ _ _ _ Hp0 H') as (k' & t2' & -> & Hk' & H2').
      destruct (irel_plain_head _ _ _ _ Hp H2) as (x & ->). destruct (irel_plain_head _ _ _ _ Hp H2') as (x' & ->).
      cbn in E. inversion E as [E1]. rewrite <- !app_assoc in E1. cbn in E1.
      apply plain_cons in Hp. destruct Hp as (Hc & _ & _).
      apply (gaps_cancel g) in E1; [|exact Hc|exact Hk|exact Hk']. destruct E1 as [-> E1].
      f_equal. f_equal. apply (IH (c' :: x) (c' :: x') u u'); auto.
      * apply plain_cons in Hp0. tauto.
      * cbn. f_equal. exact E1.
Qed.

Lemma skipn_gaps_lt g gs : forall k t, (k < length gs)%nat -> all_in g gs = true ->
  exists x rest, skipn k (gs ++ t) = x :: rest /\ has x g = true.
Proof.
  unfold all_in. induction gs as [|y gs IH]; intros k t Hk Hg; cbn in Hk; [lia|].
  cbn [forallb] in Hg. apply andb_prop in Hg. destruct Hg as [Hy Hg]. destruct k as [|k].
  - exists y, (gs ++ t). auto.
  - cbn [app skipn]. apply IH; [lia|exact Hg].
Qed.
Lemma skipn_gaps_ge (gs : str) k t : (length gs <= k)%nat -> skipn k (gs ++ t) = skipn (k - length gs) t.
Proof. intros H. rewrite skipn_app. rewrite skipn_all2 by lia. reflexivity. Qed.
Lemma skipn_skipn_add {A} (s : list A) : forall b k, skipn k (skipn b s) = skipn (b + k) s.
Proof. induction s as [|x s IH]; intros [|b] k; cbn; try reflexivity; [now rewrite skipn_nil|apply IH]. Qed.

(* a position strictly inside a match of a plain word that holds a non-gap character starts a proper suffix of the word *)
Lemma suffix_at_letter g w1 : forall t1 k, plain_word g w1 = true -> irel (compile_word (Some g) w1) t1 ->
  (0 < k < length t1)%nat -> (exists x rest, skipn k t1 = x :: rest /\ has x g = false) ->
  In (degap g (skipn k t1)) (proper_suffixes w1).
Proof.
  induction w1 as [|c r IH]; intros t1 k Hp H Hk Hx.
  - cbn in H. inversion H; subst. cbn in Hk. lia.
  - destruct r as [|c' r].
    + apply irel_plain_one in H; [|exact Hp]. subst. cbn in Hk. lia.
    + pose proof Hp as Hp0. apply plain_cons in Hp. destruct Hp as (_ & _ & Hp).
      destruct (irel_plain_step _ _ _ _ _ Hp0 H) as (gs & t2 & -> & Hgs & H2).
      destruct k as [|k0]; [lia|]. cbn [skipn] in *. cbn [length] in Hk. rewrite app_length in Hk.
      change (proper_suffixes (c :: c' :: r)) with ((c' :: r) :: proper_suffixes (c' :: r)).
      destruct (Nat.lt_trichotomy k0 (length gs)) as [Hlt|[Heq|Hgt]].
      * exfalso. destruct Hx as (x & rest & E & Hne).
        destruct (skipn_gaps_lt g gs k0 t2 Hlt Hgs) as (x' & rest' & E' & Hx'). rewrite E' in E. inversion E; subst. congruence.
      * subst k0. rewrite skipn_gaps_ge by lia. rewrite Nat.sub_diag. cbn [skipn]. left.
        symmetry. apply irel_degap; assumption.
      * right. rewrite skipn_gaps_ge by lia. rewrite skipn_gaps_ge in Hx by lia.
        apply IH; auto. lia.
Qed.

Lemma In_forallb {A} (f : A -> bool) l x : forallb f l = true -> In x l -> f x = true.
Proof. intros H. rewrite forallb_forall in H. apply H. Qed.

Theorem words_once g sub s w t u p :
  wf_sub sub = true -> forallb (plain_word g) (words sub) = true ->
  prefix_free (words sub) = true -> no_overlap (words sub) = true ->
  In w (words sub) -> irel (compile_word (Some g) w) t -> skipn p s = t ++ u ->
  In (p, (p + length t)%nat) (finditer (compile (Some g) (expand_sub sub)) s 0 0).
Proof.
  intros Hwf Hplain Hpf Hno Hw Hr Hs.
  destruct (occurrences_complete (Some g) sub s w t u p Hwf Hw Hr Hs) as (b & e & Hi & Hb & He).
  pose proof (finditer_sound _ _ _ _ _ _ Hi) as (_ & Hbe & Hel & Hm). rewrite Nat.sub_0_r in Hm. cbn in Hel.
  apply m_alts_sound in Hm. destruct Hm as (a & Ha & Hm). unfold compile in Ha. apply in_map_iff in Ha.
  destruct Ha as (w1 & <- & Hw1). fold (words sub) in Hw1.
  apply m_items_sound in Hm. destruct Hm as [Hlen Hr1].
  set (t1 := firstn (e - b) (skipn b s)) in *. set (rest1 := skipn (e - b) (skipn b s)).
  assert (Eb : skipn b s = t1 ++ rest1) by (symmetry; apply firstn_skipn).
  assert (Lt1 : length t1 = (e - b)%nat) by (unfold t1; apply firstn_length_le; exact Hlen).
  pose proof (In_forallb _ _ _ Hplain Hw) as Pw. pose proof (In_forallb _ _ _ Hplain Hw1) as Pw1.
  assert (Dw : degap g t = w) by (apply irel_degap; assumption).
  assert (Dw1 : degap g t1 = w1) by (apply irel_degap; assumption).
  destruct (Nat.eq_dec b p) as [->|Hne].
  - (* same column: same word, same extent *)
    assert (Eww : w = w1).
    { rewrite Hs in Eb. destruct (app_compat _ _ _ _ Eb) as [(z & Ez)|(z & Ez)].
      - assert (Hp : is_prefix w1 w = true) by (apply is_prefix_app; exists (degap g z); rewrite <- Dw, <- Dw1, Ez; apply degap_app).
        unfold prefix_free in Hpf. pose proof (In_forallb _ _ _ (In_forallb _ _ _ Hpf Hw1) Hw) as H. cbn beta in H.
        rewrite Hp in H. cbn in H. apply str_eqb_eq in H. congruence.
      - assert (Hp : is_prefix w w1 = true) by (apply is_prefix_app; exists (degap g z); rewrite <- Dw, <- Dw1, Ez; apply degap_app).
        unfold prefix_free in Hpf. pose proof (In_forallb _ _ _ (In_forallb _ _ _ Hpf Hw) Hw1) as H. cbn beta in H.
        rewrite Hp in H. cbn in H. apply str_eqb_eq in H. exact H. }
    clear Dw1. subst w1. rewrite Hs in Eb. pose proof (irel_plain_unique g w _ _ _ _ Pw Hr Hr1 Eb) as Et.
    rewrite Et, Lt1. replace (p + (e - p))%nat with e by lia. exact Hi.
  - (* strictly inside a reported match: impossible without overlap *)
    exfalso. set (k := (p - b)%nat). assert (Hk : (0 < k < length t1)%nat) by (unfold k; lia).
    assert (Ep : skipn k t1 ++ rest1 = t ++ u).
    { rewrite <- Hs. replace p with (b + k)%nat by (unfold k; lia). rewrite <- skipn_skipn_add, Eb.
      rewrite skipn_app. replace (k - length t1)%nat with 0%nat by lia. reflexivity. }
    unfold wf_sub in Hwf. apply andb_prop in Hwf. destruct Hwf as [_ Hne'].
    pose proof (In_forallb _ _ _ Hne' Hw) as Hwne. destruct w as [|c r]; [discriminate|].
    destruct (irel_plain_head _ _ _ _ Pw Hr) as (t' & Et). apply plain_cons in Pw. destruct Pw as (Hcg & _ & _).
    assert (Hx : exists x rest, skipn k t1 = x :: rest /\ has x g = false).
    { destruct (skipn k t1) as [|x rest] eqn:Esk.
      - apply (f_equal (@length _)) in Esk. rewrite skipn_length in Esk. cbn in Esk. lia.
      - exists x, rest. split; [reflexivity|]. rewrite Et in Ep. cbn in Ep. inversion Ep. congruence. }
    pose proof (suffix_at_letter g w1 t1 k Pw1 Hr1 Hk Hx) as Hsuf.
    assert (Hc : comparable (degap g (skipn k t1)) (c :: r) = true).
    { unfold comparable. apply orb_true_iff. destruct (app_compat _ _ _ _ Ep) as [(z & Ez)|(z & Ez)].
      - right. apply is_prefix_app. exists (degap g z). rewrite Ez, degap_app, Dw. reflexivity.
      - left. apply is_prefix_app. exists (degap g z). rewrite <- Dw, Ez, degap_app. reflexivity. }
    unfold no_overlap in Hno.
    pose proof (In_forallb _ _ _ (In_forallb _ _ _ (In_forallb _ _ _ Hno Hw1) Hsuf) Hw) as H. cbn beta in H.
    rewrite Hc in H. discriminate.
Qed.

(* the booleans hold for the built-in patterns, for every gap string over the gap symbols *)
Lemma letter_not_gap g : forallb gap_char_ok g = true -> forall c, is_alpha c = true -> has c g = false.
Proof.
  induction g as [|x g IH]; intros H c Hc; [reflexivity|]. cbn [forallb] in H. apply andb_prop in H. destruct H as [Hx H].
  unfold has. cbn [existsb]. fold (has c g). rewrite (IH H c Hc).
  assert (E : x = "-"%byte \/ x = "."%byte \/ x = "~"%byte) by (destruct x; vm_compute in Hx; try discriminate; auto).
  destruct E as [->|[->| ->]]; destruct c; vm_compute in Hc; try discriminate; reflexivity.
Qed.
Lemma start_stop_once : forall g sub, forallb gap_char_ok g = true -> (sub = bs "start"%bs \/ sub = bs "stop"%bs) ->
  wf_sub sub = true /\ forallb (plain_word g) (words sub) = true /\
  prefix_free (words sub) = true /\ no_overlap (words sub) = true.
Proof.
  intros g sub Hg Hs.
  assert (P : forall c, is_alpha c = true -> negb (has c g) && negb (byte_eqb c cdot) = true).
  { intros c Hc. rewrite (letter_not_gap g Hg c Hc). destruct c; vm_compute in Hc; try discriminate; reflexivity. }
  destruct Hs as [->| ->]; (split; [vm_compute; reflexivity|]); (split; [|split; vm_compute; reflexivity]);
    cbv [words expand_sub]; cbn [str_eqb]; vm_compute split_on; cbn [forallb plain_word]; rewrite !P by reflexivity; reflexivity.
Qed.
