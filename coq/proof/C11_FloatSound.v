(* C11 round 7: the converse of float_parse: whatever the modelled float() accepts is a text of the grammar (with its value) or
   one of the words inf / infinity / nan; hence everything else is rejected (float_rejects). *)
From Coq Require Import List ZArith NArith Bool Lia.
From Coq.Strings Require Import Byte.
Import ListNotations.
From SV Require Import Text G_tab C11_Model C11_Lemmas C11_TextLemmas C11_FileLemmas C11_IntLemmas C11_FloatLemmas.
Local Open Scope Z_scope.

(* the same function with the point test written as a boolean *)
Definition py_float' (v : str) : option flit :=
  let '(neg, s) := split_sign (strip_num v) in
  let l := map lower1 s in
  if str_eqb l (bs "inf"%bs) || str_eqb l (bs "infinity"%bs) then Some (FInf neg)
  else if str_eqb l (bs "nan"%bs) then Some FNan
  else
    let '(ip, ni, r1) := span_digits s 0 0 in
    let '(m, nf, r2) := match r1 with
                        | c :: r => if byte_eqb c "."%byte then span_digits r ip 0 else (ip, 0, r1)
                        | [] => (ip, 0, r1)
                        end in
    if (ni + nf =? 0) then None
    else match r2 with
         | [] => Some (FNum neg m (- nf))
         | c :: r3 =>
             if byte_eqb c "e"%byte || byte_eqb c "E"%byte then
               let '(eneg, r4) := split_sign r3 in
               match span_digits r4 0 0 with
               | (e, ne, []) => if ne =? 0 then None else Some (FNum neg m ((if eneg then - e else e) - nf))
               | _ => None
               end
             else None
         end.
Lemma py_float_alt v : py_float v = py_float' v.
Proof.
  unfold py_float, py_float'. destruct (split_sign (strip_num v)) as [neg s].
  destruct (_ || _); [reflexivity|]. destruct (str_eqb _ _); [reflexivity|].
  destruct (span_digits s 0 0) as [[ipv ni] r1]. destruct r1 as [|c r]; [reflexivity|]. destruct c; reflexivity.
Qed.

(* ---------------- decompositions ---------------- *)
Lemma lstrip_num_decomp s : exists a, s = a ++ lstrip_num s /\ all_space_num a = true.
Proof.
  induction s as [|c r IH]; [exists []; split; reflexivity|]. cbn [lstrip_num]. destruct (is_space_num c) eqn:E.
  - destruct IH as (a & E1 & E2). exists (c :: a). split; [cbn [app]; congruence|]. unfold all_space_num in *. cbn [forallb]. rewrite E, E2. reflexivity.
  - exists []. split; reflexivity.
Qed.
Lemma strip_num_decomp v : exists a b, v = a ++ strip_num v ++ b /\ all_space_num a = true /\ all_space_num b = true.
Proof.
  destruct (lstrip_num_decomp v) as (a & Ea & Sa). destruct (lstrip_num_decomp (rev (lstrip_num v))) as (b' & Eb & Sb).
  exists a, (rev b'). split; [|split; [exact Sa|rewrite all_space_num_rev; exact Sb]].
  unfold strip_num. rewrite <- rev_app_distr. rewrite <- Eb. rewrite rev_involutive. exact Ea.
Qed.
Lemma split_sign_decomp t neg s : split_sign t = (neg, s) -> exists sg, t = sg ++ s /\ sign_ok sg = true /\ sign_neg sg = neg.
Proof.
  unfold split_sign. destruct t as [|c r].
  - intros H. inversion H. exists []. repeat split.
  - destruct (byte_eqb c "-"%byte) eqn:E1; [|destruct (byte_eqb c "+"%byte) eqn:E2].
    + apply byte_eqb_eq in E1. subst c. intros H. inversion H. exists (bs "-"%bs). repeat split.
    + apply byte_eqb_eq in E2. subst c. intros H. inversion H. exists (bs "+"%bs). repeat split.
    + intros H. assert (X : (neg, s) = (false, c :: r)).
      { rewrite <- H. clear H. destruct c; try reflexivity; cbn in E1, E2; discriminate. }
      inversion X. exists []. repeat split.
Qed.
Lemma span_digits_decomp : forall s acc n v n' r, span_digits s acc n = (v, n', r) ->
  exists ds, s = ds ++ r /\ all_digits ds = true /\ v = dval ds acc /\ n' = n + Z.of_nat (length ds) /\ head_nondigit r = true.
Proof.
  induction s as [|c s IH]; intros acc n v n' r H; cbn [span_digits] in H.
  - inversion H; subst. exists []. split; [reflexivity|]. split; [reflexivity|]. split; [reflexivity|]. split; [cbn [length]; lia|reflexivity].
  - destruct (digit_val c) as [dg|] eqn:D.
    + destruct (IH _ _ _ _ _ H) as (ds & E1 & E2 & E3 & E4 & E5). exists (c :: ds). split; [cbn [app]; congruence|].
      split; [cbn [all_digits forallb]; unfold is_digit; rewrite D; exact E2|]. split; [cbn [dval]; rewrite D; exact E3|].
      split; [cbn [length]; lia|exact E5].
    + inversion H; subst. exists []. split; [reflexivity|]. split; [reflexivity|]. split; [reflexivity|]. split; [cbn [length]; lia|].
      cbn. unfold is_digit. rewrite D. reflexivity.
Qed.

(* ---------------- soundness ---------------- *)
Definition float_shape (v : str) (x : flit) : Prop :=
  (exists a b sg ip fp ex, v = a ++ float_text sg ip fp ex ++ b /\ all_space_num a = true /\ all_space_num b = true /\
     float_text_ok sg ip fp ex = true /\ x = float_text_val sg ip fp ex) \/
  (exists a b sg w k, v = a ++ (sg ++ w) ++ b /\ all_space_num a = true /\ all_space_num b = true /\
     sign_ok sg = true /\ is_word w = Some k /\ x = if k then FInf (sign_neg sg) else FNan).

Lemma float_sound v x : py_float v = Some x -> float_shape v x.
Proof.
  rewrite py_float_alt. unfold py_float'.
  destruct (strip_num_decomp v) as (a & b & EV & SA & SB).
  destruct (split_sign (strip_num v)) as [neg s] eqn:SS.
  destruct (split_sign_decomp _ _ _ SS) as (sg & ET & SG & SN).
  destruct (str_eqb (map lower1 s) (bs "inf"%bs) || str_eqb (map lower1 s) (bs "infinity"%bs)) eqn:W1.
  { intros H. inversion H. right. exists a, b, sg, s, true. rewrite <- ET. repeat split; try assumption.
    - unfold is_word. rewrite W1. reflexivity.
    - rewrite SN. reflexivity. }
  destruct (str_eqb (map lower1 s) (bs "nan"%bs)) eqn:W2.
  { intros H. inversion H. right. exists a, b, sg, s, false. rewrite <- ET. repeat split; try assumption.
    unfold is_word. rewrite W1, W2. reflexivity. }
  destruct (span_digits s 0 0) as [[ipv ni] r1] eqn:SP1.
  destruct (span_digits_decomp _ _ _ _ _ _ SP1) as (ip & E1 & D1 & V1 & N1 & H1).
  (* the fraction *)
  assert (FR : exists fp r2 m nf,
    (match r1 with
     | c :: r => if byte_eqb c "."%byte then span_digits r ipv 0 else (ipv, 0, r1)
     | [] => (ipv, 0, r1)
     end) = (m, nf, r2) /\ r1 = frac_text fp ++ r2 /\ all_digits (frac_digits fp) = true /\
    m = dval (frac_digits fp) ipv /\ nf = Z.of_nat (length (frac_digits fp)) /\
    (fp = None -> match r2 with c :: _ => byte_eqb c "."%byte = false | [] => True end)).
  { destruct r1 as [|c r].
    - exists None, [], ipv, 0. cbn [frac_text frac_digits app dval length]. repeat split; reflexivity.
    - destruct (byte_eqb c "."%byte) eqn:EC.
      + apply byte_eqb_eq in EC. subst c. destruct (span_digits r ipv 0) as [[m nf] r2] eqn:SP2.
        destruct (span_digits_decomp _ _ _ _ _ _ SP2) as (fd & E2 & D2 & V2 & N2 & H2).
        exists (Some fd), r2, m, nf. cbn [frac_text frac_digits].
        split; [replace (byte_eqb "."%byte "."%byte) with true by reflexivity; reflexivity|].
        split; [cbn [app]; congruence|]. split; [exact D2|]. split; [exact V2|]. split; [lia|discriminate].
      + exists None, (c :: r), ipv, 0. cbn [frac_text frac_digits app dval length].
        split; [reflexivity|]. split; [reflexivity|]. split; [reflexivity|]. split; [reflexivity|]. split; [reflexivity|]. intros _. exact EC. }
  destruct FR as (fp & r2 & m & nf & -> & ER1 & DF & VM & VN & NODOT).
  destruct (ni + nf =? 0) eqn:NZ; [discriminate|]. apply Z.eqb_neq in NZ.
  assert (LEN : negb (Nat.eqb (length ip + match fp with Some f => length f | None => 0%nat end) 0) = true).
  { destruct (Nat.eqb_spec (length ip + match fp with Some f => length f | None => 0%nat end) 0) as [Z0|]; [|reflexivity].
    exfalso. apply NZ. subst ni nf. destruct fp; cbn [frac_digits length] in *; lia. }
  assert (FPD : match fp with Some f => all_digits f | None => true end = true) by (destruct fp; [exact DF|reflexivity]).
  destruct r2 as [|c r3].
  - (* no exponent *)
    intros H. inversion H. left. exists a, b, sg, ip, fp, None. split; [|split; [exact SA|split; [exact SB|split]]].
    + rewrite EV at 1. f_equal. f_equal. rewrite ET, E1, ER1. unfold float_text, frac_text. rewrite !app_nil_r. reflexivity.
    + unfold float_text_ok. rewrite SG, D1, FPD, LEN. reflexivity.
    + unfold float_text_val. cbv zeta. fold (frac_digits fp).
      rewrite (digits_val_dval (ip ++ frac_digits fp)) by (unfold all_digits in *; rewrite forallb_app, D1, DF; reflexivity).
      rewrite (dval_app ip _ 0 D1). rewrite SN, VM, V1. f_equal. lia.
  - destruct (byte_eqb c "e"%byte || byte_eqb c "E"%byte) eqn:EM; [|discriminate].
    destruct (split_sign r3) as [eneg r4] eqn:SS2. destruct (split_sign_decomp _ _ _ SS2) as (es & E3 & SG2 & SN2).
    destruct (span_digits r4 0 0) as [[e ne] rr] eqn:SP3. destruct rr as [|y rr]; [|discriminate].
    destruct (span_digits_decomp _ _ _ _ _ _ SP3) as (ed & E4 & D4 & V4 & N4 & _).
    destruct (ne =? 0) eqn:NE; [discriminate|]. apply Z.eqb_neq in NE.
    intros H. inversion H. left. exists a, b, sg, ip, fp, (Some (c, es, ed)).
    split; [|split; [exact SA|split; [exact SB|split]]].
    + rewrite EV at 1. f_equal. f_equal. rewrite ET, E1, ER1. unfold float_text, frac_text. rewrite E3, E4, app_nil_r. reflexivity.
    + unfold float_text_ok. rewrite SG, D1, FPD, LEN. unfold exp_mark. rewrite EM, SG2, D4. cbn [andb].
      destruct ed; [cbn in N4; lia|reflexivity].
    + unfold float_text_val. cbv zeta. fold (frac_digits fp).
      rewrite (digits_val_dval (ip ++ frac_digits fp)) by (unfold all_digits in *; rewrite forallb_app, D1, DF; reflexivity).
      rewrite (dval_app ip _ 0 D1). rewrite (digits_val_dval ed D4). rewrite SN, SN2, VM, V1, V4. f_equal. lia.
Qed.

(* what float() rejects: everything that is neither a grammar text nor a word (with blanks around) *)
Lemma float_rejects v : (forall x, ~ float_shape v x) -> py_float v = None.
Proof. intros H. destruct (py_float v) as [x|] eqn:E; [|reflexivity]. exfalso. exact (H x (float_sound v x E)). Qed.

(* float() is a function of the shape: the two directions together *)
Lemma float_iff v x : py_float v = Some x <-> float_shape v x.
Proof.
  split; [apply float_sound|]. intros [(a & b & sg & ip & fp & ex & -> & A & B & OK & ->)|(a & b & sg & w & k & -> & A & B & S & W & ->)].
  - apply float_parse; assumption.
  - apply float_words; assumption.
Qed.
