(* C11 round 7: ANY list of lines. With the columns known (outfmt=, defaults without a header-discovery line, Infernal after
   the ruler) the reader is row_feature on exactly the data lines; corollaries: one feature per data line, comment/blank
   lines are irrelevant wherever they stand, two texts one after the other read to the two results in a row. *)
From Coq Require Import List ZArith NArith Bool Lia.
From Coq.Strings Require Import Byte.
Import ListNotations.
From SV Require Import Text G_tab C11_Model C11_Lemmas C11_TextLemmas C11_FileLemmas C11_BlocksLemmas.

(* ---------------- one step with known headers ---------------- *)
Lemma step_known d sep on ftype st hs line :
  s_headers st = Some hs -> (match d with Blast => negb on | _ => true end) = true ->
  snd (step d sep on ftype st line) =
  if data_line d sep line then
    match row_feature d ftype hs (line_toks sep (s_maxsplit st) line) with
    | Err e => Err e
    | Ok ft => Ok (mkState (Some hs) (s_maxsplit st) (ft :: s_fts st))
    end
  else Ok st.
Proof.
  intros HS KN. unfold step, data_line, names_row, line_toks, blank. rewrite HS.
  assert (B : (match d with Blast => true | _ => false end && on && starts_with (bs "# Fields:"%bs) line) = false).
  { destruct d; try reflexivity. cbn [andb]. destruct on; [discriminate|reflexivity]. }
  rewrite B. rewrite andb_false_r. cbn [andb].
  destruct (starts_with (bs "#"%bs) line || match strip_ws line with [] => true | _ :: _ => false end); cbn [negb andb]; [reflexivity|].
  destruct d; cbn [andb negb].
  - destruct (row_feature _ _ _ _); reflexivity.
  - destruct (Nat.ltb 1 (length (py_split sep None (strip_ws line))) && subset (py_split sep None (strip_ws line)) MMSEQS_HEADER_NAMES);
      cbn [negb]; [reflexivity|]. destruct (row_feature _ _ _ _); reflexivity.
  - destruct (row_feature _ _ _ _); reflexivity.
Qed.

Lemma run_known d sep on ftype hs : forall ls st,
  s_headers st = Some hs -> (match d with Blast => negb on | _ => true end) = true ->
  run d sep on ftype st ls =
  match lines_features d ftype hs sep (s_maxsplit st) ls with
  | Ok fs => Ok (mkState (Some hs) (s_maxsplit st) (rev fs ++ s_fts st))
  | Err e => Err e
  end.
Proof.
  unfold lines_features.
  induction ls as [|l r IH]; intros st HS KN; cbn [run filter map rows_features].
  - cbn. destruct st; cbn in *; subst; reflexivity.
  - rewrite (step_known d sep on ftype st hs l HS KN).
    destruct (data_line d sep l); cbn [map rows_features].
    + destruct (row_feature d ftype hs (line_toks sep (s_maxsplit st) l)) as [ft|e]; [|reflexivity].
      rewrite IH by (try reflexivity; exact KN). cbn [s_maxsplit s_fts].
      destruct (rows_features d ftype hs _); [|reflexivity]. cbn [rev]. rewrite <- app_assoc. reflexivity.
    + apply IH; assumption.
Qed.

(* ---------------- outfmt= given: any text ---------------- *)
Lemma read_any_outfmt_lines d sep o ftype hs ls : headers_from false d (split_ws o) = Ok hs ->
  snd (read_lines d sep (Some o) ftype ls) = lines_features d ftype hs sep None ls.
Proof.
  intros H. rewrite (read_lines_run_outfmt d sep o ftype hs ls H).
  rewrite (run_known d sep false ftype hs ls (mkState (Some hs) None []) eq_refl) by (destruct d; reflexivity).
  cbn [s_maxsplit s_fts]. destruct (lines_features d ftype hs sep None ls); [|reflexivity].
  cbn [s_fts]. rewrite app_nil_r, rev_involutive. reflexivity.
Qed.
Lemma read_any_outfmt d sep o ftype univ hs content :
  (match d with Infernal => false | _ => true end) = true -> headers_from false d (split_ws o) = Ok hs ->
  snd (read_content d sep (Some o) ftype univ content) = lines_features d ftype hs sep None (content_lines univ content).
Proof.
  intros ND H. unfold read_content, content_lines.
  replace (match d with Infernal => None | _ => Some o end) with (Some o) by (destruct d; [reflexivity|reflexivity|discriminate]).
  replace (eff_sep d sep) with sep by (destruct d; [reflexivity|reflexivity|discriminate]).
  apply read_any_outfmt_lines. exact H.
Qed.

(* ---------------- default columns: any text without a header-discovery line ---------------- *)
Lemma step_default d sep ftype st hs line :
  (match d with Infernal => false | _ => true end) = true ->
  eff_headers d st = Ok hs -> discovery_line d sep line = false ->
  snd (step d sep true ftype st line) =
  if data_line d sep line then
    match row_feature d ftype hs (line_toks sep (s_maxsplit st) line) with
    | Err e => Err e
    | Ok ft => Ok (mkState (Some hs) (s_maxsplit st) (ft :: s_fts st))
    end
  else Ok st.
Proof.
  intros ND EH DL. unfold step, data_line, line_toks, blank. unfold eff_headers in EH.
  destruct d; [| |discriminate]; cbn [andb negb discovery_line names_row] in *.
  - rewrite DL. cbn [andb].
    destruct (starts_with (bs "#"%bs) line || match strip_ws line with [] => true | _ :: _ => false end); cbn [negb andb]; [reflexivity|].
    rewrite EH. destruct (row_feature _ _ _ _); reflexivity.
  - destruct (starts_with (bs "#"%bs) line || match strip_ws line with [] => true | _ :: _ => false end); cbn [negb andb]; [reflexivity|].
    rewrite DL. cbn [negb]. rewrite EH. destruct (row_feature _ _ _ _); reflexivity.
Qed.

Lemma run_default d sep ftype hs : forall ls st,
  (match d with Infernal => false | _ => true end) = true ->
  eff_headers d st = Ok hs -> forallb (fun l => negb (discovery_line d sep l)) ls = true ->
  match lines_features d ftype hs sep (s_maxsplit st) ls with
  | Ok fs => exists st', run d sep true ftype st ls = Ok st' /\ s_fts st' = rev fs ++ s_fts st
  | Err e => run d sep true ftype st ls = Err e
  end.
Proof.
  unfold lines_features.
  induction ls as [|l r IH]; intros st ND EH F; cbn [run filter map rows_features].
  - exists st. split; reflexivity.
  - cbn [forallb] in F. apply andb_prop in F. destruct F as [F1 F2].
    assert (DL : discovery_line d sep l = false) by (destruct (discovery_line d sep l); [discriminate|reflexivity]).
    rewrite (step_default d sep ftype st hs l ND EH DL).
    destruct (data_line d sep l); cbn [map rows_features].
    + destruct (row_feature d ftype hs (line_toks sep (s_maxsplit st) l)) as [ft|e]; [|reflexivity].
      specialize (IH (mkState (Some hs) (s_maxsplit st) (ft :: s_fts st)) ND eq_refl F2). cbn [s_maxsplit s_fts] in IH.
      destruct (rows_features d ftype hs _) as [fs|e]; [|exact IH].
      destruct IH as (st' & R & S). exists st'. split; [exact R|]. rewrite S. cbn [rev]. rewrite <- app_assoc. reflexivity.
    + apply IH; assumption.
Qed.

Lemma read_any_text_lines d sep ftype names hs ls :
  (match d with Infernal => false | _ => true end) = true ->
  assoc (dialect_name d) DEFAULT_OUTFMT = Some names -> headers_from false d names = Ok hs ->
  forallb (fun l => negb (discovery_line d sep l)) ls = true ->
  snd (read_lines d sep None ftype ls) = lines_features d ftype hs sep None ls.
Proof.
  intros ND A H F. rewrite read_lines_run.
  assert (EH : eff_headers d (mkState None None []) = Ok hs) by (unfold eff_headers; cbn [s_headers]; rewrite A; exact H).
  pose proof (run_default d sep ftype hs ls (mkState None None []) ND EH F) as R. cbn [s_maxsplit s_fts] in R.
  destruct (lines_features d ftype hs sep None ls) as [fs|e].
  - destruct R as (st' & -> & S). rewrite S, app_nil_r, rev_involutive. reflexivity.
  - rewrite R. reflexivity.
Qed.
Lemma read_any_text d sep ftype univ names hs content :
  (match d with Infernal => false | _ => true end) = true ->
  assoc (dialect_name d) DEFAULT_OUTFMT = Some names -> headers_from false d names = Ok hs ->
  forallb (fun l => negb (discovery_line d sep l)) (content_lines univ content) = true ->
  snd (read_content d sep None ftype univ content) = lines_features d ftype hs sep None (content_lines univ content).
Proof.
  intros ND A H F. unfold read_content. fold (content_lines univ content).
  replace (match d with Infernal => None | _ => None end) with (@None str) by (destruct d; reflexivity).
  replace (eff_sep d sep) with sep by (destruct d; [reflexivity|reflexivity|discriminate]).
  eapply read_any_text_lines; eassumption.
Qed.

(* ---------------- Infernal: anything after the ruler ---------------- *)
Lemma lines_keep_unlines_app ls : forall tail, forallb (fun l => negb (has x0a l)) ls = true ->
  lines_keep (unlines ls ++ tail) = map nl ls ++ lines_keep tail.
Proof.
  induction ls as [|l r IH]; intros tail F; [reflexivity|].
  cbn [forallb] in F. apply andb_prop in F. destruct F as [F1 F2].
  unfold unlines in *. cbn [map concat]. rewrite <- !app_assoc. cbn [app].
  rewrite lines_keep_app_line by (destruct (has x0a l); [discriminate|reflexivity]).
  cbn [map]. unfold nl at 1. f_equal. apply IH. exact F2.
Qed.

Lemma read_infernal_any sep outfmt ftype n hs ruler pre tail :
  ruler_ok n ruler = true -> infernal_headers n = Ok hs -> forallb (skip_line Infernal true true) pre = true ->
  snd (read_content Infernal sep outfmt ftype false (unlines (pre ++ [ruler]) ++ tail)) =
  lines_features Infernal ftype hs None (Some (Nat.pred n)) (lines_keep tail).
Proof.
  intros RO IH P. destruct (skip_lines_nonl _ _ _ _ P) as [P1 P2].
  unfold read_content. rewrite lines_keep_unlines_app.
  2: { apply forallb_app_intro; [exact P1|]. cbn [forallb]. unfold ruler_ok in RO. apply andb_prop in RO. destruct RO as [RO _].
       apply andb_prop in RO. destruct RO as [_ RO]. rewrite RO. reflexivity. }
  rewrite read_lines_run. rewrite map_app. cbn [map]. rewrite <- app_assoc. cbn [app].
  rewrite run_app. rewrite run_skip by exact P2. cbn [run].
  rewrite (step_ruler (eff_sep Infernal sep) true ftype (mkState None None []) n ruler hs eq_refl RO IH). cbn [s_fts].
  rewrite (run_known Infernal (eff_sep Infernal sep) true ftype hs (lines_keep tail) (mkState (Some hs) (Some (Nat.pred n)) []) eq_refl eq_refl).
  cbn [s_maxsplit s_fts eff_sep].
  destruct (lines_features Infernal ftype hs None (Some (Nat.pred n)) (lines_keep tail)); [|reflexivity].
  cbn [s_fts]. rewrite app_nil_r, rev_involutive. reflexivity.
Qed.

(* ---------------- corollaries ---------------- *)
Lemma rows_features_length d ftype hs : forall rows fs, rows_features d ftype hs rows = Ok fs -> length fs = length rows.
Proof.
  induction rows as [|r rows IH]; intros fs H; cbn [rows_features] in H.
  - inversion H. reflexivity.
  - destruct (row_feature d ftype hs r); [|discriminate]. destruct (rows_features d ftype hs rows) as [gs|]; [|discriminate].
    inversion H. cbn [length]. f_equal. apply IH. reflexivity.
Qed.
(* one feature per data line *)
Lemma feature_count d ftype hs sep ms ls fs : lines_features d ftype hs sep ms ls = Ok fs ->
  length fs = length (filter (data_line d sep) ls).
Proof. unfold lines_features. intros H. apply rows_features_length in H. rewrite map_length in H. exact H. Qed.

Lemma filter_skip d sep cs : forallb skip_any cs = true -> filter (data_line d sep) cs = [].
Proof.
  induction cs as [|c cs IH]; intros F; [reflexivity|]. cbn [forallb] in F. apply andb_prop in F. destruct F as [F1 F2].
  cbn [filter]. unfold data_line. unfold skip_any in F1. rewrite F1. cbn [negb andb]. apply IH. exact F2.
Qed.
(* comment and blank lines are irrelevant wherever they stand *)
Lemma comments_irrelevant d ftype hs sep ms a cs b : forallb skip_any cs = true ->
  lines_features d ftype hs sep ms (a ++ cs ++ b) = lines_features d ftype hs sep ms (a ++ b).
Proof. intros F. unfold lines_features. rewrite !filter_app. rewrite (filter_skip d sep cs F). reflexivity. Qed.

(* two texts one after the other read to the first result followed by the second, first error wins *)
Lemma lines_features_app d ftype hs sep ms a b :
  lines_features d ftype hs sep ms (a ++ b) =
  match lines_features d ftype hs sep ms a with
  | Ok fa => match lines_features d ftype hs sep ms b with Ok fb => Ok (fa ++ fb) | Err e => Err e end
  | Err e => Err e
  end.
Proof. unfold lines_features. rewrite filter_app, map_app. apply rows_features_app. Qed.

Lemma lines_keep_app_nl a : forall b, lines_keep (a ++ x0a :: b) = lines_keep (a ++ [x0a]) ++ lines_keep b.
Proof.
  induction a as [|x a IH]; intros b; cbn [app lines_keep].
  - reflexivity.
  - destruct (byte_eqb x x0a) eqn:E.
    + cbn [app]. f_equal. apply IH.
    + rewrite IH. destruct (lines_keep (a ++ [x0a])) as [|h t] eqn:L.
      * exfalso. clear -L. destruct a; cbn in L; [discriminate|]. destruct (byte_eqb b x0a); [discriminate|].
        destruct (lines_keep (a ++ [x0a])); discriminate.
      * reflexivity.
Qed.

(* the comments= list: the '#' lines in order; none of them is a data line *)
Lemma comments_list d sep ls :
  comment_lines ls = filter (starts_with (bs "#"%bs)) ls /\
  (forall l, In l (comment_lines ls) -> data_line d sep l = false) /\
  (forall a b, comment_lines (a ++ b) = comment_lines a ++ comment_lines b).
Proof.
  split; [reflexivity|]. split.
  - intros l I. unfold comment_lines in I. apply filter_In in I. destruct I as [_ S]. unfold data_line. rewrite S. reflexivity.
  - intros a b. unfold comment_lines. apply filter_app.
Qed.

(* ---------------- the corollaries on file content / on the reader ---------------- *)
Lemma read_feature_count d sep o ftype univ hs content fs :
  (match d with Infernal => false | _ => true end) = true -> headers_from false d (split_ws o) = Ok hs ->
  snd (read_content d sep (Some o) ftype univ content) = Ok fs ->
  length fs = length (filter (data_line d sep) (content_lines univ content)).
Proof. intros ND H R. rewrite (read_any_outfmt d sep o ftype univ hs content ND H) in R. eapply feature_count; exact R. Qed.

Lemma read_comments_irrelevant d sep o ftype a cs b : forallb skip_any cs = true ->
  snd (read_lines d sep (Some o) ftype (a ++ cs ++ b)) = snd (read_lines d sep (Some o) ftype (a ++ b)).
Proof.
  intros F. destruct (headers_from false d (split_ws o)) as [hs|e] eqn:H.
  - rewrite !(read_any_outfmt_lines d sep o ftype hs) by exact H. apply comments_irrelevant. exact F.
  - unfold read_lines. rewrite H. reflexivity.
Qed.

Lemma read_concat d sep o ftype hs a b :
  (match d with Infernal => false | _ => true end) = true -> headers_from false d (split_ws o) = Ok hs ->
  snd (read_content d sep (Some o) ftype false ((a ++ [x0a]) ++ b)) =
  match snd (read_content d sep (Some o) ftype false (a ++ [x0a])) with
  | Ok fa => match snd (read_content d sep (Some o) ftype false b) with Ok fb => Ok (fa ++ fb) | Err e => Err e end
  | Err e => Err e
  end.
Proof.
  intros ND H. rewrite !(read_any_outfmt d sep o ftype false hs) by assumption. unfold content_lines.
  rewrite <- app_assoc. cbn [app]. rewrite lines_keep_app_nl. apply lines_features_app.
Qed.

(* any text whose data lines carry the hits of a list H (columns from outfmt=) reads to the specified locations, strands and
   common metadata, whatever else the text contains and however it ends *)
Lemma read_any_outfmt_hits d sep o ftype univ hs content hits :
  (match d with Infernal => false | _ => true end) = true -> headers_from false d (split_ws o) = Ok hs ->
  Forall2 (row_carries d hs) (map (line_toks sep None) (filter (data_line d sep) (content_lines univ content))) hits ->
  exists fs, snd (read_content d sep (Some o) ftype univ content) = Ok fs /\ map loc_meta fs = map spec_loc_meta hits.
Proof.
  intros ND H F. rewrite (read_any_outfmt d sep o ftype univ hs content ND H). unfold lines_features.
  apply rows_features_carry. exact F.
Qed.
Lemma read_infernal_any_hits sep outfmt ftype n hs ruler pre tail hits :
  ruler_ok n ruler = true -> infernal_headers n = Ok hs -> forallb (skip_line Infernal true true) pre = true ->
  Forall2 (row_carries Infernal hs) (map (line_toks None (Some (Nat.pred n))) (filter (data_line Infernal None) (lines_keep tail))) hits ->
  exists fs, snd (read_content Infernal sep outfmt ftype false (unlines (pre ++ [ruler]) ++ tail)) = Ok fs /\
             map loc_meta fs = map spec_loc_meta hits.
Proof.
  intros RO IH P F. rewrite (read_infernal_any sep outfmt ftype n hs ruler pre tail RO IH P). unfold lines_features.
  apply rows_features_carry. exact F.
Qed.
