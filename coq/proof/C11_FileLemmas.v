(* C11, whole files: comment blocks, header discovery (BLAST 7 '# Fields:', MMseqs2 4 name row, Infernal ruler),
   whitespace-split rows with maxsplit, composed into read (render) = rows for every rendering *)
From Coq Require Import List ZArith NArith Bool Lia.
From Coq.Strings Require Import Byte.
Import ListNotations.
From SV Require Import Text G_tab C11_Model C11_Lemmas C11_TextLemmas.

(* ---------------- the loop as a state transformer ---------------- *)
Fixpoint run (d : dialect) (sep : option byte) (on : bool) (ftype : option str) (st : state) (ls : list str) : res state :=
  match ls with
  | [] => Ok st
  | l :: r => match snd (step d sep on ftype st l) with
              | Err e => Err e
              | Ok st' => run d sep on ftype st' r
              end
  end.
Lemma loop_run d sep on ftype : forall ls st ok,
  snd (loop d sep on ftype st ok ls) =
  match run d sep on ftype st ls with Ok st' => Ok (rev (s_fts st')) | Err e => Err e end.
Proof.
  induction ls as [|l r IH]; intros st ok; cbn [loop run]; [reflexivity|].
  destruct (step d sep on ftype st l) as [k [st'|e]]; cbn [snd]; [apply IH|reflexivity].
Qed.
Lemma run_app d sep on ftype : forall a b st,
  run d sep on ftype st (a ++ b) =
  match run d sep on ftype st a with Ok st' => run d sep on ftype st' b | Err e => Err e end.
Proof.
  induction a as [|l r IH]; intros b st; cbn [app run]; [reflexivity|].
  destruct (snd (step d sep on ftype st l)); [apply IH|reflexivity].
Qed.

Definition nl (l : str) : str := l ++ [x0a].
Definition hnone (st : state) : bool := match s_headers st with None => true | Some _ => false end.

(* ---------------- comment and blank lines ---------------- *)
Lemma step_skip d sep on ftype st line : skip_ok d on (hnone st) line = true ->
  snd (step d sep on ftype st line) = Ok st.
Proof.
  unfold skip_ok, hnone, blank. intros H.
  apply andb_prop in H. destruct H as [H H3]. apply andb_prop in H. destruct H as [H1 H2].
  unfold step.
  assert (B : (match d with Blast => true | _ => false end && on && starts_with (bs "# Fields:"%bs) line) = false).
  { destruct d; try reflexivity. cbn [andb]. destruct (on && _); [discriminate|reflexivity]. }
  rewrite B.
  assert (I : (match d with Infernal => true | _ => false end && match s_headers st with None => true | Some _ => false end
               && contains (bs "--"%bs) line) = false).
  { destruct d; try reflexivity. cbn [andb]. destruct (_ && _); [discriminate|reflexivity]. }
  rewrite I. rewrite H1. reflexivity.
Qed.
Lemma run_skip d sep on ftype st : forall ls,
  forallb (fun l => skip_ok d on (hnone st) (nl l)) ls = true -> run d sep on ftype st (map nl ls) = Ok st.
Proof.
  induction ls as [|l r IH]; intros F; cbn [map run]; [reflexivity|].
  cbn in F. apply andb_prop in F. destruct F as [F1 F2]. rewrite step_skip by exact F1. apply IH. exact F2.
Qed.

(* ---------------- separator-joined data rows ---------------- *)
Lemma run_rows d c on ftype hs : forall rows st,
  s_headers st = Some hs -> s_maxsplit st = None -> forallb (row_ok d c) rows = true ->
  run d (Some c) on ftype st (map (line_of c) rows) =
  match rows_features d ftype hs rows with
  | Ok fs => Ok (mkState (Some hs) None (rev fs ++ s_fts st))
  | Err e => Err e
  end.
Proof.
  induction rows as [|r rows IH]; intros st HS MS F; cbn [map run rows_features].
  - cbn. destruct st; cbn in *; subst; reflexivity.
  - cbn in F. apply andb_prop in F. destruct F as [F1 F2].
    assert (EH : eff_headers d st = Ok hs) by (unfold eff_headers; rewrite HS; reflexivity).
    assert (NI : (match d with Infernal => match s_headers st with None => false | Some _ => true end | _ => true end) = true)
      by (rewrite HS; destruct d; reflexivity).
    rewrite (step_row d c on ftype st hs r EH NI MS F1).
    destruct (row_feature d ftype hs r) as [ft|e]; [|reflexivity].
    rewrite IH by (try reflexivity; exact F2). cbn [s_fts].
    destruct (rows_features d ftype hs rows); [|reflexivity].
    cbn [rev]. rewrite <- app_assoc. reflexivity.
Qed.

(* ---------------- generic string facts ---------------- *)
Lemma starts_with_self p x : starts_with p (p ++ x) = true.
Proof. induction p as [|a p IH]; cbn; [reflexivity|]. rewrite byte_eqb_refl. exact IH. Qed.
Lemma remove_prefix_self p x : remove_prefix p (p ++ x) = x.
Proof.
  unfold remove_prefix. rewrite starts_with_self.
  induction p as [|a p IH]; cbn; [reflexivity|exact IH].
Qed.
Lemma contains_app p l t : contains p l = true -> contains p (l ++ t) = true.
Proof.
  induction l as [|x r IH]; cbn.
  - destruct p; [intros _|discriminate]. destruct t; reflexivity.
  - intros H. apply orb_prop in H. destruct H as [H|H].
    + change (x :: r ++ t) with ((x :: r) ++ t). rewrite (starts_with_app p (x :: r) t H). reflexivity.
    + rewrite (IH H). apply orb_true_r.
Qed.
Lemma lstrip_ws_spaces a x : all_space a = true -> lstrip_ws (a ++ x) = lstrip_ws x.
Proof.
  induction a as [|c a IH]; cbn; [reflexivity|]. intros H. apply andb_prop in H. destruct H as [H1 H2].
  rewrite H1. apply IH. exact H2.
Qed.
Lemma all_space_rev a : all_space (rev a) = all_space a.
Proof. unfold all_space. induction a as [|c a IH]; cbn; [reflexivity|]. rewrite forallb_app, IH. cbn. rewrite andb_true_r. apply andb_comm. Qed.
(* blanks around a string without leading / trailing blanks are stripped *)
Lemma strip_pad a l b : all_space a = true -> all_space b = true -> edge_ok l = true -> strip_ws (a ++ l ++ b) = l.
Proof.
  intros A B E. unfold edge_ok in E. apply andb_prop in E. destruct E as [E1 E2].
  unfold strip_ws. rewrite lstrip_ws_spaces by exact A. rewrite lstrip_ws_app by exact E1.
  unfold rstrip_ws. rewrite rev_app_distr. rewrite lstrip_ws_spaces by (rewrite all_space_rev; exact B).
  rewrite lstrip_ws_id; [apply rev_involutive|]. destruct (rev l); [discriminate|exact E2].
Qed.
Lemma edge_ok_nonempty l : edge_ok l = true -> l <> [].
Proof. destruct l; [discriminate|discriminate]. Qed.

(* ---------------- BLAST outfmt 7: the '# Fields:' line ---------------- *)
Definition pad (h : hdr) : str := " "%byte :: hlong h.
Lemma has_cons c x s : has c (x :: s) = byte_eqb c x || has c s.
Proof. reflexivity. Qed.
Lemma fields_split : forall hs, hs <> [] -> forallb long_ok (map hlong hs) = true ->
  map strip_ws (split_on ","%byte (join ","%byte (map pad hs) ++ [x0a])) = map hlong hs.
Proof.
  induction hs as [|h r IH]; [congruence|]. intros _ F. cbn [map forallb] in F.
  apply andb_prop in F. destruct F as [F1 F2].
  unfold long_ok in F1. apply andb_prop in F1. destruct F1 as [F1 E]. apply andb_prop in F1. destruct F1 as [C N].
  assert (C' : has ","%byte (hlong h) = false) by (destruct (has ","%byte (hlong h)); [discriminate|reflexivity]).
  assert (S1 : strip_ws (pad h) = hlong h).
  { replace (pad h) with ([" "%byte] ++ hlong h ++ []) by (unfold pad; rewrite app_nil_r; reflexivity).
    apply strip_pad; [reflexivity|reflexivity|exact E]. }
  assert (S2 : strip_ws (pad h ++ [x0a]) = hlong h).
  { unfold pad. change ((" "%byte :: hlong h) ++ [x0a]) with ([" "%byte] ++ hlong h ++ [x0a]).
    apply strip_pad; [reflexivity|reflexivity|exact E]. }
  destruct r as [|h2 r].
  - cbn [map join]. rewrite split_on_nosep.
    + cbn [map]. rewrite S2. reflexivity.
    + unfold pad. change ((" "%byte :: hlong h) ++ [x0a]) with (" "%byte :: (hlong h ++ [x0a])).
      rewrite has_cons, has_app, C'. reflexivity.
  - change (map pad (h :: h2 :: r)) with (pad h :: map pad (h2 :: r)).
    change (join ","%byte (pad h :: map pad (h2 :: r))) with (pad h ++ ","%byte :: join ","%byte (map pad (h2 :: r))).
    rewrite <- app_assoc. cbn [app].
    rewrite split_on_app_sep by (unfold pad; rewrite has_cons, C'; reflexivity).
    cbn [map]. rewrite S1. f_equal.
    apply IH; [discriminate|exact F2].
Qed.
Lemma step_fields sep ftype st hs : hs <> [] -> forallb long_ok (map hlong hs) = true ->
  headers_from true Blast (map hlong hs) = Ok hs ->
  snd (step Blast sep true ftype st (nl (fields_line hs))) = Ok (mkState (Some hs) (s_maxsplit st) (s_fts st)).
Proof.
  intros NE F HF. unfold step, nl, fields_line. rewrite <- app_assoc.
  cbn [andb]. rewrite starts_with_self. rewrite remove_prefix_self.
  change (map (fun h : hdr => " "%byte :: hlong h) hs) with (map pad hs).
  rewrite fields_split by assumption. rewrite HF. reflexivity.
Qed.

(* ---------------- MMseqs2 fmtmode 4: the row of column names ---------------- *)
Lemma step_names c on ftype st hs : s_headers st = None -> names_ok c hs = true ->
  headers_from false Mmseqs (map hname hs) = Ok hs ->
  snd (step Mmseqs (Some c) on ftype st (nl (names_line c hs))) = Ok (mkState (Some hs) (s_maxsplit st) (s_fts st)).
Proof.
  intros HS NO HF. unfold names_ok in NO.
  apply andb_prop in NO. destruct NO as [NO SUB]. apply andb_prop in NO. destruct NO as [NO LEN].
  apply andb_prop in NO. destruct NO as [NO HASH]. apply andb_prop in NO. destruct NO as [NO EDGE].
  apply andb_prop in NO. destruct NO as [TOK CNL].
  unfold names_line in *. set (toks := map hname hs) in *.
  destruct (strip_line _ EDGE) as [SL NE].
  assert (TK : toks <> []). { intros E. apply NE. rewrite E. reflexivity. }
  assert (SP : split_on c (join c toks) = toks).
  { apply split_on_join; [exact TK|]. apply forallb_forall. intros t Ht. rewrite forallb_forall in TOK. specialize (TOK t Ht).
    apply andb_prop in TOK. tauto. }
  assert (H1 : starts_with (bs "#"%bs) (nl (join c toks)) = false).
  { unfold nl. rewrite starts_with_hash_app by exact NE. destruct (starts_with _ _); [discriminate|reflexivity]. }
  unfold step. cbn [andb]. rewrite H1, HS. unfold nl in *. rewrite SL.
  assert (BL : (match join c toks with [] => true | _ :: _ => false end) = false)
    by (destruct (join c toks); [congruence|reflexivity]).
  rewrite BL. cbn [orb py_split]. rewrite SP.
  assert (LN : length toks = length hs) by (unfold toks; apply map_length).
  rewrite LN, LEN, SUB. cbn [andb]. rewrite HF. reflexivity.
Qed.

(* ---------------- Infernal: ruler line and whitespace-split rows ---------------- *)
Lemma step_ruler sep on ftype st n l hs : s_headers st = None -> ruler_ok n l = true -> infernal_headers n = Ok hs ->
  snd (step Infernal sep on ftype st (nl l)) = Ok (mkState (Some hs) (Some (Nat.pred n)) (s_fts st)).
Proof.
  intros HS RO IH. unfold ruler_ok in RO. apply andb_prop in RO. destruct RO as [RO LEN].
  apply andb_prop in RO. destruct RO as [CT _]. apply Nat.eqb_eq in LEN.
  unfold step, nl. cbn [andb]. rewrite HS. rewrite (contains_app _ _ [x0a] CT). cbn [andb].
  rewrite LEN. unfold infernal_headers in IH.
  destruct (zassoc (Z.of_nat n) INFERNAL_NCOLS) as [v|]; [|discriminate].
  destruct (assoc (dialect_name Infernal ++ "_"%byte :: v) DEFAULT_OUTFMT) as [names|]; [|discriminate].
  rewrite IH. reflexivity.
Qed.

(* the token being read ends at the first blank *)
Lemma split_ws_go_tok : forall t n acc s rest, forallb (fun c => negb (is_space c)) t = true -> is_space s = true ->
  split_ws_go n (Some acc) (t ++ s :: rest) = rev (rev t ++ acc) :: split_ws_go n None rest.
Proof.
  induction t as [|c t IH]; intros n acc s rest T S.
  - cbn [app split_ws_go]. rewrite S. reflexivity.
  - cbn in T. apply andb_prop in T. destruct T as [T1 T2]. cbn [app split_ws_go].
    destruct (is_space c); [discriminate|]. rewrite IH by assumption. cbn [rev]. rewrite <- app_assoc. reflexivity.
Qed.
Lemma split_ws_go_skip : forall sp n rest, all_space sp = true ->
  split_ws_go n None (sp ++ rest) = split_ws_go n None rest.
Proof.
  induction sp as [|c sp IH]; intros n rest A; [reflexivity|]. cbn in A. apply andb_prop in A. destruct A as [A1 A2].
  cbn [app split_ws_go]. rewrite A1. apply IH. exact A2.
Qed.
Lemma spacer_space sp : spacer sp = true -> exists s sp', sp = s :: sp' /\ is_space s = true /\ all_space sp' = true.
Proof.
  destruct sp as [|s sp']; [discriminate|]. cbn. intros H. apply andb_prop in H. destruct H as [H1 H2].
  apply andb_prop in H1. destruct H1 as [H1 _]. exists s, sp'. split; [reflexivity|]. split; [exact H1|].
  unfold all_space. apply forallb_forall. intros x Hx. rewrite forallb_forall in H2. specialize (H2 x Hx).
  apply andb_prop in H2. tauto.
Qed.
Lemma split_ws_render : forall cells last,
  forallb (fun p => simple_tok (fst p) && spacer (snd p)) cells = true -> edge_ok last = true ->
  split_ws_max (length cells) (render_ws cells last) = map fst cells ++ [last].
Proof.
  unfold split_ws_max, render_ws.
  induction cells as [|[t sp] cells IH]; intros last F E.
  - cbn. unfold edge_ok in E. apply andb_prop in E. destruct E as [E1 _].
    destruct last as [|c l]; [discriminate|]. cbn [split_ws_go]. destruct (is_space c); [discriminate|reflexivity].
  - cbn [forallb fst snd] in F. apply andb_prop in F. destruct F as [F1 F2]. apply andb_prop in F1. destruct F1 as [TK SP].
    destruct t as [|c t]; [discriminate|]. cbn [simple_tok forallb] in TK. apply andb_prop in TK. destruct TK as [T1 T2].
    destruct (spacer_space _ SP) as (s & sp' & -> & S1 & S2).
    cbn [map concat fst snd length]. rewrite <- !app_assoc. cbn [app split_ws_go].
    destruct (is_space c); [discriminate|].
    rewrite split_ws_go_tok by assumption. rewrite split_ws_go_skip by exact S2.
    rewrite (IH last F2 E). cbn [rev app]. rewrite rev_app_distr, rev_involutive. reflexivity.
Qed.
Lemma edge_ok_render cells last :
  forallb (fun p => simple_tok (fst p) && spacer (snd p)) cells = true -> edge_ok last = true ->
  edge_ok (render_ws cells last) = true.
Proof.
  intros F E. unfold edge_ok in *. apply andb_prop in E. destruct E as [E1 E2]. unfold render_ws.
  apply andb_true_intro. split.
  - destruct cells as [|[t sp] cells]; [exact E1|]. cbn in F. apply andb_prop in F. destruct F as [F _].
    apply andb_prop in F. destruct F as [F _]. destruct t as [|c t]; [discriminate|].
    cbn in F. apply andb_prop in F. destruct F as [F _]. cbn. exact F.
  - rewrite rev_app_distr. destruct (rev last); [discriminate|exact E2].
Qed.
Lemma space_nonl_all l : forallb (fun c => is_space c && negb (byte_eqb c x0a)) l = true -> all_space l = true /\ has x0a l = false.
Proof.
  unfold all_space. induction l as [|c l IH]; [auto|]. intros H. cbn [forallb] in *. apply andb_prop in H. destruct H as [H1 H2].
  apply andb_prop in H1. destruct H1 as [S N]. destruct (IH H2) as [A B]. rewrite S, A. split; [reflexivity|].
  rewrite has_cons, byte_eqb_sym. destruct (byte_eqb c x0a); [discriminate|]. exact B.
Qed.
Lemma step_wsrow sep on ftype st n hs r : s_headers st = Some hs -> s_maxsplit st = Some (Nat.pred n) -> wsrow_ok n r = true ->
  snd (step Infernal (eff_sep Infernal sep) on ftype st (nl (wsrow_line r))) =
  match row_feature Infernal ftype hs (wsrow_toks r) with
  | Err e => Err e
  | Ok ft => Ok (mkState (Some hs) (Some (Nat.pred n)) (ft :: s_fts st))
  end.
Proof.
  intros HS MS W. unfold wsrow_ok in W.
  apply andb_prop in W. destruct W as [W HASH]. apply andb_prop in W. destruct W as [W TR].
  apply andb_prop in W. destruct W as [W LD]. apply andb_prop in W. destruct W as [W LNL].
  apply andb_prop in W. destruct W as [W E]. apply andb_prop in W. destruct W as [LEN CE].
  apply Nat.eqb_eq in LEN.
  destruct (space_nonl_all _ LD) as [LA _]. destruct (space_nonl_all _ TR) as [TA _].
  pose proof (edge_ok_render _ _ CE E) as ER.
  assert (SL : strip_ws (nl (wsrow_line r)) = render_ws (w_cells r) (w_last r)).
  { unfold nl, wsrow_line. rewrite <- !app_assoc. apply strip_pad; [exact LA| |exact ER].
    unfold all_space. rewrite forallb_app. fold (all_space (w_trail r)). rewrite TA. reflexivity. }
  assert (NE : wsrow_line r <> []).
  { unfold wsrow_line. pose proof (edge_ok_nonempty _ ER) as X. destruct (w_lead r); cbn; [|discriminate].
    destruct (render_ws (w_cells r) (w_last r)); [congruence|discriminate]. }
  assert (H1 : starts_with (bs "#"%bs) (nl (wsrow_line r)) = false).
  { unfold nl. rewrite starts_with_hash_app by exact NE. destruct (starts_with _ _); [discriminate|reflexivity]. }
  unfold step, eff_sep. cbn [andb]. rewrite HS, H1, MS, SL. cbn [andb orb].
  assert (BL : (match render_ws (w_cells r) (w_last r) with [] => true | _ :: _ => false end) = false)
    by (pose proof (edge_ok_nonempty _ ER); destruct (render_ws _ _); [congruence|reflexivity]).
  rewrite BL. cbn [py_split].
  replace (Nat.pred n) with (length (w_cells r)) by (rewrite <- LEN; reflexivity).
  rewrite split_ws_render by assumption. fold (wsrow_toks r).
  destruct (row_feature Infernal ftype hs (wsrow_toks r)); reflexivity.
Qed.
Lemma run_wsrows sep on ftype n hs : forall rows st,
  s_headers st = Some hs -> s_maxsplit st = Some (Nat.pred n) -> forallb (wsrow_ok n) rows = true ->
  run Infernal (eff_sep Infernal sep) on ftype st (map (fun r => nl (wsrow_line r)) rows) =
  match rows_features Infernal ftype hs (map wsrow_toks rows) with
  | Ok fs => Ok (mkState (Some hs) (Some (Nat.pred n)) (rev fs ++ s_fts st))
  | Err e => Err e
  end.
Proof.
  induction rows as [|r rows IH]; intros st HS MS F; cbn [map run rows_features].
  - cbn. destruct st; cbn in *; subst; reflexivity.
  - cbn in F. apply andb_prop in F. destruct F as [F1 F2].
    rewrite (step_wsrow sep on ftype st n hs r HS MS F1).
    destruct (row_feature Infernal ftype hs (wsrow_toks r)) as [ft|e]; [|reflexivity].
    rewrite IH by (try reflexivity; exact F2). cbn [s_fts].
    destruct (rows_features Infernal ftype hs (map wsrow_toks rows)); [|reflexivity].
    cbn [rev]. rewrite <- app_assoc. reflexivity.
Qed.

(* ---------------- whole files ---------------- *)
Lemma lines_keep_unlines ls : forallb (fun l => negb (has x0a l)) ls = true -> lines_keep (unlines ls) = map nl ls.
Proof. intros F. unfold unlines. rewrite lines_keep_concat by exact F. reflexivity. Qed.
Lemma read_lines_run d sep ftype ls :
  snd (read_lines d sep None ftype ls) =
  match run d sep true ftype (mkState None None []) ls with Ok st' => Ok (rev (s_fts st')) | Err e => Err e end.
Proof. unfold read_lines. apply loop_run. Qed.
Lemma skip_lines_nonl d on hn ls : forallb (skip_line d on hn) ls = true ->
  forallb (fun l => negb (has x0a l)) ls = true /\ forallb (fun l => skip_ok d on hn (nl l)) ls = true.
Proof.
  induction ls as [|l r IH]; [auto|]. cbn [forallb]. intros F. apply andb_prop in F. destruct F as [F1 F2].
  unfold skip_line in F1. apply andb_prop in F1. destruct F1 as [A B]. destruct (IH F2) as [C D].
  rewrite A, C, D. unfold nl at 1. rewrite B. auto.
Qed.
Lemma forallb_app_intro {A} (f : A -> bool) a b : forallb f a = true -> forallb f b = true -> forallb f (a ++ b) = true.
Proof. intros. rewrite forallb_app. rewrite H, H0. reflexivity. Qed.
Lemma rows_nonl d c rows : forallb (row_ok d c) rows = true ->
  forallb (fun l => negb (has x0a l)) (map (join c) rows) = true.
Proof.
  intros F. apply forallb_forall. intros l Hl. apply in_map_iff in Hl. destruct Hl as (toks & <- & Ht).
  rewrite forallb_forall in F. specialize (F toks Ht). unfold row_ok in F.
  apply andb_prop in F. destruct F as [F _]. apply andb_prop in F. destruct F as [F _]. apply andb_prop in F. destruct F as [F _].
  apply andb_prop in F. destruct F as [F1 F2].
  rewrite has_join_nl; [reflexivity| |exact F1]. destruct (has x0a [c]); [discriminate|reflexivity].
Qed.
Lemma map_nl_join c rows : map nl (map (join c) rows) = map (line_of c) rows.
Proof. rewrite map_map. reflexivity. Qed.

Lemma fields_line_nonl hs : forallb long_ok (map hlong hs) = true -> has x0a (fields_line hs) = false.
Proof.
  intros F. unfold fields_line. rewrite has_app. change (has x0a (bs "# Fields:"%bs)) with false. cbn [orb].
  apply has_join_nl; [reflexivity|]. apply forallb_forall. intros t Ht. apply in_map_iff in Ht. destruct Ht as (h & <- & Hh).
  rewrite forallb_forall in F. specialize (F (hlong h) (in_map hlong hs h Hh)). unfold long_ok in F.
  apply andb_prop in F. destruct F as [F _]. apply andb_prop in F. destruct F as [C N].
  rewrite !has_cons. change (byte_eqb ","%byte " "%byte) with false. change (byte_eqb x0a " "%byte) with false. cbn [orb].
  rewrite C, N. reflexivity.
Qed.

(* BLAST outfmt 7 *)
Lemma read_blast7 c ftype hs pre mid post rows :
  hs <> [] -> forallb long_ok (map hlong hs) = true -> headers_from true Blast (map hlong hs) = Ok hs ->
  forallb (skip_line Blast true true) pre = true -> forallb (skip_line Blast true true) mid = true ->
  forallb (skip_line Blast true true) post = true -> forallb (row_ok Blast c) rows = true ->
  snd (read_content Blast (Some c) None ftype false
         (unlines (pre ++ [fields_line hs] ++ mid ++ map (join c) rows ++ post))) = rows_features Blast ftype hs rows.
Proof.
  intros NE LO HF P M Q R.
  destruct (skip_lines_nonl _ _ _ _ P) as [P1 P2]. destruct (skip_lines_nonl _ _ _ _ M) as [M1 M2].
  destruct (skip_lines_nonl _ _ _ _ Q) as [Q1 Q2].
  unfold read_content. cbn [eff_sep]. rewrite lines_keep_unlines.
  2: { repeat apply forallb_app_intro; try assumption; [cbn [forallb]; rewrite fields_line_nonl by exact LO; reflexivity|eapply rows_nonl; exact R]. }
  rewrite read_lines_run. rewrite !map_app. rewrite map_nl_join. cbn [map].
  rewrite run_app. rewrite run_skip by exact P2. cbn [app run].
  rewrite step_fields by assumption. cbn [s_maxsplit s_fts].
  rewrite run_app. rewrite run_skip by exact M2.
  rewrite run_app. rewrite (run_rows Blast c true ftype hs rows (mkState (Some hs) None []) eq_refl eq_refl R).
  destruct (rows_features Blast ftype hs rows) as [fs|e]; [|reflexivity].
  rewrite run_skip by exact Q2. cbn [s_fts]. rewrite app_nil_r. rewrite rev_involutive. reflexivity.
Qed.

(* MMseqs2 fmtmode 4 *)
Lemma names_line_nonl c hs : names_ok c hs = true -> has x0a (names_line c hs) = false.
Proof.
  unfold names_ok. intros NO. apply andb_prop in NO. destruct NO as [NO _]. apply andb_prop in NO. destruct NO as [NO _].
  apply andb_prop in NO. destruct NO as [NO _]. apply andb_prop in NO. destruct NO as [NO _].
  apply andb_prop in NO. destruct NO as [T C]. apply has_join_nl; [destruct (has x0a [c]); [discriminate|reflexivity]|exact T].
Qed.
Lemma read_mmseqs4 c ftype hs pre post rows :
  names_ok c hs = true -> headers_from false Mmseqs (map hname hs) = Ok hs ->
  forallb (skip_line Mmseqs true true) pre = true -> forallb (skip_line Mmseqs true true) post = true ->
  forallb (row_ok Mmseqs c) rows = true ->
  snd (read_content Mmseqs (Some c) None ftype false
         (unlines (pre ++ [names_line c hs] ++ map (join c) rows ++ post))) = rows_features Mmseqs ftype hs rows.
Proof.
  intros NO HF P Q R.
  destruct (skip_lines_nonl _ _ _ _ P) as [P1 P2]. destruct (skip_lines_nonl _ _ _ _ Q) as [Q1 Q2].
  unfold read_content. cbn [eff_sep]. rewrite lines_keep_unlines.
  2: { repeat apply forallb_app_intro; try assumption; [cbn [forallb]; rewrite names_line_nonl by exact NO; reflexivity|eapply rows_nonl; exact R]. }
  rewrite read_lines_run. rewrite !map_app. rewrite map_nl_join. cbn [map].
  rewrite run_app. rewrite run_skip by exact P2. cbn [app run].
  rewrite (step_names c true ftype (mkState None None []) hs eq_refl NO HF). cbn [s_maxsplit s_fts].
  rewrite run_app. rewrite (run_rows Mmseqs c true ftype hs rows (mkState (Some hs) None []) eq_refl eq_refl R).
  destruct (rows_features Mmseqs ftype hs rows) as [fs|e]; [|reflexivity].
  rewrite run_skip by exact Q2. cbn [s_fts]. rewrite app_nil_r. rewrite rev_involutive. reflexivity.
Qed.

(* Infernal tblout *)
Lemma simple_tok_nonl t : simple_tok t = true -> has x0a t = false.
Proof.
  destruct t as [|c0 t0]; [discriminate|]. unfold simple_tok. generalize (c0 :: t0). clear.
  induction l as [|c l IH]; [reflexivity|]. cbn [forallb]. intros H. apply andb_prop in H. destruct H as [H1 H2].
  rewrite has_cons, (IH H2), orb_false_r. destruct c; try reflexivity; discriminate.
Qed.
Lemma spacer_nonl s : spacer s = true -> has x0a s = false.
Proof. destruct s as [|c0 s0]; [discriminate|]. unfold spacer. intros H. apply (space_nonl_all _ H). Qed.
Lemma wsrow_nonl n r : wsrow_ok n r = true -> has x0a (wsrow_line r) = false.
Proof.
  unfold wsrow_ok. intros W.
  apply andb_prop in W. destruct W as [W _]. apply andb_prop in W. destruct W as [W TR].
  apply andb_prop in W. destruct W as [W LD]. apply andb_prop in W. destruct W as [W LNL].
  apply andb_prop in W. destruct W as [W _]. apply andb_prop in W. destruct W as [_ CE].
  unfold wsrow_line, render_ws. rewrite !has_app.
  destruct (space_nonl_all _ LD) as [_ ->]. destruct (space_nonl_all _ TR) as [_ ->].
  destruct (has x0a (w_last r)); [discriminate|]. rewrite !orb_false_r. cbn [orb].
  induction (w_cells r) as [|[t sp] cells IH]; [reflexivity|]. cbn [map concat fst snd forallb] in *.
  apply andb_prop in CE. destruct CE as [C1 C2]. apply andb_prop in C1. destruct C1 as [T S].
  rewrite !has_app, (simple_tok_nonl _ T), (spacer_nonl _ S), (IH C2). reflexivity.
Qed.
Lemma read_infernal sep outfmt ftype n hs ruler pre post rows :
  ruler_ok n ruler = true -> infernal_headers n = Ok hs ->
  forallb (skip_line Infernal true true) pre = true -> forallb (skip_line Infernal true false) post = true ->
  forallb (wsrow_ok n) rows = true ->
  snd (read_content Infernal sep outfmt ftype false
         (unlines (pre ++ [ruler] ++ map wsrow_line rows ++ post))) = rows_features Infernal ftype hs (map wsrow_toks rows).
Proof.
  intros RO IH P Q R.
  destruct (skip_lines_nonl _ _ _ _ P) as [P1 P2]. destruct (skip_lines_nonl _ _ _ _ Q) as [Q1 Q2].
  unfold read_content. rewrite lines_keep_unlines.
  2: { repeat apply forallb_app_intro; try assumption.
       - cbn [forallb]. unfold ruler_ok in RO. apply andb_prop in RO. destruct RO as [RO _]. apply andb_prop in RO. destruct RO as [_ RO].
         rewrite RO. reflexivity.
       - apply forallb_forall. intros l Hl. apply in_map_iff in Hl. destruct Hl as (r & <- & Hr).
         rewrite forallb_forall in R. rewrite (wsrow_nonl n r (R r Hr)). reflexivity. }
  rewrite read_lines_run. rewrite !map_app. rewrite map_map. cbn [map].
  rewrite run_app. rewrite run_skip by exact P2. cbn [app run].
  rewrite (step_ruler (eff_sep Infernal sep) true ftype (mkState None None []) n ruler hs eq_refl RO IH). cbn [s_fts].
  rewrite run_app. rewrite (run_wsrows sep true ftype n hs rows (mkState (Some hs) (Some (Nat.pred n)) []) eq_refl eq_refl R).
  destruct (rows_features Infernal ftype hs (map wsrow_toks rows)) as [fs|e]; [|reflexivity].
  rewrite run_skip by exact Q2. cbn [s_fts]. rewrite app_nil_r. rewrite rev_involutive. reflexivity.
Qed.

(* ---------------- from rows to abstract hits; dialect independence on text ---------------- *)
Lemma rows_features_carry d ftype hs : forall rows hits, Forall2 (row_carries d hs) rows hits ->
  exists fs, rows_features d ftype hs rows = Ok fs /\ map loc_meta fs = map spec_loc_meta hits.
Proof.
  induction 1 as [|toks h rows hits RC _ IH]; [exists []; auto|].
  destruct RC as (L & C & S & I). destruct IH as (fs & E & M).
  cbn [rows_features]. unfold row_feature. rewrite L, Nat.eqb_refl. cbn [negb].
  destruct (hit_row_spec d ftype _ h C S I) as (f & F & LM). rewrite F, E.
  exists (f :: fs). split; [reflexivity|]. cbn [map]. rewrite LM, M. reflexivity.
Qed.
Lemma text_dialect_independent d1 d2 ft1 ft2 hs1 hs2 rows1 rows2 hits (r1 r2 : bool * res (list feat)) :
  snd r1 = rows_features d1 ft1 hs1 rows1 -> snd r2 = rows_features d2 ft2 hs2 rows2 ->
  Forall2 (row_carries d1 hs1) rows1 hits -> Forall2 (row_carries d2 hs2) rows2 hits ->
  exists fs1 fs2, snd r1 = Ok fs1 /\ snd r2 = Ok fs2 /\
                  map loc_meta fs1 = map loc_meta fs2 /\ map loc_meta fs1 = map spec_loc_meta hits.
Proof.
  intros E1 E2 C1 C2.
  destruct (rows_features_carry d1 ft1 hs1 _ _ C1) as (fs1 & F1 & M1).
  destruct (rows_features_carry d2 ft2 hs2 _ _ C2) as (fs2 & F2 & M2).
  exists fs1, fs2. rewrite E1, E2. repeat split; try assumption. congruence.
Qed.


(* ---------------- universal newlines (file transport) ---------------- *)
Lemma univ_nl_id s : has x0d s = false -> univ_nl s = s.
Proof.
  induction s as [|c s IH]; [reflexivity|]. rewrite has_cons. intros H. apply orb_false_elim in H. destruct H as [H1 H2].
  destruct c; cbn [univ_nl]; try (rewrite (IH H2); reflexivity). discriminate.
Qed.
Lemma read_content_univ d sep outfmt ftype content : has x0d content = false ->
  read_content d sep outfmt ftype true content = read_content d sep outfmt ftype false content.
Proof. intros H. unfold read_content. rewrite univ_nl_id by exact H. reflexivity. Qed.
(* a CRLF file read through open() is the LF file *)
Definition unlines_crlf (ls : list str) : str := concat (map (fun l => l ++ [x0d; x0a]) ls).
Lemma univ_nl_app_nocr a b : has x0d a = false -> univ_nl (a ++ b) = a ++ univ_nl b.
Proof.
  induction a as [|c a IH]; [reflexivity|]. rewrite has_cons. intros H. apply orb_false_elim in H. destruct H as [H1 H2].
  destruct c; cbn [app univ_nl]; try (rewrite (IH H2); reflexivity). discriminate.
Qed.
Lemma univ_nl_crlf ls : forallb (fun l => negb (has x0d l)) ls = true -> univ_nl (unlines_crlf ls) = unlines ls.
Proof.
  unfold unlines_crlf, unlines. induction ls as [|l ls IH]; [reflexivity|]. cbn [forallb map concat]. intros F.
  apply andb_prop in F. destruct F as [F1 F2]. rewrite <- !app_assoc.
  rewrite univ_nl_app_nocr by (destruct (has x0d l); [discriminate|reflexivity]).
  cbn [app univ_nl]. rewrite (IH F2). reflexivity.
Qed.
Lemma read_content_crlf d sep outfmt ftype ls : forallb (fun l => negb (has x0d l)) ls = true ->
  read_content d sep outfmt ftype true (unlines_crlf ls) = read_content d sep outfmt ftype false (unlines ls).
Proof. intros F. unfold read_content. rewrite univ_nl_crlf by exact F. reflexivity. Qed.

(* ---------------- outfmt= given: header lines of the file are ignored ---------------- *)
Lemma read_lines_run_outfmt d sep o ftype hs ls : headers_from false d (split_ws o) = Ok hs ->
  snd (read_lines d sep (Some o) ftype ls) =
  match run d sep false ftype (mkState (Some hs) None []) ls with Ok st' => Ok (rev (s_fts st')) | Err e => Err e end.
Proof. intros H. unfold read_lines. rewrite H. apply loop_run. Qed.
(* with headers known, the MMseqs2 name row is skipped, core.py:288 *)
Lemma step_names_ignored c on ftype st hs0 hs : s_headers st = Some hs0 -> names_ok c hs = true ->
  snd (step Mmseqs (Some c) on ftype st (nl (names_line c hs))) = Ok st.
Proof.
  intros HS NO. unfold names_ok in NO.
  apply andb_prop in NO. destruct NO as [NO SUB]. apply andb_prop in NO. destruct NO as [NO LEN].
  apply andb_prop in NO. destruct NO as [NO HASH]. apply andb_prop in NO. destruct NO as [NO EDGE].
  apply andb_prop in NO. destruct NO as [TOK CNL].
  unfold names_line in *. set (toks := map hname hs) in *.
  destruct (strip_line _ EDGE) as [SL NE].
  assert (TK : toks <> []). { intros E. apply NE. rewrite E. reflexivity. }
  assert (SP : split_on c (join c toks) = toks).
  { apply split_on_join; [exact TK|]. apply forallb_forall. intros t Ht. rewrite forallb_forall in TOK. specialize (TOK t Ht).
    apply andb_prop in TOK. tauto. }
  assert (H1 : starts_with (bs "#"%bs) (nl (join c toks)) = false).
  { unfold nl. rewrite starts_with_hash_app by exact NE. destruct (starts_with _ _); [discriminate|reflexivity]. }
  unfold step. cbn [andb]. rewrite H1, HS. unfold nl in *. rewrite SL.
  assert (BL : (match join c toks with [] => true | _ :: _ => false end) = false)
    by (destruct (join c toks); [congruence|reflexivity]).
  rewrite BL. cbn [orb py_split]. rewrite SP.
  assert (LN : length toks = length hs) by (unfold toks; apply map_length).
  rewrite LN, LEN, SUB. reflexivity.
Qed.
(* BLAST 6/7/10 and MMseqs2 0/4 with outfmt=: comment lines (for BLAST 7 including the '# Fields:' line) and, for
   MMseqs2 4, the name row [hdr_rows] are ignored; the columns are those of outfmt *)
Lemma read_outfmt_file d c o ftype hs pre names post rows :
  headers_from false d (split_ws o) = Ok hs ->
  forallb (skip_line d false false) pre = true -> forallb (skip_line d false false) post = true ->
  (match d with Mmseqs => forallb (names_ok c) names | _ => match names with [] => true | _ => false end end) = true ->
  forallb (row_ok d c) rows = true ->
  snd (read_lines d (Some c) (Some o) ftype
         (lines_keep (unlines (pre ++ map (names_line c) names ++ map (join c) rows ++ post)))) = rows_features d ftype hs rows.
Proof.
  intros HF P Q NM R.
  destruct (skip_lines_nonl _ _ _ _ P) as [P1 P2]. destruct (skip_lines_nonl _ _ _ _ Q) as [Q1 Q2].
  assert (NN : forallb (fun l => negb (has x0a l)) (map (names_line c) names) = true).
  { destruct d; try (destruct names; [reflexivity|discriminate]).
    apply forallb_forall. intros l Hl. apply in_map_iff in Hl. destruct Hl as (h & <- & Hh).
    rewrite forallb_forall in NM. rewrite (names_line_nonl c h (NM h Hh)). reflexivity. }
  rewrite lines_keep_unlines by (repeat apply forallb_app_intro; try assumption; eapply rows_nonl; exact R).
  rewrite (read_lines_run_outfmt d (Some c) o ftype hs _ HF). rewrite !map_app. rewrite map_nl_join.
  rewrite run_app. rewrite run_skip by exact P2.
  rewrite run_app.
  assert (RN : run d (Some c) false ftype (mkState (Some hs) None []) (map nl (map (names_line c) names)) =
               Ok (mkState (Some hs) None [])).
  { destruct d; try (destruct names; [reflexivity|discriminate]).
    clear NN. induction names as [|h names IHn]; [reflexivity|]. cbn [forallb] in NM. apply andb_prop in NM. destruct NM as [N1 N2].
    cbn [map run]. rewrite (step_names_ignored c false ftype (mkState (Some hs) None []) hs h eq_refl N1). apply IHn. exact N2. }
  rewrite RN. rewrite run_app. rewrite (run_rows d c false ftype hs rows (mkState (Some hs) None []) eq_refl eq_refl R).
  destruct (rows_features d ftype hs rows) as [fs|e]; [|reflexivity].
  rewrite run_skip by exact Q2. cbn [s_fts]. rewrite app_nil_r. rewrite rev_involutive. reflexivity.
Qed.
