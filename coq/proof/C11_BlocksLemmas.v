(* C11: several '# Fields:' blocks in one BLAST outfmt 7 file; sep=None for BLAST and MMseqs2 *)
From Coq Require Import List ZArith NArith Bool Lia.
From Coq.Strings Require Import Byte.
Import ListNotations.
From SV Require Import Text G_tab C11_Model C11_Lemmas C11_TextLemmas C11_FileLemmas.

Lemma run_block c ftype b st : s_maxsplit st = None -> block_ok c b ->
  run Blast (Some c) true ftype st (map nl (block_lines c b)) =
  match rows_features Blast ftype (b_hs b) (b_rows b) with
  | Ok fs => Ok (mkState (Some (b_hs b)) None (rev fs ++ s_fts st))
  | Err e => Err e
  end.
Proof.
  intros MS (NE & LO & HF & P & M & R).
  destruct (skip_lines_nonl _ _ _ _ P) as [_ P2]. destruct (skip_lines_nonl _ _ _ _ M) as [_ M2].
  unfold block_lines. rewrite !map_app. rewrite map_nl_join. cbn [map].
  rewrite run_app. rewrite run_skip by exact P2. cbn [app run].
  rewrite step_fields by assumption. rewrite MS.
  rewrite run_app. rewrite run_skip by exact M2.
  rewrite (run_rows Blast c true ftype (b_hs b) (b_rows b) (mkState (Some (b_hs b)) None (s_fts st)) eq_refl eq_refl R).
  reflexivity.
Qed.
Lemma run_blocks c ftype : forall blocks st, s_maxsplit st = None -> Forall (block_ok c) blocks ->
  match blocks_features ftype blocks with
  | Ok fs => exists st', run Blast (Some c) true ftype st (map nl (concat (map (block_lines c) blocks))) = Ok st' /\
                         s_maxsplit st' = None /\ s_fts st' = rev fs ++ s_fts st
  | Err e => run Blast (Some c) true ftype st (map nl (concat (map (block_lines c) blocks))) = Err e
  end.
Proof.
  induction blocks as [|b blocks IH]; intros st MS F.
  - cbn. exists st. auto.
  - inversion F as [|? ? Fb Fr]; subst. cbn [map concat blocks_features]. rewrite map_app, run_app.
    rewrite (run_block c ftype b st MS Fb).
    destruct (rows_features Blast ftype (b_hs b) (b_rows b)) as [fs|e]; [|reflexivity].
    specialize (IH (mkState (Some (b_hs b)) None (rev fs ++ s_fts st)) eq_refl Fr).
    destruct (blocks_features ftype blocks) as [gs|e]; [|exact IH].
    destruct IH as (st' & R & M & T). exists st'. split; [exact R|]. split; [exact M|].
    rewrite T. cbn [s_fts]. rewrite rev_app_distr, app_assoc. reflexivity.
Qed.
Lemma forallb_concat {A} (f : A -> bool) ls : forallb (forallb f) ls = true -> forallb f (concat ls) = true.
Proof.
  induction ls as [|l ls IH]; [reflexivity|]. cbn. intros H. apply andb_prop in H. destruct H as [H1 H2].
  rewrite forallb_app, H1, (IH H2). reflexivity.
Qed.
Lemma block_nonl c b : block_ok c b -> forallb (fun l => negb (has x0a l)) (block_lines c b) = true.
Proof.
  intros (NE & LO & HF & P & M & R).
  destruct (skip_lines_nonl _ _ _ _ P) as [P1 _]. destruct (skip_lines_nonl _ _ _ _ M) as [M1 _].
  unfold block_lines. repeat apply forallb_app_intro; try assumption.
  - cbn [forallb]. rewrite fields_line_nonl by exact LO. reflexivity.
  - eapply rows_nonl. exact R.
Qed.
(* BLAST outfmt 7, several queries *)
Lemma read_blast7_blocks c ftype blocks post : Forall (block_ok c) blocks ->
  forallb (skip_line Blast true true) post = true ->
  snd (read_content Blast (Some c) None ftype false (unlines (concat (map (block_lines c) blocks) ++ post))) =
  blocks_features ftype blocks.
Proof.
  intros F Q. destruct (skip_lines_nonl _ _ _ _ Q) as [Q1 Q2].
  unfold read_content. cbn [eff_sep]. rewrite lines_keep_unlines.
  2: { apply forallb_app_intro; [|exact Q1]. apply forallb_concat. apply forallb_forall. intros l Hl.
       apply in_map_iff in Hl. destruct Hl as (b & <- & Hb). apply (block_nonl c). rewrite Forall_forall in F. exact (F b Hb). }
  rewrite read_lines_run. rewrite map_app, run_app.
  pose proof (run_blocks c ftype blocks (mkState None None []) eq_refl F) as RB.
  destruct (blocks_features ftype blocks) as [fs|e].
  - destruct RB as (st' & R & M & T). rewrite R. rewrite run_skip by exact Q2. rewrite T. cbn [s_fts].
    rewrite app_nil_r, rev_involutive. reflexivity.
  - rewrite RB. reflexivity.
Qed.

(* ---------------- sep=None ---------------- *)
Lemma split_ws_go_end : forall t n acc, forallb (fun c => negb (is_space c)) t = true ->
  split_ws_go n (Some acc) t = [rev (rev t ++ acc)].
Proof.
  induction t as [|c t IH]; intros n acc T; [reflexivity|]. cbn [forallb] in T. apply andb_prop in T. destruct T as [T1 T2].
  cbn [split_ws_go]. destruct (is_space c); [discriminate|]. rewrite IH by exact T2. cbn [rev]. rewrite <- app_assoc. reflexivity.
Qed.
Lemma split_ws_render_gt : forall cells last n, (length cells < n)%nat ->
  forallb (fun p => simple_tok (fst p) && spacer (snd p)) cells = true -> simple_tok last = true ->
  split_ws_go n None (render_ws cells last) = map fst cells ++ [last].
Proof.
  unfold render_ws. induction cells as [|[t sp] cells IH]; intros last n L F S.
  - destruct n as [|n']; [cbn in L; lia|]. destruct last as [|c l]; [discriminate|]. cbn [simple_tok forallb] in S.
    apply andb_prop in S. destruct S as [S1 S2]. cbn [map concat app split_ws_go]. destruct (is_space c); [discriminate|].
    rewrite split_ws_go_end by exact S2. cbn [rev app]. rewrite rev_app_distr, rev_involutive. reflexivity.
  - destruct n as [|n']; [cbn in L; lia|]. cbn [length] in L.
    cbn [forallb fst snd] in F. apply andb_prop in F. destruct F as [F1 F2]. apply andb_prop in F1. destruct F1 as [TK SP].
    destruct t as [|c t]; [discriminate|]. cbn [simple_tok forallb] in TK. apply andb_prop in TK. destruct TK as [T1 T2].
    destruct (spacer_space _ SP) as (s & sp' & -> & S1 & S2).
    cbn [map concat fst snd]. rewrite <- !app_assoc. cbn [app split_ws_go].
    destruct (is_space c); [discriminate|].
    rewrite split_ws_go_tok by assumption. rewrite split_ws_go_skip by exact S2.
    rewrite (IH last n') by (try assumption; lia). cbn [rev app]. rewrite rev_app_distr, rev_involutive. reflexivity.
Qed.
Lemma render_ws_length cells last : forallb (fun p => simple_tok (fst p) && spacer (snd p)) cells = true -> last <> [] ->
  (length cells < length (render_ws cells last))%nat.
Proof.
  unfold render_ws. induction cells as [|[t sp] cells IH]; intros F NE.
  - destruct last; [congruence|cbn; lia].
  - cbn [forallb fst snd] in F. apply andb_prop in F. destruct F as [F1 F2]. apply andb_prop in F1. destruct F1 as [TK _].
    destruct t as [|c t]; [discriminate|]. specialize (IH F2 NE). cbn [map concat fst snd].
    rewrite <- !app_assoc. cbn [app length]. rewrite (app_length t), (app_length sp). lia.
Qed.
Lemma split_ws_render_full cells last :
  forallb (fun p => simple_tok (fst p) && spacer (snd p)) cells = true -> simple_tok last = true ->
  split_ws (render_ws cells last) = map fst cells ++ [last].
Proof.
  intros F S. unfold split_ws, split_ws_max. apply split_ws_render_gt; [|exact F|exact S].
  apply render_ws_length; [exact F|]. destruct last; [discriminate|discriminate].
Qed.

Lemma step_wsrow_none d on ftype st hs r :
  eff_headers d st = Ok hs ->
  (match d with Infernal => match s_headers st with None => false | Some _ => true end | _ => true end) = true ->
  s_maxsplit st = None -> wsrow_simple_ok d r = true ->
  snd (step d None on ftype st (nl (wsrow_line r))) =
  match row_feature d ftype hs (wsrow_toks r) with
  | Err e => Err e
  | Ok ft => Ok (mkState (Some hs) None (ft :: s_fts st))
  end.
Proof.
  intros HS NI MS W0. unfold wsrow_simple_ok in W0. apply andb_prop in W0. destruct W0 as [W0 MMH].
  apply andb_prop in W0. destruct W0 as [W SL0]. unfold wsrow_ok in W.
  apply andb_prop in W. destruct W as [W HASH]. apply andb_prop in W. destruct W as [W TR].
  apply andb_prop in W. destruct W as [W LD]. apply andb_prop in W. destruct W as [W LNL].
  apply andb_prop in W. destruct W as [W E]. apply andb_prop in W. destruct W as [_ CE].
  destruct (space_nonl_all _ LD) as [LA _]. destruct (space_nonl_all _ TR) as [TA _].
  pose proof (edge_ok_render _ _ CE E) as ER.
  assert (SL : strip_ws (nl (wsrow_line r)) = render_ws (w_cells r) (w_last r)).
  { unfold nl, wsrow_line. rewrite <- !app_assoc. apply strip_pad; [exact LA| |exact ER].
    unfold all_space. rewrite forallb_app. fold (all_space (w_trail r)). rewrite TA. reflexivity. }
  assert (NE : wsrow_line r <> []).
  { unfold wsrow_line. pose proof (edge_ok_nonempty _ ER) as X. destruct (w_lead r); cbn; [|discriminate].
    destruct (render_ws (w_cells r) (w_last r)); [congruence|discriminate]. }
  assert (H1 : starts_with (bs "#"%bs) (nl (wsrow_line r)) = false).
  { unfold nl. rewrite starts_with_hash_app by exact NE. destruct (starts_with _ _); [discriminate|reflexivity]. }
  assert (H0 : starts_with (bs "# Fields:"%bs) (nl (wsrow_line r)) = false).
  { destruct (starts_with (bs "# Fields:"%bs) (nl (wsrow_line r))) eqn:X; [|reflexivity].
    apply starts_with_fields_hash in X. congruence. }
  unfold step. rewrite H0, H1, MS, SL. rewrite !andb_false_r. cbn [andb orb].
  assert (INF : (match d with Infernal => true | _ => false end &&
                 match s_headers st with None => true | Some _ => false end) = false).
  { destruct d; try reflexivity. destruct (s_headers st); [reflexivity|discriminate]. }
  rewrite INF. cbn [andb].
  assert (BL : (match render_ws (w_cells r) (w_last r) with [] => true | _ :: _ => false end) = false)
    by (pose proof (edge_ok_nonempty _ ER); destruct (render_ws _ _); [congruence|reflexivity]).
  rewrite BL. cbn [py_split]. rewrite split_ws_render_full by (try assumption). fold (wsrow_toks r).
  assert (MM : (match d with Mmseqs => true | _ => false end &&
                (Nat.ltb 1 (length (wsrow_toks r)) && subset (wsrow_toks r) MMSEQS_HEADER_NAMES)) = false).
  { unfold mm_header_toks in MMH. destruct d; try reflexivity. cbn [andb]. destruct (_ && _); [discriminate|reflexivity]. }
  rewrite MM. unfold eff_headers in HS. rewrite HS. destruct (row_feature d ftype hs (wsrow_toks r)); reflexivity.
Qed.
Lemma run_wsrows_none d on ftype hs : forall rows st,
  eff_headers d st = Ok hs ->
  (match d with Infernal => match s_headers st with None => false | Some _ => true end | _ => true end) = true ->
  s_maxsplit st = None -> forallb (wsrow_simple_ok d) rows = true ->
  match rows_features d ftype hs (map wsrow_toks rows) with
  | Ok fs => exists st', run d None on ftype st (map (fun r => nl (wsrow_line r)) rows) = Ok st' /\ s_fts st' = rev fs ++ s_fts st
  | Err e => run d None on ftype st (map (fun r => nl (wsrow_line r)) rows) = Err e
  end.
Proof.
  induction rows as [|r rows IH]; intros st HS NI MS F; cbn [map run rows_features].
  - exists st. auto.
  - cbn in F. apply andb_prop in F. destruct F as [F1 F2].
    rewrite (step_wsrow_none d on ftype st hs r HS NI MS F1).
    destruct (row_feature d ftype hs (wsrow_toks r)) as [ft|e]; [|reflexivity].
    specialize (IH (mkState (Some hs) None (ft :: s_fts st)) eq_refl ltac:(destruct d; reflexivity) eq_refl F2).
    destruct (rows_features d ftype hs (map wsrow_toks rows)) as [fs|e]; [|exact IH].
    destruct IH as (st' & R & T). exists st'. split; [exact R|]. rewrite T. cbn [s_fts rev]. rewrite <- app_assoc. reflexivity.
Qed.
(* BLAST / MMseqs2 read with sep=None (any whitespace), columns from outfmt= or the defaults *)
Lemma read_rows_sep_none d outfmt ftype hs rows :
  (match d with Infernal => false | _ => true end) = true ->
  (match outfmt with
   | Some o => headers_from false d (split_ws o)
   | None => match assoc (dialect_name d) DEFAULT_OUTFMT with Some names => headers_from false d names | None => Err eKey end
   end) = Ok hs ->
  forallb (wsrow_simple_ok d) rows = true ->
  snd (read_content d None outfmt ftype false (unlines (map wsrow_line rows))) = rows_features d ftype hs (map wsrow_toks rows).
Proof.
  intros ND HH F.
  assert (NL : forallb (fun l => negb (has x0a l)) (map wsrow_line rows) = true).
  { apply forallb_forall. intros l Hl. apply in_map_iff in Hl. destruct Hl as (r & <- & Hr).
    rewrite forallb_forall in F. specialize (F r Hr). unfold wsrow_simple_ok in F. apply andb_prop in F. destruct F as [F _].
    apply andb_prop in F. destruct F as [F _]. rewrite (wsrow_nonl _ r F). reflexivity. }
  unfold read_content. replace (eff_sep d None) with (@None byte) by (destruct d; reflexivity).
  replace (match d with Infernal => None | _ => outfmt end) with outfmt by (destruct d; try reflexivity; discriminate).
  rewrite lines_keep_unlines by exact NL. rewrite map_map.
  destruct outfmt as [o|].
  - rewrite (read_lines_run_outfmt d None o ftype hs _ HH).
    pose proof (run_wsrows_none d false ftype hs rows (mkState (Some hs) None []) eq_refl ltac:(destruct d; reflexivity) eq_refl F) as R.
    destruct (rows_features d ftype hs (map wsrow_toks rows)) as [fs|e].
    + destruct R as (st' & R & T). rewrite R, T. cbn [s_fts]. rewrite app_nil_r, rev_involutive. reflexivity.
    + rewrite R. reflexivity.
  - rewrite read_lines_run.
    pose proof (run_wsrows_none d true ftype hs rows (mkState None None []) HH ltac:(destruct d; try reflexivity; discriminate) eq_refl F) as R.
    destruct (rows_features d ftype hs (map wsrow_toks rows)) as [fs|e].
    + destruct R as (st' & R & T). rewrite R, T. cbn [s_fts]. rewrite app_nil_r, rev_involutive. reflexivity.
    + rewrite R. reflexivity.
Qed.

(* ---------------- outfmt= with comment / blank lines anywhere between the rows ---------------- *)
Lemma rows_features_app d ftype hs a b :
  rows_features d ftype hs (a ++ b) =
  match rows_features d ftype hs a with
  | Ok fa => match rows_features d ftype hs b with Ok fb => Ok (fa ++ fb) | Err e => Err e end
  | Err e => Err e
  end.
Proof.
  induction a as [|r a IH]; cbn [app rows_features].
  - destruct (rows_features d ftype hs b); reflexivity.
  - destruct (row_feature d ftype hs r); [|reflexivity]. rewrite IH.
    destruct (rows_features d ftype hs a); [|reflexivity]. destruct (rows_features d ftype hs b); reflexivity.
Qed.
Definition seg_lines (c : byte) (s : list str * list (list str)) : list str := fst s ++ map (join c) (snd s).
Definition seg_ok (d : dialect) (c : byte) (s : list str * list (list str)) : bool :=
  forallb (skip_line d false false) (fst s) && forallb (row_ok d c) (snd s).
Lemma run_segs d c ftype hs : forall segs st, s_headers st = Some hs -> s_maxsplit st = None ->
  forallb (seg_ok d c) segs = true ->
  run d (Some c) false ftype st (map nl (concat (map (seg_lines c) segs))) =
  match rows_features d ftype hs (concat (map snd segs)) with
  | Ok fs => Ok (mkState (Some hs) None (rev fs ++ s_fts st))
  | Err e => Err e
  end.
Proof.
  induction segs as [|[cm rows] segs IH]; intros st HS MS F.
  - cbn. destruct st; cbn in *; subst; reflexivity.
  - cbn [forallb] in F. apply andb_prop in F. destruct F as [F1 F2]. unfold seg_ok in F1. cbn [fst snd] in F1.
    apply andb_prop in F1. destruct F1 as [P R]. destruct (skip_lines_nonl _ _ _ _ P) as [_ P2].
    cbn [map concat snd]. unfold seg_lines at 1. cbn [fst snd]. rewrite !map_app, map_nl_join, <- app_assoc.
    rewrite run_app.
    assert (P3 : forallb (fun l => skip_ok d false (hnone st) (nl l)) cm = true).
    { unfold hnone. rewrite HS. exact P2. }
    rewrite run_skip by exact P3. rewrite run_app. rewrite (run_rows d c false ftype hs rows st HS MS R).
    rewrite rows_features_app. destruct (rows_features d ftype hs rows) as [fa|e]; [|reflexivity].
    rewrite IH by (try reflexivity; exact F2). cbn [s_fts].
    destruct (rows_features d ftype hs (concat (map snd segs))) as [fb|e]; [|reflexivity].
    rewrite rev_app_distr, app_assoc. reflexivity.
Qed.
Lemma seg_nonl d c s : seg_ok d c s = true -> forallb (fun l => negb (has x0a l)) (seg_lines c s) = true.
Proof.
  unfold seg_ok, seg_lines. intros F. apply andb_prop in F. destruct F as [P R].
  destruct (skip_lines_nonl _ _ _ _ P) as [P1 _]. apply forallb_app_intro; [exact P1|eapply rows_nonl; exact R].
Qed.
Lemma read_outfmt_segments d c o ftype hs segs post :
  headers_from false d (split_ws o) = Ok hs -> forallb (seg_ok d c) segs = true ->
  forallb (skip_line d false false) post = true ->
  snd (read_lines d (Some c) (Some o) ftype (lines_keep (unlines (concat (map (seg_lines c) segs) ++ post)))) =
  rows_features d ftype hs (concat (map snd segs)).
Proof.
  intros HF F Q. destruct (skip_lines_nonl _ _ _ _ Q) as [Q1 Q2].
  rewrite lines_keep_unlines.
  2: { apply forallb_app_intro; [|exact Q1]. apply forallb_concat. apply forallb_forall. intros l Hl.
       apply in_map_iff in Hl. destruct Hl as (s & <- & Hs). apply (seg_nonl d c). rewrite forallb_forall in F. exact (F s Hs). }
  rewrite (read_lines_run_outfmt d (Some c) o ftype hs _ HF). rewrite map_app, run_app.
  rewrite (run_segs d c ftype hs segs (mkState (Some hs) None []) eq_refl eq_refl F).
  destruct (rows_features d ftype hs (concat (map snd segs))) as [fs|e]; [|reflexivity].
  rewrite run_skip by exact Q2. cbn [s_fts]. rewrite app_nil_r, rev_involutive. reflexivity.
Qed.

(* ---------------- the ftype option: ft.meta.type = attrs.get(ftype, ftype) ---------------- *)
Lemma copyattrs_type_free : mem (bs "type"%bs) (map snd copyattrs) = false.
Proof. vm_compute. reflexivity. Qed.
Lemma feature_type d ftype a f : feature_of_attrs d ftype a = Ok f ->
  assoc (bs "type"%bs) (f_common f) =
  match ftype with
  | None => None
  | Some k => Some (match assoc k a with Some v => v | None => AStr k end)
  end.
Proof.
  unfold feature_of_attrs.
  destruct (cattr d a _) as [v1|]; [|discriminate]. destruct (cattr d a _) as [v2|]; [|discriminate].
  destruct (cattr d a _) as [v3|]; [|discriminate]. destruct (cattr d a _) as [v4|]; [|discriminate].
  destruct (as_int v1); [|discriminate]. destruct (as_int v2); [|discriminate].
  destruct (as_int v3); [|discriminate]. destruct (as_int v4); [|discriminate].
  destruct (orient _ _ _ _ _) as [[[lo hi] st]|]; [|discriminate].
  destruct (complete_ident a) as [a'|]; [|discriminate].
  destruct (copy_attrs _ _ _ _) as [common|] eqn:CA; [|discriminate].
  intros H; inversion H; subst f; cbn [f_common]. clear H.
  rewrite (copy_attrs_preserves _ _ _ _ _ (bs "type"%bs) copyattrs_type_free CA).
  destruct ftype as [k|]; [|reflexivity]. destruct (assoc k a); cbn [assoc]; rewrite str_eqb_refl; reflexivity.
Qed.
