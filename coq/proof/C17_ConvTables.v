(* C17: the 27 finite theorems (model of convert.py on the text of gc.prt = table of gc.json) unpacked. *)
From Coq Require Import List ZArith NArith Bool Lia.
From Coq.Strings Require Import Byte.
Import ListNotations.
From SV Require Import Text G_codes C17_Model C17_Convert C17_GenSpec C17_ConvSpec C17_ConvLemmas
  G_gc_ids G_gc_prt_text G_gc_all G_gc_conv_all.

Lemma listN_eqb_eq a : forall b, listN_eqb a b = true -> a = b.
Proof.
  induction a as [|x a IH]; intros [|y b] H; simpl in H; try discriminate; [reflexivity|].
  apply andb_prop in H. destruct H as [H1 H2]. apply N.eqb_eq in H1. subst. rewrite (IH _ H2). reflexivity.
Qed.

Lemma convert_tables : forall n t aa sc,
  nth_error all_tables n = Some t -> nth_error all_lines n = Some (aa, sc) ->
  exists es en g, emitted (lines_of prt_text []) st0 = inr es /\ map e_id es = json_ids /\
    nth_error es n = Some en /\ e_id en = t_key t /\ generate_gc CODES en = inr g /\ gc_json_eqb g t aa sc = true.
Proof.
  intros n t aa sc Ht Hl.
  pose proof (forallb_combine_seq
    (fun x : nat * table * (str * str) => conv_ok CODES prt_text (fst (fst x)) (snd (fst x)) (fst (snd x)) (snd (snd x)))
    all_tables all_lines 0%nat all_conv_ok n t (aa, sc) Ht Hl) as H.
  cbn [fst snd Nat.add] in H. pose proof emitted_ids_ok as I. unfold emitted_ids_check in I. unfold conv_ok in H.
  destruct (emitted (lines_of prt_text []) st0) as [x|es] eqn:Ee; [discriminate|].
  destruct (nth_error es n) as [en|] eqn:En; [|discriminate].
  apply andb_prop in H. destruct H as [H1 H2]. apply N.eqb_eq in H1.
  destruct (generate_gc CODES en) as [x|g] eqn:Eg; [discriminate|].
  apply andb_prop in I. destruct I as [I _]. apply listN_eqb_eq in I.
  exists es, en, g. repeat split; assumption.
Qed.

(* the shipped alphabet satisfies the side condition of the unbounded theorems *)
Lemma codes_instance : conv_codes_ok CODES (all_codes CODES) = true.
Proof. vm_compute. reflexivity. Qed.

(* non-vacuity: a small alphabet (A C G T R), the standard code with stops TAA TAG TGA and start ATG *)
Definition w_codes : list (byte * str) :=
  [(x41, [x41]); (x43, [x43]); (x47, [x47]); (x54, [x54]); (x52, [x41; x47]); (x2e, [x2e])].
Definition w_aas : str := bs "FFLLSSSSYY**CC*WLLLLPPPPHHQQRRRRIIIMTTTTNNKKSSRRVVVVAAAADDEEGGGG"%bs.
Definition w_sc : str := bs "----------**--*--------------------M----------------------------"%bs.
Lemma gen_witness :
  conv_codes_ok w_codes (all_codes w_codes) = true /\ (64 <= length w_aas)%nat /\ (64 <= length w_sc)%nat /\
  exists g, generate_gc_ac w_codes (all_codes w_codes) 1%N (bs "W"%bs) w_aas w_sc = inr g /\
    lookupS (bs "CTR"%bs) (g_tt g) = Some x4c /\ lookupS (bs "TAR"%bs) (g_tt g) = Some x2a /\
    lookupS (bs "TRA"%bs) (g_tt g) = Some x2a /\ lookupS (bs "ATR"%bs) (g_tt g) = None /\
    g_astops g = [bs "TAR"%bs; bs "TGR"%bs; bs "TRA"%bs; bs "TRG"%bs; bs "TRR"%bs] /\
    g_astarts g = [bs "ATR"%bs; bs "RTG"%bs; bs "RTR"%bs] /\
    row x2a (g_ttinv g) = [bs "TAA"%bs; bs "TAG"%bs; bs "TGA"%bs].
Proof.
  split; [vm_compute; reflexivity|]. split; [vm_compute; lia|]. split; [vm_compute; lia|].
  eexists. split; [vm_compute; reflexivity|]. vm_compute. repeat split.
Qed.
