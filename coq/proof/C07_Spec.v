(* C07 proofs, part 2: on gap-free input the loop is the codon-level specification; closed forms of the specification. *)
From Coq Require Import List ZArith NArith Bool Lia Arith.
From Coq.Strings Require Import Byte.
Import ListNotations.
From SV Require Import Text C05_Model G_gc_ids G_c07_tabs C07_Model C07_Lemmas.

Lemma triple_ind (P : list byte -> Prop) :
  P [] -> (forall a, P [a]) -> (forall a b, P [a; b]) ->
  (forall a b d r, P r -> P (a :: b :: d :: r)) -> forall l, P l.
Proof.
  intros H0 H1 H2 H3.
  assert (H: forall l, P l /\ (forall a, P (a :: l)) /\ (forall a b, P (a :: b :: l))).
  { induction l as [|x l (IH0 & IH1 & IH2)].
    - repeat split; auto.
    - repeat split; auto. }
  intros l. apply (H l).
Qed.

Lemma codons_nil_iff l : (match codons l with [] => true | _ => false end) = negb (Nat.leb 3 (length l)).
Proof. destruct l as [|a [|b [|d r]]]; reflexivity. Qed.

Definition res_prefix (a : list byte) (r : res) : res :=
  match r with Ok x => Ok (rev a ++ x) | Err e => Err e end.
Definition spec_cs (t : gtab) (b : bool) (cs : list str) (r : res) : res :=
  match cs with c :: _ => if b && negb (can_start t c) then Err ENoStart else r | [] => r end.

Section Spec.
Variable t : gtab.
Variable o : opts.
Hypothesis Hafter : gap_after_ok o = true.

Definition mkst (a : list byte) (c : str) (b : bool) (n : nat) : st :=
  {| aas := a; ngap := 0%Z; codon := c; cs := b; nres := n |}.

(* a residue that does not complete a codon *)
Lemma step_partial a c b n x : is_gap o x = false -> (length c < 2)%nat ->
  step t o (mkst a c b (S n)) x = inl (mkst a (c ++ [x]) b n).
Proof.
  intros G L. unfold step, mkst. cbn [aas ngap codon cs nres]. rewrite G, (emit_gap_zero o Hafter). cbn [fst snd pred].
  assert (E: Nat.eqb (length (c ++ [x])) 3 = false).
  { apply Nat.eqb_neq. rewrite app_length. simpl. lia. }
  rewrite E. reflexivity.
Qed.

Lemma step_full a x y b n z : is_gap o z = false ->
  step t o (mkst a [x; y] b (S n)) z =
    if b && negb (can_start t [x; y; z]) then inr (Err ENoStart) else
    if is_stop t [x; y; z] then
      if o_check_stop o && Nat.leb 3 n then inr (Err EStopNotLast) else
      if negb (Nat.leb 3 n) || negb (o_complete o) then
        inr (Ok (rev (if eff_final_stop o then aa_of t (o_astop o) [x; y; z] :: a else a)))
      else inl (mkst (aa_of t (o_astop o) [x; y; z] :: a) [] false n)
    else inl (mkst (aa_of t (o_astop o) [x; y; z] :: a) [] false n).
Proof.
  intros G. unfold step, mkst. cbn [aas ngap codon cs nres]. rewrite G, (emit_gap_zero o Hafter).
  cbn [fst snd pred app length Nat.eqb]. reflexivity.
Qed.

Lemma go_spec : forall l a b, forallb (fun x => negb (is_gap o x)) l = true ->
  go t o (mkst a [] b (length l)) l = spec_cs t b (codons l) (res_prefix a (spec_go t o (codons l))).
Proof.
  induction l as [| x | x y | x y z r IH] using triple_ind; intros a b Hl.
  - simpl. destruct (o_check_stop o); simpl; [reflexivity|]. rewrite app_nil_r. reflexivity.
  - simpl in Hl. rewrite andb_true_r in Hl. apply negb_true_iff in Hl.
    cbn [go length]. rewrite (step_partial a [] b 0 x Hl) by (simpl; lia). cbn [go mkst codon aas app].
    rewrite short_not_in_set by (simpl; lia). simpl.
    destruct (o_check_stop o); simpl; [reflexivity|]. rewrite app_nil_r. reflexivity.
  - simpl in Hl. rewrite andb_true_r in Hl. apply andb_prop in Hl. destruct Hl as [Hx Hy].
    apply negb_true_iff in Hx. apply negb_true_iff in Hy.
    cbn [go length]. rewrite (step_partial a [] b 1 x Hx) by (simpl; lia). cbn [app].
    rewrite (step_partial a [x] b 0 y Hy) by (simpl; lia). cbn [go mkst codon aas app].
    rewrite short_not_in_set by (simpl; lia). simpl.
    destruct (o_check_stop o); simpl; [reflexivity|]. rewrite app_nil_r. reflexivity.
  - cbn [forallb] in Hl. apply andb_prop in Hl. destruct Hl as [Hx Hl].
    apply andb_prop in Hl. destruct Hl as [Hy Hl]. apply andb_prop in Hl. destruct Hl as [Hz Hl].
    apply negb_true_iff in Hx. apply negb_true_iff in Hy. apply negb_true_iff in Hz.
    cbn [go length]. rewrite (step_partial a [] b _ x Hx) by (simpl; lia). cbn [app].
    rewrite (step_partial a [x] b _ y Hy) by (simpl; lia). cbn [app].
    (* third residue completes the codon *)
    rewrite (step_full a x y b _ z Hz).
    cbn [codons spec_cs].
    destruct (b && negb (can_start t [x; y; z])); [reflexivity|].
    cbv zeta. cbn [spec_go].
    pose proof (codons_nil_iff r) as HN.
    destruct (is_stop t [x; y; z]) eqn:ST; cbn [andb].
    + destruct (o_check_stop o) eqn:CS; cbn [andb].
      * destruct (Nat.leb 3 (length r)) eqn:L3.
        -- destruct (codons r) eqn:CR; [simpl in HN; discriminate|]. reflexivity.
        -- destruct (codons r) eqn:CR; [|simpl in HN; discriminate].
           cbn [negb orb andb]. simpl. destruct (eff_final_stop o); simpl; rewrite ?app_nil_r; reflexivity.
      * destruct (Nat.leb 3 (length r)) eqn:L3.
        -- destruct (codons r) eqn:CR; [simpl in HN; discriminate|]. rewrite <- CR.
           cbn [negb orb andb]. destruct (o_complete o) eqn:CO; cbn [negb].
           ++ rewrite (IH _ false Hl). unfold spec_cs. rewrite CR. cbn [andb].
              destruct (spec_go t o (s :: l)); simpl; [|reflexivity].
              rewrite <- app_assoc. reflexivity.
           ++ simpl. destruct (eff_final_stop o); simpl; rewrite ?app_nil_r; reflexivity.
        -- destruct (codons r) eqn:CR; [|simpl in HN; discriminate].
           cbn [negb orb andb]. simpl. destruct (eff_final_stop o); simpl; rewrite ?app_nil_r; reflexivity.
    + rewrite (IH _ false Hl).
      assert (SC: forall q, spec_cs t false (codons r) q = q) by (intro q; unfold spec_cs; destruct (codons r); reflexivity).
      rewrite SC. destruct (spec_go t o (codons r)); simpl; [|reflexivity].
      rewrite <- app_assoc. reflexivity.
Qed.

Lemma degap_in_id l : forallb (fun x => negb (is_gap o x)) l = true -> degap_in o l = l.
Proof.
  unfold degap_in. induction l as [|x l IH]; simpl; [reflexivity|]. intros H. apply andb_prop in H.
  destruct H as [H1 H2]. rewrite H1, IH by assumption. reflexivity.
Qed.

Lemma res_prefix_nil r : res_prefix [] r = r.
Proof. destruct r; reflexivity. Qed.

(* main theorem of this part *)
Lemma translate_t_spec l : forallb (fun x => negb (is_gap o x)) l = true ->
  translate_t t o l = spec_translate t o l.
Proof.
  intros H. unfold translate_t, init. rewrite (degap_in_id l H).
  fold (mkst [] [] (eff_check_start o) (length l)). rewrite go_spec by exact H.
  rewrite res_prefix_nil. unfold spec_translate, spec_cs. destruct (codons l); reflexivity.
Qed.

End Spec.

(* ---------------------------------------------------------------- closed forms of the specification *)
Section Closed.
Variable t : gtab.
Variable o : opts.
Let aa := aa_of t (o_astop o).

Lemma spec_go_not_nostart cs : spec_go t o cs <> Err ENoStart.
Proof.
  induction cs as [|c r IH]; simpl.
  - destruct (o_check_stop o); discriminate.
  - destruct (is_stop t c && o_check_stop o && negb match r with [] => true | _ => false end); [discriminate|].
    destruct (is_stop t c && (match r with [] => true | _ => false end || negb (o_complete o))); [discriminate|].
    destruct (spec_go t o r) as [x|e]; [discriminate|]. intros H. apply IH. congruence.
Qed.

(* complete, no stop check: codon by codon; a terminal stop symbol is written iff final_stop *)
Lemma spec_go_complete cs : o_complete o = true -> o_check_stop o = false ->
  spec_go t o cs = Ok (map aa (if eff_final_stop o || negb (last_is_stop t cs) then cs else removelast cs)).
Proof.
  intros HC HS. induction cs as [|c r IH].
  - simpl. rewrite HS. destruct (eff_final_stop o); reflexivity.
  - cbn [spec_go]. rewrite HS, HC, andb_false_r. cbn [andb negb orb]. rewrite orb_false_r.
    destruct r as [|c' r'].
    + unfold last_is_stop. cbn [rev app]. destruct (is_stop t c); cbn [andb negb].
      * rewrite orb_false_r. destruct (eff_final_stop o); reflexivity.
      * simpl. rewrite HS. rewrite orb_true_r. reflexivity.
    + rewrite andb_false_r. rewrite IH.
      assert (L: last_is_stop t (c :: c' :: r') = last_is_stop t (c' :: r')).
      { unfold last_is_stop. cbn [rev]. destruct (rev r' ++ [c']) eqn:E.
        - destruct (rev r'); discriminate.
        - reflexivity. }
      rewrite L. destruct (eff_final_stop o || negb (last_is_stop t (c' :: r'))); reflexivity.
Qed.

(* not complete, no stop check: everything before the first stop codon, plus its symbol iff final_stop *)
Lemma spec_go_first_stop cs : o_complete o = false -> o_check_stop o = false ->
  spec_go t o cs = Ok (map aa (take_nonstop t cs) ++
                       match first_stop t cs with Some (c, _) => if eff_final_stop o then [aa c] else [] | None => [] end).
Proof.
  intros HC HS. induction cs as [|c r IH].
  - simpl. rewrite HS. reflexivity.
  - cbn [spec_go take_nonstop first_stop]. rewrite HS, HC, andb_false_r. cbn [andb negb orb]. rewrite orb_true_r.
    destruct (is_stop t c); cbn [andb].
    + destruct (eff_final_stop o); reflexivity.
    + rewrite IH. reflexivity.
Qed.

(* with check_stop the result is an error iff the first stop codon does not exist or is not the last complete codon *)
Lemma spec_go_check_stop cs : o_check_stop o = true ->
  spec_go t o cs = match first_stop t cs with
                   | None => Err ENoStop
                   | Some (c, []) => Ok (map aa (take_nonstop t cs) ++ (if eff_final_stop o then [aa c] else []))
                   | Some (c, _ :: _) => Err EStopNotLast
                   end.
Proof.
  intros HS. induction cs as [|c r IH].
  - simpl. rewrite HS. reflexivity.
  - cbn [spec_go take_nonstop first_stop]. rewrite HS.
    destruct (is_stop t c); cbn [andb].
    + destruct r; cbn [negb orb]; [|reflexivity]. destruct (eff_final_stop o); reflexivity.
    + rewrite IH. destruct (first_stop t r) as [[c' [|x y]]|]; reflexivity.
Qed.

Lemma spec_go_no_check_ok cs : o_check_stop o = false -> exists x, spec_go t o cs = Ok x.
Proof.
  intros HS. induction cs as [|c r (x & IH)]; simpl; rewrite HS.
  - eexists; reflexivity.
  - rewrite andb_false_r. cbn [andb].
    destruct (is_stop t c && (match r with [] => true | _ => false end || negb (o_complete o))); [eexists; reflexivity|].
    rewrite IH. eexists; reflexivity.
Qed.

(* check_start raises exactly when the first codon exists and can not be a start *)
Lemma spec_translate_nostart l :
  spec_translate t o l = Err ENoStart <->
  (eff_check_start o = true /\ exists c r, codons l = c :: r /\ can_start t c = false).
Proof.
  unfold spec_translate. destruct (codons l) as [|c r] eqn:E.
  - split; [intros H; exfalso; exact (spec_go_not_nostart [] H)|]. intros (_ & c & r & H & _). discriminate.
  - destruct (eff_check_start o); cbn [andb].
    + destruct (can_start t c) eqn:CS; cbn [negb].
      * split; [intros H; exfalso; exact (spec_go_not_nostart _ H)|]. intros (_ & c' & r' & H & H'). inversion H; subst. congruence.
      * split; [|reflexivity]. intros _. split; [reflexivity|]. exists c, r. split; [reflexivity|exact CS].
    + split; [intros H; exfalso; exact (spec_go_not_nostart _ H)|]. intros (H & _). discriminate.
Qed.

Lemma spec_translate_started l :
  (eff_check_start o = false \/ codons l = [] \/ exists c r, codons l = c :: r /\ can_start t c = true) ->
  spec_translate t o l = spec_go t o (codons l).
Proof.
  unfold spec_translate. intros [H|[H|(c & r & H & H')]].
  - rewrite H. destruct (codons l); reflexivity.
  - rewrite H. reflexivity.
  - rewrite H, H'. rewrite andb_false_r. reflexivity.
Qed.

End Closed.
