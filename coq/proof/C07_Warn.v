(* C07 proofs, part 8: warn=True. The loop with its warnings (translate_w) returns what translate returns, and on gap-free input
   the warnings are exactly the codon-level specification spec_warns. *)
From Coq Require Import List ZArith NArith Bool Lia Arith.
From Coq.Strings Require Import Byte.
Import ListNotations.
From SV Require Import Text C05_Model G_gc_ids G_c07_tabs C07_Model C07_Lemmas C07_Spec.

(* ---------------------------------------------------------------- warn never changes the returned value / the exception *)
Lemma codon_w_fst t o w s c n a z :
  match codon_w t o w s c n a z with
  | inl s' =>
      (if cs (w_st s) && negb (can_start t c) then inr (Err ENoStart) else
       if is_stop t c then
         if o_check_stop o && Nat.leb 3 n then inr (Err EStopNotLast) else
         if negb (Nat.leb 3 n) || negb (o_complete o) then
           inr (Ok (rev (if eff_final_stop o then aa_of t (o_astop o) c :: a else a)))
         else continue_ (aa_of t (o_astop o) c :: a) z [] false n
       else continue_ (aa_of t (o_astop o) c :: a) z [] false n) = inl (w_st s')
  | inr (r, _) =>
      (if cs (w_st s) && negb (can_start t c) then inr (Err ENoStart) else
       if is_stop t c then
         if o_check_stop o && Nat.leb 3 n then inr (Err EStopNotLast) else
         if negb (Nat.leb 3 n) || negb (o_complete o) then
           inr (Ok (rev (if eff_final_stop o then aa_of t (o_astop o) c :: a else a)))
         else continue_ (aa_of t (o_astop o) c :: a) z [] false n
       else continue_ (aa_of t (o_astop o) c :: a) z [] false n) = inr r
  end.
Proof.
  unfold codon_w, continue_. cbv zeta.
  destruct (cs (w_st s)), (w_csw s), (can_start t c); cbn [orb andb negb]; try reflexivity;
    destruct (is_stop t c); try reflexivity;
    destruct (o_check_stop o), w, (Nat.leb 3 n), (o_complete o); cbn [orb andb negb]; reflexivity.
Qed.

Lemma step_w_fst t o w s x :
  match step_w t o w s x with
  | inl s' => step t o (w_st s) x = inl (w_st s')
  | inr (r, _) => step t o (w_st s) x = inr r
  end.
Proof.
  unfold step_w, step. cbv zeta.
  match goal with |- context [Nat.eqb ?a 3] => destruct (Nat.eqb a 3) end; [|cbv beta iota; reflexivity].
  cbv beta iota. apply codon_w_fst.
Qed.

Lemma go_w_fst t o w : forall l s, fst (go_w t o w s l) = go t o (w_st s) l.
Proof.
  induction l as [|x l IH]; intros s.
  - cbn [go_w go]. destruct (o_check_stop o), w, (in_set (codon (w_st s)) (g_astops t)); reflexivity.
  - cbn [go_w go]. pose proof (step_w_fst t o w s x) as H.
    destruct (step_w t o w s x) as [s'|[r ws]]; rewrite H; [apply IH|reflexivity].
Qed.

Lemma warn_irrelevant t o w l : fst (translate_w t o w l) = translate t o l.
Proof. unfold translate_w, translate, translate_t. rewrite go_w_fst. reflexivity. Qed.

(* without warn no warning is emitted *)
Lemma codon_w_quiet t o s c n a z : w_csw s = false -> w_ws s = [] ->
  match codon_w t o false s c n a z with
  | inl s' => w_csw s' = false /\ w_ws s' = []
  | inr (_, ws) => ws = []
  end.
Proof.
  intros H1 H2. unfold codon_w. cbv zeta. rewrite H1, H2.
  destruct (cs (w_st s)), (can_start t c); cbn [orb andb negb]; try reflexivity;
    rewrite ?andb_false_r; cbn [orb andb negb];
    destruct (is_stop t c); try (split; reflexivity);
    destruct (o_check_stop o), (Nat.leb 3 n), (o_complete o); cbn [orb andb negb rev]; try reflexivity; split; reflexivity.
Qed.

Lemma go_w_quiet t o : forall l s, w_csw s = false -> w_ws s = [] -> snd (go_w t o false s l) = [].
Proof.
  induction l as [|x l IH]; intros s H1 H2.
  - cbn [go_w]. rewrite H2. destruct (o_check_stop o), (in_set (codon (w_st s)) (g_astops t)); reflexivity.
  - cbn [go_w]. unfold step_w. cbv zeta.
    match goal with |- context [Nat.eqb ?a 3] => destruct (Nat.eqb a 3) end.
    + pose proof (codon_w_quiet t o s (if is_gap o x then codon (w_st s) else codon (w_st s) ++ [x])
                    (if is_gap o x then nres (w_st s) else pred (nres (w_st s)))
                    (fst (emit_gap o (aas (w_st s)) (if is_gap o x then (ngap (w_st s) + 1)%Z else ngap (w_st s))))
                    (snd (emit_gap o (aas (w_st s)) (if is_gap o x then (ngap (w_st s) + 1)%Z else ngap (w_st s)))) H1 H2) as Q.
      destruct (codon_w t o false s _ _ _ _) as [s'|[r ws]]; [apply IH; apply Q|exact Q].
    + apply IH; assumption.
Qed.

Lemma warn_off_quiet t o l : snd (translate_w t o false l) = [].
Proof. unfold translate_w. apply go_w_quiet; reflexivity. Qed.

(* ---------------------------------------------------------------- the warnings on gap-free input *)
Section WarnSpec.
Variable t : gtab.
Variable o : opts.
Variable w : bool.
Hypothesis Hafter : gap_after_ok o = true.

Definition mkstw (a : list byte) (c : str) (b : bool) (n : nat) (csw : bool) (ws : list wkind) : stw :=
  {| w_st := mkst a c b n; w_csw := csw; w_ws := ws |}.

(* the first complete codon with a start check pending (b) / a start warning pending (csw), then the rest *)
Definition spec_wf (b csw : bool) (cs : list str) : list wkind :=
  match cs with
  | [] => spec_warns_go t o w []
  | c :: _ =>
      if negb (can_start t c) && (csw || b) then (if b then [] else WNotStart :: spec_warns_go t o w cs)
      else (if csw && negb (in_set c (g_starts t)) then [WMaybeNotStart] else []) ++ spec_warns_go t o w cs
  end.

Lemma step_w_partial a c b n csw ws x : is_gap o x = false -> (length c < 2)%nat ->
  step_w t o w (mkstw a c b (S n) csw ws) x = inl (mkstw a (c ++ [x]) b n csw ws).
Proof.
  intros G L. unfold step_w, mkstw, mkst. cbn [w_st w_csw w_ws aas ngap codon cs nres]. rewrite G, (emit_gap_zero o Hafter).
  cbn [fst snd pred].
  assert (E: Nat.eqb (length (c ++ [x])) 3 = false).
  { apply Nat.eqb_neq. rewrite app_length. simpl. lia. }
  rewrite E. reflexivity.
Qed.

Lemma step_w_full a x y b n csw ws z : is_gap o z = false ->
  step_w t o w (mkstw a [x; y] b (S n) csw ws) z = codon_w t o w (mkstw a [x; y] b (S n) csw ws) [x; y; z] n a 0%Z.
Proof.
  intros G. unfold step_w, mkstw, mkst. cbn [w_st w_csw w_ws aas ngap codon cs nres]. rewrite G, (emit_gap_zero o Hafter).
  cbn [fst snd pred app length Nat.eqb]. reflexivity.
Qed.

(* the end of the loop with nothing pending in the codon buffer *)
Lemma go_w_end a c b csw ws : (length c < 3)%nat ->
  snd (go_w t o w (mkstw a c b 0 csw ws) []) = rev ws ++ spec_warns_go t o w [].
Proof.
  intros L. cbn [go_w mkstw mkst w_st w_ws codon aas]. rewrite (short_not_in_set c _ L). cbn [negb]. rewrite andb_true_r, andb_false_r.
  cbn [spec_warns_go]. destruct (o_check_stop o), w; cbn [orb andb negb snd rev]; rewrite ?app_nil_r; reflexivity.
Qed.

Lemma spec_wf_off cs : spec_wf false false cs = spec_warns_go t o w cs.
Proof. unfold spec_wf. destruct cs as [|c r]; [reflexivity|]. rewrite andb_false_r. reflexivity. Qed.

Lemma go_w_spec : forall l a b csw ws, forallb (fun x => negb (is_gap o x)) l = true ->
  (w = false -> csw = false) ->
  snd (go_w t o w (mkstw a [] b (length l) csw ws) l) = rev ws ++ spec_wf b csw (codons l).
Proof.
  induction l as [| x | x y | x y z r IH] using triple_ind; intros a b csw ws Hl Hw.
  - cbn [length codons spec_wf]. apply go_w_end. simpl. lia.
  - simpl in Hl. rewrite andb_true_r in Hl. apply negb_true_iff in Hl.
    cbn [go_w length]. rewrite (step_w_partial a [] b 0 csw ws x Hl) by (simpl; lia).
    cbn [codons spec_wf]. apply go_w_end. simpl. lia.
  - simpl in Hl. rewrite andb_true_r in Hl. apply andb_prop in Hl. destruct Hl as [Hx Hy].
    apply negb_true_iff in Hx. apply negb_true_iff in Hy.
    cbn [go_w length]. rewrite (step_w_partial a [] b 1 csw ws x Hx) by (simpl; lia). cbn [app].
    rewrite (step_w_partial a [x] b 0 csw ws y Hy) by (simpl; lia).
    cbn [codons spec_wf]. apply go_w_end. simpl. lia.
  - cbn [forallb] in Hl. apply andb_prop in Hl. destruct Hl as [Hx Hl].
    apply andb_prop in Hl. destruct Hl as [Hy Hl]. apply andb_prop in Hl. destruct Hl as [Hz Hl].
    apply negb_true_iff in Hx. apply negb_true_iff in Hy. apply negb_true_iff in Hz.
    cbn [go_w length]. rewrite (step_w_partial a [] b _ csw ws x Hx) by (simpl; lia). cbn [app].
    rewrite (step_w_partial a [x] b _ csw ws y Hy) by (simpl; lia). cbn [app].
    rewrite (step_w_full a x y b _ csw ws z Hz).
    cbn [codons spec_wf spec_warns_go].
    pose proof (codons_nil_iff r) as HN.
    assert (IH' : forall a' ws', snd (go_w t o w (mkstw a' [] false (length r) false ws') r) = rev ws' ++ spec_warns_go t o w (codons r)).
    { intros a' ws'. rewrite (IH a' false false ws' Hl (fun _ => eq_refl)). rewrite spec_wf_off. reflexivity. }
    unfold mkstw, mkst in IH'. set (R := spec_warns_go t o w (codons r)) in *. clearbody R.
    unfold codon_w. cbv zeta. cbn [mkstw mkst w_st w_csw w_ws cs].
    set (c := [x; y; z]) in *.
    destruct (can_start t c) eqn:CS; cbn [negb andb orb].
    + (* the codon may start *)
      rewrite !andb_false_r. cbn [andb].
      destruct w eqn:W.
      * (* warn on *)
        rewrite !andb_true_r, !orb_true_r. cbn [andb].
        destruct csw, (in_set c (g_starts t)), (in_set c (g_astops t)); cbn [negb andb app];
          (destruct (is_stop t c) eqn:ST;
           [ destruct (Nat.leb 3 (length r)) eqn:L3;
             [ destruct (codons r) as [|c2 cr] eqn:CR; [simpl in HN; discriminate|];
               destruct (o_check_stop o), (o_complete o); cbn [negb andb orb snd rev app];
               rewrite ?IH'; cbn [rev]; rewrite <- ?app_assoc, ?app_nil_r; reflexivity
             | destruct (codons r) as [|c2 cr] eqn:CR; [|simpl in HN; discriminate];
               destruct (o_check_stop o), (o_complete o); cbn [negb andb orb snd rev app]; rewrite <- ?app_assoc, ?app_nil_r; reflexivity ]
           | rewrite IH'; cbn [rev]; rewrite <- ?app_assoc, ?app_nil_r; reflexivity ]).
      * (* warn off: csw is off too *)
        rewrite (Hw eq_refl). rewrite !andb_false_r, !orb_false_r. cbn [andb app].
        destruct (is_stop t c) eqn:ST.
        -- destruct (Nat.leb 3 (length r)) eqn:L3.
           ++ destruct (codons r) as [|c2 cr] eqn:CR; [simpl in HN; discriminate|].
              destruct (o_check_stop o), (o_complete o); cbn [negb andb orb snd rev app]; rewrite ?IH', ?app_nil_r; reflexivity.
           ++ destruct (codons r) as [|c2 cr] eqn:CR; [|simpl in HN; discriminate].
              destruct (o_check_stop o), (o_complete o); cbn [negb andb orb snd rev app]; rewrite ?app_nil_r; reflexivity.
        -- rewrite IH'. reflexivity.
    + (* the codon cannot start *)
      rewrite !andb_true_r.
      destruct b; cbn [orb andb].
      * rewrite orb_true_r. cbn [andb snd]. rewrite app_nil_r. reflexivity.
      * rewrite orb_false_r, andb_false_r.
        destruct csw eqn:CSW; cbn [andb negb].
        -- (* warning instead of the error; warn must be on *)
           destruct w eqn:W; [|specialize (Hw eq_refl); discriminate].
           rewrite !andb_true_r, !orb_true_r. cbn [andb].
           destruct (in_set c (g_astops t)); cbn [negb andb app];
             (destruct (is_stop t c) eqn:ST;
              [ destruct (Nat.leb 3 (length r)) eqn:L3;
                [ destruct (codons r) as [|c2 cr] eqn:CR; [simpl in HN; discriminate|];
                  destruct (o_check_stop o), (o_complete o); cbn [negb andb orb snd rev app];
                  rewrite ?IH'; cbn [rev]; rewrite <- ?app_assoc, ?app_nil_r; reflexivity
                | destruct (codons r) as [|c2 cr] eqn:CR; [|simpl in HN; discriminate];
                  destruct (o_check_stop o), (o_complete o); cbn [negb andb orb snd rev app]; rewrite <- ?app_assoc, ?app_nil_r; reflexivity ]
              | rewrite IH'; cbn [rev]; rewrite <- ?app_assoc, ?app_nil_r; reflexivity ]).
        -- (* nothing pending *)
           destruct w eqn:W.
           ++ rewrite !andb_true_r, !orb_true_r. cbn [andb].
              destruct (in_set c (g_astops t)); cbn [negb andb app];
                (destruct (is_stop t c) eqn:ST;
                 [ destruct (Nat.leb 3 (length r)) eqn:L3;
                   [ destruct (codons r) as [|c2 cr] eqn:CR; [simpl in HN; discriminate|];
                     destruct (o_check_stop o), (o_complete o); cbn [negb andb orb snd rev app];
                     rewrite ?IH'; cbn [rev]; rewrite <- ?app_assoc, ?app_nil_r; reflexivity
                   | destruct (codons r) as [|c2 cr] eqn:CR; [|simpl in HN; discriminate];
                     destruct (o_check_stop o), (o_complete o); cbn [negb andb orb snd rev app]; rewrite <- ?app_assoc, ?app_nil_r; reflexivity ]
                 | rewrite IH'; cbn [rev]; rewrite <- ?app_assoc, ?app_nil_r; reflexivity ]).
           ++ rewrite !andb_false_r, !orb_false_r. cbn [andb app].
              destruct (is_stop t c) eqn:ST.
              ** destruct (Nat.leb 3 (length r)) eqn:L3.
                 --- destruct (codons r) as [|c2 cr] eqn:CR; [simpl in HN; discriminate|].
                     destruct (o_check_stop o), (o_complete o); cbn [negb andb orb snd rev app]; rewrite ?IH', ?app_nil_r; reflexivity.
                 --- destruct (codons r) as [|c2 cr] eqn:CR; [|simpl in HN; discriminate].
                     destruct (o_check_stop o), (o_complete o); cbn [negb andb orb snd rev app]; rewrite ?app_nil_r; reflexivity.
              ** rewrite IH'. reflexivity.
Qed.

End WarnSpec.

Lemma spec_wf_init t o w cs : spec_wf t o w (eff_check_start o) w cs = spec_warns t o w cs.
Proof.
  unfold spec_wf, spec_warns. destruct cs as [|c r]; [reflexivity|].
  destruct (can_start t c); cbn [negb andb].
  - reflexivity.
  - destruct (eff_check_start o); [rewrite orb_true_r; reflexivity|]. rewrite orb_false_r.
    destruct w; cbn [andb app]; reflexivity.
Qed.

(* main theorem of this part *)
Lemma warn_spec t o w l : gap_after_ok o = true -> gapfree o (u2t l) = true ->
  snd (translate_w t o w l) = spec_warns t o w (codons (u2t l)).
Proof.
  intros Ha Hg. unfold translate_w, init. unfold gapfree in Hg. rewrite (degap_in_id o (u2t l) Hg).
  fold (mkst [] [] (eff_check_start o) (length (u2t l))). fold (mkstw [] [] (eff_check_start o) (length (u2t l)) w []).
  rewrite (go_w_spec t o w Ha (u2t l) [] (eff_check_start o) w [] Hg (fun H => H)).
  cbn [rev app]. apply spec_wf_init.
Qed.

(* ---------------------------------------------------------------- the last warning of the source (cane.py:455-457) is dead code:
   for EVERY input (gaps or not) the left-over codon has fewer than three letters, so it is never in astops *)
Lemma codon_w_no6 t o w s c n a z :
  match codon_w t o w s c n a z with
  | inl s' => codon (w_st s') = [] /\ (In WMaybeNoStop (w_ws s') -> In WMaybeNoStop (w_ws s))
  | inr (_, ws) => In WMaybeNoStop ws -> In WMaybeNoStop (w_ws s)
  end.
Proof.
  unfold codon_w. cbv zeta.
  destruct (cs (w_st s)), (w_csw s), (can_start t c), (in_set c (g_starts t)), (in_set c (g_astops t)), w;
    cbn [orb andb negb];
    try (intros H; apply in_rev in H; exact H);
    destruct (is_stop t c);
    try (split; [reflexivity|]; cbn [w_ws]; intros H; cbn [In] in H; intuition discriminate);
    destruct (o_check_stop o), (Nat.leb 3 n), (o_complete o); cbn [orb andb negb];
    try (split; [reflexivity|]; cbn [w_ws]; intros H; cbn [In] in H; intuition discriminate);
    intros H; apply in_rev in H; cbn [In] in H; intuition discriminate.
Qed.

Lemma go_w_no6 t o w : forall l s, (length (codon (w_st s)) < 3)%nat -> ~ In WMaybeNoStop (w_ws s) ->
  ~ In WMaybeNoStop (snd (go_w t o w s l)).
Proof.
  induction l as [|x l IH]; intros s L N.
  - cbn [go_w]. rewrite (short_not_in_set _ _ L). rewrite andb_false_r. cbn [negb]. rewrite andb_true_r.
    destruct (o_check_stop o || w); [destruct (o_check_stop o)|]; cbn [snd]; intros H; apply in_rev in H; cbn [In] in H;
      intuition discriminate.
  - cbn [go_w]. unfold step_w. cbv zeta.
    match goal with |- context [Nat.eqb ?a 3] => destruct (Nat.eqb a 3) eqn:E end.
    + match goal with |- context [codon_w t o w s ?c ?n ?a ?z] => pose proof (codon_w_no6 t o w s c n a z) as Q;
        destruct (codon_w t o w s c n a z) as [s'|[r ws]] end.
      * destruct Q as [Q1 Q2]. apply IH; [rewrite Q1; simpl; lia|]. intros H. apply N, Q2, H.
      * cbn [snd]. intros H. apply N, Q, H.
    + apply IH; cbn [w_st w_ws codon]; [|exact N].
      apply Nat.eqb_neq in E. destruct (is_gap o x); [lia|]. rewrite app_length in *. simpl in *. lia.
Qed.

Lemma warn_dead_branch t o w l : ~ In WMaybeNoStop (snd (translate_w t o w l)).
Proof. unfold translate_w. apply go_w_no6; cbn [w_st w_ws init codon]; [simpl; lia|intros []]. Qed.
