(* C17: unbounded facts about the model of convert.py's generate_gc, for ANY ncbieaa / sncbieaa lines (any base table). *)
From Coq Require Import List ZArith NArith Bool Lia.
From Coq.Strings Require Import Byte.
Import ListNotations.
From SV Require Import Text C17_Convert C17_GenSpec.

(* ---------------------------------------------------------------- membership / lookup *)
Lemma memS_In k l : memS k l = true <-> In k l.
Proof.
  unfold memS. rewrite existsb_exists. split.
  - intros (x & Hx & E). apply str_eqb_eq in E. subst. exact Hx.
  - intros H. exists k. split; [exact H|apply str_eqb_refl].
Qed.

Lemma memkey_In {V} k (t : list (str * V)) : memkey k t = true <-> In k (map fst t).
Proof.
  unfold memkey. rewrite existsb_exists. split.
  - intros (x & Hx & E). apply str_eqb_eq in E. subst. apply in_map. exact Hx.
  - intros H. apply in_map_iff in H. destruct H as (x & E & Hx). exists x. split; [exact Hx|].
    rewrite E. apply str_eqb_refl.
Qed.

Lemma memkey_app {V} k (a b : list (str * V)) : memkey k (a ++ b) = memkey k a || memkey k b.
Proof. unfold memkey. apply existsb_app. Qed.

Lemma lookupS_app_l {V} k (a b : list (str * V)) : memkey k a = true -> lookupS k (a ++ b) = lookupS k a.
Proof.
  induction a as [|[k' v] a IH]; simpl.
  - discriminate.
  - destruct (str_eqb k k'); simpl; [reflexivity|exact IH].
Qed.

Lemma lookupS_app_r {V} k (a b : list (str * V)) : memkey k a = false -> lookupS k (a ++ b) = lookupS k b.
Proof.
  induction a as [|[k' v] a IH]; simpl.
  - reflexivity.
  - destruct (str_eqb k k'); simpl; [discriminate|exact IH].
Qed.

Lemma lookupS_memkey {V} k (t : list (str * V)) : memkey k t = true <-> exists v, lookupS k t = Some v.
Proof.
  induction t as [|[k' v] t IH]; simpl.
  - split; [discriminate|intros (v & H); discriminate].
  - destruct (str_eqb k k'); simpl.
    + split; [intros _; exists v; reflexivity|reflexivity].
    + exact IH.
Qed.

Lemma lookupS_none {V} k (t : list (str * V)) : memkey k t = false <-> lookupS k t = None.
Proof.
  pose proof (lookupS_memkey k t) as H. destruct (memkey k t), (lookupS k t) as [v|].
  - split; discriminate.
  - destruct H as [H _]. destruct (H eq_refl) as (v & E). discriminate.
  - destruct H as [_ H]. assert (false = true) by (apply H; exists v; reflexivity). discriminate.
  - split; reflexivity.
Qed.

Lemma lookupS_app {V} k (a b : list (str * V)) :
  lookupS k (a ++ b) = match lookupS k a with Some v => Some v | None => lookupS k b end.
Proof.
  destruct (memkey k a) eqn:E.
  - rewrite (lookupS_app_l _ _ _ E). apply lookupS_memkey in E. destruct E as (v & E). rewrite E. reflexivity.
  - rewrite (lookupS_app_r _ _ _ E). apply lookupS_none in E. rewrite E. reflexivity.
Qed.

Lemma lookupS_In {V} k (v : V) t : lookupS k t = Some v -> In (k, v) t.
Proof.
  induction t as [|[k' v'] t IH]; simpl; [discriminate|].
  destruct (str_eqb k k') eqn:E.
  - intros H. inversion H; subst. apply str_eqb_eq in E. subst. left. reflexivity.
  - intros H. right. exact (IH H).
Qed.

Lemma In_lookupS {V} k (v : V) t : NoDup (map fst t) -> In (k, v) t -> lookupS k t = Some v.
Proof.
  induction t as [|[k' v'] t IH]; simpl; intros Hn Hin; [contradiction|].
  inversion Hn as [|? ? Hni Hn']; subst.
  destruct Hin as [E|Hin].
  - inversion E; subst. rewrite str_eqb_refl. reflexivity.
  - destruct (str_eqb k k') eqn:E.
    + apply str_eqb_eq in E. subst. exfalso. apply Hni. change k' with (fst (k', v)). apply in_map. exact Hin.
    + exact (IH Hn' Hin).
Qed.

(* ---------------------------------------------------------------- loop 3 (the part of tt over ambiguous codons) *)
Lemma vals_of_app_l tt acc es : forallb (fun e => memkey e tt) es = true -> vals_of (tt ++ acc) es = vals_of tt es.
Proof.
  induction es as [|e r IH]; simpl; intros H; [reflexivity|].
  apply andb_prop in H. destruct H as [H1 H2].
  rewrite (lookupS_app_l _ _ _ H1), (IH H2). reflexivity.
Qed.

Lemma vals_of_ok tt es : forallb (fun e => memkey e tt) es = true -> exists vs, vals_of tt es = inr vs.
Proof.
  induction es as [|e r IH]; simpl; intros H; [eexists; reflexivity|].
  apply andb_prop in H. destruct H as [H1 H2]. apply lookupS_memkey in H1. destruct H1 as (v & E). rewrite E.
  destruct (IH H2) as (vs & Ev). rewrite Ev. eexists. reflexivity.
Qed.

Lemma added_cons codes base c r :
  added codes base (c :: r) =
  (if memkey c base then [] else match amb_val codes base c with Some a => [(c, a)] | None => [] end) ++ added codes base r.
Proof. reflexivity. Qed.

Lemma memkey_memS {V} k (t : list (str * V)) : memkey k t = memS k (map fst t).
Proof. unfold memkey, memS. induction t as [|x t IH]; simpl; [reflexivity|]. rewrite IH. reflexivity. Qed.

Lemma loop3_spec codes base : forall cs acc,
  exp_in codes (map fst base) cs = true -> NoDup cs -> (forall c, In c cs -> memkey c acc = false) ->
  loop3 codes cs (base ++ acc) = inr (base ++ acc ++ added codes base cs).
Proof.
  induction cs as [|c r IH]; intros acc He Hn Hd.
  - cbn [loop3 added flat_map]. rewrite app_nil_r. reflexivity.
  - unfold exp_in in He. cbn [forallb] in He. apply andb_prop in He. destruct He as [He1 He2].
    assert (He1' : forallb (fun e => memkey e base) (expand3 codes c) = true).
    { rewrite forallb_forall in *. intros e Hin. rewrite memkey_memS. exact (He1 e Hin). }
    inversion Hn as [|? ? Hnotin Hn']; subst.
    rewrite added_cons. cbn [loop3]. unfold body3.
    rewrite memkey_app, (Hd c (or_introl eq_refl)), orb_false_r.
    destruct (memkey c base) eqn:Eb.
    + cbn [app]. apply IH; [exact He2|exact Hn'|intros x Hx; apply Hd; right; exact Hx].
    + rewrite (vals_of_app_l _ _ _ He1'). unfold amb_val.
      destruct (vals_of_ok _ _ He1') as (vs & Ev). rewrite Ev.
      destruct (allsame vs) as [a|] eqn:Ea; unfold ok; cbv beta iota.
      * rewrite <- app_assoc. rewrite IH; [|exact He2|exact Hn'|].
        -- rewrite <- !app_assoc. reflexivity.
        -- intros x Hx. rewrite memkey_app, (Hd x (or_intror Hx)). cbn. rewrite orb_false_r.
           apply not_true_is_false. intros E. apply str_eqb_eq in E. subst. contradiction.
      * cbn [app]. apply IH; [exact He2|exact Hn'|intros x Hx; apply Hd; right; exact Hx].
Qed.

Lemma lookup_added codes base cs c : NoDup cs ->
  lookupS c (added codes base cs) = if memS c cs && negb (memkey c base) then amb_val codes base c else None.
Proof.
  induction cs as [|x r IH]; intros Hn; [reflexivity|].
  inversion Hn as [|? ? Hnotin Hn']; subst. rewrite added_cons. unfold memS in *. cbn [existsb].
  destruct (str_eqb c x) eqn:E.
  - apply str_eqb_eq in E. subst x. cbn [orb].
    assert (Hr : existsb (str_eqb c) r = false).
    { apply not_true_is_false. intros H. apply Hnotin. apply memS_In. exact H. }
    destruct (memkey c base) eqn:Eb; cbn [app negb andb].
    + rewrite (IH Hn'), Hr. reflexivity.
    + destruct (amb_val codes base c) as [a|] eqn:Ea; cbn [app lookupS].
      * rewrite str_eqb_refl. reflexivity.
      * rewrite (IH Hn'), Hr. reflexivity.
  - cbn [orb]. destruct (memkey x base); cbn [app]; [exact (IH Hn')|].
    destruct (amb_val codes base x); cbn [app lookupS]; [rewrite E|]; exact (IH Hn').
Qed.

(* allsame = "the set of values has exactly one element" *)
Lemma allsame_spec vs a : allsame vs = Some a <-> vs <> [] /\ Forall (eq a) vs.
Proof.
  destruct vs as [|x r]; simpl.
  - split; [discriminate|intros [H _]; contradiction].
  - destruct (forallb (byte_eqb x) r) eqn:E.
    + rewrite forallb_forall in E. split.
      * intros H. inversion H; subst. split; [discriminate|]. constructor; [reflexivity|].
        apply Forall_forall. intros y Hy. apply byte_eqb_eq. exact (E y Hy).
      * intros [_ H]. inversion H; subst. reflexivity.
    + split; [discriminate|]. intros [_ H]. inversion H as [|? ? Hx Hr]; subst. exfalso.
      assert (forallb (byte_eqb x) r = true); [|congruence].
      apply forallb_forall. intros y Hy. rewrite Forall_forall in Hr. rewrite <- (Hr y Hy). apply byte_eqb_refl.
Qed.

Lemma vals_all tt a : forall es vs, vals_of tt es = inr vs ->
  (Forall (eq a) vs <-> forall e, In e es -> lookupS e tt = Some a).
Proof.
  induction es as [|e0 es IH]; intros vs H; simpl in H.
  - inversion H; subst. split; [intros _ e []|constructor].
  - destruct (lookupS e0 tt) as [v0|] eqn:E; [|discriminate].
    destruct (vals_of tt es) as [x|vs'] eqn:Ev; [discriminate|]. inversion H; subst.
    specialize (IH _ eq_refl). split.
    + intros F e [He|He]; inversion F; subst; [exact E|]. apply IH; assumption.
    + intros Hall. constructor.
      * specialize (Hall e0 (or_introl eq_refl)). congruence.
      * apply IH. intros e He. apply Hall. right. exact He.
Qed.

Lemma vals_len tt : forall es vs, vals_of tt es = inr vs -> length vs = length es.
Proof.
  induction es as [|e0 es IH]; intros vs H; simpl in H.
  - inversion H. reflexivity.
  - destruct (lookupS e0 tt); [|discriminate]. destruct (vals_of tt es) eqn:Ev; [discriminate|]. inversion H; subst.
    simpl. rewrite (IH _ eq_refl). reflexivity.
Qed.

(* the clause of the property: an entry iff all expansions encode the same amino acid, and then that amino acid *)
Lemma amb_val_iff codes base c a : forallb (fun e => memkey e base) (expand3 codes c) = true ->
  (amb_val codes base c = Some a <->
   expand3 codes c <> [] /\ forall e, In e (expand3 codes c) -> lookupS e base = Some a).
Proof.
  intros He. unfold amb_val. destruct (vals_of_ok _ _ He) as (vs & Ev). rewrite Ev.
  rewrite allsame_spec, (vals_all base a _ _ Ev). pose proof (vals_len _ _ _ Ev) as L.
  split; intros [H1 H2]; (split; [|exact H2]); intros E; apply H1.
  - rewrite E in L. destruct vs; [reflexivity|discriminate].
  - rewrite E in L. destruct (expand3 codes c); [reflexivity|discriminate].
Qed.

(* ---------------------------------------------------------------- enumerate / the 64 base entries *)
Lemma map_snd_enumerate {A} (l : list A) : forall i, map snd (enumerate i l) = l.
Proof. induction l as [|x l IH]; intros i; simpl; [reflexivity|rewrite IH; reflexivity]. Qed.

Lemma In_enumerate {A} (l : list A) : forall k i x,
  In (i, x) (enumerate k l) <-> (k <= i)%nat /\ nth_error l (i - k) = Some x.
Proof.
  induction l as [|y l IH]; intros k i x; simpl.
  - split; [contradiction|]. intros [_ H]. destruct (i - k)%nat; discriminate.
  - rewrite IH. split.
    + intros [E|[Hle Hn]].
      * inversion E; subst. split; [lia|]. rewrite Nat.sub_diag. reflexivity.
      * split; [lia|]. replace (i - k)%nat with (S (i - S k)) by lia. exact Hn.
    + intros [Hle Hn]. destruct (Nat.eq_dec i k) as [->|Hne].
      * left. rewrite Nat.sub_diag in Hn. simpl in Hn. inversion Hn. reflexivity.
      * right. split; [lia|]. replace (i - k)%nat with (S (i - S k)) in Hn by lia. exact Hn.
Qed.

Lemma base_tt_In aas c a :
  In (c, a) (base_tt aas) <-> exists i, nth_error base_codons i = Some c /\ a = nth i aas x3f.
Proof.
  unfold base_tt. rewrite in_map_iff. split.
  - intros ([i x] & E & Hin). simpl in E. inversion E; subst. apply In_enumerate in Hin. destruct Hin as [_ Hn].
    rewrite Nat.sub_0_r in Hn. exists i. split; [exact Hn|reflexivity].
  - intros (i & Hn & ->). exists (i, c). split; [reflexivity|]. apply In_enumerate. split; [lia|].
    rewrite Nat.sub_0_r. exact Hn.
Qed.

Lemma base_tt_keys aas : map fst (base_tt aas) = base_codons.
Proof. unfold base_tt. rewrite map_map. cbn [fst]. exact (map_snd_enumerate base_codons 0%nat). Qed.

Lemma flagged_In f sc c :
  In c (flagged f sc) <-> exists i, nth_error base_codons i = Some c /\ nth i sc x3f = f.
Proof.
  unfold flagged. rewrite in_map_iff. split.
  - intros ([i x] & E & Hin). simpl in E. subst x. apply filter_In in Hin. destruct Hin as [Hin Hf]. simpl in Hf.
    apply byte_eqb_eq in Hf. apply In_enumerate in Hin. destruct Hin as [_ Hn]. rewrite Nat.sub_0_r in Hn.
    exists i. split; assumption.
  - intros (i & Hn & Hf). exists (i, c). split; [reflexivity|]. apply filter_In. split.
    + apply In_enumerate. split; [lia|]. rewrite Nat.sub_0_r. exact Hn.
    + simpl. apply byte_eqb_eq. exact Hf.
Qed.

Lemma nodup_s_NoDup l : nodup_s l = true -> NoDup l.
Proof.
  induction l as [|x l IH]; simpl; intros H; constructor; apply andb_prop in H; destruct H as [H1 H2].
  - intros Hin. apply memS_In in Hin. rewrite Hin in H1. discriminate.
  - exact (IH H2).
Qed.

Lemma base_codons_nodup : NoDup base_codons.
Proof. apply nodup_s_NoDup. vm_compute. reflexivity. Qed.

Lemma base_tt_lookup aas c a :
  lookupS c (base_tt aas) = Some a <-> exists i, nth_error base_codons i = Some c /\ a = nth i aas x3f.
Proof.
  rewrite <- base_tt_In. split; [apply lookupS_In|]. apply In_lookupS. rewrite base_tt_keys. exact base_codons_nodup.
Qed.

(* ---------------------------------------------------------------- ttinv *)
Lemma row_add inv k v a : row a (ttinv_add inv k v) = if byte_eqb v a then row a inv ++ [k] else row a inv.
Proof.
  induction inv as [|[a' cs] r IH]; simpl.
  - destruct (byte_eqb v a); reflexivity.
  - destruct (byte_eqb a' v) eqn:E1; simpl.
    + apply byte_eqb_eq in E1. subst a'. destruct (byte_eqb v a); reflexivity.
    + destruct (byte_eqb a' a) eqn:E2; [|exact IH].
      apply byte_eqb_eq in E2. subst a'.
      assert (H : byte_eqb v a = false).
      { destruct (byte_eqb v a) eqn:E3; [|reflexivity]. apply byte_eqb_eq in E3. subst.
        rewrite byte_eqb_refl in E1. discriminate. }
      rewrite H. reflexivity.
Qed.

Lemma row_fold a : forall tt inv,
  row a (fold_left (fun inv kv => ttinv_add inv (fst kv) (snd kv)) tt inv)
  = row a inv ++ map fst (filter (fun kv : str * byte => byte_eqb (snd kv) a) tt).
Proof.
  induction tt as [|[k v] tt IH]; intros inv; simpl.
  - rewrite app_nil_r. reflexivity.
  - rewrite IH, row_add. destruct (byte_eqb v a); simpl; [rewrite <- app_assoc|]; reflexivity.
Qed.

(* ttinv[a] is the list of the keys of tt with value a, in the order of tt *)
Lemma ttinv_row tt a : row a (ttinv_of tt) = map fst (filter (fun kv : str * byte => byte_eqb (snd kv) a) tt).
Proof. unfold ttinv_of. rewrite row_fold. reflexivity. Qed.

Lemma keys_add inv k v :
  map fst (ttinv_add inv k v)
  = if existsb (fun a => byte_eqb a v) (map fst inv) then map fst inv else map fst inv ++ [v].
Proof.
  induction inv as [|[a cs] r IH]; simpl; [reflexivity|].
  destruct (byte_eqb a v); simpl; [reflexivity|]. rewrite IH.
  destruct (existsb (fun a0 => byte_eqb a0 v) (map fst r)); reflexivity.
Qed.

Lemma NoDup_snoc {A} (l : list A) x : NoDup l -> ~ In x l -> NoDup (l ++ [x]).
Proof.
  induction l as [|y l IH]; simpl; intros Hn Hx.
  - constructor; [intros []|constructor].
  - inversion Hn; subst. constructor.
    + rewrite in_app_iff. intros [H|[H|[]]]; [contradiction|]. subst. apply Hx. left. reflexivity.
    + apply IH; [assumption|]. intros H. apply Hx. right. exact H.
Qed.

Lemma keys_fold : forall (tt : list (str * byte)) inv, NoDup (map fst inv) ->
  NoDup (map fst (fold_left (fun inv kv => ttinv_add inv (fst kv) (snd kv)) tt inv)) /\
  forall a, In a (map fst (fold_left (fun inv kv => ttinv_add inv (fst kv) (snd kv)) tt inv))
            <-> In a (map fst inv) \/ exists k, In (k, a) tt.
Proof.
  induction tt as [|[k v] tt IH]; intros inv Hn; simpl.
  - split; [exact Hn|]. intros a. split; [intros H; left; exact H|intros [H|(k & [])]; exact H].
  - assert (Hk : NoDup (map fst (ttinv_add inv k v)) /\
                 forall a, In a (map fst (ttinv_add inv k v)) <-> In a (map fst inv) \/ a = v).
    { rewrite keys_add. destruct (existsb (fun a => byte_eqb a v) (map fst inv)) eqn:E.
      - split; [exact Hn|]. intros a. split; [intros H; left; exact H|]. intros [H| ->]; [exact H|].
        apply existsb_exists in E. destruct E as (x & Hx & Ex). apply byte_eqb_eq in Ex. subst. exact Hx.
      - assert (Hv : ~ In v (map fst inv)).
        { intros H. assert (existsb (fun a => byte_eqb a v) (map fst inv) = true); [|congruence].
          apply existsb_exists. exists v. split; [exact H|apply byte_eqb_refl]. }
        split; [apply NoDup_snoc; assumption|]. intros a. rewrite in_app_iff. simpl. split.
        + intros [H|[H|[]]]; [left; exact H|right; symmetry; exact H].
        + intros [H| ->]; [left; exact H|right; left; reflexivity]. }
    destruct Hk as [Hk1 Hk2]. destruct (IH _ Hk1) as [I1 I2]. split; [exact I1|].
    intros a. rewrite I2, Hk2. split.
    + intros [[H| ->]|(k' & H)]; [left; exact H|right; exists k; left; reflexivity|right; exists k'; right; exact H].
    + intros [H|(k' & [E|H])]; [left; left; exact H| |right; exists k'; exact H].
      inversion E; subst. left. right. reflexivity.
Qed.

Lemma ttinv_keys tt : NoDup (map fst (ttinv_of tt)) /\
  forall a, In a (map fst (ttinv_of tt)) <-> exists k, In (k, a) tt.
Proof.
  destruct (keys_fold tt [] (NoDup_nil _)) as [H1 H2]. split; [exact H1|]. intros a. unfold ttinv_of. rewrite H2.
  simpl. split; [intros [[]|H]; exact H|intros H; right; exact H].
Qed.

(* ---------------------------------------------------------------- ambiguous start / stop codons *)
Lemma product3_In l c : In c (product3 l) <-> exists a b d, c = [a; b; d] /\ In a l /\ In b l /\ In d l.
Proof.
  unfold product3. rewrite in_flat_map. split.
  - intros (a & Ha & H). apply in_flat_map in H. destruct H as (b & Hb & H). apply in_map_iff in H.
    destruct H as (d & E & Hd). exists a, b, d. subst c. repeat split; assumption.
  - intros (a & b & d & -> & Ha & Hb & Hd). exists a. split; [exact Ha|]. apply in_flat_map. exists b.
    split; [exact Hb|]. apply in_map_iff. exists d. split; [reflexivity|exact Hd].
Qed.

Lemma amb_marked_In codes ac tt marked c :
  In c (amb_marked codes ac tt marked)
  <-> In c (product3 ac) /\ memkey c tt = false /\ exists e, In e (expand3 codes c) /\ In e marked.
Proof.
  unfold amb_marked. rewrite filter_In, andb_true_iff, negb_true_iff, existsb_exists. split.
  - intros (H1 & H2 & e & He & Hm). apply memS_In in Hm. split; [exact H1|]. split; [exact H2|]. exists e. split; assumption.
  - intros (H1 & H2 & e & He & Hm). split; [exact H1|]. split; [exact H2|]. exists e. split; [exact He|]. apply memS_In. exact Hm.
Qed.

(* ---------------------------------------------------------------- generate_gc as a whole *)
Lemma gen_spec codes ac id_ name aas sc :
  conv_codes_ok codes ac = true -> (64 <= length aas)%nat -> (64 <= length sc)%nat ->
  exists tt',
    generate_gc_ac codes ac id_ name aas sc
    = inr {| g_id := id_; g_name := name; g_aa := aas; g_sc := sc; g_tt := tt'; g_ttinv := ttinv_of (base_tt aas);
             g_starts := flagged x4d sc; g_astarts := amb_marked codes ac (base_tt aas) (flagged x4d sc);
             g_stops := flagged x2a sc; g_astops := amb_marked codes ac (base_tt aas) (flagged x2a sc) |}
    /\ forall c, lookupS c tt' = match lookupS c (base_tt aas) with
                                 | Some a => Some a
                                 | None => if memS c (product3 ac) then amb_val codes (base_tt aas) c else None
                                 end.
Proof.
  intros Hc La Ls. unfold conv_codes_ok in Hc. apply andb_prop in Hc. destruct Hc as [He Hn].
  apply nodup_s_NoDup in Hn.
  assert (L : loop3 codes (product3 ac) (base_tt aas) = inr (base_tt aas ++ added codes (base_tt aas) (product3 ac))).
  { pose proof (loop3_spec codes (base_tt aas) (product3 ac) []) as L. rewrite app_nil_r in L. apply L.
    - rewrite base_tt_keys. exact He.
    - exact Hn.
    - intros c _. reflexivity. }
  exists (base_tt aas ++ added codes (base_tt aas) (product3 ac)). split.
  - unfold generate_gc_ac.
    assert (F : ((length aas <? 64) || (length sc <? 64))%nat = false).
    { apply orb_false_iff. split; apply Nat.ltb_ge; assumption. }
    rewrite F, L. reflexivity.
  - intros c. rewrite lookupS_app. destruct (lookupS c (base_tt aas)) eqn:E; [reflexivity|].
    rewrite (lookup_added _ _ _ _ Hn). apply lookupS_none in E. rewrite E. cbn [negb]. rewrite andb_true_r. reflexivity.
Qed.

Lemma gen_index_error codes ac id_ name aas sc :
  (length aas < 64)%nat \/ (length sc < 64)%nat -> generate_gc_ac codes ac id_ name aas sc = inl (bs "IndexError"%bs).
Proof.
  intros H. unfold generate_gc_ac.
  assert (F : ((length aas <? 64) || (length sc <? 64))%nat = true).
  { apply orb_true_iff. destruct H; [left|right]; apply Nat.ltb_lt; assumption. }
  rewrite F. reflexivity.
Qed.

(* ---------------------------------------------------------------- forallb over positions *)
Lemma forallb_combine_seq {A B} (f : nat * A * B -> bool) : forall (a : list A) (b : list B) k,
  forallb f (combine (combine (seq k (length a)) a) b) = true ->
  forall n x y, nth_error a n = Some x -> nth_error b n = Some y -> f ((k + n)%nat, x, y) = true.
Proof.
  induction a as [|x0 a IH]; intros b k H n x y Ha Hb.
  - destruct n; discriminate.
  - destruct b as [|y0 b]; [destruct n; discriminate|].
    cbn [length seq combine forallb] in H. apply andb_prop in H. destruct H as [H0 H].
    destruct n as [|n]; simpl in Ha, Hb.
    + inversion Ha; inversion Hb; subst. rewrite Nat.add_0_r. exact H0.
    + replace (k + S n)%nat with (S k + n)%nat by lia. exact (IH b (S k) H n x y Ha Hb).
Qed.
