(* C09: iter / iter_fasta / iter_fastaheader on a list of ids and (id, i, j) triples: one answer per item, in order. *)
From Coq Require Import List Arith Lia ZArith NArith Bool.
From Coq.Strings Require Import Byte.
Import ListNotations.
From SV Require Import Text C09_Model C09_Store.

Definition is_err (v : val) : bool := match v with VE _ => true | _ => false end.

Lemma collect_ok : forall vs acc, forallb (fun v => negb (is_err v)) vs = true -> collect vs acc = VL (rev acc ++ vs).
Proof.
  induction vs as [|v vs IH]; intros acc H; cbn [collect].
  - rewrite app_nil_r. reflexivity.
  - cbn [forallb] in H. apply andb_prop in H. destruct H as [Hv H].
    destruct v; try discriminate Hv; rewrite (IH _ H); cbn [rev]; rewrite <- app_assoc; reflexivity.
Qed.

Lemma collect_err : forall vs acc k pre post, vs = pre ++ VE k :: post -> forallb (fun v => negb (is_err v)) pre = true ->
  collect vs acc = VE k.
Proof.
  intros vs acc k pre. revert vs acc. induction pre as [|v pre IH]; intros vs acc post E H; subst vs; cbn [app collect]; [reflexivity|].
  cbn [forallb] in H. apply andb_prop in H. destruct H as [Hv H].
  destruct v; try discriminate Hv; exact (IH _ _ post eq_refl H).
Qed.

(* the iterator forms: for every list that is not the three-item list with a triple in the middle, the call yields the answers
   of the single queries, in order (when all succeed), or ends with the exception of the first failing item *)
Theorem iter_spec mode hs env s api items : quirk items = false ->
  let single it := snd (step mode hs env s (OGet (item_query api it))) in
  (forallb (fun it => negb (is_err (single it))) items = true -> iter_answers mode hs env s api items = VL (map single items))
  /\ (forall pre it post k, items = pre ++ it :: post -> forallb (fun x => negb (is_err (single x))) pre = true ->
        single it = VE k -> iter_answers mode hs env s api items = VE k).
Proof.
  intros Hq single. unfold iter_answers. rewrite Hq. split.
  - intros H. rewrite collect_ok; [reflexivity|]. rewrite forallb_forall in *. intros v Hv. apply in_map_iff in Hv.
    destruct Hv as [it [<- Hi]]. exact (H it Hi).
  - intros pre it post k E H Ek. apply (collect_err _ [] k (map single pre) (map single post)).
    + rewrite E, map_app. cbn [map]. fold (single it). rewrite Ek. reflexivity.
    + rewrite forallb_forall in *. intros v Hv. apply in_map_iff in Hv. destruct Hv as [x [<- Hx]]. exact (H x Hx).
Qed.

(* and the three-item list with a triple in the middle is one (id, start, stop) query whose start is a tuple: after the lookup
   of the first id the header-only form answers with its header line alone, the other forms end in TypeError *)
Theorem iter_quirk mode hs env s api a id i j c :
  iter_answers mode hs env s api [QId a; QTriple id i j; c]
  = match snd (step mode hs env s (OGet (Query api a None))) with
    | VE k => VE k
    | v => if N.eqb api 2 then VL [v] else VE (bs "TypeError"%bs)
    end.
Proof. reflexivity. Qed.
