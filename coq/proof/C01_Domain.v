(* C01 proofs, part 4: the harness-level domain predicate wf_basket implies the object-level domains of the theorems. *)
From Coq Require Import List ZArith NArith Bool Lia.
From Coq.Strings Require Import Byte.
Import ListNotations.
From SV Require Import Text C01_Lines G_codes G_c01_io C01_Model C01_Lemmas.

Lemma residue_upper c : is_residue c = true -> is_residue (upper1 c) = true.
Proof. destruct c; vm_compute; intros H; try discriminate; reflexivity. Qed.
Lemma residues_upper d : residues_ok d = true -> residues_ok (upper d) = true.
Proof.
  unfold residues_ok, upper. induction d as [|c d IH]; [reflexivity|]. cbn. intros H. apply andb_prop in H. destruct H as [H1 H2].
  rewrite (residue_upper c H1). cbn. apply IH. exact H2.
Qed.

Lemma wfb_common_build x : residues_ok (snd (fst x)) = true -> wfb_common (build_seq x) = true.
Proof.
  destruct x as [[i d] h]. cbn [fst snd]. intros H. unfold wfb_common.
  assert (E : b_data (build_seq (i, d, h)) = upper d) by (destruct h; reflexivity).
  assert (En : b_nt (build_seq (i, d, h)) = infer_nt (upper d)) by (destruct h; reflexivity).
  rewrite E, En. rewrite (residues_upper d H). rewrite upper_idem, str_eqb_refl. cbn. apply eqb_reflx.
Qed.

Lemma build_id x : b_id (build_seq x) = fst (fst x).
Proof. destruct x as [[i d] [h|]]; reflexivity. Qed.
Lemma build_header x : b_header (build_seq x) = snd x.
Proof. destruct x as [[i d] [h|]]; reflexivity. Qed.
Lemma build_data x : b_data (build_seq x) = upper (snd (fst x)).
Proof. destruct x as [[i d] [h|]]; reflexivity. Qed.

Lemma wf_input_fasta x : (wf_input_seq Fasta x = true \/ wf_input_seq Gff x = true) -> wfb_fasta (build_seq x) = true.
Proof.
  intros H. assert (H' : wf_input_seq Fasta x = true) by (destruct H as [H|H]; exact H). clear H.
  destruct x as [[[i|] d] h]; [|discriminate]. cbn [wf_input_seq] in H'.
  apply andb_prop in H'. destruct H' as [H Hi]. apply andb_prop in H. destruct H as [Hd Hh].
  unfold wfb_fasta. rewrite build_id, build_header. cbn [fst snd]. rewrite Hi, Hh.
  rewrite (wfb_common_build (Some i, d, h) Hd). reflexivity.
Qed.
Lemma wf_input_stk x : wf_input_seq Stockholm x = true -> wfb_stk (build_seq x) = true.
Proof.
  destruct x as [[[i|] d] h]; [|discriminate]. cbn [wf_input_seq]. intros H'.
  apply andb_prop in H'. destruct H' as [H Hi]. apply andb_prop in H. destruct H as [Hd Hh].
  apply andb_prop in Hi. destruct Hi as [Hi Hne].
  unfold wfb_stk. rewrite build_id, build_data. cbn [fst snd]. rewrite Hi.
  rewrite (wfb_common_build (Some i, d, h) Hd). destruct d; [discriminate|reflexivity].
Qed.
Lemma wf_input_sjson x : wf_input_seq Sjson x = true -> data_upper (build_seq x) = true.
Proof. intros _. unfold data_upper. rewrite build_data, upper_idem. apply str_eqb_refl. Qed.

Lemma ids_build xs : forallb (fun x => match fst (fst x) with Some _ => true | None => false end) xs = true ->
  ids_of (build xs) = input_ids xs.
Proof.
  induction xs as [|x xs IH]; [reflexivity|]. cbn [forallb]. intros H. apply andb_prop in H. destruct H as [H1 H2].
  unfold ids_of, build, input_ids in *. cbn [map]. rewrite (IH H2). f_equal.
  unfold id_or_empty. rewrite build_id. destruct x as [[[i|] d] h]; [reflexivity|discriminate].
Qed.

Theorem domain_bridge f xs : wf_basket f xs = true -> wfb_basket f (build xs) = true /\ xs <> [].
Proof.
  unfold wf_basket. intros H. apply andb_prop in H. destruct H as [H H3]. apply andb_prop in H. destruct H as [H1 H2].
  split; [|destruct xs; [discriminate|discriminate]].
  assert (G : forall p, (forall x, wf_input_seq f x = true -> p (build_seq x) = true) -> forallb p (build xs) = true).
  { intros p Hp. unfold build. rewrite forallb_forall. intros s Hs. apply in_map_iff in Hs. destruct Hs as (x & E & Hx). subst.
    apply Hp. rewrite forallb_forall in H2. apply H2. exact Hx. }
  destruct f; cbn [wfb_basket].
  - apply G. intros x Hx. apply wf_input_fasta. left. exact Hx.
  - unfold wf_stk_basket. rewrite (G wfb_stk wf_input_stk). cbn [andb]. rewrite ids_build; [exact H3|].
    revert H2. apply forallb_imp. intros [[[i|] d] h] Hx; [reflexivity|discriminate].
  - apply G. exact wf_input_sjson.
  - apply G. intros x Hx. apply wf_input_fasta. right. exact Hx.
Qed.
