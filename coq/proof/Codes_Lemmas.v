(* The shipped CODES table is the IUPAC nucleotide code (used by C07 / C17: expansion of ambiguous codons). *)
From Coq Require Import List ZArith NArith Bool Lia.
From Coq.Strings Require Import Byte.
Import ListNotations.
From SV Require Import Text G_codes C05_Model.
Lemma alphabet_codes_ok : forallb codes_ok alphabet = true.
Proof. vm_compute. reflexivity. Qed.
Lemma codes_keys : map fst CODES = alphabet.
Proof. vm_compute. reflexivity. Qed.
Lemma codes_are_iupac c : In c alphabet ->
  exists l, lookupB c CODES = Some l /\ set_eqb l (iupac c) = true.
Proof.
  intros H. pose proof alphabet_codes_ok as A. rewrite forallb_forall in A. specialize (A c H).
  unfold codes_ok in A. destruct (lookupB c CODES) as [l|]; [|discriminate]. exists l. split; [reflexivity|exact A].
Qed.

