(* C11: rows rendered from an abstract hit under an ARBITRARY column selection carry that hit; hence read (render H) = spec H
   for user-chosen column sets (outfmt=, '# Fields:' line, name row) and for all four Infernal tables *)
From Coq Require Import List ZArith NArith Bool Lia.
From Coq.Strings Require Import Byte.
Import ListNotations.
From SV Require Import Text G_tab C11_Model C11_Lemmas C11_TextLemmas C11_FileLemmas C11_IntLemmas C11_RenderLemmas.
Local Open Scope Z_scope.

Lemma mem_In k l : mem k l = true <-> In k l.
Proof.
  unfold mem. rewrite existsb_exists. split.
  - intros (x & I & E). apply str_eqb_eq in E. subst. exact I.
  - intros I. exists k. split; [exact I|apply str_eqb_refl].
Qed.
Lemma mem_names_in col hs : mem col (map hname hs) = true -> exists hd, In hd hs /\ hname hd = col.
Proof. intros M. apply mem_In in M. apply in_map_iff in M. destruct M as (hd & E & I). eauto. Qed.

Lemma assoc_cells_map (f : hdr -> str) : forall hs hd, nodup_str (map hname hs) = true -> In hd hs ->
  assoc (hname hd) (map cell (combine hs (map f hs))) = Some (conv (htype hd) (f hd)).
Proof.
  induction hs as [|x r IH]; intros hd ND I; [destruct I|].
  cbn [map nodup_str] in ND. apply andb_prop in ND. destruct ND as [N1 N2].
  cbn [map combine]. unfold cell at 1. cbn [fst snd assoc].
  destruct I as [->|I].
  - rewrite str_eqb_refl. reflexivity.
  - destruct (str_eqb (hname x) (hname hd)) eqn:E; [|apply IH; assumption].
    apply str_eqb_eq in E. exfalso.
    assert (M : mem (hname x) (map hname r) = true) by (apply mem_In; rewrite E; apply in_map; exact I).
    rewrite M in N1. discriminate.
Qed.
Lemma assoc_cells_none (f : hdr -> str) hs k : mem k (map hname hs) = false ->
  assoc k (map cell (combine hs (map f hs))) = None.
Proof.
  intros M. apply assoc_none_mem. rewrite keys_cells by (rewrite map_length; reflexivity). exact M.
Qed.

Lemma coltype_eqb_eq a b : coltype_eqb a b = true -> a = b.
Proof. destruct a, b; cbn; congruence. Qed.
Lemma converth_ok_all d : converth_ok d = true.
Proof. destruct d; vm_compute; reflexivity. Qed.
Lemma cols_distinct_all d : cols_distinct d = true.
Proof. destruct d; vm_compute; reflexivity. Qed.

(* the declared type of a required column inside an accepted selection *)
Lemma sel_col d hs k T : sel_ok d hs = true -> In (k, T) required_cols ->
  cget (converth_of d) k = Some (ccol d k) /\
  exists hd, In hd hs /\ hname hd = ccol d k /\ htype hd = T.
Proof.
  intros S I. unfold sel_ok in S. apply andb_prop in S. destruct S as [S S3]. apply andb_prop in S. destruct S as [S1 S2].
  pose proof (converth_ok_all d) as C. unfold converth_ok in C. rewrite forallb_forall in C. specialize (C _ I). cbn [fst snd] in C.
  unfold ccol. destruct (cget (converth_of d) k) as [col|] eqn:G; [|discriminate]. split; [reflexivity|].
  rewrite forallb_forall in S3. specialize (S3 _ I). cbn [fst] in S3. unfold ccol in S3. rewrite G in S3.
  destruct (mem_names_in _ _ S3) as (hd & Ih & En). exists hd. split; [exact Ih|]. split; [exact En|].
  rewrite forallb_forall in S2. specialize (S2 _ Ih). rewrite En in S2.
  unfold type_of_col in C. destruct (find_hdr false col (header_of d)) as [hd'|]; [|discriminate].
  cbn [option_map] in C. apply coltype_eqb_eq in C. apply coltype_eqb_eq in S2. congruence.
Qed.

Lemma key_cell d free hs h k T tok : sel_ok d hs = true -> In (k, T) required_cols ->
  assoc (ccol d k) (tok_table d h) = Some tok ->
  cattr d (row_attrs hs (hit_row d free hs h)) k = Some (conv T tok).
Proof.
  intros S I A. destruct (sel_col d hs k T S I) as (G & hd & Ih & En & Et).
  assert (ND : nodup_str (map hname hs) = true).
  { unfold sel_ok in S. apply andb_prop in S. destruct S as [S _]. apply andb_prop in S. tauto. }
  unfold cattr. rewrite G. rewrite row_attrs_cells by exact ND. unfold hit_row.
  rewrite <- En. rewrite (assoc_cells_map (hit_tok d free h) hs hd ND Ih). rewrite Et.
  unfold hit_tok. rewrite En, A. reflexivity.
Qed.

Ltac inreq := unfold required_cols; cbn [In]; repeat first [left; reflexivity | right].

Lemma tok_lookups d h :
  assoc (ccol d (bs "sstart"%bs)) (tok_table d h) = Some (dec_of_Z (h_sstart h)) /\
  assoc (ccol d (bs "send"%bs)) (tok_table d h) = Some (dec_of_Z (h_send h)) /\
  assoc (ccol d (bs "qstart"%bs)) (tok_table d h) = Some (dec_of_Z (h_qstart h)) /\
  assoc (ccol d (bs "qend"%bs)) (tok_table d h) = Some (dec_of_Z (h_qend h)) /\
  assoc (ccol d (bs "sseqid"%bs)) (tok_table d h) = Some (h_sseqid h) /\
  assoc (ccol d (bs "qseqid"%bs)) (tok_table d h) = Some (h_qseqid h) /\
  assoc (ccol d (bs "evalue"%bs)) (tok_table d h) = Some (h_evalue h) /\
  assoc (ccol d (bs "bitscore"%bs)) (tok_table d h) = Some (h_bitscore h) /\
  assoc (bs "sstrand"%bs) (tok_table d h) = Some (strand_sign h).
Proof. destruct d; repeat split; vm_compute; reflexivity. Qed.

Lemma strand_sign_agrees h : has_direction h = true -> sstrand_agrees h (Some (AStr (strand_sign h))) = true.
Proof.
  intros D. unfold sstrand_agrees, strand_sign. unfold has_direction in D. apply andb_prop in D. destruct D as [D1 D2].
  set (p := sgn (h_send h - h_sstart h) * sgn (h_qend h - h_qstart h)).
  assert (PP : p < 0 \/ p > 0).
  { unfold p, sgn. destruct (Z.eqb_spec (h_sstart h) (h_send h)); [discriminate|].
    destruct (Z.eqb_spec (h_qstart h) (h_qend h)); [discriminate|].
    destruct (h_send h - h_sstart h) eqn:E1; [lia| |]; destruct (h_qend h - h_qstart h) eqn:E2; try lia; cbn; lia. }
  destruct (Z.ltb_spec p 0) as [L|L]; [reflexivity|]. destruct (Z.gtb_spec p 0) as [G|G]; [reflexivity|lia].
Qed.

(* the general rows-carry lemma *)
Lemma hit_row_carries d free hs h : sel_ok d hs = true -> hit_sel_ok hs h = true ->
  ident_ok (row_attrs hs (hit_row d free hs h)) = true ->
  row_carries d hs (hit_row d free hs h) h.
Proof.
  intros S HS IO. destruct (tok_lookups d h) as (T1 & T2 & T3 & T4 & T5 & T6 & T7 & T8 & T9).
  assert (ND : nodup_str (map hname hs) = true).
  { unfold sel_ok in S. apply andb_prop in S. destruct S as [S0 _]. apply andb_prop in S0. tauto. }
  split; [unfold hit_row; apply map_length|]. split; [|split; [|exact IO]].
  - unfold carries.
    rewrite (key_cell d free hs h (bs "sstart"%bs) TInt _ S ltac:(inreq) T1).
    rewrite (key_cell d free hs h (bs "send"%bs) TInt _ S ltac:(inreq) T2).
    rewrite (key_cell d free hs h (bs "qstart"%bs) TInt _ S ltac:(inreq) T3).
    rewrite (key_cell d free hs h (bs "qend"%bs) TInt _ S ltac:(inreq) T4).
    rewrite (key_cell d free hs h (bs "sseqid"%bs) TStr _ S ltac:(inreq) T5).
    rewrite (key_cell d free hs h (bs "qseqid"%bs) TStr _ S ltac:(inreq) T6).
    rewrite (key_cell d free hs h (bs "evalue"%bs) TFloat _ S ltac:(inreq) T7).
    rewrite (key_cell d free hs h (bs "bitscore"%bs) TFloat _ S ltac:(inreq) T8).
    rewrite !conv_int_dec. repeat split; reflexivity.
  - rewrite row_attrs_cells by exact ND. unfold hit_row.
    destruct (mem (bs "sstrand"%bs) (map hname hs)) eqn:M.
    + unfold hit_sel_ok in HS. rewrite M in HS. cbn [negb] in HS. rewrite orb_false_r in HS.
      destruct (mem_names_in _ _ M) as (hd & Ih & En).
      rewrite <- En. rewrite (assoc_cells_map (hit_tok d free h) hs hd ND Ih).
      unfold hit_tok. rewrite En, T9.
      assert (Ty : htype hd = TStr).
      { unfold sel_ok in S. apply andb_prop in S. destruct S as [S0 _]. apply andb_prop in S0. destruct S0 as [_ S2].
        rewrite forallb_forall in S2. specialize (S2 _ Ih). rewrite En in S2.
        pose proof (cols_distinct_all d) as C. unfold cols_distinct in C. apply andb_prop in C. destruct C as [_ C].
        destruct (find_hdr false (bs "sstrand"%bs) (header_of d)) as [hd'|]; [|discriminate].
        apply coltype_eqb_eq in C. apply coltype_eqb_eq in S2. congruence. }
      rewrite Ty. cbn [conv]. apply strand_sign_agrees. exact HS.
    + rewrite assoc_cells_none by exact M. reflexivity.
Qed.

(* pident / fident completion cannot fail when no pident column was selected *)
Lemma assoc_cells_conv : forall l k p, assoc k (map cell l) = Some p -> exists t v, p = conv t v.
Proof.
  induction l as [|[hd v] l IH]; intros k p A; [discriminate|]. cbn [map] in A. unfold cell at 1 in A. cbn [fst snd assoc] in A.
  destruct (str_eqb (hname hd) k); [inversion A; eauto|eauto].
Qed.
Lemma ident_ok_no_pident hs toks : nodup_str (map hname hs) = true -> length toks = length hs ->
  mem (bs "pident"%bs) (map hname hs) = false -> ident_ok (row_attrs hs toks) = true.
Proof.
  intros ND L M. rewrite row_attrs_cells by exact ND. unfold ident_ok, complete_ident.
  assert (P : assoc (bs "pident"%bs) (map cell (combine hs toks)) = None).
  { apply assoc_none_mem. rewrite keys_cells by exact L. exact M. }
  rewrite P. destruct (assoc (bs "fident"%bs) (map cell (combine hs toks))) as [p|] eqn:F; [|reflexivity].
  destruct (assoc_cells_conv _ _ _ F) as (t & v & ->). destruct t; unfold conv; [reflexivity| |].
  - destruct (py_int v); reflexivity.
  - destruct (py_float v); reflexivity.
Qed.

Definition sel_rows (d : dialect) (free : hit -> str -> str) (hs : list hdr) (hits : list hit) : list (list str) :=
  map (fun h => hit_row d (free h) hs h) hits.
Definition hits_ok (d : dialect) (free : hit -> str -> str) (hs : list hdr) (hits : list hit) : bool :=
  forallb (fun h => hit_sel_ok hs h && ident_ok (row_attrs hs (hit_row d (free h) hs h))) hits.
Lemma rows_carry_sel d free hs hits : sel_ok d hs = true -> hits_ok d free hs hits = true ->
  Forall2 (row_carries d hs) (sel_rows d free hs hits) hits.
Proof.
  intros S H. unfold sel_rows. apply Forall2_map_l. intros h Ih. unfold hits_ok in H. rewrite forallb_forall in H.
  specialize (H h Ih). apply andb_prop in H. destruct H as [H1 H2]. apply hit_row_carries; assumption.
Qed.

(* (2a) user-chosen columns through outfmt= (BLAST 6/7/10, MMseqs2 0/4) *)
Lemma read_outfmt_hits d c o ftype hs pre names post free hits :
  headers_from false d (split_ws o) = Ok hs -> sel_ok d hs = true -> hits_ok d free hs hits = true ->
  forallb (skip_line d false false) pre = true -> forallb (skip_line d false false) post = true ->
  (match d with Mmseqs => forallb (names_ok c) names | _ => match names with [] => true | _ => false end end) = true ->
  forallb (row_ok d c) (sel_rows d free hs hits) = true ->
  exists fs, snd (read_lines d (Some c) (Some o) ftype
                    (lines_keep (unlines (pre ++ map (names_line c) names ++ map (join c) (sel_rows d free hs hits) ++ post)))) = Ok fs /\
             map loc_meta fs = map spec_loc_meta hits.
Proof.
  intros HF S H P Q NM R.
  destruct (rows_features_carry d ftype hs _ _ (rows_carry_sel d free hs hits S H)) as (fs & E & M).
  exists fs. split; [|exact M]. rewrite <- E. apply read_outfmt_file; assumption.
Qed.
(* (2b) user-chosen columns announced by a '# Fields:' line *)
Lemma read_blast7_sel_hits c ftype hs pre mid post free hits :
  hs <> [] -> forallb long_ok (map hlong hs) = true -> headers_from true Blast (map hlong hs) = Ok hs ->
  sel_ok Blast hs = true -> hits_ok Blast free hs hits = true ->
  forallb (skip_line Blast true true) pre = true -> forallb (skip_line Blast true true) mid = true ->
  forallb (skip_line Blast true true) post = true -> forallb (row_ok Blast c) (sel_rows Blast free hs hits) = true ->
  exists fs, snd (read_content Blast (Some c) None ftype false
                    (unlines (pre ++ [fields_line hs] ++ mid ++ map (join c) (sel_rows Blast free hs hits) ++ post))) = Ok fs /\
             map loc_meta fs = map spec_loc_meta hits.
Proof.
  intros NE LO HF S H P M Q R.
  destruct (rows_features_carry Blast ftype hs _ _ (rows_carry_sel Blast free hs hits S H)) as (fs & E & MM).
  exists fs. split; [|exact MM]. rewrite <- E. apply read_blast7; assumption.
Qed.
(* (2c) user-chosen columns announced by the MMseqs2 name row *)
Lemma read_mmseqs4_sel_hits c ftype hs pre post free hits :
  names_ok c hs = true -> headers_from false Mmseqs (map hname hs) = Ok hs ->
  sel_ok Mmseqs hs = true -> hits_ok Mmseqs free hs hits = true ->
  forallb (skip_line Mmseqs true true) pre = true -> forallb (skip_line Mmseqs true true) post = true ->
  forallb (row_ok Mmseqs c) (sel_rows Mmseqs free hs hits) = true ->
  exists fs, snd (read_content Mmseqs (Some c) None ftype false
                    (unlines (pre ++ [names_line c hs] ++ map (join c) (sel_rows Mmseqs free hs hits) ++ post))) = Ok fs /\
             map loc_meta fs = map spec_loc_meta hits.
Proof.
  intros NO HF S H P Q R.
  destruct (rows_features_carry Mmseqs ftype hs _ _ (rows_carry_sel Mmseqs free hs hits S H)) as (fs & E & MM).
  exists fs. split; [|exact MM]. rewrite <- E. apply read_mmseqs4; assumption.
Qed.
(* (1) Infernal tblout with any of the four column tables (fmt 1, 2, 2old, 3): rows given with their spacing *)
Lemma read_infernal_hits sep outfmt ftype n hs ruler pre post rows free hits :
  ruler_ok n ruler = true -> infernal_headers n = Ok hs -> sel_ok Infernal hs = true -> hits_ok Infernal free hs hits = true ->
  forallb (skip_line Infernal true true) pre = true -> forallb (skip_line Infernal true false) post = true ->
  forallb (wsrow_ok n) rows = true -> map wsrow_toks rows = sel_rows Infernal free hs hits ->
  exists fs, snd (read_content Infernal sep outfmt ftype false (unlines (pre ++ [ruler] ++ map wsrow_line rows ++ post))) = Ok fs /\
             map loc_meta fs = map spec_loc_meta hits.
Proof.
  intros RO IH S H P Q R T.
  destruct (rows_features_carry Infernal ftype hs _ _ (rows_carry_sel Infernal free hs hits S H)) as (fs & E & MM).
  exists fs. split; [|exact MM]. rewrite <- E. rewrite <- T. apply (read_infernal sep outfmt ftype n hs); assumption.
Qed.
(* finite: the four Infernal tables and the default BLAST / MMseqs2 lists are accepted selections; an Infernal row never
   has a pident/fident column, so its completion cannot fail *)
Lemma selection_tables :
  forallb (fun n => match infernal_headers n with
                    | Ok hs => sel_ok Infernal hs && negb (mem (bs "pident"%bs) (map hname hs))
                    | Err _ => false end) [18; 29; 20; 27]%nat = true /\
  sel_ok Blast (default_hs (bs "blast"%bs) Blast) = true /\ sel_ok Mmseqs (default_hs (bs "mmseqs"%bs) Mmseqs) = true /\
  forallb cols_distinct dialects = true.
Proof. split; [vm_compute; reflexivity|]. split; [vm_compute; reflexivity|]. split; vm_compute; reflexivity. Qed.
