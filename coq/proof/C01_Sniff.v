(* C01 proofs: the sniffers recognise every written text as its own format; write by file name. *)
From Coq Require Import List ZArith NArith Bool Lia Arith.
From Coq.Strings Require Import Byte.
Import ListNotations.
From SV Require Import Text C01_Lines G_codes G_c01_io C01_Model C01_Detect C01_Lemmas C01_Formats C01_Stockholm C01_Gff C01_Main.

(* ---------------------------------------------------------------- induction over JSON trees *)
Section TreeInd.
  Variable P : tree -> Prop.
  Hypothesis Hnull : P TNull.
  Hypothesis Hstr : forall s, P (TStr s).
  Hypothesis Hlist : forall l, Forall P l -> P (TList l).
  Hypothesis Hdict : forall l, Forall (fun kv => P (snd kv)) l -> P (TDict l).
  Fixpoint tree_ind2 (t : tree) : P t :=
    match t with
    | TNull => Hnull
    | TStr s => Hstr s
    | TList l => Hlist l ((fix go (l : list tree) : Forall P l :=
                             match l with [] => Forall_nil _ | x :: r => Forall_cons x (tree_ind2 x) (go r) end) l)
    | TDict l => Hdict l ((fix go (l : list (str * tree)) : Forall (fun kv => P (snd kv)) l :=
                             match l with
                             | [] => Forall_nil _
                             | kv :: r => Forall_cons kv (tree_ind2 (snd kv)) (go r)
                             end) l)
    end.
End TreeInd.

(* ---------------------------------------------------------------- text layer *)
Lemma ws_false_not_cr c : is_ws c = false -> byte_eqb c cr = false.
Proof. destruct c; cbn; congruence. Qed.
Lemma univ_nl_cons c r : byte_eqb c cr = false -> univ_nl (c :: r) = c :: univ_nl r.
Proof. intros H. cbn [univ_nl]. rewrite H. reflexivity. Qed.
Lemma univ_nl_app_clean p r : no_byte cr p = true -> univ_nl (p ++ r) = p ++ univ_nl r.
Proof.
  induction p as [|c p IH]; intros H; [reflexivity|].
  cbn [no_byte forallb] in H. apply andb_prop in H. destruct H as [Hc Hp]. apply negb_true_iff in Hc.
  cbn [app]. rewrite univ_nl_cons by exact Hc. rewrite IH by exact Hp. reflexivity.
Qed.
Lemma firstn_prefix {A} n (p x : list A) : n <= length p -> firstn n (p ++ x) = firstn n p.
Proof.
  intros H. rewrite firstn_app. replace (n - length p) with 0 by lia. cbn [firstn]. apply app_nil_r.
Qed.
Lemma sniff_head_prefix n p r : no_byte cr p = true -> n <= length p -> sniff_head n (p ++ r) = firstn n p.
Proof. intros H L. unfold sniff_head. rewrite univ_nl_app_clean by exact H. apply firstn_prefix. exact L. Qed.
Lemma sniff_head_cons n c r : is_ws c = false -> sniff_head (S n) (c :: r) = c :: sniff_head n r.
Proof. intros H. unfold sniff_head. rewrite univ_nl_cons by (apply ws_false_not_cr; exact H). reflexivity. Qed.
Lemma startswith_app p s : startswith p (p ++ s) = true.
Proof. unfold startswith. rewrite strip_prefix_app. reflexivity. Qed.
Lemma strip_head_keep c r : is_ws c = false -> exists r', strip (c :: r) = c :: r'.
Proof. intros H. unfold strip. rewrite lstrip_non_ws by exact H. apply rstrip_non_ws_head. exact H. Qed.
Lemma lstrip_ws_app pre z : forallb is_ws pre = true -> lstrip (pre ++ z) = lstrip z.
Proof.
  induction pre as [|c pre IH]; intros H; [reflexivity|].
  cbn [forallb] in H. apply andb_prop in H. destruct H as [Hc Hp]. cbn [app lstrip]. rewrite Hc. apply IH. exact Hp.
Qed.

(* a text whose first character is not whitespace is FASTA iff that character is '>' *)
Lemma is_fasta_head c r : is_ws c = false -> is_fasta (c :: r) = byte_eqb GT c.
Proof.
  intros H. unfold is_fasta. change 50 with (S 49). rewrite sniff_head_cons by exact H.
  destruct (strip_head_keep c (sniff_head 49 r) H) as [r' E]. rewrite E.
  unfold startswith. cbn [strip_prefix]. destruct (byte_eqb GT c); reflexivity.
Qed.

(* leading whitespace inside the 50-character window does not matter to the FASTA sniffer *)
Theorem fasta_sniff_leading_ws pre t : forallb is_ws pre = true -> no_byte cr pre = true -> length pre < 50 ->
  is_fasta (pre ++ GT :: t) = true.
Proof.
  intros Hw Hc L. unfold is_fasta, sniff_head. rewrite univ_nl_app_clean by exact Hc.
  rewrite univ_nl_cons by reflexivity. rewrite firstn_app. rewrite (firstn_all2 pre) by lia.
  destruct (50 - length pre) as [|k] eqn:E; [lia|]. cbn [firstn].
  unfold strip. rewrite lstrip_ws_app by exact Hw. rewrite lstrip_non_ws by reflexivity.
  destruct (rstrip_non_ws_head GT (firstn k (univ_nl t)) eq_refl) as [r' Er]. rewrite Er.
  unfold startswith. cbn [strip_prefix]. rewrite byte_eqb_refl. reflexivity.
Qed.

(* ---------------------------------------------------------------- detect() in the plugin order found in /repo *)
Definition N_fasta : str := bs "fasta"%bs.
Definition N_genbank : str := bs "genbank"%bs.
Definition N_stockholm : str := bs "stockholm"%bs.
Definition N_gff : str := bs "gff"%bs.
Definition N_sjson : str := bs "sjson"%bs.
Lemma detect_unfold t :
  detect t = if is_fasta t then Some N_fasta else if is_genbank t then Some N_genbank
             else if is_stockholm t then Some N_stockholm else if is_gff t then Some N_gff
             else if is_sjson t then Some N_sjson else None.
Proof. reflexivity. Qed.

Lemma is_fasta_prefix c p r : is_ws c = false -> byte_eqb GT c = false -> is_fasta ((c :: p) ++ r) = false.
Proof. intros W H. cbn [app]. rewrite is_fasta_head by exact W. exact H. Qed.

(* FASTA: the text of a non-empty basket starts with '>' *)
Theorem fasta_detected s b : detect (unlines (write_fasta_lines (s :: b))) = Some N_fasta.
Proof.
  rewrite detect_unfold. unfold write_fasta_lines. cbn [map concat append_fasta_lines app unlines].
  unfold fasta_header_line. cbn [app]. rewrite is_fasta_head by reflexivity. reflexivity.
Qed.

(* Stockholm *)
Definition STK_LINE1 : str := bs "# STOCKHOLM 1.0"%bs ++ [nl].
Theorem stockholm_detected b : detect (unlines (write_stockholm_lines b)) = Some N_stockholm.
Proof.
  unfold write_stockholm_lines. cbn [unlines].
  change (bs "# STOCKHOLM 1.0"%bs ++ nl :: unlines (map stk_seq_line b ++ [bs "//"%bs]))
    with (STK_LINE1 ++ unlines (map stk_seq_line b ++ [bs "//"%bs])).
  set (r := unlines _). rewrite detect_unfold.
  assert (F : is_fasta (STK_LINE1 ++ r) = false) by (apply is_fasta_prefix; reflexivity).
  assert (G : is_genbank (STK_LINE1 ++ r) = false).
  { unfold is_genbank. rewrite sniff_head_prefix; [reflexivity|reflexivity|cbn; lia]. }
  assert (St : is_stockholm (STK_LINE1 ++ r) = true).
  { unfold is_stockholm. rewrite sniff_head_prefix; [reflexivity|reflexivity|cbn; lia]. }
  rewrite F, G, St. reflexivity.
Qed.

(* GFF3: whatever feature lines and sequences follow the version line *)
Definition GFF_LINE1 : str := GFF_VERSION ++ [nl].
Lemma strip_gff_line1 y : exists z, strip (GFF_LINE1 ++ y) = GFF_VERSION ++ z.
Proof.
  unfold strip. change (GFF_LINE1 ++ y) with ("#"%byte :: (bs "#gff-version "%bs ++ "3"%byte :: nl :: y)).
  rewrite lstrip_non_ws by reflexivity.
  change ("#"%byte :: (bs "#gff-version "%bs ++ "3"%byte :: nl :: y)) with (bs "##gff-version "%bs ++ "3"%byte :: nl :: y).
  rewrite rstrip_app_nonblank by (apply rstrip_non_ws_head_ne; reflexivity).
  destruct (rstrip_non_ws_head "3"%byte (nl :: y) eq_refl) as [r' E]. rewrite E. exists r'. reflexivity.
Qed.
Lemma gff_line1_detected r : detect (GFF_LINE1 ++ r) = Some N_gff.
Proof.
  rewrite detect_unfold.
  assert (F : is_fasta (GFF_LINE1 ++ r) = false) by (apply is_fasta_prefix; reflexivity).
  assert (G : is_genbank (GFF_LINE1 ++ r) = false).
  { unfold is_genbank. rewrite sniff_head_prefix; [reflexivity|reflexivity|cbn; lia]. }
  assert (St : is_stockholm (GFF_LINE1 ++ r) = false).
  { unfold is_stockholm. rewrite sniff_head_prefix; [reflexivity|reflexivity|cbn; lia]. }
  assert (H : is_gff (GFF_LINE1 ++ r) = true).
  { unfold is_gff, sniff_head. rewrite univ_nl_app_clean by reflexivity. rewrite firstn_app.
    rewrite (firstn_all2 GFF_LINE1) by (cbn; lia).
    destruct (strip_gff_line1 (firstn (100 - length GFF_LINE1) (univ_nl r))) as [z E]. rewrite E.
    rewrite startswith_app. reflexivity. }
  rewrite F, G, St, H. reflexivity.
Qed.
Theorem gff_fts_detected fl b : detect (unlines (write_gff_lines_fts fl b)) = Some N_gff.
Proof.
  unfold write_gff_lines_fts. cbn [unlines].
  change (bs "##gff-version 3"%bs ++ nl :: unlines (fl ++ GFF_FASTA :: write_fasta_lines b))
    with (GFF_LINE1 ++ unlines (fl ++ GFF_FASTA :: write_fasta_lines b)).
  apply gff_line1_detected.
Qed.

(* SJSON: the bytes json.dump produces for the basket tree *)
Lemma jesc1_no_tab c : no_byte TAB (jesc1 c) = true.
Proof. destruct c; reflexivity. Qed.
Lemma jstr_no_tab s : no_byte TAB (jstr s) = true.
Proof.
  unfold jstr. cbn [no_byte forallb]. change (forallb (fun x => negb (byte_eqb x TAB))) with (no_byte TAB).
  rewrite no_byte_app. cbn [andb]. rewrite andb_true_r.
  induction s as [|c s IH]; [reflexivity|]. cbn [flat_map]. rewrite no_byte_app. rewrite jesc1_no_tab. exact IH.
Qed.
Lemma join_no_byte c sep parts : no_byte c sep = true -> forallb (no_byte c) parts = true -> no_byte c (join sep parts) = true.
Proof.
  intros Hs. induction parts as [|p parts IH]; intros H; [reflexivity|].
  cbn [forallb] in H. apply andb_prop in H. destruct H as [Hp Hr].
  destruct parts as [|q parts]; [exact Hp|].
  rewrite join_cons. rewrite !no_byte_app. rewrite Hp, Hs. apply IH. exact Hr.
Qed.
Lemma jdump_no_tab t : no_byte TAB (jdump t) = true.
Proof.
  induction t as [ | s | l IH | l IH ] using tree_ind2.
  - reflexivity.
  - apply jstr_no_tab.
  - cbn [jdump]. cbn [no_byte forallb]. change (forallb (fun x => negb (byte_eqb x TAB))) with (no_byte TAB).
    rewrite no_byte_app. cbn [andb]. rewrite andb_true_r. apply join_no_byte; [reflexivity|].
    induction IH as [|x l Hx Hl IHl]; [reflexivity|]. cbn [map forallb]. rewrite Hx. exact IHl.
  - cbn [jdump]. cbn [no_byte forallb]. change (forallb (fun x => negb (byte_eqb x TAB))) with (no_byte TAB).
    rewrite no_byte_app. cbn [andb]. rewrite andb_true_r. apply join_no_byte; [reflexivity|].
    induction IH as [|[k v] l Hx Hl IHl]; [reflexivity|]. cbn [map forallb]. rewrite !no_byte_app.
    rewrite jstr_no_tab. cbn [snd] in Hx. rewrite Hx. exact IHl.
Qed.
Lemma univ_nl_no_tab s : no_byte TAB s = true -> no_byte TAB (univ_nl s) = true.
Proof.
  assert (G : forall n s, length s <= n -> no_byte TAB s = true -> no_byte TAB (univ_nl s) = true).
  { induction n as [|n IH]; intros [|c r] L H; try reflexivity; [cbn in L; lia|].
    cbn [no_byte forallb] in H. apply andb_prop in H. destruct H as [Hc Hr]. cbn [length] in L.
    cbn [univ_nl]. destruct (byte_eqb c cr).
    - destruct r as [|d r']; [reflexivity|].
      cbn [no_byte forallb] in Hr. apply andb_prop in Hr. destruct Hr as [Hd Hr']. cbn [length] in L.
      destruct (byte_eqb d nl).
      + cbn [no_byte forallb]. cbn [negb byte_eqb]. apply (IH r'); [lia|exact Hr'].
      + cbn [no_byte forallb]. change (negb (byte_eqb nl TAB)) with true. cbn [andb].
        apply (IH (d :: r')); [cbn [length]; lia|]. cbn [no_byte forallb]. rewrite Hd. exact Hr'.
    - cbn [no_byte forallb]. rewrite Hc. apply (IH r); [lia|exact Hr]. }
  intros H. apply (G (length s)); [lia|exact H].
Qed.
Lemma firstn_no_byte c n s : no_byte c s = true -> no_byte c (firstn n s) = true.
Proof. unfold no_byte. apply forallb_firstn. Qed.

Definition SJ_HEAD : str := "{"%byte :: jstr FMTCOMMENT ++ COLON_SP ++ jstr SJSON_COMMENT ++ COMMA_SP.
Lemma enc_basket_head b : exists r, jdump (enc_basket b) = SJ_HEAD ++ r.
Proof.
  exists (join COMMA_SP [jstr (bs "data"%bs) ++ COLON_SP ++ jdump (TList (map enc_seq b));
                         jstr (bs "meta"%bs) ++ COLON_SP ++ jdump (enc_meta []);
                         jstr CLS ++ COLON_SP ++ jdump (TStr (bs "BioBasket"%bs))] ++ ["}"%byte]).
  reflexivity.
Qed.
Theorem sjson_detected b : detect (jdump (enc_basket b)) = Some N_sjson.
Proof.
  pose proof (jdump_no_tab (enc_basket b)) as NT.
  destruct (enc_basket_head b) as [r E]. rewrite E in *. clear E.
  rewrite detect_unfold.
  assert (F : is_fasta (SJ_HEAD ++ r) = false) by (apply is_fasta_prefix; reflexivity).
  assert (G : is_genbank (SJ_HEAD ++ r) = false).
  { unfold is_genbank. rewrite sniff_head_prefix; [reflexivity|reflexivity|apply Nat.leb_le; reflexivity]. }
  assert (St : is_stockholm (SJ_HEAD ++ r) = false).
  { unfold is_stockholm. rewrite sniff_head_prefix; [reflexivity|reflexivity|apply Nat.leb_le; reflexivity]. }
  assert (J : is_sjson (SJ_HEAD ++ r) = true).
  { unfold is_sjson. rewrite sniff_head_prefix; [reflexivity|reflexivity|apply Nat.leb_le; reflexivity]. }
  assert (H : is_gff (SJ_HEAD ++ r) = false).
  { unfold is_gff. set (c := sniff_head 100 (SJ_HEAD ++ r)).
    assert (Hc : no_byte TAB c = true) by (apply firstn_no_byte; apply univ_nl_no_tab; exact NT).
    assert (Hh : exists c', c = "{"%byte :: c').
    { unfold c. change (SJ_HEAD ++ r) with ("{"%byte :: (tl SJ_HEAD ++ r)). change 100 with (S 99).
      rewrite sniff_head_cons by reflexivity. eauto. }
    destruct Hh as [c' Ec]. rewrite (split_on_no TAB c Hc).
    rewrite Ec. destruct (strip_head_keep "{"%byte c' eq_refl) as [z Ez]. rewrite Ez. reflexivity. }
  rewrite F, G, St, H, J. reflexivity.
Qed.

(* every written text is detected as its own format *)
Lemma fmt_of_name_name f : fmt_of_name (fmt_name f) = Some f.
Proof. destruct f; reflexivity. Qed.
Lemma write_w_stk b : write_w Stockholm b = Ok (CText (unlines (write_stockholm_lines b))).
Proof. reflexivity. Qed.
Lemma write_w_sjson b : write_w Sjson b = Ok (CTree [enc_basket b]).
Proof. reflexivity. Qed.
Theorem written_detected f b c : b <> [] -> write_w f b = Ok c -> detect (content_text c) = Some (fmt_name f).
Proof.
  intros Hb H. destruct f.
  - rewrite write_w_fasta in H. injection H as <-. cbn [content_text]. destruct b as [|s b]; [contradiction|]. apply fasta_detected.
  - rewrite write_w_stk in H. injection H as <-. cbn [content_text]. apply stockholm_detected.
  - rewrite write_w_sjson in H. injection H as <-. cbn [content_text map concat]. rewrite app_nil_r. apply sjson_detected.
  - rewrite write_w_gff in H. injection H as <-. cbn [content_text]. exact (gff_fts_detected [] b).
Qed.
(* ... hence read() without fmt is read() with the format that was written *)
Theorem auto_read_written f b c : b <> [] -> write_w f b = Ok c -> read_auto c = read_content f c.
Proof.
  intros Hb H. unfold read_auto. rewrite (written_detected f b c Hb H). rewrite fmt_of_name_name. reflexivity.
Qed.
Theorem auto_roundtrip f b : wfb_basket f b = true -> b <> [] ->
  exists t t2, write_w f b = Ok t /\ read_auto t = Ok (map (norm_of f) b)
               /\ write_w f (map (norm_of f) b) = Ok t2 /\ read_auto t2 = Ok (map (norm_of f) b)
               /\ (f <> Sjson -> t2 = t).
Proof.
  intros W Hb. destruct (format_cycle f b W) as (t & t2 & H1 & H2 & H3 & H4 & H5).
  exists t, t2. split; [exact H1|]. split; [rewrite (auto_read_written f b t Hb H1); exact H2|].
  split; [exact H3|]. split; [|exact H5].
  rewrite (auto_read_written f (map (norm_of f) b) t2); [exact H4| |exact H3].
  destruct b; [contradiction|discriminate].
Qed.
Theorem gff_fts_auto fts b t : write_w_fts Gff fts b = Ok t -> read_auto t = read_content Gff t.
Proof.
  intros H.
  assert (E : t = CText (unlines (write_gff_lines_fts (basket_ft_lines fts b) b))) by (cbn [write_w_fts] in H; congruence).
  subst t. unfold read_auto. cbn [content_text]. rewrite (gff_fts_detected (basket_ft_lines fts b) b). reflexivity.
Qed.

(* ---------------------------------------------------------------- os.path.splitext / detect_ext / write by name *)
Lemma after_last_app c a e : no_byte c e = true -> after_last c (a ++ c :: e) = Some e.
Proof.
  intros H. assert (N : after_last c e = None).
  { induction e as [|x e IH]; [reflexivity|]. cbn [no_byte forallb] in H. apply andb_prop in H. destruct H as [Hx He].
    apply negb_true_iff in Hx. cbn [after_last]. rewrite (IH He). rewrite Hx. reflexivity. }
  induction a as [|x a IH].
  - cbn [app after_last]. rewrite N. rewrite byte_eqb_refl. reflexivity.
  - cbn [app after_last]. rewrite IH. reflexivity.
Qed.
Lemma before_last_app c a e : no_byte c e = true -> before_last c (a ++ c :: e) = Some a.
Proof.
  intros H. assert (N : before_last c e = None).
  { induction e as [|x e IH]; [reflexivity|]. cbn [no_byte forallb] in H. apply andb_prop in H. destruct H as [Hx He].
    apply negb_true_iff in Hx. cbn [before_last]. rewrite (IH He). rewrite Hx. reflexivity. }
  induction a as [|x a IH].
  - cbn [app before_last]. rewrite N. rewrite byte_eqb_refl. reflexivity.
  - cbn [app before_last]. rewrite IH. reflexivity.
Qed.
Lemma after_last_none c s : no_byte c s = true -> after_last c s = None.
Proof.
  induction s as [|x s IH]; intros H; [reflexivity|]. cbn [no_byte forallb] in H. apply andb_prop in H. destruct H as [Hx Hs].
  apply negb_true_iff in Hx. cbn [after_last]. rewrite (IH Hs). rewrite Hx. reflexivity.
Qed.
(* directories do not matter: the base name is what follows the last '/' *)
Theorem basename_dir d b : no_byte SLASH b = true -> basename (d ++ SLASH :: b) = b /\ basename b = b.
Proof.
  intros H. unfold basename. rewrite after_last_app by exact H. rewrite after_last_none by exact H. split; reflexivity.
Qed.
(* the last suffix of the base name decides, whatever dots the stem has (a stem made of dots only is a hidden file) *)
Theorem detect_ext_last_suffix p stem e : basename p = stem ++ DOTB :: e -> no_byte DOTB e = true -> all_dots stem = false ->
  ext_of p = e /\ detect_ext p = detect_ext_in SEQ_EXT_TABLE e.
Proof.
  intros Hb He Hs. assert (E : ext_of p = e).
  { unfold ext_of. rewrite Hb. rewrite before_last_app by exact He. rewrite after_last_app by exact He. rewrite Hs. reflexivity. }
  split; [exact E|]. unfold detect_ext. rewrite E. reflexivity.
Qed.
Theorem ext_of_hidden p stem e : basename p = stem ++ DOTB :: e -> no_byte DOTB e = true -> all_dots stem = true ->
  ext_of p = [] /\ detect_ext p = None.
Proof.
  intros Hb He Hs. assert (E : ext_of p = []).
  { unfold ext_of. rewrite Hb. rewrite before_last_app by exact He. rewrite after_last_app by exact He. rewrite Hs. reflexivity. }
  split; [exact E|]. unfold detect_ext. rewrite E. reflexivity.
Qed.
Theorem ext_of_no_suffix p b : no_byte DOTB (basename p) = true ->
  ext_of p = [] /\ detect_ext p = None /\ write_byname p b = Err E_OS.
Proof.
  intros H. assert (E : ext_of p = []).
  { unfold ext_of. rewrite (after_last_none DOTB _ H). destruct (before_last DOTB (basename p)); reflexivity. }
  assert (D : detect_ext p = None) by (unfold detect_ext; rewrite E; reflexivity).
  split; [exact E|]. split; [exact D|]. unfold write_byname. rewrite D. reflexivity.
Qed.
(* the extension table of /repo: every extension selects the plugin that lists it (no extension is claimed by an earlier
   plugin), none contains a dot, and every plugin with extensions is one of the four writable formats *)
Definition ext_table_ok : bool :=
  forallb (fun row => match row with (nm, exts) =>
             is_some (fmt_of_name nm)
             && forallb (fun e => no_byte DOTB e && match detect_ext_in SEQ_EXT_TABLE e with
                                                    | Some nm' => str_eqb nm' nm | None => false end) exts
           end) SEQ_EXT_TABLE
  && forallb (fun f => match f with
                       | Fasta => list_eqb str_eqb EXT_fasta | Stockholm => list_eqb str_eqb EXT_stockholm
                       | Sjson => list_eqb str_eqb EXT_sjson | Gff => list_eqb str_eqb EXT_gff
                       end (match find (fun row => str_eqb (fst row) (fmt_name f)) SEQ_EXT_TABLE with
                            | Some row => snd row | None => [] end)) [Fasta; Stockholm; Sjson; Gff].
Theorem ext_table_ok_true : ext_table_ok = true.
Proof. vm_compute. reflexivity. Qed.
Definition ext_list (f : fmt) : list str :=
  match f with Fasta => EXT_fasta | Stockholm => EXT_stockholm | Sjson => EXT_sjson | Gff => EXT_gff end.
Definition ext_rows_ok : bool :=
  forallb (fun f => forallb (fun e => no_byte DOTB e && match detect_ext_in SEQ_EXT_TABLE e with
                                                        | Some nm => str_eqb nm (fmt_name f) | None => false end) (ext_list f))
          [Fasta; Stockholm; Sjson; Gff].
Lemma ext_rows_ok_true : ext_rows_ok = true.
Proof. vm_compute. reflexivity. Qed.
Lemma ext_list_detect f e : In e (ext_list f) -> no_byte DOTB e = true /\ detect_ext_in SEQ_EXT_TABLE e = Some (fmt_name f).
Proof.
  intros Hin. pose proof ext_rows_ok_true as H. unfold ext_rows_ok in H. rewrite forallb_forall in H.
  assert (Hf : In f [Fasta; Stockholm; Sjson; Gff]) by (destruct f; cbn; tauto).
  specialize (H f Hf). rewrite forallb_forall in H. specialize (H e Hin). apply andb_prop in H. destruct H as [H1 H2].
  split; [exact H1|]. destruct (detect_ext_in SEQ_EXT_TABLE e) as [nm|]; [|discriminate].
  apply str_eqb_eq in H2. subst. reflexivity.
Qed.
(* write(basket, name) with a name whose last suffix is an extension of format f writes exactly write(basket, fmt=f) ... *)
Theorem byname_is_write f e p stem b : In e (ext_list f) -> basename p = stem ++ DOTB :: e -> all_dots stem = false ->
  detect_ext p = Some (fmt_name f) /\ write_byname p b = write_w f b.
Proof.
  intros Hin Hb Hs. destruct (ext_list_detect f e Hin) as [He Hd].
  destruct (detect_ext_last_suffix p stem e Hb He Hs) as [_ D]. rewrite Hd in D.
  split; [exact D|]. unfold write_byname. rewrite D. rewrite fmt_of_name_name. reflexivity.
Qed.
(* ... and read(name), which detects the format from the content, returns the basket *)
Theorem byname_roundtrip f e p stem b : In e (ext_list f) -> basename p = stem ++ DOTB :: e -> all_dots stem = false ->
  wfb_basket f b = true -> b <> [] ->
  exists t, write_byname p b = Ok t /\ read_auto t = Ok (map (norm_of f) b).
Proof.
  intros Hin Hb Hs W Hne. destruct (byname_is_write f e p stem b Hin Hb Hs) as [_ E].
  destruct (auto_roundtrip f b W Hne) as (t & t2 & H1 & H2 & _). exists t. rewrite E. split; [exact H1|exact H2].
Qed.
Theorem byname_roundtrip_full f e p stem b : In e (ext_list f) -> basename p = stem ++ DOTB :: e -> all_dots stem = false ->
  wfb_basket f b = true -> b <> [] ->
  detect_ext p = Some (fmt_name f) /\ write_byname p b = write_w f b
  /\ exists t, write_byname p b = Ok t /\ read_auto t = Ok (map (norm_of f) b).
Proof.
  intros Hin Hb Hs W Hne. destruct (byname_is_write f e p stem b Hin Hb Hs) as [H1 H2].
  split; [exact H1|]. split; [exact H2|]. exact (byname_roundtrip f e p stem b Hin Hb Hs W Hne).
Qed.

Lemma univ_nl_ws_prefix t : forall n pre, length pre <= n -> forallb is_ws pre = true ->
  exists pre', univ_nl (pre ++ GT :: t) = pre' ++ GT :: univ_nl t /\ forallb is_ws pre' = true /\ length pre' <= length pre.
Proof.
  induction n as [|n IH]; intros pre L W.
  - destruct pre; [|cbn in L; lia]. exists []. cbn [app]. rewrite univ_nl_cons by reflexivity. repeat split; auto.
  - destruct pre as [|c r].
    + exists []. cbn [app]. rewrite univ_nl_cons by reflexivity. repeat split; auto.
    + cbn [forallb] in W. apply andb_prop in W. destruct W as [Wc Wr]. cbn [length] in L.
      cbn [app univ_nl]. destruct (byte_eqb c cr) eqn:Ec.
      * destruct r as [|d r2].
        { cbn [app]. change (byte_eqb GT nl) with false. cbv iota. 
          exists [nl]. rewrite univ_nl_cons by reflexivity. repeat split; auto. }
        { cbn [app]. cbn [forallb] in Wr. apply andb_prop in Wr. destruct Wr as [Wd Wr2]. cbn [length] in L.
          destruct (byte_eqb d nl) eqn:Ed.
          - destruct (IH r2 ltac:(lia) Wr2) as (p & E & Wp & Lp). exists (nl :: p). rewrite E. cbn [app forallb length].
            rewrite Wp. repeat split; auto. lia.
          - destruct (IH (d :: r2) ltac:(cbn [length]; lia)) as (p & E & Wp & Lp); [cbn [forallb]; rewrite Wd; exact Wr2|].
            exists (nl :: p). cbn [app] in E. rewrite E. cbn [app forallb length] in *. rewrite Wp. repeat split; auto. lia. }
      * destruct (IH r ltac:(lia) Wr) as (p & E & Wp & Lp). exists (c :: p). rewrite E. cbn [app forallb length]. rewrite Wc, Wp.
        repeat split; auto. lia.
Qed.
(* leading whitespace of any kind (also CR, CRLF) inside the 50-character window does not matter to the FASTA sniffer *)
Theorem fasta_sniff_leading_ws_any pre t : forallb is_ws pre = true -> length pre < 50 -> is_fasta (pre ++ GT :: t) = true.
Proof.
  intros Hw L. destruct (univ_nl_ws_prefix t (length pre) pre (le_n _) Hw) as (p & E & Wp & Lp).
  unfold is_fasta, sniff_head. rewrite E. rewrite firstn_app. rewrite (firstn_all2 p) by lia.
  destruct (50 - length p) as [|k] eqn:Ek; [lia|]. cbn [firstn].
  unfold strip. rewrite lstrip_ws_app by exact Wp. rewrite lstrip_non_ws by reflexivity.
  destruct (rstrip_non_ws_head GT (firstn k (univ_nl t)) eq_refl) as [r' Er]. rewrite Er.
  unfold startswith. cbn [strip_prefix]. rewrite byte_eqb_refl. reflexivity.
Qed.
