(* C15 proofs, part 1: text layer (lines, strip, split) and dictionaries. *)
From Coq Require Import List ZArith NArith Bool Arith Lia.
From Coq.Strings Require Import Byte.
Import ListNotations.
From SV Require Import Text G_flags C15_Model.

Lemma flags_pinned : D_NONE = 0%N /\ D_MISS_LEFT = 1%N /\ D_MISS_RIGHT = 2%N /\ D_BEYOND_LEFT = 4%N /\ D_BEYOND_RIGHT = 8%N.
Proof. repeat split; reflexivity. Qed.

(* ------------------------------------------------------------------ characters *)
Lemma graph_not_ws c : is_graph c = true -> is_ws c = false.
Proof. destruct c; vm_compute; congruence. Qed.
Lemma graph_not_nl c : is_graph c = true -> byte_eqb c NL = false.
Proof. destruct c; vm_compute; congruence. Qed.
Lemma text_not_nl c : is_text c = true -> byte_eqb c NL = false.
Proof. destruct c; vm_compute; congruence. Qed.
Lemma upper1_fix c : negb (is_lower c) = true -> upper1 c = c.
Proof. unfold is_lower. rewrite negb_involutive. apply byte_eqb_eq. Qed.
Lemma upper_fix s : forallb (fun c => negb (is_lower c)) s = true -> upper s = s.
Proof.
  induction s as [|c s IH]; simpl; [reflexivity|]. intros H. apply andb_prop in H. destruct H as [H1 H2].
  rewrite (upper1_fix c H1), (IH H2). reflexivity.
Qed.

(* ------------------------------------------------------------------ lines *)
Definition no_nl (s : str) : Prop := forallb (fun c => negb (byte_eqb c NL)) s = true.
Lemma py_lines_line l rest : no_nl l -> py_lines (l ++ NL :: rest) = (l ++ [NL]) :: py_lines rest.
Proof.
  unfold no_nl. induction l as [|c l IH]; simpl; intros H.
  - reflexivity.
  - apply andb_prop in H. destruct H as [H1 H2]. apply negb_true_iff in H1. rewrite H1, (IH H2). reflexivity.
Qed.
Definition addnl (l : str) : str := l ++ [NL].
Lemma py_lines_lines ls rest : Forall no_nl ls ->
  py_lines (concat (map addnl ls) ++ rest) = map addnl ls ++ py_lines rest.
Proof.
  induction 1 as [|l ls Hl _ IH]; simpl; [reflexivity|].
  unfold addnl at 1. rewrite <- !app_assoc. simpl. rewrite (py_lines_line l _ Hl), IH. reflexivity.
Qed.
Lemma concat_py_lines s : concat (py_lines s) = s.
Proof.
  induction s as [|c s IH]; simpl; [reflexivity|].
  destruct (byte_eqb c NL); simpl; [rewrite IH; reflexivity|].
  destruct (py_lines s) as [|l ls]; simpl in *; [rewrite <- IH; reflexivity|rewrite IH; reflexivity].
Qed.
Lemma join_cons sep l ls : ls <> [] -> join sep (l :: ls) = l ++ sep ++ join sep ls.
Proof. destruct ls; [congruence|reflexivity]. Qed.
Lemma join_snoc ls x : join [NL] (ls ++ [x]) = concat (map addnl ls) ++ x.
Proof.
  induction ls as [|l ls IH]; [reflexivity|].
  change ((l :: ls) ++ [x]) with (l :: (ls ++ [x])). rewrite join_cons by (destruct ls; discriminate).
  rewrite IH. simpl. unfold addnl. rewrite <- !app_assoc. reflexivity.
Qed.

(* ------------------------------------------------------------------ strip *)
Definition hd_nws (s : str) : bool := match s with c :: _ => negb (is_ws c) | [] => false end.
Lemma lstrip_hd s : hd_nws s = true -> lstrip s = s.
Proof. destruct s as [|c s]; simpl; [discriminate|]. intros H. apply negb_true_iff in H. rewrite H. reflexivity. Qed.
Lemma strip_clean l : hd_nws l = true -> hd_nws (rev l) = true -> strip (l ++ [NL]) = l.
Proof.
  intros H1 H2. unfold strip, rstrip.
  assert (E : lstrip (l ++ [NL]) = l ++ [NL]) by (apply lstrip_hd; destruct l; [discriminate|exact H1]).
  rewrite E, rev_app_distr. simpl. rewrite (lstrip_hd _ H2). apply rev_involutive.
Qed.
Lemma hd_nws_app a b : a <> [] -> hd_nws (a ++ b) = hd_nws a.
Proof. destruct a; [congruence|reflexivity]. Qed.
Lemma hd_nws_rev_app a b : b <> [] -> hd_nws (rev (a ++ b)) = hd_nws (rev b).
Proof.
  intros H. rewrite rev_app_distr. apply hd_nws_app. intros E. apply (f_equal (@rev byte)) in E.
  rewrite rev_involutive in E. simpl in E. congruence.
Qed.
Lemma hd_nws_rev_cons c b : b <> [] -> hd_nws (rev (c :: b)) = hd_nws (rev b).
Proof. intros H. apply (hd_nws_rev_app [c] b H). Qed.

(* last character of a non-empty string, as head of the reverse *)
Lemma last_rev (v : str) c : v <> [] -> hd_nws (rev v) = negb (is_ws (last v c)).
Proof.
  intros H. destruct (exists_last H) as (v' & x & ->). rewrite rev_app_distr, last_last. reflexivity.
Qed.

(* ------------------------------------------------------------------ split *)
Definition no_ws (s : str) : Prop := forallb (fun c => negb (is_ws c)) s = true.
Lemma sp_tok n tok c rest : no_ws tok -> is_ws c = true -> sp n true (tok ++ c :: rest) = tok :: sp n false rest.
Proof.
  unfold no_ws. induction tok as [|x tok IH]; simpl; intros H Hc.
  - rewrite Hc. reflexivity.
  - apply andb_prop in H. destruct H as [H1 H2]. apply negb_true_iff in H1. rewrite H1, (IH H2 Hc). reflexivity.
Qed.
Lemma sp_tok_end n tok : no_ws tok -> sp n true tok = [tok].
Proof.
  unfold no_ws. induction tok as [|x tok IH]; simpl; intros H; [reflexivity|].
  apply andb_prop in H. destruct H as [H1 H2]. apply negb_true_iff in H1. rewrite H1, (IH H2). reflexivity.
Qed.
Lemma sp_start n tok c rest : tok <> [] -> no_ws tok -> is_ws c = true ->
  sp (S n) false (tok ++ c :: rest) = tok :: sp n false rest.
Proof.
  destruct tok as [|x tok]; [congruence|]. intros _ H Hc. unfold no_ws in H. simpl in H.
  apply andb_prop in H. destruct H as [H1 H2]. apply negb_true_iff in H1. simpl. rewrite H1.
  rewrite (sp_tok n tok c rest H2 Hc). reflexivity.
Qed.
Lemma sp_rest v : hd_nws v = true -> sp 0 false v = [v].
Proof. destruct v as [|c v]; simpl; [discriminate|]. intros H. apply negb_true_iff in H. rewrite H. reflexivity. Qed.
Lemma graph_no_ws s : forallb is_graph s = true -> no_ws s.
Proof.
  unfold no_ws. induction s as [|c s IH]; simpl; [reflexivity|]. intros H. apply andb_prop in H. destruct H as [H1 H2].
  rewrite (graph_not_ws c H1), (IH H2). reflexivity.
Qed.
Lemma graph_no_nl s : forallb is_graph s = true -> no_nl s.
Proof.
  unfold no_nl. induction s as [|c s IH]; simpl; [reflexivity|]. intros H. apply andb_prop in H. destruct H as [H1 H2].
  rewrite (graph_not_nl c H1), (IH H2). reflexivity.
Qed.
Lemma text_no_nl s : forallb is_text s = true -> no_nl s.
Proof.
  unfold no_nl. induction s as [|c s IH]; simpl; [reflexivity|]. intros H. apply andb_prop in H. destruct H as [H1 H2].
  rewrite (text_not_nl c H1), (IH H2). reflexivity.
Qed.
Lemma no_nl_app a b : no_nl a -> no_nl b -> no_nl (a ++ b).
Proof. unfold no_nl. intros. rewrite forallb_app. apply andb_true_intro. split; assumption. Qed.
Lemma no_nl_cons c b : byte_eqb c NL = false -> no_nl b -> no_nl (c :: b).
Proof. unfold no_nl. simpl. intros -> H. exact H. Qed.

(* ------------------------------------------------------------------ dictionaries *)
Definition keys {V} (d : dict V) : list str := map fst d.
Lemma str_eqb_neq a b : a <> b -> str_eqb a b = false.
Proof. intros H. destruct (str_eqb a b) eqn:E; [apply str_eqb_eq in E; contradiction|reflexivity]. Qed.
Lemma nodup_str_NoDup l : nodup_str l = true -> NoDup l.
Proof.
  induction l as [|x l IH]; simpl; intros H; [constructor|].
  apply andb_prop in H. destruct H as [H1 H2]. constructor; [|apply IH; exact H2].
  intros Hin. apply negb_true_iff in H1. assert (E : existsb (str_eqb x) l = true).
  { apply existsb_exists. exists x. split; [exact Hin|apply str_eqb_refl]. }
  congruence.
Qed.
Lemma upd_notin {V} k (f : option V -> V) d : ~ In k (keys d) -> upd k f d = d ++ [(k, f None)].
Proof.
  induction d as [|[k' v] d IH]; simpl; intros H; [reflexivity|].
  rewrite str_eqb_neq by (intros E; apply H; left; exact E). rewrite IH; [reflexivity|]. intros Hin. apply H. right. exact Hin.
Qed.
Lemma lookup_upd_same {V} k (f : option V -> V) d : lookup k (upd k f d) = Some (f (lookup k d)).
Proof.
  induction d as [|[k' v] d IH]; simpl.
  - rewrite str_eqb_refl. reflexivity.
  - destruct (str_eqb k' k) eqn:E; simpl; rewrite E; [reflexivity|exact IH].
Qed.
Lemma lookup_upd_other {V} k k2 (f : option V -> V) d : k2 <> k -> lookup k2 (upd k f d) = lookup k2 d.
Proof.
  intros H. induction d as [|[k' v] d IH]; simpl.
  - rewrite str_eqb_neq; [reflexivity|congruence].
  - destruct (str_eqb k' k) eqn:E; simpl.
    + apply str_eqb_eq in E. subst k'. rewrite str_eqb_neq by congruence. reflexivity.
    + destruct (str_eqb k' k2); [reflexivity|exact IH].
Qed.
(* folding fresh keys into a dictionary appends them *)
Lemma fold_upd_fresh (f : str -> option str -> str) (Hf : forall v, f v None = v) l : forall d0,
  NoDup (keys d0 ++ keys l) ->
  fold_left (fun d kv => upd (fst kv) (f (snd kv)) d) l d0 = d0 ++ l.
Proof.
  induction l as [|[k v] l IH]; simpl; intros d0 H; [rewrite app_nil_r; reflexivity|].
  rewrite upd_notin, Hf.
  - rewrite IH; [rewrite <- app_assoc; reflexivity|].
    unfold keys in *. rewrite map_app. simpl. rewrite <- app_assoc. exact H.
  - apply NoDup_remove_2 in H. intros Hin. apply H. apply in_or_app. left. exact Hin.
Qed.
