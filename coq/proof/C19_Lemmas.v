From Coq Require Import List ZArith Lia Bool Arith NArith.
From Coq.Strings Require Import Byte.
Import ListNotations.
From SV Require Import Text G_entrez C19_Model.
Open Scope Z_scope.

Section Rate.
Variable N : nat.
Variable W : Z.
Hypothesis N_pos : (0 < N)%nat.
Hypothesis W_pos : 0 <= W.

Notation wait := (wait N W).
Notation step := (step N W).
Notation spaced := (spaced N W).

(* newest-first history is non-increasing *)
Definition desc (h : list Z) : Prop :=
  forall i j a b, (i <= j)%nat -> nth_error h i = Some a -> nth_error h j = Some b -> b <= a.

Definition Inv (s : st) : Prop :=
  dq s = rev (firstn N (hist s)) /\
  (forall x, In x (hist s) -> x <= now s) /\
  spaced (hist s) /\ desc (hist s).

Lemma Inv_init : Inv init.
Proof.
  unfold Inv, init, C19_Model.spaced, desc; simpl. rewrite firstn_nil. repeat split; try easy.
  - intros k a b H. destruct k; discriminate.
  - intros i j a b _ H. destruct i; discriminate.
Qed.

Lemma firstn_rev_cons_full (h : list Z) t :
  (N <= length (firstn N h))%nat ->
  exists prev rest, rev (firstn N h) = prev :: rest /\
     nth_error h (N - 1) = Some prev /\ rev (firstn N (t :: h)) = rest ++ [t].
Proof.
  intros Hlen. rewrite firstn_length in Hlen.
  assert (HN: (N <= length h)%nat) by lia.
  destruct N as [|n] eqn:EN; [lia|].
  replace (S n - 1)%nat with n by lia.
  assert (Hn: (n < length h)%nat) by lia.
  destruct (nth_error h n) as [prev|] eqn:Hp; [|apply nth_error_None in Hp; lia].
  exists prev, (rev (firstn n h)).
  assert (F: firstn (S n) h = firstn n h ++ [prev]).
  { clear -Hp. revert n Hp. induction h as [|x h IH]; intros [|n] Hp; simpl in *; try discriminate.
    - inversion Hp; reflexivity.
    - f_equal. apply IH; assumption. }
  rewrite F, rev_app_distr. simpl. split; [reflexivity|]. split; [reflexivity|].
  reflexivity.
Qed.

Lemma desc_cons t h : desc h -> (forall x, In x h -> x <= t) -> desc (t :: h).
Proof.
  intros D B i j a b Hij Ha Hb. destruct i as [|i], j as [|j]; simpl in *.
  - inversion Ha; inversion Hb; subst. lia.
  - inversion Ha; subst. apply B. eapply nth_error_In; eauto.
  - lia.
  - eapply D; [|eauto|eauto]. lia.
Qed.

Lemma step_Inv s c : call_ok c -> Inv s -> Inv (step s c).
Proof.
  intros (Hg & He & Hd) (Hdq & Hnow & Hsp & Hde).
  unfold C19_Model.step, C19_Model.wait. rewrite Hdq. rewrite rev_length.
  destruct (N <=? length (firstn N (hist s)))%nat eqn:Full.
  - apply Nat.leb_le in Full.
    destruct (firstn_rev_cons_full (hist s) 0 Full) as (prev & rest & E & Hprev & _).
    rewrite E.
    assert (Hprev_now: prev <= now s).
    { apply Hnow. eapply nth_error_In; eauto. }
    destruct (now s + gap c - prev <? W) eqn:El.
    + apply Z.ltb_lt in El. set (t' := now s + gap c + (W - (now s + gap c - prev)) + eps c).
      unfold Inv; simpl. split; [|split; [|split]].
      * destruct (firstn_rev_cons_full (hist s) t' Full) as (p2 & r2 & E2 & _ & E3).
        rewrite E in E2. inversion E2; subst. symmetry; exact E3.
      * intros x [Hx|Hx]; [subst; lia| specialize (Hnow x Hx); unfold t'; lia].
      * intros k a b Ha Hb. destruct k as [|k]; simpl in *.
        -- inversion Ha; subst a. replace N with (S (N - 1)) in Hb by lia. simpl in Hb.
           rewrite Hprev in Hb. inversion Hb; subst b. unfold t'. lia.
        -- eapply Hsp; eauto.
      * apply desc_cons; [exact Hde|]. intros x Hx. specialize (Hnow x Hx). unfold t'. lia.
    + apply Z.ltb_ge in El. unfold Inv; simpl. split; [|split; [|split]].
      * destruct (firstn_rev_cons_full (hist s) (now s + gap c) Full) as (p2 & r2 & E2 & _ & E3).
        rewrite E in E2. inversion E2; subst. symmetry; exact E3.
      * intros x [Hx|Hx]; [subst; lia| specialize (Hnow x Hx); lia].
      * intros k a b Ha Hb. destruct k as [|k]; simpl in *.
        -- inversion Ha; subst a. replace N with (S (N - 1)) in Hb by lia. simpl in Hb.
           rewrite Hprev in Hb. inversion Hb; subst b. lia.
        -- eapply Hsp; eauto.
      * apply desc_cons; [exact Hde|]. intros x Hx. specialize (Hnow x Hx). lia.
  - apply Nat.leb_gt in Full. rewrite firstn_length in Full.
    assert (Hshort: (length (hist s) < N)%nat) by lia.
    unfold Inv; simpl. split; [|split; [|split]].
    + rewrite (firstn_all2 (hist s)) by lia.
      replace (firstn N (now s + gap c :: hist s)) with (now s + gap c :: hist s).
      * reflexivity.
      * symmetry. apply firstn_all2. simpl. lia.
    + intros x [Hx|Hx]; [subst; lia| specialize (Hnow x Hx); lia].
    + intros k a b Ha Hb.
      assert (Hlt: (k + N < length ((now s + gap c)%Z :: hist s))%nat) by (apply nth_error_Some; congruence).
      simpl in Hlt. lia.
    + apply desc_cons; [exact Hde|]. intros x Hx. specialize (Hnow x Hx). lia.
Qed.

Lemma run_Inv cs : Forall call_ok cs -> Inv (run N W cs).
Proof.
  intros Hcs. unfold run.
  assert (G: forall s, Inv s -> Inv (fold_left step cs s)).
  { induction Hcs as [|c cs Hc Hcs IH]; intros s Hs; simpl; [exact Hs|]. apply IH. apply step_Inv; assumption. }
  apply (G init Inv_init).
Qed.

Theorem rate_limit cs : Forall call_ok cs -> spaced (hist (run N W cs)).
Proof. intros H. apply (run_Inv cs H). Qed.

(* ---- at most N starts in any half-open window of length W ---- *)
Lemma spaced_tail a h : spaced (a :: h) -> spaced h.
Proof. intros H k x y Hx Hy. apply (H (S k) x y); simpl; assumption. Qed.
Lemma desc_tail a h : desc (a :: h) -> desc h.
Proof. intros H i j x y Hij Hx Hy. apply (H (S i) (S j) x y); simpl; try assumption; lia. Qed.

Lemma filter_none {A} (p : A -> bool) l : (forall x, In x l -> p x = false) -> filter p l = [].
Proof.
  induction l as [|x l IH]; intros H; simpl; [reflexivity|].
  rewrite (H x (or_introl eq_refl)). apply IH. intros y Hy. apply H. right. exact Hy.
Qed.

Lemma filter_len_le {A} (p : A -> bool) l : (length (filter p l) <= length l)%nat.
Proof. induction l as [|x l IH]; simpl; [lia|]. destruct (p x); simpl; lia. Qed.

Lemma In_skipn_nth {A} (l : list A) n x : In x (skipn n l) -> exists k, (n <= k)%nat /\ nth_error l k = Some x.
Proof.
  revert n. induction l as [|a l IH]; intros n H.
  - rewrite skipn_nil in H. destruct H.
  - destruct n as [|n].
    + change (skipn 0 (a :: l)) with (a :: l) in H.
      apply In_nth_error in H. destruct H as (k & Hk). exists k. split; [lia|exact Hk].
    + simpl in H. apply IH in H. destruct H as (k & Hk & E). exists (S k). split; [lia|exact E].
Qed.

Lemma count_window x h : spaced h -> desc h -> (count_in_window W x h <= N)%nat.
Proof.
  unfold count_in_window. induction h as [|a h IH]; intros Hs Hd; simpl; [lia|].
  destruct (in_window W x a) eqn:Ea.
  - simpl.
    (* everything from index N on (of a :: h) is at least W older than a, hence before x *)
    assert (Hold: forall y, In y (skipn (N - 1) h) -> in_window W x y = false).
    { intros y Hy. apply In_skipn_nth in Hy. destruct Hy as (k & Hk & Ek).
      assert (EN: exists b, nth_error (a :: h) N = Some b).
      { destruct (nth_error (a :: h) N) as [b|] eqn:E; [eauto|].
        apply nth_error_None in E. simpl in E.
        assert (k < length h)%nat by (apply nth_error_Some; congruence). lia. }
      destruct EN as (b & Eb).
      assert (a - b >= W) by (apply (Hs 0%nat a b); [reflexivity|simpl; exact Eb]).
      assert (y <= b).
      { apply (Hd N (S k) b y); [lia|exact Eb|simpl; exact Ek]. }
      unfold in_window in *. apply andb_prop in Ea. destruct Ea as [E1 E2].
      apply Z.leb_le in E1. apply Z.ltb_lt in E2.
      destruct (x <=? y) eqn:E3; [|reflexivity]. apply Z.leb_le in E3. lia. }
    rewrite <- (firstn_skipn (N - 1) h), filter_app, (filter_none _ _ Hold), app_nil_r.
    pose proof (filter_len_le (in_window W x) (firstn (N - 1) h)) as L.
    rewrite firstn_length in L. lia.
  - apply IH; [eapply spaced_tail; eauto|eapply desc_tail; eauto].
Qed.

Theorem window_limit cs x : Forall call_ok cs -> (count_in_window W x (hist (run N W cs)) <= N)%nat.
Proof. intros H. destruct (run_Inv cs H) as (_ & _ & Hs & Hd). apply count_window; assumption. Qed.

(* ---- never sleeps when the window is free ---- *)
Theorem no_needless_sleep d t e : snd (wait d t e) <> 0 ->
  (N <= length d)%nat /\ exists prev rest, d = prev :: rest /\ t - prev < W.
Proof.
  unfold C19_Model.wait. destruct (N <=? length d)%nat eqn:F; [|simpl; congruence].
  apply Nat.leb_le in F. destruct d as [|prev rest]; [simpl; congruence|].
  destruct (t - prev <? W) eqn:E; [|simpl; congruence].
  apply Z.ltb_lt in E. intros _. split; [exact F|]. exists prev, rest. split; [reflexivity|exact E].
Qed.

Theorem sleep_amount d t e : (N <= length d)%nat -> forall prev rest, d = prev :: rest -> t - prev < W ->
  wait d t e = (rest ++ [prev + W + e], prev + W + e, (W - (t - prev)) + e).
Proof.
  intros F prev rest -> E. unfold C19_Model.wait. apply Nat.leb_le in F. rewrite F.
  apply Z.ltb_lt in E. rewrite E.
  replace (t + (W - (t - prev)) + e) with (prev + W + e) by lia. reflexivity.
Qed.

(* when sleep is called in a reachable state, the N most recent requests all started less than one window ago:
   starting at once would put N + 1 starts into one window, i.e. the window is not free *)
Theorem sleep_means_window_full cs c : Forall call_ok cs -> call_ok c ->
  let s := run N W cs in let t := now s + gap c in
  snd (wait (dq s) t (eps c)) <> 0 ->
  (N <= length (filter (fun x => (t - W <? x)%Z) (firstn N (hist s))))%nat /\ length (firstn N (hist s)) = N.
Proof.
  intros Hcs Hc s t Hsl.
  destruct (run_Inv cs Hcs) as (Hdq & Hnow & Hsp & Hde). fold s in Hdq, Hnow, Hsp, Hde.
  destruct (no_needless_sleep _ _ _ Hsl) as (Hfull & prev & rest & Ed & Hel).
  rewrite Hdq, rev_length in Hfull.
  assert (Hlen: length (firstn N (hist s)) = N) by (rewrite firstn_length in *; lia).
  split; [|exact Hlen].
  destruct (firstn_rev_cons_full (hist s) 0 Hfull) as (p2 & r2 & E2 & Hprev & _).
  rewrite <- Hdq, Ed in E2. inversion E2; subst p2 r2.
  (* every element of firstn N hist is >= prev > t - W *)
  assert (All: forall x, In x (firstn N (hist s)) -> (t - W <? x) = true).
  { intros x Hx. apply Z.ltb_lt.
    apply In_nth_error in Hx. destruct Hx as (k & Hk).
    assert (k < N)%nat by (rewrite <- Hlen; apply nth_error_Some; congruence).
    assert (Hk': nth_error (hist s) k = Some x).
    { rewrite <- (firstn_skipn N (hist s)). rewrite nth_error_app1 by lia. exact Hk. }
    assert (prev <= x) by (apply (Hde k (N - 1)%nat x prev); [lia|exact Hk'|exact Hprev]).
    lia. }
  assert (F: filter (fun x => (t - W <? x)%Z) (firstn N (hist s)) = firstn N (hist s)).
  { clear -All. induction (firstn N (hist s)) as [|a l IH]; simpl; [reflexivity|].
    rewrite (All a (or_introl eq_refl)). f_equal. apply IH. intros x Hx. apply All. right. exact Hx. }
  rewrite F. lia.
Qed.
End Rate.

(* the shipped constants satisfy the side conditions *)
Lemma limits_pos : (0 < limit true)%nat /\ (0 < limit false)%nat /\ 0 <= window.
Proof. vm_compute. repeat split; try lia; discriminate. Qed.

(* ---- cache ---- *)
Arguments key_eqb : simpl never.
Arguments fkey : simpl never.
Section Cache.

Lemma key_eqb_eq a b : key_eqb a b = true <-> a = b.
Proof.
  destruct a as [[a1 a2] a3], b as [[b1 b2] b3]. unfold key_eqb.
  rewrite !andb_true_iff, !N.eqb_eq. split; [intros [[-> ->] ->]; reflexivity|intros E; inversion E; auto].
Qed.
Lemma key_eqb_refl a : key_eqb a a = true.
Proof. apply key_eqb_eq. reflexivity. Qed.

(* the decision: a request is issued iff there is no cache path, no file, an empty file, or overwrite *)
Theorem request_iff f c :
  fst (snd (fetch f c)) = true <->
  (f_path c = None \/ exists p, f_path c = Some p /\
     (fs_get (fkey c p) f = None \/ (exists v, fs_get (fkey c p) f = Some v /\ length v = 0%nat) \/ f_overwrite c = true)).
Proof.
  unfold C19_Model.fetch. destruct (f_path c) as [p|]; [|simpl; tauto].
  destruct (fs_get (fkey c p) f) as [v|] eqn:G.
  - destruct (Nat.eqb (length v) 0) eqn:L; simpl.
    + apply Nat.eqb_eq in L. split; [intros _; right; exists p; split; [reflexivity|right; left; exists v; auto]|reflexivity].
    + apply Nat.eqb_neq in L. destruct (f_overwrite c) eqn:O; simpl.
      * split; [intros _; right; exists p; split; [reflexivity|right; right; reflexivity]|reflexivity].
      * split; [discriminate|]. intros [H|(p' & E & [H|[(v' & H & Hl)|H]])]; try discriminate.
        -- inversion E; subst. congruence.
        -- inversion E; subst. rewrite G in H. inversion H; subst. contradiction.
  - simpl. split; [intros _; right; exists p; split; [reflexivity|left; exact G]|reflexivity].
Qed.

(* a cache hit issues no request, returns the cached content and leaves the files alone *)
Theorem cache_hit f c p v : f_path c = Some p -> fs_get (fkey c p) f = Some v -> v <> [] -> f_overwrite c = false ->
  fetch f c = (f, (false, v)).
Proof.
  intros Hp Hg Hv Ho. unfold C19_Model.fetch. rewrite Hp, Hg, Ho.
  destruct v; [contradiction|]. reflexivity.
Qed.

(* what a request returns and stores *)
Theorem fetch_request f c : fst (snd (fetch f c)) = true ->
  snd (snd (fetch f c)) = f_payload c /\
  forall p, f_path c = Some p -> fs_get (fkey c p) (fst (fetch f c)) = Some (f_payload c).
Proof.
  unfold C19_Model.fetch. destruct (f_path c) as [p|]; [|simpl; intros _; split; [reflexivity|discriminate]].
  destruct (fs_get (fkey c p) f) as [v|].
  - destruct (Nat.eqb (length v) 0 || f_overwrite c); simpl; [|discriminate].
    intros _. split; [reflexivity|]. intros p' E. inversion E; subst. unfold fs_set. cbn [fs_get]. rewrite key_eqb_refl. reflexivity.
  - simpl. intros _. split; [reflexivity|]. intros p' E. inversion E; subst. unfold fs_set. cbn [fs_get]. rewrite key_eqb_refl. reflexivity.
Qed.

(* a non-empty cached file for a key whose server payload is non-empty stays non-empty under every call *)
Definition good (k : key) (f : fs) : Prop := exists v, fs_get k f = Some v /\ v <> [].
(* the server does not answer this call with an empty payload, should the call be about file k *)
Definition pay_ok (k : key) (c : fcall) : Prop := forall p, f_path c = Some p -> fkey c p = k -> f_payload c <> [].

Lemma fetch_good k f c : pay_ok k c -> good k f -> good k (fst (fetch f c)).
Proof.
  intros Hs0 (v & Hg & Hv). unfold C19_Model.fetch.
  destruct (f_path c) as [p|] eqn:Hp; [|exists v; auto].
  assert (Hs: fkey c p = k -> f_payload c <> []) by (intros E; exact (Hs0 p Hp E)). clear Hs0.
  destruct (fs_get (fkey c p) f) as [v'|].
  - destruct (Nat.eqb (length v') 0 || f_overwrite c); simpl; [|exists v; auto].
    destruct (key_eqb (fkey c p) k) eqn:E.
    + apply key_eqb_eq in E. exists (f_payload c). split; [|exact (Hs E)]. rewrite <- E.
      unfold fs_set. cbn [fs_get]. rewrite key_eqb_refl. reflexivity.
    + exists v. split; [|exact Hv]. unfold fs_set. cbn [fs_get]. rewrite E. exact Hg.
  - simpl. destruct (key_eqb (fkey c p) k) eqn:E.
    + apply key_eqb_eq in E. exists (f_payload c). split; [|exact (Hs E)]. rewrite <- E.
      unfold fs_set. cbn [fs_get]. rewrite key_eqb_refl. reflexivity.
    + exists v. split; [|exact Hv]. unfold fs_set. cbn [fs_get]. rewrite E. exact Hg.
Qed.

Lemma fetch_all_good k cs : Forall (pay_ok k) cs -> forall f, good k f -> good k (fst (fetch_all f cs)).
Proof.
  induction cs as [|c cs IH]; intros Hs f Hg; simpl; [exact Hg|].
  inversion Hs as [|c' cs' Hc Hcs]; subst.
  destruct (fetch f c) as [f1 o] eqn:E1. destruct (fetch_all f1 cs) as [f2 os] eqn:E2. simpl.
  specialize (IH Hcs f1). rewrite E2 in IH. apply IH.
  pose proof (fetch_good k f c Hc Hg) as G. rewrite E1 in G. exact G.
Qed.

Lemma fetch_makes_good f c p : f_path c = Some p -> f_payload c <> [] -> good (fkey c p) (fst (fetch f c)).
Proof.
  intros Hp Hs. unfold C19_Model.fetch. rewrite Hp.
  destruct (fs_get (fkey c p) f) as [v|] eqn:G.
  - destruct (Nat.eqb (length v) 0) eqn:L; simpl.
    + exists (f_payload c). unfold fs_set. cbn [fs_get]. rewrite key_eqb_refl. auto.
    + destruct (f_overwrite c); simpl.
      * exists (f_payload c). unfold fs_set. cbn [fs_get]. rewrite key_eqb_refl. auto.
      * exists v. split; [exact G|]. intros ->. discriminate.
  - simpl. exists (f_payload c). unfold fs_set. cbn [fs_get]. rewrite key_eqb_refl. auto.
Qed.

(* in any history: once a call with a cache path has run and the server answered it with a non-empty payload, no later call with the
   same path, id and extension and overwrite = false issues a request, whatever calls happen in between (on any files, with
   or without overwrite), as long as the server never answers an in-between call about that very file with an empty payload *)
Theorem cache_once f pre c p mid c2 p2 :
  f_path c = Some p -> f_payload c <> [] -> Forall (pay_ok (fkey c p)) mid ->
  f_path c2 = Some p2 -> fkey c2 p2 = fkey c p -> f_overwrite c2 = false ->
  let f' := fst (fetch_all (fst (fetch (fst (fetch_all f pre)) c)) mid) in
  exists v, fetch f' c2 = (f', (false, v)) /\ v <> [].
Proof.
  intros Hp Hs Hmid Hp2 Hk Ho f'.
  assert (G: good (fkey c p) f').
  { apply fetch_all_good; [exact Hmid|]. apply fetch_makes_good; assumption. }
  destruct G as (v & Hg & Hv). exists v. split; [|exact Hv].
  apply (cache_hit f' c2 p2 v); try assumption. rewrite Hk. exact Hg.
Qed.

Lemma fetch_all_app f a b :
  fetch_all f (a ++ b) = (fst (fetch_all (fst (fetch_all f a)) b), snd (fetch_all f a) ++ snd (fetch_all (fst (fetch_all f a)) b)).
Proof.
  revert f. induction a as [|c a IH]; intros f; simpl.
  - destruct (fetch_all f b); reflexivity.
  - destruct (fetch f c) as [f1 o]. rewrite IH. destruct (fetch_all f1 a) as [f2 os]. simpl.
    destruct (fetch_all f2 b); reflexivity.
Qed.

(* special case: a server whose answer depends on the id only (the statement of the earlier rounds) *)
Corollary cache_once_const (server : N -> str) f pre c p mid c2 p2 :
  Forall (fun x => f_payload x = server (f_id x)) (c :: mid) ->
  f_path c = Some p -> server (f_id c) <> [] ->
  f_path c2 = Some p2 -> fkey c2 p2 = fkey c p -> f_overwrite c2 = false ->
  let f' := fst (fetch_all (fst (fetch (fst (fetch_all f pre)) c)) mid) in
  exists v, fetch f' c2 = (f', (false, v)) /\ v <> [].
Proof.
  intros Hall Hp Hs Hp2 Hk Ho. inversion Hall as [|x xs Hc Hmid]; subst.
  apply (cache_once f pre c p mid c2 p2); try assumption.
  - rewrite Hc. exact Hs.
  - rewrite Forall_forall in *. intros m Hm pm Hpm Hkm. rewrite (Hmid m Hm).
    unfold fkey in Hkm. inversion Hkm as [[E1 E2 E3]]. rewrite E2. exact Hs.
Qed.
End Cache.

(* ---- instantiation with the shipped constants (regenerated G_entrez.v) ---- *)
Lemma limit_pos api : (0 < limit api)%nat.
Proof. destruct api; [apply limits_pos|apply (proj1 (proj2 limits_pos))]. Qed.
Lemma window_nonneg : 0 <= window.
Proof. apply limits_pos. Qed.

Theorem shipped_rate_limit api cs : Forall call_ok cs ->
  spaced (limit api) window (hist (run (limit api) window cs)).
Proof. intros H. apply rate_limit; first [apply limit_pos | apply window_nonneg | exact H]. Qed.
Theorem shipped_window_limit api cs x : Forall call_ok cs ->
  (count_in_window window x (hist (run (limit api) window cs)) <= limit api)%nat.
Proof. intros H. apply window_limit; first [apply limit_pos | apply window_nonneg | exact H]. Qed.
Theorem shipped_no_needless_sleep api d t e : snd (wait (limit api) window d t e) <> 0 ->
  (limit api <= length d)%nat /\ exists prev rest, d = prev :: rest /\ t - prev < window.
Proof. apply no_needless_sleep. Qed.

Theorem shipped_sleep_means_window_full api cs c : Forall call_ok cs -> call_ok c ->
  let s := run (limit api) window cs in let t := now s + gap c in
  snd (wait (limit api) window (dq s) t (eps c)) <> 0 ->
  (limit api <= length (filter (fun x => (t - window <? x)%Z) (firstn (limit api) (hist s))))%nat
  /\ length (firstn (limit api) (hist s)) = limit api.
Proof. intros H1 H2. apply sleep_means_window_full; first [apply limit_pos | apply window_nonneg | assumption]. Qed.
