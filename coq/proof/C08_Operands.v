(* C08 proofs, part 5: which operand types the comparison operators and overlaps() accept, and that every accepted
   combination answers with the order / intersection of the covered ranges; the kinds of coordinate values taken by
   Location(start, stop). Decision tables: case analysis. *)
From Coq Require Import List ZArith NArith Bool Lia.
From Coq.Strings Require Import Byte.
Import ListNotations.
From SV Require Import Text G_flags C08_Model C08_Lemmas C08_Geom C08_Compose.
Local Open Scope Z_scope.

(* ------------------------------------------------------------------ seqids: CPython's str order on Latin-1 text *)
Lemma seqid_eq_sym a b : seqid_eq a b = seqid_eq b a.
Proof.
  destruct a as [x|], b as [y|]; cbn; try reflexivity.
  destruct (str_eqb x y) eqn:E, (str_eqb y x) eqn:F; try reflexivity.
  - apply str_eqb_eq in E. subst. rewrite str_eqb_refl in F. discriminate.
  - apply str_eqb_eq in F. subst. rewrite str_eqb_refl in E. discriminate.
Qed.
Lemma seqid_eq_eq a b : seqid_eq a b = true <-> a = b.
Proof.
  destruct a as [x|], b as [y|]; cbn; split; intros H; try discriminate; try reflexivity.
  - apply str_eqb_eq in H. congruence.
  - inversion H. apply str_eqb_refl.
Qed.
Lemma to_N_inj c d : Byte.to_N c = Byte.to_N d -> c = d.
Proof. intros H. pose proof (Byte.of_to_N c) as A. pose proof (Byte.of_to_N d) as B. rewrite H in A. congruence. Qed.
Lemma str_ltb_irrefl s : str_ltb s s = false.
Proof. induction s as [|c s IH]; [reflexivity|]. cbn [str_ltb]. rewrite N.ltb_irrefl, byte_eqb_refl. exact IH. Qed.
Lemma str_ltb_trichotomy s t :
  (str_ltb s t = true /\ s <> t /\ str_ltb t s = false) \/
  (str_ltb s t = false /\ s = t /\ str_ltb t s = false) \/
  (str_ltb s t = false /\ s <> t /\ str_ltb t s = true).
Proof.
  revert t. induction s as [|c s IH]; intros [|d t]; cbn [str_ltb].
  - right. left. repeat split.
  - left. repeat split. discriminate.
  - right. right. repeat split. discriminate.
  - destruct (N.ltb_spec (Byte.to_N c) (Byte.to_N d)) as [H|H].
    + left. assert (E : (Byte.to_N d <? Byte.to_N c)%N = false) by (apply N.ltb_ge; lia). rewrite E.
      assert (D : byte_eqb d c = false). { apply byte_eqb_neq. intros ->. lia. } rewrite D.
      repeat split. intros X. inversion X. subst. lia.
    + destruct (byte_eqb c d) eqn:E.
      * apply byte_eqb_eq in E. subst d. rewrite N.ltb_irrefl, byte_eqb_refl.
        destruct (IH t) as [(A & B & C)|[(A & B & C)|(A & B & C)]].
        -- left. repeat split; try assumption. congruence.
        -- right. left. repeat split; try assumption. congruence.
        -- right. right. repeat split; try assumption. congruence.
      * right. right. apply byte_eqb_neq in E.
        assert (N : Byte.to_N c <> Byte.to_N d) by (intros X; apply E; apply to_N_inj; exact X).
        assert (F : (Byte.to_N d <? Byte.to_N c)%N = true) by (apply N.ltb_lt; lia). rewrite F.
        repeat split. congruence.
Qed.
Lemma str_ltb_trans s t u : str_ltb s t = true -> str_ltb t u = true -> str_ltb s u = true.
Proof.
  revert t u. induction s as [|c s IH]; intros [|d t] [|e u]; cbn [str_ltb]; try discriminate; try reflexivity.
  destruct (N.ltb_spec (Byte.to_N c) (Byte.to_N d)) as [H1|H1], (N.ltb_spec (Byte.to_N d) (Byte.to_N e)) as [H2|H2];
    destruct (N.ltb_spec (Byte.to_N c) (Byte.to_N e)) as [H3|H3]; try reflexivity; try lia; intros A B.
  - destruct (byte_eqb d e) eqn:E; [|discriminate]. apply byte_eqb_eq in E. subst. lia.
  - destruct (byte_eqb c d) eqn:E; [|discriminate]. apply byte_eqb_eq in E. subst. lia.
  - destruct (byte_eqb c d) eqn:E; [|discriminate]. destruct (byte_eqb d e) eqn:F; [|discriminate].
    apply byte_eqb_eq in E. apply byte_eqb_eq in F. subst. rewrite byte_eqb_refl. eapply IH; eassumption.
Qed.

(* ------------------------------------------------------------------ comparisons *)
Lemma gt_is_lt_swapped t u : lt_gt t u = lt_lt u t.
Proof. unfold lt_gt, lt_lt. destruct (range t), (range u). lia. Qed.
Lemma ge_is_le_swapped t u : lt_ge t u = lt_le u t.
Proof. unfold lt_ge, lt_le. destruct (range t), (range u). lia. Qed.
Definition seqids_decide (x y : operand) : bool :=
  match x, y with OpFeat sx _, OpFeat sy _ => negb (seqid_eq sx sy) | _, _ => false end.
(* py_cmp spelled out per operand combination *)
Definition cmp_expected (o : cmpop) (x y : operand) : cres :=
  match x, y with
  | OpTuple t, OpTuple u => CVal (tuple_cmp o t u)
  | OpFeat _ t, OpTuple u => match o with CLt => CVal (lt_lt t u) | _ => CRaise end
  | OpFeat sx t, OpFeat sy u =>
      match o with
      | CLt => if seqid_eq sx sy then CVal (lt_lt t u)
               else match sx, sy with Some p, Some q => CVal (str_ltb p q) | _, _ => CRaise end
      | CGt => if seqid_eq sx sy then CVal (lt_lt u t)
               else match sx, sy with Some p, Some q => CVal (str_ltb q p) | _, _ => CRaise end
      | _ => CRaise
      end
  | _, _ => CRaise
  end.
Lemma py_cmp_expected o x y : py_cmp o x y = cmp_expected o x y.
Proof.
  destruct o, x as [t|sx t| | |], y as [u|sy u| | |]; unfold py_cmp, cmp_expected, method, swap_op; cbv beta iota zeta;
    try reflexivity;
    rewrite ?(seqid_eq_sym sy sx); destruct (seqid_eq sx sy); try reflexivity; destruct sx, sy; reflexivity.
Qed.
(* the table of accepted combinations is exact: LocationTuple with LocationTuple under all four operators, Feature < and >
   Feature (both seqids absent/equal, or both present), Feature < LocationTuple; everything else is a TypeError *)
Lemma cmp_table o x y : (exists b, py_cmp o x y = CVal b) <-> cmp_accepts o x y = true.
Proof.
  rewrite py_cmp_expected.
  destruct o, x as [t|sx t| | |], y as [u|sy u| | |]; cbn;
    try (destruct (seqid_eq sx sy); destruct sx, sy; cbn);
    (split; [intros [b H]; try discriminate; reflexivity | intros H; try discriminate; eexists; reflexivity]).
Qed.
(* whenever a comparison answers (and is not decided by differing seqids) the answer is the comparison of the covered ranges *)
Lemma cmp_value o x y b : py_cmp o x y = CVal b -> seqids_decide x y = false ->
  exists t u, locs_of x = Some t /\ locs_of y = Some u /\ b = tuple_cmp o t u.
Proof.
  rewrite py_cmp_expected.
  destruct o, x as [t|sx t| | |], y as [u|sy u| | |]; cbn; intros H D; try discriminate;
    try (apply negb_false_iff in D; rewrite D in H);
    exists t, u; repeat split; cbn [tuple_cmp]; rewrite ?gt_is_lt_swapped in *; congruence.
Qed.
(* an operand that is neither a LocationTuple nor a Feature is always refused *)
Lemma cmp_foreign o x y : locs_of x = None \/ locs_of y = None -> py_cmp o x y = CRaise.
Proof.
  rewrite py_cmp_expected.
  intros [H|H]; destruct o, x as [t|sx t| | |], y as [u|sy u| | |]; cbn in H |- *; try discriminate; reflexivity.
Qed.
(* features with two different seqids are ordered by the seqids alone *)
Lemma cmp_seqid_first p q t u : p <> q ->
  py_cmp CLt (OpFeat (Some p) t) (OpFeat (Some q) u) = CVal (str_ltb p q) /\
  py_cmp CGt (OpFeat (Some p) t) (OpFeat (Some q) u) = CVal (str_ltb q p) /\
  py_cmp CLt (OpFeat None t) (OpFeat (Some q) u) = CRaise /\ py_cmp CLt (OpFeat (Some p) t) (OpFeat None u) = CRaise.
Proof.
  intros N. assert (E : str_eqb p q = false).
  { destruct (str_eqb p q) eqn:E; [apply str_eqb_eq in E; contradiction|reflexivity]. }
  rewrite !py_cmp_expected. unfold cmp_expected, seqid_eq. rewrite E. repeat split.
Qed.

(* ------------------------------------------------------------------ overlaps *)
Lemma overlaps_sym t u : lt_overlaps t u = lt_overlaps u t.
Proof. unfold lt_overlaps. destruct (range t), (range u). lia. Qed.
(* overlaps() answers for LocationTuple.overlaps(LocationTuple), Feature.overlaps(Feature) and Feature.overlaps(LocationTuple)
   only (LocationTuple.overlaps(Feature) is a TypeError), always with the intersection test of the covered ranges; where both
   directions answer they agree *)
Lemma overlaps_table x y :
  (forall b, overlaps_call x y = Some (CVal b) ->
     exists t u, locs_of x = Some t /\ locs_of y = Some u /\ b = lt_overlaps t u /\
                 match x, y with OpTuple _, OpFeat _ _ => False | _, _ => True end) /\
  (forall t u, locs_of x = Some t -> locs_of y = Some u ->
     match x, y with OpTuple _, OpFeat _ _ => overlaps_call x y = Some CRaise | _, _ => overlaps_call x y = Some (CVal (lt_overlaps t u)) end) /\
  (locs_of x <> None -> locs_of y = None -> overlaps_call x y = Some CRaise) /\
  (forall b b', overlaps_call x y = Some (CVal b) -> overlaps_call y x = Some (CVal b') -> b = b').
Proof.
  repeat split.
  - intros b H. destruct x as [t|sx t| | |], y as [u|sy u| | |]; cbn in H |- *; try discriminate;
      exists t, u; repeat split; congruence.
  - intros t u H1 H2. destruct x as [t'|sx t'| | |], y as [u'|sy u'| | |]; cbn in H1, H2 |- *; try discriminate;
      inversion H1; inversion H2; subst; reflexivity.
  - intros H1 H2. destruct x as [t|sx t| | |], y as [u|sy u| | |]; cbn in H1, H2 |- *; try discriminate; try congruence; reflexivity.
  - intros b b' H1 H2. destruct x as [t|sx t| | |], y as [u|sy u| | |]; cbn in H1, H2; try discriminate;
      inversion H1; inversion H2; subst; apply overlaps_sym.
Qed.

(* ------------------------------------------------------------------ Location(start, stop): kinds of coordinate values *)
Lemma location_args_spec a b :
  (forall x y, location_args a b = LAccept x y <-> twice a = Some x /\ twice b = Some y /\ x < y) /\
  (location_args a b = LTypeError <-> a = KNone \/ b = KNone) /\
  (location_args a b = LValueError <-> exists x y, twice a = Some x /\ twice b = Some y /\ x >= y).
Proof.
  unfold location_args. split; [|split].
  - intros x y. split.
    + intros H. destruct (twice a) as [p|], (twice b) as [q|]; try discriminate.
      destruct (p >=? q) eqn:E; [discriminate|]. inversion H; subst. repeat split. lia.
    + intros (A & B & C). rewrite A, B. assert (E : (x >=? y) = false) by lia. rewrite E. reflexivity.
  - split.
    + intros H. destruct a, b; cbn in H |- *; try (destruct (_ >=? _); discriminate); auto.
    + intros [H|H]; subst; [reflexivity|]. destruct (twice a); reflexivity.
  - split.
    + intros H. destruct (twice a) as [p|], (twice b) as [q|]; try discriminate.
      destruct (p >=? q) eqn:E; [|discriminate]. exists p, q. repeat split. lia.
    + intros (x & y & A & B & C). rewrite A, B. assert (E : (x >=? y) = true) by lia. rewrite E. reflexivity.
Qed.
(* integer-valued arguments of any kind (int, bool, numpy int, integral float) are accepted exactly when the modelled
   constructor accepts the integers, and then denote those integers *)
Lemma location_args_int a b za zb s d m : int_value a = Some za -> int_value b = Some zb -> is_strand s = true ->
  twice a = Some (2 * za) /\ twice b = Some (2 * zb) /\
  (location_args a b = LAccept (2 * za) (2 * zb) <-> mk_location za zb s d m = Some (mkLoc za zb s d m)) /\
  (location_args a b = LValueError <-> mk_location za zb s d m = None).
Proof.
  intros A B S.
  assert (TA : twice a = Some (2 * za)).
  { destruct a as [z|[|]|z|z|]; cbn [int_value twice] in A |- *; try (inversion A; subst; reflexivity); try discriminate.
    destruct (Z.even z) eqn:E; [|discriminate]. inversion A; subst. f_equal.
    apply Z.even_spec in E. destruct E as [k ->]. rewrite (Z.mul_comm 2 k), Z.div_mul by lia. lia. }
  assert (TB : twice b = Some (2 * zb)).
  { destruct b as [z|[|]|z|z|]; cbn [int_value twice] in B |- *; try (inversion B; subst; reflexivity); try discriminate.
    destruct (Z.even z) eqn:E; [|discriminate]. inversion B; subst. f_equal.
    apply Z.even_spec in E. destruct E as [k ->]. rewrite (Z.mul_comm 2 k), Z.div_mul by lia. lia. }
  split; [exact TA|]. split; [exact TB|]. unfold location_args, mk_location. rewrite TA, TB, S.
  destruct (2 * za >=? 2 * zb) eqn:E1, (za >=? zb) eqn:E2; try lia; split; split; intros H; try discriminate; reflexivity.
Qed.

(* ------------------------------------------------------------------ non-vacuity of the round-6 theorems *)
Lemma ex_round6_ok :
  wf_fts [ex_feature] = true /\ forallb ft_stranded [ex_feature] = true /\
  slice (Some 3) (Some 12) 3 [ex_feature] = Some ex_sliced /\
  slice (Some 1) (Some 5) 1 ex_sliced = slice (Some (win_lo 3 1 3)) (Some (win_hi 12 5 3)) (3 + 1) [ex_feature] /\
  slice (Some 1) (Some 5) 1 ex_sliced <> Some [] /\
  (exists m, fts_rc 20 [ex_feature] = Some m /\ fts_rc 9 ex_sliced = slice (Some (20 - 12)) (Some (20 - 3)) (20 - 9 - 3) m /\ fts_rc 9 ex_sliced <> Some []) /\
  cmp_accepts CLt (OpFeat None (flocs ex_feature)) (OpTuple (flocs ex_feature)) = true /\
  py_cmp CGt (OpFeat (Some [x61]) (flocs ex_feature)) (OpFeat (Some [x62]) (flocs ex_feature)) = CVal false /\
  location_args (KBool false) (KHalf 3) = LAccept 0 3 /\ int_value (KHalf 4) = Some 2.
Proof.
  split; [reflexivity|]. split; [reflexivity|]. split; [vm_compute; reflexivity|]. split; [vm_compute; reflexivity|].
  split; [vm_compute; discriminate|]. split.
  - eexists. split; [vm_compute; reflexivity|]. split; [vm_compute; reflexivity|vm_compute; discriminate].
  - repeat split; vm_compute; reflexivity.
Qed.
