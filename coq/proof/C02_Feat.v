(* C02 proofs, part 7: the lines written for one feature (one per location) and what the reader makes of each. *)
From Coq Require Import List ZArith NArith Bool Lia.
From Coq.Strings Require Import Byte.
Import ListNotations.
From SV Require Import Text G_gff C02_Model C02_Lemmas C02_Line C02_Score C02_Dict.
Local Open Scope Z_scope.

(* ------------------------------------------------------------------ well-formed merged dicts *)
Definition mentry_ok (kv : str * aval) : bool :=
  if str_eqb (fst kv) k_type then type_ok (snd kv) else gff_entry_ok kv.
Definition mdict_ok (d : adict) : bool := forallb mentry_ok d && keys_unique d.
Definition g0 (ft : feat) : adict :=
  fold_left (fun g p => match aget (snd p) (fmeta ft) with Some v => aset (fst p) v g | None => g end) copyattrs (getgff ft).

Lemma gff_to_m kv : gff_entry_ok kv = true -> mentry_ok kv = true.
Proof.
  destruct kv as [k v]. unfold mentry_ok. cbn [fst snd]. destruct (str_eqb k k_type) eqn:E; [|auto].
  apply str_eqb_eq in E. subst k. cbn. discriminate.
Qed.
Lemma copy_pair_ok p v k' : In p copyattrs -> str_eqb k' (fst p) = true -> meta_entry_ok (snd p, v) = true -> mentry_ok (k', v) = true.
Proof.
  intros Hin E. apply str_eqb_eq in E. subst k'. unfold copyattrs in Hin. cbn in Hin.
  repeat (destruct Hin as [<-|Hin]; [cbn; intros H; try exact H; try (rewrite H; reflexivity)|]); [contradiction].
Qed.
Lemma fold_inv {A B} (Q : A -> Prop) (step : A -> B -> A) l :
  (forall g p, In p l -> Q g -> Q (step g p)) -> forall g, Q g -> Q (fold_left step l g).
Proof.
  induction l as [|p l IH]; intros H g Qg; [exact Qg|]. cbn [fold_left]. apply IH.
  - intros g' p' Hin. apply H. right. exact Hin.
  - apply H; [left; reflexivity|exact Qg].
Qed.
Lemma feat_ok_parts ft : feat_ok ft = true ->
  forallb meta_entry_ok (fmeta ft) = true /\ keys_unique (fmeta ft) = true /\ gff_ok (getgff ft) = true /\
  flocs ft <> [] /\ forallb loc_ok (flocs ft) = true /\ one_strand (flocs ft) = true.
Proof.
  unfold feat_ok. rewrite !andb_true_iff. intros [[[[[[A B] C] D] E] F] _]. repeat split; try assumption.
  - unfold getgff. destruct (fgff ft); [exact C|reflexivity].
  - intros N. rewrite N in D. discriminate D.
Qed.
Lemma g0_ok ft : feat_ok ft = true -> mdict_ok (g0 ft) = true.
Proof.
  intros W. destruct (feat_ok_parts ft W) as [Hm [_ [Hg _]]]. unfold g0.
  apply (fold_inv (fun g => mdict_ok g = true)).
  - intros g p Hin Q. destruct (aget (snd p) (fmeta ft)) as [v|] eqn:E; [|exact Q].
    unfold mdict_ok in *. apply andb_prop in Q. destruct Q as [Q1 Q2]. rewrite (keys_unique_aset _ _ _ Q2), andb_true_r.
    apply forallb_aset; [|exact Q1]. intros k' Ek. apply (copy_pair_ok p v k' Hin Ek).
    apply aget_In in E. rewrite forallb_forall in Hm. apply Hm. exact E.
  - unfold mdict_ok, gff_ok in *. apply andb_prop in Hg. destruct Hg as [H1 H2]. rewrite H2, andb_true_r.
    apply (forallb_impl gff_entry_ok); [apply gff_to_m|exact H1].
Qed.
Lemma merged_is_g0 ft : feat_ok ft = true -> merged_gff ft = g0 ft.
Proof.
  intros W. unfold feat_ok in W. rewrite !andb_true_iff in W. destruct W as [_ W].
  unfold merged_gff, merged_gff_r in *. fold (g0 ft) in *.
  destruct (Nat.ltb 1 (length (flocs ft))) eqn:L; [|reflexivity].
  destruct (aget k_ID (g0 ft)) eqn:G; [reflexivity|]. cbn [negb andb] in *.
  apply Nat.ltb_lt in L. apply orb_prop in W. destruct W as [W|W]; [apply Nat.leb_le in W; lia|].
  rewrite aget_aset_same in W. rewrite str_eqb_refl in W. discriminate W.
Qed.
Lemma multi_has_id ft : feat_ok ft = true -> (1 < length (flocs ft))%nat -> exists v, aget k_ID (g0 ft) = Some v.
Proof.
  intros W L. pose proof (merged_is_g0 ft W) as M. unfold feat_ok in W. rewrite !andb_true_iff in W. destruct W as [_ W].
  rewrite M in W. apply orb_prop in W. destruct W as [W|W]; [apply Nat.leb_le in W; lia|].
  destruct (aget k_ID (g0 ft)) as [v|]; [exists v; reflexivity|discriminate W].
Qed.

(* ------------------------------------------------------------------ reading typed entries *)
Definition ocol (k : str) (m : adict) : option str := match aget k m with Some (AS s) => Some s | _ => None end.
Definition oscore (m : adict) : option str := match aget k_score m with Some (AF t) => Some t | _ => None end.
Definition ophase (m : adict) : option Z := match aget k_phase m with Some (AI z) => Some z | _ => None end.
Lemma mdict_entry m k v : mdict_ok m = true -> aget k m = Some v -> mentry_ok (k, v) = true.
Proof.
  intros M G. unfold mdict_ok in M. apply andb_prop in M. destruct M as [M _]. rewrite forallb_forall in M. apply M. apply aget_In. exact G.
Qed.
Lemma me_seqid v : mentry_ok (k_seqid, v) = colstr_ok v. Proof. reflexivity. Qed.
Lemma me_source v : mentry_ok (k_source, v) = colstr_ok v. Proof. reflexivity. Qed.
Lemma me_type v : mentry_ok (k_type, v) = type_ok v. Proof. reflexivity. Qed.
Lemma me_score v : mentry_ok (k_score, v) = score_ok v. Proof. reflexivity. Qed.
Lemma me_phase v : mentry_ok (k_phase, v) = phase_ok v. Proof. reflexivity. Qed.
Lemma colstr_inv v : colstr_ok v = true -> exists s, v = AS s /\ s <> [] /\ str_eqb s dot = false.
Proof.
  destruct v as [s| | |]; unfold colstr_ok; try discriminate. rewrite !andb_true_iff, !negb_true_iff. intros [[_ E1] E2].
  exists s. repeat split; [|exact E2]. intros N. subst s. discriminate E1.
Qed.
Lemma m_seqid m : mdict_ok m = true -> aget k_seqid m = option_map AS (ocol k_seqid m) /\ colv_ok (ocol k_seqid m).
Proof.
  intros M. unfold ocol. destruct (aget k_seqid m) as [v|] eqn:G; [|split; [reflexivity|exact I]].
  pose proof (mdict_entry m _ _ M G) as E. rewrite me_seqid in E. destruct (colstr_inv v E) as [s [-> [N D]]].
  split; [reflexivity|]. cbn. auto.
Qed.
Lemma m_source m : mdict_ok m = true -> aget k_source m = option_map AS (ocol k_source m) /\ colv_ok (ocol k_source m).
Proof.
  intros M. unfold ocol. destruct (aget k_source m) as [v|] eqn:G; [|split; [reflexivity|exact I]].
  pose proof (mdict_entry m _ _ M G) as E. rewrite me_source in E. destruct (colstr_inv v E) as [s [-> [N D]]].
  split; [reflexivity|]. cbn. auto.
Qed.
Lemma m_type m : mdict_ok m = true -> aget k_type m = option_map AS (ocol k_type m) /\
  match ocol k_type m with Some t => forallb type_char_ok t = true /\ t <> [] /\ str_eqb t dot = false | None => True end.
Proof.
  intros M. unfold ocol. destruct (aget k_type m) as [v|] eqn:G; [|split; [reflexivity|exact I]].
  pose proof (mdict_entry m _ _ M G) as E. rewrite me_type in E. destruct v as [s| | |]; unfold type_ok in E; try discriminate E.
  rewrite !andb_true_iff, !negb_true_iff in E. destruct E as [[E0 E1] E2]. split; [reflexivity|]. repeat split; try assumption.
  intros N. subst s. discriminate E1.
Qed.
Lemma m_score m : mdict_ok m = true -> aget k_score m = option_map AF (oscore m) /\
  match oscore m with Some t => forallb plainc t = true /\ float_ok t = true /\ str_eqb t dot = false | None => True end.
Proof.
  intros M. unfold oscore. destruct (aget k_score m) as [v|] eqn:G; [|split; [reflexivity|exact I]].
  pose proof (mdict_entry m _ _ M G) as E. rewrite me_score in E. destruct v as [|  |t|]; unfold score_ok in E; try discriminate E.
  split; [reflexivity|]. apply canon_float_ok. exact E.
Qed.
Lemma m_phase m : mdict_ok m = true -> aget k_phase m = option_map AI (ophase m).
Proof.
  intros M. unfold ophase. destruct (aget k_phase m) as [v|] eqn:G; [|reflexivity].
  pose proof (mdict_entry m _ _ M G) as E. rewrite me_phase in E. destruct v as [| | |z]; unfold phase_ok in E; try discriminate E. reflexivity.
Qed.

(* ------------------------------------------------------------------ pop5 *)
Lemma in_keys_apop_false k k' d : in_keys k d = false -> in_keys k (apop k' d) = false.
Proof. intros H. destruct (in_keys k (apop k' d)) eqn:E; [|reflexivity]. apply in_keys_apop_le in E. congruence. Qed.
Lemma pop5_nocol m : keys_unique m = true -> forallb (fun k => negb (in_keys k (pop5 m))) col_keys = true.
Proof.
  intros U. unfold pop5, pop3, col_keys. cbn [forallb].
  pose proof (keys_unique_apop k_seqid m U) as U1. pose proof (keys_unique_apop k_source _ U1) as U2.
  pose proof (keys_unique_apop k_type _ U2) as U3. pose proof (keys_unique_apop k_score _ U3) as U4.
  rewrite !andb_true_iff, !negb_true_iff. repeat split.
  - do 4 apply in_keys_apop_false. apply in_keys_apop_same. exact U.
  - do 3 apply in_keys_apop_false. apply in_keys_apop_same. exact U1.
  - do 1 apply in_keys_apop_false. apply in_keys_apop_same. exact U3.
  - apply in_keys_apop_same. exact U4.
  - do 2 apply in_keys_apop_false. apply in_keys_apop_same. exact U2.
Qed.
Lemma keys_unique_pop5 m : keys_unique m = true -> keys_unique (pop5 m) = true.
Proof. intros U. unfold pop5, pop3. repeat apply keys_unique_apop. exact U. Qed.
Lemma In_pop5 kv m : In kv (pop5 m) -> In kv m.
Proof. unfold pop5, pop3. intros H. repeat apply In_apop in H. exact H. Qed.
Lemma nocol_entry_plain kv : mentry_ok kv = true -> forallb (fun k => negb (str_eqb (fst kv) k)) col_keys = true ->
  plain_val_ok (snd kv) = true /\ key_ok (fst kv) = true.
Proof.
  destruct kv as [k v]. unfold mentry_ok, gff_entry_ok, col_keys. cbn [fst snd forallb].
  rewrite !andb_true_iff, !negb_true_iff. intros E [K1 [K2 [K3 [K4 [K5 _]]]]]. rewrite K5, K1, K2, K3, K4 in E.
  cbn [orb] in E. apply andb_prop in E. tauto.
Qed.
Lemma in_keys_false_In k d kv : in_keys k d = false -> In kv d -> str_eqb (fst kv) k = false.
Proof.
  intros H Hin. destruct (str_eqb (fst kv) k) eqn:E; [|reflexivity].
  assert (in_keys k d = true) as T by (apply existsb_exists; exists kv; auto). congruence.
Qed.
Lemma nocol_plain d : forallb mentry_ok d = true -> forallb (fun k => negb (in_keys k d)) col_keys = true -> plain_entries d = true.
Proof.
  intros M K. unfold plain_entries. apply forallb_forall. intros kv Hin. rewrite forallb_forall in M.
  apply (nocol_entry_plain kv (M kv Hin)). apply forallb_forall. intros k Hk. rewrite forallb_forall in K.
  specialize (K k Hk). apply negb_true_iff in K. apply negb_true_iff. apply (in_keys_false_In k d kv K Hin).
Qed.
Lemma pop5_mentries m : forallb mentry_ok m = true -> forallb mentry_ok (pop5 m) = true.
Proof. intros H. unfold pop5, pop3. repeat apply forallb_apop. exact H. Qed.
Lemma pop5_dline m : mdict_ok m = true ->
  plain_entries (pop5 m) = true /\ keys_unique (pop5 m) = true /\ forallb (fun k => negb (in_keys k (pop5 m))) col_keys = true.
Proof.
  intros M. unfold mdict_ok in M. apply andb_prop in M. destruct M as [M U].
  pose proof (pop5_nocol m U) as K. split; [|split; [apply keys_unique_pop5; exact U|exact K]].
  apply nocol_plain; [apply pop5_mentries; exact M|exact K].
Qed.
Lemma aget_pop3 k m : forallb (fun k' => negb (str_eqb k' k)) [k_seqid; k_source; k_type] = true -> aget k (pop3 m) = aget k m.
Proof.
  cbn [forallb]. rewrite !andb_true_iff, !negb_true_iff. intros [A [B [C _]]]. unfold pop3.
  rewrite !aget_apop_other by assumption. reflexivity.
Qed.

(* ------------------------------------------------------------------ one location, one line *)
Definition differs (base : adict) (kv : str * aval) : bool := negb (opt_aval_eqb (aget (fst kv) base) (snd kv)).
Definition dline_i (g : adict) (idv : aval) (l : loc) : adict :=
  aset k_ID idv (filter (differs (pop5 g)) (pop5 (loc_meta g l))).
Definition gl_of (g d : adict) (l : loc) : gline :=
  mkLine (ocol k_type g) (sid_back (ocol k_seqid g)) (mkLoc (lstart l) (lstop l) (lstrand l) None)
         (attrs_back d (ocol k_seqid g) (ocol k_source (loc_meta g l)) (oscore (loc_meta g l)) (ophase (loc_meta g l))).
Definition text_of (g : adict) (l : loc) (a : str) : str :=
  line_text (ocol k_seqid g) (ocol k_source (loc_meta g l)) (ocol k_type g) l (oscore (loc_meta g l)) (ophase (loc_meta g l)) a.

Lemma locmeta_ok g l : mdict_ok g = true -> loc_ok l = true -> mdict_ok (loc_meta g l) = true.
Proof.
  intros Mg Hl. unfold loc_meta. unfold loc_ok in Hl. destruct (lgff l) as [L|]; [|exact Mg].
  rewrite !andb_true_iff in Hl. destruct Hl as [_ [HL _]]. unfold gff_ok in HL. apply andb_prop in HL. destruct HL as [H1 H2].
  unfold mdict_ok in *. apply andb_prop in Mg. destruct Mg as [M1 M2]. rewrite (keys_unique_aupdate L g M2), andb_true_r.
  apply forallb_aupdate; [|exact M1]. intros k k' v Hin E. apply str_eqb_eq in E. subst k'. apply gff_to_m.
  rewrite forallb_forall in H1. apply H1. exact Hin.
Qed.

Lemma qcol_ok k g : aget k g = option_map AS (ocol k g) -> qcol k g = Some (colq (ocol k g)).
Proof. intros E. unfold qcol. rewrite E. destruct (ocol k g); reflexivity. Qed.

Lemma line_i g l d : mdict_ok g = true -> loc_ok l = true ->
  plain_entries d = true /\ keys_unique d = true /\ forallb (fun k => negb (in_keys k d)) col_keys = true ->
  exists a, attrstr d = Some a /\
    write_line_s (colq (ocol k_seqid g)) (sid_back (ocol k_type g)) l d (loc_meta g l)
      = Some (text_of g l a ++ nl) /\
    parse_line (text_of g l a) = Some (gl_of g d l).
Proof.
  intros Mg Hl Hd. pose proof (locmeta_ok g l Mg Hl) as Mm.
  destruct (m_seqid g Mg) as [_ C1]. destruct (m_source _ Mm) as [E2 C2]. destruct (m_type g Mg) as [_ C3].
  destruct (m_score _ Mm) as [S1 S2]. pose proof (m_phase _ Mm) as P1.
  unfold loc_ok in Hl. rewrite !andb_true_iff in Hl. destruct Hl as [[L1 L2] _]. apply Z.ltb_lt in L1.
  unfold write_line_s. rewrite (qcol_ok _ _ E2).
  apply (line_roundtrip (ocol k_seqid g) (ocol k_source (loc_meta g l)) (ocol k_type g) l d (pop3 (loc_meta g l))
           (oscore (loc_meta g l)) (ophase (loc_meta g l)) C1 C2 C3 (conj L1 L2) Hd).
  - split; [|exact S2]. rewrite aget_pop3 by reflexivity. exact S1.
  - rewrite aget_pop3 by reflexivity. exact P1.
Qed.

Lemma dline0_ok g : mdict_ok g = true ->
  plain_entries (pop5 g) = true /\ keys_unique (pop5 g) = true /\ forallb (fun k => negb (in_keys k (pop5 g))) col_keys = true.
Proof. apply pop5_dline. Qed.

Lemma dline_i_ok g idv l : mdict_ok g = true -> loc_ok l = true -> aget k_ID g = Some idv ->
  plain_entries (dline_i g idv l) = true /\ keys_unique (dline_i g idv l) = true /\
  forallb (fun k => negb (in_keys k (dline_i g idv l))) col_keys = true.
Proof.
  intros Mg Hl Hid. pose proof (locmeta_ok g l Mg Hl) as Mm. destruct (pop5_dline _ Mm) as [P [U K]].
  unfold dline_i. split; [|split].
  - unfold plain_entries. apply forallb_aset; [|apply forallb_filter; exact P].
    intros k' E. cbn [snd]. pose proof (mdict_entry g _ _ Mg Hid) as Q.
    apply (nocol_entry_plain (k_ID, idv) Q). reflexivity.
  - apply keys_unique_aset, keys_unique_filter, U.
  - apply forallb_forall. intros k Hk. rewrite forallb_forall in K. specialize (K k Hk). apply negb_true_iff in K.
    apply negb_true_iff. rewrite in_keys_aset.
    assert (str_eqb k_ID k = false) as N by (unfold col_keys in Hk; cbn in Hk; repeat (destruct Hk as [<-|Hk]; [reflexivity|]); contradiction).
    rewrite N, orb_false_r. destruct (in_keys k (filter _ _)) eqn:E; [|reflexivity]. apply in_keys_filter_le in E. congruence.
Qed.

(* ------------------------------------------------------------------ write_feat as a list of lines *)
Lemma copyattrs_last : copyattrs = firstn 6 copyattrs ++ [(k_type, k_type)].
Proof. reflexivity. Qed.
Lemma g0_type_meta ft : aget k_type (g0 ft) = None -> aget k_type (fmeta ft) = None.
Proof.
  unfold g0. rewrite copyattrs_last, fold_left_app. cbn [fold_left snd fst]. intros H.
  destruct (aget k_type (fmeta ft)) as [v|]; [|reflexivity]. rewrite aget_aset_same in H. discriminate H.
Qed.

Definition idv_of (g : adict) : aval := match aget k_ID g with Some v => v | None => AS random_id end.
Definition line_opts (g : adict) (l0 : loc) (rest : list loc) : list (option str) :=
  let c1 := colq (ocol k_seqid g) in let c3 := sid_back (ocol k_type g) in
  write_line_s c1 c3 l0 (pop5 g) g ::
  map (fun l => write_line_s c1 c3 l (dline_i g (idv_of g) l) (loc_meta g l)) rest.

Lemma write_feat_eq ft l0 rest : feat_ok ft = true -> normalised ft = true -> flocs ft = l0 :: rest ->
  write_feat ft = concat_opt (line_opts (g0 ft) l0 rest).
Proof.
  intros W Nm Hl. pose proof (g0_ok ft W) as Mg.
  unfold write_feat, write_feat_r. change (merged_gff_r random_id ft) with (merged_gff ft). rewrite (merged_is_g0 ft W), Hl.
  unfold normalised in Nm. rewrite Hl in Nm.
  assert (loc_meta (g0 ft) l0 = g0 ft) as E0 by (unfold loc_meta; destruct (lgff l0); [discriminate Nm|reflexivity]).
  rewrite E0. destruct (m_seqid _ Mg) as [E1 _]. destruct (m_type _ Mg) as [E3 C3].
  rewrite (qcol_ok _ _ E1), E3.
  destruct (ocol k_type (g0 ft)) as [t|] eqn:Ot; cbn [option_map].
  - destruct C3 as [_ [Nt _]]. assert (truthy (AS t) = true) as Tt by (destruct t; [congruence|reflexivity]).
    rewrite Tt. unfold line_opts, idv_of, dline_i, differs. rewrite Ot. cbn [py_str sid_back]. reflexivity.
  - rewrite (g0_type_meta ft E3). unfold line_opts, idv_of, dline_i, differs. rewrite Ot. cbn [sid_back]. reflexivity.
Qed.

(* ------------------------------------------------------------------ shape of a written line *)
Definition okc (c : byte) : bool := nws c || byte_eqb c c_tab.
Definition shape (t : str) : Prop :=
  startswith (bs "#"%bs) t = false /\ has x0a t = false /\ strip t = t /\ t <> [].
Lemma okc_no_nl s : forallb okc s = true -> has x0a s = false.
Proof.
  intros H. apply has_false_forall. intros x Hx E. subst x. rewrite forallb_forall in H. specialize (H _ Hx). discriminate H.
Qed.
Lemma nws_okc s : forallb nws s = true -> forallb okc s = true.
Proof. apply forallb_impl. intros x H. unfold okc. rewrite H. reflexivity. Qed.
Lemma plainc_okc s : forallb plainc s = true -> forallb okc s = true.
Proof. intros H. apply nws_okc. destruct (plainc_no s H) as [_ [_ W]]. exact W. Qed.
Lemma qchar_not_hash : forall c, qchar_ok c = true -> byte_eqb "#"%byte c = false.
Proof. intros c; destruct c; vm_compute; intros H; try discriminate H; reflexivity. Qed.
Lemma colq_shape o : colv_ok o -> forallb okc (colq o) = true /\ exists c r, colq o = c :: r /\ byte_eqb "#"%byte c = false.
Proof.
  intros H. destruct o as [s|]; cbn [colq].
  - split; [apply nws_okc, qchars_nws, quote_chars|]. destruct H as [N _].
    pose proof (quote_chars s) as Q. pose proof (quote_nonempty s N) as NE. destruct (quote s) as [|c r]; [congruence|].
    exists c, r. split; [reflexivity|]. cbn [forallb] in Q. apply andb_prop in Q. apply qchar_not_hash. tauto.
  - split; [reflexivity|]. exists "."%byte, []. split; reflexivity.
Qed.

Lemma line_text_shape sid src ty l sc ph a :
  colv_ok sid -> colv_ok src ->
  match ty with Some t => forallb type_char_ok t = true /\ t <> [] /\ str_eqb t dot = false | None => True end ->
  strand_ok (lstrand l) = true ->
  match sc with Some t => forallb plainc t = true /\ float_ok t = true /\ str_eqb t dot = false | None => True end ->
  a <> [] -> forallb nws a = true ->
  shape (line_text sid src ty l sc ph a).
Proof.
  intros H1 H2 H3 H4 H5 Na Wa.
  destruct (colq_shape sid H1) as [O1 [c [r [E1 Hc]]]]. destruct (colq_shape src H2) as [O2 _].
  assert (forallb okc (sid_back ty) = true) as O3
    by (destruct ty; [apply plainc_okc, (forallb_impl type_char_ok); [apply typec_plainc|tauto]|reflexivity]).
  assert (forallb okc (sid_back sc) = true) as O6 by (destruct sc; [apply plainc_okc; tauto|reflexivity]).
  assert (forallb okc (match ph with Some p => dec_of_Z p | None => dot end) = true) as O8
    by (destruct ph; [apply plainc_okc, dec_plain|reflexivity]).
  assert (forallb okc [lstrand l] = true) as O7 by (apply plainc_okc; cbn; rewrite (strand_plainc _ H4); reflexivity).
  pose proof (plainc_okc _ (dec_plain (lstart l + 1))) as O4. pose proof (plainc_okc _ (dec_plain (lstop l))) as O5.
  pose proof (nws_okc _ Wa) as O9.
  unfold shape, line_text, line9, T. repeat split.
  - rewrite E1. cbn [app startswith bs bytes_of_bstr]. rewrite Hc. reflexivity.
  - apply okc_no_nl. rewrite !forallb_app. pose proof O7 as O7b. cbn [forallb] in O7b. apply andb_prop in O7b. destruct O7b as [O7b _]. repeat (apply andb_true_intro; split); try reflexivity; try assumption; try exact O8.
  - apply strip_id.
    + rewrite E1. cbn [app starts_ok]. cbn [forallb] in O1. rewrite E1 in O1. cbn [forallb] in O1. apply andb_prop in O1. destruct O1 as [O1 _].
      unfold okc in O1. apply orb_prop in O1. destruct O1 as [O1|O1]; [exact O1|].
      exfalso. destruct (colq_props sid H1) as [T1 _]. unfold notab in T1. rewrite E1 in T1. cbn [has existsb] in T1.
      rewrite byte_eqb_sym, O1 in T1. discriminate T1.
    + rewrite !app_assoc. rewrite ends_ok_app by exact Na. apply ends_ok_all. exact Wa.
  - rewrite E1. discriminate.
Qed.

Lemma text_shape g l d a : mdict_ok g = true -> loc_ok l = true -> plain_entries d = true -> attrstr d = Some a -> shape (text_of g l a).
Proof.
  intros Mg Hl Pd Ha. pose proof (locmeta_ok g l Mg Hl) as Mm.
  destruct (m_seqid g Mg) as [_ C1]. destruct (m_source _ Mm) as [_ C2]. destruct (m_type g Mg) as [_ C3].
  destruct (m_score _ Mm) as [_ S2]. destruct (attrstr_props d a Pd Ha) as [Na [_ Wa]].
  unfold loc_ok in Hl. rewrite !andb_true_iff in Hl. destruct Hl as [[_ L2] _].
  apply line_text_shape; assumption.
Qed.

(* ------------------------------------------------------------------ all lines of a feature *)
Definition glines (g : adict) (l0 : loc) (rest : list loc) : list gline :=
  gl_of g (pop5 g) l0 :: map (fun l => gl_of g (dline_i g (idv_of g) l) l) rest.
Definition line_ok (t : str) (gl : gline) : Prop := parse_line t = Some gl /\ shape t.

Lemma concat_opt_some (opts : list (option str)) (texts : list str) :
  Forall2 (fun o t => o = Some (t ++ nl)) opts texts -> concat_opt opts = Some (concat (map (fun t => t ++ nl) texts)).
Proof.
  induction 1 as [|o t opts texts H _ IH]; [reflexivity|]. subst o. cbn [concat_opt map concat]. rewrite IH. reflexivity.
Qed.

Theorem feat_lines ft l0 rest : feat_ok ft = true -> normalised ft = true -> flocs ft = l0 :: rest ->
  exists texts, write_feat ft = Some (concat (map (fun t => t ++ nl) texts)) /\
                Forall2 line_ok texts (glines (g0 ft) l0 rest).
Proof.
  intros W Nm Hl. pose proof (g0_ok ft W) as Mg. destruct (feat_ok_parts ft W) as [_ [_ [_ [_ [Hlocs _]]]]].
  rewrite Hl in Hlocs. cbn [forallb] in Hlocs. apply andb_prop in Hlocs. destruct Hlocs as [Hl0 Hrest].
  rewrite (write_feat_eq ft l0 rest W Nm Hl).
  destruct (line_i (g0 ft) l0 (pop5 (g0 ft)) Mg Hl0 (dline0_ok _ Mg)) as [a0 [A0 [W0 P0]]].
  pose proof (text_shape _ l0 _ a0 Mg Hl0 (proj1 (dline0_ok _ Mg)) A0) as S0.
  assert (rest <> [] -> aget k_ID (g0 ft) = Some (idv_of (g0 ft))) as Hid.
  { intros NE. destruct (multi_has_id ft W) as [v Hv]; [rewrite Hl; destruct rest; [congruence|cbn; lia]|].
    unfold idv_of. rewrite Hv. reflexivity. }
  assert (exists ts, Forall2 (fun o t => o = Some (t ++ nl))
             (map (fun l => write_line_s (colq (ocol k_seqid (g0 ft))) (sid_back (ocol k_type (g0 ft)))
                                         l (dline_i (g0 ft) (idv_of (g0 ft)) l) (loc_meta (g0 ft) l)) rest) ts /\
           Forall2 line_ok ts (map (fun l => gl_of (g0 ft) (dline_i (g0 ft) (idv_of (g0 ft)) l) l) rest)) as [ts [F1 F2]].
  { clear Hl. induction rest as [|l r IH]; [exists []; split; constructor|].
    cbn [forallb] in Hrest. apply andb_prop in Hrest. destruct Hrest as [Hl1 Hr].
    assert (aget k_ID (g0 ft) = Some (idv_of (g0 ft))) as Hv by (apply Hid; discriminate).
    destruct (IH Hr (fun _ => Hv)) as [ts [F1 F2]].
    pose proof (dline_i_ok _ _ l Mg Hl1 Hv) as Dk.
    destruct (line_i (g0 ft) l _ Mg Hl1 Dk) as [a [A [Wl Pl]]].
    exists (text_of (g0 ft) l a :: ts). split; cbn [map]; constructor; try assumption.
    split; [exact Pl|]. apply (text_shape _ l _ a Mg Hl1 (proj1 Dk) A). }
  exists (text_of (g0 ft) l0 a0 :: ts). split.
  - apply concat_opt_some. unfold line_opts. constructor; [|exact F1].
    assert (loc_meta (g0 ft) l0 = g0 ft) as E0.
    { unfold normalised in Nm. rewrite Hl in Nm. unfold loc_meta. destruct (lgff l0); [discriminate Nm|reflexivity]. }
    rewrite E0 in W0 at 1. exact W0.
  - unfold glines. constructor; [split; assumption|exact F2].
Qed.
