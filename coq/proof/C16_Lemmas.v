(* C16 proofs *)
From Coq Require Import List ZArith NArith Bool Lia Permutation Sorted.
From Coq.Strings Require Import Byte.
Import ListNotations.
From SV Require Import Text C16_StableSort C16_Model.

(* ------------------------------------------------------------------ order facts *)
Ltac zlt := repeat match goal with
  | |- context [Z.ltb ?x ?y] => destruct (Z.ltb_spec x y)
  | H : context [Z.ltb ?x ?y] |- _ => destruct (Z.ltb_spec x y)
  end.

Lemma str_ltb_asym a : forall b, str_ltb a b = true -> str_ltb b a = false.
Proof.
  induction a as [|x a IH]; intros [|y b]; cbn [str_ltb]; intros H; try reflexivity; try discriminate.
  zlt; try discriminate; try reflexivity; try lia. apply IH, H.
Qed.
Lemma str_ltb_negtrans a : forall b c, str_ltb a c = true -> str_ltb a b = true \/ str_ltb b c = true.
Proof.
  induction a as [|x a IH]; intros [|y b] [|z c]; cbn [str_ltb]; intros H; try discriminate; auto.
  zlt; auto; try discriminate; try lia.
Qed.
Lemma pv_eqb_eq a b : pv_eqb a b = true <-> a = b.
Proof.
  destruct a, b; cbn; split; intros H; try discriminate; try reflexivity; try congruence.
  - apply Z.eqb_eq in H. congruence.
  - inversion H. apply Z.eqb_refl.
  - apply str_eqb_eq in H. congruence.
  - inversion H. apply str_eqb_refl.
Qed.
Lemma pv_eqb_refl a : pv_eqb a a = true.
Proof. apply pv_eqb_eq. reflexivity. Qed.
Lemma pv_eqb_sym a b : pv_eqb a b = pv_eqb b a.
Proof.
  destruct (pv_eqb a b) eqn:E.
  - apply pv_eqb_eq in E. subst. symmetry. apply pv_eqb_refl.
  - destruct (pv_eqb b a) eqn:E2; [|reflexivity]. apply pv_eqb_eq in E2. subst. rewrite pv_eqb_refl in E. discriminate.
Qed.
Lemma pv_ltb_asym a b : pv_ltb a b = true -> pv_ltb b a = false.
Proof.
  destruct a, b; cbn; intros H; try reflexivity; try discriminate.
  - zlt; try reflexivity; try discriminate; lia.
  - apply str_ltb_asym, H.
Qed.
Lemma pv_ltb_negtrans a b c : pv_ltb a c = true -> pv_ltb a b = true \/ pv_ltb b c = true.
Proof.
  destruct a, b, c; cbn; intros H; auto; try discriminate.
  - zlt; auto; lia.
  - apply str_ltb_negtrans, H.
Qed.
Lemma pv_ltb_irrefl a : pv_ltb a a = false.
Proof. destruct (pv_ltb a a) eqn:E; [|reflexivity]. pose proof (pv_ltb_asym _ _ E). congruence. Qed.

(* a strict weak order given as lt yields the preorder  le x y := negb (lt y x) *)
Lemma preorder_of_lt {A} (lt : A -> A -> bool) :
  (forall a b, lt a b = true -> lt b a = false) ->
  (forall a b c, lt a c = true -> lt a b = true \/ lt b c = true) ->
  preorder (fun x y => negb (lt y x)).
Proof.
  intros Has Hnt. split.
  - intros x y. destruct (lt y x) eqn:E; [right|left; reflexivity]. rewrite (Has _ _ E). reflexivity.
  - intros x y z H1 H2. apply negb_true_iff in H1, H2. apply negb_true_iff.
    destruct (lt z x) eqn:E; [|reflexivity]. destruct (Hnt _ y _ E); congruence.
Qed.

Lemma rng_ltb_asym x y : rng_ltb x y = true -> rng_ltb y x = false.
Proof.
  unfold rng_ltb. destruct (rng x) as [s e], (rng y) as [s2 e2]. intros H.
  destruct (Z.ltb_spec s s2), (Z.ltb_spec s2 s), (Z.eqb_spec s s2), (Z.eqb_spec s2 s), (Z.ltb_spec e e2), (Z.ltb_spec e2 e);
    cbn in *; try reflexivity; try discriminate; lia.
Qed.
Lemma rng_ltb_negtrans x y z : rng_ltb x z = true -> rng_ltb x y = true \/ rng_ltb y z = true.
Proof.
  unfold rng_ltb. destruct (rng x) as [s e], (rng y) as [s2 e2], (rng z) as [s3 e3]. intros H.
  destruct (Z.ltb_spec s s3), (Z.eqb_spec s s3), (Z.ltb_spec e e3), (Z.ltb_spec s s2), (Z.eqb_spec s s2), (Z.ltb_spec e e2),
    (Z.ltb_spec s2 s3), (Z.eqb_spec s2 s3), (Z.ltb_spec e2 e3); cbn in *; auto; try discriminate; lia.
Qed.

Lemma elem_ltb_asym x y : elem_ltb x y = true -> elem_ltb y x = false.
Proof.
  unfold elem_ltb. destruct (efeat x), (efeat y); try (intros; reflexivity); try discriminate.
  - rewrite (pv_eqb_sym (mget k_seqid y)). destruct (pv_eqb (mget k_seqid x) (mget k_seqid y)); cbn [negb].
    + apply rng_ltb_asym.
    + apply pv_ltb_asym.
  - apply pv_ltb_asym.
Qed.
Lemma bz_inj c d : bz c = bz d -> c = d.
Proof.
  unfold bz. intros H. assert (Hc : Byte.to_N c = Byte.to_N d) by lia.
  pose proof (Byte.of_to_N c) as H1. pose proof (Byte.of_to_N d) as H2. rewrite Hc in H1. congruence.
Qed.
Lemma str_ltb_total a : forall b, str_eqb a b = false -> str_ltb a b = true \/ str_ltb b a = true.
Proof.
  induction a as [|x a IH]; intros [|y b]; cbn [str_eqb str_ltb]; intros H; try discriminate; auto.
  zlt; auto. assert (x = y) by (apply bz_inj; lia). subst. rewrite byte_eqb_refl in H. cbn in H. apply IH, H.
Qed.
Lemma pv_ltb_total a b : pv_eqb a b = false -> pv_ltb a b = true \/ pv_ltb b a = true.
Proof.
  destruct a, b; cbn; intros H; auto; try discriminate.
  - destruct (Z.eqb_spec z z0); [discriminate|]. zlt; auto. lia.
  - apply str_ltb_total, H.
Qed.
Lemma elem_ltb_negtrans x y z : elem_ltb x z = true -> elem_ltb x y = true \/ elem_ltb y z = true.
Proof.
  unfold elem_ltb. destruct (efeat x), (efeat y), (efeat z); auto; try discriminate.
  - generalize (mget k_seqid x) (mget k_seqid y) (mget k_seqid z). intros sx sy sz.
    destruct (pv_eqb sx sz) eqn:Exz, (pv_eqb sx sy) eqn:Exy, (pv_eqb sy sz) eqn:Eyz; cbn [negb];
      repeat match goal with H : pv_eqb _ _ = true |- _ => apply pv_eqb_eq in H; subst end;
      rewrite ?pv_eqb_refl in *; try discriminate; intros H;
      first [ apply rng_ltb_negtrans, H | apply pv_ltb_negtrans, H | left; exact H | right; exact H
            | apply pv_ltb_total; assumption | apply pv_ltb_total; rewrite pv_eqb_sym; assumption ].
  - apply pv_ltb_negtrans.
Qed.

Lemma key_le_preorder k : preorder (key_le k).
Proof.
  destruct (match k with KDefault => true | _ => false end) eqn:D.
  - destruct k; try discriminate. apply (preorder_of_lt elem_ltb); [apply elem_ltb_asym | apply elem_ltb_negtrans].
  - assert (E : key_le k = fun x y => negb (pv_ltb (keyval k y) (keyval k x))) by (destruct k; try reflexivity; discriminate).
    rewrite E. apply (preorder_of_lt (fun x y => pv_ltb (keyval k x) (keyval k y))).
    + intros a b. apply pv_ltb_asym.
    + intros a b c. apply pv_ltb_negtrans.
Qed.
Lemma dir_preorder r k : preorder (dir r (key_le k)).
Proof. destruct r; cbn [dir]; [apply flip_preorder|]; apply key_le_preorder. Qed.
Lemma lexle_preorder kfs r : preorder (lexle kfs r).
Proof.
  induction kfs as [|k kfs IH]; cbn [lexle fold_right]; [apply le_true_preorder|].
  apply lex_preorder; [apply dir_preorder|exact IH].
Qed.

(* ------------------------------------------------------------------ sort *)
(* the loop over the keys (last key first) of stable sorts IS the stable sort by the lexicographic key-tuple order *)
Lemma sorted_by_lex kfs r objs : sorted_by kfs r objs = isort (lexle kfs r) objs.
Proof.
  unfold sorted_by. revert objs. induction kfs as [|k kfs IH]; intros objs.
  - cbn. symmetry. apply isort_le_true.
  - cbn [rev]. rewrite fold_left_app. cbn [fold_left]. rewrite IH. unfold py_sorted.
    cbn [lexle fold_right]. apply isort_radix; [apply dir_preorder | apply lexle_preorder].
Qed.
Lemma sort_spec ks r objs :
  let le := lexle (keyfuncs ks) r in
  m_sort ks r objs = isort le objs /\
  Permutation (m_sort ks r objs) objs /\
  StronglySorted (fun x y => le x y = true) (m_sort ks r objs) /\
  (forall a, filter (eqv le a) (m_sort ks r objs) = filter (eqv le a) objs).
Proof.
  intros le. unfold m_sort. rewrite sorted_by_lex. fold le.
  pose proof (lexle_preorder (keyfuncs ks) r) as P. fold le in P.
  repeat split.
  - apply isort_perm.
  - apply isort_sorted, P.
  - intros a. apply isort_stable, P.
Qed.
(* what the order means: first key decides, ties go to the remaining keys; reverse flips every key *)
Lemma lexle_unfold k kfs r x y :
  lexle (k :: kfs) r x y =
  (if dir r (key_le k) x y then (if dir r (key_le k) y x then lexle kfs r x y else true) else false).
Proof. reflexivity. Qed.
Lemma key_le_meaning k x y : k <> KDefault -> key_le k x y = negb (pv_ltb (keyval k y) (keyval k x)).
Proof. destruct k; intros H; try reflexivity. congruence. Qed.

(* ------------------------------------------------------------------ filter *)
Lemma filter_m_ok f l : forallb (fun x => is_ok (f x)) l = true ->
  filter_m f l = Ok (filter (fun x => match f x with Ok b => b | Err _ => false end) l).
Proof.
  induction l as [|x r IH]; cbn [forallb filter_m filter]; intros H; [reflexivity|].
  apply andb_prop in H. destruct H as [H1 H2]. rewrite (IH H2).
  destruct (f x) as [b|e]; [|discriminate]. destruct b; reflexivity.
Qed.
Lemma forallb_filter {A} (p q : A -> bool) l : forallb p l = true -> forallb p (filter q l) = true.
Proof.
  intros H. apply forallb_forall. intros x Hx. apply filter_In in Hx. rewrite forallb_forall in H. apply H, Hx.
Qed.
Lemma filter_filter {A} (p q : A -> bool) l : filter q (filter p l) = filter (fun x => p x && q x) l.
Proof.
  induction l as [|x r IH]; [reflexivity|]. cbn [filter]. destruct (p x); cbn [filter andb]; rewrite IH; reflexivity.
Qed.
Lemma cond_ok_sub objs objs' c : (forall x, In x objs' -> In x objs) -> cond_ok objs c = true -> cond_ok objs' c = true.
Proof.
  unfold cond_ok. intros Hsub. destruct (parse_cond c) as [[key o]|e]; [|discriminate].
  intros H. apply andb_prop in H. destruct H as [H1 H2]. rewrite H1. cbn [andb].
  apply forallb_forall. intros x Hx. rewrite forallb_forall in H2. apply H2, Hsub, Hx.
Qed.
Lemma m_filter_spec conds : forall objs, forallb (cond_ok objs) conds = true ->
  m_filter conds objs = Ok (filter (holds_all conds) objs).
Proof.
  induction conds as [|c r IH]; intros objs H.
  - cbn. f_equal. clear H. induction objs as [|x l IHl]; [reflexivity|]. cbn. f_equal. exact IHl.
  - cbn [forallb] in H. apply andb_prop in H. destruct H as [Hc Hr]. cbn [m_filter].
    pose proof Hc as Hc'. unfold cond_ok in Hc'. destruct (parse_cond c) as [[key o]|e] eqn:P; [|discriminate].
    apply andb_prop in Hc'. destruct Hc' as [_ Hall].
    rewrite (filter_m_ok _ _ Hall). fold (holds c).
    rewrite IH.
    + f_equal. rewrite filter_filter. apply filter_ext. intros x. reflexivity.
    + apply forallb_forall. intros c' Hc'. rewrite forallb_forall in Hr.
      apply (cond_ok_sub objs); [|apply Hr, Hc']. intros x Hx. apply filter_In in Hx. apply Hx.
Qed.
Lemma filter_method_spec inplace conds objs : forallb (cond_ok objs) conds = true ->
  m_filter_method inplace conds objs =
  Ok (filter (holds_all conds) objs, if inplace then filter (holds_all conds) objs else objs).
Proof. intros H. unfold m_filter_method. rewrite (m_filter_spec _ _ H). reflexivity. Qed.
Lemma filter_aliases :
  assoc (bs "max"%bs) op_table = assoc (bs "le"%bs) op_table /\
  assoc (bs "min"%bs) op_table = assoc (bs "ge"%bs) op_table /\
  assoc (bs "in"%bs) op_table = Some OIn /\ assoc (bs "lowerin"%bs) op_table = Some OLowerin /\
  assoc (bs "lowereq"%bs) op_table = Some OLowereq /\
  (forall a v, apply_op OLowerin (PStr a) v = apply_op OIn (PStr (lower a)) v) /\
  (forall a v, apply_op OLowereq (PStr a) v = apply_op OEq (PStr (lower a)) v).
Proof. repeat split. Qed.

(* ------------------------------------------------------------------ get / select *)
Lemma select_spec t fts : forallb type_ok fts = true ->
  m_select t fts = Ok (filter (matches t) fts) /\ m_get t fts = Ok (hd_error (filter (matches t) fts)).
Proof.
  intros H.
  assert (Hok : forallb (fun x => is_ok (type_matches t x)) fts = true).
  { apply forallb_forall. intros x Hx. rewrite forallb_forall in H. specialize (H x Hx).
    unfold type_ok in H. unfold type_matches. destruct (mget k_type x); try reflexivity; [discriminate| destruct t; reflexivity]. }
  split; [apply filter_m_ok, Hok|].
  induction fts as [|x r IH]; [reflexivity|]. cbn [forallb] in H, Hok.
  apply andb_prop in H, Hok. destruct H as [_ H']. destruct Hok as [Hx Hok'].
  cbn [m_get filter]. unfold matches at 1. destruct (type_matches t x) as [[|]|e]; [reflexivity|apply IH; assumption|discriminate].
Qed.
(* a feature without a type never matches and never makes get/select fail (F24) *)
Lemma typeless_skipped t x : mget k_type x = PNone -> type_matches t x = Ok false.
Proof. unfold type_matches. intros ->. reflexivity. Qed.

(* ------------------------------------------------------------------ set operators *)
Lemma setops_spec a b x :
  (In x (op_and a b) <-> In x a /\ mem x b = true) /\
  (In x (op_or a b) <-> In x a \/ (In x b /\ mem x a = false)) /\
  (In x (op_sub a b) <-> In x a /\ mem x b = false) /\
  (In x (op_xor a b) <-> In x (op_or a b) /\ mem x (op_and a b) = false).
Proof.
  assert (Hand : forall a b, In x (op_and a b) <-> In x a /\ mem x b = true).
  { intros a0 b0. unfold op_and. rewrite filter_In. reflexivity. }
  assert (Hsub : forall a b, In x (op_sub a b) <-> In x a /\ mem x b = false).
  { intros a0 b0. unfold op_sub. rewrite filter_In, negb_true_iff. reflexivity. }
  split; [apply Hand|]. split; [|split; [apply Hsub|unfold op_xor; apply Hsub]].
  unfold op_or. rewrite in_app_iff, filter_In, negb_true_iff. reflexivity.
Qed.
Lemma mem_spec x l : mem x l = true <-> exists y, In y l /\ elem_eqb x y = true.
Proof. apply existsb_exists. Qed.
(* every result keeps the order of a followed by b *)
Lemma setops_order a b :
  (exists p, op_and a b = filter p a) /\ (exists q, op_or a b = a ++ filter q b) /\ (exists p, op_sub a b = filter p a) /\
  (exists p q, op_xor a b = filter p a ++ filter q b).
Proof.
  repeat split; try (eexists; reflexivity).
  unfold op_xor, op_sub, op_or. eexists. eexists. rewrite filter_app, filter_filter. reflexivity.
Qed.
Lemma setops_forms a b :
  m_setop 8 a b = m_setop 0 a b /\ m_setop 9 a b = m_setop 1 a b /\ m_setop 10 a b = m_setop 2 a b /\
  m_setop 11 a b = m_setop 3 a b /\
  m_setop 4 a b = op_and b a /\ m_setop 5 a b = op_or b a /\ m_setop 6 a b = op_sub a b /\ m_setop 7 a b = op_xor b a /\
  m_setop 3 a b = op_sub (op_or a b) (op_and a b).
Proof. repeat split. Qed.

(* ------------------------------------------------------------------ groupby *)
(* a nested dict of uniform depth n with groups at the leaves *)
Fixpoint shaped (n : nat) (t : gtree) : Prop :=
  match n, t with
  | O, GLeaf _ => True
  | S n', GNode kids => Forall (fun kt => shaped n' (snd kt)) kids
  | _, _ => False
  end.
Lemma path_eqb_refl p : path_eqb p p = true.
Proof. induction p as [|a p IH]; [reflexivity|]. cbn. rewrite pv_eqb_refl. exact IH. Qed.
Lemma shaped_gempty q : shaped (length q) (gempty q).
Proof. destruct q; cbn; [exact I|constructor]. Qed.
Lemma glookup_gempty p q : glookup p (gempty q) = [].
Proof. destruct q, p; reflexivity. Qed.
Lemma pv_assoc_upd f mk k k2 kids :
  pv_assoc k2 (upd_kids f mk k kids) =
  if pv_eqb k k2 then Some (f (match pv_assoc k kids with Some t => t | None => mk end)) else pv_assoc k2 kids.
Proof.
  induction kids as [|[k' t] r IH]; cbn [upd_kids pv_assoc].
  - destruct (pv_eqb k k2); reflexivity.
  - destruct (pv_eqb k' k) eqn:E; cbn [pv_assoc].
    + apply pv_eqb_eq in E. subst k'. destruct (pv_eqb k k2); reflexivity.
    + rewrite IH. destruct (pv_eqb k k2) eqn:E2; [|reflexivity].
      apply pv_eqb_eq in E2. subst k2. rewrite E. reflexivity.
Qed.
Lemma shaped_upd n f mk k kids :
  (forall t, shaped n t -> shaped n (f t)) -> shaped n mk ->
  Forall (fun kt => shaped n (snd kt)) kids -> Forall (fun kt => shaped n (snd kt)) (upd_kids f mk k kids).
Proof.
  intros Hf Hmk. induction 1 as [|[k' t] r Ht Hr IH]; cbn [upd_kids].
  - constructor; [cbn; apply Hf, Hmk|constructor].
  - destruct (pv_eqb k' k); constructor; auto. cbn. apply Hf, Ht.
Qed.
Lemma shaped_ginsert q x : forall t, shaped (length q) t -> shaped (length q) (ginsert q x t).
Proof.
  induction q as [|k q IH]; intros [l|kids] H; cbn in H |- *; try contradiction; [exact I|].
  apply shaped_upd; [exact IH|apply shaped_gempty|exact H].
Qed.
Lemma pv_assoc_shaped n k kids t : Forall (fun kt => shaped n (snd kt)) kids -> pv_assoc k kids = Some t -> shaped n t.
Proof.
  induction 1 as [|[k' t'] r Ht Hr IH]; cbn [pv_assoc]; [discriminate|].
  destruct (pv_eqb k' k); [intros E; inversion E; subst; exact Ht|exact IH].
Qed.
Lemma glookup_ginsert q x : forall p t, length p = length q -> shaped (length q) t ->
  glookup p (ginsert q x t) = if path_eqb q p then glookup p t ++ [x] else glookup p t.
Proof.
  induction q as [|k q IH]; intros [|k2 p] [l|kids] Hlen Hs; cbn in Hlen, Hs; try discriminate; try contradiction.
  - reflexivity.
  - cbn [ginsert glookup path_eqb]. rewrite pv_assoc_upd.
    destruct (pv_eqb k k2) eqn:E; cbn [andb]; [|reflexivity].
    apply pv_eqb_eq in E. subst k2. injection Hlen as Hlen.
    destruct (pv_assoc k kids) as [t'|] eqn:A.
    + apply IH; [exact Hlen|]. eapply pv_assoc_shaped; eauto.
    + rewrite IH; [|exact Hlen|apply shaped_gempty]. rewrite glookup_gempty. reflexivity.
Qed.
Lemma keypath_length kfs x : length (keypath kfs x) = length kfs.
Proof. apply map_length. Qed.
Lemma group_fold kfs p : length p = length kfs -> forall objs t, shaped (length kfs) t ->
  glookup p (fold_left (fun t x => ginsert (keypath kfs x) x t) objs t) =
  glookup p t ++ filter (fun x => path_eqb (keypath kfs x) p) objs.
Proof.
  intros Hp. induction objs as [|x r IH]; intros t Hs; cbn [fold_left filter]; [symmetry; apply app_nil_r|].
  rewrite IH.
  - rewrite glookup_ginsert; rewrite ?keypath_length; auto.
    destruct (path_eqb (keypath kfs x) p); [rewrite <- app_assoc|]; reflexivity.
  - rewrite <- (keypath_length kfs x). apply shaped_ginsert. rewrite keypath_length. exact Hs.
Qed.
(* the group stored under a key path is exactly the elements with that key path, in input order *)
Lemma groupby_spec ks objs t p : m_groupby ks objs = Ok t -> length p = length (keyfuncs ks) ->
  glookup p t = filter (fun x => path_eqb (keypath (keyfuncs ks) x) p) objs.
Proof.
  unfold m_groupby. destruct objs as [|x0 r].
  - intros H _. inversion H. destruct p; reflexivity.
  - destruct (keyfuncs ks) as [|k kfs] eqn:K; [discriminate|].
    destruct (has_default (k :: kfs)); [discriminate|]. intros H Hp. inversion H. unfold group_by.
    rewrite group_fold; [|exact Hp|cbn; constructor].
    destruct p; [discriminate|]. reflexivity.
Qed.
(* groups are pairwise disjoint and jointly exhaustive: every element sits in the group of its own key path only *)
Lemma groupby_member ks objs t x p : m_groupby ks objs = Ok t -> length p = length (keyfuncs ks) ->
  (In x (glookup p t) <-> In x objs /\ path_eqb (keypath (keyfuncs ks) x) p = true).
Proof. intros H Hp. rewrite (groupby_spec _ _ _ _ H Hp). apply filter_In. Qed.
Lemma path_eqb_eq p q : path_eqb p q = true <-> p = q.
Proof.
  revert q. induction p as [|a p IH]; intros [|b q]; cbn; split; intros H; try discriminate; try reflexivity.
  - apply andb_prop in H. destruct H as [H1 H2]. apply pv_eqb_eq in H1. apply IH in H2. congruence.
  - inversion H; subst. rewrite pv_eqb_refl. apply IH. reflexivity.
Qed.

(* ------------------------------------------------------------------ attach *)
Fixpoint dkeys_nodup {V} (d : list (pv * V)) : Prop :=
  match d with
  | [] => True
  | (k, _) :: r => pv_assoc k r = None /\ dkeys_nodup r
  end.
Lemma pv_assoc_append k k2 x d :
  pv_assoc k2 (dict_append k x d) =
  if pv_eqb k k2 then Some (match pv_assoc k d with Some l => l ++ [x] | None => [x] end) else pv_assoc k2 d.
Proof.
  induction d as [|[a l] r IH]; cbn [dict_append pv_assoc].
  - destruct (pv_eqb k k2); reflexivity.
  - destruct (pv_eqb a k) eqn:E; cbn [pv_assoc].
    + apply pv_eqb_eq in E. subst a. destruct (pv_eqb k k2); reflexivity.
    + rewrite IH. destruct (pv_eqb k k2) eqn:E2; [|reflexivity]. apply pv_eqb_eq in E2. subst k2. rewrite E. reflexivity.
Qed.
Lemma nodup_append k x d : dkeys_nodup d -> dkeys_nodup (dict_append k x d).
Proof.
  induction d as [|[a l] r IH]; cbn [dict_append dkeys_nodup]; [auto|].
  intros [H1 H2]. destruct (pv_eqb a k) eqn:E; cbn [dkeys_nodup]; [auto|]. split; [|apply IH, H2].
  rewrite pv_assoc_append. rewrite pv_eqb_sym, E. exact H1.
Qed.
Lemma pv_assoc_pop {V} k k2 (d : list (pv * V)) : dkeys_nodup d ->
  pv_assoc k2 (dict_pop k d) = if pv_eqb k k2 then None else pv_assoc k2 d.
Proof.
  induction d as [|[a l] r IH]; cbn [dict_pop pv_assoc dkeys_nodup]; intros Hn.
  - destruct (pv_eqb k k2); reflexivity.
  - destruct Hn as [H1 H2]. destruct (pv_eqb a k) eqn:E.
    + apply pv_eqb_eq in E. subst a. destruct (pv_eqb k k2) eqn:E2; [|reflexivity].
      apply pv_eqb_eq in E2. subst k2. exact H1.
    + cbn [pv_assoc]. rewrite IH by exact H2. destruct (pv_eqb k k2) eqn:E2; [|reflexivity].
      apply pv_eqb_eq in E2. subst k2. rewrite E. reflexivity.
Qed.
Lemma nodup_pop {V} k (d : list (pv * V)) : dkeys_nodup d -> dkeys_nodup (dict_pop k d).
Proof.
  induction d as [|[a l] r IH]; cbn [dict_pop dkeys_nodup]; [auto|]. intros [H1 H2].
  destruct (pv_eqb a k) eqn:E; [exact H2|]. cbn [dkeys_nodup]. split; [|apply IH, H2].
  rewrite pv_assoc_pop by exact H2. rewrite pv_eqb_sym, E. exact H1.
Qed.
Definition mine (fs : list elem) (sid : pv) : list elem := filter (fun f => pv_eqb (mget k_seqid f) sid) fs.
Fixpoint marks (fs : list elem) (seen : list pv) (seqs : list (pv * list elem)) : list (pv * list elem * bool) :=
  match seqs with
  | [] => []
  | (sid, old) :: r => (sid, old, negb (existsb (pv_eqb sid) seen) && nonempty (mine fs sid)) :: marks fs (sid :: seen) r
  end.
Definition pick (add : bool) (fs : list elem) (u : list elem -> list elem) (p : pv * list elem * bool) : list elem :=
  let '(sid, old, fresh) := p in if fresh then attach_new add old (mine fs sid) else u old.
Lemma group1_fold fs : forall d, dkeys_nodup d ->
  let d' := fold_left (fun d x => dict_append (mget k_seqid x) x d) fs d in
  dkeys_nodup d' /\
  forall k, pv_assoc k d' = match pv_assoc k d with
                            | Some l => Some (l ++ mine fs k)
                            | None => if nonempty (mine fs k) then Some (mine fs k) else None
                            end.
Proof.
  induction fs as [|x r IH]; intros d Hn; cbn [fold_left].
  - split; [exact Hn|]. intros k. cbn. destruct (pv_assoc k d); [rewrite app_nil_r|]; reflexivity.
  - destruct (IH (dict_append (mget k_seqid x) x d) (nodup_append _ _ _ Hn)) as [H1 H2]. split; [exact H1|].
    intros k. rewrite H2, pv_assoc_append. unfold mine. cbn [filter].
    destruct (pv_eqb (mget k_seqid x) k) eqn:E.
    + apply pv_eqb_eq in E. subst k. destruct (pv_assoc (mget k_seqid x) d); [rewrite <- app_assoc|]; reflexivity.
    + reflexivity.
Qed.
Lemma group1_spec fs : dkeys_nodup (group1 fs) /\
  forall k, pv_assoc k (group1 fs) = if nonempty (mine fs k) then Some (mine fs k) else None.
Proof. destruct (group1_fold fs [] I) as [H1 H2]. split; [exact H1|]. intros k. rewrite H2. reflexivity. Qed.
Lemma attach_loop_spec add fs u : forall seqs seen d, dkeys_nodup d ->
  (forall k, pv_assoc k d = if existsb (pv_eqb k) seen then None else if nonempty (mine fs k) then Some (mine fs k) else None) ->
  fst (attach_loop (attach_new add) u seqs d) =
  map (pick add fs u)
      (marks fs seen seqs).
Proof.
  induction seqs as [|[sid old] r IH]; intros seen d Hn Hd; [reflexivity|].
  cbn [attach_loop map marks pick]. rewrite Hd.
  destruct (existsb (pv_eqb sid) seen) eqn:Es; cbn [negb andb].
  - specialize (IH (sid :: seen) d Hn). destruct (attach_loop (attach_new add) u r d) as [rs d'] eqn:A. cbn [fst] in *.
    f_equal. apply IH. intros k. rewrite Hd. cbn [existsb].
    destruct (pv_eqb k sid) eqn:E; [|reflexivity]. apply pv_eqb_eq in E. subst k. rewrite Es. reflexivity.
  - destruct (nonempty (mine fs sid)) eqn:Ne.
    + specialize (IH (sid :: seen) (dict_pop sid d) (nodup_pop _ _ Hn)).
      destruct (attach_loop (attach_new add) u r (dict_pop sid d)) as [rs d'] eqn:A. cbn [fst] in *.
      f_equal. apply IH. intros k. rewrite pv_assoc_pop by exact Hn. rewrite Hd. cbn [existsb].
      rewrite (pv_eqb_sym k sid). destruct (pv_eqb sid k); reflexivity.
    + specialize (IH (sid :: seen) d Hn). destruct (attach_loop (attach_new add) u r d) as [rs d'] eqn:A. cbn [fst] in *.
      f_equal. apply IH. intros k. rewrite Hd. cbn [existsb].
      destruct (pv_eqb k sid) eqn:E; [|reflexivity]. apply pv_eqb_eq in E. subst k. rewrite Es, Ne. reflexivity.
Qed.
Lemma attach_spec_eq add fs : forall seqs seen,
  map (pick add fs (fun old => old))
      (marks fs seen seqs) = attach_spec add seen seqs fs.
Proof.
  induction seqs as [|[sid old] r IH]; intros seen; [reflexivity|]. cbn [map attach_spec marks pick]. rewrite IH. reflexivity.
Qed.
(* basket.fts = fs / add_fts leave exactly attach_spec in the sequences *)
Lemma attach_set_spec add seqs fs : m_attach add seqs fs = attach_spec add [] seqs fs.
Proof.
  unfold m_attach. destruct (group1_spec fs) as [Hn Hd].
  rewrite (attach_loop_spec add fs (fun old => old) seqs [] (group1 fs) Hn); [apply attach_spec_eq|].
  intros k. rewrite Hd. reflexivity.
Qed.

(* ------------------------------------------------------------------ groupby, complete characterisation *)
Lemma existsb_pv v l : existsb (pv_eqb v) l = true <-> In v l.
Proof.
  rewrite existsb_exists. split.
  - intros (y & Hy & E). apply pv_eqb_eq in E. subst. exact Hy.
  - intros H. exists v. split; [exact H|apply pv_eqb_refl].
Qed.
Lemma first_occ_snoc l v : first_occ (l ++ [v]) = add_key (first_occ l) v.
Proof. unfold first_occ. rewrite fold_left_app. reflexivity. Qed.
Lemma add_key_In acc v u : In u (add_key acc v) <-> In u acc \/ u = v.
Proof.
  unfold add_key. destruct (existsb (pv_eqb v) acc) eqn:E.
  - apply existsb_pv in E. split; [auto|]. intros [H|H]; [exact H|subst; exact E].
  - rewrite in_app_iff. cbn. split; intros [H|H]; auto. destruct H as [H|[]]; auto.
Qed.
Lemma add_key_NoDup acc v : NoDup acc -> NoDup (add_key acc v).
Proof.
  intros H. unfold add_key. destruct (existsb (pv_eqb v) acc) eqn:E; [exact H|].
  apply (Permutation_NoDup (Permutation_cons_append acc v)). constructor; [|exact H].
  intros Hin. apply existsb_pv in Hin. congruence.
Qed.
Lemma first_occ_rev_ind (P : list pv -> list pv -> Prop) :
  P [] [] -> (forall l v, P l (first_occ l) -> P (l ++ [v]) (add_key (first_occ l) v)) -> forall l, P l (first_occ l).
Proof.
  intros H0 Hs l. induction l as [|v l IH] using rev_ind; [exact H0|]. rewrite first_occ_snoc. apply Hs, IH.
Qed.
Lemma first_occ_In l u : In u (first_occ l) <-> In u l.
Proof.
  apply (first_occ_rev_ind (fun l fo => In u fo <-> In u l)); [reflexivity|].
  intros l0 v IH. rewrite add_key_In, in_app_iff, IH. cbn. intuition.
Qed.
Lemma first_occ_NoDup l : NoDup (first_occ l).
Proof.
  apply (first_occ_rev_ind (fun _ fo => NoDup fo)); [constructor|]. intros l0 v IH. apply add_key_NoDup, IH.
Qed.
Lemma upd_map (F : pv -> gtree) f mk v keys : NoDup keys ->
  upd_kids f mk v (map (fun u => (u, F u)) keys) =
  if existsb (pv_eqb v) keys then map (fun u => (u, if pv_eqb u v then f (F u) else F u)) keys
  else map (fun u => (u, F u)) keys ++ [(v, f mk)].
Proof.
  induction 1 as [|u r Hu Hr IH]; [reflexivity|]. cbn [map upd_kids existsb].
  rewrite (pv_eqb_sym v u). destruct (pv_eqb u v) eqn:E; cbn [orb].
  - apply pv_eqb_eq in E. subst u. f_equal. apply map_ext_in. intros a Ha.
    destruct (pv_eqb a v) eqn:E2; [|reflexivity]. apply pv_eqb_eq in E2. subst a. contradiction.
  - rewrite IH. destruct (existsb (pv_eqb v) r); reflexivity.
Qed.
Lemma gempty_spec kfs x : gempty (keypath kfs x) = spec_tree kfs [].
Proof. destruct kfs; reflexivity. Qed.
Lemma ginsert_spec_tree kfs x : forall objs,
  ginsert (keypath kfs x) x (spec_tree kfs objs) = spec_tree kfs (objs ++ [x]).
Proof.
  induction kfs as [|k kfs IH]; intros objs; [reflexivity|].
  cbn [keypath map spec_tree ginsert]. fold (keypath kfs x). f_equal.
  rewrite map_app. cbn [map]. rewrite first_occ_snoc.
  rewrite (upd_map (fun u => spec_tree kfs (filter (fun x0 => pv_eqb (keyval k x0) u) objs))) by apply first_occ_NoDup.
  unfold add_key. set (v := keyval k x). set (keys := first_occ (map (keyval k) objs)).
  assert (Hf : forall u, filter (fun x0 => pv_eqb (keyval k x0) u) (objs ++ [x]) =
                         filter (fun x0 => pv_eqb (keyval k x0) u) objs ++ (if pv_eqb v u then [x] else [])).
  { intros u. rewrite filter_app. cbn [filter]. fold v. destruct (pv_eqb v u); reflexivity. }
  destruct (existsb (pv_eqb v) keys) eqn:E.
  - apply map_ext. intros u. rewrite Hf, (pv_eqb_sym v u). destruct (pv_eqb u v) eqn:E2.
    + rewrite IH. reflexivity.
    + rewrite app_nil_r. reflexivity.
  - rewrite map_app. cbn [map]. f_equal.
    + apply map_ext_in. intros u Hu. rewrite Hf. destruct (pv_eqb v u) eqn:E2; [|rewrite app_nil_r; reflexivity].
      apply pv_eqb_eq in E2. subst u. apply existsb_pv in Hu. congruence.
    + rewrite Hf, pv_eqb_refl. rewrite gempty_spec.
      assert (Hnil : filter (fun x0 => pv_eqb (keyval k x0) v) objs = []).
      { destruct (filter (fun x0 => pv_eqb (keyval k x0) v) objs) as [|y l] eqn:Fl; [reflexivity|exfalso].
        assert (Hy : In y (y :: l)) by (left; reflexivity). rewrite <- Fl in Hy. apply filter_In in Hy. destruct Hy as [Hy1 Hy2].
        apply pv_eqb_eq in Hy2. assert (In v keys) by (apply first_occ_In, in_map_iff; exists y; auto).
        apply existsb_pv in H. congruence. }
      rewrite Hnil. rewrite IH. reflexivity.
Qed.
Lemma group_by_spec_tree kfs : kfs <> [] -> forall objs, group_by kfs objs = spec_tree kfs objs.
Proof.
  intros Hk objs. unfold group_by.
  assert (H : forall done, fold_left (fun t x => ginsert (keypath kfs x) x t) objs (spec_tree kfs done) = spec_tree kfs (done ++ objs)).
  { induction objs as [|x r IH]; intros done; cbn [fold_left]; [rewrite app_nil_r; reflexivity|].
    rewrite ginsert_spec_tree, IH, <- app_assoc. reflexivity. }
  specialize (H []). destruct kfs as [|k kfs']; [congruence|]. exact H.
Qed.
Lemma groupby_complete ks objs t : m_groupby ks objs = Ok t -> objs <> [] -> t = spec_tree (keyfuncs ks) objs.
Proof.
  unfold m_groupby. destruct objs as [|x0 r]; [congruence|]. intros H _.
  destruct (keyfuncs ks) as [|k kfs] eqn:K; [discriminate|].
  destruct (has_default (k :: kfs)); [discriminate|]. inversion H. apply group_by_spec_tree. discriminate.
Qed.

(* ------------------------------------------------------------------ todict *)
Lemma map_fst_dict_set {V} k (v : V) d : map fst (dict_set k v d) = add_key (map fst d) k.
Proof.
  unfold add_key. induction d as [|[a w] r IH]; [reflexivity|]. cbn [dict_set map fst existsb].
  rewrite (pv_eqb_sym k a). destruct (pv_eqb a k) eqn:E; cbn [orb map fst]; [reflexivity|].
  rewrite IH. destruct (existsb (pv_eqb k) (map fst r)); reflexivity.
Qed.
Lemma pv_assoc_dict_set {V} k k2 (v : V) d :
  pv_assoc k2 (dict_set k v d) = if pv_eqb k k2 then Some v else pv_assoc k2 d.
Proof.
  induction d as [|[a w] r IH]; cbn [dict_set pv_assoc].
  - destruct (pv_eqb k k2); reflexivity.
  - destruct (pv_eqb a k) eqn:E; cbn [pv_assoc].
    + apply pv_eqb_eq in E. subst a. destruct (pv_eqb k k2); reflexivity.
    + rewrite IH. destruct (pv_eqb k k2) eqn:E2; [|reflexivity]. apply pv_eqb_eq in E2. subst k2. rewrite E. reflexivity.
Qed.
Lemma todict_fold objs : forall (d : list (pv * elem)),
  let d' := fold_left (fun d x => dict_set (mget k_id x) x d) objs d in
  map fst d' = fold_left add_key (map (mget k_id) objs) (map fst d) /\
  forall k, pv_assoc k d' =
            fold_left (fun acc x => if pv_eqb (mget k_id x) k then Some x else acc) objs (pv_assoc k d).
Proof.
  induction objs as [|x r IH]; intros d; cbn [fold_left map]; [split; reflexivity|].
  destruct (IH (dict_set (mget k_id x) x d)) as [H1 H2]. split.
  - rewrite H1, map_fst_dict_set. reflexivity.
  - intros k. rewrite H2, pv_assoc_dict_set. reflexivity.
Qed.
(* {x.id: x for x in objs}: keys in order of first occurrence, each bound to the LAST element carrying it *)
Lemma todict_spec objs :
  map fst (m_todict objs) = first_occ (map (mget k_id) objs) /\
  forall k, pv_assoc k (m_todict objs) = last_with k objs.
Proof. destruct (todict_fold objs []) as [H1 H2]. split; [exact H1|exact H2]. Qed.
Lemma last_with_snoc k objs x :
  last_with k (objs ++ [x]) = if pv_eqb (mget k_id x) k then Some x else last_with k objs.
Proof. unfold last_with. rewrite fold_left_app. reflexivity. Qed.

(* ------------------------------------------------------------------ element equality is an equivalence *)
Lemma assoc_In {V} k (m : list (str * V)) v : assoc k m = Some v -> In (k, v) m.
Proof.
  induction m as [|[a w] r IH]; cbn [assoc]; [discriminate|].
  destruct (str_eqb a k) eqn:E; [|intros H; right; apply IH, H].
  apply str_eqb_eq in E. subst a. intros H. inversion H. left. reflexivity.
Qed.
Lemma In_assoc_some {V} k v (m : list (str * V)) : In (k, v) m -> assoc k m <> None.
Proof.
  induction m as [|[a w] r IH]; cbn [assoc]; [intros []|]. intros [H|H].
  - inversion H. subst. rewrite str_eqb_refl. discriminate.
  - destruct (str_eqb a k); [discriminate|apply IH, H].
Qed.
Lemma nodup_assoc {V} k v (m : list (str * V)) : nodup_keys m = true -> In (k, v) m -> assoc k m = Some v.
Proof.
  induction m as [|[a w] r IH]; cbn [nodup_keys assoc]; [intros _ []|].
  destruct (assoc a r) eqn:A; [discriminate|]. intros Hn [H|H].
  - inversion H. subst. rewrite str_eqb_refl. reflexivity.
  - destruct (str_eqb a k) eqn:E; [|apply IH; assumption].
    apply str_eqb_eq in E. subst a. exfalso. apply (In_assoc_some _ _ _ H). exact A.
Qed.
Lemma nodup_keys_NoDup {V} (m : list (str * V)) : nodup_keys m = true -> NoDup (map fst m).
Proof.
  induction m as [|[a w] r IH]; cbn [nodup_keys map fst]; [constructor|].
  destruct (assoc a r) eqn:A; [discriminate|]. intros Hn. constructor; [|apply IH, Hn].
  intros Hin. apply in_map_iff in Hin. destruct Hin as ([a' w'] & E & Hin). cbn in E. subst a'.
  apply (In_assoc_some _ _ _ Hin). exact A.
Qed.
Definition meta_sub (a b : list (str * pv)) : Prop := forall k v, In (k, v) a -> assoc k b = Some v.
Lemma meta_eqb_sub a b : meta_eqb a b = true <-> length a = length b /\ meta_sub a b.
Proof.
  unfold meta_eqb, meta_sub. rewrite andb_true_iff, Nat.eqb_eq, forallb_forall. split; intros [H1 H2]; split; auto.
  - intros k v Hin. specialize (H2 (k, v) Hin). cbn in H2. destruct (assoc k b) as [v'|]; [|discriminate].
    apply pv_eqb_eq in H2. congruence.
  - intros [k v] Hin. cbn. rewrite (H2 k v Hin). apply pv_eqb_refl.
Qed.
Lemma meta_eqb_refl a : nodup_keys a = true -> meta_eqb a a = true.
Proof. intros Hn. apply meta_eqb_sub. split; [reflexivity|]. intros k v Hin. apply nodup_assoc; assumption. Qed.
Lemma meta_eqb_sym a b : nodup_keys a = true -> nodup_keys b = true -> meta_eqb a b = true -> meta_eqb b a = true.
Proof.
  intros Ha Hb H. apply meta_eqb_sub in H. destruct H as [Hl Hs]. apply meta_eqb_sub. split; [symmetry; exact Hl|].
  assert (Hincl : incl (map fst b) (map fst a)).
  { apply NoDup_length_incl; [apply nodup_keys_NoDup, Ha | rewrite !map_length, Hl; apply le_n|].
    intros k Hk. apply in_map_iff in Hk. destruct Hk as ([k' v] & E & Hin). cbn in E. subst k'.
    apply Hs in Hin. apply assoc_In in Hin. apply in_map_iff. exists (k, v). auto. }
  intros k v' Hin.
  assert (Hk : In k (map fst a)) by (apply Hincl, in_map_iff; exists (k, v'); auto).
  apply in_map_iff in Hk. destruct Hk as ([k' v] & E & Hina). cbn in E. subst k'.
  pose proof (Hs k v Hina) as H1. rewrite (nodup_assoc k v' b Hb Hin) in H1. inversion H1. subst v'.
  apply nodup_assoc; assumption.
Qed.
Lemma meta_eqb_trans a b c : meta_eqb a b = true -> meta_eqb b c = true -> meta_eqb a c = true.
Proof.
  intros H1 H2. apply meta_eqb_sub in H1, H2. destruct H1 as [L1 S1], H2 as [L2 S2]. apply meta_eqb_sub.
  split; [congruence|]. intros k v Hin. apply S2. apply assoc_In. apply S1, Hin.
Qed.
Lemma locs_eqb_eq a : forall b, locs_eqb a b = true <-> a = b.
Proof.
  induction a as [|[s e] a IH]; intros [|[s' e'] b]; cbn [locs_eqb]; split; intros H; try discriminate; try reflexivity.
  - apply andb_prop in H. destruct H as [H H3]. apply andb_prop in H. destruct H as [H1 H2].
    apply Z.eqb_eq in H1, H2. apply IH in H3. congruence.
  - inversion H; subst. rewrite !Z.eqb_refl. cbn. apply IH. reflexivity.
Qed.
Lemma elem_eqb_parts x y : elem_eqb x y = true <->
  efeat x = efeat y /\ edata x = edata y /\ elocs x = elocs y /\ meta_eqb (emeta x) (emeta y) = true /\ eminus x = eminus y.
Proof.
  unfold elem_eqb. rewrite !andb_true_iff, !eqb_true_iff, str_eqb_eq, locs_eqb_eq. tauto.
Qed.
Lemma elem_eqb_equiv :
  (forall x, meta_ok x = true -> elem_eqb x x = true) /\
  (forall x y, meta_ok x = true -> meta_ok y = true -> elem_eqb x y = true -> elem_eqb y x = true) /\
  (forall x y z, elem_eqb x y = true -> elem_eqb y z = true -> elem_eqb x z = true).
Proof.
  repeat split.
  - intros x Hx. apply elem_eqb_parts. repeat split; try reflexivity. apply meta_eqb_refl, Hx.
  - intros x y Hx Hy H. apply elem_eqb_parts in H. destruct H as (H1 & H2 & H3 & H4 & H5). apply elem_eqb_parts.
    repeat split; try congruence. apply meta_eqb_sym; assumption.
  - intros x y z H1 H2. apply elem_eqb_parts in H1, H2. destruct H1 as (A1 & A2 & A3 & A4 & A5), H2 as (B1 & B2 & B3 & B4 & B5).
    apply elem_eqb_parts. repeat split; try congruence. eapply meta_eqb_trans; eassumption.
Qed.
Lemma elem_ok_meta_ok f x : elem_ok f x = true -> meta_ok x = true.
Proof. unfold elem_ok, meta_ok. intros H. repeat (apply andb_prop in H; destruct H as [H ?]). assumption. Qed.
(* so membership respects equality: an element equal to a member is a member *)
Lemma mem_respects x y l : elem_eqb x y = true -> mem y l = true -> mem x l = true.
Proof.
  intros Hxy H. apply existsb_exists in H. destruct H as (z & Hz & Hyz). apply existsb_exists. exists z. split; [exact Hz|].
  eapply (proj2 (proj2 elem_eqb_equiv)); eassumption.
Qed.

(* ------------------------------------------------------------------ sort: default keys *)
Lemma lex_le_true (le : elem -> elem -> bool) x y : lex le le_true x y = le x y.
Proof. unfold lex, le_true. destruct (le x y), (le y x); reflexivity. Qed.
Lemma sorted_ext (le1 le2 : elem -> elem -> bool) l : (forall x y, le1 x y = le2 x y) ->
  StronglySorted (fun x y => le1 x y = true) l -> StronglySorted (fun x y => le2 x y = true) l.
Proof.
  intros E. induction 1 as [|x r Hr IH Hall]; constructor; [exact IH|].
  eapply Forall_impl; [|exact Hall]. intros y Hy. cbn beta in *. rewrite <- E. exact Hy.
Qed.
(* one key: sorted by that key, ties in input order *)
Lemma sort_one_key k r objs :
  let le := dir r (key_le k) in
  m_sort (KsTuple [k]) r objs = isort le objs /\
  StronglySorted (fun x y => le x y = true) (m_sort (KsTuple [k]) r objs) /\
  (forall a, filter (eqv le a) (m_sort (KsTuple [k]) r objs) = filter (eqv le a) objs).
Proof.
  intros le. destruct (sort_spec (KsTuple [k]) r objs) as (H1 & _ & H3 & H4). cbn [keyfuncs] in *.
  assert (E : forall x y, lexle [k] r x y = le x y) by (intros; apply lex_le_true).
  split; [reflexivity|]. split.
  - eapply sorted_ext; [exact E|exact H3].
  - intros a. specialize (H4 a).
    assert (Ef : forall l, filter (eqv (lexle [k] r) a) l = filter (eqv le a) l).
    { intros l. apply filter_ext. intros z. unfold eqv. rewrite !E. reflexivity. }
    rewrite <- !Ef. exact H4.
Qed.
Lemma default_feature_order x y : efeat x = true -> efeat y = true ->
  key_le KDefault x y =
  negb (if pv_eqb (mget k_seqid y) (mget k_seqid x) then rng_ltb y x else pv_ltb (mget k_seqid y) (mget k_seqid x)).
Proof. intros Hx Hy. cbn [key_le]. unfold elem_ltb. rewrite Hx, Hy. destruct (pv_eqb (mget k_seqid y) (mget k_seqid x)); reflexivity. Qed.
Lemma default_seq_order x y : key_le (KMeta k_id) x y = negb (pv_ltb (mget k_id y) (mget k_id x)).
Proof. reflexivity. Qed.
Lemma rng_ltb_meaning x y : rng_ltb x y = (Z.ltb (fst (rng x)) (fst (rng y)) || (Z.eqb (fst (rng x)) (fst (rng y)) && Z.ltb (snd (rng x)) (snd (rng y)))).
Proof. unfold rng_ltb. destruct (rng x), (rng y). reflexivity. Qed.

(* ------------------------------------------------------------------ reflected operators, groupby leaves, matching *)
Lemma setops_reflected a b x :
  (In x (m_setop 4 a b) <-> In x b /\ mem x a = true) /\
  (In x (m_setop 5 a b) <-> In x b \/ (In x a /\ mem x b = false)) /\
  (In x (m_setop 6 a b) <-> In x a /\ mem x b = false) /\
  (In x (m_setop 7 a b) <-> In x (op_or b a) /\ mem x (op_and b a) = false).
Proof.
  destruct (setops_spec b a x) as (H1 & H2 & _ & H4). destruct (setops_spec a b x) as (_ & _ & H3 & _).
  cbn [m_setop]. tauto.
Qed.
Lemma group_nonempty (f : elem -> pv) objs v : In v (first_occ (map f objs)) ->
  filter (fun x => pv_eqb (f x) v) objs <> [].
Proof.
  intros H. apply first_occ_In, in_map_iff in H. destruct H as (x & E & Hx).
  intros Hnil. assert (Hin : In x (filter (fun x0 => pv_eqb (f x0) v) objs)) by (apply filter_In; split; [exact Hx|apply pv_eqb_eq, E]).
  rewrite Hnil in Hin. exact Hin.
Qed.
Lemma matches_meaning x s :
  mget k_type x = PStr s ->
  (forall u, matches (TOne u) x = str_eqb (lower s) (lower u)) /\
  (forall l, matches (TMany l) x = existsb (fun u => str_eqb (lower s) (lower u)) l).
Proof.
  intros H. unfold matches, type_matches. rewrite H. split; [reflexivity|]. intros l.
  induction l as [|u l IH]; [reflexivity|]. cbn [map existsb]. rewrite IH. reflexivity.
Qed.

Lemma noninplace_pure cur conds ks t code b : N.ltb code 8 = true ->
  step_next (HFilter false conds) cur = cur /\ step_next (HGroup ks) cur = cur /\ step_next (HSelect t) cur = cur /\
  step_next (HGet t) cur = cur /\ step_next HTodict cur = cur /\ step_next (HSetop code b) cur = cur.
Proof.
  intros H. repeat split. cbn [step_next]. destruct (N.leb 8 code) eqn:E; [|reflexivity].
  apply N.leb_le in E. apply N.ltb_lt in H. lia.
Qed.
