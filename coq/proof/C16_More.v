(* C16 proofs, round 6: uniqueness of the stable sort, the reverse law, get/select matching is equality (membership in the
   lower-cased tuple), containment operators, in-place forms refine the not-in-place ones, attaching features partitions
   them, str key specs, callable keys, algebra of the set operators. *)
From Coq Require Import List ZArith NArith Bool Lia Permutation Sorted.
From Coq.Strings Require Import Byte.
Import ListNotations.
From SV Require Import Text C16_StableSort C16_Model C16_Lemmas.

(* ------------------------------------------------------------------ the stable sort is unique *)
Section Unique.
Context {A : Type}.
Variable le : A -> A -> bool.
Hypothesis Hp : preorder le.

Lemma eqv_refl x : eqv le x x = true.
Proof. unfold eqv. destruct Hp as [Ht _]. destruct (Ht x x) as [H|H]; rewrite H; reflexivity. Qed.
Lemma eqv_sym x y : eqv le x y = eqv le y x.
Proof. unfold eqv. apply andb_comm. Qed.

(* two sorted lists whose classes of equivalent elements agree (as lists, i.e. with their order) are equal *)
Lemma sorted_classes_unique : forall l1 l2, sorted le l1 -> sorted le l2 ->
  (forall a, filter (eqv le a) l1 = filter (eqv le a) l2) -> l1 = l2.
Proof.
  induction l1 as [|x r1 IH]; intros l2 S1 S2 H.
  - destruct l2 as [|y r2]; [reflexivity|]. specialize (H y). cbn [filter] in H. rewrite eqv_refl in H. discriminate.
  - destruct l2 as [|y r2].
    + specialize (H x). cbn [filter] in H. rewrite eqv_refl in H. discriminate.
    + assert (Hxy : x = y).
      { pose proof (H x) as Hx. pose proof (H y) as Hy. cbn [filter] in Hx, Hy. rewrite eqv_refl in Hx, Hy.
        destruct (eqv le x y) eqn:Exy.
        - inversion Hx. reflexivity.
        - exfalso. rewrite (eqv_sym y x), Exy in Hy.
          assert (I1 : In y r1).
          { assert (I : In y (filter (eqv le y) r1)) by (rewrite Hy; left; reflexivity). apply filter_In in I. apply I. }
          assert (I2 : In x r2).
          { assert (I : In x (filter (eqv le x) r2)) by (rewrite <- Hx; left; reflexivity). apply filter_In in I. apply I. }
          inversion S1 as [|? ? _ F1]; subst. inversion S2 as [|? ? _ F2]; subst.
          rewrite Forall_forall in F1, F2. unfold eqv in Exy. rewrite (F1 y I1), (F2 x I2) in Exy. discriminate. }
      subst y. f_equal. apply IH; [inversion S1; assumption | inversion S2; assumption |].
      intros a. specialize (H a). cbn [filter] in H. destruct (eqv le a x); [inversion H; reflexivity | exact H].
Qed.
(* any sorted list in which every class keeps the order it had in l IS the stable sort of l *)
Lemma stable_sort_unique l l' : sorted le l' -> (forall a, filter (eqv le a) l' = filter (eqv le a) l) -> l' = isort le l.
Proof.
  intros S H. apply sorted_classes_unique; [exact S | apply isort_sorted, Hp |].
  intros a. rewrite H. symmetry. apply isort_stable. apply Hp.
Qed.
End Unique.

Lemma insert_ext {A} (le1 le2 : A -> A -> bool) x l : (forall a b, le1 a b = le2 a b) -> insert le1 x l = insert le2 x l.
Proof. intros E. induction l as [|y r IH]; [reflexivity|]. cbn [insert]. rewrite E, IH. reflexivity. Qed.
Lemma isort_ext {A} (le1 le2 : A -> A -> bool) l : (forall a b, le1 a b = le2 a b) -> isort le1 l = isort le2 l.
Proof. intros E. induction l as [|x r IH]; [reflexivity|]. cbn [isort]. rewrite IH. apply insert_ext, E. Qed.
Lemma filter_rev' {A} (p : A -> bool) l : filter p (rev l) = rev (filter p l).
Proof.
  induction l as [|x r IH]; [reflexivity|]. cbn [rev filter]. rewrite filter_app, IH. cbn [filter].
  destruct (p x); [reflexivity|]. cbn [rev]. apply app_nil_r.
Qed.
Lemma sorted_snoc {A} (le : A -> A -> bool) l x : sorted le l -> Forall (fun y => le y x = true) l -> sorted le (l ++ [x]).
Proof.
  intros S. induction S as [|y r Sr IH Hall]; intros F; cbn [app]; [constructor; constructor|].
  inversion F as [|? ? Fy Fr]; subst. constructor; [apply IH, Fr|].
  apply Forall_app. split; [exact Hall|]. constructor; [exact Fy|constructor].
Qed.
Lemma sorted_rev {A} (le : A -> A -> bool) l : sorted le l -> sorted (flip_le le) (rev l).
Proof.
  intros S. induction S as [|y r Sr IH Hall]; cbn [rev]; [constructor|].
  apply sorted_snoc; [exact IH|]. apply Forall_forall. intros z Hz. apply in_rev in Hz.
  rewrite Forall_forall in Hall. unfold flip_le. apply Hall, Hz.
Qed.
(* sorted(..., reverse=True): the stable sort by the flipped order = reverse . stable sort . reverse (what CPython does),
   which is NOT the reverse of the stable sort (ties would come out in reversed input order) *)
Lemma isort_flip_rev {A} (le : A -> A -> bool) l : preorder le -> isort (flip_le le) l = rev (isort le (rev l)).
Proof.
  intros Hp. symmetry. apply stable_sort_unique; [apply flip_preorder, Hp | apply sorted_rev, isort_sorted, Hp |].
  intros a. rewrite filter_rev'.
  assert (E : forall m, filter (eqv (flip_le le) a) m = filter (eqv le a) m).
  { intros m. apply filter_ext. intros z. unfold eqv, flip_le. apply andb_comm. }
  rewrite !E. rewrite isort_stable by apply Hp. rewrite filter_rev', rev_involutive. reflexivity.
Qed.
Lemma lexle_flip kfs : forall x y, lexle kfs true x y = lexle kfs false y x.
Proof.
  induction kfs as [|k kfs IH]; intros x y; [reflexivity|].
  rewrite !lexle_unfold. cbn [dir]. unfold flip_le. rewrite IH. reflexivity.
Qed.
Lemma sort_reverse_law ks objs : m_sort ks true objs = rev (m_sort ks false (rev objs)).
Proof.
  unfold m_sort. rewrite !sorted_by_lex.
  rewrite (isort_ext (lexle (keyfuncs ks) true) (flip_le (lexle (keyfuncs ks) false))) by (intros a b; apply lexle_flip).
  apply isort_flip_rev, lexle_preorder.
Qed.

(* ------------------------------------------------------------------ get / select: equality, membership in the lower-cased tuple *)
Lemma existsb_str_In s l : existsb (str_eqb s) l = true <-> In s l.
Proof.
  rewrite existsb_exists. split.
  - intros (y & Hy & E). apply str_eqb_eq in E. subst. exact Hy.
  - intros H. exists s. split; [exact H|apply str_eqb_refl].
Qed.
Lemma matches_tuple x s : mget k_type x = PStr s ->
  (forall l, matches (TMany l) x = true <-> In (lower s) (map lower l)) /\
  (forall u, matches (TOne u) x = matches (TMany [u]) x) /\
  (forall u, matches (TOne u) x = true <-> lower s = lower u) /\
  (forall l1 l2, (forall u, In u (map lower l1) <-> In u (map lower l2)) -> matches (TMany l1) x = matches (TMany l2) x).
Proof.
  intros H. unfold matches, type_matches. rewrite H. repeat split.
  - intros E. apply existsb_str_In, E.
  - intros E. apply existsb_str_In, E.
  - intros u. cbn [map existsb]. rewrite orb_false_r. reflexivity.
  - intros E. apply str_eqb_eq, E.
  - intros E. rewrite E. apply str_eqb_refl.
  - intros l1 l2 E. destruct (existsb (str_eqb (lower s)) (map lower l1)) eqn:E1.
    + symmetry. apply existsb_str_In, E, existsb_str_In, E1.
    + destruct (existsb (str_eqb (lower s)) (map lower l2)) eqn:E2; [|reflexivity].
      apply existsb_str_In, E, existsb_str_In in E2. congruence.
Qed.

(* is_prefix / is_infix are what their names say *)
Lemma is_prefix_spec a : forall b, is_prefix a b = true <-> exists q, b = a ++ q.
Proof.
  induction a as [|x a IH]; intros b; cbn [is_prefix].
  - split; [intros _; exists b; reflexivity | reflexivity].
  - destruct b as [|y b].
    + split; [discriminate | intros (q & E); discriminate].
    + rewrite andb_true_iff, IH. split.
      * intros (E & q & Hq). apply byte_eqb_eq in E. subst. exists q. reflexivity.
      * intros (q & E). inversion E; subst. split; [apply byte_eqb_refl | exists q; reflexivity].
Qed.
Lemma is_infix_spec a : forall b, is_infix a b = true <-> exists p q, b = p ++ a ++ q.
Proof.
  induction b as [|y b IH].
  - cbn [is_infix]. rewrite orb_false_r, is_prefix_spec. split.
    + intros (q & E). exists [], q. exact E.
    + intros (p & q & E). destruct p; [exists q; exact E | discriminate].
  - cbn [is_infix]. rewrite orb_true_iff, is_prefix_spec, IH. split.
    + intros [(q & E) | (p & q & E)]; [exists [], q; exact E | exists (y :: p), q; rewrite E; reflexivity].
    + intros (p & q & E). destruct p as [|z p]; [left; exists q; exact E|].
      right. inversion E; subst. exists p, q. reflexivity.
Qed.
(* the membership operators of filter: a list/tuple value is searched by ==, a str value by containment; lowerin lower-cases
   the element's value only, never the container; contains is containment the other way round *)
Lemma in_ops_meaning :
  (forall a l, apply_op OIn a (FL l) = Ok (existsb (pv_eqb a) l)) /\
  (forall a l, apply_op OIn a (FL l) = Ok true <-> In a l) /\
  (forall t s, apply_op OIn (PStr t) (FV (PStr s)) = Ok (is_infix t s)) /\
  (forall t s, apply_op OLowerin (PStr t) (FV (PStr s)) = Ok (is_infix (lower t) s)) /\
  (forall t l, apply_op OLowerin (PStr t) (FL l) = Ok (existsb (pv_eqb (PStr (lower t))) l)) /\
  (forall t s, apply_op OContains (PStr s) (FV (PStr t)) = Ok (is_infix t s)) /\
  (forall t v, apply_op OLowereq (PStr t) (FV v) = Ok (pv_eqb (PStr (lower t)) v)).
Proof.
  repeat split.
  - intros E. inversion E as [E']. apply existsb_pv, E'.
  - intros E. cbn. f_equal. apply existsb_pv, E.
Qed.
(* a key that is absent and a key bound to None read alike (getattr(meta, key, None)); a condition sees the element through
   getv only *)
Lemma missing_reads_none k x : (assoc k (emeta x) = None \/ assoc k (emeta x) = Some PNone) -> mget k x = PNone.
Proof. unfold mget. intros [H|H]; rewrite H; reflexivity. Qed.
Lemma cond_sees_getv c x y : (forall key, getv key x = getv key y) -> cond_eval c x = cond_eval c y.
Proof. intros E. unfold cond_eval. destruct (parse_cond c) as [[key o]|e]; [rewrite E|]; reflexivity. Qed.

(* ------------------------------------------------------------------ conditions combine with AND: their order is irrelevant *)
Lemma holds_all_perm conds conds' x : Permutation conds conds' -> holds_all conds x = holds_all conds' x.
Proof.
  unfold holds_all. induction 1 as [|c l l' _ IH|c d l|l l' l'' _ IH1 _ IH2]; cbn [forallb].
  - reflexivity.
  - rewrite IH. reflexivity.
  - rewrite !andb_assoc, (andb_comm (holds d x)). reflexivity.
  - congruence.
Qed.
Lemma filter_conds_perm conds conds' objs : Permutation conds conds' ->
  filter (holds_all conds) objs = filter (holds_all conds') objs.
Proof. intros P. apply filter_ext. intros x. apply holds_all_perm, P. Qed.
Lemma filter_app_conds c1 c2 objs : filter (holds_all (c1 ++ c2)) objs = filter (holds_all c2) (filter (holds_all c1) objs).
Proof.
  rewrite filter_filter. apply filter_ext. intros x. unfold holds_all. rewrite forallb_app. reflexivity.
Qed.

(* ------------------------------------------------------------------ in-place forms refine the not-in-place forms *)
Lemma inplace_refines conds objs l b code : m_filter conds objs = Ok l -> N.ltb code 4 = true ->
  m_filter_method false conds objs = Ok (l, objs) /\ m_filter_method true conds objs = Ok (l, l) /\
  step_next (HFilter true conds) objs = l /\ step_next (HFilter false conds) objs = objs /\
  step_next (HSetop (code + 8) b) objs = m_setop code objs b /\ m_setop (code + 8) objs b = m_setop code objs b.
Proof.
  intros H Hc. unfold m_filter_method. cbn [step_next]. rewrite H. repeat split.
  - assert (E : N.leb 8 (code + 8) = true) by (apply N.leb_le; lia). rewrite E.
    apply N.ltb_lt in Hc. destruct code as [|[[|[]|]|[|[]|]|]]; try reflexivity; lia.
  - apply N.ltb_lt in Hc. destruct code as [|[[|[]|]|[|[]|]|]]; try reflexivity; lia.
Qed.

(* ------------------------------------------------------------------ attaching features partitions them by seqid *)
Lemma filter_none {A} (p : A -> bool) l : (forall x, In x l -> p x = false) -> filter p l = [].
Proof.
  induction l as [|x r IH]; intros H; [reflexivity|]. cbn [filter]. rewrite (H x (or_introl eq_refl)).
  apply IH. intros y Hy. apply H. right. exact Hy.
Qed.
Lemma filter_all {A} (p : A -> bool) l : (forall x, In x l -> p x = true) -> filter p l = l.
Proof.
  induction l as [|x r IH]; intros H; [reflexivity|]. cbn [filter]. rewrite (H x (or_introl eq_refl)).
  f_equal. apply IH. intros y Hy. apply H. right. exact Hy.
Qed.
Lemma filter_split_perm {A} (p q : A -> bool) l :
  Permutation (filter p l) (filter (fun x => p x && q x) l ++ filter (fun x => p x && negb (q x)) l).
Proof.
  induction l as [|a l IH]; cbn [filter]; [constructor|].
  destruct (p a), (q a); cbn [andb negb app].
  - apply perm_skip, IH.
  - apply Permutation_cons_app, IH.
  - exact IH.
  - exact IH.
Qed.
Lemma filter_partition_perm {A} (p : A -> bool) l : Permutation (filter p l ++ filter (fun x => negb (p x)) l) l.
Proof.
  induction l as [|a l IH]; cbn [filter]; [constructor|]. destruct (p a); cbn [negb app].
  - apply perm_skip, IH.
  - apply Permutation_sym, Permutation_cons_app, Permutation_sym, IH.
Qed.
Lemma attach_partition_aux fs : forall seqs seen, (forall s, In s seqs -> snd s = []) ->
  Permutation (concat (attach_spec false seen seqs fs))
    (filter (fun f => existsb (pv_eqb (mget k_seqid f)) (map fst seqs) && negb (existsb (pv_eqb (mget k_seqid f)) seen)) fs).
Proof.
  induction seqs as [|[sid old] r IH]; intros seen Hold.
  - cbn [attach_spec concat map existsb andb]. rewrite filter_none; [constructor|reflexivity].
  - assert (old = []) by (apply (Hold (sid, old)); left; reflexivity). subst old.
    cbn [attach_spec concat map fst existsb].
    eapply Permutation_trans; [|apply Permutation_sym, (filter_split_perm _ (fun f => pv_eqb (mget k_seqid f) sid))].
    apply Permutation_app.
    + (* the group of this sequence *)
      match goal with |- Permutation ?g _ => assert (Eg : g = if existsb (pv_eqb sid) seen then [] else
                                                     filter (fun f => pv_eqb (mget k_seqid f) sid) fs) end.
      { destruct (existsb (pv_eqb sid) seen); cbn [negb andb]; [reflexivity|].
        destruct (filter (fun f => pv_eqb (mget k_seqid f) sid) fs); reflexivity. }
      rewrite Eg. clear Eg. destruct (existsb (pv_eqb sid) seen) eqn:Es.
      * rewrite filter_none; [constructor|]. intros f _. cbn beta.
        destruct (pv_eqb (mget k_seqid f) sid) eqn:E; [|rewrite andb_false_r; reflexivity].
        apply pv_eqb_eq in E. rewrite E, Es. reflexivity.
      * match goal with |- Permutation ?a ?b => assert (Eb : b = a); [|rewrite Eb; apply Permutation_refl] end.
        apply filter_ext_in. intros f _. cbn beta.
        destruct (pv_eqb (mget k_seqid f) sid) eqn:E; [|rewrite andb_false_r; reflexivity].
        apply pv_eqb_eq in E. rewrite E, Es. reflexivity.
    + (* the others *)
      eapply Permutation_trans; [apply IH; intros s Hs; apply Hold; right; exact Hs|].
      match goal with |- Permutation ?a ?b => assert (Eb : a = b); [|rewrite Eb; apply Permutation_refl] end.
      apply filter_ext. intros f. cbn beta. cbn [existsb].
      destruct (pv_eqb (mget k_seqid f) sid); cbn [orb negb andb]; [rewrite !andb_false_r|rewrite andb_true_r]; reflexivity.
Qed.
(* basket.fts = fs on a basket without features: the attached features followed by those whose seqid no sequence has are a
   permutation of fs (nothing lost, nothing attached twice), every sequence's list preserving the order of fs *)
Lemma attach_partition seqs fs : (forall s, In s seqs -> snd s = []) ->
  Permutation (concat (m_attach false seqs fs) ++
               filter (fun f => negb (existsb (pv_eqb (mget k_seqid f)) (map fst seqs))) fs) fs.
Proof.
  intros Hold. rewrite attach_set_spec.
  eapply Permutation_trans; [apply Permutation_app_tail, (attach_partition_aux fs seqs [] Hold)|].
  cbn [existsb negb].
  rewrite (filter_ext _ (fun f => existsb (pv_eqb (mget k_seqid f)) (map fst seqs))) by (intros f; apply andb_true_r).
  apply filter_partition_perm.
Qed.
Lemma attach_new_In add old g f : In f (attach_new add old g) -> In f old \/ In f g.
Proof.
  destruct add; cbn [attach_new]; [|auto]. intros H. unfold default_sort in H.
  destruct (sort_spec (KsOne KDefault) false (old ++ g)) as (_ & P & _).
  apply in_app_or. eapply Permutation_in; [exact P|exact H].
Qed.
(* whatever a sequence holds afterwards it held before or is a given feature whose seqid equals the sequence's id *)
Lemma attach_member add fs : forall seqs seen i sid old g, nth_error seqs i = Some (sid, old) ->
  nth_error (attach_spec add seen seqs fs) i = Some g ->
  forall f, In f g -> In f old \/ (In f fs /\ mget k_seqid f = sid).
Proof.
  induction seqs as [|[sid0 old0] r IH]; intros seen [|i] sid old g H1 H2 f Hf; cbn [nth_error attach_spec] in *; try discriminate.
  - inversion H1; subst. inversion H2; subst. clear H1 H2.
    destruct (negb (existsb (pv_eqb sid) seen) && nonempty (filter (fun f0 => pv_eqb (mget k_seqid f0) sid) fs)); [|left; exact Hf].
    apply attach_new_In in Hf. destruct Hf as [Hf|Hf]; [left; exact Hf|right].
    apply filter_In in Hf. destruct Hf as [Hf E]. split; [exact Hf|apply pv_eqb_eq, E].
  - eapply IH; eassumption.
Qed.
Lemma attach_length add fs : forall seqs seen, length (attach_spec add seen seqs fs) = length seqs.
Proof. induction seqs as [|[sid old] r IH]; intros seen; [reflexivity|]. cbn [attach_spec length]. rewrite IH. reflexivity. Qed.
(* add_fts: the new list of a receiving sequence is the stable default-order sort of old ++ new *)
Lemma add_fts_sorted old g :
  attach_new true old g = isort (key_le KDefault) (old ++ g) /\
  Permutation (attach_new true old g) (old ++ g) /\
  StronglySorted (fun x y => key_le KDefault x y = true) (attach_new true old g) /\
  (forall a, filter (eqv (key_le KDefault) a) (attach_new true old g) = filter (eqv (key_le KDefault) a) (old ++ g)).
Proof.
  cbn [attach_new]. unfold default_sort.
  destruct (sort_one_key KDefault false (old ++ g)) as (E & S & St). cbn [dir] in *.
  change (m_sort (KsOne KDefault) false (old ++ g)) with (m_sort (KsTuple [KDefault]) false (old ++ g)).
  repeat split; try assumption. rewrite E. apply isort_perm.
Qed.

(* ------------------------------------------------------------------ a key string is split like str.split() *)
Definition nows (w : str) : bool := forallb (fun c => negb (is_ws c)) w.
Lemma split_ws_aux_word w : forall cur, nows w = true -> nonempty (cur ++ w) = true -> split_ws_aux w cur = [rev cur ++ w].
Proof.
  induction w as [|c w IH]; intros cur Hw Hne.
  - rewrite app_nil_r in *. destruct cur; [discriminate|reflexivity].
  - cbn [nows forallb] in Hw. apply andb_prop in Hw. destruct Hw as [Hc Hw]. apply negb_true_iff in Hc.
    cbn [split_ws_aux]. rewrite Hc. rewrite IH; [|exact Hw|destruct w; reflexivity].
    cbn [rev]. rewrite <- app_assoc. reflexivity.
Qed.
Lemma split_ws_aux_sep a sep b : is_ws sep = true -> forall cur,
  split_ws_aux (a ++ sep :: b) cur = split_ws_aux a cur ++ split_ws_aux b [].
Proof.
  intros Hs. induction a as [|c a IH]; intros cur.
  - cbn [app split_ws_aux]. rewrite Hs. destruct cur; reflexivity.
  - cbn [app split_ws_aux]. destruct (is_ws c).
    + destruct cur; rewrite IH; reflexivity.
    + apply IH.
Qed.
Lemma split_ws_spec :
  split_ws [] = [] /\
  (forall w, nows w = true -> nonempty w = true -> split_ws w = [w]) /\
  (forall a sep b, is_ws sep = true -> split_ws (a ++ sep :: b) = split_ws a ++ split_ws b) /\
  (forall s, keyfuncs (KsStr s) = map KMeta (split_ws s)).
Proof.
  repeat split.
  - intros w Hw Hne. apply (split_ws_aux_word w [] Hw Hne).
  - intros a sep b Hs. apply (split_ws_aux_sep a sep b Hs []).
Qed.

(* ------------------------------------------------------------------ callable keys *)
Lemma callable_keys x y r objs :
  keyval KNegLen x = PInt (- elen x) /\ keyval KConst x = PInt 0 /\
  (forall s t, mget s x = PStr t -> keyval (KLowerMeta s) x = PStr (lower t)) /\
  (forall s v, keyval (KMetaOr s v) x = match assoc s (emeta x) with Some w => w | None => v end) /\
  key_le KNegLen x y = negb (Z.ltb (elen x) (elen y)) /\
  (* a constant key: everything ties, the order stays as it is - in both directions *)
  m_sort (KsOne KConst) r objs = objs.
Proof.
  repeat split.
  - intros s t H. cbn [keyval]. rewrite H. reflexivity.
  - cbn [key_le keyval pv_ltb]. f_equal. destruct (Z.ltb_spec (- elen y) (- elen x)), (Z.ltb_spec (elen x) (elen y)); try reflexivity; lia.
  - unfold m_sort. rewrite sorted_by_lex. cbn [keyfuncs].
    rewrite (isort_ext _ le_true); [apply isort_le_true|].
    intros a b. cbn [lexle fold_right]. rewrite lex_le_true. destruct r; reflexivity.
Qed.

(* ------------------------------------------------------------------ group keys, dict keys: Python == on None / int / str *)
Lemma key_identity :
  (forall a b, pv_eqb a b = true <-> a = b) /\
  (forall z s, pv_eqb (PInt z) (PStr s) = false /\ pv_eqb (PStr s) (PInt z) = false) /\
  (forall s, pv_eqb PNone (PStr s) = false /\ pv_eqb (PStr s) PNone = false) /\
  (forall l v, ~ In v l -> first_occ (l ++ [v]) = first_occ l ++ [v]).
Proof.
  repeat split; try (apply pv_eqb_eq).
  intros l v H. rewrite first_occ_snoc. unfold add_key.
  destruct (existsb (pv_eqb v) (first_occ l)) eqn:E; [|reflexivity].
  apply existsb_pv in E. apply (proj1 (first_occ_In l v)) in E. contradiction.
Qed.

(* ------------------------------------------------------------------ algebra of the set operators *)
Lemma mem_self x a : meta_ok x = true -> In x a -> mem x a = true.
Proof. intros Hx Hin. apply mem_spec. exists x. split; [exact Hin|apply (proj1 elem_eqb_equiv), Hx]. Qed.
Lemma setops_algebra a : forallb meta_ok a = true ->
  op_and a a = a /\ op_or a a = a /\ op_sub a a = [] /\ op_xor a a = [] /\
  op_and a [] = [] /\ op_or a [] = a /\ op_sub a [] = a /\ op_xor a [] = a /\
  op_and [] a = [] /\ op_sub [] a = [].
Proof.
  intros H. rewrite forallb_forall in H.
  assert (Hm : forall x, In x a -> mem x a = true) by (intros x Hx; apply mem_self; [apply H, Hx|exact Hx]).
  assert (E1 : op_and a a = a) by (apply filter_all, Hm).
  assert (E2 : op_or a a = a).
  { unfold op_or. rewrite filter_none; [apply app_nil_r|]. intros x Hx. rewrite (Hm x Hx). reflexivity. }
  assert (E3 : op_sub a a = []).
  { unfold op_sub. apply filter_none. intros x Hx. rewrite (Hm x Hx). reflexivity. }
  assert (E4 : op_and a [] = []) by (apply filter_none; reflexivity).
  assert (E5 : op_or a [] = a) by apply app_nil_r.
  assert (E6 : op_sub a [] = a) by (apply filter_all; reflexivity).
  repeat split; try assumption.
  - unfold op_xor. rewrite E1, E2. exact E3.
  - unfold op_xor. rewrite E4, E5. exact E6.
Qed.

(* ------------------------------------------------------------------ the regenerated operator table is the documented one *)
Lemma op_table_is_documented : op_table = op_table_documented.
Proof. reflexivity. Qed.
Lemma fop_codes_injective a b o : fop_of_code a = Some o -> fop_of_code b = Some o -> a = b.
Proof.
  destruct a as [|[[[|[]|]|[[]|[]|]|]|[[|[]|]|[|[]|]|]|]], b as [|[[[|[]|]|[[]|[]|]|]|[[|[]|]|[|[]|]|]|]];
    cbn; intros H1 H2; try discriminate; try reflexivity; destruct o; discriminate.
Qed.

(* ------------------------------------------------------------------ witnesses *)
Lemma attach_member_m add seqs fs :
  length (m_attach add seqs fs) = length seqs /\
  forall i sid old g, nth_error seqs i = Some (sid, old) -> nth_error (m_attach add seqs fs) i = Some g ->
  forall f, In f g -> In f old \/ (In f fs /\ mget k_seqid f = sid).
Proof. rewrite attach_set_spec. split; [apply attach_length|]. intros i sid old g. apply attach_member. Qed.
Definition w_a0 : elem := Ft 0 [(0, 1)%Z] [(bs "name"%bs, PStr (bs "a"%bs))].
Definition w_a1 : elem := Ft 1 [(0, 1)%Z] [(bs "name"%bs, PStr (bs "a"%bs))].
(* reverse=True is not "sort, then reverse": two elements with equal keys keep their input order *)
Lemma reverse_not_reversed_sort : exists ks objs, wf_C16 (RSort objs ks true) = true /\
  m_sort ks true objs = objs /\ m_sort ks true objs <> rev (m_sort ks false objs).
Proof.
  exists (KsStr (bs "name"%bs)), [w_a0; w_a1]. split; [reflexivity|]. split; [reflexivity|].
  vm_compute. intros H. discriminate H.
Qed.
Definition w_gene : elem := Ft 0 [(0, 3)%Z] [(k_type, PStr (bs "gene"%bs))].
Definition w_notype : elem := Ft 1 [(0, 3)%Z] [(k_type, PStr [])].
(* a type contained in the request (gene in Pseudogene, the empty type in anything) does not match *)
Lemma matching_not_containment : exists x y u, wf_C16 (RGet [x; y] (TOne u)) = true /\
  (exists s, mget k_type x = PStr s /\ is_infix (lower s) (lower u) = true) /\
  (exists s, mget k_type y = PStr s /\ is_infix (lower s) (lower u) = true) /\
  matches (TOne u) x = false /\ matches (TOne u) y = false /\ m_get (TOne u) [x; y] = Ok None /\
  m_select (TMany [u; u]) [x; y] = Ok [].
Proof.
  exists w_gene, w_notype, (bs "Pseudogene"%bs). split; [reflexivity|].
  split; [exists (bs "gene"%bs); split; reflexivity|]. split; [exists []; split; reflexivity|]. repeat split.
Qed.

(* ------------------------------------------------------------------ basket.fts (getter), BioSeq.add_fts *)
Lemma filter_concat {A} (p : A -> bool) ls : filter p (concat ls) = concat (map (filter p) ls).
Proof. induction ls as [|l r IH]; [reflexivity|]. cbn [concat map]. rewrite filter_app, IH. reflexivity. Qed.
Lemma basket_fts_select t ls : forallb type_ok (m_basket_fts ls) = true ->
  m_select t (m_basket_fts ls) = Ok (concat (map (filter (matches t)) ls)) /\
  m_get t (m_basket_fts ls) = Ok (hd_error (concat (map (filter (matches t)) ls))).
Proof. intros H. destruct (select_spec t _ H) as [H1 H2]. unfold m_basket_fts in *. rewrite <- filter_concat. split; assumption. Qed.
Lemma seq_add_fts_spec old fs :
  m_seq_add_fts old fs = attach_new true old fs /\ m_seq_add_fts old fs = m_sort (KsOne KDefault) false (old ++ fs) /\
  Permutation (m_seq_add_fts old fs) (old ++ fs).
Proof. repeat split. apply (proj1 (proj2 (add_fts_sorted old fs))). Qed.

(* ------------------------------------------------------------------ groupby partitions: the groups, read off in order, are a permutation of the input *)
Lemma flat_map_perm {A B} (g h : A -> list B) l : (forall a, Permutation (g a) (h a)) ->
  Permutation (flat_map g l) (flat_map h l).
Proof. intros H. induction l as [|a r IH]; [constructor|]. cbn [flat_map]. apply Permutation_app; [apply H|exact IH]. Qed.
Lemma classes_perm (f : elem -> pv) objs : forall vs, NoDup vs ->
  Permutation (flat_map (fun v => filter (fun x => pv_eqb (f x) v) objs) vs) (filter (fun x => existsb (pv_eqb (f x)) vs) objs).
Proof.
  induction vs as [|v r IH]; intros Hn.
  - cbn [flat_map existsb]. rewrite filter_none; [constructor|reflexivity].
  - inversion Hn as [|? ? Hv Hr]; subst. cbn [flat_map].
    eapply Permutation_trans; [|apply Permutation_sym, (filter_split_perm _ (fun x => pv_eqb (f x) v))].
    apply Permutation_app.
    + match goal with |- Permutation ?a ?b => assert (E : a = b); [|rewrite E; apply Permutation_refl] end.
      apply filter_ext. intros x. cbn beta. cbn [existsb]. destruct (pv_eqb (f x) v); [reflexivity|rewrite andb_false_r; reflexivity].
    + eapply Permutation_trans; [apply IH, Hr|].
      match goal with |- Permutation ?a ?b => assert (E : a = b); [|rewrite E; apply Permutation_refl] end.
      apply filter_ext. intros x. cbn beta. cbn [existsb]. destruct (pv_eqb (f x) v) eqn:E; cbn [orb negb andb].
      * apply pv_eqb_eq in E. rewrite E.
        destruct (existsb (pv_eqb v) r) eqn:Ex; [|reflexivity]. apply existsb_pv in Ex. contradiction.
      * rewrite andb_true_r. reflexivity.
Qed.
Lemma leaves_spec_tree kfs : forall objs, Permutation (leaves (spec_tree kfs objs)) objs.
Proof.
  induction kfs as [|k kfs IH]; intros objs; [apply Permutation_refl|].
  cbn [spec_tree leaves]. rewrite flat_map_concat_map, map_map, <- flat_map_concat_map. cbn [snd].
  eapply Permutation_trans; [apply flat_map_perm; intros v; apply IH|].
  eapply Permutation_trans; [apply classes_perm, first_occ_NoDup|].
  rewrite filter_all; [apply Permutation_refl|].
  intros x Hx. apply existsb_pv, first_occ_In, in_map, Hx.
Qed.
Lemma groupby_leaves ks objs t : m_groupby ks objs = Ok t ->
  Permutation (leaves t) objs /\ (objs <> [] -> leaves t = leaves (spec_tree (keyfuncs ks) objs)).
Proof.
  intros H. destruct objs as [|x r].
  - unfold m_groupby in H. inversion H. split; [constructor|congruence].
  - assert (E : t = spec_tree (keyfuncs ks) (x :: r)) by (apply (groupby_complete ks _ _ H); discriminate).
    subst t. split; [apply leaves_spec_tree|reflexivity].
Qed.
