(* C02 proofs, part 2: LocationTuple ordering and the TSV/CSV column arithmetic. *)
From Coq Require Import List ZArith NArith Bool Lia Permutation Sorted.
From Coq.Strings Require Import Byte.
Import ListNotations.
From SV Require Import Text G_gff C02_Model.
Local Open Scope Z_scope.

Section Ins.
  Variable le : loc -> loc -> bool.
  Variable R : loc -> loc -> Prop.
  Hypothesis le_R : forall a b, le a b = true -> R a b.
  Hypothesis nle_R : forall a b, le a b = false -> R b a.
  Hypothesis R_trans : forall a b c, R a b -> R b c -> R a c.
  Fixpoint ins (x : loc) (l : list loc) : list loc :=
    match l with [] => [x] | y :: r => if le x y then x :: l else y :: ins x r end.
  Lemma ins_perm x l : Permutation (ins x l) (x :: l).
  Proof.
    induction l as [|y r IH]; cbn; [apply Permutation_refl|].
    destruct (le x y); [apply Permutation_refl|].
    eapply Permutation_trans; [apply perm_skip, IH|apply perm_swap].
  Qed.
  Lemma ins_sorted x l : StronglySorted R l -> StronglySorted R (ins x l).
  Proof.
    induction l as [|y r IH]; intros S; cbn.
    - constructor; constructor.
    - inversion S as [|? ? Sr Fy]; subst. destruct (le x y) eqn:E.
      + constructor; [exact S|]. constructor; [apply le_R; exact E|].
        eapply Forall_impl; [|exact Fy]. intros z Hz. eapply R_trans; [apply le_R; exact E|exact Hz].
      + constructor; [apply IH; exact Sr|].
        eapply Permutation_Forall; [apply Permutation_sym, ins_perm|]. constructor; [apply nle_R; exact E|exact Fy].
  Qed.
  Lemma ins_head x l : Forall (fun y => le x y = true) l -> ins x l = x :: l.
  Proof. intros F. destruct l as [|y r]; [reflexivity|]. cbn. inversion F; subst. rewrite H1. reflexivity. Qed.
End Ins.

Lemma ins_asc_eq x l : ins_asc x l = ins (fun a b => Z.leb (lstart a) (lstart b)) x l.
Proof. induction l as [|y r IH]; cbn; [reflexivity|]. rewrite IH. reflexivity. Qed.
Lemma ins_desc_eq x l : ins_desc x l = ins (fun a b => Z.leb (lstop b) (lstop a)) x l.
Proof. induction l as [|y r IH]; cbn; [reflexivity|]. rewrite IH. reflexivity. Qed.

Lemma sort_asc_cons x l : sort_asc (x :: l) = ins_asc x (sort_asc l).
Proof. reflexivity. Qed.
Lemma sort_desc_cons x l : sort_desc (x :: l) = ins_desc x (sort_desc l).
Proof. reflexivity. Qed.
Lemma sort_asc_perm l : Permutation (sort_asc l) l.
Proof.
  induction l as [|x l IH]; cbn; [constructor|]. rewrite ins_asc_eq.
  eapply Permutation_trans; [apply ins_perm|]. apply perm_skip, IH.
Qed.
Lemma sort_desc_perm l : Permutation (sort_desc l) l.
Proof.
  induction l as [|x l IH]; cbn; [constructor|]. rewrite ins_desc_eq.
  eapply Permutation_trans; [apply ins_perm|]. apply perm_skip, IH.
Qed.
Lemma sort_asc_sorted l : asc_sorted (sort_asc l).
Proof.
  unfold asc_sorted. induction l as [|x l IH]; cbn; [constructor|]. rewrite ins_asc_eq.
  apply ins_sorted; try exact IH; cbn; intros; lia.
Qed.
Lemma sort_desc_sorted l : desc_sorted (sort_desc l).
Proof.
  unfold desc_sorted. induction l as [|x l IH]; cbn; [constructor|]. rewrite ins_desc_eq.
  apply ins_sorted; try exact IH; cbn; intros; lia.
Qed.
Lemma sort_asc_fix l : asc_sorted l -> sort_asc l = l.
Proof.
  unfold asc_sorted. induction l as [|x l IH]; intros S; [reflexivity|]. inversion S; subst.
  rewrite sort_asc_cons. rewrite IH by assumption. rewrite ins_asc_eq. apply ins_head.
  eapply Forall_impl; [|eassumption]. cbn. intros; lia.
Qed.
Lemma sort_desc_fix l : desc_sorted l -> sort_desc l = l.
Proof.
  unfold desc_sorted. induction l as [|x l IH]; intros S; [reflexivity|]. inversion S; subst.
  rewrite sort_desc_cons. rewrite IH by assumption. rewrite ins_desc_eq. apply ins_head.
  eapply Forall_impl; [|eassumption]. cbn. intros; lia.
Qed.

(* LocationTuple: result is a permutation of the input in 5'->3' order, and ordering again changes nothing *)
Theorem loc_order : forall l,
  Permutation (sort_asc l) l /\ asc_sorted (sort_asc l) /\ sort_asc (sort_asc l) = sort_asc l /\
  Permutation (sort_desc l) l /\ desc_sorted (sort_desc l) /\ sort_desc (sort_desc l) = sort_desc l.
Proof.
  intros l. repeat split.
  - apply sort_asc_perm. - apply sort_asc_sorted. - apply sort_asc_fix, sort_asc_sorted.
  - apply sort_desc_perm. - apply sort_desc_sorted. - apply sort_desc_fix, sort_desc_sorted.
Qed.
Theorem loc_tuple_spec : forall l l', loc_tuple l = Some l' ->
  l <> [] /\ one_strand l = true /\
  match l with
  | x :: _ => if byte_eqb (lstrand x) "-"%byte then l' = sort_desc l else l' = sort_asc l
  | [] => False
  end.
Proof.
  intros [|x r] l'; cbn [loc_tuple]; [discriminate|].
  destruct (one_strand (x :: r)) eqn:O; [|discriminate]. intros H. inversion H; subst.
  split; [discriminate|]. split; [reflexivity|]. destruct (byte_eqb (lstrand x) "-"%byte); reflexivity.
Qed.

(* ------------------------------------------------------------------ TSV/CSV: any two of start/stop/len recover the range *)
Lemma xkey_eqb_eq a b : xkey_eqb a b = true -> a = b.
Proof. destruct a, b; cbn; intros H; try discriminate; reflexivity. Qed.
Lemma cell_of_map (g : xkey -> cell) k ks : cell_of k ks (map g ks) = if xhas k ks then Some (g k) else None.
Proof.
  induction ks as [|a ks IH]; cbn; [reflexivity|].
  destruct (xkey_eqb k a) eqn:E; cbn; [apply xkey_eqb_eq in E; subst; reflexivity|exact IH].
Qed.
Lemma zmin_list_le l : forall d, zmin_list d l <= d.
Proof. unfold zmin_list. induction l as [|x l IH]; intros d; cbn; [lia|]. specialize (IH (Z.min d x)). lia. Qed.
Lemma zmax_list_ge l : forall d, d <= zmax_list d l.
Proof. unfold zmax_list. induction l as [|x l IH]; intros d; cbn; [lia|]. specialize (IH (Z.max d x)). lia. Qed.
Lemma range_lt ls : ls <> [] -> forallb (fun l => Z.ltb (lstart l) (lstop l)) ls = true ->
  fst (loc_range ls) < snd (loc_range ls).
Proof.
  destruct ls as [|l r]; [congruence|]. intros _ H. cbn in H. apply andb_prop in H. destruct H as [H _].
  cbn [loc_range fst snd]. pose proof (zmin_list_le (map lstart r) (lstart l)). pose proof (zmax_list_ge (map lstop r) (lstop l)). lia.
Qed.

Definition feat_type (f : feat) : option str := match aget k_type (fmeta f) with Some (AS t) => Some t | _ => None end.
Definition feat_strand (f : feat) : byte := match flocs f with l :: _ => lstrand l | [] => "?"%byte end.

Theorem xsv_arith : forall ks f, xsel ks = true -> fst (loc_range (flocs f)) < snd (loc_range (flocs f)) ->
  xrecord ks (xrow ks f) =
  Some (Some (if xhas KType ks then feat_type f else None,
              fst (loc_range (flocs f)), snd (loc_range (flocs f)),
              if xhas KStrand ks then feat_strand f else "?"%byte)).
Proof.
  intros ks f S L. unfold xrecord, xrow. rewrite !cell_of_map. unfold xsel in S.
  set (a := fst (loc_range (flocs f))) in *. set (b := snd (loc_range (flocs f))) in *.
  assert (Z.ltb a b = true) as Lb by (apply Z.ltb_lt; exact L).
  destruct (xhas KStart ks), (xhas KStop ks), (xhas KLen ks); cbn in S; try discriminate S; cbn [cellZ];
    replace (a + (b - a)) with b by lia; replace (b - (b - a)) with a by lia; rewrite Lb;
    unfold feat_type, feat_strand; destruct (xhas KType ks), (xhas KStrand ks); reflexivity.
Qed.
